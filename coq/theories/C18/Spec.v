(* C18 — declarative side: hypotheses on histories, the ghost record "what the
   last builds were run on", and the statements. *)
From Coq Require Import List Arith Bool Lia.
From GV Require Import Common.Outcome C18.Model.
Import ListNotations.

(* ---- hypotheses on a history ------------------------------------------- *)

(* Times.  Every operation happens at a time that is not earlier than the
   previous one (an edit stamps the source with it, a build stamps what it
   writes).  In particular an edit may carry exactly the modification time of
   the output the last build wrote (coarse timestamps, a fast edit/build loop).
     clock_weak:     nothing more — a build may even happen in the same tick as
                     the edit before it, so that the output it writes is not
                     newer than its source;
     clock_monotone: additionally every BUILD happens strictly later than the
                     operation before it ("an edit is not older than the last
                     written output, a written output is newer than its source"). *)
Definition later (strict : bool) (t0 t : nat) (o : op) : Prop :=
  match o with
  | Build => if strict then t0 < t else t0 <= t
  | _ => t0 <= t
  end.
Fixpoint mono_from (strict : bool) (t0 : nat) (h : hist) : Prop :=
  match h with
  | [] => True
  | (t, o) :: h' => later strict t0 t o /\ mono_from strict t h'
  end.
Definition clock_monotone (h : hist) : Prop := mono_from true 0 h.
Definition clock_weak (h : hist) : Prop := mono_from false 0 h.
Definition clock_monotone_weak_stmt : Prop := forall h, clock_monotone h -> clock_weak h.

(* the settings the build script ever has in a history *)
Fixpoint used (c0 : settings) (h : hist) : list settings :=
  match h with
  | [] => [c0]
  | (_, SetOpt c) :: h' => c :: used c0 h'
  | _ :: h' => used c0 h'
  end.

(* cache_injective: among the settings that occur, two that produce the same
   cache string produce the same parser file *)
Definition cache_injective_on (U : list settings) : Prop :=
  forall c1 c2 y, In c1 U -> In c2 U ->
    cache_of c1 (y_toks y) = cache_of c2 (y_toks y) -> gen_y y c1 = gen_y y c2.
Definition cache_injective (c0 : settings) (h : hist) : Prop := cache_injective_on (used c0 h).

(* WHICH inputs of the generated text the cache string covers.  The generated
   parser file [gen_y y c] is a function of the grammar text, of the recorded
   vector [cache_of c (y_toks y)] (the CACHE INFORMATION comment is part of the
   file) and of two type names spliced into the code: StorageT/LexerTypesT
   ([p_st]) and — under the yacc kinds with action wrappers — LexemeT ([eff_lx]).
   Injectivity between two settings holds exactly when equal cache strings
   force these two to be equal. *)
Definition cache_misses_exactly_type_params_stmt : Prop :=
  forall c1 c2 y,
    (cache_of c1 (y_toks y) = cache_of c2 (y_toks y) -> gen_y y c1 = gen_y y c2) <->
    (cache_of c1 (y_toks y) = cache_of c2 (y_toks y) -> p_st c1 = p_st c2 /\ eff_lx c1 = eff_lx c2).

(* the builders as they are (0fd20df, 9933a08) record both type names *)
Definition type_params_recorded (c : settings) : Prop := p_stc c = p_st c /\ p_lxc c = p_lx c.

(* ... and then the recorded vector IS the list of inputs the generated text
   depends on besides the grammar text: two settings generate the same file from
   a grammar text iff they give the same cache string.  (<-: nothing the text
   depends on is missing from the vector; ->: nothing is recorded that does not
   show in the file, so no setting change is invisible in the output either.)
   The grammar text itself is covered by the modification-time test, see
   not_regenerated_implies_unchanged. *)
Definition cache_records_all_generated_inputs_stmt : Prop :=
  forall c1 c2 y, type_params_recorded c1 -> type_params_recorded c2 ->
    (gen_y y c1 = gen_y y c2 <-> cache_of c1 (y_toks y) = cache_of c2 (y_toks y)).

(* every history of such a builder satisfies cache_injective: for the code as it
   is the hypothesis of the theorems below is always met *)
Definition type_params_recorded_in (c0 : settings) (h : hist) : Prop :=
  forall c, In c (used c0 h) -> type_params_recorded c.
Definition type_params_recorded_cache_injective_stmt : Prop :=
  forall c0 h, type_params_recorded_in c0 h -> cache_injective c0 h.

(* a builder that does not record them: histories that never change them *)
Definition type_params_fixed (c0 : settings) (h : hist) : Prop :=
  forall c, In c (used c0 h) -> p_st c = p_st c0 /\ p_lx c = p_lx c0.
Definition type_params_fixed_cache_injective_stmt : Prop :=
  forall c0 h, type_params_fixed c0 h -> cache_injective c0 h.

(* each of the two is needed: with LEXEME_T left out of the vector (the code
   before 9933a08: p_lxc constant) two settings that differ only in LexemeT give
   the same cache string and different files; likewise STORAGE_T/LEXER_TYPES_T *)
Definition lexemet_unrecorded_refuted_stmt : Prop :=
  exists c1 c2 y, p_stc c1 = p_st c1 /\ p_stc c2 = p_st c2 /\ p_lxc c1 = 0 /\ p_lxc c2 = 0 /\
    cache_of c1 (y_toks y) = cache_of c2 (y_toks y) /\ gen_y y c1 <> gen_y y c2.
Definition storaget_unrecorded_refuted_stmt : Prop :=
  exists c1 c2 y, p_lxc c1 = p_lx c1 /\ p_lxc c2 = p_lx c2 /\ p_stc c1 = 0 /\ p_stc c2 = 0 /\
    cache_of c1 (y_toks y) = cache_of c2 (y_toks y) /\ gen_y y c1 <> gen_y y c2.

(* ---- outcome of a build ------------------------------------------------ *)
Definition build_ok (r : outcome bres) : Prop :=
  exists b, r = Done b /\ b_err b = None.
Definition build_failed (r : outcome bres) : Prop :=
  r = Panic \/ exists b e, r = Done b /\ b_err b = Some e.

(* is the parser builder reached, and with what result *)
Definition parser_stage (m : mode) (fixed : bool) (s : state) (t : nat) : option pres :=
  match m with
  | MParser => Some (fst (fst (parser_build fixed s t)))
  | MCombined => if l_syn (s_l s) then Some (fst (fst (parser_build fixed s t))) else None
  end.

(* ---- what "the configuration the parser was generated from" is --------- *)
(* grammar text, its modification time, and the file a clean build generates
   from text and settings *)
Definition pconf (s : state) : ysrc * nat * ycontent :=
  (s_y s, s_ymt s, gen_y (s_y s) (s_cfg s)).

(* ghost record threaded along a history:
   g_last_ok: configuration of the most recent build whose parser stage succeeded
   g_prev:    configuration of the most recent build, if its parser stage succeeded *)
Record ghost := { g_last_ok : option (ysrc * nat * ycontent); g_prev : option (ysrc * nat * ycontent) }.
Definition ghost0 : ghost := {| g_last_ok := None; g_prev := None |}.

Definition ghost_step (m : mode) (fixed : bool) (s : state) (t : nat) (o : op) (g : ghost) : ghost :=
  match o with
  | Build =>
      match parser_stage m fixed s t with
      | Some (POk _) => {| g_last_ok := Some (pconf s); g_prev := Some (pconf s) |}
      | _ => {| g_last_ok := g_last_ok g; g_prev := None |}
      end
  | _ => g
  end.

Fixpoint runG (m : mode) (fixed : bool) (s : state) (g : ghost) (h : hist) : state * ghost :=
  match h with
  | [] => (s, g)
  | (t, o) :: h' => runG m fixed (fst (step m fixed s t o)) (ghost_step m fixed s t o g) h'
  end.

(* ---- statements -------------------------------------------------------- *)

(* After any history (fresh times, cache-injective settings) a build that
   succeeds leaves exactly the files a build into an empty directory leaves.
   Holds for the code as it is and for the repaired variant. *)
Definition incremental_equals_clean_stmt : Prop :=
  forall m fixed y0 l0 c0 h t,
    clock_weak (h ++ [(t, Build)]) ->
    cache_injective c0 h ->
    let s := run m fixed (init y0 l0 c0) h in
    build_ok (snd (build_step m fixed s t)) ->
    outputs (fst (build_step m fixed s t)) = clean_build m fixed s t.

(* the regenerated flag: (1) if the configuration is that of the immediately
   preceding build (whose parser stage succeeded) nothing is regenerated, the
   flag says so and the file is not written; (2) if the flag says "not
   regenerated" the configuration (text, mtime, generated file) is exactly that
   of the most recent build whose parser stage succeeded — any change since,
   or no earlier build, means regeneration; (3) when the most recent build's
   parser stage succeeded both coincide: regenerated <-> changed. *)
Definition regenerated_iff_changed_stmt : Prop :=
  forall m fixed y0 l0 c0 h t regen,
    clock_monotone (h ++ [(t, Build)]) ->
    cache_injective c0 h ->
    let '(s, g) := runG m fixed (init y0 l0 c0) ghost0 h in
    parser_stage m fixed s t = Some (POk regen) ->
    (g_prev g = Some (pconf s) -> regen = false) /\
    (regen = false -> g_last_ok g = Some (pconf s)) /\
    (g_prev g = g_last_ok g -> (regen = true <-> g_last_ok g <> Some (pconf s))) /\
    (forall b, snd (build_step m fixed s t) = Done b -> b_ywritten b = regen).

(* the safe direction needs no strictness at all: whenever the flag says "not
   regenerated" (and nothing is written), the configuration — text, mtime,
   generated file — is that of the most recent build whose parser stage
   succeeded.  An edit in the same tick as the last output therefore always
   causes regeneration (the skip test is a strict "output newer than source"). *)
Definition not_regenerated_implies_unchanged_stmt : Prop :=
  forall m fixed y0 l0 c0 h t regen,
    clock_weak (h ++ [(t, Build)]) ->
    cache_injective c0 h ->
    let '(s, g) := runG m fixed (init y0 l0 c0) ghost0 h in
    parser_stage m fixed s t = Some (POk regen) ->
    (regen = false -> g_last_ok g = Some (pconf s)) /\
    (forall b, snd (build_step m fixed s t) = Done b -> b_ywritten b = regen).

(* ... while "unchanged -> not regenerated" does need builds to be later than
   the sources they read: a build in the same tick as the edit writes an output
   that is not newer than its source, and the next build regenerates *)
Definition rebuild_is_noop_needs_later_build_refuted_stmt : Prop :=
  exists m fixed y0 l0 c0 h t1 t2,
    clock_weak (h ++ [(t1, Build); (t2, Build)]) /\
    let s := run m fixed (init y0 l0 c0) h in
    let s1 := fst (build_step m fixed s t1) in
    build_ok (snd (build_step m fixed s t1)) /\
    parser_stage m fixed s1 t2 = Some (POk true).

Definition runG_fst_stmt : Prop :=
  forall m fixed s g h, fst (runG m fixed s g h) = run m fixed s h.

(* building twice in a row: the second build reports "not regenerated" and
   touches nothing (contents and modification times) *)
Definition rebuild_is_noop_stmt : Prop :=
  forall m fixed y0 l0 c0 h t1 t2,
    clock_monotone (h ++ [(t1, Build); (t2, Build)]) ->
    let s := run m fixed (init y0 l0 c0) h in
    let s1 := fst (build_step m fixed s t1) in
    build_ok (snd (build_step m fixed s t1)) ->
    exists b, snd (build_step m fixed s1 t2) = Done b /\
      b_err b = None /\ b_pstage b = Some (POk false) /\
      b_ywritten b = false /\ b_lwritten b = false /\
      s_yout (fst (build_step m fixed s1 t2)) = s_yout s1 /\
      s_lout (fst (build_step m fixed s1 t2)) = s_lout s1.

(* no stale file after a failed build: each output is absent or is the file
   the (equally failing) build into an empty directory leaves *)
Definition no_stale (o clean : option ycontent * option lcontent) : Prop :=
  (fst o = None \/ fst o = fst clean) /\ (snd o = None \/ snd o = snd clean).

Definition failed_build_leaves_no_stale_for (fixed : bool) : Prop :=
  forall m y0 l0 c0 h t,
    clock_weak (h ++ [(t, Build)]) ->
    cache_injective c0 h ->
    let s := run m fixed (init y0 l0 c0) h in
    build_failed (snd (build_step m fixed s t)) ->
    no_stale (outputs (fst (build_step m fixed s t))) (clean_build m fixed s t).

(* the repaired builders *)
Definition failed_build_leaves_no_stale_fixed_stmt : Prop := failed_build_leaves_no_stale_for true.

(* the builders as they are: false *)
Definition failed_build_leaves_no_stale_refuted_stmt : Prop :=
  exists m y0 l0 c0 h t,
    clock_monotone (h ++ [(t, Build)]) /\ cache_injective c0 h /\
    let s := run m false (init y0 l0 c0) h in
    build_failed (snd (build_step m false s t)) /\
    ~ no_stale (outputs (fst (build_step m false s t))) (clean_build m false s t).

(* what does hold today: a failure at the conflict check has deleted the
   parser's output *)
Definition conflict_failure_deletes_parser_output_stmt : Prop :=
  forall m fixed s t b,
    snd (build_step m fixed s t) = Done b -> b_err b = Some EYConflict ->
    s_yout (fst (build_step m fixed s t)) = None.

(* without cache_injective the main theorem is false: the type parameter
   StorageT (the code before 0fd20df) ... *)
Definition incremental_equals_clean_needs_cache_injective_refuted_stmt : Prop :=
  exists m fixed y0 l0 c0 h t,
    clock_monotone (h ++ [(t, Build)]) /\
    let s := run m fixed (init y0 l0 c0) h in
    build_ok (snd (build_step m fixed s t)) /\
    outputs (fst (build_step m fixed s t)) <> clean_build m fixed s t.

(* ... and LexemeT (the code before 9933a08; the history of audit 2: build;
   the user's `impl LexerTypes` gets another `type LexemeT`; build) *)
Definition incremental_equals_clean_lexemet_unrecorded_refuted_stmt : Prop :=
  exists m fixed y0 l0 c0 c1 t,
    p_stc c0 = p_st c0 /\ p_stc c1 = p_st c1 /\ p_st c1 = p_st c0 /\
    clock_monotone ([(1, Build); (2, SetOpt c1)] ++ [(t, Build)]) /\
    let s := run m fixed (init y0 l0 c0) [(1, Build); (2, SetOpt c1)] in
    build_ok (snd (build_step m fixed s t)) /\
    parser_stage m fixed s t = Some (POk false) /\
    outputs (fst (build_step m fixed s t)) <> clean_build m fixed s t.

(* ---- concrete values for the witnesses and the satisfiability examples -- *)
Definition ex_y (id : nat) : ysrc := {| y_id := id; y_syn := true; y_warn := false; y_conf := false; y_toks := 0 |}.
Definition ex_l : lsrc := {| l_id := 0; l_syn := true; l_miss := false |}.
Definition ex_c : settings :=
  {| p_yk := 0; p_rec := 0; p_vis := 0; p_ed := 2; p_eoc := true; p_wae := true; p_sw := true;
     p_ser := 0; p_mod := 0; p_st := 2; p_stc := 0; p_lx := 0; p_lxc := 0; l_vis := 0; l_ed := 2; l_mod := 0; l_ci := 0 |}.
Definition ex_c_vis : settings :=
  {| p_yk := 0; p_rec := 0; p_vis := 1; p_ed := 2; p_eoc := true; p_wae := true; p_sw := true;
     p_ser := 0; p_mod := 0; p_st := 2; p_stc := 0; p_lx := 0; p_lxc := 0; l_vis := 0; l_ed := 2; l_mod := 0; l_ci := 0 |}.
Definition ex_c_st : settings :=
  {| p_yk := 0; p_rec := 0; p_vis := 0; p_ed := 2; p_eoc := true; p_wae := true; p_sw := true;
     p_ser := 0; p_mod := 0; p_st := 0; p_stc := 0; p_lx := 0; p_lxc := 0; l_vis := 0; l_ed := 2; l_mod := 0; l_ci := 0 |}.
(* the code as it is: both type names recorded; user actions (yacc kind 2) *)
Definition ex_r (st lx : nat) : settings :=
  {| p_yk := 2; p_rec := 0; p_vis := 0; p_ed := 2; p_eoc := true; p_wae := true; p_sw := true;
     p_ser := 0; p_mod := 0; p_st := st; p_stc := st; p_lx := lx; p_lxc := lx; l_vis := 0; l_ed := 2; l_mod := 0; l_ci := 0 |}.
(* the code before 9933a08: LexemeT not recorded *)
Definition ex_nolx (lx : nat) : settings :=
  {| p_yk := 2; p_rec := 0; p_vis := 0; p_ed := 2; p_eoc := true; p_wae := true; p_sw := true;
     p_ser := 0; p_mod := 0; p_st := 5; p_stc := 5; p_lx := lx; p_lxc := 0; l_vis := 0; l_ed := 2; l_mod := 0; l_ci := 0 |}.
(* the code before 0fd20df: StorageT/LexerTypesT not recorded *)
Definition ex_nost (st : nat) : settings :=
  {| p_yk := 2; p_rec := 0; p_vis := 0; p_ed := 2; p_eoc := true; p_wae := true; p_sw := true;
     p_ser := 0; p_mod := 0; p_st := st; p_stc := 0; p_lx := 1; p_lxc := 1; l_vis := 0; l_ed := 2; l_mod := 0; l_ci := 0 |}.
