(* C18 — statements about the manual-lexer build script (C18/TokModel.v): parser
   build, then token map build. *)
From Coq Require Import List Arith Bool Lia.
From GV Require Import Common.Outcome C18.Model C18.Spec C18.TokModel.
Import ListNotations.

(* the operations of C18/Model.v in a history of the manual flow (a change of the
   token map builder's settings reads and stamps no file) *)
Fixpoint base_hist_m (h : mhist) : hist :=
  match h with
  | [] => []
  | (t, MBase o) :: h' => (t, o) :: base_hist_m h'
  | (_, SetT _) :: h' => base_hist_m h'
  end.

Definition clock_weak_m (h : mhist) : Prop := clock_weak (base_hist_m h).
Definition clock_monotone_m (h : mhist) : Prop := clock_monotone (base_hist_m h).

(* the parser part of the manual flow IS the parser-alone script of C18/Model.v *)
Definition run_m_is_run_stmt : Prop :=
  forall renamed fixed tfixed x h,
    m_s (run_m renamed fixed tfixed x h) = run MParser fixed (m_s x) (base_hist_m h).

(* ---- outcome of a build of the flow -------------------------------------- *)
Definition parser_stage_ok (r : mres) : Prop := exists regen, mr_p r = POk regen.
Definition tokmap_stage_ok (r : mres) : Prop := exists w, mr_t r = Some (TOk w).
Definition tokmap_stage_failed (r : mres) : Prop := mr_t r = Some TErr \/ mr_t r = Some TPanic.

(* ---- the main statement -------------------------------------------------- *)
(* After any history of edits, setting changes (of either builder) and builds of
   the manual flow, a build whose parser stage succeeds leaves exactly the files a
   build of the same sources and settings into an empty OUT_DIR leaves: the parser
   output and the token map module — absent if the token map stage of the clean
   build fails, which it does exactly when the incremental one does.
   (The repaired token map builder, /repo 746e223; both variants of the parser
   builder.) *)
Definition tokmap_incremental_equals_clean_stmt : Prop :=
  forall renamed fixed y0 l0 c0 tc0 h t,
    clock_weak_m (h ++ [(t, MBase Build)]) ->
    cache_injective c0 (base_hist_m h) ->
    let x := run_m renamed fixed true (init_m y0 l0 c0 tc0) h in
    let r := snd (build_step_m renamed fixed true x t) in
    let rc := snd (build_step_m renamed fixed true (clean_mstate x) t) in
    parser_stage_ok r ->
    outputs_m (fst (build_step_m renamed fixed true x t)) = clean_build_m renamed fixed true x t /\
    parser_stage_ok rc /\
    (tokmap_stage_failed r <-> tokmap_stage_failed rc) /\
    (tokmap_stage_failed rc -> tokfile (fst (build_step_m renamed fixed true x t)) = None).

(* the token map stage alone, without any hypothesis on times or settings: what
   the repaired builder leaves at its module name is a function of its inputs *)
Definition tokmap_build_is_function_of_inputs_stmt : Prop :=
  forall renamed toks c old t,
    option_map fst (snd (tokmap_build renamed true toks c old t)) = gen_t renamed toks c.

(* the code before 746e223: false.  The auditor's history — G1 (all token names
   are identifiers); build; G2 (adds a token '*', no rename map entry; the ids of
   the other tokens move); build — ends with a regenerated parser, a FAILED token
   map stage and the module of G1 still in OUT_DIR; a clean build leaves none. *)
Definition tokmap_failed_build_leaves_stale_refuted_stmt : Prop :=
  exists renamed fixed y0 y1 l0 c0 tc0,
    let h := [(1, MBase Build); (2, MBase (EditY y1))] in
    clock_monotone_m (h ++ [(3, MBase Build)]) /\
    cache_injective c0 (base_hist_m h) /\
    let x := run_m renamed fixed false (init_m y0 l0 c0 tc0) h in
    let r := snd (build_step_m renamed fixed false x 3) in
    mr_p r = POk true /\
    tokmap_stage_failed r /\
    (exists old, tokfile (fst (build_step_m renamed fixed false x 3)) = Some old /\
                 gen_t renamed (y_toks y0) tc0 = Some old) /\
    snd (clean_build_m renamed fixed false x 3) = None.

(* "identical content is not rewritten", and only then: the stage writes iff the
   file is absent or differs from the text generated now *)
Definition tokmap_written_iff_changed_stmt : Prop :=
  forall renamed tfixed toks c old t w fo,
    tokmap_build renamed tfixed toks c old t = (TOk w, fo) ->
    exists text, gen_t renamed toks c = Some text /\
      (w = false -> fo = old /\ option_map fst old = Some text) /\
      (w = true -> fo = Some (text, t) /\ option_map fst old <> Some text).

(* building twice in a row: the second token map stage touches nothing (whatever
   the times, for both variants) *)
Definition tokmap_rebuild_is_noop_stmt : Prop :=
  forall renamed fixed tfixed x t1 t2,
    let x1 := fst (build_step_m renamed fixed tfixed x t1) in
    tokmap_stage_ok (snd (build_step_m renamed fixed tfixed x t1)) ->
    parser_stage_ok (snd (build_step_m renamed fixed tfixed x1 t2)) ->
    mr_t (snd (build_step_m renamed fixed tfixed x1 t2)) = Some (TOk false) /\
    forall j, m_tdir (fst (build_step_m renamed fixed tfixed x1 t2)) j = m_tdir x1 j.

(* a build touches no module but the one of its current module name *)
Definition tokmap_build_touches_only_its_file_stmt : Prop :=
  forall renamed fixed tfixed x t j,
    j <> t_mod (m_tcfg x) ->
    m_tdir (fst (build_step_m renamed fixed tfixed x t)) j = m_tdir x j.

(* ---- scope: a failing PARSER stage ---------------------------------------- *)
(* The build script ends at the parser builder's Err; the token map builder is a
   second, independent builder that is then never run: its file stays as it is
   (nothing in the library can remove it; CTLexerBuilder + lrpar_config, one
   builder driving the other, does remove the lexer output: C18/Model.v). *)
Definition manual_flow_parser_failure_keeps_tokmap_stmt : Prop :=
  forall renamed fixed tfixed x t e,
    mr_p (snd (build_step_m renamed fixed tfixed x t)) = PErr e ->
    mr_t (snd (build_step_m renamed fixed tfixed x t)) = None /\
    forall j, m_tdir (fst (build_step_m renamed fixed tfixed x t)) j = m_tdir x j.

(* ... so that the token map module of the earlier grammar is still there after it
   (repaired builders), where a clean build leaves nothing *)
Definition manual_flow_parser_failure_keeps_tokmap_witness_stmt : Prop :=
  exists renamed y0 y1 l0 c0 tc0,
    let h := [(1, MBase Build); (2, MBase (EditY y1))] in
    clock_monotone_m (h ++ [(3, MBase Build)]) /\
    let x := run_m renamed true true (init_m y0 l0 c0 tc0) h in
    (exists e, mr_p (snd (build_step_m renamed true true x 3)) = PErr e) /\
    (exists old, tokfile (fst (build_step_m renamed true true x 3)) = Some old) /\
    clean_build_m renamed true true x 3 = (None, None).

(* ---- concrete values ------------------------------------------------------ *)
(* G1: token map 0, every name an identifier; G2: token map 1 with a token '*';
   rename map 1 names it STAR *)
Definition ex_renamed (toks ren : nat) : option nat :=
  match toks, ren with
  | 0, _ => Some 0
  | 1, 1 => Some 1
  | _, _ => None
  end.
Definition ex_g1 : ysrc := {| y_id := 0; y_syn := true; y_warn := false; y_conf := false; y_toks := 0 |}.
Definition ex_g2 : ysrc := {| y_id := 1; y_syn := true; y_warn := false; y_conf := false; y_toks := 1 |}.
Definition ex_tc (ren : nat) : tsettings :=
  {| t_mod := 0; t_modok := true; t_st := 0; t_adc := false; t_ren := ren |}.
Definition ex_tc_odd : tsettings :=
  {| t_mod := 7; t_modok := false; t_st := 0; t_adc := false; t_ren := 0 |}.
