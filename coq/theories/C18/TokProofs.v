(* C18 — proofs about the manual-lexer build script (parser build ; token map build). *)
From Coq Require Import List Arith Bool Lia.
From GV Require Import Common.Outcome C18.Model C18.Spec C18.Proofs C18.TokModel C18.TokSpec.
Import ListNotations.

Lemma tcontent_eqb_eq : forall a b, tcontent_eqb a b = true <-> a = b.
Proof.
  intros [a1 a2 a3 a4] [b1 b2 b3 b4]. unfold tcontent_eqb. cbn.
  rewrite !andb_true_iff, !Nat.eqb_eq, Bool.eqb_true_iff. split.
  - intros [[[H1 H2] H3] H4]. subst. reflexivity.
  - intros H. inversion H. auto.
Qed.

Lemma tcontent_eqb_refl : forall a, tcontent_eqb a a = true.
Proof. intros a. apply tcontent_eqb_eq. reflexivity. Qed.

(* ---- the parser part is the script of C18/Model.v ------------------------ *)
Lemma build_step_m_state :
  forall renamed fixed tfixed x t,
    m_s (fst (build_step_m renamed fixed tfixed x t)) = fst (build_step MParser fixed (m_s x) t) /\
    m_tcfg (fst (build_step_m renamed fixed tfixed x t)) = m_tcfg x.
Proof.
  intros renamed fixed tfixed x t. unfold build_step_m.
  destruct (parser_build fixed (m_s x) t) as [[pr yo] yw].
  destruct pr as [regen|e].
  - destruct (tokmap_build renamed tfixed _ _ _ t) as [tr fo]. cbn. auto.
  - cbn. auto.
Qed.

Lemma step_m_state :
  forall renamed fixed tfixed x t o,
    m_s (fst (step_m renamed fixed tfixed x t (MBase o))) = fst (step MParser fixed (m_s x) t o).
Proof.
  intros renamed fixed tfixed x t o. destruct o as [y|l|c|]; try reflexivity.
  cbn [step_m step].
  destruct (build_step_m renamed fixed tfixed x t) as [x' r] eqn:Hb.
  destruct (build_step MParser fixed (m_s x) t) as [s' r'] eqn:Hs.
  cbn [fst].
  pose proof (build_step_m_state renamed fixed tfixed x t) as [H _].
  rewrite Hb, Hs in H. exact H.
Qed.

Lemma run_m_is_run : run_m_is_run_stmt.
Proof.
  intros renamed fixed tfixed x h. revert x.
  induction h as [|[t o] h IH]; intros x; [reflexivity|].
  cbn [run_m]. rewrite IH. destruct o as [o|c].
  - cbn [base_hist_m run]. rewrite step_m_state. reflexivity.
  - cbn [base_hist_m step_m fst m_s]. reflexivity.
Qed.

Lemma base_hist_m_app :
  forall h1 h2, base_hist_m (h1 ++ h2) = base_hist_m h1 ++ base_hist_m h2.
Proof.
  induction h1 as [|[t [o|c]] h1 IH]; intros h2; cbn; [reflexivity| |]; rewrite IH; reflexivity.
Qed.

(* ---- the token map stage -------------------------------------------------- *)
Lemma tokmap_build_is_function_of_inputs : tokmap_build_is_function_of_inputs_stmt.
Proof.
  intros renamed toks c old t. unfold tokmap_build, gen_t.
  destruct (t_modok c); cbn [negb]; [|reflexivity].
  destruct (renamed toks (t_ren c)) as [n|]; [|reflexivity].
  destruct old as [[oc omt]|]; [|reflexivity].
  destruct (tcontent_eqb oc _) eqn:He; [|reflexivity].
  apply tcontent_eqb_eq in He. subst oc. reflexivity.
Qed.

Lemma tokmap_build_failed_iff :
  forall renamed tfixed toks c old t,
    (fst (tokmap_build renamed tfixed toks c old t) = TErr \/
     fst (tokmap_build renamed tfixed toks c old t) = TPanic) <-> gen_t renamed toks c = None.
Proof.
  intros renamed tfixed toks c old t. unfold tokmap_build, gen_t.
  destruct (t_modok c); cbn [negb].
  2:{ cbn. split; auto. }
  destruct (renamed toks (t_ren c)) as [n|].
  2:{ cbn. split; auto. }
  destruct old as [[oc omt]|]; [destruct (tcontent_eqb oc _)|]; cbn;
    (split; [intros [H|H]; discriminate H | intros H; discriminate H]).
Qed.

Lemma tokmap_written_iff_changed : tokmap_written_iff_changed_stmt.
Proof.
  intros renamed tfixed toks c old t w fo H. unfold tokmap_build in H. unfold gen_t.
  destruct (t_modok c); cbn [negb] in H; [|discriminate H].
  destruct (renamed toks (t_ren c)) as [n|]; [|discriminate H].
  eexists. split; [reflexivity|].
  destruct old as [[oc omt]|].
  - destruct (tcontent_eqb oc _) eqn:He; inversion H; subst w fo; clear H.
    + apply tcontent_eqb_eq in He. subst oc. split; [auto | intros D; discriminate D].
    + split; [intros D; discriminate D|]. intros _. split; [reflexivity|].
      cbn. intros D. inversion D as [D']. rewrite D' in He.
      rewrite tcontent_eqb_refl in He. discriminate He.
  - inversion H; subst w fo. split; [intros D; discriminate D|].
    intros _. split; [reflexivity | intros D; discriminate D].
Qed.

Lemma tdir_set_same : forall d k v, tdir_set d k v k = v.
Proof. intros d k v. unfold tdir_set. rewrite Nat.eqb_refl. reflexivity. Qed.

Lemma tdir_set_other : forall d k v j, j <> k -> tdir_set d k v j = d j.
Proof.
  intros d k v j H. unfold tdir_set. destruct (j =? k) eqn:E; [|reflexivity].
  apply Nat.eqb_eq in E. contradiction.
Qed.

(* ---- the main theorem ------------------------------------------------------ *)
Lemma tokmap_incremental_equals_clean : tokmap_incremental_equals_clean_stmt.
Proof.
  intros renamed fixed y0 l0 c0 tc0 h t Hm Hinj x r rc [regen Hok].
  unfold clock_weak_m in Hm. rewrite base_hist_m_app in Hm. cbn [base_hist_m] in Hm.
  destruct (inv_at_end MParser fixed y0 l0 c0 (base_hist_m h) t Build Hm) as [HI Hnow].
  assert (Hs : m_s x = run MParser fixed (init y0 l0 c0) (base_hist_m h)).
  { subst x. rewrite run_m_is_run. reflexivity. }
  rewrite <- Hs in HI, Hnow.
  subst r rc. unfold clean_build_m.
  unfold build_step_m in *. unfold build_step, build_step_with.
  destruct (parser_build fixed (m_s x) t) as [[pr yo] yw] eqn:Hp.
  destruct pr as [regen'|e].
  2:{ cbn in Hok. discriminate Hok. }
  destruct (parser_build_ok _ _ _ _ _ _ _ _ HI Hinj Hnow Hp) as [H1 [H2 [H3 [_ [mt [Hyo _]]]]]].
  cbn [clean_mstate m_s m_tcfg m_tdir].
  rewrite (parser_build_clean_ok fixed (m_s x) t H1 H2 H3).
  cbn [clean_state s_y].
  set (toks := y_toks (s_y (m_s x))). set (c := m_tcfg x).
  pose proof (tokmap_build_is_function_of_inputs renamed toks c (m_tdir x (t_mod c)) t) as Hinc.
  pose proof (tokmap_build_is_function_of_inputs renamed toks c (tdir_empty (t_mod c)) t) as Hcl.
  pose proof (tokmap_build_failed_iff renamed true toks c (m_tdir x (t_mod c)) t) as Finc.
  pose proof (tokmap_build_failed_iff renamed true toks c (tdir_empty (t_mod c)) t) as Fcl.
  destruct (tokmap_build renamed true toks c (m_tdir x (t_mod c)) t) as [tr fo].
  destruct (tokmap_build renamed true toks c (tdir_empty (t_mod c)) t) as [trc foc].
  cbn [fst snd] in *.
  unfold outputs_m, tokfile, tokmap_stage_failed, parser_stage_ok.
  cbn [fst snd m_s m_tcfg m_tdir mr_t mr_p upd_out s_yout].
  rewrite !tdir_set_same. rewrite Hyo, Hinc, Hcl. cbn [option_map fst].
  split; [reflexivity|]. split; [eexists; reflexivity|].
  assert (Hsome : forall a, (Some a = Some TErr \/ Some a = Some TPanic) <-> (a = TErr \/ a = TPanic)).
  { intros a. split; intros [H|H]; inversion H; auto. }
  split.
  - split; intros H; apply Hsome; apply Hsome in H.
    + apply Fcl. apply Finc. exact H.
    + apply Finc. apply Fcl. exact H.
  - intros H. apply Hsome in H. apply Fcl. exact H.
Qed.

(* ---- pinned variant: refuted ------------------------------------------------ *)
Lemma tokmap_failed_build_leaves_stale_refuted : tokmap_failed_build_leaves_stale_refuted_stmt.
Proof.
  exists ex_renamed, true, ex_g1, ex_g2, ex_l, ex_c, (ex_tc 0).
  cbn zeta. split; [cbn; lia|]. split.
  - apply ex_cache_injective_single. intros t c H. cbn in H.
    repeat (destruct H as [H|H]; [discriminate H|]). destruct H.
  - split; [vm_compute; reflexivity|]. split; [left; vm_compute; reflexivity|].
    split; [eexists; split; vm_compute; reflexivity|]. vm_compute. reflexivity.
Qed.

(* the repaired builder on the same history: the module is gone *)
Example tokmap_failed_build_fixed_on_witness :
  let h := [(1, MBase Build); (2, MBase (EditY ex_g2))] in
  let x := run_m ex_renamed true true (init_m ex_g1 ex_l ex_c (ex_tc 0)) h in
  tokmap_stage_failed (snd (build_step_m ex_renamed true true x 3)) /\
  outputs_m (fst (build_step_m ex_renamed true true x 3)) = clean_build_m ex_renamed true true x 3 /\
  tokfile (fst (build_step_m ex_renamed true true x 3)) = None.
Proof. cbn zeta. split; [left; vm_compute; reflexivity|]. split; vm_compute; reflexivity. Qed.

(* ---- rebuilds, frame --------------------------------------------------------- *)
Lemma tokmap_rebuild_is_noop : tokmap_rebuild_is_noop_stmt.
Proof.
  intros renamed fixed tfixed x t1 t2 x1 [w Hw] [regen Hok].
  pose proof (build_step_m_state renamed fixed tfixed x t1) as [Hst Hcfg].
  pose proof (build_step_frame MParser fixed (m_s x) t1) as [Hy _]. cbn zeta in Hy.
  fold x1 in Hst, Hcfg.
  assert (Hfile : exists text mt, gen_t renamed (y_toks (s_y (m_s x))) (m_tcfg x) = Some text /\
                                  m_tdir x1 (t_mod (m_tcfg x)) = Some (text, mt)).
  { subst x1. unfold build_step_m in *.
    destruct (parser_build fixed (m_s x) t1) as [[pr yo] yw].
    destruct pr as [rg|e]; [|cbn in Hw; discriminate Hw].
    destruct (tokmap_build renamed tfixed (y_toks (s_y (m_s x))) (m_tcfg x) (m_tdir x (t_mod (m_tcfg x))) t1) as [tr fo] eqn:Ht.
    cbn in Hw. inversion Hw; subst tr.
    destruct (tokmap_written_iff_changed renamed tfixed _ _ _ _ _ _ Ht) as [text [Hg [Hf Ht']]].
    cbn [fst m_tdir]. rewrite tdir_set_same. exists text.
    destruct w.
    - destruct (Ht' eq_refl) as [Hfo _]. subst fo. eexists. split; [exact Hg | reflexivity].
    - destruct (Hf eq_refl) as [Hfo Hold]. subst fo.
      destruct (m_tdir x (t_mod (m_tcfg x))) as [[oc omt]|]; [|discriminate Hold].
      cbn in Hold. inversion Hold; subst oc. exists omt. split; [exact Hg | reflexivity]. }
  destruct Hfile as [text [mt [Hg Hd]]].
  unfold build_step_m in *.
  destruct (parser_build fixed (m_s x1) t2) as [[pr yo] yw].
  destruct pr as [rg|e]; [|cbn in Hok; discriminate Hok].
  rewrite Hcfg, Hst, Hy, Hd.
  unfold tokmap_build. unfold gen_t in Hg.
  destruct (t_modok (m_tcfg x)); [|discriminate Hg]. cbn [negb].
  destruct (renamed (y_toks (s_y (m_s x))) (t_ren (m_tcfg x))) as [n|]; [|discriminate Hg].
  inversion Hg as [Hg']. rewrite Hg'. rewrite tcontent_eqb_refl.
  cbn [fst snd mr_t m_tdir]. split; [reflexivity|].
  intros j. unfold tdir_set. destruct (j =? t_mod (m_tcfg x)) eqn:E; [|reflexivity].
  apply Nat.eqb_eq in E. subst j. symmetry. exact Hd.
Qed.

Lemma tokmap_build_touches_only_its_file : tokmap_build_touches_only_its_file_stmt.
Proof.
  intros renamed fixed tfixed x t j Hj. unfold build_step_m.
  destruct (parser_build fixed (m_s x) t) as [[pr yo] yw].
  destruct pr as [rg|e]; [|reflexivity].
  destruct (tokmap_build renamed tfixed _ _ _ t) as [tr fo].
  cbn [fst m_tdir]. apply tdir_set_other. exact Hj.
Qed.

(* ---- scope: a failing parser stage ------------------------------------------- *)
Lemma manual_flow_parser_failure_keeps_tokmap : manual_flow_parser_failure_keeps_tokmap_stmt.
Proof.
  intros renamed fixed tfixed x t e H. unfold build_step_m in *.
  destruct (parser_build fixed (m_s x) t) as [[pr yo] yw].
  destruct pr as [rg|e'].
  - destruct (tokmap_build renamed tfixed _ _ _ t) as [tr fo]. cbn in H. discriminate H.
  - cbn. split; reflexivity.
Qed.

Lemma manual_flow_parser_failure_keeps_tokmap_witness : manual_flow_parser_failure_keeps_tokmap_witness_stmt.
Proof.
  exists ex_renamed, ex_g1,
    {| y_id := 2; y_syn := false; y_warn := false; y_conf := false; y_toks := 0 |}, ex_l, ex_c, (ex_tc 0).
  cbn zeta. split; [cbn; lia|]. split; [eexists; vm_compute; reflexivity|].
  split; [eexists; vm_compute; reflexivity|]. vm_compute. reflexivity.
Qed.

(* ---- the hypotheses are satisfiable, every branch of the stage is met ---------- *)
(* G1; build; G2 (token '*'); build fails; a rename map is added; build; the
   module name becomes `a-b`; build panics; back; allow_dead_code; build *)
Example tokmap_hypotheses_satisfiable :
  let h := [(1, MBase Build); (2, MBase (EditY ex_g2)); (3, MBase Build); (4, SetT (ex_tc 1));
            (5, MBase Build); (6, SetT ex_tc_odd); (7, MBase Build); (8, SetT (ex_tc 1))] in
  clock_monotone_m (h ++ [(9, MBase Build)]) /\ cache_injective ex_c (base_hist_m h) /\
  let x := run_m ex_renamed true true (init_m ex_g1 ex_l ex_c (ex_tc 0)) h in
  parser_stage_ok (snd (build_step_m ex_renamed true true x 9)) /\
  mr_t (snd (build_step_m ex_renamed true true x 9)) = Some (TOk false) /\
  mr_t (snd (build_step_m ex_renamed true true
               (run_m ex_renamed true true (init_m ex_g1 ex_l ex_c (ex_tc 0)) (firstn 2 h)) 3)) = Some TErr /\
  mr_t (snd (build_step_m ex_renamed true true
               (run_m ex_renamed true true (init_m ex_g1 ex_l ex_c (ex_tc 0)) (firstn 6 h)) 7)) = Some TPanic.
Proof.
  cbn zeta. split; [cbn; lia|]. split.
  - apply ex_cache_injective_single. intros t c H. cbn in H.
    repeat (destruct H as [H|H]; [discriminate H|]). destruct H.
  - split; [eexists; vm_compute; reflexivity|]. repeat split; vm_compute; reflexivity.
Qed.
