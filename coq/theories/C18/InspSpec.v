(* C18 — statements about the build script with the `test_files` inspector
   (C18/InspModel.v): the theorem of C18/Spec.v holds for exactly those histories
   in which the inspector accepts whenever a build happens; without that it is
   false, and the only way it fails is an inspector that would reject but is not
   asked because the parser output is cached. *)
From Coq Require Import List Arith Bool Lia.
From GV Require Import Common.Outcome C18.Model C18.Spec C18.InspModel.
Import ListNotations.

(* the operations of C18/Model.v in a history (test-file edits carry no
   modification time anybody reads) *)
Fixpoint base_hist (h : ihist) : hist :=
  match h with
  | [] => []
  | (t, IBase o) :: h' => (t, o) :: base_hist h'
  | (_, EditT _) :: h' => base_hist h'
  end.

Definition clock_weak_i (h : ihist) : Prop := clock_weak (base_hist h).
Definition clock_monotone_i (h : ihist) : Prop := clock_monotone (base_hist h).

(* "the inspector accepts in every build": at every Build of the history the
   inspector, were it asked, returns Ok for the sources, settings and test files
   of that moment *)
Fixpoint accepts_all (verdict : ysrc -> lsrc -> settings -> nat -> bool)
  (m : mode) (fixed : bool) (x : istate) (h : ihist) : Prop :=
  match h with
  | [] => True
  | (t, o) :: h' =>
      match o with
      | IBase Build => accepts verdict m (i_s x) (i_tf x) = true
      | _ => True
      end /\ accepts_all verdict m fixed (fst (step_i verdict m fixed x t o)) h'
  end.

(* under that hypothesis the script with the inspector IS the script of
   C18/Model.v ... *)
Definition run_i_is_run_stmt : Prop :=
  forall verdict m fixed x h,
    accepts_all verdict m fixed x h ->
    i_s (run_i verdict m fixed x h) = run m fixed (i_s x) (base_hist h).

(* ... and the main theorem carries over: this is the scope of
   incremental_equals_clean (C18/Spec.v) *)
Definition incremental_equals_clean_inspector_stmt : Prop :=
  forall verdict m fixed y0 l0 c0 tf0 h t,
    clock_weak_i (h ++ [(t, IBase Build)]) ->
    cache_injective c0 (base_hist h) ->
    accepts_all verdict m fixed (init_i y0 l0 c0 tf0) (h ++ [(t, IBase Build)]) ->
    let x := run_i verdict m fixed (init_i y0 l0 c0 tf0) h in
    build_ok (snd (build_step_i verdict m fixed x t)) ->
    outputs (i_s (fst (build_step_i verdict m fixed x t))) = clean_build_i verdict m fixed x t.

(* Without it: false.  The history of audit 1 — build; edit the LEXER so that a
   test file no longer lexes; build — ends with a successful incremental build
   that keeps both generated files, while the build into an empty directory fails
   and leaves none.  (For the builders as they are and as they were: [fixed].) *)
Definition incremental_equals_clean_refuted_inspector_stmt : Prop :=
  forall fixed, exists verdict y0 l0 l1 c0 tf0,
    let h := [(1, IBase Build); (2, IBase (EditL l1))] in
    clock_monotone_i (h ++ [(3, IBase Build)]) /\
    cache_injective c0 (base_hist h) /\
    let x := run_i verdict MCombined fixed (init_i y0 l0 c0 tf0) h in
    build_ok (snd (build_step_i verdict MCombined fixed x 3)) /\
    (exists yc lc, outputs (i_s (fst (build_step_i verdict MCombined fixed x 3))) = (Some yc, Some lc)) /\
    build_failed (snd (build_step_i verdict MCombined fixed (clean_istate x) 3)) /\
    clean_build_i verdict MCombined fixed x 3 = (None, None).

(* the same with the test file edited instead of the lexer *)
Definition incremental_equals_clean_refuted_inspector_testfile_stmt : Prop :=
  forall fixed, exists verdict y0 l0 c0 tf0 tf1,
    let h := [(1, IBase Build); (2, EditT tf1)] in
    clock_monotone_i (h ++ [(3, IBase Build)]) /\
    cache_injective c0 (base_hist h) /\
    let x := run_i verdict MCombined fixed (init_i y0 l0 c0 tf0) h in
    build_ok (snd (build_step_i verdict MCombined fixed x 3)) /\
    clean_build_i verdict MCombined fixed x 3 = (None, None).

(* The class of the finding, exactly: whatever the inspector says during the
   history, a successful incremental build differs from the clean build ONLY IF
   its parser stage reported "not regenerated" and the inspector rejects the
   current sources / settings / test files.  (Everything else about a history
   with rejecting inspectors — failed builds, later repairs — is as in a clean
   build.) *)
Definition parser_stage_i (verdict : ysrc -> lsrc -> settings -> nat -> bool)
  (m : mode) (fixed : bool) (x : istate) (t : nat) : option pres :=
  match m with
  | MParser => Some (fst (fst (parser_build_i verdict m fixed (i_s x) (i_tf x) t)))
  | MCombined => if l_syn (s_l (i_s x)) then Some (fst (fst (parser_build_i verdict m fixed (i_s x) (i_tf x) t))) else None
  end.

Definition incremental_differs_only_by_skipped_inspector_stmt : Prop :=
  forall verdict m fixed y0 l0 c0 tf0 h t,
    clock_weak_i (h ++ [(t, IBase Build)]) ->
    cache_injective c0 (base_hist h) ->
    let x := run_i verdict m fixed (init_i y0 l0 c0 tf0) h in
    build_ok (snd (build_step_i verdict m fixed x t)) ->
    outputs (i_s (fst (build_step_i verdict m fixed x t))) = clean_build_i verdict m fixed x t \/
    (parser_stage_i verdict m fixed x t = Some (POk false) /\ accepts verdict m (i_s x) (i_tf x) = false).

(* likewise for failed builds (repaired builders): no stale file, except a parser
   output kept by a parser stage that skipped a rejecting inspector (the build then
   failed later, in the lexer stage) *)
Definition failed_build_no_stale_or_skipped_inspector_stmt : Prop :=
  forall verdict m y0 l0 c0 tf0 h t,
    clock_weak_i (h ++ [(t, IBase Build)]) ->
    cache_injective c0 (base_hist h) ->
    let x := run_i verdict m true (init_i y0 l0 c0 tf0) h in
    build_failed (snd (build_step_i verdict m true x t)) ->
    no_stale (outputs (i_s (fst (build_step_i verdict m true x t)))) (clean_build_i verdict m true x t) \/
    (parser_stage_i verdict m true x t = Some (POk false) /\ accepts verdict m (i_s x) (i_tf x) = false).

(* ---- concrete values ---------------------------------------------------- *)
(* an inspector that rejects lexer text 1 and test files 1 *)
Definition ex_verdict (y : ysrc) (l : lsrc) (c : settings) (tf : nat) : bool :=
  negb (l_id l =? 1) && negb (tf =? 1).
Definition ex_l1 : lsrc := {| l_id := 1; l_syn := true; l_miss := false |}.
