(* C18 — the build script of C18/Model.v with the parser builder's `inspect_rt`
   callback.
     lrlex/src/lib/ctbuilder.rs  CTLexerBuilder::build_inner: with `lrpar_config`
       the lexer builder installs an inspector (`CTParserBuilder::inspect_rt`) that
       performs the grammar header's `test_files` check: every file matched by the
       globs is lexed with the lexer being built (its text, its flags) and parsed
       with the grammar's table; any lexing/parsing error, a glob that matches
       nothing or a malformed value is `Err`.
     lrpar/src/lib/ctbuilder.rs  CTParserBuilder::build_inner calls the inspector
       after the conflict check, i.e. ONLY on the path that regenerates: the early
       `return Ok(CTParser { regenerated: false, .. })` of the cache check precedes it.
   The verdict of the inspector is abstract: an arbitrary function of the grammar
   text, the lexer text, the settings (lexer flags, recoverer) and the contents of
   the test files.  Test files are a third kind of source: their modification
   times are read by nobody.  Executable definitions only. *)
From Coq Require Import List Arith Bool.
From GV Require Import Common.Outcome C18.Model.
Import ListNotations.

(* state of C18/Model.v + the contents of the files the `test_files` globs match
   (a name for the whole set: editing a file, adding one, removing one all give
   another name) *)
Record istate := { i_s : state; i_tf : nat }.

Definition init_i (y : ysrc) (l : lsrc) (c : settings) (tf : nat) : istate :=
  {| i_s := init y l c; i_tf := tf |}.

Inductive iop :=
| IBase (o : op)       (* an operation of C18/Model.v *)
| EditT (tf : nat).    (* a test file is edited / added / removed *)

Definition ihist := list (nat * iop).

Section Inspector.
  (* grammar text, lexer text, settings, test files -> the inspector returns Ok *)
  Variable verdict : ysrc -> lsrc -> settings -> nat -> bool.

  (* CTParserBuilder alone has no inspector (`inspect_rt: None`) *)
  Definition accepts (m : mode) (s : state) (tf : nat) : bool :=
    match m with
    | MParser => true
    | MCombined => verdict (s_y s) (s_l s) (s_cfg s) tf
    end.

  (* CTParserBuilder::build with the inspector: the code of parser_build up to and
     including the conflict check (skip -> POk false with the old output; early
     errors; remove_file; conflict error), then — reached exactly when parser_build
     is about to write, POk true — the inspector; its Err leaves no output (removed
     before the table was built, and again by build() on Err) *)
  Definition parser_build_i (m : mode) (fixed : bool) (s : state) (tf : nat) (t : nat)
    : pres * option (ycontent * nat) * bool :=
    let '(pr, yo, yw) := parser_build fixed s t in
    match pr with
    | POk true => if accepts m s tf then (pr, yo, yw) else (PErr EInspect, None, false)
    | _ => (pr, yo, yw)
    end.

  Definition build_step_i (m : mode) (fixed : bool) (x : istate) (t : nat) : istate * outcome bres :=
    let '(s', r) := build_step_with (parser_build_i m fixed (i_s x) (i_tf x) t) m fixed (i_s x) t in
    ({| i_s := s'; i_tf := i_tf x |}, r).

  Definition step_i (m : mode) (fixed : bool) (x : istate) (t : nat) (o : iop) : istate * option (outcome bres) :=
    match o with
    | IBase Build => let '(x', r) := build_step_i m fixed x t in (x', Some r)
    | IBase o => ({| i_s := fst (step m fixed (i_s x) t o); i_tf := i_tf x |}, None)
    | EditT tf => ({| i_s := i_s x; i_tf := tf |}, None)
    end.

  Fixpoint run_i (m : mode) (fixed : bool) (x : istate) (h : ihist) : istate :=
    match h with
    | [] => x
    | (t, o) :: h' => run_i m fixed (fst (step_i m fixed x t o)) h'
    end.

  Definition clean_istate (x : istate) : istate := {| i_s := clean_state (i_s x); i_tf := i_tf x |}.

  Definition clean_build_i (m : mode) (fixed : bool) (x : istate) (t : nat) : option ycontent * option lcontent :=
    outputs (i_s (fst (build_step_i m fixed (clean_istate x) t))).

  Fixpoint trace_i (m : mode) (fixed : bool) (x : istate) (h : ihist)
    : list (istate * option (outcome bres * (option ycontent * option lcontent))) :=
    match h with
    | [] => []
    | (t, o) :: h' =>
        let '(x', r) := step_i m fixed x t o in
        (x', match r with
             | Some r => Some (r, clean_build_i m fixed x t)
             | None => None
             end) :: trace_i m fixed x' h'
    end.
End Inspector.
