(* C12 — mirror of the conversions of a parsed %grmtools VALUE into an enum:

     impl<T: Clone> TryFrom<&Value<T>> for YaccKind              cfgrammar/src/lib/header.rs
     impl<T: Clone + Debug> TryFrom<&Value<T>> for SerialisationFormat   lrpar/src/lib/ctbuilder.rs

   and of the dispatch of [SpannedDiagnosticFormatter::format_spanned]
   (lrpar/src/lib/diagnostics.rs) on the number of spans of a diagnostic.

   The conversions are pure functions of the value: no indexing, no unwrap, no
   loop but [iter().find_map] over a constant table — there is no panic site
   and nothing runs on fuel.  Names arrive lower-cased: [parse_name] lower-cases
   every name it reads ([map to_lower], HeaderModel.v), and the conversions
   compare with [==] / [!=] against lower-case literals (the case-insensitive
   comparison is done by the section parser, not here).

   Every error of these conversions is ONE [HeaderError] of kind
   [InvalidEntry(..)] — hence of [SpansKind::Error] — whose [locations] are the
   spans of ALL faulty components of the value ([err_locs]), in the order
   namespace, member, argument namespace, argument member.

   Definitions only. *)
From Coq Require Import List Arith NArith Bool.
From GV Require Import Common.Outcome C12.HeaderModel.
Import ListNotations.

(* String == String *)
Fixpoint str_eqb (a b : list N) : bool :=
  match a, b with
  | [], [] => true
  | x :: a', y :: b' => (x =? y)%N && str_eqb a' b'
  | _, _ => false
  end.

Definition S_yacckind : list N := [121; 97; 99; 99; 107; 105; 110; 100]%N.
Definition S_grmtools : list N := [103; 114; 109; 116; 111; 111; 108; 115]%N.
Definition S_eco : list N := [101; 99; 111]%N.
Definition S_original : list N := [111; 114; 105; 103; 105; 110; 97; 108]%N.
Definition S_yaccoriginalactionkind : list N :=
  [121; 97; 99; 99; 111; 114; 105; 103; 105; 110; 97; 108; 97; 99; 116; 105; 111; 110; 107; 105; 110; 100]%N.
Definition S_noaction : list N := [110; 111; 97; 99; 116; 105; 111; 110]%N.
Definition S_useraction : list N := [117; 115; 101; 114; 97; 99; 116; 105; 111; 110]%N.
Definition S_genericparsetree : list N :=
  [103; 101; 110; 101; 114; 105; 99; 112; 97; 114; 115; 101; 116; 114; 101; 101]%N.
Definition S_serialisationformat : list N :=
  [115; 101; 114; 105; 97; 108; 105; 115; 97; 116; 105; 111; 110; 102; 111; 114; 109; 97; 116]%N.
Definition S_fixedsizeinteger : list N :=
  [102; 105; 120; 101; 100; 115; 105; 122; 101; 105; 110; 116; 101; 103; 101; 114]%N.
Definition S_variablesizedinteger : list N :=
  [118; 97; 114; 105; 97; 98; 108; 101; 115; 105; 122; 101; 100; 105; 110; 116; 101; 103; 101; 114]%N.

Inductive action_kind := NoAction | UserAction | GenericParseTree.
Inductive yacc_kind := YkGrmtools | YkEco | YkOriginal (a : action_kind).
Inductive ser_format := FixedSizeInteger | VariableSizedInteger.

(* Result<_, HeaderError<T>>: the kind of the error is always InvalidEntry *)
Inductive conv (A : Type) : Type :=
| CvOk (a : A)
| CvErr (locs : list span).
Arguments CvOk {A} a.
Arguments CvErr {A} locs.

(* [if let Some((ns, ns_loc)) = namespace && ns != expected { err_locs.push(ns_loc.clone()) }] *)
Definition ns_fault (expected : list N) (n : namespaced) : list span :=
  match ns_namespace n with
  | Some (ns, l) => if str_eqb ns expected then [] else [l]
  | None => []
  end.

(* [table.iter().find_map(|(s, x)| (s == m).then_some(x))] *)
Fixpoint find_member {A : Type} (tbl : list (list N * A)) (m : list N) : option A :=
  match tbl with
  | [] => None
  | (s, x) :: t => if str_eqb s m then Some x else find_member t m
  end.

Definition YACCKINDS : list (list N * yacc_kind) := [(S_grmtools, YkGrmtools); (S_eco, YkEco)].
Definition ACTIONKINDS : list (list N * action_kind) :=
  [(S_noaction, NoAction); (S_useraction, UserAction); (S_genericparsetree, GenericParseTree)].
Definition ENCODINGS : list (list N * ser_format) :=
  [(S_fixedsizeinteger, FixedSizeInteger); (S_variablesizedinteger, VariableSizedInteger)].

(* Value::primary_location / Setting::primary_location / Namespaced::primary_location *)
Definition setting_primary_location (s : setting) : span :=
  match s with
  | Constructor _ arg => snd (ns_member arg)
  | Unitary n => snd (ns_member n)
  | Array _ open _ => open
  | Num _ l => l
  | Str _ l => l
  end.
Definition primary_location (v : value) : span :=
  match v with
  | Flag _ l => l
  | SettingV s => setting_primary_location s
  end.

(* [if err_locs.is_empty() { Ok(x) } else { Err(.. err_locs) }] *)
Definition ok_unless {A : Type} (x : A) (err_locs : list span) : conv A :=
  match err_locs with [] => CvOk x | _ => CvErr err_locs end.

(* the arm for a unitary enum value, shared by YaccKind and SerialisationFormat *)
Definition unitary_conv {A : Type} (ns_name : list N) (tbl : list (list N * A)) (n : namespaced) : conv A :=
  let err_locs := ns_fault ns_name n in
  match find_member tbl (fst (ns_member n)) with
  | Some x => ok_unless x err_locs
  | None => CvErr (err_locs ++ [snd (ns_member n)])
  end.

(* YaccKind::try_from(&Value<T>) *)
Definition yacckind_try_from (v : value) : conv yacc_kind :=
  match v with
  | SettingV (Unitary n) => unitary_conv S_yacckind YACCKINDS n
  | SettingV (Constructor c a) =>
      let e1 := ns_fault S_yacckind c in
      let e2 := e1 ++ (if str_eqb (fst (ns_member c)) S_original then [] else [snd (ns_member c)]) in
      let e3 := e2 ++ ns_fault S_yaccoriginalactionkind a in
      match find_member ACTIONKINDS (fst (ns_member a)) with
      | Some ak => ok_unless (YkOriginal ak) e3
      | None => CvErr (e3 ++ [snd (ns_member a)])
      end
  | _ => CvErr [primary_location v]
  end.

(* SerialisationFormat::try_from(&Value<T>) *)
Definition serformat_try_from (v : value) : conv ser_format :=
  match v with
  | SettingV (Unitary n) => unitary_conv S_serialisationformat ENCODINGS n
  | _ => CvErr [primary_location v]
  end.

(* ---- the renderer's dispatch on the spans of a diagnostic ------------------ *)

(* SpansKind *)
Inductive spanskind := SkError | SkDuplicationError.

(* HeaderError::spanskind of an InvalidEntry error (every kind but DuplicateEntry) *)
Definition INVALID_ENTRY_SPANSKIND : spanskind := SkError.

(* what format_spanned prints beside the underline of span number [span_num]
   (0-based): the message of the diagnostic, or "<n>th occurrence" *)
Inductive label := LMessage | LOccurrence (ordinal : nat).

(* [fixed = false]: the code before 87315cb — a second span of a SpansKind::Error
   diagnostic is [unreachable!()] *)
Definition span_label (fixed : bool) (sk : spanskind) (span_num : nat) : outcome label :=
  match span_num with
  | 0 => Done LMessage
  | S _ =>
      match sk with
      | SkDuplicationError => Done (LOccurrence (span_num + 1))
      | SkError => if fixed then Done LMessage else Panic
      end
  end.

(* the loop of format_spanned over [e.spans().iter().enumerate()], from span number [i] on *)
Fixpoint span_labels_from (fixed : bool) (sk : spanskind) (i : nat) (spans : list span)
  : outcome (list (span * label)) :=
  match spans with
  | [] => Done []
  | sp :: rest =>
      do l <- span_label fixed sk i;
      do more <- span_labels_from fixed sk (S i) rest;
      Done ((sp, l) :: more)
  end.
Definition span_labels (fixed : bool) (sk : spanskind) (spans : list span) : outcome (list (span * label)) :=
  span_labels_from fixed sk 0 spans.

(* ---- what the correspondence evaluates ------------------------------------- *)

(* the conversions applied to every entry of a parsed section, in key order *)
Definition header_conversions (h : header) : list (list N * conv yacc_kind * conv ser_format) :=
  map (fun kv => (fst kv, yacckind_try_from (snd (snd kv)), serformat_try_from (snd (snd kv)))) h.
