From Coq Require Import List Arith NArith Bool Lia.
From GV Require Import Common.Outcome C12.HeaderModel C12.Spec C12.Proofs C12.Conv C12.CtorWsSpec.
Import ListNotations.

Ltac ctor_value :=
  match goal with
  | |- parses_to_ctor_value ?o _ =>
      let r := eval vm_compute in o in
      match r with
      | Done (HOk ?h ?pos) =>
          exists h, pos; split; [vm_compute; reflexivity|];
          split; [vm_compute; reflexivity|]; split; [vm_compute; reflexivity|];
          let g := eval vm_compute in (hdr_get h S_yacckind) in
          match g with
          | Some (?kl, ?v) => exists kl, v; split; vm_compute; reflexivity
          end
      end
  end.

Lemma header_ctor_ws_refuted : header_ctor_ws_refuted_stmt.
Proof.
  split; [|split].
  - intros [|] [|] [|]; split; vm_compute; reflexivity.
  - intros [|] [|] [|] [|]; ctor_value.
  - intros [|] [|] [|]; split; ctor_value.
Qed.

(* ---- any run of white space after the '(' -------------------------------------- *)

Lemma pws_not_name_start c : is_pws c = true -> name_start c = false /\ (c =? 42)%N = false.
Proof.
  unfold is_pws, name_start, in_range. intros H.
  repeat rewrite ?orb_true_iff, ?andb_true_iff, ?N.leb_le, ?N.eqb_eq in H.
  split.
  - apply not_true_is_false. intros Hn.
    repeat rewrite ?orb_true_iff, ?andb_true_iff, ?N.leb_le, ?N.eqb_eq in Hn. lia.
  - apply N.eqb_neq. lia.
Qed.

Lemma re_ws_run ws c t : all is_pws ws -> is_pws c = false -> re_ws (ws ++ c :: t) = byte_len ws.
Proof.
  unfold re_ws. intros Hall Hc. induction Hall as [|x ws Hx _ IH]; cbn [app take_while byte_len].
  - rewrite Hc. reflexivity.
  - rewrite Hx. cbn [byte_len]. rewrite IH. reflexivity.
Qed.

(* the way to the '(' of %grmtools{yacckind: Original(… whatever follows it *)
Definition ORIGINAL_NS : namespaced := {| ns_namespace := None; ns_member := (S_original, (20, 28)) |}.

Lemma ctor_pre_facts tail :
  let S := CTOR_PRE ++ tail in
  parse_ws S 0 = Done 0 /\
  lookahead_is S MAGIC 0 = Done (Some 9) /\
  parse_ws S 9 = Done 9 /\
  lookahead_is S LBRACE 9 = Done (Some 10) /\
  parse_ws S 10 = Done 10 /\
  lookahead_is S RBRACE 10 = Done None /\
  (10 <? byte_len S) = true /\
  lookahead_is S BANG 10 = Done None /\
  parse_name S 10 = Done (Ok (S_yacckind, 18)) /\
  parse_ws S 18 = Done 18 /\
  lookahead_is S COLON 18 = Done (Some 19) /\
  parse_ws S 19 = Done 20 /\
  (exists r, slice_from S 20 = Done r /\ re_digits r = None /\ re_string r = None /\ True) /\
  lookahead_is S LBRACK 20 = Done None /\
  parse_namespaced S 20 = Done (Ok (ORIGINAL_NS, 28)) /\
  parse_ws S 28 = Done 28 /\
  lookahead_is S LPAREN 28 = Done (Some 29) /\
  slice_from S 29 = Done tail.
Proof.
  cbv zeta.
  repeat match goal with
         | |- _ /\ _ => split
         | |- exists r, _ => exists ([79; 114; 105; 103; 105; 110; 97; 108; 40]%N ++ tail)
         | |- True => exact I
         | |- slice_from _ 29 = _ => exact (slice_from_pre CTOR_PRE tail)
         | |- _ = _ => vm_compute; reflexivity
         end.
Qed.

Definition NOACTION_TXT : list N := [78; 111; 65; 99; 116; 105; 111; 110]%N.

(* the rest of the section, NoAction)} , wherever it starts *)
Lemma ctor_post_facts pre :
  let S := pre ++ CTOR_POST in
  let B := byte_len pre in
  parse_namespaced S B =
    Done (Ok ({| ns_namespace := None; ns_member := (S_noaction, (B, B + 8)) |}, B + 8)) /\
  parse_ws S (B + 8) = Done (B + 8) /\
  lookahead_is S RPAREN (B + 8) = Done (Some (B + 8 + 1)) /\
  parse_ws S (B + 8 + 1) = Done (B + 8 + 1) /\
  lookahead_is S COMMA (B + 8 + 1) = Done None /\
  lookahead_is S STAR (B + 8 + 1) = Done None /\
  lookahead_is S RBRACE (B + 8 + 1) = Done (Some (B + 8 + 1 + 1)).
Proof.
  cbv zeta. set (S := pre ++ CTOR_POST). set (B := byte_len pre).
  assert (H0 : at_pos S B (NOACTION_TXT ++ [41; 125]%N)) by (exists pre; split; reflexivity).
  assert (H8 : at_pos S (B + 8) ([41%N] ++ [125%N])) by (apply (at_pos_app S B NOACTION_TXT _ H0)).
  assert (H9 : at_pos S (B + 8 + 1) [125%N]) by (apply (at_pos_app S (B + 8) [41%N] _ H8)).
  assert (W8 : parse_ws S (B + 8) = Done (B + 8)) by (apply (parse_ws_at S (B + 8) 41%N [125%N] H8); reflexivity).
  assert (W9 : parse_ws S (B + 8 + 1) = Done (B + 8 + 1)) by (apply (parse_ws_at S (B + 8 + 1) 125%N [] H9); reflexivity).
  split; [|split; [exact W8|split; [|split; [exact W9|split; [|split]]]]].
  - assert (N0 : parse_name S B = Done (Ok (S_noaction, B + 8))).
    { unfold parse_name.
      rewrite (slice_from_at _ _ _ H0). cbn [obind].
      change (re_name (NOACTION_TXT ++ [41; 125]%N)) with (Some 8). cbv iota beta.
      rewrite (slice_range_at S B NOACTION_TXT _ H0 : slice_range S B (B + 8) = Done NOACTION_TXT).
      cbn [obind]. reflexivity. }
    unfold parse_namespaced. rewrite N0. cbn [obind].
    rewrite (mk_span_ok B (B + 8)) by lia. cbn [obind].
    rewrite W8. cbn [obind].
    rewrite (lookahead_at S COLONCOLON _ _ H8). reflexivity.
  - rewrite (lookahead_at S RPAREN _ _ H8). reflexivity.
  - rewrite (lookahead_at S COMMA _ _ H9). reflexivity.
  - rewrite (lookahead_at S STAR _ _ H9). reflexivity.
  - rewrite (lookahead_at S RBRACE _ _ H9). reflexivity.
Qed.

(* the run of the whole parser on a text whose constructor argument is reached at
   byte [B]: everything before the '(' and after the argument is computed *)
Lemma ctor_run_from fixed dfx cw required f ws :
  setting_path cw (ctor_layout ws) 20 =
    Done (Ok (Constructor ORIGINAL_NS
                {| ns_namespace := None;
                   ns_member := (S_noaction, (29 + byte_len ws, 29 + byte_len ws + 8)) |},
              29 + byte_len ws + 8 + 1)) ->
  parse fixed dfx cw None (ctor_layout ws) required (S (S f)) =
    Done (HOk [(S_yacckind, ((10, 18),
                 SettingV (Constructor ORIGINAL_NS
                   {| ns_namespace := None;
                      ns_member := (S_noaction, (29 + byte_len ws, 29 + byte_len ws + 8)) |})))]
              (29 + byte_len ws + 8 + 1 + 1)).
Proof.
  intros Hpath. unfold ctor_layout in *.
  destruct (ctor_pre_facts (ws ++ CTOR_POST))
    as (F1 & F2 & F3 & F4 & F5 & F6 & F7 & F8 & F9 & F10 & F11 & F12 & (r & F13 & F13a & F13b & _) & F14 & _).
  pose proof (ctor_post_facts (CTOR_PRE ++ ws)) as Q. cbv zeta in Q.
  rewrite <- app_assoc in Q. rewrite byte_len_app in Q. change (byte_len CTOR_PRE) with 29 in Q.
  destruct Q as (_ & _ & _ & Q4 & Q5 & Q6 & Q7).
  unfold parse.
  rewrite F1; cbn [obind]. rewrite F2; cbn [obind]. rewrite F3; cbn [obind].
  rewrite F4; cbn [obind]. rewrite F5; cbn [obind].
  rewrite section_loop_S. rewrite F6; cbn [obind]. rewrite F7. cbn [andb].
  unfold parse_key_value.
  rewrite F8; cbn [obind]. rewrite F9; cbn [obind].
  change (mk_span 10 18) with (Done (10, 18) : outcome span). cbn [obind].
  rewrite F10; cbn [obind]. rewrite F11; cbn [obind].
  rewrite parse_setting_S. cbn [stack_exhausted].
  rewrite F12; cbn [obind]. rewrite F13; cbn [obind]. rewrite F13a. cbn [obind]. rewrite F13b.
  rewrite F14; cbn [obind].
  rewrite Hpath. cbn [obind].
  cbn [hdr_get hdr_insert].
  rewrite Q5; cbn [obind]. rewrite Q4; cbn [obind].
  unfold parse_finish. rewrite Q6; cbn [obind]. rewrite Q7; cbn [obind]. reflexivity.
Qed.

Lemma ctor_path_repaired ws : all is_pws ws ->
  setting_path true (ctor_layout ws) 20 =
    Done (Ok (Constructor ORIGINAL_NS
                {| ns_namespace := None;
                   ns_member := (S_noaction, (29 + byte_len ws, 29 + byte_len ws + 8)) |},
              29 + byte_len ws + 8 + 1)).
Proof.
  intros Hall. unfold ctor_layout.
  destruct (ctor_pre_facts (ws ++ CTOR_POST))
    as (_ & _ & _ & _ & _ & _ & _ & _ & _ & _ & _ & _ & _ & _ & F15 & F16 & F17 & F18).
  pose proof (ctor_post_facts (CTOR_PRE ++ ws)) as Q. cbv zeta in Q.
  rewrite <- app_assoc in Q. rewrite byte_len_app in Q. change (byte_len CTOR_PRE) with 29 in Q.
  destruct Q as (Q1 & Q2 & Q3 & Q4 & _).
  unfold setting_path.
  rewrite F15; cbn [obind]. rewrite F16; cbn [obind]. rewrite F17; cbn [obind].
  assert (Hws : parse_ws (CTOR_PRE ++ ws ++ CTOR_POST) 29 = Done (29 + byte_len ws)).
  { unfold parse_ws. rewrite F18. cbn [obind]. unfold CTOR_POST.
    rewrite (re_ws_run ws 78%N _ Hall) by reflexivity. rewrite Nat.add_comm. reflexivity. }
  rewrite Hws; cbn [obind]. rewrite Q1; cbn [obind]. rewrite Q2; cbn [obind].
  rewrite Q3; cbn [obind]. rewrite Q4; cbn [obind]. reflexivity.
Qed.

Lemma header_layout_insensitive_ctor : header_layout_insensitive_ctor_stmt.
Proof.
  intros ws fixed dfx required Hall. unfold parse_header_gen, fuel_for.
  replace (2 * byte_len (ctor_layout ws) + 4) with (S (S (2 * byte_len (ctor_layout ws) + 2))) by lia.
  rewrite (ctor_run_from fixed dfx true required _ ws (ctor_path_repaired ws Hall)).
  eexists _, _. split; [reflexivity|]. split; [reflexivity|]. split.
  - change (byte_len CTOR_PLAIN) with 39. lia.
  - eexists _, _. split; [reflexivity|]. reflexivity.
Qed.

(* the pinned code: the first character of a non-empty run is not the start of a name *)
Lemma header_layout_sensitive_ctor_pinned : header_layout_sensitive_ctor_pinned_stmt.
Proof.
  intros ws fixed dfx required Hall Hne. unfold parse_header_gen, fuel_for.
  replace (2 * byte_len (ctor_layout ws) + 4) with (S (S (2 * byte_len (ctor_layout ws) + 2))) by lia.
  destruct ws as [|c ws']; [congruence|]. inversion Hall as [|x l Hc Hall']. subst x l.
  destruct (pws_not_name_start c Hc) as (Hn & Hs).
  unfold ctor_layout.
  destruct (ctor_pre_facts ((c :: ws') ++ CTOR_POST))
    as (F1 & F2 & F3 & F4 & F5 & F6 & F7 & F8 & F9 & F10 & F11 & F12 & (r & F13 & F13a & F13b & _) & F14 & F15 & F16 & F17 & F18).
  unfold parse.
  rewrite F1; cbn [obind]. rewrite F2; cbn [obind]. rewrite F3; cbn [obind].
  rewrite F4; cbn [obind]. rewrite F5; cbn [obind].
  rewrite section_loop_S. rewrite F6; cbn [obind]. rewrite F7. cbn [andb].
  unfold parse_key_value.
  rewrite F8; cbn [obind]. rewrite F9; cbn [obind].
  change (mk_span 10 18) with (Done (10, 18) : outcome span). cbn [obind].
  rewrite F10; cbn [obind]. rewrite F11; cbn [obind].
  rewrite parse_setting_S. cbn [stack_exhausted].
  rewrite F12; cbn [obind]. rewrite F13; cbn [obind]. rewrite F13a. cbn [obind]. rewrite F13b.
  rewrite F14; cbn [obind].
  unfold setting_path.
  rewrite F15; cbn [obind]. rewrite F16; cbn [obind]. rewrite F17; cbn [obind].
  unfold parse_namespaced, parse_name. rewrite F18; cbn [obind].
  cbn [app re_name]. rewrite Hn. cbn [obind].
  change (mk_span 29 29) with (Done (29, 29) : outcome span). cbn [obind].
  cbn [starts_with STAR]. rewrite N.eqb_sym in Hs. rewrite Hs. cbn [andb obind]. reflexivity.
Qed.

(* the hypotheses are satisfiable: runs of one and of several white-space characters,
   multi-byte ones included (U+2028 = 8232 takes three bytes) *)
Example ctor_ws_runs_exist :
  all is_pws [32%N] /\ all is_pws (10%N :: repeat 32%N 8) /\ all is_pws [9; 133; 8232; 13; 10]%N /\
  byte_len [9; 133; 8232; 13; 10]%N = 8.
Proof. repeat split; repeat constructor. Qed.
