(* C12 — character-level mirror of cfgrammar/src/lib/header.rs
   (GrmtoolsSectionParser) over texts given as lists of Unicode code points.

   Byte offsets are UTF-8 byte offsets computed with [len_utf8].  The mirror
   follows the Rust control flow function by function; every Rust panic site
   is an explicit [Panic] outcome:
     * [&self.src[i..]]  / [&self.src[a..b]]  off a char boundary, past the end
       or with a > b                                   -> [slice_from], [slice_range]
     * [Span::new(a, b)] with b < a                     -> [mk_span]
     * [str::parse::<u64>(..).unwrap()] on overflow     -> [Panic] (original code)
     * [end - 1] (usize subtraction)                    -> [sub1]
     * [e.locations[0]]                                 -> [Panic] on an empty list
   and every loop / recursion whose termination is not structural runs on fuel
   ([OutOfFuel]).

   The boolean [fixed] selects between the code as pinned ([fixed = false]) and
   the code after the two proposed repairs ([fixed = true]):
     - a number that does not fit u64 is a [ConversionError] instead of a panic;
     - an array element that does not parse is only skipped when a ',' follows,
       otherwise its error is returned (so every iteration consumes input).

   The boolean [depth_fixed] selects the third repair: [parse_setting] becomes
   [parse_setting_at_depth(i, depth)], called with depth 0 from
   [parse_key_value] and with [depth + 1] for the elements of an array, and a
   '[' met at [depth >= MAX_SETTING_DEPTH] is an [UnexpectedToken('[')] error
   located at that bracket.  With [depth_fixed = false] the [depth] argument of
   the mirror is a ghost counter (the Rust function has no such parameter): it
   is the number of [parse_setting] frames below the current one.

   The boolean [fixed_ctor_ws] selects the fourth repair (/repo fdd053a): the
   argument of a constructor value ([Original(NoAction)]) is parsed after a
   [parse_ws] — the pinned code called [parse_namespaced] directly at the byte
   after '(' , so that a blank there was an [IllegalName] error although white
   space is skipped between every other pair of lexemes of the section.

   The native stack is modelled as a budget of frames of [parse_setting]
   ([stack = Some s]: room for [s] frames; [None]: unbounded).  A call nested in
   [depth] frames needs frame number [depth + 1]; when it does not exist the
   process is aborted (SIGSEGV / SIGABRT) — an outcome the property forbids as
   much as a panic, so it is [Panic] here.

   Definitions only (this file must compile even when a proof breaks). *)
From Coq Require Import List Arith NArith Bool Lia.
From GV Require Import Common.Outcome.
Import ListNotations.

(* ---- texts, byte offsets, slices ---------------------------------------- *)

(* char::len_utf8 *)
Definition len_utf8 (c : N) : nat :=
  if (c <? 128)%N then 1
  else if (c <? 2048)%N then 2
  else if (c <? 65536)%N then 3
  else 4.

Fixpoint byte_len (s : list N) : nat :=
  match s with [] => 0 | c :: s' => len_utf8 c + byte_len s' end.

(* &src[i..] : panics when i is past the end or not on a char boundary *)
Fixpoint slice_from (src : list N) (i : nat) : outcome (list N) :=
  match i with
  | 0 => Done src
  | _ => match src with
         | [] => Panic
         | ch :: src' => if len_utf8 ch <=? i then slice_from src' (i - len_utf8 ch) else Panic
         end
  end.

(* &s[..n] *)
Fixpoint take_bytes (s : list N) (n : nat) : outcome (list N) :=
  match n with
  | 0 => Done []
  | _ => match s with
         | [] => Panic
         | ch :: s' =>
             if len_utf8 ch <=? n
             then do r <- take_bytes s' (n - len_utf8 ch); Done (ch :: r)
             else Panic
         end
  end.

(* &src[a..b] *)
Definition slice_range (src : list N) (a b : nat) : outcome (list N) :=
  if b <? a then Panic else
  do r <- slice_from src a; take_bytes r (b - a).

(* str::starts_with *)
Fixpoint starts_with (s rest : list N) : bool :=
  match s with
  | [] => true
  | c :: s' => match rest with
               | [] => false
               | d :: rest' => (c =? d)%N && starts_with s' rest'
               end
  end.

(* ---- spans, values, errors ----------------------------------------------- *)

Definition span := (nat * nat)%type.

(* Span::new: panics if end < start *)
Definition mk_span (a b : nat) : outcome span :=
  if b <? a then Panic else Done (a, b).

(* usize [e - 1] *)
Definition sub1 (e : nat) : outcome nat :=
  match e with 0 => Panic | S e' => Done e' end.

(* HeaderErrorKind (the static hint strings are not modelled; InvalidEntry is
   never produced by the section parser) *)
Inductive hkind :=
| MissingGrmtoolsSection
| IllegalName
| ExpectedToken (c : N)
| UnexpectedToken (c : N)
| DuplicateEntry
| ConversionError.

Record herror := { ekind : hkind; elocs : list span }.

Inductive res (A : Type) : Type :=
| Ok (a : A)
| Err (e : herror).
Arguments Ok {A} a.
Arguments Err {A} e.

Record namespaced := { ns_namespace : option (list N * span); ns_member : (list N * span) }.

Inductive setting :=
| Unitary (n : namespaced)
| Constructor (ctor arg : namespaced)
| Num (n : N) (sp : span)
| Str (s : list N) (sp : span)
| Array (xs : list setting) (open close : span).

Inductive value :=
| Flag (b : bool) (sp : span)
| SettingV (s : setting).

(* Header<Span> = MarkMap<String, HeaderValue<Span>>: a vector sorted by key *)
Definition header := list (list N * (span * value)).

Inductive hresult :=
| HOk (h : header) (pos : nat)
| HErrs (es : list herror).

(* ---- character classes and the regexes as scanners ----------------------- *)

Definition in_range (lo hi c : N) : bool := ((lo <=? c) && (c <=? hi))%N.

(* \p{Pattern_White_Space} *)
Definition is_pws (c : N) : bool :=
  in_range 9 13 c || (c =? 32)%N || (c =? 133)%N || (c =? 8206)%N || (c =? 8207)%N
  || (c =? 8232)%N || (c =? 8233)%N.

(* [A-Z] under (?i) with Unicode simple case folding: A-Z, a-z, U+017F (long s,
   folds to s) and U+212A (Kelvin sign, folds to k) *)
Definition name_start (c : N) : bool :=
  in_range 65 90 c || in_range 97 122 c || (c =? 383)%N || (c =? 8490)%N.
(* [A-Z_] under (?i) *)
Definition name_cont (c : N) : bool := name_start c || (c =? 95)%N.
Definition is_digit (c : N) : bool := in_range 48 57 c.

Fixpoint take_while (p : N -> bool) (s : list N) : list N :=
  match s with
  | c :: t => if p c then c :: take_while p t else []
  | [] => []
  end.

(* RE_LEADING_WS = ^[\p{Pattern_White_Space}]*   (always matches): m.end() *)
Definition re_ws (rest : list N) : nat := byte_len (take_while is_pws rest).

(* RE_NAME = (?i)^[A-Z][A-Z_]* : m.end() *)
Definition re_name (rest : list N) : option nat :=
  match rest with
  | c :: t => if name_start c then Some (len_utf8 c + byte_len (take_while name_cont t)) else None
  | [] => None
  end.

(* RE_DIGITS = ^[0-9]+ : m.end() *)
Definition re_digits (rest : list N) : option nat :=
  match take_while is_digit rest with
  | [] => None
  | ds => Some (byte_len ds)
  end.

(* the part of RE_STRING after the opening quote: (\\.|[^Q\\])*Q with Q the
   double-quote character (code 34), backslash = 92  — the three
   alternatives start with different characters, so the match is determined
   character by character; '.' does not match '\n' *)
Fixpoint str_body (rest : list N) : option nat :=
  match rest with
  | [] => None
  | c :: t =>
      if (c =? 34)%N then Some 1
      else if (c =? 92)%N then
        match t with
        | [] => None
        | d :: t' => if (d =? 10)%N then None
                     else match str_body t' with
                          | Some n => Some (1 + len_utf8 d + n)
                          | None => None
                          end
        end
      else match str_body t with
           | Some n => Some (len_utf8 c + n)
           | None => None
           end
  end.

(* RE_STRING = ^Q(\\.|[^Q\\])*Q : m.end() *)
Definition re_string (rest : list N) : option nat :=
  match rest with
  | c :: t => if (c =? 34)%N then match str_body t with Some n => Some (1 + n) | None => None end
              else None
  | [] => None
  end.

(* str::parse::<u64> on a digit string: None on overflow (or a non-digit) *)
Definition U64_MAX : N := 18446744073709551615%N.
Fixpoint parse_u64_go (s : list N) (acc : N) : option N :=
  match s with
  | [] => Some acc
  | c :: t =>
      if is_digit c then
        let acc' := (acc * 10 + (c - 48))%N in
        if (U64_MAX <? acc')%N then None else parse_u64_go t acc'
      else None
  end.
Definition parse_u64 (s : list N) : option N :=
  match s with [] => None | _ => parse_u64_go s 0%N end.

(* str::to_lowercase restricted to the characters RE_NAME can match
   (A-Z -> a-z, Kelvin sign -> k; a-z, '_' and long s are unchanged) *)
Definition to_lower (c : N) : N :=
  if in_range 65 90 c then (c + 32)%N else if (c =? 8490)%N then 107%N else c.

(* ---- literals ------------------------------------------------------------ *)
Definition MAGIC : list N := [37; 103; 114; 109; 116; 111; 111; 108; 115]%N.  (* %grmtools *)
Definition LBRACE : list N := [123%N].
Definition RBRACE : list N := [125%N].
Definition LBRACK : list N := [91%N].
Definition RBRACK : list N := [93%N].
Definition LPAREN : list N := [40%N].
Definition RPAREN : list N := [41%N].
Definition COMMA : list N := [44%N].
Definition COLON : list N := [58%N].
Definition COLONCOLON : list N := [58%N; 58%N].
Definition BANG : list N := [33%N].
Definition STAR : list N := [42%N].

(* ---- MarkMap (sorted vector) --------------------------------------------- *)
Fixpoint key_cmp (a b : list N) : comparison :=
  match a, b with
  | [], [] => Eq
  | [], _ :: _ => Lt
  | _ :: _, [] => Gt
  | x :: a', y :: b' => match (x ?= y)%N with Eq => key_cmp a' b' | c => c end
  end.

Fixpoint hdr_get (h : header) (k : list N) : option (span * value) :=
  match h with
  | [] => None
  | (k', v) :: h' => match key_cmp k k' with Eq => Some v | _ => hdr_get h' k end
  end.

Fixpoint hdr_insert (h : header) (k : list N) (v : span * value) : header :=
  match h with
  | [] => [(k, v)]
  | (k', v') :: h' =>
      match key_cmp k k' with
      | Lt => (k, v) :: (k', v') :: h'
      | Eq => (k, v) :: h'
      | Gt => (k', v') :: hdr_insert h' k v
      end
  end.

Definition hkind_is_dup (k : hkind) : bool :=
  match k with DuplicateEntry => true | _ => false end.
Definition span_eqb (a b : span) : bool := (fst a =? fst b) && (snd a =? snd b).

(* add_duplicate_occurrence: Some errs' when an existing DuplicateEntry error
   whose first location is [orig] was extended ([any] stops at the first) *)
Fixpoint add_dup_go (errs : list herror) (orig dup : span) : outcome (option (list herror)) :=
  match errs with
  | [] => Done None
  | e :: es =>
      if hkind_is_dup (ekind e) then
        match elocs e with
        | [] => Panic                                         (* e.locations[0] *)
        | l0 :: _ =>
            if span_eqb l0 orig
            then Done (Some ({| ekind := ekind e; elocs := elocs e ++ [dup] |} :: es))
            else do r <- add_dup_go es orig dup;
                 Done (match r with Some es' => Some (e :: es') | None => None end)
        end
      else do r <- add_dup_go es orig dup;
           Done (match r with Some es' => Some (e :: es') | None => None end)
  end.

Definition add_duplicate_occurrence (errs : list herror) (orig dup : span) : outcome (list herror) :=
  do r <- add_dup_go errs orig dup;
  match r with
  | Some es => Done es
  | None => Done (errs ++ [{| ekind := DuplicateEntry; elocs := [orig; dup] |}])
  end.

(* const MAX_SETTING_DEPTH: usize = 64 *)
Definition MAX_SETTING_DEPTH : nat := 64.

(* ---- the parser ----------------------------------------------------------- *)
Section Parser.
Variable fixed : bool.
Variable depth_fixed : bool.
Variable fixed_ctor_ws : bool.
Variable stack : option nat.
Variable src : list N.

(* no room for a frame on top of [depth] frames *)
Definition stack_exhausted (depth : nat) : bool :=
  match stack with Some s => s <=? depth | None => false end.

(* fn parse_ws(&self, i) *)
Definition parse_ws (i : nat) : outcome nat :=
  do rest <- slice_from src i; Done (re_ws rest + i).

(* fn lookahead_is(&self, s, i) *)
Definition lookahead_is (s : list N) (i : nat) : outcome (option nat) :=
  do rest <- slice_from src i;
  Done (if starts_with s rest then Some (i + byte_len s) else None).

(* fn parse_name(&self, i) *)
Definition parse_name (i : nat) : outcome (res (list N * nat)) :=
  do rest <- slice_from src i;
  match re_name rest with
  | Some mend =>
      (* assert_eq!(m.start(), 0): an anchored regex *)
      do s <- slice_range src i (i + mend);
      Done (Ok (map to_lower s, i + mend))
  | None =>
      do rest2 <- slice_from src i;
      do sp <- mk_span i i;
      if starts_with STAR rest2
      then Done (Err {| ekind := UnexpectedToken 42; elocs := [sp] |})
      else Done (Err {| ekind := IllegalName; elocs := [sp] |})
  end.

(* fn parse_namespaced(&self, i) *)
Definition parse_namespaced (i : nat) : outcome (res (namespaced * nat)) :=
  do r <- parse_name i;
  match r with
  | Err e => Done (Err e)
  | Ok (name, j) =>
      do name_span <- mk_span i j;
      do i1 <- parse_ws j;
      do la <- lookahead_is COLONCOLON i1;
      match la with
      | Some j1 =>
          do i2 <- parse_ws j1;
          do r2 <- parse_name i2;
          match r2 with
          | Err e => Done (Err e)
          | Ok (member_val, j2) =>
              do member_span <- mk_span i2 j2;
              do i3 <- parse_ws j2;
              Done (Ok ({| ns_namespace := Some (name, name_span);
                           ns_member := (member_val, member_span) |}, i3))
          end
      | None =>
          Done (Ok ({| ns_namespace := None; ns_member := (name, name_span) |}, i1))
      end
  end.

(* fn parse_setting(&self, i) = parse_setting_at_depth(i, 0) and the array loop
   of fn parse_setting_at_depth(&self, i, depth).  The three non-recursive arms
   of the function are written as separate definitions (same order of
   operations as the Rust text). *)

(* arm [Some(m)] of [RE_DIGITS.find(&self.src[i..])], mend = m.end() *)
Definition setting_num (i mend : nat) : outcome (res (setting * nat)) :=
  do num_span <- mk_span (i + 0) (i + mend);
  do num_str <- slice_range src (fst num_span) (snd num_span);
  match parse_u64 num_str with
  | None =>
      (* pinned code: .unwrap() of the ParseIntError *)
      if fixed then Done (Err {| ekind := ConversionError; elocs := [num_span] |}) else Panic
  | Some num =>
      do i' <- parse_ws (snd num_span);
      Done (Ok (Num num num_span, i'))
  end.

(* arm [Some(m)] of [RE_STRING.find(&self.src[i..])] *)
Definition setting_str (i mend : nat) : outcome (res (setting * nat)) :=
  let e := i + mend in
  do e1 <- sub1 e;
  do str_span <- mk_span (i + 0 + 1) e1;
  do str <- slice_range src (fst str_span) (snd str_span);
  do i' <- parse_ws e;
  Done (Ok (Str str str_span, i')).

(* the final [else] arm: a namespaced value, optionally with one argument *)
Definition setting_path (i : nat) : outcome (res (setting * nat)) :=
  do r <- parse_namespaced i;
  match r with
  | Err e => Done (Err e)
  | Ok (path_val, j) =>
      do i1 <- parse_ws j;
      do la1 <- lookahead_is LPAREN i1;
      match la1 with
      | Some j1 =>
          (* pinned code: [self.parse_namespaced(j)];
             repaired code: [self.parse_namespaced(self.parse_ws(j))] *)
          do j1' <- (if fixed_ctor_ws then parse_ws j1 else Done j1);
          do r2 <- parse_namespaced j1';
          match r2 with
          | Err e => Done (Err e)
          | Ok (arg, j2) =>
              do i2 <- parse_ws j2;
              do la2 <- lookahead_is RPAREN i2;
              match la2 with
              | Some j3 =>
                  do i3 <- parse_ws j3;
                  Done (Ok (Constructor path_val arg, i3))
              | None =>
                  do sp <- mk_span i2 i2;
                  Done (Err {| ekind := ExpectedToken 41; elocs := [sp] |})
              end
          end
      | None => Done (Ok (Unitary path_val, i1))
      end
  end.

Fixpoint parse_setting (fuel : nat) (depth : nat) (i0 : nat) {struct fuel}
  : outcome (res (setting * nat)) :=
  match fuel with
  | 0 => OutOfFuel
  | S f =>
    if stack_exhausted depth then Panic else
    do i <- parse_ws i0;
    do rest <- slice_from src i;
    match re_digits rest with
    | Some mend => setting_num i mend
    | None =>
      do rest' <- slice_from src i;
      match re_string rest' with
      | Some mend => setting_str i mend
      | None =>
          do la <- lookahead_is LBRACK i;
          match la with
          | Some j =>
              if depth_fixed && (MAX_SETTING_DEPTH <=? depth) then
                do sp <- mk_span i j;
                Done (Err {| ekind := UnexpectedToken 91; elocs := [sp] |})
              else array_loop f depth i j j []
          | None => setting_path i
          end
      end
    end
  end
with array_loop (fuel : nat) (depth : nat) (i open_pos j0 : nat) (vals : list setting) {struct fuel}
  : outcome (res (setting * nat)) :=
  match fuel with
  | 0 => OutOfFuel
  | S f =>
    do j <- parse_ws j0;
    do la <- lookahead_is RBRACK j;
    match la with
    | Some end_pos =>
        do osp <- mk_span i open_pos;
        do csp <- mk_span j end_pos;
        Done (Ok (Array vals osp csp, end_pos))
    | None =>
        do r <- parse_setting f (S depth) j;
        match r with
        | Ok (val, k) =>
            do j1 <- parse_ws k;
            do la1 <- lookahead_is COMMA j1;
            array_loop f depth i open_pos (match la1 with Some k1 => k1 | None => j1 end) (vals ++ [val])
        | Err e =>
            (* pinned code: the error is dropped ([if let Ok(..)]);
               repaired code: it is returned unless a ',' follows *)
            do la0 <- (if fixed then lookahead_is COMMA j else Done (Some j));
            match la0 with
            | None => Done (Err e)
            | Some _ =>
                do la1 <- lookahead_is COMMA j;
                array_loop f depth i open_pos (match la1 with Some k1 => k1 | None => j end) vals
            end
        end
    end
  end.

(* pub fn parse_key_value(&self, i) *)
Definition parse_key_value (fuel : nat) (i : nat)
  : outcome (res (list N * span * value * nat)) :=
  do la <- lookahead_is BANG i;
  match la with
  | Some j =>
      do r <- parse_name j;
      match r with
      | Err e => Done (Err e)
      | Ok (flag_name, k) =>
          do ksp <- mk_span j k;
          do fsp <- mk_span i k;
          do k' <- parse_ws k;
          Done (Ok (flag_name, ksp, Flag false fsp, k'))
      end
  | None =>
      do r <- parse_name i;
      match r with
      | Err e => Done (Err e)
      | Ok (key_name, j) =>
          do key_span <- mk_span i j;
          do i1 <- parse_ws j;
          do la1 <- lookahead_is COLON i1;
          match la1 with
          | Some j1 =>
              do r2 <- parse_setting fuel 0 j1;
              match r2 with
              | Err e => Done (Err e)
              | Ok (val, j2) => Done (Ok (key_name, key_span, SettingV val, j2))
              end
          | None => Done (Ok (key_name, key_span, Flag true key_span, i1))
          end
      end
  end.

(* the [while] loop of [parse]: inl errs = early [return Err(errs)],
   inr (i, ret, errs) = the state after the loop *)
Fixpoint section_loop (fuel : nat) (i : nat) (ret : header) (errs : list herror) {struct fuel}
  : outcome (list herror + (nat * header * list herror)) :=
  match fuel with
  | 0 => OutOfFuel
  | S f =>
    do la <- lookahead_is RBRACE i;
    if (match la with None => true | Some _ => false end) && (i <? byte_len src) then
      do kv <- parse_key_value f i;
      match kv with
      | Err e => Done (inl (errs ++ [e]))
      | Ok (key, key_loc, val, j) =>
          do st <- match hdr_get ret key with
                   | Some (orig_loc, _) =>
                       do errs' <- add_duplicate_occurrence errs orig_loc key_loc;
                       Done (ret, errs')
                   | None => Done (hdr_insert ret key (key_loc, val), errs)
                   end;
          let '(ret', errs') := st in
          do la1 <- lookahead_is COMMA j;
          match la1 with
          | Some j1 => do i' <- parse_ws j1; section_loop f i' ret' errs'
          | None => do i' <- parse_ws j; Done (inr (i', ret', errs'))
          end
      end
    else Done (inr (i, ret, errs))
  end.

(* the part of [parse] after the [while] loop *)
Definition parse_finish (section_start_pos i2 : nat) (ret : header) (errs : list herror) : outcome hresult :=
  do la2 <- lookahead_is STAR i2;
  match la2 with
  | Some j2 =>
      do sp <- mk_span i2 j2;
      Done (HErrs (errs ++ [{| ekind := UnexpectedToken 42; elocs := [sp] |}]))
  | None =>
      do la3 <- lookahead_is RBRACE i2;
      match la3 with
      | Some i3 =>
          match errs with
          | [] => Done (HOk ret i3)
          | _ => Done (HErrs errs)
          end
      | None =>
          do sp <- mk_span section_start_pos i2;
          Done (HErrs (errs ++ [{| ekind := ExpectedToken 125; elocs := [sp] |}]))
      end
  end.

(* pub fn parse(&self) *)
Definition parse (required : bool) (fuel : nat) : outcome hresult :=
  do w0 <- parse_ws 0;
  do la <- lookahead_is MAGIC w0;
  match la with
  | Some i0 =>
      do i <- parse_ws i0;
      let section_start_pos := i in
      do la1 <- lookahead_is LBRACE i;
      match la1 with
      | Some j =>
          do i1 <- parse_ws j;
          do st <- section_loop fuel i1 [] [];
          match st with
          | inl errs => Done (HErrs errs)
          | inr (i2, ret, errs) => parse_finish section_start_pos i2 ret errs
          end
      | None =>
          do sp <- mk_span i i;
          Done (HErrs [{| ekind := ExpectedToken 123; elocs := [sp] |}])
      end
  | None =>
      if required then
        do sp <- mk_span 0 0;
        Done (HErrs [{| ekind := MissingGrmtoolsSection; elocs := [sp] |}])
      else Done (HOk [] 0)
  end.

End Parser.

(* fuel that the repaired parser never exhausts (Proofs.v): linear in the
   byte length of the text *)
Definition fuel_for (src : list N) : nat := 2 * byte_len src + 4.

Definition parse_header_gen (fixed depth_fixed fixed_ctor_ws required : bool) (stack : option nat)
  (fuel : nat) (src : list N) : outcome hresult :=
  parse fixed depth_fixed fixed_ctor_ws stack src required fuel.

(* the code as pinned (on an unbounded stack) *)
Definition parse_header_orig (required : bool) : nat -> list N -> outcome hresult :=
  parse_header_gen false false false required None.
(* the code after the first two repairs, without / with the nesting limit, without /
   with the white-space skip before a constructor argument (on an unbounded stack) *)
Definition parse_header_fixed (depth_fixed fixed_ctor_ws required : bool)
  : nat -> list N -> outcome hresult :=
  parse_header_gen true depth_fixed fixed_ctor_ws required None.
(* the code of /repo after all four repairs *)
Definition parse_header_now (required : bool) (src : list N) : outcome hresult :=
  parse_header_gen true true true required None (fuel_for src) src.
