(* C12 — mirror of cfgrammar/src/lib/markmap.rs (MarkMap<K, V>), function by function.

   K = list N (the bytes of a String; String's Ord = bytewise lexicographic = HeaderModel.key_cmp),
   V abstract (Section variable).  [contents] is the Vec<(K, u16, Option<V>)> as a list, positions are
   Vec indices.  Every Rust panic site is an explicit [Panic]:
     * [contents[pos]]                    -> [nth_checked] / [vec_set]
     * [Vec::insert(pos, x)], pos > len   -> [vec_insert]
     * [Vec::remove(pos)], pos >= len     -> [vec_remove]
     * [Option::unwrap] on None           -> [Panic]  (OccupiedEntry::get / insert)
   [binary_search_by] is mirrored by [bsearch]: the position of the first key that is not smaller than
   the probe (= what binary search returns on a strictly increasing vector: trusted-base line).
   The mark is the u16 of the code: bit 0 Used, bit 1 Required, MergeBehavior(mb) = (1 << 2) | (mb << 8)
   with Theirs = 1, Ours = 2, MutuallyExclusive = 4.  No operation can set a bit above bit 10, so N
   stands for u16 without wrap-around.

   Definitions only. *)
From Coq Require Import List NArith Bool.
From GV Require Import Common.Outcome.
From GV Require C12.HeaderModel.
Import ListNotations.
Local Open Scope N_scope.

Definition mkey := list N.
Definition mkey_cmp : mkey -> mkey -> comparison := HeaderModel.key_cmp.

Inductive mbeh := Theirs | Ours | MutEx.
Definition mbeh_repr (b : mbeh) : N := match b with Theirs => 1 | Ours => 2 | MutEx => 4 end.
Definition M_USED : N := 1.
Definition M_REQUIRED : N := 2.
(* Mark::MergeBehavior(mb).repr() *)
Definition M_MB (b : mbeh) : N := N.lor 4 (N.shiftl (mbeh_repr b) 8).
Definition MERGE_REPRS : N := N.lor (N.lor (M_MB MutEx) (M_MB Ours)) (M_MB Theirs).
(* repr ^= repr & merge_reprs *)
Definition zap (r : N) : N := N.lxor r (N.land r MERGE_REPRS).
Definition set_mb_repr (r : N) (b : mbeh) : N := N.lor (zap r) (M_MB b).
Definition has_bit (r bit : N) : bool := negb (N.land r bit =? 0).

(* ---- Vec primitives -------------------------------------------------------- *)
Fixpoint vec_insert {A} (l : list A) (p : nat) (x : A) : outcome (list A) :=
  match p, l with
  | O, _ => Done (x :: l)
  | S p', [] => Panic
  | S p', a :: t => do t' <- vec_insert t p' x; Done (a :: t')
  end.

Fixpoint vec_set {A} (l : list A) (p : nat) (f : A -> A) : outcome (list A) :=
  match l, p with
  | [], _ => Panic
  | a :: t, O => Done (f a :: t)
  | a :: t, S p' => do t' <- vec_set t p' f; Done (a :: t')
  end.

Fixpoint vec_remove {A} (l : list A) (p : nat) : outcome (A * list A) :=
  match l, p with
  | [], _ => Panic
  | a :: t, O => Done (a, t)
  | a :: t, S p' => do r <- vec_remove t p'; Done (fst r, a :: snd r)
  end.

Section MarkMap.
Variable V : Type.

Definition ent := (mkey * N * option V)%type.
Definition e_key (e : ent) : mkey := fst (fst e).
Definition e_mark (e : ent) : N := snd (fst e).
Definition e_val (e : ent) : option V := snd e.
Definition is_some {A} (o : option A) : bool := match o with Some _ => true | None => false end.

Record markmap := MkMM { mm_default : mbeh; mm_contents : list ent }.
Definition with_contents (m : markmap) (l : list ent) : markmap := MkMM (mm_default m) l.

(* MarkMap::new *)
Definition mm_new : markmap := MkMM MutEx [].

(* contents.binary_search_by(|(k,_,_)| k.cmp(key)) : (true, pos) = Ok(pos), (false, pos) = Err(pos) *)
Fixpoint bsearch (l : list ent) (k : mkey) : bool * nat :=
  match l with
  | [] => (false, O)
  | e :: t =>
      match mkey_cmp (e_key e) k with
      | Lt => let r := bsearch t k in (fst r, S (snd r))
      | Eq => (true, O)
      | Gt => (false, O)
      end
  end.

Definition set_val (v : option V) (e : ent) : ent := (e_key e, e_mark e, v).
Definition map_mark (f : N -> N) (e : ent) : ent := (e_key e, f (e_mark e), e_val e).

(* insert *)
Definition mm_insert (m : markmap) (k : mkey) (v : V) : outcome (option V * markmap) :=
  let l := mm_contents m in
  match bsearch l k with
  | (true, p) =>
      do e <- nth_checked l p;
      do l' <- vec_set l p (set_val (Some v));
      Done (e_val e, with_contents m l')
  | (false, p) =>
      do l' <- vec_insert l p (k, 0, Some v);
      Done (None, with_contents m l')
  end.

(* the shape shared by mark_used / mark_required / set_merge_behavior *)
Definition mm_mark (m : markmap) (k : mkey) (f : N -> N) : outcome markmap :=
  let l := mm_contents m in
  match bsearch l k with
  | (true, p) => do l' <- vec_set l p (map_mark f); Done (with_contents m l')
  | (false, p) => do l' <- vec_insert l p (k, f 0, None); Done (with_contents m l')
  end.

Definition mm_mark_used m k := mm_mark m k (fun r => N.lor r M_USED).
Definition mm_mark_required m k := mm_mark m k (fun r => N.lor r M_REQUIRED).
Definition mm_set_merge_behavior m k b := mm_mark m k (fun r => set_mb_repr r b).
Definition mm_set_default_merge_behavior (m : markmap) (b : mbeh) : markmap := MkMM b (mm_contents m).

Definition mm_test_bit (m : markmap) (k : mkey) (bit : N) : outcome bool :=
  let l := mm_contents m in
  match bsearch l k with
  | (true, p) => do e <- nth_checked l p; Done (has_bit (e_mark e) bit)
  | (false, _) => Done false
  end.
Definition mm_is_used m k := mm_test_bit m k M_USED.
Definition mm_is_required m k := mm_test_bit m k M_REQUIRED.

(* get_mark (cfg(test) only in the code; the OccupiedEntry one is public) *)
Definition mm_get_mark (m : markmap) (k : mkey) : outcome (option N) :=
  let l := mm_contents m in
  match bsearch l k with
  | (true, p) => do e <- nth_checked l p; Done (Some (e_mark e))
  | (false, _) => Done None
  end.

Definition mm_get (m : markmap) (k : mkey) : outcome (option V) :=
  let l := mm_contents m in
  match bsearch l k with
  | (true, p) => do e <- nth_checked l p; Done (e_val e)
  | (false, _) => Done None
  end.

Definition mm_contains_key m k : outcome bool := do v <- mm_get m k; Done (is_some v).

Definition mm_remove (m : markmap) (k : mkey) : outcome (option V * markmap) :=
  let l := mm_contents m in
  match bsearch l k with
  | (true, p) => do r <- vec_remove l p; Done (e_val (fst r), with_contents m (snd r))
  | (false, _) => Done (None, m)
  end.

(* ---- Entry API -------------------------------------------------------------- *)
(* Occupied(pos) | Vacant(pos : Result<usize,usize>) *)
Inductive entry := EOcc (p : nat) | EVac (found : bool) (p : nat).

Definition mm_entry (m : markmap) (k : mkey) : outcome entry :=
  let l := mm_contents m in
  match bsearch l k with
  | (false, p) => Done (EVac false p)
  | (true, p) => do e <- nth_checked l p; Done (if is_some (e_val e) then EOcc p else EVac true p)
  end.

(* VacantEntry::insert / insert_entry (the position the OccupiedEntry gets is [p]) *)
Definition vac_insert (m : markmap) (found : bool) (p : nat) (k : mkey) (v : V) : outcome markmap :=
  let l := mm_contents m in
  if found then do l' <- vec_set l p (set_val (Some v)); Done (with_contents m l')
  else do l' <- vec_insert l p (k, 0, Some v); Done (with_contents m l').

(* VacantEntry::mark_required / set_merge_behavior: afterwards pos = Ok(p) *)
Definition vac_mark (m : markmap) (found : bool) (p : nat) (k : mkey) (f : N -> N) : outcome markmap :=
  let l := mm_contents m in
  if found then do l' <- vec_set l p (map_mark f); Done (with_contents m l')
  else do l' <- vec_insert l p (k, f 0, None); Done (with_contents m l').

(* OccupiedEntry *)
Definition occ_get (m : markmap) (p : nat) : outcome V :=
  do e <- nth_checked (mm_contents m) p;
  match e_val e with Some v => Done v | None => Panic end.

Definition occ_insert (m : markmap) (p : nat) (v : V) : outcome (V * markmap) :=
  do e <- nth_checked (mm_contents m) p;
  do l' <- vec_set (mm_contents m) p (set_val (Some v));
  match e_val e with Some old => Done (old, with_contents m l') | None => Panic end.

Definition occ_get_mark (m : markmap) (p : nat) : outcome N :=
  do e <- nth_checked (mm_contents m) p; Done (e_mark e).

Definition occ_mark (m : markmap) (p : nat) (f : N -> N) : outcome markmap :=
  do _ <- nth_checked (mm_contents m) p;
  do l' <- vec_set (mm_contents m) p (map_mark f); Done (with_contents m l').

Definition occ_test_bit (m : markmap) (p : nat) (bit : N) : outcome bool :=
  do e <- nth_checked (mm_contents m) p; Done (has_bit (e_mark e) bit).

(* ---- merge_from --------------------------------------------------------------- *)
(* MOk l: Ok(()) with self.contents = l;  MErr k v l: Err(Exclusivity(k, v)), self.contents = l at that moment *)
Inductive merge_res := MOk (l : list ent) | MErr (k : mkey) (v : V) (l : list ent).

(* the body of the loop for a key found at [e] = self.contents[pos]: None = return Err *)
Definition merge_found (dflt : mbeh) (e : ent) (their_mark : N) (their_val : option V) : option ent :=
  let my_mark := e_mark e in
  let my_val := e_val e in
  let just_their_marks := zap their_mark in
  let mb0 := N.lor (N.lor (N.land my_mark (M_MB MutEx)) (N.land my_mark (M_MB Ours))) (N.land my_mark (M_MB Theirs)) in
  let mb := if mb0 =? 0 then M_MB dflt else mb0 in
  match their_val with
  | Some tv =>
      if mb =? M_MB MutEx then
        (if is_some my_val then None else Some (e_key e, N.lor my_mark just_their_marks, Some tv))
      else if mb =? M_MB Theirs then Some (e_key e, N.lor my_mark just_their_marks, their_val)
      else if negb (is_some my_val) && (mb =? M_MB Ours) then Some (e_key e, N.lor my_mark just_their_marks, their_val)
      else Some e
  | None =>
      if mb =? M_MB Theirs then Some (e_key e, N.lor my_mark just_their_marks, None)
      else if negb (is_some my_val) && (mb =? M_MB Ours) then Some (e_key e, N.lor my_mark just_their_marks, None)
      else Some e
  end.

Fixpoint merge_go (dflt : mbeh) (l : list ent) (theirs : list ent) : outcome merge_res :=
  match theirs with
  | [] => Done (MOk l)
  | te :: rest =>
      match bsearch l (e_key te) with
      | (true, p) =>
          do e <- nth_checked l p;
          match merge_found dflt e (e_mark te) (e_val te) with
          | None => match e_val te with Some tv => Done (MErr (e_key te) tv l) | None => Panic end
          | Some e' => do l' <- vec_set l p (fun _ => e'); merge_go dflt l' rest
          end
      | (false, p) => do l' <- vec_insert l p te; merge_go dflt l' rest
      end
  end.

(* self.merge_from(other): the new self and Ok / Err(key, their value) *)
Definition mm_merge_from (m other : markmap) : outcome (option (mkey * V) * markmap) :=
  do r <- merge_go (mm_default m) (mm_contents m) (mm_contents other);
  match r with
  | MOk l => Done (None, with_contents m l)
  | MErr k v l => Done (Some (k, v), with_contents m l)
  end.

(* ---- unused / missing / keys / iteration ----------------------------------------- *)
Definition mm_unused (m : markmap) : list mkey :=
  map e_key (filter (fun e => is_some (e_val e) && negb (has_bit (e_mark e) M_USED)) (mm_contents m)).
Definition mm_missing (m : markmap) : list mkey :=
  map e_key (filter (fun e => negb (is_some (e_val e)) && has_bit (e_mark e) M_REQUIRED) (mm_contents m)).
Definition mm_keys (m : markmap) : list mkey :=
  map e_key (filter (fun e => is_some (e_val e)) (mm_contents m)).

(* (&MarkMap).into_iter(): MarkMapIterRef::next returns None at the first entry without a value;
   collecting the iterator therefore stops there *)
Fixpoint iter_ref_go (l : list ent) : list (mkey * V) :=
  match l with
  | [] => []
  | e :: t => match e_val e with Some v => (e_key e, v) :: iter_ref_go t | None => [] end
  end.
Definition mm_iter (m : markmap) : list (mkey * V) := iter_ref_go (mm_contents m).

End MarkMap.

Arguments MkMM {V}. Arguments mm_default {V}. Arguments mm_contents {V}.
Arguments MOk {V}. Arguments MErr {V}.

(* ---- operation sequences over two maps (the correspondence runner; V = u32 as N) ------ *)
Inductive eop :=
| XGet | XInsert (v : N) | XInsertEntry (v : N) | XGetMark | XMarkUsed | XIsUsed
| XMarkRequired | XIsRequired | XSetMB (b : mbeh) | XKey.

Inductive op :=
| OInsert (i : bool) (k : mkey) (v : N) | OGet (i : bool) (k : mkey) | OContains (i : bool) (k : mkey)
| ORemove (i : bool) (k : mkey) | OMarkUsed (i : bool) (k : mkey) | OMarkRequired (i : bool) (k : mkey)
| OIsUsed (i : bool) (k : mkey) | OIsRequired (i : bool) (k : mkey)
| OSetDefault (i : bool) (b : mbeh) | OSetMB (i : bool) (k : mkey) (b : mbeh)
| OEntry (i : bool) (k : mkey) (xs : list eop)
| OMerge (i : bool)            (* map i .merge_from(the other map); the other map is consumed: a new() one replaces it *)
| OUnused (i : bool) | OMissing (i : bool) | OKeys (i : bool) | OIter (i : bool).

Definition mstate := (markmap N * markmap N)%type.
Definition sel (s : mstate) (i : bool) : markmap N := if i then snd s else fst s.
Definition put (s : mstate) (i : bool) (m : markmap N) : mstate := if i then (fst s, m) else (m, snd s).

Definition enc_opt (o : option N) : list N := match o with None => [0] | Some v => [1; v] end.
Definition enc_bool (b : bool) : list N := [if b then 1 else 0].
Definition enc_key (k : mkey) : list N := N.of_nat (length k) :: k.
Definition enc_keys (ks : list mkey) : list N := N.of_nat (length ks) :: concat (map enc_key ks).
Definition NA : list N := [99].
Definition framed (r : list N) : list N := N.of_nat (length r) :: r.

(* one Entry operation: state = Some entry (still held) | None (consumed) *)
Definition eop_step (m : markmap N) (k : mkey) (st : option (entry)) (x : eop)
  : outcome (list N * markmap N * option entry) :=
  match st with
  | None => Done (NA, m, None)
  | Some (EOcc p) =>
      match x with
      | XGet => do v <- occ_get N m p; Done ([v], m, st)
      | XInsert v => do r <- occ_insert N m p v; Done ([fst r], snd r, None)
      | XGetMark => do r <- occ_get_mark N m p; Done ([r], m, st)
      | XMarkUsed => do m' <- occ_mark N m p (fun r => N.lor r M_USED); Done ([], m', st)
      | XIsUsed => do b <- occ_test_bit N m p M_USED; Done (enc_bool b, m, st)
      | XMarkRequired => do m' <- occ_mark N m p (fun r => N.lor r M_REQUIRED); Done ([], m', st)
      | XIsRequired => do b <- occ_test_bit N m p M_REQUIRED; Done (enc_bool b, m, st)
      | XSetMB b => do m' <- occ_mark N m p (fun r => set_mb_repr r b); Done ([], m', st)
      | XInsertEntry _ | XKey => Done (NA, m, st)
      end
  | Some (EVac found p) =>
      match x with
      | XInsert v => do m' <- vac_insert N m found p k v; Done ([], m', None)
      | XInsertEntry v => do m' <- vac_insert N m found p k v; Done ([], m', Some (EOcc p))
      | XMarkRequired => do m' <- vac_mark N m found p k (fun r => N.lor r M_REQUIRED); Done ([], m', Some (EVac true p))
      | XSetMB b => do m' <- vac_mark N m found p k (fun r => set_mb_repr r b); Done ([], m', Some (EVac true p))
      | XKey => Done (enc_key k, m, st)
      | _ => Done (NA, m, st)
      end
  end.

Fixpoint eops_run (m : markmap N) (k : mkey) (st : option entry) (xs : list eop)
  : outcome (list N * markmap N) :=
  match xs with
  | [] => Done ([], m)
  | x :: xs' =>
      do r <- eop_step m k st x;
      let '(o, m', st') := r in
      do r2 <- eops_run m' k st' xs';
      Done (framed o ++ fst r2, snd r2)
  end.

Definition enc_entry (e : entry) : N := match e with EOcc _ => 0 | EVac true _ => 1 | EVac false _ => 2 end.

Definition op_step (s : mstate) (o : op) : outcome (list N * mstate) :=
  match o with
  | OInsert i k v => do r <- mm_insert N (sel s i) k v; Done (enc_opt (fst r), put s i (snd r))
  | OGet i k => do r <- mm_get N (sel s i) k; Done (enc_opt r, s)
  | OContains i k => do r <- mm_contains_key N (sel s i) k; Done (enc_bool r, s)
  | ORemove i k => do r <- mm_remove N (sel s i) k; Done (enc_opt (fst r), put s i (snd r))
  | OMarkUsed i k => do m <- mm_mark_used N (sel s i) k; Done ([], put s i m)
  | OMarkRequired i k => do m <- mm_mark_required N (sel s i) k; Done ([], put s i m)
  | OIsUsed i k => do r <- mm_is_used N (sel s i) k; Done (enc_bool r, s)
  | OIsRequired i k => do r <- mm_is_required N (sel s i) k; Done (enc_bool r, s)
  | OSetDefault i b => Done ([], put s i (mm_set_default_merge_behavior N (sel s i) b))
  | OSetMB i k b => do m <- mm_set_merge_behavior N (sel s i) k b; Done ([], put s i m)
  | OEntry i k xs =>
      do e <- mm_entry N (sel s i) k;
      do r <- eops_run (sel s i) k (Some e) xs;
      Done (enc_entry e :: fst r, put s i (snd r))
  | OMerge i =>
      do r <- mm_merge_from N (sel s i) (sel s (negb i));
      let s' := put (put s i (snd r)) (negb i) (mm_new N) in
      Done (match fst r with None => [0] | Some (k, v) => 1 :: enc_key k ++ [v] end, s')
  | OUnused i => Done (enc_keys (mm_unused N (sel s i)), s)
  | OMissing i => Done (enc_keys (mm_missing N (sel s i)), s)
  | OKeys i => Done (enc_keys (mm_keys N (sel s i)), s)
  | OIter i => let l := mm_iter N (sel s i) in
               Done (N.of_nat (length l) :: concat (map (fun kv => enc_key (fst kv) ++ [snd kv]) l), s)
  end.

Definition PANIC_MARK : list N := [666].

Definition enc_mbeh (b : mbeh) : N := mbeh_repr b.
Definition enc_map (m : markmap N) : list N :=
  enc_mbeh (mm_default m) :: N.of_nat (length (mm_contents m))
  :: concat (map (fun e => enc_key (e_key N e) ++ [e_mark N e] ++ enc_opt (e_val N e)) (mm_contents m)).

(* transcript: one list per operation, then the two maps; a panic ends it with [666] *)
Fixpoint ops_run (s : mstate) (os : list op) : list (list N) :=
  match os with
  | [] => [enc_map (fst s); enc_map (snd s)]
  | o :: os' =>
      match op_step s o with
      | Done (r, s') => r :: ops_run s' os'
      | _ => [PANIC_MARK]
      end
  end.

Definition run_case (os : list op) : list (list N) := ops_run (mm_new N, mm_new N) os.
