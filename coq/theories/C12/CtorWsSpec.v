(* C12 / C10 — white space after the opening parenthesis of a constructor value
   of the %grmtools section (/repo fdd053a).

   [GrmtoolsSectionParser::parse_setting_at_depth] skipped white space between
   every pair of lexemes of the section except between the '(' of a constructor
   value and its argument: `yacckind: Original( NoAction)` — or the argument on
   a line of its own, the layout rustfmt-minded users write — was an
   [IllegalName] error located at the blank.  The flag [fixed_ctor_ws] of the
   mirror (HeaderModel.v) selects the code before / after the repair; totality,
   span well-formedness and the nesting bound (Spec.v) hold for both values.

   "The same value" is stated up to the spans the values carry (they necessarily
   move when a blank is inserted): [unspan_header] erases them. *)
From Coq Require Import List Arith NArith Bool Lia.
From GV Require Import Common.Outcome C12.HeaderModel C12.Spec C12.Conv.
Import ListNotations.

(* ---- values without their spans -------------------------------------------- *)

Definition NOSPAN : span := (0, 0).

Definition unspan_ns (n : namespaced) : namespaced :=
  {| ns_namespace := match ns_namespace n with Some (s, _) => Some (s, NOSPAN) | None => None end;
     ns_member := (fst (ns_member n), NOSPAN) |}.

Fixpoint unspan_setting (s : setting) : setting :=
  match s with
  | Unitary n => Unitary (unspan_ns n)
  | Constructor c a => Constructor (unspan_ns c) (unspan_ns a)
  | Num n _ => Num n NOSPAN
  | Str t _ => Str t NOSPAN
  | Array xs _ _ => Array (map unspan_setting xs) NOSPAN NOSPAN
  end.

Definition unspan_value (v : value) : value :=
  match v with
  | Flag b _ => Flag b NOSPAN
  | SettingV s => SettingV (unspan_setting s)
  end.

(* keys in order, each with its value; no span left *)
Definition unspan_header (h : header) : header :=
  map (fun kv => (fst kv, (NOSPAN, unspan_value (snd (snd kv))))) h.

(* ---- the texts --------------------------------------------------------------- *)

(* %grmtools{yacckind: Original(   — 29 bytes, the last one is the '(' *)
Definition CTOR_PRE : list N :=
  [37; 103; 114; 109; 116; 111; 111; 108; 115; 123; 121; 97; 99; 99; 107; 105; 110; 100; 58; 32;
   79; 114; 105; 103; 105; 110; 97; 108; 40]%N.
(* NoAction)} *)
Definition CTOR_POST : list N := [78; 111; 65; 99; 116; 105; 111; 110; 41; 125]%N.

(* %grmtools{yacckind: Original(<ws>NoAction)} *)
Definition ctor_layout (ws : list N) : list N := CTOR_PRE ++ ws ++ CTOR_POST.

(* the reference layout: %grmtools{yacckind: Original(NoAction)} *)
Definition CTOR_PLAIN : list N := ctor_layout [].
(* the audit's text: %grmtools{yacckind: Original( NoAction)} *)
Definition CTOR_BLANK : list N := ctor_layout [32%N].
(* the argument on a line of its own: '(' '\n' 8 blanks *)
Definition CTOR_NEWLINE : list N := ctor_layout (10%N :: repeat 32%N 8).

(* what the section parser returns on the reference layout, spans erased:
   yacckind -> Constructor original noaction *)
Definition CTOR_VALUE : header :=
  [(S_yacckind,
    (NOSPAN, SettingV (Constructor {| ns_namespace := None; ns_member := (S_original, NOSPAN) |}
                                   {| ns_namespace := None; ns_member := (S_noaction, NOSPAN) |})))].

(* the parse succeeds with the reference value, which converts to YaccKind::Original(NoAction),
   and the section ends [shift] bytes after the end of the reference layout *)
Definition parses_to_ctor_value (o : outcome hresult) (shift : nat) : Prop :=
  exists h pos,
    o = Done (HOk h pos) /\ unspan_header h = CTOR_VALUE /\ pos = byte_len CTOR_PLAIN + shift /\
    exists kl v, hdr_get h S_yacckind = Some (kl, v) /\ yacckind_try_from v = CvOk (YkOriginal NoAction).

(* ---- the defect and its repair ------------------------------------------------ *)

(* pinned (whatever the other three repairs, both values of [required], on the
   fuel that suffices for every text): a blank — or a newline and indentation —
   after '(' is an IllegalName error located at the byte after the '(';
   repaired: both layouts parse to the value of the reference layout *)
Definition header_ctor_ws_refuted_stmt : Prop :=
  (forall fixed depth_fixed required,
     parse_header_gen fixed depth_fixed false required None (fuel_for CTOR_BLANK) CTOR_BLANK =
       Done (HErrs [{| ekind := IllegalName; elocs := [(29, 29)] |}]) /\
     parse_header_gen fixed depth_fixed false required None (fuel_for CTOR_NEWLINE) CTOR_NEWLINE =
       Done (HErrs [{| ekind := IllegalName; elocs := [(29, 29)] |}])) /\
  (forall fixed depth_fixed ctor_ws required,
     parses_to_ctor_value
       (parse_header_gen fixed depth_fixed ctor_ws required None (fuel_for CTOR_PLAIN) CTOR_PLAIN) 0) /\
  (forall fixed depth_fixed required,
     parses_to_ctor_value
       (parse_header_gen fixed depth_fixed true required None (fuel_for CTOR_BLANK) CTOR_BLANK) 1 /\
     parses_to_ctor_value
       (parse_header_gen fixed depth_fixed true required None (fuel_for CTOR_NEWLINE) CTOR_NEWLINE) 9).

(* repaired code, ANY run of Pattern_White_Space characters after the '(' (blanks, tabs,
   newlines, NEL, LRM, U+2028, ... of any length, multi-byte ones included): the section
   parses to the value of the reference layout and ends exactly |ws| bytes later — the
   inserted layout changes nothing but offsets *)
Definition header_layout_insensitive_ctor_stmt : Prop :=
  forall ws fixed depth_fixed required,
    all is_pws ws ->
    parses_to_ctor_value
      (parse_header_gen fixed depth_fixed true required None (fuel_for (ctor_layout ws)) (ctor_layout ws))
      (byte_len ws).

(* ... which the pinned code denies for every non-empty run *)
Definition header_layout_sensitive_ctor_pinned_stmt : Prop :=
  forall ws fixed depth_fixed required,
    all is_pws ws -> ws <> [] ->
    parse_header_gen fixed depth_fixed false required None (fuel_for (ctor_layout ws)) (ctor_layout ws) =
      Done (HErrs [{| ekind := IllegalName; elocs := [(29, 29)] |}]).
