(* C12 — declarative side: what "total" and "well-formed span" mean for the
   %grmtools section parser, the regular languages of the four regexes, and
   the statements proved in Proofs.v (exported in Properties/C12.v). *)
From Coq Require Import List Arith NArith Bool Lia.
From GV Require Import Common.Outcome C12.HeaderModel.
Import ListNotations.

(* ---- character boundaries and spans -------------------------------------- *)

(* byte offset [i] is a character boundary of [src] (its end included) *)
Definition char_boundary (src : list N) (i : nat) : Prop :=
  exists pre post, src = pre ++ post /\ byte_len pre = i.

(* start <= end <= length of the text, both on character boundaries *)
Definition span_wf (src : list N) (sp : span) : Prop :=
  fst sp <= snd sp /\ snd sp <= byte_len src /\
  char_boundary src (fst sp) /\ char_boundary src (snd sp).

Definition ns_spans (n : namespaced) : list span :=
  (match ns_namespace n with Some (_, l) => [l] | None => [] end) ++ [snd (ns_member n)].

Fixpoint setting_spans (s : setting) : list span :=
  match s with
  | Unitary n => ns_spans n
  | Constructor c a => ns_spans c ++ ns_spans a
  | Num _ l => [l]
  | Str _ l => [l]
  | Array xs o c =>
      o :: c :: flat_map setting_spans xs
  end.

Definition value_spans (v : value) : list span :=
  match v with Flag _ l => [l] | SettingV s => setting_spans s end.

Definition header_spans (h : header) : list span :=
  flat_map (fun kv => fst (snd kv) :: value_spans (snd (snd kv))) h.

Definition error_spans (es : list herror) : list span := flat_map elocs es.

(* every span a result carries: those of the values (and the end position of
   the section, which callers use to slice the text) or those of the errors *)
Definition result_spans (r : hresult) : list span :=
  match r with
  | HOk h pos => (pos, pos) :: header_spans h
  | HErrs es => error_spans es
  end.

Definition is_ok (r : hresult) : Prop := match r with HOk _ _ => True | HErrs _ => False end.
Definition errors (r : hresult) : list herror := match r with HOk _ _ => [] | HErrs es => es end.

(* ---- the regular languages of the regexes -------------------------------- *)

(* the first character of [post], if any, fails [p] *)
Definition stops (p : N -> bool) (post : list N) : Prop :=
  match post with [] => True | c :: _ => p c = false end.

Definition all (p : N -> bool) (l : list N) : Prop := Forall (fun c => p c = true) l.

(* RE_LEADING_WS: the longest prefix of Pattern_White_Space characters *)
Definition re_ws_stmt : Prop :=
  forall rest, exists pre post, rest = pre ++ post /\ all is_pws pre /\ stops is_pws post /\
    re_ws rest = byte_len pre.

(* RE_NAME: one name-start character followed by the longest run of name characters *)
Definition re_name_stmt : Prop :=
  forall rest,
    match re_name rest with
    | Some n => exists c pre post, rest = c :: pre ++ post /\ name_start c = true /\
                  all name_cont pre /\ stops name_cont post /\ n = byte_len (c :: pre)
    | None => stops name_start rest
    end.

(* RE_DIGITS: the longest non-empty prefix of ASCII digits *)
Definition re_digits_stmt : Prop :=
  forall rest,
    match re_digits rest with
    | Some n => exists pre post, rest = pre ++ post /\ pre <> [] /\ all is_digit pre /\
                  stops is_digit post /\ n = byte_len pre
    | None => stops is_digit rest
    end.

(* the body of a string literal: items that are either a backslash followed by
   any character but newline, or one character other than the quote and backslash *)
Inductive str_items : list N -> Prop :=
| si_nil : str_items []
| si_esc d t : d <> 10%N -> str_items t -> str_items (92%N :: d :: t)
| si_chr c t : c <> 34%N -> c <> 92%N -> str_items t -> str_items (c :: t).

(* RE_STRING: quote, items, quote — and there is no match exactly when no
   such decomposition of a prefix exists *)
Definition re_string_stmt : Prop :=
  forall rest,
    match re_string rest with
    | Some n => exists body post, rest = 34%N :: body ++ 34%N :: post /\ str_items body /\
                  n = 2 + byte_len body
    | None => forall body post, rest = 34%N :: body ++ 34%N :: post -> ~ str_items body
    end.

(* [&src[i..]] succeeds exactly on character boundaries and yields the suffix *)
Definition slice_from_stmt : Prop :=
  forall src i rest,
    slice_from src i = Done rest <-> exists pre, src = pre ++ rest /\ byte_len pre = i.
Definition slice_from_panics_stmt : Prop :=
  forall src i, slice_from src i = Panic <-> ~ char_boundary src i.

(* ---- totality ------------------------------------------------------------- *)

(* the repaired parser: for every text (and both values of [required]) the
   parse finishes on fuel 2*|src|+4 with a value or a non-empty error list:
   no Panic, no OutOfFuel *)
Definition header_total_stmt : Prop :=
  forall src required, exists r,
    parse_header_fixed required (fuel_for src) src = Done r /\ (is_ok r \/ errors r <> []).

(* with any fuel, the only other outcome of the repaired parser is OutOfFuel
   (never Panic) *)
Definition header_never_panics_stmt : Prop :=
  forall src required fuel, parse_header_fixed required fuel src <> Panic.

(* every span of a value or an error of a finished parse — of either variant —
   is start <= end <= |src| on char boundaries, and every error has a span *)
Definition header_spans_wellformed_stmt : Prop :=
  forall fixed src required fuel r,
    parse_header_gen fixed required fuel src = Done r ->
    Forall (span_wf src) (result_spans r) /\ Forall (fun e => elocs e <> []) (errors r).

(* ---- the pinned code is not total ---------------------------------------- *)

Definition HANG_WITNESS : list N :=         (* %grmtools{a: [ *)
  [37; 103; 114; 109; 116; 111; 111; 108; 115; 123; 97; 58; 32; 91]%N.
Definition PANIC_WITNESS : list N :=        (* %grmtools{a: 99999999999999999999999} *)
  [37; 103; 114; 109; 116; 111; 111; 108; 115; 123; 97; 58; 32;
   57; 57; 57; 57; 57; 57; 57; 57; 57; 57; 57; 57; 57; 57; 57; 57; 57; 57; 57; 57; 57; 57; 57; 125]%N.

(* negation of [header_total_stmt] for the pinned variant, twice *)
Definition header_total_refuted_stmt : Prop :=
  (exists src required, parse_header_orig required (fuel_for src) src = OutOfFuel) /\
  (exists src required, parse_header_orig required (fuel_for src) src = Panic).

(* stronger: on the unterminated array no amount of fuel is enough, and the
   panic does not depend on the fuel *)
Definition header_orig_diverges_stmt : Prop :=
  forall required fuel, parse_header_orig required fuel HANG_WITNESS = OutOfFuel.
Definition header_orig_panics_stmt : Prop :=
  forall required fuel, 2 <= fuel -> parse_header_orig required fuel PANIC_WITNESS = Panic.

(* the hypothesis-free statements above quantify over all texts; examples of
   the three outcome classes of the repaired parser are in Proofs.v *)
