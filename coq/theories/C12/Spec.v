(* C12 — declarative side: what "total" and "well-formed span" mean for the
   %grmtools section parser, the regular languages of the four regexes, and
   the statements proved in Proofs.v (exported in Properties/C12.v). *)
From Coq Require Import List Arith NArith Bool Lia.
From GV Require Import Common.Outcome C12.HeaderModel.
Import ListNotations.

(* ---- character boundaries and spans -------------------------------------- *)

(* byte offset [i] is a character boundary of [src] (its end included) *)
Definition char_boundary (src : list N) (i : nat) : Prop :=
  exists pre post, src = pre ++ post /\ byte_len pre = i.

(* start <= end <= length of the text, both on character boundaries *)
Definition span_wf (src : list N) (sp : span) : Prop :=
  fst sp <= snd sp /\ snd sp <= byte_len src /\
  char_boundary src (fst sp) /\ char_boundary src (snd sp).

Definition ns_spans (n : namespaced) : list span :=
  (match ns_namespace n with Some (_, l) => [l] | None => [] end) ++ [snd (ns_member n)].

Fixpoint setting_spans (s : setting) : list span :=
  match s with
  | Unitary n => ns_spans n
  | Constructor c a => ns_spans c ++ ns_spans a
  | Num _ l => [l]
  | Str _ l => [l]
  | Array xs o c =>
      o :: c :: flat_map setting_spans xs
  end.

Definition value_spans (v : value) : list span :=
  match v with Flag _ l => [l] | SettingV s => setting_spans s end.

Definition header_spans (h : header) : list span :=
  flat_map (fun kv => fst (snd kv) :: value_spans (snd (snd kv))) h.

Definition error_spans (es : list herror) : list span := flat_map elocs es.

(* every span a result carries: those of the values (and the end position of
   the section, which callers use to slice the text) or those of the errors *)
Definition result_spans (r : hresult) : list span :=
  match r with
  | HOk h pos => (pos, pos) :: header_spans h
  | HErrs es => error_spans es
  end.

Definition is_ok (r : hresult) : Prop := match r with HOk _ _ => True | HErrs _ => False end.
Definition errors (r : hresult) : list herror := match r with HOk _ _ => [] | HErrs es => es end.

(* ---- the regular languages of the regexes -------------------------------- *)

(* the first character of [post], if any, fails [p] *)
Definition stops (p : N -> bool) (post : list N) : Prop :=
  match post with [] => True | c :: _ => p c = false end.

Definition all (p : N -> bool) (l : list N) : Prop := Forall (fun c => p c = true) l.

(* RE_LEADING_WS: the longest prefix of Pattern_White_Space characters *)
Definition re_ws_stmt : Prop :=
  forall rest, exists pre post, rest = pre ++ post /\ all is_pws pre /\ stops is_pws post /\
    re_ws rest = byte_len pre.

(* RE_NAME: one name-start character followed by the longest run of name characters *)
Definition re_name_stmt : Prop :=
  forall rest,
    match re_name rest with
    | Some n => exists c pre post, rest = c :: pre ++ post /\ name_start c = true /\
                  all name_cont pre /\ stops name_cont post /\ n = byte_len (c :: pre)
    | None => stops name_start rest
    end.

(* RE_DIGITS: the longest non-empty prefix of ASCII digits *)
Definition re_digits_stmt : Prop :=
  forall rest,
    match re_digits rest with
    | Some n => exists pre post, rest = pre ++ post /\ pre <> [] /\ all is_digit pre /\
                  stops is_digit post /\ n = byte_len pre
    | None => stops is_digit rest
    end.

(* the body of a string literal: items that are either a backslash followed by
   any character but newline, or one character other than the quote and backslash *)
Inductive str_items : list N -> Prop :=
| si_nil : str_items []
| si_esc d t : d <> 10%N -> str_items t -> str_items (92%N :: d :: t)
| si_chr c t : c <> 34%N -> c <> 92%N -> str_items t -> str_items (c :: t).

(* RE_STRING: quote, items, quote — and there is no match exactly when no
   such decomposition of a prefix exists *)
Definition re_string_stmt : Prop :=
  forall rest,
    match re_string rest with
    | Some n => exists body post, rest = 34%N :: body ++ 34%N :: post /\ str_items body /\
                  n = 2 + byte_len body
    | None => forall body post, rest = 34%N :: body ++ 34%N :: post -> ~ str_items body
    end.

(* [&src[i..]] succeeds exactly on character boundaries and yields the suffix *)
Definition slice_from_stmt : Prop :=
  forall src i rest,
    slice_from src i = Done rest <-> exists pre, src = pre ++ rest /\ byte_len pre = i.
Definition slice_from_panics_stmt : Prop :=
  forall src i, slice_from src i = Panic <-> ~ char_boundary src i.

(* ---- totality ------------------------------------------------------------- *)

(* the native stack of the model has room for the recursion of the variant:
   unbounded, or — only with the nesting limit — more than MAX_SETTING_DEPTH
   frames of parse_setting_at_depth *)
Definition stack_fits (depth_fixed : bool) (stack : option nat) : Prop :=
  match stack with
  | None => True
  | Some s => depth_fixed = true /\ MAX_SETTING_DEPTH < s
  end.

(* the repaired parser, without and with the nesting limit: for every text (and
   both values of [required]) the parse finishes on fuel 2*|src|+4 with a value
   or a non-empty error list: no Panic, no OutOfFuel — on an unbounded stack,
   and with the nesting limit on every stack of MAX_SETTING_DEPTH + 1 frames *)
Definition header_total_stmt : Prop :=
  forall depth_fixed ctor_ws stack src required, stack_fits depth_fixed stack -> exists r,
    parse_header_gen true depth_fixed ctor_ws required stack (fuel_for src) src = Done r /\
    (is_ok r \/ errors r <> []).

(* with any fuel, the only other outcome of the repaired parser is OutOfFuel
   (never Panic) *)
Definition header_never_panics_stmt : Prop :=
  forall depth_fixed ctor_ws stack src required fuel, stack_fits depth_fixed stack ->
    parse_header_gen true depth_fixed ctor_ws required stack fuel src <> Panic.

(* every span of a value or an error of a finished parse — of every variant, on
   every stack — is start <= end <= |src| on char boundaries, and every error
   has a span *)
Definition header_spans_wellformed_stmt : Prop :=
  forall fixed depth_fixed ctor_ws stack src required fuel r,
    parse_header_gen fixed depth_fixed ctor_ws required stack fuel src = Done r ->
    Forall (span_wf src) (result_spans r) /\ Forall (fun e => elocs e <> []) (errors r).

(* ---- the nesting limit ----------------------------------------------------- *)

(* with the nesting limit, for every text (every fuel, both earlier variants) the
   recursion of parse_setting_at_depth never needs more than
   MAX_SETTING_DEPTH + 1 frames: a stack with that much room is never exhausted,
   the run is the run on an unbounded stack *)
Definition header_depth_bounded_stmt : Prop :=
  forall fixed ctor_ws src required fuel s, MAX_SETTING_DEPTH < s ->
    parse_header_gen fixed true ctor_ws required (Some s) fuel src =
    parse_header_gen fixed true ctor_ws required None fuel src.

(* %grmtools{a: followed by n '[' *)
Definition DEEP_HDR : list N := [37; 103; 114; 109; 116; 111; 111; 108; 115; 123; 97; 58]%N.
Definition DEEP_WITNESS (n : nat) : list N := DEEP_HDR ++ repeat 91%N n.

(* without the limit no stack is large enough: for every number of frames there
   is a text (DEEP_WITNESS (s+1)) on which the recursion exhausts it — with
   enough fuel to get there, whatever the other flags *)
Definition header_depth_unbounded_refuted_stmt : Prop :=
  forall s fixed ctor_ws required fuel, fuel_for (DEEP_WITNESS (S s)) <= fuel ->
    parse_header_gen fixed false ctor_ws required (Some s) fuel (DEEP_WITNESS (S s)) = Panic.

(* the bound MAX_SETTING_DEPTH + 1 is exact: the nesting limit does not protect
   a stack of only MAX_SETTING_DEPTH frames (the call that reports the error
   runs at depth MAX_SETTING_DEPTH) *)
Definition header_depth_bound_tight_stmt : Prop :=
  exists src, forall ctor_ws required,
    parse_header_gen true true ctor_ws required (Some MAX_SETTING_DEPTH) (fuel_for src) src = Panic.

(* ---- the pinned code is not total ---------------------------------------- *)

Definition HANG_WITNESS : list N :=         (* %grmtools{a: [ *)
  [37; 103; 114; 109; 116; 111; 111; 108; 115; 123; 97; 58; 32; 91]%N.
Definition PANIC_WITNESS : list N :=        (* %grmtools{a: 99999999999999999999999} *)
  [37; 103; 114; 109; 116; 111; 111; 108; 115; 123; 97; 58; 32;
   57; 57; 57; 57; 57; 57; 57; 57; 57; 57; 57; 57; 57; 57; 57; 57; 57; 57; 57; 57; 57; 57; 57; 125]%N.

(* negation of [header_total_stmt] for the pinned variant, twice *)
Definition header_total_refuted_stmt : Prop :=
  (exists src required, parse_header_orig required (fuel_for src) src = OutOfFuel) /\
  (exists src required, parse_header_orig required (fuel_for src) src = Panic).

(* stronger: on the unterminated array no amount of fuel is enough, and the
   panic does not depend on the fuel *)
Definition header_orig_diverges_stmt : Prop :=
  forall required fuel, parse_header_orig required fuel HANG_WITNESS = OutOfFuel.
Definition header_orig_panics_stmt : Prop :=
  forall required fuel, 2 <= fuel -> parse_header_orig required fuel PANIC_WITNESS = Panic.

(* the hypothesis-free statements above quantify over all texts; examples of
   the three outcome classes of the repaired parser are in Proofs.v *)
