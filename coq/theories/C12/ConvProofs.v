(* C12 — proofs of the statements of ConvSpec.v *)
From Coq Require Import List Arith NArith Bool Lia.
From GV Require Import Common.Outcome C12.HeaderModel C12.Spec C12.Proofs C12.Conv C12.ConvSpec.
Import ListNotations.

(* ---- strings ----------------------------------------------------------------- *)

Lemma str_eqb_spec : str_eqb_stmt.
Proof.
  intro a. induction a as [|x a IH]; intros [|y b]; simpl; split; intro H;
    try reflexivity; try discriminate.
  - apply andb_true_iff in H. destruct H as [H1 H2]. apply N.eqb_eq in H1. apply IH in H2. congruence.
  - inversion H; subst. apply andb_true_iff. split. apply N.eqb_refl. apply IH. reflexivity.
Qed.

Lemma str_eqb_false a b : str_eqb a b = false <-> a <> b.
Proof.
  split.
  - intros H E. apply str_eqb_spec in E. congruence.
  - intro H. destruct (str_eqb a b) eqn:E; [|reflexivity]. apply str_eqb_spec in E. contradiction.
Qed.

Lemma str_eqb_sym a b : str_eqb a b = str_eqb b a.
Proof.
  destruct (str_eqb a b) eqn:E; symmetry.
  - apply str_eqb_spec. symmetry. apply str_eqb_spec. exact E.
  - apply str_eqb_false. intro H. apply str_eqb_false in E. congruence.
Qed.

(* ---- the tables ---------------------------------------------------------------- *)

Lemma find_yacckinds m :
  match find_member YACCKINDS m with
  | Some k => (m = S_grmtools /\ k = YkGrmtools) \/ (m = S_eco /\ k = YkEco)
  | None => ~ yk_unit_member m
  end.
Proof.
  unfold YACCKINDS, find_member.
  destruct (str_eqb S_grmtools m) eqn:E1.
  - apply str_eqb_spec in E1. left. split; congruence.
  - destruct (str_eqb S_eco m) eqn:E2.
    + apply str_eqb_spec in E2. right. split; congruence.
    + apply str_eqb_false in E1. apply str_eqb_false in E2.
      intros [H|H]; congruence.
Qed.

Lemma find_actionkinds m :
  match find_member ACTIONKINDS m with
  | Some ak => m = action_name ak
  | None => ~ yk_arg_member m
  end.
Proof.
  unfold ACTIONKINDS, find_member.
  destruct (str_eqb S_noaction m) eqn:E1; [apply str_eqb_spec in E1; subst; reflexivity|].
  destruct (str_eqb S_useraction m) eqn:E2; [apply str_eqb_spec in E2; subst; reflexivity|].
  destruct (str_eqb S_genericparsetree m) eqn:E3; [apply str_eqb_spec in E3; subst; reflexivity|].
  apply str_eqb_false in E1. apply str_eqb_false in E2. apply str_eqb_false in E3.
  intros [[| |] H]; simpl in H; congruence.
Qed.

Lemma find_encodings m :
  match find_member ENCODINGS m with
  | Some f => m = format_name f
  | None => ~ sf_member m
  end.
Proof.
  unfold ENCODINGS, find_member.
  destruct (str_eqb S_fixedsizeinteger m) eqn:E1; [apply str_eqb_spec in E1; subst; reflexivity|].
  destruct (str_eqb S_variablesizedinteger m) eqn:E2; [apply str_eqb_spec in E2; subst; reflexivity|].
  apply str_eqb_false in E1. apply str_eqb_false in E2.
  intros [[|] H]; simpl in H; congruence.
Qed.

Lemma action_name_inj a b : action_name a = action_name b -> a = b.
Proof. destruct a, b; simpl; intro H; try reflexivity; discriminate. Qed.

Lemma format_name_inj a b : format_name a = format_name b -> a = b.
Proof. destruct a, b; simpl; intro H; try reflexivity; discriminate. Qed.

(* from here on the tables are looked at only through the three lemmas above *)
Local Opaque find_member.

(* ---- namespaces and components -------------------------------------------------- *)

Lemma ns_fault_nil expected n : ns_fault expected n = [] <-> ns_ok expected n.
Proof.
  unfold ns_fault, ns_ok. destruct (ns_namespace n) as [[ns l]|]; [|tauto].
  destruct (str_eqb ns expected) eqn:E.
  - apply str_eqb_spec in E. tauto.
  - apply str_eqb_false in E. split; [discriminate|contradiction].
Qed.

Lemma ns_fault_len expected n : length (ns_fault expected n) <= 1.
Proof.
  unfold ns_fault. destruct (ns_namespace n) as [[ns l]|]; simpl; [|lia].
  destruct (str_eqb ns expected); simpl; lia.
Qed.

Lemma faulty_of_app c1 l1 c2 l2 :
  faulty_of c1 l1 -> faulty_of c2 l2 -> faulty_of (c1 ++ c2) (l1 ++ l2).
Proof.
  induction 1; intro H2; simpl.
  - exact H2.
  - apply fo_bad; auto.
  - apply fo_good; auto.
Qed.

(* the locations collected for `[ns ::] member`, given whether the member is accepted *)
Lemma ns_components_faulty expected (member_ok : list N -> Prop) (mok : bool) n :
  (mok = true <-> member_ok (fst (ns_member n))) ->
  faulty_of (ns_components expected member_ok n)
            (ns_fault expected n ++ (if mok then [] else [snd (ns_member n)])).
Proof.
  intro Hm. unfold ns_components. apply faulty_of_app.
  - unfold ns_fault. destruct (ns_namespace n) as [[ns l]|]; [|constructor].
    destruct (str_eqb ns expected) eqn:E.
    + apply str_eqb_spec in E. apply fo_good; [tauto|constructor].
    + apply str_eqb_false in E. apply fo_bad; [exact E|constructor].
  - destruct mok.
    + apply fo_good; [|constructor]. intro H. apply H. apply Hm. reflexivity.
    + apply fo_bad; [|constructor]. intro H. apply Hm in H. discriminate.
Qed.

Lemma ok_unless_cases {A} (x : A) locs :
  (locs = [] /\ ok_unless x locs = CvOk x) \/ (locs <> [] /\ ok_unless x locs = CvErr locs).
Proof. destruct locs; [left|right]; split; try reflexivity; discriminate. Qed.

Lemma app_nil_both {A} (a b : list A) : a ++ b = [] -> a = [] /\ b = [].
Proof. apply app_eq_nil. Qed.

(* ---- YaccKind::try_from ---------------------------------------------------------- *)

Lemma yacckind_conv_ok_iff : yacckind_conv_ok_iff_stmt.
Proof.
  intros v k. split.
  - destruct v as [b l|[n|c a|x l|s l|xs o cl]]; simpl; try discriminate.
    + unfold unitary_conv. pose proof (find_yacckinds (fst (ns_member n))) as Hf.
      destruct (find_member YACCKINDS (fst (ns_member n))) as [yk|]; [|discriminate].
      destruct (ok_unless_cases yk (ns_fault S_yacckind n)) as [[He Ho]|[He Ho]];
        rewrite Ho; intro H; inversion H; subst.
      apply ns_fault_nil in He.
      destruct Hf as [[Hm Hk]|[Hm Hk]]; subst; [apply yf_grmtools|apply yf_eco]; assumption.
    + cbv zeta. pose proof (find_actionkinds (fst (ns_member a))) as Hf.
      destruct (find_member ACTIONKINDS (fst (ns_member a))) as [ak|]; [|intro H; discriminate H].
      match goal with |- ok_unless ?x ?l = _ -> _ =>
        destruct (ok_unless_cases x l) as [[He Ho]|[He Ho]]; rewrite Ho end;
        intro H; inversion H; subst.
      apply app_nil_both in He. destruct He as [He He3].
      apply app_nil_both in He. destruct He as [He1 He2].
      apply yf_original.
      * apply ns_fault_nil. exact He1.
      * destruct (str_eqb (fst (ns_member c)) S_original) eqn:E; [|discriminate].
        apply str_eqb_spec. exact E.
      * apply ns_fault_nil. exact He3.
      * exact Hf.
  - intro H. inversion H; subst; simpl.
    + unfold unitary_conv. rewrite H1. apply ns_fault_nil in H0. rewrite H0. vm_compute. reflexivity.
    + unfold unitary_conv. rewrite H1. apply ns_fault_nil in H0. rewrite H0. vm_compute. reflexivity.
    + apply ns_fault_nil in H0. apply ns_fault_nil in H2. rewrite H0, H2, H1, H3.
      destruct ak; vm_compute; reflexivity.
Qed.

Lemma faulty_of_len comps locs : faulty_of comps locs -> length locs <= length comps.
Proof. induction 1; simpl; lia. Qed.

Lemma ns_components_len expected mo n : length (ns_components expected mo n) <= 2.
Proof.
  unfold ns_components. rewrite app_length. simpl.
  destruct (ns_namespace n) as [[? ?]|]; simpl; lia.
Qed.

Lemma yacckind_conv_err_spans : yacckind_conv_err_spans_stmt.
Proof.
  intro v.
  assert (Hno : forall locs, yacckind_try_from v = CvErr locs -> forall k, ~ yacckind_form v k).
  { intros locs He k Hk. apply yacckind_conv_ok_iff in Hk. congruence. }
  destruct v as [b l|[n|c a|x l|s l|xs o cl]];
    try (simpl; repeat split; [apply fo_bad; [exact I|constructor] | lia | lia |
         intros k Hk; inversion Hk]).
  - (* Unitary *)
    revert Hno. simpl. unfold unitary_conv.
    pose proof (find_yacckinds (fst (ns_member n))) as Hf.
    destruct (find_member YACCKINDS (fst (ns_member n))) as [yk|] eqn:Ef.
    + assert (Hc : faulty_of (ns_components S_yacckind yk_unit_member n)
                             (ns_fault S_yacckind n ++ [])).
      { apply (ns_components_faulty S_yacckind yk_unit_member true). split; [intros _|reflexivity].
        destruct Hf as [[Hm _]|[Hm _]]; [left|right]; exact Hm. }
      rewrite app_nil_r in Hc.
      destruct (ok_unless_cases yk (ns_fault S_yacckind n)) as [[He Ho]|[He Ho]]; rewrite Ho; intro Hno.
      * rewrite He in Hc. exact Hc.
      * split; [exact Hc|]. split; [|apply (Hno _ eq_refl)].
        pose proof (ns_fault_len S_yacckind n).
        destruct (ns_fault S_yacckind n); [contradiction|simpl in *; lia].
    + intro Hno. split; [|split; [|apply (Hno _ eq_refl)]].
      * apply (ns_components_faulty S_yacckind yk_unit_member false). split; [discriminate|].
        intro H. contradiction.
      * rewrite app_length. simpl. pose proof (ns_fault_len S_yacckind n). lia.
  - (* Constructor *)
    revert Hno. simpl. cbv zeta.
    set (mokc := str_eqb (fst (ns_member c)) S_original).
    pose proof (find_actionkinds (fst (ns_member a))) as Hf.
    assert (Hc : faulty_of (ns_components S_yacckind yk_ctor_member c)
                   (ns_fault S_yacckind c ++ (if mokc then [] else [snd (ns_member c)]))).
    { apply ns_components_faulty. unfold mokc, yk_ctor_member. apply str_eqb_spec. }
    pose proof (ns_fault_len S_yacckind c) as L1.
    pose proof (ns_fault_len S_yaccoriginalactionkind a) as L3.
    assert (L2 : length (if mokc then [] else [snd (ns_member c)]) <= 1) by (destruct mokc; simpl; lia).
    destruct (find_member ACTIONKINDS (fst (ns_member a))) as [ak|] eqn:Ef.
    + assert (Ha : faulty_of (ns_components S_yaccoriginalactionkind yk_arg_member a)
                             (ns_fault S_yaccoriginalactionkind a ++ [])).
      { apply (ns_components_faulty S_yaccoriginalactionkind yk_arg_member true).
        split; [intros _|reflexivity]. exists ak. exact Hf. }
      rewrite app_nil_r in Ha.
      pose proof (faulty_of_app _ _ _ _ Hc Ha) as Hall.
      match goal with |- (forall locs, ok_unless ?x ?l = _ -> _) -> _ =>
        destruct (ok_unless_cases x l) as [[He Ho]|[He Ho]]; rewrite Ho end; intro Hno.
      * rewrite He in Hall. exact Hall.
      * split; [exact Hall|].
        split; [|apply (Hno _ eq_refl)].
        split.
        -- match goal with |- 1 <= length ?l => destruct l; [contradiction|simpl; lia] end.
        -- rewrite !app_length. lia.
    + assert (Ha : faulty_of (ns_components S_yaccoriginalactionkind yk_arg_member a)
                             (ns_fault S_yaccoriginalactionkind a ++ [snd (ns_member a)])).
      { apply (ns_components_faulty S_yaccoriginalactionkind yk_arg_member false).
        split; [discriminate|]. intro H. contradiction. }
      pose proof (faulty_of_app _ _ _ _ Hc Ha) as Hall. rewrite app_assoc in Hall.
      intro Hno. split; [|split; [|apply (Hno _ eq_refl)]].
      * exact Hall.
      * rewrite !app_length. simpl. lia.
Qed.

Lemma yk_components_cover : yk_components_cover_stmt.
Proof.
  intros [b l|[n|c a|x l|s l|xs o cl]]; simpl.
  - intros sp [H|[]]; subst; left; reflexivity.
  - unfold ns_components, ns_spans. rewrite map_app.
    destruct (ns_namespace n) as [[ns l]|]; reflexivity.
  - unfold ns_components, ns_spans. rewrite !map_app.
    destruct (ns_namespace c) as [[ns l]|]; destruct (ns_namespace a) as [[ns' l']|]; reflexivity.
  - intros sp [H|[]]; subst; left; reflexivity.
  - intros sp [H|[]]; subst; left; reflexivity.
  - intros sp [H|[]]; subst; left; reflexivity.
Qed.

(* ---- SerialisationFormat::try_from ------------------------------------------------ *)

Lemma serformat_conv_spec : serformat_conv_spec_stmt.
Proof.
  intro v.
  destruct v as [b l|[n|c a|x l|s l|xs o cl]];
    try (simpl; split; [intro f; split; [discriminate|intro H; inversion H] |
         split; [apply fo_bad; [exact I|constructor]|lia]]).
  simpl. unfold unitary_conv.
  pose proof (find_encodings (fst (ns_member n))) as Hf.
  pose proof (ns_fault_len S_serialisationformat n) as L.
  destruct (find_member ENCODINGS (fst (ns_member n))) as [f0|] eqn:Ef.
  - assert (Hc : faulty_of (ns_components S_serialisationformat sf_member n)
                           (ns_fault S_serialisationformat n ++ [])).
    { apply (ns_components_faulty S_serialisationformat sf_member true).
      split; [intros _|reflexivity]. exists f0. exact Hf. }
    rewrite app_nil_r in Hc.
    destruct (ok_unless_cases f0 (ns_fault S_serialisationformat n)) as [[He Ho]|[He Ho]]; rewrite Ho.
    + split.
      * intro f. split.
        -- intro H. inversion H; subst. constructor; [apply ns_fault_nil; exact He|exact Hf].
        -- intro H. inversion H; subst.
           match goal with Hx : fst (ns_member n) = format_name _ |- _ => rewrite Hx in Hf end.
           apply format_name_inj in Hf. congruence.
      * rewrite He in Hc. exact Hc.
    + split.
      * intro f. split; [discriminate|]. intro H. inversion H; subst.
        match goal with Hx : ns_ok _ n |- _ => apply ns_fault_nil in Hx; contradiction end.
      * split; [exact Hc|]. destruct (ns_fault S_serialisationformat n); [contradiction|simpl in *; lia].
  - split.
    + intro f. split; [discriminate|]. intro H. inversion H; subst. exfalso. apply Hf. exists f. assumption.
    + split.
      * apply (ns_components_faulty S_serialisationformat sf_member false). split; [discriminate|].
        intro H. contradiction.
      * rewrite app_length. simpl. lia.
Qed.

(* ---- on what the section parser returns -------------------------------------------- *)

Lemma faulty_of_incl comps locs : faulty_of comps locs -> incl locs (map fst comps).
Proof.
  induction 1; simpl.
  - intros x [].
  - intros x [Hx|Hx]; [left; exact Hx|right; apply IHfaulty_of; exact Hx].
  - intros x Hx. right. apply IHfaulty_of. exact Hx.
Qed.

Lemma yk_locs_in_value v locs : yacckind_try_from v = CvErr locs -> incl locs (value_spans v).
Proof.
  intro He. pose proof (yacckind_conv_err_spans v) as H. rewrite He in H. destruct H as [H _].
  apply faulty_of_incl in H. pose proof (yk_components_cover v) as Hc.
  destruct v as [b l|[n|c a|x l|s l|xs o cl]]; try (rewrite <- Hc; exact H);
    intros sp Hs; apply Hc; apply H; exact Hs.
Qed.

Lemma sf_components_cover v : incl (map fst (sf_components v)) (value_spans v).
Proof.
  destruct v as [b l|[n|c a|x l|s l|xs o cl]]; simpl;
    try (intros sp [H|[]]; subst; left; reflexivity).
  - unfold ns_components, ns_spans. rewrite map_app.
    destruct (ns_namespace n) as [[ns l]|]; simpl; apply incl_refl.
  - intros sp [H|[]]; subst. unfold ns_spans. apply in_or_app. right. apply in_or_app. right. left. reflexivity.
Qed.

Lemma sf_locs_in_value v locs : serformat_try_from v = CvErr locs -> incl locs (value_spans v).
Proof.
  intro He. pose proof (serformat_conv_spec v) as [_ H]. rewrite He in H. destruct H as [H _].
  apply faulty_of_incl in H. intros sp Hs. apply sf_components_cover. apply H. exact Hs.
Qed.

Lemma value_spans_in_header h key kl v :
  In (key, (kl, v)) h -> incl (value_spans v) (header_spans h).
Proof.
  intros Hin sp Hs. unfold header_spans. apply in_flat_map.
  exists (key, (kl, v)). split; [exact Hin|]. simpl. right. exact Hs.
Qed.

Lemma conv_error_spans_wellformed : conv_error_spans_wellformed_stmt.
Proof.
  intros fixed dfx cw stack src required fuel h pos key kl v Hp Hin.
  destruct (header_spans_wellformed _ _ _ _ _ _ _ _ Hp) as [Hwf _].
  simpl in Hwf. apply Forall_cons_iff in Hwf. destruct Hwf as [_ Hwf].
  rewrite Forall_forall in Hwf.
  pose proof (value_spans_in_header h key kl v Hin) as Hincl.
  split; intros locs He.
  - pose proof (yacckind_conv_err_spans v) as H. rewrite He in H. destruct H as [_ [Hl _]].
    split; [exact Hl|]. apply Forall_forall. intros sp Hs.
    apply Hwf. apply Hincl. apply (yk_locs_in_value v locs He). exact Hs.
  - pose proof (serformat_conv_spec v) as [_ H]. rewrite He in H. destruct H as [_ Hl].
    split; [exact Hl|]. apply Forall_forall. intros sp Hs.
    apply Hwf. apply Hincl. apply (sf_locs_in_value v locs He). exact Hs.
Qed.

(* the hypotheses of [conv_error_spans_wellformed] are satisfiable: an entry of a parsed
   section whose value does not convert (W2 = %grmtools{yacckind: Foo::Bar}) *)
Example conv_error_hyps_witness :
  exists h pos key kl v locs,
    parse_header_gen true true true true None (fuel_for W2) W2 = Done (HOk h pos) /\
    In (key, (kl, v)) h /\ yacckind_try_from v = CvErr locs /\ length locs = 2 /\
    (exists locs', serformat_try_from v = CvErr locs' /\ length locs' = 2).
Proof.
  let r := eval vm_compute in (parse_header_gen true true true true None (fuel_for W2) W2) in
  match r with
  | Done (HOk ((?key, (?kl, ?v)) :: ?t) ?pos) =>
      exists ((key, (kl, v)) :: t), pos, key, kl, v;
      let c := eval vm_compute in (yacckind_try_from v) in
      match c with CvErr ?locs => exists locs end;
      split; [vm_compute; reflexivity|split; [left; reflexivity|split; [vm_compute; reflexivity|
        split; [reflexivity|eexists; split; vm_compute; reflexivity]]]]
  end.
Qed.

(* ---- witnesses ------------------------------------------------------------------------ *)

Ltac witness :=
  match goal with
  | |- yacckind_error_of ?src _ =>
      let r := eval vm_compute in (parse_header_gen true true true true None (fuel_for src) src) in
      match r with
      | Done (HOk ?h ?pos) =>
          let g := eval vm_compute in (hdr_get h S_yacckind) in
          match g with
          | Some (?kl, ?v) =>
              exists h, pos, kl, v; split; [vm_compute; reflexivity|split; vm_compute; reflexivity]
          end
      end
  end.

Lemma yacckind_span_counts_occur : yacckind_span_counts_occur_stmt.
Proof. repeat split; witness. Qed.

(* the hypothesis of [conv_error_spans_wellformed] and the [CvOk] side are satisfiable:
   a documented form parses and converts *)
Example yacckind_ok_witness :
  exists h pos kl v,
    parse_header_gen true true true true None (fuel_for WOK) WOK = Done (HOk h pos) /\
    hdr_get h S_yacckind = Some (kl, v) /\
    yacckind_try_from v = CvOk (YkOriginal NoAction).
Proof.
  let r := eval vm_compute in (parse_header_gen true true true true None (fuel_for WOK) WOK) in
  match r with
  | Done (HOk ?h ?pos) =>
      let g := eval vm_compute in (hdr_get h S_yacckind) in
      match g with
      | Some (?kl, ?v) => exists h, pos, kl, v; split; [vm_compute; reflexivity|split; vm_compute; reflexivity]
      end
  end.
Qed.

(* ---- the renderer ----------------------------------------------------------------------- *)

Lemma span_labels_from_fixed sk : forall spans i, exists ls,
  span_labels_from true sk i spans = Done ls /\ map fst ls = spans /\
  (forall sp l rest, ls = (sp, l) :: rest -> l = match i with 0 => LMessage | S _ =>
     match sk with SkError => LMessage | SkDuplicationError => LOccurrence (i + 1) end end).
Proof.
  induction spans as [|sp rest IH]; intro i; simpl.
  - exists []. repeat split. intros; discriminate.
  - destruct (IH (S i)) as [more [Hm [Hf _]]].
    assert (Hl : exists l, span_label true sk i = Done l /\ l = match i with 0 => LMessage | S _ =>
       match sk with SkError => LMessage | SkDuplicationError => LOccurrence (i + 1) end end).
    { destruct i; simpl; [eexists; split; reflexivity|]. destruct sk; eexists; split; reflexivity. }
    destruct Hl as [l [Hl1 Hl2]]. rewrite Hl1. simpl. rewrite Hm. simpl.
    exists ((sp, l) :: more). repeat split.
    + simpl. rewrite Hf. reflexivity.
    + intros sp' l' rest' H. inversion H; subst. reflexivity.
Qed.

Lemma span_labels_total : span_labels_total_stmt.
Proof.
  intros sk spans. destruct (span_labels_from_fixed sk spans 0) as [ls [H1 [H2 H3]]].
  exists ls. repeat split; assumption.
Qed.

Lemma span_labels_from_dup fixed : forall spans i,
  span_labels_from fixed SkDuplicationError i spans <> Panic.
Proof.
  induction spans as [|sp rest IH]; intro i; simpl; [discriminate|].
  assert (Hl : exists l, span_label fixed SkDuplicationError i = Done l)
    by (destruct i; simpl; eexists; reflexivity).
  destruct Hl as [l Hl]. rewrite Hl. simpl.
  specialize (IH (S i)). destruct (span_labels_from fixed SkDuplicationError (S i) rest); simpl;
    try discriminate. contradiction.
Qed.

Lemma span_labels_from_err_pos : forall spans i, spans <> [] ->
  span_labels_from false SkError (S i) spans = Panic.
Proof. intros [|sp rest] i H; [contradiction|reflexivity]. Qed.

Lemma span_labels_orig_panics_iff : span_labels_orig_panics_iff_stmt.
Proof.
  intros sk spans. unfold span_labels. split.
  - intro H. destruct sk.
    + split; [reflexivity|]. destruct spans as [|a [|b rest]]; simpl in *; try discriminate. lia.
    + exfalso. exact (span_labels_from_dup false spans 0 H).
  - intros [Hk Hl]. subst. destruct spans as [|a [|b rest]]; simpl in *; try lia. reflexivity.
Qed.

Lemma span_labels_fixed_error : forall spans i,
  span_labels_from true SkError i spans = Done (map (fun sp => (sp, LMessage)) spans).
Proof.
  induction spans as [|sp rest IH]; intro i; simpl; [reflexivity|].
  assert (Hl : span_label true SkError i = Done LMessage) by (destruct i; reflexivity).
  rewrite Hl. simpl. rewrite IH. reflexivity.
Qed.

Lemma render_invalid_entry_refuted : render_invalid_entry_refuted_stmt.
Proof.
  exists W4, [(20, 27); (29, 36); (37, 58); (60, 67)].
  split; [apply yacckind_span_counts_occur|]. split.
  - apply span_labels_orig_panics_iff. split; [reflexivity|simpl; lia].
  - apply span_labels_fixed_error.
Qed.
