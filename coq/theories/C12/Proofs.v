(* C12 — proofs about the mirror of the %grmtools section parser. *)
From Coq Require Import List Arith NArith Bool Lia.
From GV Require Import Common.Outcome C12.HeaderModel C12.Spec.
Import ListNotations.

(* ---- byte lengths and slices ---------------------------------------------- *)

Lemma len_utf8_pos c : 1 <= len_utf8 c.
Proof.
  unfold len_utf8.
  destruct (c <? 128)%N; [lia|].
  destruct (c <? 2048)%N; [lia|].
  destruct (c <? 65536)%N; lia.
Qed.

Lemma byte_len_app a b : byte_len (a ++ b) = byte_len a + byte_len b.
Proof. induction a as [|c a IH]; simpl; [reflexivity | rewrite IH; lia]. Qed.

Lemma byte_len_0 s : byte_len s = 0 -> s = [].
Proof.
  destruct s as [|c s]; [reflexivity|]. simpl. pose proof (len_utf8_pos c). lia.
Qed.

Lemma byte_len_pos s : s <> [] -> 1 <= byte_len s.
Proof.
  destruct s as [|c s]; [congruence|]. intros _. simpl. pose proof (len_utf8_pos c). lia.
Qed.

(* position [i] of [src] with the text [rest] after it *)
Definition at_pos (src : list N) (i : nat) (rest : list N) : Prop :=
  exists pre, src = pre ++ rest /\ byte_len pre = i.

Lemma at_pos_0 src : at_pos src 0 src.
Proof. exists []. split; reflexivity. Qed.

Lemma at_pos_app src i a b : at_pos src i (a ++ b) -> at_pos src (i + byte_len a) b.
Proof.
  intros (pre & Hs & Hl). exists (pre ++ a). split.
  - rewrite <- app_assoc. exact Hs.
  - rewrite byte_len_app. lia.
Qed.

Lemma at_pos_len src i rest : at_pos src i rest -> i + byte_len rest = byte_len src.
Proof. intros (pre & Hs & Hl). subst. rewrite byte_len_app. reflexivity. Qed.

Lemma at_pos_boundary src i rest : at_pos src i rest -> char_boundary src i.
Proof. intros (pre & Hs & Hl). exists pre, rest. split; assumption. Qed.

Lemma boundary_at_pos src i : char_boundary src i -> exists rest, at_pos src i rest.
Proof. intros (pre & post & Hs & Hl). exists post, pre. split; assumption. Qed.

Lemma boundary_le src i : char_boundary src i -> i <= byte_len src.
Proof. intros (pre & post & Hs & Hl). subst. rewrite byte_len_app. lia. Qed.

Lemma slice_from_pre pre : forall rest, slice_from (pre ++ rest) (byte_len pre) = Done rest.
Proof.
  induction pre as [|c pre IH]; intros rest; simpl.
  - destruct rest; reflexivity.
  - pose proof (len_utf8_pos c) as Hc.
    destruct (len_utf8 c + byte_len pre) as [|n] eqn:En; [lia|].
    replace (len_utf8 c <=? S n) with true by (symmetry; apply Nat.leb_le; lia).
    replace (S n - len_utf8 c) with (byte_len pre) by lia.
    apply IH.
Qed.

Lemma slice_from_at src i rest : at_pos src i rest -> slice_from src i = Done rest.
Proof. intros (pre & Hs & Hl). subst. apply slice_from_pre. Qed.

Lemma slice_from_cons c src i :
  slice_from (c :: src) (S i) =
  if len_utf8 c <=? S i then slice_from src (S i - len_utf8 c) else Panic.
Proof. reflexivity. Qed.

Lemma slice_from_inv : forall src i rest, slice_from src i = Done rest -> at_pos src i rest.
Proof.
  induction src as [|c src IH]; intros i rest H.
  - destruct i; simpl in H; [|discriminate]. inversion H. exists []. split; reflexivity.
  - destruct i as [|i].
    + simpl in H. inversion H. exists []. split; reflexivity.
    + rewrite slice_from_cons in H. destruct (len_utf8 c <=? S i) eqn:El; [|discriminate].
      apply Nat.leb_le in El. apply IH in H. destruct H as (pre & Hs & Hl).
      exists (c :: pre). split; [simpl; rewrite Hs; reflexivity | simpl; lia].
Qed.

Lemma slice_from_not_fuel src : forall i, slice_from src i <> OutOfFuel.
Proof.
  induction src as [|c src IH]; intros i; destruct i; try (simpl; discriminate).
  rewrite slice_from_cons. destruct (len_utf8 c <=? S i); [apply IH | discriminate].
Qed.

Lemma slice_from_spec : slice_from_stmt.
Proof.
  intros src i rest. split; [apply slice_from_inv | apply slice_from_at].
Qed.

Lemma slice_from_panics : slice_from_panics_stmt.
Proof.
  intros src i. split.
  - intros H Hb. apply boundary_at_pos in Hb. destruct Hb as (rest & Hat).
    apply slice_from_at in Hat. congruence.
  - intros Hn. destruct (slice_from src i) as [rest| |] eqn:E.
    + exfalso. apply Hn. apply slice_from_inv in E. eapply at_pos_boundary; eassumption.
    + reflexivity.
    + exfalso. eapply slice_from_not_fuel; eassumption.
Qed.

Lemma take_bytes_pre a : forall b, take_bytes (a ++ b) (byte_len a) = Done a.
Proof.
  induction a as [|c a IH]; intros b; simpl.
  - destruct b; reflexivity.
  - pose proof (len_utf8_pos c) as Hc.
    destruct (len_utf8 c + byte_len a) as [|n] eqn:En; [lia|].
    replace (len_utf8 c <=? S n) with true by (symmetry; apply Nat.leb_le; lia).
    replace (S n - len_utf8 c) with (byte_len a) by lia.
    rewrite IH. reflexivity.
Qed.

Lemma slice_range_at src i a b :
  at_pos src i (a ++ b) -> slice_range src i (i + byte_len a) = Done a.
Proof.
  intros Hat. unfold slice_range.
  replace (i + byte_len a <? i) with false by (symmetry; apply Nat.ltb_ge; lia).
  rewrite (slice_from_at _ _ _ Hat). cbn [obind].
  replace (i + byte_len a - i) with (byte_len a) by lia.
  apply take_bytes_pre.
Qed.

Lemma mk_span_ok a b : a <= b -> mk_span a b = Done (a, b).
Proof.
  intros H. unfold mk_span.
  replace (b <? a) with false by (symmetry; apply Nat.ltb_ge; lia). reflexivity.
Qed.

Lemma span_wf_of src a b :
  char_boundary src a -> char_boundary src b -> a <= b -> span_wf src (a, b).
Proof.
  intros Ha Hb Hle. unfold span_wf. simpl.
  split; [exact Hle|]. split; [apply boundary_le; exact Hb|]. split; assumption.
Qed.

Lemma starts_with_true s : forall rest, starts_with s rest = true -> exists post, rest = s ++ post.
Proof.
  induction s as [|c s IH]; intros rest H; simpl in H.
  - exists rest. reflexivity.
  - destruct rest as [|d rest]; [discriminate|].
    apply andb_true_iff in H. destruct H as [Hc Hs].
    apply N.eqb_eq in Hc. subst d.
    destruct (IH _ Hs) as (post & Hp). exists post. simpl. rewrite Hp. reflexivity.
Qed.

(* ---- scanners -------------------------------------------------------------- *)

Fixpoint drop_while (p : N -> bool) (s : list N) : list N :=
  match s with
  | c :: t => if p c then drop_while p t else s
  | [] => []
  end.

Lemma take_drop p s : s = take_while p s ++ drop_while p s.
Proof.
  induction s as [|c s IH]; simpl; [reflexivity|].
  destruct (p c); simpl; [rewrite <- IH|]; reflexivity.
Qed.

Lemma take_while_all p s : all p (take_while p s).
Proof.
  induction s as [|c s IH]; simpl; [constructor|].
  destruct (p c) eqn:E; [constructor; assumption | constructor].
Qed.

Lemma drop_while_stops p s : stops p (drop_while p s).
Proof.
  induction s as [|c s IH]; simpl; [exact I|].
  destruct (p c) eqn:E; [exact IH | simpl; exact E].
Qed.

Lemma re_ws_spec : re_ws_stmt.
Proof.
  intros rest. exists (take_while is_pws rest), (drop_while is_pws rest).
  split; [apply take_drop|]. split; [apply take_while_all|].
  split; [apply drop_while_stops | reflexivity].
Qed.

Lemma re_name_spec : re_name_stmt.
Proof.
  intros rest. unfold re_name. destruct rest as [|c t]; [exact I|].
  destruct (name_start c) eqn:E.
  - exists c, (take_while name_cont t), (drop_while name_cont t).
    split; [rewrite <- take_drop; reflexivity|]. split; [exact E|].
    split; [apply take_while_all|]. split; [apply drop_while_stops | reflexivity].
  - simpl. exact E.
Qed.

Lemma re_digits_spec : re_digits_stmt.
Proof.
  intros rest. unfold re_digits.
  pose proof (take_drop is_digit rest) as Htd.
  pose proof (take_while_all is_digit rest) as Hall.
  pose proof (drop_while_stops is_digit rest) as Hst.
  destruct (take_while is_digit rest) as [|d ds] eqn:E.
  - simpl in Htd. rewrite Htd. exact Hst.
  - exists (d :: ds), (drop_while is_digit rest).
    split; [exact Htd|]. split; [discriminate|]. split; [exact Hall|].
    split; [exact Hst | reflexivity].
Qed.

Lemma str_body_some : forall k t n, length t <= k -> str_body t = Some n ->
  exists body post, t = body ++ 34%N :: post /\ str_items body /\ n = byte_len body + 1.
Proof.
  induction k as [|k IH]; intros t n Hk H.
  - destruct t; [discriminate | simpl in Hk; lia].
  - destruct t as [|c t]; [discriminate|]. simpl in H. simpl in Hk.
    destruct (c =? 34)%N eqn:E34.
    + apply N.eqb_eq in E34. subst c. inversion H. exists [], t.
      split; [reflexivity|]. split; [constructor | reflexivity].
    + destruct (c =? 92)%N eqn:E92.
      * apply N.eqb_eq in E92. subst c.
        destruct t as [|d t']; [discriminate|].
        destruct (d =? 10)%N eqn:E10; [discriminate|].
        destruct (str_body t') as [m|] eqn:Eb; [|discriminate].
        inversion H. simpl in Hk.
        destruct (IH t' m ltac:(lia) Eb) as (body & post & Ht & Hi & Hm).
        exists (92%N :: d :: body), post.
        split; [simpl; rewrite Ht; reflexivity|].
        split; [constructor; [apply N.eqb_neq; exact E10 | exact Hi]|].
        simpl. change (len_utf8 92) with 1. lia.
      * destruct (str_body t) as [m|] eqn:Eb; [|discriminate].
        inversion H.
        destruct (IH t m ltac:(lia) Eb) as (body & post & Ht & Hi & Hm).
        exists (c :: body), post.
        split; [simpl; rewrite Ht; reflexivity|].
        split; [constructor; [apply N.eqb_neq; exact E34 | apply N.eqb_neq; exact E92 | exact Hi]|].
        simpl. lia.
Qed.

Lemma str_body_none : forall body, str_items body -> forall post,
  str_body (body ++ 34%N :: post) <> None.
Proof.
  induction 1 as [|d t Hd Hi IH|c t Hc1 Hc2 Hi IH]; intros post; simpl.
  - discriminate.
  - apply N.eqb_neq in Hd. rewrite Hd.
    specialize (IH post). destruct (str_body (t ++ 34%N :: post)); [discriminate | congruence].
  - apply N.eqb_neq in Hc1. apply N.eqb_neq in Hc2. rewrite Hc1, Hc2.
    specialize (IH post). destruct (str_body (t ++ 34%N :: post)); [discriminate | congruence].
Qed.

Lemma re_string_spec : re_string_stmt.
Proof.
  intros rest. unfold re_string. destruct rest as [|c t].
  - intros body post H. discriminate.
  - destruct (c =? 34)%N eqn:E.
    + apply N.eqb_eq in E. subst c. destruct (str_body t) as [n|] eqn:Eb.
      * destruct (str_body_some (length t) t n (le_n _) Eb) as (body & post & Ht & Hi & Hn).
        exists body, post. split; [rewrite Ht; reflexivity|]. split; [exact Hi | lia].
      * intros body post H Hi. inversion H. subst t.
        eapply str_body_none; eassumption.
    + intros body post H. inversion H. subst c. discriminate.
Qed.

(* ---- the parser functions: no panic, boundaries in, boundaries out --------- *)

Lemma parse_setting_S fixed dfx cw stk src f d i0 :
  parse_setting fixed dfx cw stk src (S f) d i0 =
  (if stack_exhausted stk d then Panic else
   do i <- parse_ws src i0;
   do rest <- slice_from src i;
   match re_digits rest with
   | Some mend => setting_num fixed src i mend
   | None =>
     do rest' <- slice_from src i;
     match re_string rest' with
     | Some mend => setting_str src i mend
     | None =>
         do la <- lookahead_is src LBRACK i;
         match la with
         | Some j =>
             if dfx && (MAX_SETTING_DEPTH <=? d) then
               do sp <- mk_span i j;
               Done (Err {| ekind := UnexpectedToken 91; elocs := [sp] |})
             else array_loop fixed dfx cw stk src f d i j j []
         | None => setting_path cw src i
         end
     end
   end).
Proof. reflexivity. Qed.

Lemma array_loop_S fixed dfx cw stk src f d i open_pos j0 vals :
  array_loop fixed dfx cw stk src (S f) d i open_pos j0 vals =
  (do j <- parse_ws src j0;
   do la <- lookahead_is src RBRACK j;
   match la with
   | Some end_pos =>
       do osp <- mk_span i open_pos;
       do csp <- mk_span j end_pos;
       Done (Ok (Array vals osp csp, end_pos))
   | None =>
       do r <- parse_setting fixed dfx cw stk src f (S d) j;
       match r with
       | Ok (val, k) =>
           do j1 <- parse_ws src k;
           do la1 <- lookahead_is src COMMA j1;
           array_loop fixed dfx cw stk src f d i open_pos (match la1 with Some k1 => k1 | None => j1 end) (vals ++ [val])
       | Err e =>
           do la0 <- (if fixed then lookahead_is src COMMA j else Done (Some j));
           match la0 with
           | None => Done (Err e)
           | Some _ =>
               do la1 <- lookahead_is src COMMA j;
               array_loop fixed dfx cw stk src f d i open_pos (match la1 with Some k1 => k1 | None => j end) vals
           end
       end
   end).
Proof. reflexivity. Qed.

Lemma section_loop_S fixed dfx cw stk src f i ret errs :
  section_loop fixed dfx cw stk src (S f) i ret errs =
  (do la <- lookahead_is src RBRACE i;
   if (match la with None => true | Some _ => false end) && (i <? byte_len src) then
     do kv <- parse_key_value fixed dfx cw stk src f i;
     match kv with
     | Err e => Done (inl (errs ++ [e]))
     | Ok (key, key_loc, val, j) =>
         do st <- match hdr_get ret key with
                  | Some (orig_loc, _) =>
                      do errs' <- add_duplicate_occurrence errs orig_loc key_loc;
                      Done (ret, errs')
                  | None => Done (hdr_insert ret key (key_loc, val), errs)
                  end;
         let '(ret', errs') := st in
         do la1 <- lookahead_is src COMMA j;
         match la1 with
         | Some j1 => do i' <- parse_ws src j1; section_loop fixed dfx cw stk src f i' ret' errs'
         | None => do i' <- parse_ws src j; Done (inr (i', ret', errs'))
         end
     end
   else Done (inr (i, ret, errs))).
Proof. reflexivity. Qed.

(* outcome of a model function: a good result; a panic only in the pinned
   variant or on a bounded stack; out of fuel only in the pinned variant or
   below the stated need *)
Definition safe {A} (fixed : bool) (stk : option nat) (o : outcome A) (P : A -> Prop)
  (need fuel : nat) : Prop :=
  match o with
  | Done r => P r
  | Panic => fixed = false \/ stk <> None
  | OutOfFuel => fixed = false \/ fuel < need
  end.

Lemma safe_mono {A} fixed stk (o : outcome A) (P Q : A -> Prop) need need' fuel fuel' :
  safe fixed stk o P need fuel -> (forall r, P r -> Q r) -> (fuel < need -> fuel' < need') ->
  safe fixed stk o Q need' fuel'.
Proof.
  destruct o as [r| |]; simpl; intros H HPQ Hf.
  - apply HPQ. exact H.
  - exact H.
  - destruct H as [H|H]; [left; exact H | right; apply Hf; exact H].
Qed.

Lemma safe_done {A} fixed stk (o : outcome A) (P : A -> Prop) need fuel :
  (exists r, o = Done r /\ P r) -> safe fixed stk o P need fuel.
Proof. intros (r & Ho & HP). subst o. exact HP. Qed.

Section WithSrc.
Variable src : list N.
Notation bnd := (char_boundary src).
Notation len := (byte_len src).

Definition err_wf (e : herror) : Prop := Forall (span_wf src) (elocs e) /\ elocs e <> [].
Definition errs_wf (es : list herror) : Prop := Forall err_wf es.

Lemma err_wf_single k a b : bnd a -> bnd b -> a <= b -> err_wf {| ekind := k; elocs := [(a, b)] |}.
Proof.
  intros Ha Hb Hle. split; simpl; [|discriminate].
  constructor; [apply span_wf_of; assumption | constructor].
Qed.

Lemma parse_ws_spec i : bnd i -> exists j, parse_ws src i = Done j /\ bnd j /\ i <= j.
Proof.
  intros Hb. apply boundary_at_pos in Hb. destruct Hb as (rest & Hat).
  unfold parse_ws. rewrite (slice_from_at _ _ _ Hat). cbn [obind].
  exists (re_ws rest + i). split; [reflexivity|]. split; [|lia].
  unfold re_ws. pose proof (take_drop is_pws rest) as Htd.
  assert (Hat2 : at_pos src i (take_while is_pws rest ++ drop_while is_pws rest))
    by (rewrite <- Htd; exact Hat).
  apply at_pos_app in Hat2. rewrite Nat.add_comm. eapply at_pos_boundary; exact Hat2.
Qed.

Lemma lookahead_spec s i : bnd i -> exists o, lookahead_is src s i = Done o /\
  match o with Some j => bnd j /\ j = i + byte_len s | None => True end.
Proof.
  intros Hb. apply boundary_at_pos in Hb. destruct Hb as (rest & Hat).
  unfold lookahead_is. rewrite (slice_from_at _ _ _ Hat). cbn [obind].
  destruct (starts_with s rest) eqn:E.
  - exists (Some (i + byte_len s)). split; [reflexivity|]. split; [|reflexivity].
    destruct (starts_with_true _ _ E) as (post & Hp). rewrite Hp in Hat.
    apply at_pos_app in Hat. eapply at_pos_boundary; exact Hat.
  - exists None. split; [reflexivity | exact I].
Qed.

Tactic Notation "ws_step" constr(Hb) "as" ident(j) ident(Hbj) ident(Hle) :=
  let Hj := fresh "Hj" in
  destruct (parse_ws_spec _ Hb) as (j & Hj & Hbj & Hle); rewrite Hj; cbn [obind]; clear Hj.

Tactic Notation "la_step" constr(s) constr(Hb) "as" ident(o) ident(Ho) :=
  let Hl := fresh "Hl" in
  destruct (lookahead_spec s _ Hb) as (o & Hl & Ho); rewrite ?Hl; cbn [obind]; clear Hl.

Lemma parse_name_spec i : bnd i -> exists r, parse_name src i = Done r /\
  match r with Ok (nm, j) => bnd j /\ i < j | Err e => err_wf e end.
Proof.
  intros Hb. pose proof Hb as Hb'. apply boundary_at_pos in Hb'. destruct Hb' as (rest & Hat).
  unfold parse_name. rewrite (slice_from_at _ _ _ Hat). cbn [obind].
  pose proof (re_name_spec rest) as Hn. destruct (re_name rest) as [mend|].
  - destruct Hn as (c & pre & post & Hr & _ & _ & _ & Hm).
    assert (Hat2 : at_pos src i ((c :: pre) ++ post)) by (rewrite Hr in Hat; exact Hat).
    rewrite Hm. rewrite (slice_range_at _ _ _ _ Hat2). cbn [obind].
    eexists. split; [reflexivity|]. split.
    + eapply at_pos_boundary. apply at_pos_app. exact Hat2.
    + simpl. pose proof (len_utf8_pos c). lia.
  - rewrite (mk_span_ok i i (le_n _)). cbn [obind].
    destruct (starts_with STAR rest); eexists; (split; [reflexivity|]);
      apply err_wf_single; auto.
Qed.

Lemma parse_namespaced_spec i : bnd i -> exists r, parse_namespaced src i = Done r /\
  match r with
  | Ok (nv, j) => bnd j /\ i < j /\ Forall (span_wf src) (ns_spans nv)
  | Err e => err_wf e
  end.
Proof.
  intros Hb. unfold parse_namespaced.
  destruct (parse_name_spec i Hb) as (r & Hr & Hg). rewrite Hr. cbn [obind].
  destruct r as [[name j]|e]; [|eexists; split; [reflexivity | exact Hg]].
  destruct Hg as (Hbj & Hij).
  rewrite (mk_span_ok i j) by lia. cbn [obind].
  ws_step Hbj as i1 Hb1 Hle1.
  la_step COLONCOLON Hb1 as o Ho.
  destruct o as [j1|].
  - destruct Ho as (Hbj1 & Hj1).
    ws_step Hbj1 as i2 Hb2 Hle2.
    destruct (parse_name_spec i2 Hb2) as (r2 & Hr2 & Hg2). rewrite Hr2. cbn [obind].
    destruct r2 as [[mem j2]|e]; [|eexists; split; [reflexivity | exact Hg2]].
    destruct Hg2 as (Hbj2 & Hij2).
    rewrite (mk_span_ok i2 j2) by lia. cbn [obind].
    ws_step Hbj2 as i3 Hb3 Hle3.
    eexists. split; [reflexivity|]. split; [exact Hb3|]. split; [lia|].
    unfold ns_spans. simpl.
    constructor; [apply span_wf_of; auto; lia|].
    constructor; [apply span_wf_of; auto; lia | constructor].
  - eexists. split; [reflexivity|]. split; [exact Hb1|]. split; [lia|].
    unfold ns_spans. simpl. constructor; [apply span_wf_of; auto; lia | constructor].
Qed.

Definition good (lo : nat) (r : res (setting * nat)) : Prop :=
  match r with
  | Ok (v, k) => bnd k /\ lo < k /\ Forall (span_wf src) (setting_spans v)
  | Err e => err_wf e
  end.

Lemma good_mono lo lo' r : good lo r -> lo' <= lo -> good lo' r.
Proof.
  destruct r as [[v k]|e]; simpl; [|tauto].
  intros (H1 & H2 & H3) Hle. split; [exact H1|]. split; [lia | exact H3].
Qed.

Lemma setting_num_spec fixed stk i rest mend lo :
  at_pos src i rest -> re_digits rest = Some mend -> lo <= i ->
  safe fixed stk (setting_num fixed src i mend) (good lo) 0 0.
Proof.
  intros Hat Hd Hlo. pose proof (re_digits_spec rest) as Hs. rewrite Hd in Hs.
  destruct Hs as (ds & post & Hr & Hne & _ & _ & Hm). subst mend.
  rewrite Hr in Hat.
  assert (Hbi : bnd i) by (eapply at_pos_boundary; exact Hat).
  assert (Hbe : bnd (i + byte_len ds)) by (eapply at_pos_boundary; apply at_pos_app; exact Hat).
  pose proof (byte_len_pos ds Hne) as Hpos.
  unfold setting_num. rewrite Nat.add_0_r.
  rewrite (mk_span_ok i (i + byte_len ds)) by lia. cbn [obind fst snd].
  rewrite (slice_range_at _ _ _ _ Hat). cbn [obind].
  destruct (parse_u64 ds) as [num|].
  - ws_step Hbe as i' Hbi' Hle. simpl.
    split; [exact Hbi'|]. split; [lia|].
    constructor; [apply span_wf_of; auto; lia | constructor].
  - destruct fixed; simpl; [|left; reflexivity].
    apply err_wf_single; auto; lia.
Qed.

Lemma setting_str_spec i rest mend lo :
  at_pos src i rest -> re_string rest = Some mend -> lo <= i ->
  exists r, setting_str src i mend = Done r /\ good lo r.
Proof.
  intros Hat Hd Hlo. pose proof (re_string_spec rest) as Hs. rewrite Hd in Hs.
  destruct Hs as (body & post & Hr & _ & Hm). subst mend.
  assert (Hbi : bnd i) by (eapply at_pos_boundary; exact Hat).
  assert (Hat1 : at_pos src (i + 1) (body ++ 34%N :: post)).
  { rewrite Hr in Hat. change (34%N :: body ++ 34%N :: post) with ([34%N] ++ (body ++ 34%N :: post)) in Hat.
    apply at_pos_app in Hat. exact Hat. }
  assert (Hat2 : at_pos src (i + 1 + byte_len body + 1) post).
  { pose proof (at_pos_app _ _ _ _ Hat1) as H.
    change (34%N :: post) with ([34%N] ++ post) in H.
    apply at_pos_app in H. exact H. }
  assert (Hb1 : bnd (i + 1)) by (eapply at_pos_boundary; exact Hat1).
  assert (Hb2 : bnd (i + 1 + byte_len body)) by (eapply at_pos_boundary; apply at_pos_app; exact Hat1).
  assert (Hb3 : bnd (i + 1 + byte_len body + 1)) by (eapply at_pos_boundary; exact Hat2).
  unfold setting_str. cbv zeta.
  replace (i + (2 + byte_len body)) with (S (i + 1 + byte_len body)) by lia.
  cbn [sub1 obind].
  replace (i + 0 + 1) with (i + 1) by lia.
  rewrite (mk_span_ok (i + 1) (i + 1 + byte_len body)) by lia. cbn [obind fst snd].
  rewrite (slice_range_at _ _ _ _ Hat1). cbn [obind].
  replace (S (i + 1 + byte_len body)) with (i + 1 + byte_len body + 1) by lia.
  ws_step Hb3 as i' Hbi' Hle.
  eexists. split; [reflexivity|]. simpl.
  split; [exact Hbi'|]. split; [lia|].
  constructor; [apply span_wf_of; auto; lia | constructor].
Qed.

Lemma setting_path_spec cw i lo : bnd i -> lo <= i ->
  exists r, setting_path cw src i = Done r /\ good lo r.
Proof.
  intros Hb Hlo. unfold setting_path.
  destruct (parse_namespaced_spec i Hb) as (r & Hr & Hg). rewrite Hr. cbn [obind].
  destruct r as [[pv j]|e]; [|eexists; split; [reflexivity | exact Hg]].
  destruct Hg as (Hbj & Hij & Hsp).
  ws_step Hbj as i1 Hb1 Hle1.
  la_step LPAREN Hb1 as o Ho.
  destruct o as [j1|].
  - destruct Ho as (Hbj1 & Hj1).
    assert (Hcw : exists j1', (if cw then parse_ws src j1 else Done j1) = Done j1' /\ bnd j1' /\ j1 <= j1').
    { destruct cw; [apply parse_ws_spec; exact Hbj1 | exists j1; auto]. }
    destruct Hcw as (j1' & Hcw & Hbj1' & Hle1'). rewrite Hcw. cbn [obind].
    destruct (parse_namespaced_spec j1' Hbj1') as (r2 & Hr2 & Hg2). rewrite Hr2. cbn [obind].
    destruct r2 as [[arg j2]|e]; [|eexists; split; [reflexivity | exact Hg2]].
    destruct Hg2 as (Hbj2 & Hij2 & Hsp2).
    ws_step Hbj2 as i2 Hb2 Hle2.
    la_step RPAREN Hb2 as o2 Ho2.
    destruct o2 as [j3|].
    + destruct Ho2 as (Hbj3 & Hj3).
      ws_step Hbj3 as i3 Hb3 Hle3.
      eexists. split; [reflexivity|]. simpl.
      split; [exact Hb3|]. split; [lia|].
      apply Forall_app. split; assumption.
    + rewrite (mk_span_ok i2 i2 (le_n _)). cbn [obind].
      eexists. split; [reflexivity|]. simpl. apply err_wf_single; auto.
  - eexists. split; [reflexivity|]. simpl.
    split; [exact Hb1|]. split; [lia | exact Hsp].
Qed.

Lemma setting_master fixed dfx cw stk : forall fuel,
  (forall d i0, bnd i0 ->
     safe fixed stk (parse_setting fixed dfx cw stk src fuel d i0) (good i0) (2 * (len - i0) + 1) fuel) /\
  (forall d i open_pos j0 vals, bnd i -> bnd open_pos -> bnd j0 -> i <= open_pos -> open_pos <= j0 ->
     Forall (span_wf src) (flat_map setting_spans vals) ->
     safe fixed stk (array_loop fixed dfx cw stk src fuel d i open_pos j0 vals) (good j0) (2 * (len - j0) + 2) fuel).
Proof.
  induction fuel as [|f [IHs IHa]].
  - split; intros; simpl; right; lia.
  - split.
    + intros d i0 Hb0. rewrite parse_setting_S.
      destruct (stack_exhausted stk d) eqn:Ex.
      { simpl. right. destruct stk as [s|]; [discriminate | simpl in Ex; discriminate]. }
      ws_step Hb0 as i Hbi Hle.
      destruct (boundary_at_pos _ _ Hbi) as (rest & Hat).
      rewrite (slice_from_at _ _ _ Hat). cbn [obind].
      destruct (re_digits rest) as [mend|] eqn:Ed.
      * eapply safe_mono; [eapply setting_num_spec; eauto | intros r Hr; exact Hr | lia].
      * destruct (re_string rest) as [mend|] eqn:Es.
        -- apply safe_done. eapply setting_str_spec; eauto.
        -- la_step LBRACK Hbi as o Ho.
           destruct o as [j|].
           ++ destruct Ho as (Hbj & Hj). change (byte_len LBRACK) with 1 in Hj.
              pose proof (boundary_le _ _ Hbj) as Hjl.
              destruct (dfx && (MAX_SETTING_DEPTH <=? d)).
              { rewrite (mk_span_ok i j) by lia. cbn [obind]. simpl.
                apply err_wf_single; auto; lia. }
              eapply safe_mono; [apply (IHa d i j j []); auto; try lia; constructor | | lia].
              intros r Hr. eapply good_mono; [exact Hr | lia].
           ++ apply safe_done. apply setting_path_spec; auto.
    + intros d i open_pos j0 vals Hbi Hbo Hb0 Hio Hoj Hvals. rewrite array_loop_S.
      ws_step Hb0 as j Hbj Hle.
      la_step RBRACK Hbj as o Ho.
      destruct o as [end_pos|].
      * destruct Ho as (Hbe & He). change (byte_len RBRACK) with 1 in He.
        rewrite (mk_span_ok i open_pos Hio). cbn [obind].
        rewrite (mk_span_ok j end_pos) by lia. cbn [obind]. simpl.
        split; [exact Hbe|]. split; [lia|].
        constructor; [apply span_wf_of; auto|].
        constructor; [apply span_wf_of; auto; lia | exact Hvals].
      * specialize (IHs (S d) j Hbj).
        pose proof (boundary_le _ _ Hbj) as Hjl.
        destruct (parse_setting fixed dfx cw stk src f (S d) j) as [r| |] eqn:Eps; cbn [obind]; simpl in IHs.
        -- destruct r as [[val k]|e].
           ++ destruct IHs as (Hbk & Hjk & Hsv).
              ws_step Hbk as j1 Hbj1 Hle1.
              la_step COMMA Hbj1 as o1 Ho1.
              assert (Hn : exists jn, (match o1 with Some k1 => k1 | None => j1 end) = jn /\ bnd jn /\ j1 <= jn).
              { destruct o1 as [k1|]; [destruct Ho1 as (H1 & H2); exists k1; repeat split; auto; lia
                                      | exists j1; repeat split; auto]. }
              destruct Hn as (jn & Hjn & Hbjn & Hlen). rewrite Hjn.
              pose proof (boundary_le _ _ Hbjn) as Hjnl.
              eapply safe_mono; [apply (IHa d i open_pos jn (vals ++ [val])); auto; try lia | | lia].
              ** rewrite flat_map_app. apply Forall_app. split; [exact Hvals|].
                 simpl. rewrite app_nil_r. exact Hsv.
              ** intros r Hr. eapply good_mono; [exact Hr | lia].
           ++ destruct fixed.
              ** la_step COMMA Hbj as o0 Ho0.
                 destruct o0 as [k1|]; [|simpl; exact IHs].
                 destruct Ho0 as (Hbk1 & Hk1). change (byte_len COMMA) with 1 in Hk1.
                 pose proof (boundary_le _ _ Hbk1) as Hk1l.
                 eapply safe_mono; [apply (IHa d i open_pos k1 vals); auto; try lia | | lia].
                 intros r Hr. eapply good_mono; [exact Hr | lia].
              ** cbn [obind].
                 la_step COMMA Hbj as o0 Ho0.
                 assert (Hn : exists jn, (match o0 with Some k1 => k1 | None => j end) = jn /\ bnd jn /\ j <= jn).
                 { destruct o0 as [k1|]; [destruct Ho0 as (H1 & H2); exists k1; repeat split; auto; lia
                                         | exists j; repeat split; auto]. }
                 destruct Hn as (jn & Hjn & Hbjn & Hlen). rewrite Hjn.
                 specialize (IHa d i open_pos jn vals Hbi Hbo Hbjn Hio ltac:(lia) Hvals).
                 destruct (array_loop false dfx cw stk src f d i open_pos jn vals) as [r| |]; simpl; simpl in IHa.
                 --- eapply good_mono; [exact IHa | lia].
                 --- left; reflexivity.
                 --- left; reflexivity.
        -- exact IHs.
        -- destruct IHs as [H|H]; [left; exact H | right; lia].
Qed.

Lemma parse_setting_spec fixed dfx cw stk fuel d i0 : bnd i0 ->
  safe fixed stk (parse_setting fixed dfx cw stk src fuel d i0) (good i0) (2 * (len - i0) + 1) fuel.
Proof. intros H. apply (proj1 (setting_master fixed dfx cw stk fuel)). exact H. Qed.

Definition good_kv (i : nat) (r : res (list N * span * value * nat)) : Prop :=
  match r with
  | Ok (key, key_loc, val, j) =>
      bnd j /\ i < j /\ span_wf src key_loc /\ Forall (span_wf src) (value_spans val)
  | Err e => err_wf e
  end.

Lemma parse_key_value_spec fixed dfx cw stk fuel i : bnd i ->
  safe fixed stk (parse_key_value fixed dfx cw stk src fuel i) (good_kv i) (2 * (len - i) + 1) fuel.
Proof.
  intros Hb. unfold parse_key_value.
  la_step BANG Hb as o Ho.
  destruct o as [j|].
  - destruct Ho as (Hbj & Hj). change (byte_len BANG) with 1 in Hj.
    destruct (parse_name_spec j Hbj) as (r & Hr & Hg). rewrite Hr. cbn [obind].
    destruct r as [[nm k]|e]; [|exact Hg].
    destruct Hg as (Hbk & Hjk).
    rewrite (mk_span_ok j k) by lia. cbn [obind].
    rewrite (mk_span_ok i k) by lia. cbn [obind].
    ws_step Hbk as k' Hbk' Hle. simpl.
    split; [exact Hbk'|]. split; [lia|].
    split; [apply span_wf_of; auto; lia|].
    constructor; [apply span_wf_of; auto; lia | constructor].
  - destruct (parse_name_spec i Hb) as (r & Hr & Hg). rewrite Hr. cbn [obind].
    destruct r as [[nm j]|e]; [|exact Hg].
    destruct Hg as (Hbj & Hij).
    rewrite (mk_span_ok i j) by lia. cbn [obind].
    ws_step Hbj as i1 Hb1 Hle1.
    la_step COLON Hb1 as o1 Ho1.
    destruct o1 as [j1|].
    + destruct Ho1 as (Hbj1 & Hj1). change (byte_len COLON) with 1 in Hj1.
      pose proof (parse_setting_spec fixed dfx cw stk fuel 0 j1 Hbj1) as Hps.
      pose proof (boundary_le _ _ Hbj1) as Hj1l.
      destruct (parse_setting fixed dfx cw stk src fuel 0 j1) as [r2| |]; cbn [obind]; simpl in Hps.
      * destruct r2 as [[val j2]|e]; simpl; [|exact Hps].
        destruct Hps as (Hb2 & Hlt & Hsp).
        split; [exact Hb2|]. split; [lia|].
        split; [apply span_wf_of; auto; lia | exact Hsp].
      * exact Hps.
      * destruct Hps as [H|H]; [left; exact H | right; lia].
    + simpl. split; [exact Hb1|]. split; [lia|].
      split; [apply span_wf_of; auto; lia|].
      constructor; [apply span_wf_of; auto; lia | constructor].
Qed.

(* ---- duplicate bookkeeping and the header map ------------------------------ *)

Lemma add_dup_go_spec es orig dup : errs_wf es -> span_wf src dup ->
  exists r, add_dup_go es orig dup = Done r /\
    match r with Some es' => errs_wf es' | None => True end.
Proof.
  intros Hes Hdup. induction Hes as [|e es He Hes IH]; simpl.
  - exists None. split; [reflexivity | exact I].
  - destruct IH as (r & Hr & Hg).
    assert (Hrec : exists r', (do r0 <- add_dup_go es orig dup;
                Done (match r0 with Some es' => Some (e :: es') | None => None end)) = Done r' /\
                match r' with Some es' => errs_wf es' | None => True end).
    { rewrite Hr. cbn [obind]. destruct r as [es'|].
      - eexists. split; [reflexivity|]. constructor; assumption.
      - eexists. split; [reflexivity | exact I]. }
    destruct (hkind_is_dup (ekind e)); [|exact Hrec].
    destruct He as (Hl & Hne).
    destruct (elocs e) as [|l0 ls] eqn:El; [congruence|].
    destruct (span_eqb l0 orig); [|exact Hrec].
    eexists. split; [reflexivity|].
    constructor; [|exact Hes].
    split; cbn [elocs].
    + apply Forall_app. split; [exact Hl | constructor; [exact Hdup | constructor]].
    + discriminate.
Qed.

Lemma add_duplicate_occurrence_spec es orig dup :
  errs_wf es -> span_wf src orig -> span_wf src dup ->
  exists es', add_duplicate_occurrence es orig dup = Done es' /\ errs_wf es'.
Proof.
  intros Hes Ho Hd. unfold add_duplicate_occurrence.
  destruct (add_dup_go_spec es orig dup Hes Hd) as (r & Hr & Hg). rewrite Hr. cbn [obind].
  destruct r as [es'|].
  - exists es'. split; [reflexivity | exact Hg].
  - eexists. split; [reflexivity|]. apply Forall_app. split; [exact Hes|].
    constructor; [|constructor]. split; simpl; [|discriminate].
    constructor; [exact Ho | constructor; [exact Hd | constructor]].
Qed.

Definition hdr_wf (h : header) : Prop := Forall (span_wf src) (header_spans h).

Lemma hdr_get_wf h k sp v : hdr_wf h -> hdr_get h k = Some (sp, v) -> span_wf src sp.
Proof.
  unfold hdr_wf, header_spans. induction h as [|[k' [sp' v']] h IH]; simpl; intros Hw Hg.
  - discriminate.
  - inversion Hw as [|x l Hx Hl]. subst.
    apply Forall_app in Hl. destruct Hl as [Hv Hrest].
    destruct (key_cmp k k').
    + inversion Hg. subst. exact Hx.
    + apply IH; assumption.
    + apply IH; assumption.
Qed.

Lemma hdr_insert_wf h k sp v :
  hdr_wf h -> span_wf src sp -> Forall (span_wf src) (value_spans v) ->
  hdr_wf (hdr_insert h k (sp, v)).
Proof.
  unfold hdr_wf, header_spans. intros Hw Hsp Hv.
  induction h as [|[k' [sp' v']] h IH]; simpl.
  - constructor; [exact Hsp|]. rewrite app_nil_r. exact Hv.
  - simpl in Hw. inversion Hw as [|x l Hx Hl]. subst.
    apply Forall_app in Hl. destruct Hl as [Hv' Hrest].
    destruct (key_cmp k k'); simpl.
    + constructor; [exact Hsp|]. apply Forall_app. split; assumption.
    + constructor; [exact Hsp|]. apply Forall_app. split; [exact Hv|].
      constructor; [exact Hx|]. apply Forall_app. split; assumption.
    + constructor; [exact Hx|]. apply Forall_app. split; [exact Hv'|]. apply IH. exact Hrest.
Qed.

(* ---- the section loop and [parse] ------------------------------------------ *)

Definition good_loop (i : nat) (st : list herror + (nat * header * list herror)) : Prop :=
  match st with
  | inl es => errs_wf es /\ es <> []
  | inr (i', ret, errs) => bnd i' /\ i <= i' /\ hdr_wf ret /\ errs_wf errs
  end.

Lemma section_loop_spec fixed dfx cw stk : forall fuel i ret errs, bnd i -> hdr_wf ret -> errs_wf errs ->
  safe fixed stk (section_loop fixed dfx cw stk src fuel i ret errs) (good_loop i) (2 * (len - i) + 2) fuel.
Proof.
  induction fuel as [|f IH]; intros i ret errs Hb Hret Herrs.
  - simpl. right. lia.
  - rewrite section_loop_S.
    la_step RBRACE Hb as o Ho.
    destruct ((match o with None => true | Some _ => false end) && (i <? len)) eqn:Ec;
      [|simpl; repeat split; auto].
    pose proof (parse_key_value_spec fixed dfx cw stk f i Hb) as Hkv.
    destruct (parse_key_value fixed dfx cw stk src f i) as [kv| |]; cbn [obind]; simpl in Hkv.
    + destruct kv as [[[[key key_loc] val] j]|e].
      * destruct Hkv as (Hbj & Hij & Hkl & Hvs).
        pose proof (boundary_le _ _ Hbj) as Hjl.
        assert (Hst : exists ret' errs',
          (match hdr_get ret key with
           | Some (orig_loc, _) =>
               do errs' <- add_duplicate_occurrence errs orig_loc key_loc; Done (ret, errs')
           | None => Done (hdr_insert ret key (key_loc, val), errs)
           end) = Done (ret', errs') /\ hdr_wf ret' /\ errs_wf errs').
        { destruct (hdr_get ret key) as [[orig_loc v0]|] eqn:Eg.
          - pose proof (hdr_get_wf _ _ _ _ Hret Eg) as Horig.
            destruct (add_duplicate_occurrence_spec errs orig_loc key_loc Herrs Horig Hkl) as (es' & He & Hw).
            rewrite He. cbn [obind]. exists ret, es'. auto.
          - eexists _, _. split; [reflexivity|]. split; [|exact Herrs].
            apply hdr_insert_wf; assumption. }
        destruct Hst as (ret' & errs' & Hst & Hret' & Herrs'). rewrite Hst. cbn [obind].
        la_step COMMA Hbj as o1 Ho1.
        destruct o1 as [j1|].
        -- destruct Ho1 as (Hbj1 & Hj1).
           ws_step Hbj1 as i' Hbi' Hle'.
           pose proof (boundary_le _ _ Hbi') as Hil.
           eapply safe_mono; [apply (IH i' ret' errs'); assumption | | lia].
           intros st Hg. destruct st as [es|[[i2 r2] e2]]; simpl in *; [exact Hg|].
           destruct Hg as (H1 & H2 & H3 & H4). repeat split; auto; lia.
        -- ws_step Hbj as i' Hbi' Hle'. simpl. repeat split; auto; lia.
      * simpl. split.
        -- apply Forall_app. split; [exact Herrs | constructor; [exact Hkv | constructor]].
        -- destruct errs; discriminate.
    + exact Hkv.
    + destruct Hkv as [H|H]; [left; exact H | right; lia].
Qed.

Definition good_res (r : hresult) : Prop :=
  Forall (span_wf src) (result_spans r) /\ Forall (fun e => elocs e <> []) (errors r) /\
  (is_ok r \/ errors r <> []).

Lemma errs_wf_spans es : errs_wf es ->
  Forall (span_wf src) (error_spans es) /\ Forall (fun e => elocs e <> []) es.
Proof.
  unfold error_spans. induction 1 as [|e es He Hes IH]; simpl.
  - split; constructor.
  - destruct He as (H1 & H2). destruct IH as (I1 & I2). split.
    + apply Forall_app. split; assumption.
    + constructor; assumption.
Qed.

Lemma good_res_errs es : errs_wf es -> es <> [] -> good_res (HErrs es).
Proof.
  intros Hw Hne. destruct (errs_wf_spans es Hw) as (H1 & H2).
  split; [exact H1|]. split; [exact H2|]. right. exact Hne.
Qed.

Lemma errs_wf_snoc es e : errs_wf es -> err_wf e -> errs_wf (es ++ [e]) /\ es ++ [e] <> [].
Proof.
  intros Hes He. split.
  - apply Forall_app. split; [exact Hes | constructor; [exact He | constructor]].
  - destruct es; discriminate.
Qed.

Lemma parse_finish_spec ssp i2 ret errs :
  bnd ssp -> bnd i2 -> ssp <= i2 -> hdr_wf ret -> errs_wf errs ->
  exists r, parse_finish src ssp i2 ret errs = Done r /\ good_res r.
Proof.
  intros Hbs Hb2 Hle Hret Herrs. unfold parse_finish.
  la_step STAR Hb2 as o Ho.
  destruct o as [j2|].
  - destruct Ho as (Hbj2 & Hj2).
    rewrite (mk_span_ok i2 j2) by lia. cbn [obind].
    eexists. split; [reflexivity|].
    destruct (errs_wf_snoc errs {| ekind := UnexpectedToken 42; elocs := [(i2, j2)] |} Herrs) as (H1 & H2).
    { apply err_wf_single; auto; lia. }
    apply good_res_errs; assumption.
  - la_step RBRACE Hb2 as o3 Ho3.
    destruct o3 as [i3|].
    + destruct Ho3 as (Hb3 & Hi3).
      destruct errs as [|e es].
      * eexists. split; [reflexivity|]. split; [|split; [constructor | left; exact I]].
        simpl. constructor; [apply span_wf_of; auto | exact Hret].
      * eexists. split; [reflexivity|]. apply good_res_errs; [exact Herrs | discriminate].
    + rewrite (mk_span_ok ssp i2 Hle). cbn [obind].
      eexists. split; [reflexivity|].
      destruct (errs_wf_snoc errs {| ekind := ExpectedToken 125; elocs := [(ssp, i2)] |} Herrs) as (H1 & H2).
      { apply err_wf_single; auto. }
      apply good_res_errs; assumption.
Qed.

Lemma bnd_0 : bnd 0.
Proof. exists [], src. split; reflexivity. Qed.

Lemma parse_spec fixed dfx cw stk required fuel :
  safe fixed stk (parse fixed dfx cw stk src required fuel) good_res (2 * len + 3) fuel.
Proof.
  unfold parse.
  ws_step bnd_0 as w0 Hbw Hlew.
  la_step MAGIC Hbw as o Ho.
  destruct o as [i0|].
  - destruct Ho as (Hb0 & Hi0).
    ws_step Hb0 as i Hbi Hlei.
    la_step LBRACE Hbi as o1 Ho1.
    destruct o1 as [j|].
    + destruct Ho1 as (Hbj & Hj).
      ws_step Hbj as i1 Hb1 Hle1.
      pose proof (section_loop_spec fixed dfx cw stk fuel i1 [] [] Hb1) as Hl.
      specialize (Hl ltac:(constructor) ltac:(constructor)).
      destruct (section_loop fixed dfx cw stk src fuel i1 [] []) as [st| |]; cbn [obind]; simpl in Hl.
      * destruct st as [es|[[i2 ret] errs]].
        -- destruct Hl as (H1 & H2). simpl. apply good_res_errs; assumption.
        -- destruct Hl as (Hb2 & Hle2 & Hret & Herrs).
           apply safe_done. apply parse_finish_spec; auto; lia.
      * exact Hl.
      * destruct Hl as [H|H]; [left; exact H | right; lia].
    + rewrite (mk_span_ok i i (le_n _)). cbn [obind]. simpl.
      apply good_res_errs; [|discriminate].
      constructor; [apply err_wf_single; auto | constructor].
  - destruct required.
    + rewrite (mk_span_ok 0 0 (le_n _)). cbn [obind]. simpl.
      apply good_res_errs; [|discriminate].
      constructor; [apply err_wf_single; auto using bnd_0 | constructor].
    + simpl. split; [|split; [constructor | left; exact I]].
      simpl. constructor; [apply span_wf_of; auto using bnd_0 | constructor].
Qed.

End WithSrc.

(* ---- the nesting limit: MAX_SETTING_DEPTH + 1 frames are enough ------------- *)

Lemma obind_ext {A B} (o : outcome A) (f g : A -> outcome B) :
  (forall a, f a = g a) -> obind o f = obind o g.
Proof. intros H. destruct o; simpl; [apply H | reflexivity | reflexivity]. Qed.

(* every call of parse_setting runs at depth <= MAX_SETTING_DEPTH and every array
   loop at depth < MAX_SETTING_DEPTH: the stack check of a stack with more than
   MAX_SETTING_DEPTH frames never fires *)
Lemma depth_setting_master fixed cw src s : MAX_SETTING_DEPTH < s -> forall fuel,
  (forall d i0, d <= MAX_SETTING_DEPTH ->
     parse_setting fixed true cw (Some s) src fuel d i0 = parse_setting fixed true cw None src fuel d i0) /\
  (forall d i open_pos j0 vals, d < MAX_SETTING_DEPTH ->
     array_loop fixed true cw (Some s) src fuel d i open_pos j0 vals =
     array_loop fixed true cw None src fuel d i open_pos j0 vals).
Proof.
  intros Hs. induction fuel as [|f [IHs IHa]].
  - split; intros; reflexivity.
  - split.
    + intros d i0 Hd. rewrite !parse_setting_S. unfold stack_exhausted.
      replace (s <=? d) with false by (symmetry; apply Nat.leb_gt; lia).
      apply obind_ext; intros i. apply obind_ext; intros rest.
      destruct (re_digits rest) as [mend|]; [reflexivity|].
      apply obind_ext; intros rest'.
      destruct (re_string rest') as [mend|]; [reflexivity|].
      apply obind_ext; intros la. destruct la as [j|]; [|reflexivity].
      cbn [andb]. destruct (MAX_SETTING_DEPTH <=? d) eqn:E; [reflexivity|].
      apply Nat.leb_gt in E. apply IHa. exact E.
    + intros d i open_pos j0 vals Hd. rewrite !array_loop_S.
      apply obind_ext; intros j. apply obind_ext; intros la.
      destruct la as [end_pos|]; [reflexivity|].
      rewrite IHs by lia.
      apply obind_ext; intros r. destruct r as [[val k]|e].
      * apply obind_ext; intros j1. apply obind_ext; intros la1. apply IHa. exact Hd.
      * apply obind_ext; intros la0. destruct la0 as [x|]; [|reflexivity].
        apply obind_ext; intros la1. apply IHa. exact Hd.
Qed.

Lemma depth_key_value fixed cw src s fuel i : MAX_SETTING_DEPTH < s ->
  parse_key_value fixed true cw (Some s) src fuel i = parse_key_value fixed true cw None src fuel i.
Proof.
  intros Hs. unfold parse_key_value.
  apply obind_ext; intros la. destruct la as [j|]; [reflexivity|].
  apply obind_ext; intros r. destruct r as [[key_name j]|e]; [|reflexivity].
  apply obind_ext; intros key_span. apply obind_ext; intros i1. apply obind_ext; intros la1.
  destruct la1 as [j1|]; [|reflexivity].
  rewrite (proj1 (depth_setting_master fixed cw src s Hs fuel)) by lia. reflexivity.
Qed.

Lemma depth_section_loop fixed cw src s : MAX_SETTING_DEPTH < s -> forall fuel i ret errs,
  section_loop fixed true cw (Some s) src fuel i ret errs =
  section_loop fixed true cw None src fuel i ret errs.
Proof.
  intros Hs. induction fuel as [|f IH]; intros i ret errs; [reflexivity|].
  rewrite !section_loop_S. apply obind_ext; intros la.
  destruct ((match la with None => true | Some _ => false end) && (i <? byte_len src)); [|reflexivity].
  rewrite (depth_key_value fixed cw src s f i Hs).
  apply obind_ext; intros kv. destruct kv as [[[[key key_loc] val] j]|e]; [|reflexivity].
  apply obind_ext; intros st. destruct st as [ret' errs'].
  apply obind_ext; intros la1. destruct la1 as [j1|]; [|reflexivity].
  apply obind_ext; intros i'. apply IH.
Qed.

Lemma header_depth_bounded : header_depth_bounded_stmt.
Proof.
  intros fixed cw src required fuel s Hs. unfold parse_header_gen, parse.
  apply obind_ext; intros w0. apply obind_ext; intros la. destruct la as [i0|]; [|reflexivity].
  apply obind_ext; intros i. cbv zeta. apply obind_ext; intros la1. destruct la1 as [j|]; [|reflexivity].
  apply obind_ext; intros i1. rewrite (depth_section_loop fixed cw src s Hs). reflexivity.
Qed.

(* ---- the theorems ---------------------------------------------------------- *)

Lemma header_total_unbounded dfx cw src required : exists r,
  parse_header_gen true dfx cw required None (fuel_for src) src = Done r /\ (is_ok r \/ errors r <> []).
Proof.
  unfold parse_header_gen.
  pose proof (parse_spec src true dfx cw None required (fuel_for src)) as H.
  destruct (parse true dfx cw None src required (fuel_for src)) as [r| |]; simpl in H.
  - exists r. split; [reflexivity|]. apply H.
  - destruct H as [H|H]; [discriminate | congruence].
  - destruct H as [H|H]; [discriminate | unfold fuel_for in H; lia].
Qed.

Lemma header_total : header_total_stmt.
Proof.
  intros dfx cw stack src required Hfit. destruct stack as [s|].
  - destruct Hfit as (Hd & Hs). subst dfx.
    rewrite (header_depth_bounded true cw src required (fuel_for src) s Hs).
    apply header_total_unbounded.
  - apply header_total_unbounded.
Qed.

Lemma header_never_panics_unbounded dfx cw src required fuel :
  parse_header_gen true dfx cw required None fuel src <> Panic.
Proof.
  unfold parse_header_gen.
  pose proof (parse_spec src true dfx cw None required fuel) as H.
  destruct (parse true dfx cw None src required fuel) as [r| |]; simpl in H; try discriminate.
  destruct H as [H|H]; [discriminate | congruence].
Qed.

Lemma header_never_panics : header_never_panics_stmt.
Proof.
  intros dfx cw stack src required fuel Hfit. destruct stack as [s|].
  - destruct Hfit as (Hd & Hs). subst dfx.
    rewrite (header_depth_bounded true cw src required fuel s Hs).
    apply header_never_panics_unbounded.
  - apply header_never_panics_unbounded.
Qed.

Lemma header_spans_wellformed : header_spans_wellformed_stmt.
Proof.
  intros fixed dfx cw stack src required fuel r Hr. unfold parse_header_gen in Hr.
  pose proof (parse_spec src fixed dfx cw stack required fuel) as H.
  rewrite Hr in H. simpl in H. destruct H as (H1 & H2 & _). split; assumption.
Qed.

(* ---- the pinned code: witnesses -------------------------------------------- *)

Lemma header_total_refuted : header_total_refuted_stmt.
Proof.
  split.
  - exists HANG_WITNESS, false. vm_compute. reflexivity.
  - exists PANIC_WITNESS, false. vm_compute. reflexivity.
Qed.

(* what the repaired parser answers on the two witnesses (with and without the
   nesting limit) *)
Example fixed_on_hang_witness : forall dfx cw,
  parse_header_fixed dfx cw false (fuel_for HANG_WITNESS) HANG_WITNESS =
  Done (HErrs [{| ekind := IllegalName; elocs := [(14, 14)] |}]).
Proof. intros [|] [|]; vm_compute; reflexivity. Qed.

Example fixed_on_panic_witness : forall dfx cw,
  parse_header_fixed dfx cw false (fuel_for PANIC_WITNESS) PANIC_WITNESS =
  Done (HErrs [{| ekind := ConversionError; elocs := [(13, 36)] |}]).
Proof. intros [|] [|]; vm_compute; reflexivity. Qed.

(* a successful parse (the three outcome classes are inhabited):
   %grmtools{a: [1, B::C]} *)
Example fixed_ok_example : forall dfx cw,
  parse_header_fixed dfx cw true 60
    [37; 103; 114; 109; 116; 111; 111; 108; 115; 123; 97; 58; 32; 91; 49; 44; 32; 66; 58; 58; 67; 93; 125]%N =
  Done (HOk [([97%N], ((10, 11),
                SettingV (Array [Num 1 (14, 15);
                                 Unitary {| ns_namespace := Some ([98%N], (17, 18)); ns_member := ([99%N], (20, 21)) |}]
                                (13, 14) (21, 22))))] 23).
Proof. intros [|] [|]; vm_compute; reflexivity. Qed.

(* ---- stronger: no fuel is enough for the unterminated array ---------------- *)

Lemma hang_setting_at_end f d :
  parse_setting false false false None HANG_WITNESS f d 14 =
  match f with
  | 0 => OutOfFuel
  | S _ => Done (Err {| ekind := IllegalName; elocs := [(14, 14)] |})
  end.
Proof.
  destruct f as [|f]; [reflexivity|].
  rewrite parse_setting_S.
  remember (array_loop false false false None HANG_WITNESS f) as AL eqn:HAL. clear HAL.
  vm_compute. reflexivity.
Qed.

Lemma hang_array_loop : forall f d, array_loop false false false None HANG_WITNESS f d 13 14 14 [] = OutOfFuel.
Proof.
  induction f as [|f IH]; intros d; [reflexivity|].
  rewrite array_loop_S.
  change (parse_ws HANG_WITNESS 14) with (Done 14 : outcome nat). cbn [obind].
  change (lookahead_is HANG_WITNESS RBRACK 14) with (Done None : outcome (option nat)). cbn [obind].
  rewrite hang_setting_at_end.
  destruct f as [|f']; [reflexivity|]. cbn [obind].
  change (lookahead_is HANG_WITNESS COMMA 14) with (Done None : outcome (option nat)). cbn [obind].
  apply IH.
Qed.

Lemma hang_setting : forall f d, parse_setting false false false None HANG_WITNESS f d 12 = OutOfFuel.
Proof.
  intros f d. destruct f as [|f]; [reflexivity|].
  rewrite parse_setting_S. cbn [stack_exhausted].
  change (parse_ws HANG_WITNESS 12) with (Done 13 : outcome nat). cbn [obind].
  change (slice_from HANG_WITNESS 13) with (Done [91%N] : outcome (list N)). cbn [obind].
  change (re_digits [91%N]) with (@None nat).
  change (re_string [91%N]) with (@None nat). cbn iota.
  change (lookahead_is HANG_WITNESS LBRACK 13) with (Done (Some 14) : outcome (option nat)). cbn [obind andb].
  apply hang_array_loop.
Qed.

Lemma hang_key_value : forall f, parse_key_value false false false None HANG_WITNESS f 10 = OutOfFuel.
Proof.
  intros f. unfold parse_key_value.
  change (lookahead_is HANG_WITNESS BANG 10) with (Done None : outcome (option nat)). cbn [obind].
  change (parse_name HANG_WITNESS 10) with (Done (Ok ([97%N], 11)) : outcome (res (list N * nat))). cbn [obind].
  change (mk_span 10 11) with (Done (10, 11) : outcome span). cbn [obind].
  change (parse_ws HANG_WITNESS 11) with (Done 11 : outcome nat). cbn [obind].
  change (lookahead_is HANG_WITNESS COLON 11) with (Done (Some 12) : outcome (option nat)). cbn [obind].
  rewrite hang_setting. reflexivity.
Qed.

Lemma hang_section_loop : forall f, section_loop false false false None HANG_WITNESS f 10 [] [] = OutOfFuel.
Proof.
  intros f. destruct f as [|f]; [reflexivity|].
  rewrite section_loop_S.
  change (lookahead_is HANG_WITNESS RBRACE 10) with (Done None : outcome (option nat)). cbn [obind].
  change (10 <? byte_len HANG_WITNESS) with true. cbn [andb].
  rewrite hang_key_value. reflexivity.
Qed.

Lemma header_orig_diverges : header_orig_diverges_stmt.
Proof.
  intros required fuel. unfold parse_header_orig, parse_header_gen, parse.
  change (parse_ws HANG_WITNESS 0) with (Done 0 : outcome nat). cbn [obind].
  change (lookahead_is HANG_WITNESS MAGIC 0) with (Done (Some 9) : outcome (option nat)). cbn [obind].
  change (parse_ws HANG_WITNESS 9) with (Done 9 : outcome nat). cbn [obind].
  change (lookahead_is HANG_WITNESS LBRACE 9) with (Done (Some 10) : outcome (option nat)). cbn [obind].
  change (parse_ws HANG_WITNESS 10) with (Done 10 : outcome nat). cbn [obind].
  rewrite hang_section_loop. reflexivity.
Qed.

Lemma header_orig_panics : header_orig_panics_stmt.
Proof.
  intros required fuel Hf. destruct fuel as [|[|f]]; try lia.
  unfold parse_header_orig, parse_header_gen.
  destruct required; vm_compute; reflexivity.
Qed.

(* ---- without the nesting limit every stack is exhausted --------------------- *)

Lemma byte_len_repeat_ascii n : byte_len (repeat 91%N n) = n.
Proof. induction n as [|n IH]; [reflexivity|]. cbn [repeat byte_len]. rewrite IH. reflexivity. Qed.

Lemma parse_ws_at src i c rest :
  at_pos src i (c :: rest) -> is_pws c = false -> parse_ws src i = Done i.
Proof.
  intros Hat Hc. unfold parse_ws. rewrite (slice_from_at _ _ _ Hat). cbn [obind].
  unfold re_ws. cbn [take_while]. rewrite Hc. reflexivity.
Qed.

Lemma lookahead_at src s i rest : at_pos src i rest ->
  lookahead_is src s i = Done (if starts_with s rest then Some (i + byte_len s) else None).
Proof. intros Hat. unfold lookahead_is. rewrite (slice_from_at _ _ _ Hat). reflexivity. Qed.

(* parse_setting on a '[' (no nesting limit): the array loop, one frame up *)
Lemma setting_at_lbrack fixed cw stk src f d i rest :
  at_pos src i (91%N :: rest) ->
  parse_setting fixed false cw stk src (S f) d i =
  if stack_exhausted stk d then Panic else array_loop fixed false cw stk src f d i (i + 1) (i + 1) [].
Proof.
  intros Hat. rewrite parse_setting_S. destruct (stack_exhausted stk d); [reflexivity|].
  rewrite (parse_ws_at _ _ _ _ Hat) by reflexivity. cbn [obind].
  rewrite (slice_from_at _ _ _ Hat). cbn [obind].
  change (re_digits (91%N :: rest)) with (@None nat).
  change (re_string (91%N :: rest)) with (@None nat). cbn iota.
  rewrite (lookahead_at _ LBRACK _ _ Hat).
  change (starts_with LBRACK (91%N :: rest)) with true. cbn [obind andb]. reflexivity.
Qed.

(* the array loop standing on a '[' calls parse_setting one level deeper *)
Lemma array_at_lbrack_panics fixed cw stk src f d i o j rest vals :
  at_pos src j (91%N :: rest) ->
  parse_setting fixed false cw stk src f (S d) j = Panic ->
  array_loop fixed false cw stk src (S f) d i o j vals = Panic.
Proof.
  intros Hat Hp. rewrite array_loop_S.
  rewrite (parse_ws_at _ _ _ _ Hat) by reflexivity. cbn [obind].
  rewrite (lookahead_at _ RBRACK _ _ Hat).
  change (starts_with RBRACK (91%N :: rest)) with false. cbn [obind].
  rewrite Hp. reflexivity.
Qed.

(* m '[' ahead at depth d: the recursion reaches depth d + m - 1 *)
Lemma deep_setting_panics fixed cw src s : forall m d f i rest,
  at_pos src i (repeat 91%N m ++ rest) -> s < d + m -> 2 * m + 1 <= f ->
  parse_setting fixed false cw (Some s) src f d i = Panic.
Proof.
  induction m as [|m IH]; intros d f i rest Hat Hs Hf.
  - destruct f as [|f]; [lia|]. rewrite parse_setting_S. unfold stack_exhausted.
    replace (s <=? d) with true by (symmetry; apply Nat.leb_le; lia). reflexivity.
  - destruct f as [|f]; [lia|]. cbn [repeat app] in Hat.
    rewrite (setting_at_lbrack _ _ _ _ _ _ _ _ Hat). unfold stack_exhausted.
    destruct (s <=? d) eqn:E; [reflexivity|]. apply Nat.leb_gt in E.
    destruct f as [|f]; [lia|].
    destruct m as [|m']; [lia|].
    assert (Hat' : at_pos src (i + 1) (repeat 91%N (S m') ++ rest)).
    { change (91%N :: repeat 91%N (S m') ++ rest) with ([91%N] ++ (repeat 91%N (S m') ++ rest)) in Hat.
      apply at_pos_app in Hat. exact Hat. }
    pose proof Hat' as Hat''. cbn [repeat app] in Hat''.
    eapply array_at_lbrack_panics; [exact Hat''|].
    apply (IH (S d) f (i + 1) rest Hat'); lia.
Qed.

(* the way to the setting of %grmtools{a:… *)
Lemma deep_hdr_facts tail :
  parse_ws (DEEP_HDR ++ tail) 0 = Done 0 /\
  lookahead_is (DEEP_HDR ++ tail) MAGIC 0 = Done (Some 9) /\
  parse_ws (DEEP_HDR ++ tail) 9 = Done 9 /\
  lookahead_is (DEEP_HDR ++ tail) LBRACE 9 = Done (Some 10) /\
  parse_ws (DEEP_HDR ++ tail) 10 = Done 10 /\
  lookahead_is (DEEP_HDR ++ tail) RBRACE 10 = Done None /\
  (10 <? byte_len (DEEP_HDR ++ tail)) = true /\
  lookahead_is (DEEP_HDR ++ tail) BANG 10 = Done None /\
  parse_name (DEEP_HDR ++ tail) 10 = Done (Ok ([97%N], 11)) /\
  parse_ws (DEEP_HDR ++ tail) 11 = Done 11 /\
  lookahead_is (DEEP_HDR ++ tail) COLON 11 = Done (Some 12).
Proof. repeat split; vm_compute; reflexivity. Qed.

Lemma header_depth_unbounded_refuted : header_depth_unbounded_refuted_stmt.
Proof.
  intros s fixed cw required fuel Hf.
  assert (Hlen : byte_len (DEEP_WITNESS (S s)) = 12 + S s).
  { unfold DEEP_WITNESS. rewrite byte_len_app, byte_len_repeat_ascii. reflexivity. }
  unfold fuel_for in Hf. rewrite Hlen in Hf.
  unfold parse_header_gen, parse, DEEP_WITNESS.
  destruct (deep_hdr_facts (repeat 91%N (S s))) as (F1 & F2 & F3 & F4 & F5 & F6 & F7 & F8 & F9 & F10 & F11).
  rewrite F1; cbn [obind]. rewrite F2; cbn [obind]. rewrite F3; cbn [obind].
  rewrite F4; cbn [obind]. rewrite F5; cbn [obind].
  destruct fuel as [|f]; [lia|].
  rewrite section_loop_S. rewrite F6; cbn [obind]. rewrite F7. cbn [andb].
  unfold parse_key_value.
  rewrite F8; cbn [obind]. rewrite F9; cbn [obind].
  change (mk_span 10 11) with (Done (10, 11) : outcome span). cbn [obind].
  rewrite F10; cbn [obind]. rewrite F11; cbn [obind].
  rewrite (deep_setting_panics fixed cw (DEEP_HDR ++ repeat 91%N (S s)) s (S s) 0 f 12 []).
  - reflexivity.
  - exists DEEP_HDR. split; [rewrite app_nil_r; reflexivity | reflexivity].
  - lia.
  - lia.
Qed.

Lemma header_depth_bound_tight : header_depth_bound_tight_stmt.
Proof. exists (DEEP_WITNESS 65). intros [|] [|]; vm_compute; reflexivity. Qed.

(* with the limit, on a stack of MAX_SETTING_DEPTH + 1 frames: the 65th '[' of
   1000 is reported (at its position, 12 + 64); 64 levels are accepted *)
Example depth_fixed_on_deep_witness :
  parse_header_gen true true true false (Some 65) (fuel_for (DEEP_WITNESS 1000)) (DEEP_WITNESS 1000) =
  Done (HErrs [{| ekind := UnexpectedToken 91; elocs := [(76, 77)] |}]).
Proof. vm_compute. reflexivity. Qed.

Example depth_fixed_accepts_64_levels :
  let src := DEEP_HDR ++ repeat 91%N 64 ++ repeat 93%N 64 ++ [125%N] in
  exists h, parse_header_gen true true true false (Some 65) (fuel_for src) src = Done (HOk h 141).
Proof. eexists. vm_compute. reflexivity. Qed.

Example depth_fixed_rejects_65_levels :
  let src := DEEP_HDR ++ repeat 91%N 65 ++ repeat 93%N 65 ++ [125%N] in
  parse_header_gen true true true false (Some 65) (fuel_for src) src =
  Done (HErrs [{| ekind := UnexpectedToken 91; elocs := [(76, 77)] |}]).
Proof. vm_compute. reflexivity. Qed.
