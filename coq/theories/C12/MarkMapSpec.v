(* C12 — statements about the MarkMap mirror (C12/MarkMapModel.v).  Statements only. *)
From Coq Require Import List NArith Bool Sorted.
From GV Require Import Common.Outcome C12.MarkMapModel.
Import ListNotations.
Local Open Scope N_scope.

Definition key_lt (a b : mkey) : Prop := mkey_cmp a b = Lt.
Definition mkey_eqb (a b : mkey) : bool := match mkey_cmp a b with Eq => true | _ => false end.

(* the invariant: keys strictly increasing *)
Definition sorted_ents {V} (l : list (ent V)) : Prop := StronglySorted key_lt (map (e_key V) l).
Definition mm_sorted {V} (m : markmap V) : Prop := sorted_ents (mm_contents m).

(* the abstract map: key -> (mark, value), first match *)
Fixpoint abs_ents {V} (l : list (ent V)) (k : mkey) : option (N * option V) :=
  match l with
  | [] => None
  | e :: t => if mkey_eqb (e_key V e) k then Some (e_mark V e, e_val V e) else abs_ents t k
  end.
Definition abs {V} (m : markmap V) : mkey -> option (N * option V) := abs_ents (mm_contents m).
Definition upd {V} (a : mkey -> option (N * option V)) (k : mkey) (x : option (N * option V)) : mkey -> option (N * option V) :=
  fun k' => if mkey_eqb k k' then x else a k'.
Definition abs_mark {V} (a : option (N * option V)) : N := match a with Some (r, _) => r | None => 0 end.
Definition abs_val {V} (a : option (N * option V)) : option V := match a with Some (_, v) => v | None => None end.

(* binary search = "found at p" / "absent, and p is the sorted insertion position" *)
Definition bsearch_spec_stmt : Prop :=
  forall V (l : list (ent V)) k,
    exists l1 l2, l = l1 ++ l2 /\ length l1 = snd (bsearch V l k)
      /\ Forall (fun e => key_lt (e_key V e) k) l1
      /\ (if fst (bsearch V l k)
          then exists e l2', l2 = e :: l2' /\ e_key V e = k
          else match l2 with [] => True | e :: _ => key_lt k (e_key V e) end)
      /\ (sorted_ents l -> (fst (bsearch V l k) = true <-> abs_ents l k <> None)).

(* ---- every operation keeps the keys strictly increasing, returns Done, and refines the abstract map ---- *)
Definition markmap_insert_spec_stmt : Prop :=
  forall V (m : markmap V) k v, mm_sorted m ->
    exists old m', mm_insert V m k v = Done (old, m') /\ mm_sorted m' /\ mm_default m' = mm_default m
      /\ old = abs_val (abs m k)
      /\ forall k', abs m' k' = upd (abs m) k (Some (abs_mark (abs m k), Some v)) k'.

(* mark_used / mark_required / set_merge_behavior are [mm_mark] with f = (| USED), (| REQUIRED), set_mb_repr _ b *)
Definition markmap_mark_spec_stmt : Prop :=
  forall V (m : markmap V) k f, mm_sorted m ->
    exists m', mm_mark V m k f = Done m' /\ mm_sorted m' /\ mm_default m' = mm_default m
      /\ forall k', abs m' k' = upd (abs m) k (Some (f (abs_mark (abs m k)), abs_val (abs m k))) k'.

Definition markmap_get_spec_stmt : Prop :=
  forall V (m : markmap V) k, mm_sorted m ->
    mm_get V m k = Done (abs_val (abs m k))
    /\ mm_contains_key V m k = Done (is_some (abs_val (abs m k)))
    /\ mm_get_mark V m k = Done (option_map fst (abs m k))
    /\ mm_is_used V m k = Done (has_bit (abs_mark (abs m k)) M_USED)
    /\ mm_is_required V m k = Done (has_bit (abs_mark (abs m k)) M_REQUIRED).

(* remove drops the whole entry: the value AND the marks of the key *)
Definition markmap_remove_spec_stmt : Prop :=
  forall V (m : markmap V) k, mm_sorted m ->
    exists m', mm_remove V m k = Done (abs_val (abs m k), m') /\ mm_sorted m' /\ mm_default m' = mm_default m
      /\ forall k', abs m' k' = upd (abs m) k None k'.

(* ---- merge_from ---------------------------------------------------------------- *)
(* the behaviour that decides for a key present in self: self's own per-key behaviour, else self's default;
   the behaviour recorded in [other] never decides *)
Definition deciding_mb (dflt : mbeh) (my_mark : N) : N :=
  let r := N.land my_mark MERGE_REPRS in if r =? 0 then M_MB dflt else r.

(* pointwise result for a key of [other]: None = conflict *)
Definition merge_point {V} (dflt : mbeh) (mine : option (N * option V)) (their_mark : N) (their_val : option V)
  : option (N * option V) :=
  match mine with
  | None => Some (their_mark, their_val)          (* absent in self: their entry as it is, THEIR behaviour bits included *)
  | Some (mm, mv) => option_map (fun e => (e_mark V e, e_val V e)) (merge_found V dflt ([], mm, mv) their_mark their_val)
  end.

(* the abstract merge: the entries of [other] in key order, each merged pointwise into the abstract map; the FIRST
   conflict stops it, with the map as changed so far (merge_from is not atomic) *)
Fixpoint merge_abs {V} (dflt : mbeh) (a : mkey -> option (N * option V)) (theirs : list (ent V))
  : option (mkey * option V) * (mkey -> option (N * option V)) :=
  match theirs with
  | [] => (None, a)
  | te :: rest =>
      match merge_point dflt (a (e_key V te)) (e_mark V te) (e_val V te) with
      | None => (Some (e_key V te, e_val V te), a)
      | Some x => merge_abs dflt (upd a (e_key V te) (Some x)) rest
      end
  end.

(* merge_from never panics, keeps the invariant and the default behaviour, and is the abstract merge: Ok exactly when
   no key of [other] conflicts; Err(k, v) for the first conflicting key of [other] in key order with THEIR value *)
Definition markmap_merge_spec_stmt : Prop :=
  forall V (m other : markmap V), mm_sorted m -> mm_sorted other ->
    exists res m', mm_merge_from V m other = Done (res, m') /\ mm_sorted m' /\ mm_default m' = mm_default m /\
      let r := merge_abs (mm_default m) (abs m) (mm_contents other) in
      (forall k', abs m' k' = snd r k')
      /\ match res, fst r with
         | None, None => True
         | Some (k, v), Some (k', v') => k = k' /\ v' = Some v
         | _, _ => False
         end.

(* a conflict is exactly: their value present, my value present, deciding behaviour MutuallyExclusive *)
Definition merge_conflict_iff_stmt : Prop :=
  forall V dflt mm (mv : option V) tm tv,
    N.land mm MERGE_REPRS = 0 \/ (exists b, N.land mm MERGE_REPRS = M_MB b) ->
    (merge_point dflt (Some (mm, mv)) tm tv = None
     <-> is_some tv = true /\ is_some mv = true /\ deciding_mb dflt mm = M_MB MutEx).

(* the pointwise table on well-formed marks, per deciding behaviour *)
Definition merge_point_table_stmt : Prop :=
  forall V dflt mm (mv : option V) tm tv,
    N.land mm MERGE_REPRS = 0 \/ (exists b, N.land mm MERGE_REPRS = M_MB b) ->
    let d := deciding_mb dflt mm in
    let merged := N.lor mm (zap tm) in
    merge_point dflt (Some (mm, mv)) tm tv =
      if d =? M_MB Theirs then Some (merged, tv)                     (* their value replaces mine EVEN WHEN IT IS None *)
      else if d =? M_MB Ours then (if is_some mv then Some (mm, mv) else Some (merged, tv))   (* mine kept: their marks dropped *)
      else (* MutuallyExclusive *)
        match tv, mv with
        | Some _, Some _ => None
        | Some _, None => Some (merged, tv)
        | None, _ => Some (mm, mv)                                    (* their marks dropped *)
        end.

(* merge_from is not atomic: an Err leaves self changed *)
Definition merge_not_atomic_stmt : Prop :=
  exists (m other m' : markmap N) k v,
    mm_sorted m /\ mm_sorted other /\ mm_merge_from N m other = Done (Some (k, v), m') /\ mm_contents m' <> mm_contents m.

(* under Theirs a key that [other] only MARKED (no value) erases the value self had — the doc comment of
   merge_from says "if a value in other is_some(), then it will overwrite values in self" *)
Definition merge_theirs_erases_value_stmt : Prop :=
  exists (m other m' : markmap N) k v,
    mm_sorted m /\ mm_sorted other /\ abs_val (abs m k) = Some v /\ abs_val (abs other k) = None
    /\ mm_merge_from N m other = Done (None, m') /\ abs_val (abs m' k) = None.

(* ---- unused / missing / keys / iteration ------------------------------------------- *)
(* unused = keys WITH a value whose Used bit is clear; missing = keys marked Required WITHOUT a value; in key order *)
Definition markmap_unused_missing_spec_stmt : Prop :=
  forall V (m : markmap V), mm_sorted m ->
    StronglySorted key_lt (mm_unused V m) /\ StronglySorted key_lt (mm_missing V m) /\ StronglySorted key_lt (mm_keys V m)
    /\ (forall k, In k (mm_unused V m) <-> exists r v, abs m k = Some (r, Some v) /\ has_bit r M_USED = false)
    /\ (forall k, In k (mm_missing V m) <-> exists r, abs m k = Some (r, None) /\ has_bit r M_REQUIRED = true)
    /\ (forall k, In k (mm_keys V m) <-> exists r v, abs m k = Some (r, Some v)).

(* `for (k, v) in &map` ends at the first key that carries marks but no value: keys() and the iterator disagree *)
Definition markmap_iter_is_prefix_stmt : Prop :=
  forall V (m : markmap V),
    exists rest, mm_keys V m = map fst (mm_iter V m) ++ rest
      /\ (rest <> [] -> exists e, In e (mm_contents m) /\ e_val V e = None).
Definition markmap_iter_complete_refuted_stmt : Prop :=
  exists (m : markmap N), mm_sorted m /\ map fst (mm_iter N m) <> mm_keys N m.

(* ---- reachable maps: operation sequences ----------------------------------------------- *)
Definition st_sorted (s : mstate) : Prop := mm_sorted (fst s) /\ mm_sorted (snd s).

Definition markmap_sorted_inv_stmt : Prop :=
  forall s o, st_sorted s -> exists r s', op_step s o = Done (r, s') /\ st_sorted s'.

Fixpoint reach (s : mstate) (os : list op) : outcome mstate :=
  match os with
  | [] => Done s
  | o :: os' => do r <- op_step s o; reach (snd r) os'
  end.

Definition markmap_reachable_sorted_stmt : Prop :=
  forall os, exists s, reach (mm_new N, mm_new N) os = Done s /\ st_sorted s.

(* no operation of the public API (Entry API included) panics on a reachable map *)
Definition markmap_never_panics_stmt : Prop :=
  forall os o, exists s r s', reach (mm_new N, mm_new N) os = Done s /\ op_step s o = Done (r, s').
