(* C12 — proofs of the statements of C12/MarkMapSpec.v *)
From Coq Require Import List NArith Bool Sorted Lia.
From GV Require Import Common.Outcome C12.MarkMapModel C12.MarkMapSpec.
From GV Require C12.HeaderModel.
Import ListNotations.
Local Open Scope N_scope.

(* ---- the order on keys ------------------------------------------------------ *)
Lemma cmp_refl : forall a, mkey_cmp a a = Eq.
Proof. induction a; simpl; auto. unfold mkey_cmp in *. simpl. rewrite N.compare_refl. auto. Qed.

Lemma cmp_eq : forall a b, mkey_cmp a b = Eq -> a = b.
Proof.
  unfold mkey_cmp. induction a as [|x a IH]; intros [|y b]; simpl; try discriminate; auto.
  destruct (N.compare_spec x y); try discriminate. intros H1. subst. f_equal. auto.
Qed.

Lemma cmp_antisym : forall a b, mkey_cmp a b = CompOpp (mkey_cmp b a).
Proof.
  unfold mkey_cmp. induction a as [|x a IH]; intros [|y b]; simpl; auto.
  rewrite (N.compare_antisym y x). destruct (y ?= x); simpl; auto.
Qed.

Lemma cmp_lt_trans : forall a b c, key_lt a b -> key_lt b c -> key_lt a c.
Proof.
  unfold key_lt, mkey_cmp. induction a as [|x a IH]; intros [|y b] [|z c]; simpl; try discriminate; auto.
  destruct (N.compare_spec x y); try discriminate; destruct (N.compare_spec y z); try discriminate; subst; intros.
  - rewrite N.compare_refl. eauto.
  - apply N.compare_lt_iff in H0. rewrite H0. auto.
  - apply N.compare_lt_iff in H. rewrite H. auto.
  - assert (x < z) by (eapply N.lt_trans; eauto). apply N.compare_lt_iff in H3. rewrite H3. auto.
Qed.

Lemma cmp_gt_lt : forall a b, mkey_cmp a b = Gt -> key_lt b a.
Proof. intros. unfold key_lt. rewrite cmp_antisym, H. auto. Qed.

Lemma eqb_refl : forall a, mkey_eqb a a = true.
Proof. intros. unfold mkey_eqb. rewrite cmp_refl. auto. Qed.
Lemma eqb_eq : forall a b, mkey_eqb a b = true -> a = b.
Proof. unfold mkey_eqb. intros a b. destruct (mkey_cmp a b) eqn:E; try discriminate. intros _. apply cmp_eq; auto. Qed.
Lemma lt_neqb : forall a b, key_lt a b -> mkey_eqb a b = false /\ mkey_eqb b a = false.
Proof. unfold key_lt, mkey_eqb. intros. rewrite (cmp_antisym b a), H. auto. Qed.
Lemma lt_neqb1 : forall a b, key_lt a b -> mkey_eqb a b = false.
Proof. intros. apply (proj1 (lt_neqb a b H)). Qed.
Lemma lt_neqb2 : forall a b, key_lt a b -> mkey_eqb b a = false.
Proof. intros. apply (proj2 (lt_neqb a b H)). Qed.
Lemma eqb_sym : forall a b, mkey_eqb a b = mkey_eqb b a.
Proof. unfold mkey_eqb. intros. rewrite (cmp_antisym a b). destruct (mkey_cmp b a); auto. Qed.

(* ---- Vec primitives at a split position ---------------------------------------- *)
Lemma nth_checked_app : forall A (l1 : list A) e l2, nth_checked (l1 ++ e :: l2) (length l1) = Done e.
Proof. unfold nth_checked. intros. rewrite nth_error_app2, PeanoNat.Nat.sub_diag by lia. auto. Qed.
Lemma vec_set_app : forall A (l1 : list A) e l2 f, vec_set (l1 ++ e :: l2) (length l1) f = Done (l1 ++ f e :: l2).
Proof. induction l1 as [|a l1 IH]; simpl; intros; auto. rewrite IH. auto. Qed.
Lemma vec_insert_app : forall A (l1 l2 : list A) x, vec_insert (l1 ++ l2) (length l1) x = Done (l1 ++ x :: l2).
Proof. induction l1 as [|a l1 IH]; simpl; intros. - destruct l2; auto. - rewrite IH. auto. Qed.
Lemma vec_remove_app : forall A (l1 : list A) e l2, vec_remove (l1 ++ e :: l2) (length l1) = Done (e, l1 ++ l2).
Proof. induction l1 as [|a l1 IH]; simpl; intros; auto. rewrite IH. auto. Qed.

Section Gen.
Variable V : Type.
Notation ent := (ent V).
Notation ekey := (e_key V).

Lemma bsearch_split : forall (l : list ent) k,
  exists l1 l2, l = l1 ++ l2 /\ length l1 = snd (bsearch V l k)
    /\ Forall (fun e => key_lt (ekey e) k) l1
    /\ (if fst (bsearch V l k) then exists e l2', l2 = e :: l2' /\ ekey e = k
        else match l2 with [] => True | e :: _ => key_lt k (ekey e) end).
Proof.
  induction l as [|e t IH]; intros k; simpl.
  - exists [], []. simpl. auto.
  - destruct (mkey_cmp (ekey e) k) eqn:E; simpl.
    + exists [], (e :: t). simpl. repeat split; auto. exists e, t. split; auto. apply cmp_eq; auto.
    + destruct (IH k) as (l1 & l2 & H1 & H2 & H3 & H4). exists (e :: l1), l2. simpl. subst t.
      repeat split; auto.
    + exists [], (e :: t). simpl. repeat split; auto. apply cmp_gt_lt; auto.
Qed.

(* sortedness facts *)
Lemma sorted_app_inv : forall (l1 l2 : list ent), sorted_ents (l1 ++ l2) ->
  sorted_ents l1 /\ sorted_ents l2 /\ forall a b, In a l1 -> In b l2 -> key_lt (ekey a) (ekey b).
Proof.
  unfold sorted_ents. induction l1; simpl; intros.
  - repeat split; auto. constructor. intros; contradiction.
  - inversion H; subst. destruct (IHl1 _ H2) as (A & B & C). repeat split; auto.
    + constructor; auto. rewrite map_app in H3. apply Forall_app in H3. tauto.
    + intros x b [Hx|Hx] Hb; [subst|eauto]. rewrite Forall_forall in H3. apply H3. apply in_map. apply in_or_app; auto.
Qed.

Lemma sorted_app_intro : forall (l1 l2 : list ent), sorted_ents l1 -> sorted_ents l2 ->
  (forall a b, In a l1 -> In b l2 -> key_lt (ekey a) (ekey b)) -> sorted_ents (l1 ++ l2).
Proof.
  unfold sorted_ents. induction l1; simpl; intros; auto.
  inversion H; subst. constructor.
  - apply IHl1; auto.
  - rewrite map_app. apply Forall_app. split; auto. rewrite Forall_forall. intros x Hx.
    apply in_map_iff in Hx. destruct Hx as (b & <- & Hb). apply H1; auto.
Qed.

Lemma sorted_cons_inv : forall e (t : list ent), sorted_ents (e :: t) -> sorted_ents t /\ forall b, In b t -> key_lt (ekey e) (ekey b).
Proof. unfold sorted_ents. simpl. intros. inversion H; subst. split; auto. rewrite Forall_forall in H3. intros. apply H3. apply in_map; auto. Qed.

Lemma sorted_cons_intro : forall e (t : list ent), sorted_ents t -> (forall b, In b t -> key_lt (ekey e) (ekey b)) -> sorted_ents (e :: t).
Proof. unfold sorted_ents. simpl. intros. constructor; auto. rewrite Forall_forall. intros x Hx. apply in_map_iff in Hx. destruct Hx as (b & <- & Hb). auto. Qed.

(* abs on a split *)
Lemma abs_app_lt : forall (l1 l2 : list ent) k, (forall a, In a l1 -> mkey_eqb (ekey a) k = false) -> abs_ents (l1 ++ l2) k = abs_ents l2 k.
Proof. induction l1; simpl; intros; auto. rewrite H by auto. apply IHl1. auto. Qed.

Lemma abs_none_gt : forall (l : list ent) k, (forall a, In a l -> mkey_eqb (ekey a) k = false) -> abs_ents l k = None.
Proof. intros. rewrite <- (app_nil_r l). rewrite abs_app_lt; auto. Qed.

(* the two shapes a sorted vector takes around a key *)
Inductive around (l : list ent) (k : mkey) : bool -> nat -> Prop :=
| AFound l1 e l2 : l = l1 ++ e :: l2 -> ekey e = k ->
    (forall a, In a l1 -> key_lt (ekey a) k) -> (forall b, In b l2 -> key_lt k (ekey b)) ->
    sorted_ents l1 -> sorted_ents l2 -> around l k true (length l1)
| AAbsent l1 l2 : l = l1 ++ l2 ->
    (forall a, In a l1 -> key_lt (ekey a) k) -> (forall b, In b l2 -> key_lt k (ekey b)) ->
    sorted_ents l1 -> sorted_ents l2 -> around l k false (length l1).

Lemma bsearch_around : forall (l : list ent) k, sorted_ents l -> around l k (fst (bsearch V l k)) (snd (bsearch V l k)).
Proof.
  intros l k S. destruct (bsearch_split l k) as (l1 & l2 & H1 & H2 & H3 & H4). rewrite <- H2.
  subst l. destruct (sorted_app_inv _ _ S) as (S1 & S2 & S12). rewrite Forall_forall in H3.
  destruct (fst (bsearch V (l1 ++ l2) k)).
  - destruct H4 as (e & l2' & -> & Hk). destruct (sorted_cons_inv _ _ S2) as (S3 & S4).
    eapply AFound; eauto. intros. rewrite <- Hk. auto.
  - eapply AAbsent; eauto. destruct l2 as [|e t]; simpl; intros; try contradiction.
    destruct (sorted_cons_inv _ _ S2) as (S3 & S4). destruct H as [<-|H]; auto. eapply cmp_lt_trans; eauto.
Qed.

Lemma around_found_abs : forall l1 e l2 k, ekey e = k ->
  (forall a, In a l1 -> key_lt (ekey a) k) -> (forall b, In b l2 -> key_lt k (ekey b)) ->
  forall k', abs_ents (l1 ++ e :: l2) k' =
             if mkey_eqb k k' then Some (e_mark V e, e_val V e) else abs_ents (l1 ++ l2) k'.
Proof.
  intros. destruct (mkey_eqb k k') eqn:E.
  - apply eqb_eq in E. subst k'. rewrite abs_app_lt. simpl. rewrite H, eqb_refl. auto.
    intros. apply lt_neqb1; auto.
  - clear H0 H1. induction l1; simpl.
    + rewrite H, E. auto.
    + rewrite IHl1. auto.
Qed.

Lemma around_absent_abs : forall l1 l2 k,
  (forall a, In a l1 -> key_lt (ekey a) k) -> (forall b, In b l2 -> key_lt k (ekey b)) ->
  abs_ents (l1 ++ l2) k = None.
Proof.
  intros. rewrite abs_app_lt. apply abs_none_gt. intros. apply lt_neqb2; auto.
  intros. apply lt_neqb1; auto.
Qed.

Lemma sorted_around_intro : forall l1 e l2,
  (forall a, In a l1 -> key_lt (ekey a) (ekey e)) -> (forall b, In b l2 -> key_lt (ekey e) (ekey b)) ->
  sorted_ents l1 -> sorted_ents l2 -> sorted_ents (l1 ++ e :: l2).
Proof.
  intros. apply sorted_app_intro; auto. apply sorted_cons_intro; auto.
  intros a b Ha [<-|Hb]; auto. eapply cmp_lt_trans; eauto.
Qed.

Lemma sorted_around_drop : forall l1 l2 k,
  (forall a, In a l1 -> key_lt (ekey a) k) -> (forall b, In b l2 -> key_lt k (ekey b)) ->
  sorted_ents l1 -> sorted_ents l2 -> sorted_ents (l1 ++ l2).
Proof. intros. apply sorted_app_intro; auto. intros. eapply cmp_lt_trans; eauto. Qed.

End Gen.

Section Ops.
Variable V : Type.
Notation ekey := (e_key V).

Lemma found_at : forall l1 (e : ent V) l2 k, ekey e = k ->
  (forall a, In a l1 -> key_lt (ekey a) k) -> (forall b, In b l2 -> key_lt k (ekey b)) ->
  abs_ents (l1 ++ e :: l2) k = Some (e_mark V e, e_val V e).
Proof. intros. rewrite (around_found_abs V l1 e l2 k); auto. rewrite eqb_refl. auto. Qed.

Lemma found_upd : forall l1 (e e' : ent V) l2 k, ekey e = k -> ekey e' = k ->
  (forall a, In a l1 -> key_lt (ekey a) k) -> (forall b, In b l2 -> key_lt k (ekey b)) ->
  forall k', abs_ents (l1 ++ e' :: l2) k' = upd (abs_ents (l1 ++ e :: l2)) k (Some (e_mark V e', e_val V e')) k'.
Proof.
  intros. unfold upd. rewrite (around_found_abs V l1 e' l2 k); auto. rewrite (around_found_abs V l1 e l2 k); auto.
  destruct (mkey_eqb k k'); auto.
Qed.

Lemma absent_upd : forall l1 (e' : ent V) l2 k, ekey e' = k ->
  (forall a, In a l1 -> key_lt (ekey a) k) -> (forall b, In b l2 -> key_lt k (ekey b)) ->
  forall k', abs_ents (l1 ++ e' :: l2) k' = upd (abs_ents (l1 ++ l2)) k (Some (e_mark V e', e_val V e')) k'.
Proof. intros. unfold upd. rewrite (around_found_abs V l1 e' l2 k); auto. Qed.

Lemma remove_upd : forall l1 (e : ent V) l2 k, ekey e = k ->
  (forall a, In a l1 -> key_lt (ekey a) k) -> (forall b, In b l2 -> key_lt k (ekey b)) ->
  forall k', abs_ents (l1 ++ l2) k' = upd (abs_ents (l1 ++ e :: l2)) k None k'.
Proof.
  intros. unfold upd. rewrite (around_found_abs V l1 e l2 k); auto. destruct (mkey_eqb k k') eqn:E; auto.
  apply eqb_eq in E. subst k'. apply around_absent_abs; auto.
Qed.

Ltac around l k S :=
  let H := fresh "AR" in
  pose proof (bsearch_around V l k S) as H; destruct (bsearch V l k) as [b p]; simpl in H; inversion H; subst; clear H.

Theorem markmap_insert_spec_g : forall (m : markmap V) k v, mm_sorted m ->
    exists old m', mm_insert V m k v = Done (old, m') /\ mm_sorted m' /\ mm_default m' = mm_default m
      /\ old = abs_val (abs m k)
      /\ forall k', abs m' k' = upd (abs m) k (Some (abs_mark (abs m k), Some v)) k'.
Proof.
  intros [d l] k v S. unfold mm_sorted in S. simpl in S. unfold mm_insert, abs, mm_sorted, with_contents. simpl.
  around l k S.
  - rewrite nth_checked_app, vec_set_app. simpl. eexists _, _. split; [reflexivity|]. simpl.
    rewrite found_at; auto. simpl. repeat split; auto.
    + apply sorted_around_intro; auto.
    + intros. rewrite (found_upd l1 e (set_val V (Some v) e) l2 (ekey e)); auto.
  - rewrite vec_insert_app. simpl. eexists _, _. split; [reflexivity|]. simpl.
    rewrite around_absent_abs; auto. simpl. repeat split; auto.
    + apply sorted_around_intro; auto.
    + intros. rewrite (absent_upd l1 (k, 0, Some v) l2 k); auto.
Qed.

Theorem markmap_mark_spec_g : forall (m : markmap V) k f, mm_sorted m ->
    exists m', mm_mark V m k f = Done m' /\ mm_sorted m' /\ mm_default m' = mm_default m
      /\ forall k', abs m' k' = upd (abs m) k (Some (f (abs_mark (abs m k)), abs_val (abs m k))) k'.
Proof.
  intros [d l] k f S. unfold mm_sorted in S. simpl in S. unfold mm_mark, abs, mm_sorted, with_contents. simpl.
  around l k S.
  - rewrite vec_set_app. simpl. eexists. split; [reflexivity|]. simpl.
    rewrite found_at; auto. simpl. repeat split; auto.
    + apply sorted_around_intro; auto.
    + intros. rewrite (found_upd l1 e (map_mark V f e) l2 (ekey e)); auto.
  - rewrite vec_insert_app. simpl. eexists. split; [reflexivity|]. simpl.
    rewrite around_absent_abs; auto. simpl. repeat split; auto.
    + apply sorted_around_intro; auto.
    + intros. rewrite (absent_upd l1 (k, f 0, None) l2 k); auto.
Qed.

Theorem markmap_get_spec_g : forall (m : markmap V) k, mm_sorted m ->
    mm_get V m k = Done (abs_val (abs m k))
    /\ mm_contains_key V m k = Done (is_some (abs_val (abs m k)))
    /\ mm_get_mark V m k = Done (option_map fst (abs m k))
    /\ mm_is_used V m k = Done (has_bit (abs_mark (abs m k)) M_USED)
    /\ mm_is_required V m k = Done (has_bit (abs_mark (abs m k)) M_REQUIRED).
Proof.
  intros [d l] k S. unfold mm_sorted in S. simpl in S.
  unfold mm_contains_key, mm_get, mm_get_mark, mm_is_used, mm_is_required, mm_test_bit, abs. simpl.
  around l k S.
  - rewrite nth_checked_app. simpl. rewrite found_at; auto.
  - rewrite around_absent_abs; auto.
Qed.

Theorem markmap_remove_spec_g : forall (m : markmap V) k, mm_sorted m ->
    exists m', mm_remove V m k = Done (abs_val (abs m k), m') /\ mm_sorted m' /\ mm_default m' = mm_default m
      /\ forall k', abs m' k' = upd (abs m) k None k'.
Proof.
  intros [d l] k S. unfold mm_sorted in S. simpl in S. unfold mm_remove, abs, mm_sorted, with_contents. simpl.
  around l k S.
  - rewrite vec_remove_app. simpl. eexists. rewrite found_at; auto. simpl. split; [reflexivity|]. simpl.
    repeat split; auto.
    + eapply sorted_around_drop; eauto.
    + intros. apply remove_upd; auto.
  - rewrite around_absent_abs; auto. simpl. eexists. split; [reflexivity|]. simpl. repeat split; auto.
    intros. unfold upd. destruct (mkey_eqb k k') eqn:E; auto. apply eqb_eq in E. subst. apply around_absent_abs; auto.
Qed.

End Ops.

Section Merge.
Variable V : Type.
Notation ekey := (e_key V).

Lemma merge_found_key : forall dflt k m (v : option V) tm tv,
  merge_found V dflt (k, m, v) tm tv = option_map (fun e => (k, e_mark V e, e_val V e)) (merge_found V dflt ([], m, v) tm tv).
Proof.
  intros. unfold merge_found, e_mark, e_val, e_key. simpl.
  destruct tv, v; simpl;
    repeat match goal with |- context [if ?c then _ else _] => destruct c; simpl end; reflexivity.
Qed.

Lemma merge_abs_ext : forall dflt (ts : list (ent V)) a a', (forall k, a k = a' k) ->
  fst (merge_abs dflt a ts) = fst (merge_abs dflt a' ts) /\ forall k, snd (merge_abs dflt a ts) k = snd (merge_abs dflt a' ts) k.
Proof.
  induction ts as [|te rest IH]; simpl; intros; auto.
  rewrite <- H. destruct (merge_point dflt (a (ekey te)) (e_mark V te) (e_val V te)); simpl; auto.
  apply IH. intros. unfold upd. destruct (mkey_eqb (ekey te) k); auto.
Qed.

Ltac around l k S :=
  let H := fresh "AR" in
  pose proof (bsearch_around V l k S) as H; destruct (bsearch V l k) as [b p]; simpl in H; inversion H; subst; clear H.

Lemma merge_go_spec : forall dflt (ts : list (ent V)) l, sorted_ents l ->
  exists r, merge_go V dflt l ts = Done r /\
    match r with
    | MOk l' => sorted_ents l' /\ fst (merge_abs dflt (abs_ents l) ts) = None
                /\ forall k', abs_ents l' k' = snd (merge_abs dflt (abs_ents l) ts) k'
    | MErr k v l' => sorted_ents l' /\ fst (merge_abs dflt (abs_ents l) ts) = Some (k, Some v)
                /\ forall k', abs_ents l' k' = snd (merge_abs dflt (abs_ents l) ts) k'
    end.
Proof.
  induction ts as [|te rest IH]; intros l S; simpl.
  - eexists. split; [reflexivity|]. simpl. auto.
  - around l (ekey te) S.
    + rewrite nth_checked_app. simpl. rewrite found_at; auto.
      destruct e as [[ek em] ev].
      change (e_mark V (ek, em, ev)) with em. change (e_val V (ek, em, ev)) with ev.
      change (ekey (ek, em, ev)) with ek in H0. subst ek.
      unfold merge_point. rewrite merge_found_key.
      destruct (merge_found V dflt ([], em, ev) (e_mark V te) (e_val V te)) as [x|] eqn:MF; simpl.
      * rewrite vec_set_app.
        assert (S' : sorted_ents (l1 ++ (ekey te, e_mark V x, e_val V x) :: l2)) by (apply sorted_around_intro; auto).
        destruct (IH _ S') as (r & R1 & R2). exists r. split; auto.
        pose proof (merge_abs_ext dflt rest (abs_ents (l1 ++ (ekey te, e_mark V x, e_val V x) :: l2))
                      (upd (abs_ents (l1 ++ (ekey te, em, ev) :: l2)) (ekey te) (Some (e_mark V x, e_val V x)))) as EXT.
        destruct EXT as (E1 & E2).
        { intros. rewrite (found_upd V l1 (ekey te, em, ev) (ekey te, e_mark V x, e_val V x) l2 (ekey te)); auto. }
        destruct r; destruct R2 as (A & B & C); (split; [exact A|split]);
          [ etransitivity; [symmetry; exact E1 | exact B] | intros; etransitivity; [apply C | apply E2]
          | etransitivity; [symmetry; exact E1 | exact B] | intros; etransitivity; [apply C | apply E2] ].
      * destruct (e_val V te) as [tv|] eqn:TV.
        -- eexists. split; [reflexivity|]. simpl. repeat split; auto.
        -- exfalso. unfold merge_found in MF. simpl in MF.
           repeat match type of MF with context [if ?c then _ else _] => destruct c; simpl in MF end; discriminate.
    + rewrite vec_insert_app. rewrite around_absent_abs; auto. simpl.
      destruct te as [[tk tm] tv]. simpl in *.
      assert (S' : sorted_ents (l1 ++ (tk, tm, tv) :: l2)) by (apply sorted_around_intro; auto).
      destruct (IH _ S') as (r & R1 & R2). exists r. split; auto.
      pose proof (merge_abs_ext dflt rest (abs_ents (l1 ++ (tk, tm, tv) :: l2))
                    (upd (abs_ents (l1 ++ l2)) tk (Some (tm, tv)))) as EXT.
      destruct EXT as (E1 & E2).
      { intros. rewrite (absent_upd V l1 (tk, tm, tv) l2 tk); auto. }
      unfold e_mark, e_val. simpl.
        destruct r; destruct R2 as (A & B & C); (split; [exact A|split]);
          [ etransitivity; [symmetry; exact E1 | exact B] | intros; etransitivity; [apply C | apply E2]
          | etransitivity; [symmetry; exact E1 | exact B] | intros; etransitivity; [apply C | apply E2] ].
Qed.

Theorem markmap_merge_spec_g : forall (m other : markmap V), mm_sorted m -> mm_sorted other ->
    exists res m', mm_merge_from V m other = Done (res, m') /\ mm_sorted m' /\ mm_default m' = mm_default m /\
      let r := merge_abs (mm_default m) (abs m) (mm_contents other) in
      (forall k', abs m' k' = snd r k')
      /\ match res, fst r with
         | None, None => True
         | Some (k, v), Some (k', v') => k = k' /\ v' = Some v
         | _, _ => False
         end.
Proof.
  intros [d l] [d2 l2] S _. unfold mm_sorted in *. simpl in *. unfold mm_merge_from. simpl.
  destruct (merge_go_spec d l2 l S) as (r & R1 & R2). rewrite R1. simpl.
  destruct r; eexists _, _; (split; [reflexivity|]); simpl; destruct R2 as (A & B & C); unfold abs; simpl;
    repeat split; auto; rewrite B; auto.
Qed.

End Merge.

(* ---- the pointwise table ------------------------------------------------------ *)
Lemma mb0_is_land : forall mm, N.lor (N.lor (N.land mm (M_MB MutEx)) (N.land mm (M_MB Ours))) (N.land mm (M_MB Theirs)) = N.land mm MERGE_REPRS.
Proof. intros. unfold MERGE_REPRS. rewrite !N.land_lor_distr_r. auto. Qed.

Lemma deciding_wf : forall dflt mm, N.land mm MERGE_REPRS = 0 \/ (exists b, N.land mm MERGE_REPRS = M_MB b) ->
  exists b, deciding_mb dflt mm = M_MB b.
Proof.
  intros dflt mm [H|(b & H)]; unfold deciding_mb; rewrite H; simpl.
  - exists dflt; auto.
  - exists b. destruct b; reflexivity.
Qed.

Theorem merge_point_table : merge_point_table_stmt.
Proof.
  intros V dflt mm mv tm tv WF. destruct (deciding_wf dflt mm WF) as (b & D). simpl.
  unfold deciding_mb in *. cbv zeta in *.
  unfold merge_point, merge_found. cbv beta iota zeta delta [e_mark e_val e_key fst snd].
  rewrite mb0_is_land. rewrite D.
  destruct b, tv, mv; reflexivity.
Qed.

Theorem merge_conflict_iff : merge_conflict_iff_stmt.
Proof.
  intros V dflt mm mv tm tv WF. rewrite (merge_point_table V dflt mm mv tm tv WF).
  destruct (deciding_wf dflt mm WF) as (b & D). cbv zeta. rewrite D.
  destruct b, tv, mv; simpl; split; intros; try discriminate; try tauto; try (destruct H as (? & ? & ?); discriminate).
Qed.

Definition ka : mkey := [97]. Definition kb : mkey := [98].
Definition wit_m : markmap N := MkMM MutEx [(kb, 0, Some 1)].
Definition wit_o : markmap N := MkMM MutEx [(ka, 0, Some 2); (kb, 0, Some 3)].

Lemma sorted_dec_ok : forall V (l : list (ent V)),
  (fix chk (l : list mkey) := match l with a :: ((b :: _) as t) => match mkey_cmp a b with Lt => chk t | _ => false end | _ => true end)
    (map (e_key V) l) = true -> sorted_ents l.
Proof.
  intros V l. unfold sorted_ents. generalize (map (e_key V) l). clear l.
  induction l as [|a t IH]; intros H. constructor.
  destruct t as [|b t']. constructor; constructor.
  destruct (mkey_cmp a b) eqn:E; try discriminate. specialize (IH H).
  constructor; auto. inversion IH; subst. constructor; auto.
  rewrite Forall_forall in *. intros. eapply cmp_lt_trans; eauto.
Qed.

Theorem merge_not_atomic : merge_not_atomic_stmt.
Proof.
  exists wit_m, wit_o, (MkMM MutEx [(ka, 0, Some 2); (kb, 0, Some 1)]), kb, 3.
  split; [apply sorted_dec_ok; reflexivity|]. split; [apply sorted_dec_ok; reflexivity|].
  split; [vm_compute; reflexivity|]. simpl. discriminate.
Qed.

Definition wit_m2 : markmap N := MkMM Theirs [(ka, 0, Some 1)].
Definition wit_o2 : markmap N := MkMM MutEx [(ka, M_REQUIRED, None)].
Theorem merge_theirs_erases_value : merge_theirs_erases_value_stmt.
Proof.
  exists wit_m2, wit_o2, (MkMM Theirs [(ka, M_REQUIRED, None)]), ka, 1.
  split; [apply sorted_dec_ok; reflexivity|]. split; [apply sorted_dec_ok; reflexivity|].
  repeat split; vm_compute; reflexivity.
Qed.

(* ---- unused / missing / keys / iteration ------------------------------------------ *)
Section Lists.
Variable V : Type.
Notation ekey := (e_key V).

Lemma lt_irrefl : forall k, ~ key_lt k k.
Proof. unfold key_lt. intros k H. rewrite cmp_refl in H. discriminate. Qed.

Lemma abs_in : forall (l : list (ent V)) k r v, sorted_ents l -> (abs_ents l k = Some (r, v) <-> In (k, r, v) l).
Proof.
  induction l as [|e t IH]; simpl; intros k r v S.
  - split; [discriminate|tauto].
  - destruct (sorted_cons_inv V _ _ S) as (S1 & S2). destruct e as [[ek em] ev].
    change (ekey (ek, em, ev)) with ek in *. change (e_mark V (ek, em, ev)) with em. change (e_val V (ek, em, ev)) with ev.
    destruct (mkey_eqb ek k) eqn:E.
    + apply eqb_eq in E. subst k. split.
      * intros H. inversion H; subst. left. reflexivity.
      * intros [H|H]. inversion H; subst; reflexivity. exfalso. apply S2 in H. apply (lt_irrefl _ H).
    + rewrite IH by auto. split; auto. intros [H|H]; auto. inversion H; subst.
      rewrite eqb_refl in E. discriminate.
Qed.

Lemma filter_sorted : forall (P : ent V -> bool) (l : list (ent V)), sorted_ents l -> StronglySorted key_lt (map ekey (filter P l)).
Proof.
  induction l as [|e t IH]; simpl; intros S. constructor.
  destruct (sorted_cons_inv V _ _ S) as (S1 & S2). destruct (P e); simpl; auto.
  constructor; auto. rewrite Forall_forall. intros x Hx. apply in_map_iff in Hx. destruct Hx as (b & <- & Hb).
  apply filter_In in Hb. apply S2. tauto.
Qed.

Lemma filter_in_abs : forall (P : ent V -> bool) (l : list (ent V)) k, sorted_ents l ->
  (In k (map ekey (filter P l)) <-> exists r v, abs_ents l k = Some (r, v) /\ P (k, r, v) = true).
Proof.
  intros P l k S. rewrite in_map_iff. split.
  - intros (e & <- & H). apply filter_In in H. destruct H as (H1 & H2). destruct e as [[ek r] v].
    exists r, v. split; auto. apply abs_in; auto.
  - intros (r & v & H1 & H2). exists (k, r, v). split; auto. apply filter_In. split; auto. apply abs_in; auto.
Qed.

Theorem markmap_unused_missing_spec_g : forall (m : markmap V), mm_sorted m ->
    StronglySorted key_lt (mm_unused V m) /\ StronglySorted key_lt (mm_missing V m) /\ StronglySorted key_lt (mm_keys V m)
    /\ (forall k, In k (mm_unused V m) <-> exists r v, abs m k = Some (r, Some v) /\ has_bit r M_USED = false)
    /\ (forall k, In k (mm_missing V m) <-> exists r, abs m k = Some (r, None) /\ has_bit r M_REQUIRED = true)
    /\ (forall k, In k (mm_keys V m) <-> exists r v, abs m k = Some (r, Some v)).
Proof.
  intros [d l] S. unfold mm_sorted in S. simpl in S. unfold mm_unused, mm_missing, mm_keys, abs. simpl.
  repeat split; try (apply filter_sorted; auto); intros H.
  - apply filter_in_abs in H; auto. destruct H as (r & v & H1 & H2). unfold e_val, e_mark in H2. simpl in H2.
    destruct v; simpl in H2; try discriminate. exists r, v. split; auto. destruct (has_bit r M_USED); auto; discriminate.
  - apply filter_in_abs; auto. destruct H as (r & v & H1 & H2). exists r, (Some v). split; auto.
    unfold e_val, e_mark. simpl. rewrite H2. auto.
  - apply filter_in_abs in H; auto. destruct H as (r & v & H1 & H2). unfold e_val, e_mark in H2. simpl in H2.
    destruct v; simpl in H2; try discriminate. exists r. split; auto.
  - apply filter_in_abs; auto. destruct H as (r & H1 & H2). exists r, None. split; auto.
  - apply filter_in_abs in H; auto. destruct H as (r & v & H1 & H2). unfold e_val in H2. simpl in H2.
    destruct v; simpl in H2; try discriminate. eauto.
  - apply filter_in_abs; auto. destruct H as (r & v & H1). exists r, (Some v). split; auto.
Qed.

Theorem markmap_iter_is_prefix_g : forall (m : markmap V),
    exists rest, mm_keys V m = map fst (mm_iter V m) ++ rest
      /\ (rest <> [] -> exists e, In e (mm_contents m) /\ e_val V e = None).
Proof.
  intros [d l]. unfold mm_keys, mm_iter. simpl. induction l as [|e t IH]; simpl.
  - exists []. split; auto. intros H; contradiction.
  - destruct (e_val V e) eqn:E; simpl.
    + destruct IH as (rest & H1 & H2). exists rest. rewrite H1. split; auto.
      intros H. destruct (H2 H) as (x & Hx & Hv). eauto.
    + eexists. split; [reflexivity|]. intros _. exists e. auto.
Qed.
End Lists.

Theorem markmap_iter_complete_refuted : markmap_iter_complete_refuted_stmt.
Proof.
  exists (MkMM MutEx [(ka, M_REQUIRED, None); (kb, 0, Some 1)]).
  split; [apply sorted_dec_ok; reflexivity|]. vm_compute. discriminate.
Qed.

(* ---- operation sequences: the invariant, no panic -------------------------------------- *)
Notation ekeyN := (e_key N).

Lemma sorted_set : forall V l1 (e e' : ent V) l2, sorted_ents (l1 ++ e :: l2) -> e_key V e' = e_key V e -> sorted_ents (l1 ++ e' :: l2).
Proof. unfold sorted_ents. intros. rewrite map_app in *. simpl in *. rewrite H0. auto. Qed.

Definition est_ok (l : list (ent N)) (k : mkey) (st : option entry) : Prop :=
  match st with
  | None => True
  | Some (EOcc p) => exists l1 e l2, l = l1 ++ e :: l2 /\ length l1 = p /\ is_some (e_val N e) = true
  | Some (EVac true p) => exists l1 e l2, l = l1 ++ e :: l2 /\ length l1 = p
  | Some (EVac false p) => exists l1 l2, l = l1 ++ l2 /\ length l1 = p
      /\ (forall a, In a l1 -> key_lt (ekeyN a) k) /\ (forall b, In b l2 -> key_lt k (ekeyN b))
      /\ sorted_ents l1 /\ sorted_ents l2
  end.

Lemma eop_step_ok : forall m k st x, mm_sorted m -> est_ok (mm_contents m) k st ->
  exists o m' st', eop_step m k st x = Done (o, m', st') /\ mm_sorted m' /\ est_ok (mm_contents m') k st'.
Proof.
  intros [d l] k st x S OK. unfold mm_sorted in *. simpl in *.
  destruct st as [[p|[|] p]|]; simpl in OK.
  - destruct OK as (l1 & e & l2 & -> & <- & SV). destruct (e_val N e) as [v0|] eqn:EV; try discriminate.
    destruct x; simpl; unfold occ_get, occ_insert, occ_get_mark, occ_mark, occ_test_bit; simpl;
      rewrite ?nth_checked_app; simpl; rewrite ?vec_set_app; simpl; rewrite ?EV; simpl;
      eexists _, _, _; (split; [reflexivity|]); simpl; (split; [first [exact S | eapply sorted_set; eauto] |]);
      try exact I; try (eexists _, _, _; split; [reflexivity|]; split; [reflexivity|]; simpl; rewrite ?EV; reflexivity).
  - destruct OK as (l1 & e & l2 & -> & <-).
    destruct x; simpl; unfold vac_insert, vac_mark; simpl; rewrite ?vec_set_app; simpl;
      eexists _, _, _; (split; [reflexivity|]); simpl; (split; [first [exact S | eapply sorted_set; eauto] |]);
      try exact I; try (eexists _, _, _; split; [reflexivity|]; split; reflexivity);
      try (eexists _, _, _; split; [reflexivity|]; reflexivity).
  - destruct OK as (l1 & l2 & -> & <- & A & B & S1 & S2).
    destruct x; simpl; unfold vac_insert, vac_mark; simpl; rewrite ?vec_insert_app; simpl;
      eexists _, _, _; (split; [reflexivity|]); simpl;
      (split; [first [exact S | apply sorted_around_intro; auto] |]);
      try exact I; try (eexists _, _, _; split; [reflexivity|]; split; reflexivity);
      try (eexists _, _, _; split; [reflexivity|]; reflexivity);
      try (eexists _, _; repeat split; eauto).
  - destruct x; simpl; eexists _, _, _; (split; [reflexivity|]); simpl; auto.
Qed.

Lemma eops_run_ok : forall xs m k st, mm_sorted m -> est_ok (mm_contents m) k st ->
  exists o m', eops_run m k st xs = Done (o, m') /\ mm_sorted m'.
Proof.
  induction xs as [|x xs IH]; intros m k st S OK; simpl.
  - eexists _, _. split; [reflexivity|]. auto.
  - destruct (eop_step_ok m k st x S OK) as (o & m' & st' & E & S' & OK'). rewrite E. simpl.
    destruct (IH m' k st' S' OK') as (o2 & m2 & E2 & S2). rewrite E2. simpl. eexists _, _. split; [reflexivity|]. auto.
Qed.

Lemma entry_ok : forall m k, mm_sorted m -> exists e, mm_entry N m k = Done e /\ est_ok (mm_contents m) k (Some e).
Proof.
  intros [d l] k S. unfold mm_sorted in S. simpl in S. unfold mm_entry. simpl.
  pose proof (bsearch_around N l k S) as AR. destruct (bsearch N l k) as [b p]. simpl in AR. inversion AR; subst; clear AR.
  - rewrite nth_checked_app. simpl. eexists. split; [reflexivity|]. destruct (is_some (e_val N e)) eqn:E; simpl.
    + eexists _, _, _. repeat split; auto.
    + eexists _, _, _. repeat split; auto.
  - eexists. split; [reflexivity|]. simpl. eexists _, _. repeat split; auto.
Qed.

Lemma new_sorted : forall V, mm_sorted (mm_new V).
Proof. intros. unfold mm_sorted, sorted_ents. simpl. constructor. Qed.

Lemma put_sorted : forall s i m, st_sorted s -> mm_sorted m -> st_sorted (put s i m).
Proof. intros [a b] [|] m [S1 S2] S; unfold st_sorted, put; simpl in *; auto. Qed.
Lemma sel_sorted : forall s i, st_sorted s -> mm_sorted (sel s i).
Proof. intros [a b] [|] [S1 S2]; simpl; auto. Qed.

Theorem markmap_sorted_inv : markmap_sorted_inv_stmt.
Proof.
  intros s o S. pose proof (fun i => sel_sorted s i S) as SS.
  destruct o; simpl.
  - destruct (markmap_insert_spec_g N (sel s i) k v (SS i)) as (old & m' & E & S' & _). rewrite E. simpl.
    eexists _, _. split; [reflexivity|]. apply put_sorted; auto.
  - destruct (markmap_get_spec_g N (sel s i) k (SS i)) as (E & _). rewrite E. simpl. eexists _, _. split; [reflexivity|]. auto.
  - destruct (markmap_get_spec_g N (sel s i) k (SS i)) as (_ & E & _). rewrite E. simpl. eexists _, _. split; [reflexivity|]. auto.
  - destruct (markmap_remove_spec_g N (sel s i) k (SS i)) as (m' & E & S' & _). rewrite E. simpl.
    eexists _, _. split; [reflexivity|]. apply put_sorted; auto.
  - destruct (markmap_mark_spec_g N (sel s i) k (fun r => N.lor r M_USED) (SS i)) as (m' & E & S' & _).
    unfold mm_mark_used. rewrite E. simpl. eexists _, _. split; [reflexivity|]. apply put_sorted; auto.
  - destruct (markmap_mark_spec_g N (sel s i) k (fun r => N.lor r M_REQUIRED) (SS i)) as (m' & E & S' & _).
    unfold mm_mark_required. rewrite E. simpl. eexists _, _. split; [reflexivity|]. apply put_sorted; auto.
  - destruct (markmap_get_spec_g N (sel s i) k (SS i)) as (_ & _ & _ & E & _). rewrite E. simpl. eexists _, _. split; [reflexivity|]. auto.
  - destruct (markmap_get_spec_g N (sel s i) k (SS i)) as (_ & _ & _ & _ & E). rewrite E. simpl. eexists _, _. split; [reflexivity|]. auto.
  - eexists _, _. split; [reflexivity|]. apply put_sorted; auto. apply (SS i).
  - destruct (markmap_mark_spec_g N (sel s i) k (fun r => set_mb_repr r b) (SS i)) as (m' & E & S' & _).
    unfold mm_set_merge_behavior. rewrite E. simpl. eexists _, _. split; [reflexivity|]. apply put_sorted; auto.
  - destruct (entry_ok (sel s i) k (SS i)) as (e & E & OK). rewrite E. simpl.
    destruct (eops_run_ok xs (sel s i) k (Some e) (SS i) OK) as (o & m' & E2 & S2). rewrite E2. simpl.
    eexists _, _. split; [reflexivity|]. apply put_sorted; auto.
  - destruct (markmap_merge_spec_g N (sel s i) (sel s (negb i)) (SS i) (SS (negb i))) as (res & m' & E & S' & _).
    rewrite E. simpl. eexists _, _. split; [reflexivity|]. apply put_sorted; [apply put_sorted|]; auto. apply new_sorted.
  - eexists _, _. split; [reflexivity|]. auto.
  - eexists _, _. split; [reflexivity|]. auto.
  - eexists _, _. split; [reflexivity|]. auto.
  - eexists _, _. split; [reflexivity|]. auto.
Qed.

Lemma reach_sorted : forall os s, st_sorted s -> exists s', reach s os = Done s' /\ st_sorted s'.
Proof.
  induction os as [|o os IH]; intros s S; simpl.
  - eauto.
  - destruct (markmap_sorted_inv s o S) as (r & s' & E & S'). rewrite E. simpl. auto.
Qed.

Lemma init_sorted : st_sorted (mm_new N, mm_new N).
Proof. split; apply new_sorted. Qed.

Theorem markmap_reachable_sorted : markmap_reachable_sorted_stmt.
Proof. intros os. apply reach_sorted. apply init_sorted. Qed.

Theorem markmap_never_panics : markmap_never_panics_stmt.
Proof.
  intros os o. destruct (reach_sorted os _ init_sorted) as (s & E & S).
  destruct (markmap_sorted_inv s o S) as (r & s' & E' & _). eauto.
Qed.

(* ---- the generic theorems as stated ------------------------------------------------------ *)
Theorem bsearch_spec : bsearch_spec_stmt.
Proof.
  intros V l k.
  assert (Hs : sorted_ents l -> (fst (bsearch V l k) = true <-> abs_ents l k <> None)).
  { intros S. pose proof (bsearch_around V l k S) as AR. destruct (bsearch V l k) as [b p]. simpl in *.
    inversion AR as [l1 e l2 EQ KE A B S1 S2 | l1 l2 EQ A B S1 S2]; rewrite EQ.
    - rewrite found_at; auto. split; intros; [discriminate|reflexivity].
    - rewrite around_absent_abs; auto. split; intros; [discriminate|congruence]. }
  destruct (bsearch_split V l k) as (l1 & l2 & H1 & H2 & H3 & H4).
  exists l1, l2. repeat split; auto; apply Hs; auto.
Qed.

Theorem markmap_insert_spec : markmap_insert_spec_stmt. Proof. exact markmap_insert_spec_g. Qed.
Theorem markmap_mark_spec : markmap_mark_spec_stmt. Proof. exact markmap_mark_spec_g. Qed.
Theorem markmap_get_spec : markmap_get_spec_stmt. Proof. exact markmap_get_spec_g. Qed.
Theorem markmap_remove_spec : markmap_remove_spec_stmt. Proof. exact markmap_remove_spec_g. Qed.
Theorem markmap_merge_spec : markmap_merge_spec_stmt. Proof. exact markmap_merge_spec_g. Qed.
Theorem markmap_unused_missing_spec : markmap_unused_missing_spec_stmt. Proof. exact markmap_unused_missing_spec_g. Qed.
Theorem markmap_iter_is_prefix : markmap_iter_is_prefix_stmt. Proof. exact markmap_iter_is_prefix_g. Qed.

(* ---- the hypotheses are satisfiable ------------------------------------------------------- *)
Example ex_sorted_nonempty : mm_sorted wit_o /\ mm_contents wit_o <> [].
Proof. split; [apply sorted_dec_ok; reflexivity | discriminate]. Qed.
Example ex_wf_mark : N.land (N.lor M_USED (M_MB Ours)) MERGE_REPRS = M_MB Ours /\ N.land M_REQUIRED MERGE_REPRS = 0.
Proof. split; reflexivity. Qed.
(* default Ours, per-key Theirs on "b" (the unit test test_default_merge_behavior of markmap.rs) through the runner *)
Example ex_reachable_merge :
  run_case [OSetDefault false Ours; OInsert false ka 1; OInsert false kb 1; OSetMB false kb Theirs;
            OInsert true [120] 2; OInsert true kb 2; OInsert true ka 2; OMerge false; OIter false]
  = [[]; [0]; [0]; []; [0]; [0]; [0]; [0]; [3; 1; 97; 1; 1; 98; 2; 1; 120; 2];
     [2; 3; 1; 97; 0; 1; 1; 1; 98; 260; 1; 2; 1; 120; 0; 1; 2]; [4; 0]].
Proof. vm_compute. reflexivity. Qed.
(* a conflict: both values present, deciding behaviour MutuallyExclusive (the default of new()) *)
Example ex_conflict : merge_point (V := N) MutEx (Some (0, Some 1)) 0 (Some 2) = None.
Proof. reflexivity. Qed.
(* Entry API on an occupied, a marked-only and an absent key *)
Example ex_entry_kinds :
  run_case [OInsert false ka 1; OMarkUsed false kb; OEntry false ka [XGet; XMarkUsed; XInsert 5];
            OEntry false kb [XKey; XSetMB Ours; XInsertEntry 7; XGetMark]; OEntry false [99] [XMarkRequired; XInsert 9]]
  = [[0]; []; [0; 1; 1; 0; 1; 1]; [1; 2; 1; 98; 0; 0; 1; 517]; [2; 0; 0];
     [4; 3; 1; 97; 1; 1; 5; 1; 98; 517; 1; 7; 1; 99; 2; 1; 9]; [4; 0]].
Proof. vm_compute. reflexivity. Qed.
