(* C12 — declarative side of the value conversions (Conv.v) and of the
   renderer's dispatch on the number of spans: statements proved in
   ConvProofs.v, exported in Properties/C12.v.

   The point for the property ("every span ... can always be rendered"): an
   error of SpansKind::Error is documented as "a single span at the site of the
   error", yet YaccKind::try_from puts up to FOUR spans into one InvalidEntry
   error (one per faulty component).  A renderer of what the specification
   parsers return must therefore be total in the number of spans whatever the
   SpansKind. *)
From Coq Require Import List Arith NArith Bool Lia.
From GV Require Import Common.Outcome C12.HeaderModel C12.Spec C12.Conv.
Import ListNotations.

(* ---- the documented forms of a yacckind value ------------------------------ *)

(* the optional namespace, when written, is the expected one *)
Definition ns_ok (expected : list N) (n : namespaced) : Prop :=
  match ns_namespace n with
  | None => True
  | Some (ns, _) => ns = expected
  end.

Definition action_name (a : action_kind) : list N :=
  match a with
  | NoAction => S_noaction
  | UserAction => S_useraction
  | GenericParseTree => S_genericparsetree
  end.

(* [YaccKind::]Grmtools | [YaccKind::]Eco |
   [YaccKind::]Original([YaccOriginalActionKind::]NoAction|UserAction|GenericParseTree)
   (names as lower-cased by the section parser) *)
Inductive yacckind_form : value -> yacc_kind -> Prop :=
| yf_grmtools n : ns_ok S_yacckind n -> fst (ns_member n) = S_grmtools ->
    yacckind_form (SettingV (Unitary n)) YkGrmtools
| yf_eco n : ns_ok S_yacckind n -> fst (ns_member n) = S_eco ->
    yacckind_form (SettingV (Unitary n)) YkEco
| yf_original c a ak : ns_ok S_yacckind c -> fst (ns_member c) = S_original ->
    ns_ok S_yaccoriginalactionkind a -> fst (ns_member a) = action_name ak ->
    yacckind_form (SettingV (Constructor c a)) (YkOriginal ak).

Definition format_name (f : ser_format) : list N :=
  match f with
  | FixedSizeInteger => S_fixedsizeinteger
  | VariableSizedInteger => S_variablesizedinteger
  end.

Inductive serformat_form : value -> ser_format -> Prop :=
| sf_unit n f : ns_ok S_serialisationformat n -> fst (ns_member n) = format_name f ->
    serformat_form (SettingV (Unitary n)) f.

(* ---- the components of a value and which of them are faulty ----------------- *)

(* (span of the component, is it faulty) for `[ns ::] member`: the namespace, when
   written, is faulty iff it is not the expected one; the member iff [member_ok]
   rejects it *)
Definition ns_components (expected : list N) (member_ok : list N -> Prop) (n : namespaced)
  : list (span * Prop) :=
  (match ns_namespace n with
   | Some (ns, l) => [(l, ns <> expected)]
   | None => []
   end) ++ [(snd (ns_member n), ~ member_ok (fst (ns_member n)))].

Definition yk_unit_member (m : list N) : Prop := m = S_grmtools \/ m = S_eco.
Definition yk_ctor_member (m : list N) : Prop := m = S_original.
Definition yk_arg_member (m : list N) : Prop := exists ak, m = action_name ak.
Definition sf_member (m : list N) : Prop := exists f, m = format_name f.

(* the components YaccKind::try_from judges, in the order they are written in
   the text: `ns :: member` resp. `ns :: ctor ( ns :: arg )`.  A value of any
   other shape (flag, number, string, array) is faulty as a whole and located
   at its primary location *)
Definition yk_components (v : value) : list (span * Prop) :=
  match v with
  | SettingV (Unitary n) => ns_components S_yacckind yk_unit_member n
  | SettingV (Constructor c a) =>
      ns_components S_yacckind yk_ctor_member c ++
      ns_components S_yaccoriginalactionkind yk_arg_member a
  | _ => [(primary_location v, True)]
  end.

Definition sf_components (v : value) : list (span * Prop) :=
  match v with
  | SettingV (Unitary n) => ns_components S_serialisationformat sf_member n
  | _ => [(primary_location v, True)]
  end.

(* [locs] are exactly the faulty ones among [comps], in the same order *)
Inductive faulty_of : list (span * Prop) -> list span -> Prop :=
| fo_nil : faulty_of [] []
| fo_bad sp (P : Prop) comps locs : P -> faulty_of comps locs -> faulty_of ((sp, P) :: comps) (sp :: locs)
| fo_good sp (P : Prop) comps locs : ~ P -> faulty_of comps locs -> faulty_of ((sp, P) :: comps) locs.

(* ---- statements -------------------------------------------------------------- *)

Definition str_eqb_stmt : Prop := forall a b, str_eqb a b = true <-> a = b.

(* the conversion succeeds exactly on the documented forms, with that kind *)
Definition yacckind_conv_ok_iff_stmt : Prop :=
  forall v k, yacckind_try_from v = CvOk k <-> yacckind_form v k.

(* total, and an error carries exactly the faulty components, in source order:
   between 1 and 4 spans *)
Definition yacckind_conv_err_spans_stmt : Prop :=
  forall v,
    match yacckind_try_from v with
    | CvOk k => faulty_of (yk_components v) []
    | CvErr locs =>
        faulty_of (yk_components v) locs /\ 1 <= length locs <= 4 /\
        (forall k, ~ yacckind_form v k)
    end.

(* the components judged are the spans the value carries, in the order
   [value_spans] lists them (Spec.v): namespace before member, constructor
   before argument; for the other shapes the primary location is one of the
   value's spans *)
Definition yk_components_cover_stmt : Prop :=
  forall v,
    match v with
    | SettingV (Unitary _) | SettingV (Constructor _ _) => map fst (yk_components v) = value_spans v
    | _ => incl (map fst (yk_components v)) (value_spans v)
    end.

Definition serformat_conv_spec_stmt : Prop :=
  forall v,
    (forall f, serformat_try_from v = CvOk f <-> serformat_form v f) /\
    match serformat_try_from v with
    | CvOk _ => faulty_of (sf_components v) []
    | CvErr locs => faulty_of (sf_components v) locs /\ 1 <= length locs <= 2
    end.

(* on what the section parser returns (any variant, any stack, any fuel): the
   conversion error of ANY entry's value has 1..4 spans (1..2 for
   SerialisationFormat), all of them start <= end <= |src| on character
   boundaries *)
Definition conv_error_spans_wellformed_stmt : Prop :=
  forall fixed depth_fixed ctor_ws stack src required fuel h pos key kl v,
    parse_header_gen fixed depth_fixed ctor_ws required stack fuel src = Done (HOk h pos) ->
    In (key, (kl, v)) h ->
    (forall locs, yacckind_try_from v = CvErr locs ->
       1 <= length locs <= 4 /\ Forall (span_wf src) locs) /\
    (forall locs, serformat_try_from v = CvErr locs ->
       1 <= length locs <= 2 /\ Forall (span_wf src) locs).

(* every count from 1 to 4 occurs, on a text: the entry `yacckind` of the
   parsed section converts to an error with exactly that many spans *)
Definition yacckind_error_of (src : list N) (locs : list span) : Prop :=
  exists h pos kl v,
    parse_header_gen true true true true None (fuel_for src) src = Done (HOk h pos) /\
    hdr_get h S_yacckind = Some (kl, v) /\
    yacckind_try_from v = CvErr locs.

(* %grmtools{yacckind: Foo} *)
Definition W1 : list N :=
  [37; 103; 114; 109; 116; 111; 111; 108; 115; 123; 121; 97; 99; 99; 107; 105; 110; 100; 58; 32; 70; 111; 111; 125]%N.
(* %grmtools{yacckind: Foo::Bar} *)
Definition W2 : list N :=
  [37; 103; 114; 109; 116; 111; 111; 108; 115; 123; 121; 97; 99; 99; 107; 105; 110; 100; 58; 32; 70; 111; 111; 58; 58; 66; 97; 114; 125]%N.
(* %grmtools{yacckind: YaccKind::Orignal(X::Y)} *)
Definition W3 : list N :=
  [37; 103; 114; 109; 116; 111; 111; 108; 115; 123; 121; 97; 99; 99; 107; 105; 110; 100; 58; 32; 89; 97; 99; 99; 75; 105; 110; 100; 58; 58; 79; 114; 105; 103; 110; 97; 108; 40; 88; 58; 58; 89; 41; 125]%N.
(* %grmtools{yacckind: YaccKnd::Orignal(YaccOriginalActionKnd::NoActon)} *)
Definition W4 : list N :=
  [37; 103; 114; 109; 116; 111; 111; 108; 115; 123; 121; 97; 99; 99; 107; 105; 110; 100; 58; 32; 89; 97; 99; 99; 75; 110; 100; 58; 58; 79; 114; 105; 103; 110; 97; 108; 40; 89; 97; 99; 99; 79; 114; 105; 103; 105; 110; 97; 108; 65; 99; 116; 105; 111; 110; 75; 110; 100; 58; 58; 78; 111; 65; 99; 116; 111; 110; 41; 125]%N.
(* %grmtools{yacckind: YaccKind::Original(YaccOriginalActionKind::NoAction)} *)
Definition WOK : list N :=
  [37; 103; 114; 109; 116; 111; 111; 108; 115; 123; 121; 97; 99; 99; 107; 105; 110; 100; 58; 32; 89; 97; 99; 99; 75; 105; 110; 100; 58; 58; 79; 114; 105; 103; 105; 110; 97; 108; 40; 89; 97; 99; 99; 79; 114; 105; 103; 105; 110; 97; 108; 65; 99; 116; 105; 111; 110; 75; 105; 110; 100; 58; 58; 78; 111; 65; 99; 116; 105; 111; 110; 41; 125]%N.

Definition yacckind_span_counts_occur_stmt : Prop :=
  yacckind_error_of W1 [(20, 23)] /\
  yacckind_error_of W2 [(20, 23); (25, 28)] /\
  yacckind_error_of W3 [(30, 37); (38, 39); (41, 42)] /\
  yacckind_error_of W4 [(20, 27); (29, 36); (37, 58); (60, 67)].

(* ---- the renderer ------------------------------------------------------------ *)

(* format_spanned as repaired: total in the number of spans for both kinds — one
   labelled underline per span, the first one always carrying the message *)
Definition span_labels_total_stmt : Prop :=
  forall sk spans, exists ls,
    span_labels true sk spans = Done ls /\ map fst ls = spans /\
    (forall sp l rest, ls = (sp, l) :: rest -> l = LMessage).

(* format_spanned before 87315cb: it panics exactly on a SpansKind::Error
   diagnostic with two or more spans *)
Definition span_labels_orig_panics_iff_stmt : Prop :=
  forall sk spans,
    span_labels false sk spans = Panic <-> (sk = SkError /\ 2 <= length spans).

(* ... which the specification parsers do return: ASTWithValidityInfo::from_str /
   YaccGrammar::from_str on W2..W4 give one InvalidEntry("yacckind") error, of
   SpansKind::Error, with 2, 3, 4 spans — the unrepaired renderer panics on each,
   the repaired one labels every span with the message *)
Definition render_invalid_entry_refuted_stmt : Prop :=
  exists src locs,
    yacckind_error_of src locs /\
    span_labels false INVALID_ENTRY_SPANSKIND locs = Panic /\
    span_labels true INVALID_ENTRY_SPANSKIND locs = Done (map (fun sp => (sp, LMessage)) locs).
