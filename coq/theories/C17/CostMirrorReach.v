(* C17 (cost part) — the reachability loop of rule_max_costs terminates and is exact
   ([preach]); the rules it marks unbounded are exactly those that are, or reach, a rule
   that can be pumped. *)
From Coq Require Import List Arith NArith Bool Lia.
From GV Require Import Common.Outcome Base.Grammar Base.GrammarFacts Base.Analyses
  C17.Model C17.Spec C17.Proofs C17.MirrorModel C17.CostMirror C17.CostMirrorDefs C17.CostMirrorLoop
  C17.CostMirrorTrees.
Import ListNotations.

(* ---- lists indexed by rules ------------------------------------------------------------- *)

Lemma nth_ridxs g r d : (r < nrules g)%N -> nth (N.to_nat r) (ridxs g) d = r.
Proof.
  intros Hr. unfold ridxs.
  rewrite (nth_indep _ d (N.of_nat 0)) by (rewrite map_length, seq_length; lia).
  rewrite map_nth. rewrite seq_nth by lia. simpl. apply N2Nat.id.
Qed.

Lemma nth_map_ridxs {A} (f : N -> A) g r d : (r < nrules g)%N ->
  nth (N.to_nat r) (map f (ridxs g)) d = f r.
Proof.
  intros Hr. rewrite (nth_indep _ d (f 0%N)) by (rewrite map_length, length_ridxs; lia).
  rewrite map_nth. rewrite nth_ridxs by exact Hr. reflexivity.
Qed.

Lemma In_rtp g r p : In p (rule_to_prods g r) <-> is_prod g p /\ lhs g p = r.
Proof. unfold rule_to_prods. rewrite filter_In, In_pidxs, N.eqb_eq. reflexivity. Qed.

(* the canonical shape of the matrices of the loop *)
Definition tab (g : grammar) (f : N -> N -> bool) : bmat :=
  map (fun a => map (fun x => f a x) (ridxs g)) (ridxs g).

Lemma mget_tab g f a x : (a < nrules g)%N -> (x < nrules g)%N -> mget (tab g f) a x = f a x.
Proof.
  intros Ha Hx. unfold mget, tab.
  rewrite (nth_map_ridxs (fun a => map (fun x => f a x) (ridxs g)) g a [] Ha).
  apply (nth_map_ridxs (fun x => f a x) g x false Hx).
Qed.

Lemma tab_ext g f f' : (forall a x, (a < nrules g)%N -> (x < nrules g)%N -> f a x = f' a x) ->
  tab g f = tab g f'.
Proof.
  intros H. unfold tab. apply map_ext_in. intros a Ha. apply map_ext_in. intros x Hx.
  apply H; apply In_ridxs; assumption.
Qed.

(* ---- counting ------------------------------------------------------------------------------ *)

Lemma filter_len_le {A} (f : A -> bool) (l : list A) : (length (filter f l) <= length l)%nat.
Proof. induction l as [|x l IH]; simpl; [lia|]. destruct (f x); simpl; lia. Qed.

Lemma filter_mono_length {A} (f f' : A -> bool) (l : list A) :
  (forall x, In x l -> f x = true -> f' x = true) ->
  (length (filter f l) <= length (filter f' l))%nat /\
  (length (filter f l) = length (filter f' l) -> forall x, In x l -> f x = f' x).
Proof.
  induction l as [|y l IH]; intros H.
  - split; [simpl; lia | intros _ x []].
  - destruct IH as [IH1 IH2]; [intros x Hx; apply H; right; exact Hx|].
    pose proof (filter_len_le f l) as Hle1. pose proof (filter_len_le f' l) as Hle2.
    simpl. destruct (f y) eqn:Ef.
    + rewrite (H y (or_introl eq_refl) Ef). simpl. split; [lia|].
      intros Heq x [Hx | Hx]; [subst x; rewrite Ef; symmetry; apply H; [left; reflexivity | exact Ef]|].
      apply IH2; [lia | exact Hx].
    + destruct (f' y) eqn:Ef'; simpl.
      * split; [lia|]. intros Heq. exfalso. lia.
      * split; [lia|]. intros Heq x [Hx | Hx]; [subst x; congruence | apply IH2; [lia | exact Hx]].
Qed.

Section Reach.
Variables (g : grammar) (c : N -> N) (mins : ocosts).
Hypothesis Hwf : wf_grammar g = true.
Hypothesis Hmins : mins_exact g mins.

Lemma rule_in_range p q : is_prod g p -> In (R q) (rhs g p) -> (q < nrules g)%N.
Proof.
  intros Hp Hq. pose proof (wf_rhs_range g p (R q) Hwf Hp Hq) as H. simpl in H.
  apply N.ltb_lt. exact H.
Qed.

Lemma useful_pprod p : is_prod g p -> (useful mins (rhs g p) = true <-> pprod g p).
Proof.
  intros Hp. unfold useful. rewrite forallb_forall. split.
  - intros H. split; [exact Hp|]. intros q Hq. apply (proj2 Hmins q (rule_in_range p q Hp Hq)).
    exact (H (R q) Hq).
  - intros [_ H] x Hx. destruct x as [a | q]; [reflexivity|].
    apply (proj2 Hmins q (rule_in_range p q Hp Hx)). apply H. exact Hx.
Qed.

Lemma preach_range a b : preach g a b -> (a < nrules g)%N /\ (b < nrules g)%N.
Proof.
  intros H. induction H as [p a b [Hp _] Hl Hin | p a b x [Hp _] Hl Hin Hbx IH].
  - split; [subst a; apply wf_lhs_range; assumption | exact (rule_in_range p b Hp Hin)].
  - split; [subst a; apply wf_lhs_range; assumption | exact (proj2 IH)].
Qed.

(* ---- the round ----------------------------------------------------------------------------- *)

Definition rstep_f (m : bmat) (a x : N) : bool :=
  mget m a x ||
  existsb (fun p => useful mins (rhs g p) &&
                    existsb (fun s => match s with
                                      | R b => N.eqb b x || mget m b x
                                      | T _ => false
                                      end) (rhs g p))
          (rule_to_prods g a).

Lemma reach_step_tab m : reach_step g mins m = tab g (rstep_f m).
Proof. reflexivity. Qed.

Definition m0 : bmat := map (fun _ => map (fun _ => false) (ridxs g)) (ridxs g).

Lemma m0_tab : m0 = tab g (fun _ _ => false).
Proof. reflexivity. Qed.

Definition itm (k : nat) : bmat := iter k (reach_step g mins) m0.

Lemma itm_tab k : exists f, itm k = tab g f.
Proof.
  destruct k as [|k]; [exists (fun _ _ => false); exact m0_tab|].
  unfold itm. rewrite iter_S_out. eexists. apply reach_step_tab.
Qed.

Definition sound (m : bmat) : Prop :=
  forall a b, (a < nrules g)%N -> (b < nrules g)%N -> mget m a b = true -> preach g a b.

Lemma rstep_true m a x : (a < nrules g)%N -> rstep_f m a x = true ->
  mget m a x = true \/
  exists p b, pprod g p /\ lhs g p = a /\ In (R b) (rhs g p) /\ (b = x \/ mget m b x = true).
Proof.
  intros Ha H. unfold rstep_f in H. apply orb_true_iff in H. destruct H as [H | H]; [left; exact H|].
  right. apply existsb_exists in H. destruct H as (p & Hp & H).
  apply In_rtp in Hp. destruct Hp as [Hp Hl].
  apply andb_true_iff in H. destruct H as [Hu H]. apply (useful_pprod p Hp) in Hu.
  apply existsb_exists in H. destruct H as (s & Hs & H). destruct s as [t | b]; [discriminate|].
  exists p, b. split; [exact Hu|]. split; [exact Hl|]. split; [exact Hs|].
  apply orb_true_iff in H. destruct H as [H | H]; [left; apply N.eqb_eq; exact H | right; exact H].
Qed.

Lemma rstep_intro m p a b x : pprod g p -> lhs g p = a -> In (R b) (rhs g p) ->
  (b = x \/ mget m b x = true) -> rstep_f m a x = true.
Proof.
  intros Hpp Hl Hin Hb. unfold rstep_f. apply orb_true_iff. right.
  apply existsb_exists. exists p. split; [apply In_rtp; split; [exact (proj1 Hpp) | exact Hl]|].
  apply andb_true_iff. split; [apply (useful_pprod p (proj1 Hpp)); exact Hpp|].
  apply existsb_exists. exists (R b). split; [exact Hin|].
  apply orb_true_iff. destruct Hb as [Hb | Hb]; [left; apply N.eqb_eq; exact Hb | right; exact Hb].
Qed.

Lemma sound_step m : sound m -> sound (reach_step g mins m).
Proof.
  intros Hs a x Ha Hx H. rewrite reach_step_tab, mget_tab in H by assumption.
  destruct (rstep_true m a x Ha H) as [H1 | (p & b & Hpp & Hl & Hin & Hb)].
  - exact (Hs a x Ha Hx H1).
  - destruct Hb as [Hb | Hb].
    + subst x. exact (pr_direct g p a b Hpp Hl Hin).
    + apply (pr_step g p a b x Hpp Hl Hin). apply Hs; [exact (rule_in_range p b (proj1 Hpp) Hin) | exact Hx | exact Hb].
Qed.

Lemma sound_itm k : sound (itm k).
Proof.
  induction k as [|k IH].
  - intros a b Ha Hb H. unfold itm in H. simpl in H. rewrite m0_tab, mget_tab in H by assumption. discriminate.
  - unfold itm. rewrite iter_S_out. apply sound_step. exact IH.
Qed.

Lemma complete_fixed m : reach_step g mins m = m ->
  forall a b, preach g a b -> mget m a b = true.
Proof.
  intros Hfix a b H. induction H as [p a b Hpp Hl Hin | p a b x Hpp Hl Hin Hbx IH].
  - pose proof (preach_range a b (pr_direct g p a b Hpp Hl Hin)) as [Ha Hb].
    rewrite <- Hfix. rewrite reach_step_tab, mget_tab by assumption.
    apply (rstep_intro m p a b b Hpp Hl Hin). left. reflexivity.
  - pose proof (preach_range a x (pr_step g p a b x Hpp Hl Hin Hbx)) as [Ha Hx].
    rewrite <- Hfix. rewrite reach_step_tab, mget_tab by assumption.
    apply (rstep_intro m p a b x Hpp Hl Hin). right. exact IH.
Qed.

(* ---- termination by counting ------------------------------------------------------------------ *)

Definition cells : list (N * N) := list_prod (ridxs g) (ridxs g).
Definition cnt (m : bmat) : nat := length (filter (fun ab => mget m (fst ab) (snd ab)) cells).

Lemma In_cells ab : In ab cells <-> (fst ab < nrules g)%N /\ (snd ab < nrules g)%N.
Proof.
  destruct ab as [a b]. unfold cells. rewrite in_prod_iff, !In_ridxs. reflexivity.
Qed.

Lemma cnt_bound m : (cnt m <= nr g * nr g)%nat.
Proof.
  unfold cnt. eapply Nat.le_trans; [apply filter_len_le|].
  unfold cells. rewrite prod_length, length_ridxs. unfold nr. lia.
Qed.

Lemma cnt_progress m : (exists f, m = tab g f) -> reach_step g mins m <> m ->
  (cnt m < cnt (reach_step g mins m))%nat.
Proof.
  intros [f Hm] Hne.
  assert (Hmono : forall ab, In ab cells -> mget m (fst ab) (snd ab) = true ->
                             mget (reach_step g mins m) (fst ab) (snd ab) = true).
  { intros ab Hab H. apply In_cells in Hab. destruct Hab as [Ha Hb].
    rewrite reach_step_tab, mget_tab by assumption. unfold rstep_f. rewrite H. reflexivity. }
  destruct (filter_mono_length _ _ cells Hmono) as [Hle Heq].
  unfold cnt. destruct (Nat.eq_dec (length (filter (fun ab => mget m (fst ab) (snd ab)) cells))
                                    (length (filter (fun ab => mget (reach_step g mins m) (fst ab) (snd ab)) cells))) as [He | Hn]; [|lia].
  exfalso. apply Hne. rewrite reach_step_tab. transitivity (tab g f); [|symmetry; exact Hm]. apply tab_ext. intros a x Ha Hx.
  specialize (Heq He (a, x)). simpl in Heq.
  rewrite <- (mget_tab g (rstep_f m) a x Ha Hx), <- reach_step_tab.
  rewrite <- (mget_tab g f a x Ha Hx), <- Hm. symmetry. apply Heq. apply In_cells. split; assumption.
Qed.

Lemma itm_progress k :
  (exists j, (j <= k)%nat /\ reach_step g mins (itm j) = itm j) \/ (k <= cnt (itm k))%nat.
Proof.
  induction k as [|k IH]; [right; lia|].
  destruct IH as [(j & Hj & Hfix) | Hc]; [left; exists j; split; [lia | exact Hfix]|].
  destruct (bmat_eqb (reach_step g mins (itm k)) (itm k)) eqn:E.
  - left. exists k. split; [lia | apply bmat_eqb_eq; exact E].
  - right. assert (Hne : reach_step g mins (itm k) <> itm k).
    { intros He. apply bmat_eqb_eq in He. congruence. }
    pose proof (cnt_progress (itm k) (itm_tab k) Hne) as Hlt.
    assert (Hs : itm (S k) = reach_step g mins (itm k)) by (unfold itm; apply iter_S_out).
    rewrite Hs. lia.
Qed.

Lemma reach_exact :
  exists m, reach_m g mins = Done m /\
    forall a b, (a < nrules g)%N -> (b < nrules g)%N -> (mget m a b = true <-> preach g a b).
Proof.
  destruct (itm_progress (S (nr g * nr g))) as [(j & Hj & Hfix) | Hc].
  - destruct (jloop_reaches bmat_eqb (reach_step g mins)) with (k := j) (fuel := reach_fuel g) (x := m0) as [m Hm].
    + intros a. apply bmat_eqb_eq. reflexivity.
    + unfold reach_fuel. lia.
    + exact Hfix.
    + exists m. split; [exact Hm|].
      destruct (jloop_done bmat_eqb (reach_step g mins)) with (fuel := reach_fuel g) (x := m0) (y := m) as (k & _ & Hk & Hfx).
      * intros a b. apply bmat_eqb_eq.
      * exact Hm.
      * intros a b Ha Hb. split.
        -- intros H. apply (sound_itm k a b Ha Hb). unfold itm. rewrite <- Hk. exact H.
        -- intros H. apply (complete_fixed m Hfx a b H).
  - pose proof (cnt_bound (itm (S (nr g * nr g)))). lia.
Qed.

(* ---- with an exact reachability matrix ------------------------------------------------------------ *)

Variable m : bmat.
Hypothesis Hreach : forall a b, (a < nrules g)%N -> (b < nrules g)%N -> (mget m a b = true <-> preach g a b).

Lemma preach_eq_mget a b : (a < nrules g)%N -> (b < nrules g)%N -> preach_eq g a b ->
  a = b \/ mget m a b = true.
Proof. intros Ha Hb [H | H]; [left; exact H | right; apply Hreach; assumption]. Qed.

(* --- gt0 --- *)

Lemma kids_token_cost t : forall kids l, map (root g) kids = l -> In (T t) l ->
  (c t <= wcost c (flat_map yield kids))%N.
Proof.
  induction kids as [|k kids IH]; intros l Hm Hin; subst l; [destruct Hin|].
  rewrite fcost_cons. destruct Hin as [Hin | Hin].
  - destruct k as [a i | q kk]; simpl in Hin; [|discriminate]. injection Hin as Hin. subst a.
    rewrite cost_leaf. lia.
  - specialize (IH _ eq_refl Hin). lia.
Qed.

Lemma pos_kid kids : (0 < wcost c (flat_map yield kids))%N -> exists k, In k kids /\ (0 < cost c k)%N.
Proof.
  induction kids as [|k kids IH]; intros H; [simpl in H; lia|].
  rewrite fcost_cons in H. destruct (N.eq_dec (cost c k) 0) as [Hz | Hnz].
  - destruct IH as (k' & Hk' & Hp); [lia|]. exists k'. split; [right; exact Hk' | exact Hp].
  - exists k. split; [left; reflexivity | lia].
Qed.

Lemma tok_gt0_true a : tok_gt0 g c mins a = true <->
  exists p t, pprod g p /\ lhs g p = a /\ In (T t) (rhs g p) /\ (0 < c t)%N.
Proof.
  unfold tok_gt0. rewrite existsb_exists. split.
  - intros (p & Hp & H). apply In_rtp in Hp. destruct Hp as [Hp Hl].
    apply andb_true_iff in H. destruct H as [Hu H]. apply (useful_pprod p Hp) in Hu.
    apply existsb_exists in H. destruct H as (s & Hs & H). destruct s as [t | q]; [|discriminate].
    exists p, t. split; [exact Hu|]. split; [exact Hl|]. split; [exact Hs|]. apply N.ltb_lt. exact H.
  - intros (p & t & Hpp & Hl & Hin & Hc). exists p. split; [apply In_rtp; split; [exact (proj1 Hpp) | exact Hl]|].
    apply andb_true_iff. split; [apply (useful_pprod p (proj1 Hpp)); exact Hpp|].
    apply existsb_exists. exists (T t). split; [exact Hin | apply N.ltb_lt; exact Hc].
Qed.

Lemma tok_gt0_pos a : tok_gt0 g c mins a = true -> pos_rule g c a.
Proof.
  intros H. apply tok_gt0_true in H. destruct H as (p & t & Hpp & Hl & Hin & Hc).
  destruct (proj1 (pprod_kids g p) Hpp) as (Hp & kids & Hv & Hm).
  exists (Node p kids). split; [split; [constructor; assumption | simpl; rewrite Hl; reflexivity]|].
  rewrite cost_node. pose proof (kids_token_cost t kids _ Hm Hin). lia.
Qed.

Lemma pos_up a b : preach g a b -> pos_rule g c b -> pos_rule g c a.
Proof.
  intros Hab (tb & Htb & Hc). destruct (preach_wrap g a b Hab tb Htb) as (t & path & Ht & _ & Hs).
  exists t. split; [exact Ht|]. pose proof (subtree_cost_le c path t tb Hs). lia.
Qed.

Lemma gt0_sound a : (a < nrules g)%N -> gt0 g c mins m (R a) = true -> pos_rule g c a.
Proof.
  intros Ha H. simpl in H. apply orb_true_iff in H. destruct H as [H | H]; [apply tok_gt0_pos; exact H|].
  apply existsb_exists in H. destruct H as (b & Hb & H). apply In_ridxs in Hb.
  apply andb_true_iff in H. destruct H as [H1 H2].
  apply (pos_up a b); [apply Hreach; assumption | apply tok_gt0_pos; exact H2].
Qed.

Lemma gt0_complete t : valid_tree g t -> forall a, root g t = R a -> (0 < cost c t)%N ->
  gt0 g c mins m (R a) = true.
Proof.
  induction t as [x i | p kids IH] using tree_ind'; intros Hv a Hr Hc; [discriminate Hr|].
  simpl in Hr. injection Hr as Hr.
  pose proof (valid_node_pprod g p kids Hv) as Hpp.
  pose proof (valid_node_inv g p kids Hv) as (Hp & Hf & Hm).
  assert (Ha : (a < nrules g)%N) by (subst a; apply wf_lhs_range; assumption).
  rewrite cost_node in Hc. destruct (pos_kid kids Hc) as (k & Hk & Hck).
  assert (Hrk : In (root g k) (rhs g p)) by (rewrite <- Hm; apply in_map; exact Hk).
  simpl. apply orb_true_iff. destruct k as [t j | q kk].
  - left. apply tok_gt0_true. exists p, t. rewrite cost_leaf in Hck. simpl in Hrk.
    split; [exact Hpp|]. split; [exact Hr|]. split; [exact Hrk | exact Hck].
  - rewrite Forall_forall in IH, Hf. simpl in Hrk.
    pose proof (IH _ Hk (Hf _ Hk) (lhs g q) eq_refl Hck) as Hq. simpl in Hq.
    assert (Hq' : (lhs g q < nrules g)%N) by exact (rule_in_range p _ Hp Hrk).
    assert (Haq : preach g a (lhs g q)) by exact (pr_direct g p a _ Hpp Hr Hrk).
    right. apply existsb_exists. apply orb_true_iff in Hq. destruct Hq as [Hq | Hq].
    + exists (lhs g q). split; [apply In_ridxs; exact Hq'|]. apply andb_true_iff. split; [apply Hreach; assumption | exact Hq].
    + apply existsb_exists in Hq. destruct Hq as (b & Hb & Hq). apply andb_true_iff in Hq. destruct Hq as [Hq1 Hq2].
      exists b. split; [exact Hb|]. apply In_ridxs in Hb. apply andb_true_iff. split; [|exact Hq2].
      apply Hreach; [exact Ha | exact Hb|]. apply (preach_trans g a (lhs g q) b Haq). apply Hreach; assumption.
Qed.

(* --- picks --- *)

Lemma In_picks {A} (x : A) o l : In (x, o) (picks l) <-> exists l1 l2, l = l1 ++ x :: l2 /\ o = l1 ++ l2.
Proof.
  revert o. induction l as [|y l IH]; intros o; simpl.
  - split; [intros [] | intros (l1 & l2 & H & _); destruct l1; discriminate].
  - split.
    + intros [H | H].
      * injection H as H1 H2. exists [], l. split; [rewrite H1; reflexivity | symmetry; exact H2].
      * apply in_map_iff in H. destruct H as ([x' o'] & He & Hin). simpl in He. injection He as He1 He2.
        rewrite He1 in Hin. apply IH in Hin. destruct Hin as (l1 & l2 & Hl & Ho).
        exists (y :: l1), l2. split; [rewrite Hl; reflexivity | rewrite <- He2, Ho; reflexivity].
    + intros (l1 & l2 & Hl & Ho). destruct l1 as [|z l1]; simpl in Hl; injection Hl as Hz Hl.
      * left. rewrite Hz, Hl, Ho. reflexivity.
      * right. apply in_map_iff. exists (x, l1 ++ l2). split; [simpl; rewrite Hz, Ho; reflexivity|].
        apply IH. exists l1, l2. split; [exact Hl | reflexivity].
Qed.

(* --- pumpable is sound --- *)

Lemma pos_kids l : (forall q, In (R q) l -> productive_rule g q /\ (q < nrules g)%N) ->
  existsb (gt0 g c mins m) l = true ->
  exists kids, Forall (valid_tree g) kids /\ map (root g) kids = l /\ (0 < wcost c (flat_map yield kids))%N.
Proof.
  induction l as [|x l IH]; intros Hq H; [discriminate|].
  simpl in H. destruct (gt0 g c mins m x) eqn:Ex.
  - destruct (build_kids g l) as (ks & Hv & Hm); [intros q Hin; apply Hq; right; exact Hin|].
    destruct x as [t | q].
    + exists (Leaf t 0 :: ks). split; [constructor; [constructor | exact Hv]|]. split; [simpl; rewrite Hm; reflexivity|].
      rewrite fcost_cons, cost_leaf. simpl in Ex. apply N.ltb_lt in Ex. lia.
    + destruct (gt0_sound q (proj2 (Hq q (or_introl eq_refl))) Ex) as (t & [Hvt Hrt] & Hc).
      exists (t :: ks). split; [constructor; assumption|]. split; [simpl; rewrite Hrt, Hm; reflexivity|].
      rewrite fcost_cons. lia.
  - simpl in H. destruct (IH (fun q Hin => Hq q (or_intror Hin)) H) as (ks & Hv & Hm & Hc).
    destruct (build_kids g [x]) as (k1 & Hv1 & Hm1).
    { intros q [Hin | []]. subst x. apply Hq. left. reflexivity. }
    exists (k1 ++ ks). split; [apply Forall_app; split; assumption|]. split; [rewrite map_app, Hm1, Hm; reflexivity|].
    rewrite fcost_app. lia.
Qed.

Lemma pos_kids2 l1 l2 : (forall q, In (R q) (l1 ++ l2) -> productive_rule g q /\ (q < nrules g)%N) ->
  existsb (gt0 g c mins m) (l1 ++ l2) = true ->
  exists k1 k2, Forall (valid_tree g) k1 /\ Forall (valid_tree g) k2 /\
                map (root g) k1 = l1 /\ map (root g) k2 = l2 /\
                (0 < wcost c (flat_map yield k1) + wcost c (flat_map yield k2))%N.
Proof.
  intros Hq H. rewrite existsb_app in H. apply orb_true_iff in H.
  assert (Hq1 : forall q, In (R q) l1 -> productive_rule g q /\ (q < nrules g)%N)
    by (intros q Hin; apply Hq; apply in_or_app; left; exact Hin).
  assert (Hq2 : forall q, In (R q) l2 -> productive_rule g q /\ (q < nrules g)%N)
    by (intros q Hin; apply Hq; apply in_or_app; right; exact Hin).
  destruct H as [H | H].
  - destruct (pos_kids l1 Hq1 H) as (k1 & Hv1 & Hm1 & Hc).
    destruct (build_kids g l2 (fun q Hin => proj1 (Hq2 q Hin))) as (k2 & Hv2 & Hm2).
    exists k1, k2. repeat split; try assumption. lia.
  - destruct (pos_kids l2 Hq2 H) as (k2 & Hv2 & Hm2 & Hc).
    destruct (build_kids g l1 (fun q Hin => proj1 (Hq1 q Hin))) as (k1 & Hv1 & Hm1).
    exists k1, k2. repeat split; try assumption. lia.
Qed.

Lemma pumpable_true a : pumpable g c mins m a = true <->
  exists p b l1 l2, pprod g p /\ lhs g p = a /\ rhs g p = l1 ++ R b :: l2 /\
                    (b = a \/ mget m b a = true) /\ existsb (gt0 g c mins m) (l1 ++ l2) = true.
Proof.
  unfold pumpable. rewrite existsb_exists. split.
  - intros (p & Hp & H). apply In_rtp in Hp. destruct Hp as [Hp Hl].
    apply andb_true_iff in H. destruct H as [Hu H]. apply (useful_pprod p Hp) in Hu.
    apply existsb_exists in H. destruct H as ([x o] & Hin & H). simpl in H.
    destruct x as [t | b]; [discriminate|]. apply andb_true_iff in H. destruct H as [H1 H2].
    apply In_picks in Hin. destruct Hin as (l1 & l2 & Hr & Ho). subst o.
    exists p, b, l1, l2. split; [exact Hu|]. split; [exact Hl|]. split; [exact Hr|]. split; [|exact H2].
    apply orb_true_iff in H1. destruct H1 as [H1 | H1]; [left; apply N.eqb_eq; exact H1 | right; exact H1].
  - intros (p & b & l1 & l2 & Hpp & Hl & Hr & Hb & Hg). exists p.
    split; [apply In_rtp; split; [exact (proj1 Hpp) | exact Hl]|].
    apply andb_true_iff. split; [apply (useful_pprod p (proj1 Hpp)); exact Hpp|].
    apply existsb_exists. exists (R b, l1 ++ l2). split; [apply In_picks; exists l1, l2; split; [exact Hr | reflexivity]|].
    simpl. apply andb_true_iff. split; [|exact Hg].
    apply orb_true_iff. destruct Hb as [Hb | Hb]; [left; apply N.eqb_eq; exact Hb | right; exact Hb].
Qed.

Lemma pumpable_sound a : pumpable g c mins m a = true -> pump g c a.
Proof.
  intros H. apply pumpable_true in H. destruct H as (p & b & l1 & l2 & Hpp & Hl & Hr & Hb & Hg).
  pose proof Hpp as [Hp Hq].
  assert (Ha : (a < nrules g)%N) by (subst a; apply wf_lhs_range; assumption).
  assert (Hbin : In (R b) (rhs g p)) by (rewrite Hr; apply in_or_app; right; left; reflexivity).
  assert (Hbr : (b < nrules g)%N) by exact (rule_in_range p b Hp Hbin).
  destruct (pos_kids2 l1 l2) as (k1 & k2 & Hv1 & Hv2 & Hm1 & Hm2 & Hc); [|exact Hg|].
  { intros q Hin. assert (Hin' : In (R q) (rhs g p)).
    { rewrite Hr. apply in_app_or in Hin. apply in_or_app. destruct Hin as [Hin | Hin]; [left; exact Hin | right; right; exact Hin]. }
    split; [apply Hq; exact Hin' | exact (rule_in_range p q Hp Hin')]. }
  (* some tree of a *)
  destruct (proj1 (pprod_kids g p) Hpp) as (_ & kids0 & Hv0 & Hm0).
  set (t2 := Node p kids0).
  assert (Ht2 : tree_of g a t2) by (split; [constructor; assumption | simpl; rewrite Hl; reflexivity]).
  (* a tree of b around it *)
  assert (Hmid : exists mid path, tree_of g b mid /\ subtree mid path = Some t2).
  { destruct Hb as [Hb | Hb].
    - subst b. exists t2, []. split; [exact Ht2 | reflexivity].
    - apply Hreach in Hb; [|exact Hbr | exact Ha].
      destruct (preach_wrap g b a Hb t2 Ht2) as (mid & path & Hmid & _ & Hs). exists mid, path. split; assumption. }
  destruct Hmid as (mid & path & [Hvm Hrm] & Hs).
  exists (Node p (k1 ++ mid :: k2)), (length k1 :: path), t2. split; [split|].
  - constructor; [exact Hp | apply Forall_app; split; [exact Hv1 | constructor; assumption]|].
    rewrite map_app. simpl. rewrite Hm1, Hm2, Hrm. symmetry. exact Hr.
  - simpl. rewrite Hl. reflexivity.
  - split; [rewrite subtree_mid; exact Hs|]. split; [exact (proj2 Ht2)|].
    rewrite cost_node, fcost_app, fcost_cons. pose proof (subtree_cost_le c path mid t2 Hs). lia.
Qed.

(* --- the flags --- *)

Definition ub : list bool := unbounded_m g c mins m.

Lemma length_ub : length ub = nr g.
Proof. unfold ub, unbounded_m. rewrite map_length, length_ridxs. reflexivity. Qed.

Lemma dget_ub r : (r < nrules g)%N ->
  dget ub r = pumpable g c mins m r || existsb (fun b => mget m r b && pumpable g c mins m b) (ridxs g).
Proof.
  intros Hr. unfold dget, ub, unbounded_m.
  exact (nth_map_ridxs (fun a => pumpable g c mins m a || existsb (fun b => mget m a b && pumpable g c mins m b) (ridxs g)) g r false Hr).
Qed.

Lemma pumpable_range x : pumpable g c mins m x = true -> (x < nrules g)%N.
Proof.
  intros H. apply pumpable_true in H. destruct H as (p & _ & _ & _ & [Hp _] & Hl & _).
  subst x. apply wf_lhs_range; assumption.
Qed.

Lemma ub_true r : (r < nrules g)%N ->
  (dget ub r = true <-> exists x, preach_eq g r x /\ pumpable g c mins m x = true).
Proof.
  intros Hr. rewrite (dget_ub r Hr), orb_true_iff, existsb_exists. split.
  - intros [H | (b & Hb & H)].
    + exists r. split; [left; reflexivity | exact H].
    + apply In_ridxs in Hb. apply andb_true_iff in H. destruct H as [H1 H2].
      exists b. split; [right; apply Hreach; assumption | exact H2].
  - intros (x & [He | Hp] & Hx).
    + subst x. left. exact Hx.
    + right. exists x. pose proof (pumpable_range x Hx) as Hxr. split; [apply In_ridxs; exact Hxr|].
      apply andb_true_iff. split; [apply Hreach; assumption | exact Hx].
Qed.

Lemma ub_sound r : (r < nrules g)%N -> dget ub r = true -> unbounded_trees g c r.
Proof.
  intros Hr H. apply (ub_true r Hr) in H. destruct H as (x & Hrx & Hx).
  pose proof (pump_unbounded g c x (pumpable_sound x Hx)) as Hux.
  destruct Hrx as [He | Hp]; [subst x; exact Hux|].
  intros n. destruct (Hux n) as (tx & Htx & Hn).
  destruct (preach_wrap g r x Hp tx Htx) as (t & path & Ht & _ & Hs).
  exists t. split; [exact Ht|]. pose proof (subtree_cost_le c path t tx Hs). lia.
Qed.

Lemma ub_closed : skip_closed g ub.
Proof.
  intros p q Hpp Hl Hin.
  assert (Hlr : (lhs g p < nrules g)%N) by (apply wf_lhs_range; [exact Hwf | exact (proj1 Hpp)]).
  assert (Hqr : (q < nrules g)%N) by exact (rule_in_range p q (proj1 Hpp) Hin).
  destruct (dget ub q) eqn:E; [|reflexivity]. exfalso.
  apply (ub_true q Hqr) in E. destruct E as (x & Hqx & Hx).
  assert (H : dget ub (lhs g p) = true).
  { apply (ub_true _ Hlr). exists x. split; [|exact Hx]. right.
    exact (preach_eq_l g (lhs g p) q x (pr_direct g p _ q Hpp eq_refl Hin) Hqx). }
  congruence.
Qed.

Lemma ub_complete r : (r < nrules g)%N -> dget ub r = false ->
  forall b, preach_eq g r b -> ~ pump g c b.
Proof.
  intros Hr Hub b Hrb (t1 & p2 & t2 & [Hv1 Hr1] & Hs & Hr2 & Hlt).
  destruct (gain_on_path g c t1 p2 t2 Hv1 Hs Hlt) as (pa & q & kl & ky & kr & pb & Hsa & Hsb & Hpos).
  pose proof (subtree_valid g pa t1 _ Hv1 Hsa) as HvX.
  pose proof (valid_node_pprod g q _ HvX) as Hqq.
  pose proof (valid_node_inv g q _ HvX) as (Hq & Hf & Hm).
  set (x := lhs g q).
  assert (Hxr : (x < nrules g)%N) by (apply wf_lhs_range; assumption).
  destruct (path_preach g t1 pa _ b x Hv1 Hsa Hr1 eq_refl) as [Hbx _].
  (* the child that contains t2 *)
  apply Forall_app in Hf. destruct Hf as [Hfl Hf]. inversion Hf as [|? ? Hvy Hfr]; subst.
  assert (Hy : exists y, root g ky = R y).
  { destruct ky as [a i | qq kk]; [|eexists; reflexivity].
    destruct (subtree_leaf a i pb t2 Hsb) as [_ Ht2]. subst t2. discriminate Hr2. }
  destruct Hy as [y Hy].
  destruct (path_preach g ky pb t2 y b Hvy Hsb Hy Hr2) as [Hyb _].
  assert (Hyx : preach_eq g y x) by exact (preach_eq_trans g y b x Hyb Hbx).
  assert (Hrhs : rhs g q = map (root g) kl ++ R y :: map (root g) kr).
  { rewrite <- Hm, map_app. simpl. rewrite Hy. reflexivity. }
  assert (Hyin : In (R y) (rhs g q)) by (rewrite Hrhs; apply in_or_app; right; left; reflexivity).
  assert (Hyr : (y < nrules g)%N) by exact (rule_in_range q y Hq Hyin).
  assert (Hpx : pumpable g c mins m x = true).
  { apply pumpable_true. exists q, y, (map (root g) kl), (map (root g) kr).
    split; [exact Hqq|]. split; [reflexivity|]. split; [exact Hrhs|].
    split; [exact (preach_eq_mget y x Hyr Hxr Hyx)|].
    rewrite <- map_app. destruct (pos_kid _ Hpos) as (k & Hk & Hck).
    apply existsb_exists. exists (root g k). split; [apply in_map; exact Hk|].
    assert (Hvk : valid_tree g k).
    { apply in_app_or in Hk. rewrite Forall_forall in Hfl, Hfr. destruct Hk as [Hk | Hk]; [apply Hfl | apply Hfr]; exact Hk. }
    destruct k as [t j | qq kk].
    - simpl. rewrite cost_leaf in Hck. apply N.ltb_lt. exact Hck.
    - exact (gt0_complete _ Hvk _ eq_refl Hck). }
  assert (H : dget ub r = true).
  { apply (ub_true r Hr). exists x. split; [exact (preach_eq_trans g r b x Hrb Hbx) | exact Hpx]. }
  congruence.
Qed.

Lemma ub_final : unbounded_final g c ub.
Proof.
  split; [exact length_ub|]. split; [exact ub_closed|]. split; [exact ub_sound | exact ub_complete].
Qed.

End Reach.

Lemma reach_unbounded : reach_unbounded_stmt.
Proof.
  intros g c mins Hwf Hmins.
  destruct (reach_exact g mins Hwf Hmins) as (m & Hm & Hex).
  exists m. split; [exact Hm|]. exact (ub_final g c mins Hwf Hmins m Hex).
Qed.
