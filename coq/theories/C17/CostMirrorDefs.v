(* C17 (cost part) — declarative notions used in the proofs about the cost mirrors
   (CostMirror.v) and the statements of the intermediate results, which are proved in
   CostMirrorTrees.v (parse-tree surgery), CostMirrorStep.v (the round of rule_costs),
   CostMirrorReach.v (reachability / unboundedness) and put together in CostMirrorProofs.v. *)
From Coq Require Import List Arith NArith Bool Lia.
From GV Require Import Common.Outcome Base.Grammar Base.Analyses C17.Model C17.Spec C17.MirrorModel C17.CostMirror.
Import ListNotations.

(* number of Nodes on the longest root-to-leaf path *)
Fixpoint height (t : tree) : nat :=
  match t with
  | Leaf _ _ => 0
  | Node _ kids => S (fold_right (fun k n => Nat.max (height k) n) 0 kids)
  end.

(* a production that occurs in some parse tree: all its rules derive a token string *)
Definition pprod (g : grammar) (p : N) : Prop :=
  is_prod g p /\ forall q, In (R q) (rhs g p) -> productive_rule g q.

(* b occurs in a string derived from a in >= 1 steps using such productions only *)
Inductive preach (g : grammar) : N -> N -> Prop :=
| pr_direct p a b : pprod g p -> lhs g p = a -> In (R b) (rhs g p) -> preach g a b
| pr_step p a b x : pprod g p -> lhs g p = a -> In (R b) (rhs g p) -> preach g b x -> preach g a x.

Definition preach_eq (g : grammar) (a b : N) : Prop := a = b \/ preach g a b.

(* a derives a token string of positive cost *)
Definition pos_rule (g : grammar) (c : N -> N) (a : N) : Prop :=
  exists t, tree_of g a t /\ (0 < cost c t)%N.

(* b =>+ u b v with cost(u v) > 0, as a parse tree *)
Definition pump (g : grammar) (c : N -> N) (b : N) : Prop :=
  exists t1 p2 t2, tree_of g b t1 /\ subtree t1 p2 = Some t2 /\ root g t2 = R b /\ (cost c t2 < cost c t1)%N.

Definition unbounded_trees (g : grammar) (c : N -> N) (r : N) : Prop :=
  forall n : N, exists t, tree_of g r t /\ (n <= cost c t)%N.

(* ---- parse-tree surgery (CostMirrorTrees.v) ----------------------------------------- *)

(* a tree higher than the number of rules repeats a rule on some path *)
Definition tall_repeats_stmt : Prop :=
  forall g t, wf_grammar g = true -> valid_tree g t -> (nr g < height t)%nat ->
    exists p1 p2 t1 t2 b, p2 <> [] /\ subtree t p1 = Some t1 /\ subtree t1 p2 = Some t2 /\
                          root g t1 = R b /\ root g t2 = R b.

Definition path_preach_stmt : Prop :=
  forall g t path u a b, valid_tree g t -> subtree t path = Some u -> root g t = R a -> root g u = R b ->
    preach_eq g a b /\ (path <> [] -> preach g a b).

Definition shrink_le_stmt : Prop :=
  forall g c r t, wf_grammar g = true -> tree_of g r t ->
    exists t', tree_of g r t' /\ (height t' <= nr g)%nat /\ (cost c t' <= cost c t)%N.

Definition shrink_eq_stmt : Prop :=
  forall g c r t, wf_grammar g = true -> tree_of g r t ->
    (forall b, preach_eq g r b -> ~ pump g c b) ->
    exists t', tree_of g r t' /\ (height t' <= nr g)%nat /\ cost c t' = cost c t.

Definition pump_unbounded_stmt : Prop :=
  forall g c b, pump g c b -> unbounded_trees g c b.

Definition preach_wrap_stmt : Prop :=
  forall g a b, preach g a b -> forall tb, tree_of g b tb ->
    exists t path, tree_of g a t /\ path <> [] /\ subtree t path = Some tb.

(* the productions of parse trees are exactly the [pprod]s *)
Definition pprod_kids_stmt : Prop :=
  forall g p, pprod g p <->
    (is_prod g p /\ exists kids, Forall (valid_tree g) kids /\ map (root g) kids = rhs g p).

(* where a subtree is strictly cheaper than the tree, some node on the way down has other
   children of positive cost *)
Definition gain_on_path_stmt : Prop :=
  forall g c t1 p2 t2, valid_tree g t1 -> subtree t1 p2 = Some t2 -> (cost c t2 < cost c t1)%N ->
    exists pa q kl ky kr pb,
      subtree t1 pa = Some (Node q (kl ++ ky :: kr)) /\
      subtree ky pb = Some t2 /\
      (0 < wcost c (flat_map yield (kl ++ kr)))%N.

(* ---- the round of rule_costs (CostMirrorStep.v) ---------------------------------------- *)

Definition cap_ok (cap : N -> N) : Prop :=
  (forall x, cap x <= x)%N /\ (forall x y, x <= y -> cap x <= cap y)%N /\
  (forall a b, cap (cap a + b) = cap (a + b))%N.

(* x is at least as good as y *)
Definition leb' (maxp : bool) (x y : N) : Prop := if maxp then (y <= x)%N else (x <= y)%N.

Definition skip_closed (g : grammar) (skip : list bool) : Prop :=
  forall p q, pprod g p -> dget skip (lhs g p) = false -> In (R q) (rhs g p) -> dget skip q = false.

Definition skip_shrinks (g : grammar) (c : N -> N) (maxp : bool) (skip : list bool) : Prop :=
  forall r t, (r < nrules g)%N -> dget skip r = false -> tree_of g r t ->
    exists t', tree_of g r t' /\ (height t' <= nr g)%nat /\ leb' maxp (cost c t') (cost c t).

Definition costs_final (cap : N -> N) (maxp : bool) (skip : list bool) (g : grammar) (c : N -> N) (vs : ocosts) : Prop :=
  length vs = nr g /\
  forall r, (r < nrules g)%N ->
    match oget vs r with
    | Some x => dget skip r = false /\
                (exists t, tree_of g r t /\ cap (cost c t) = x) /\
                (forall t, tree_of g r t -> leb' maxp x (cap (cost c t)))
    | None => dget skip r = true \/ forall t, ~ tree_of g r t
    end.

Definition rule_costs_final_stmt : Prop :=
  forall cap maxp skip g c, wf_grammar g = true -> cap_ok cap ->
    skip_closed g skip -> skip_shrinks g c maxp skip ->
    exists vs, rule_costs_m cap maxp skip g c = Done vs /\ costs_final cap maxp skip g c vs.

(* ---- reachability and unboundedness (CostMirrorReach.v) ----------------------------------- *)

Definition mins_exact (g : grammar) (mins : ocosts) : Prop :=
  length mins = nr g /\
  forall r, (r < nrules g)%N -> (is_some (oget mins r) = true <-> productive_rule g r).

Definition unbounded_final (g : grammar) (c : N -> N) (ub : list bool) : Prop :=
  length ub = nr g /\ skip_closed g ub /\
  (forall r, (r < nrules g)%N -> dget ub r = true -> unbounded_trees g c r) /\
  (forall r, (r < nrules g)%N -> dget ub r = false -> forall b, preach_eq g r b -> ~ pump g c b).

Definition reach_unbounded_stmt : Prop :=
  forall g c mins, wf_grammar g = true -> mins_exact g mins ->
    exists m, reach_m g mins = Done m /\ unbounded_final g c (unbounded_m g c mins m).
