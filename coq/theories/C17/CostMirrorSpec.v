(* C17 (cost part) — statements about the mirrors of the REPAIRED rule_min_costs /
   rule_max_costs (CostMirror.v), against the declarative notions of Spec.v (the ones behind
   certified_costs_exact): for EVERY well-formed grammar and EVERY token-cost function. *)
From Coq Require Import List Arith NArith Bool.
From GV Require Import Common.Outcome Base.Grammar Base.Analyses C17.Model C17.Spec C17.CostMirror.
Import ListNotations.

(* 1. rule_min_costs: the loop returns within nrules + 2 rounds; it panics exactly when some
      rule's true minimum does not fit (is u16::MAX or more); otherwise every rule that derives a
      token string gets its true minimum cost (< u16::MAX) and every other rule gets u16::MAX *)
Definition min_costs_fixed_exact_stmt : Prop :=
  forall g c, wf_grammar g = true ->
    match rule_min_costs_fx g c with
    | OutOfFuel => False
    | Panic => exists r v, (r < nrules g)%N /\ is_min_cost g c r v /\ (U16MAX <= v)%N
    | Done l => length l = nr g /\
                forall r, (r < nrules g)%N ->
                  (cget l r = U16MAX /\ ~ productive_rule g r) \/
                  ((cget l r < U16MAX)%N /\ is_min_cost g c r (cget l r))
    end.

(* 2. rule_max_costs: all its loops return within their fuel; it panics exactly when some rule's
      true FINITE maximum does not fit; otherwise a rule gets u16::MAX exactly when the costs of its
      sentences are unbounded, its true maximum (< u16::MAX) when they are bounded, and 0 when it
      derives no token string *)
Definition max_costs_fixed_exact_stmt : Prop :=
  forall g c, wf_grammar g = true ->
    match rule_max_costs_fx g c with
    | OutOfFuel => False
    | Panic => exists r v, (r < nrules g)%N /\ is_max_cost g c r v /\ (U16MAX <= v)%N
    | Done l => length l = nr g /\
                forall r, (r < nrules g)%N ->
                  (cget l r = 0%N /\ ~ productive_rule g r) \/
                  (cget l r = U16MAX /\ unbounded_cost g c r) \/
                  ((cget l r < U16MAX)%N /\ is_max_cost g c r (cget l r))
    end.

(* 3. termination on its own *)
Definition fixed_costs_terminate_stmt : Prop :=
  forall g c, wf_grammar g = true ->
    rule_min_costs_fx g c <> OutOfFuel /\ rule_max_costs_fx g c <> OutOfFuel.

(* 4. the overflow panics happen exactly when a true finite cost exceeds the u16 range *)
Definition min_costs_fixed_panic_iff_stmt : Prop :=
  forall g c, wf_grammar g = true ->
    (rule_min_costs_fx g c = Panic <->
     exists r v, (r < nrules g)%N /\ is_min_cost g c r v /\ (U16MAX <= v)%N).

Definition max_costs_fixed_panic_iff_stmt : Prop :=
  forall g c, wf_grammar g = true ->
    (rule_max_costs_fx g c = Panic <->
     exists r v, (r < nrules g)%N /\ is_max_cost g c r v /\ (U16MAX <= v)%N).

(* 5. where the certified reference (certified_costs, Model.v) answers and the mirrors return
      values, they say the same *)
Definition ans_as_u16 (a : cost_ans) : N * N :=
  match a with
  | CUnprod => (U16MAX, 0%N)
  | CCost mn mx => (mn, match mx with Some v => v | None => U16MAX end)
  end.

Definition fixed_costs_agree_certified_stmt : Prop :=
  forall g c l mn mx, wf_grammar g = true -> certified_costs g c = Some l ->
    rule_min_costs_fx g c = Done mn -> rule_max_costs_fx g c = Done mx ->
    forall r a, (r < nrules g)%N -> In (r, a) l -> (cget mn r, cget mx r) = ans_as_u16 a.
