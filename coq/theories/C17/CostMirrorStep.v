(* C17 (cost part) — the round of rule_costs ([cost_step], CostMirror.v): the loop
   [rule_costs_m] returns within its fuel and what it returns is, per rule that is not
   skipped, the capped best (least / greatest) cost of a parse tree of the rule
   ([rule_costs_final]).

   v_k := iter k cost_step v_0 (v_0 = all None).
     (I1) a value in v_k is the capped cost of a tree of height <= k of a rule that is not skipped;
     (I2) a rule that is not skipped and has a tree of height <= k has a value in v_k that is
          at least as good as the tree's capped cost;
     (T)  with [skip_shrinks] (trees higher than nr g never improve) v_{n+1} = v_n for n = nr g. *)
From Coq Require Import List Arith NArith Bool Lia.
From GV Require Import Common.Outcome Base.Grammar Base.GrammarFacts Base.Analyses C17.Model C17.Spec C17.Proofs C17.MirrorModel C17.MirrorProofs C17.CostMirror C17.CostMirrorDefs C17.CostMirrorLoop.
Import ListNotations.

(* ---- lists of optional costs --------------------------------------------------------- *)

Lemma oget_overflow (l : ocosts) r : (length l <= N.to_nat r)%nat -> oget l r = None.
Proof. intros H. unfold oget. apply nth_overflow. exact H. Qed.

Lemma oget_ext (a b : ocosts) : length a = length b -> (forall r, oget a r = oget b r) -> a = b.
Proof.
  intros Hl H. apply (nth_ext a b None None Hl). intros i _.
  specialize (H (N.of_nat i)). unfold oget in H. rewrite Nat2N.id in H. exact H.
Qed.

Lemma oget_map_ridxs g (f : N -> option N) r : (r < nrules g)%N -> oget (map f (ridxs g)) r = f r.
Proof.
  intros Hr. unfold oget.
  rewrite (nth_indep (map f (ridxs g)) None (f 0%N)) by (rewrite map_length, length_ridxs; lia).
  rewrite map_nth. f_equal. unfold ridxs.
  change 0%N with (N.of_nat 0). rewrite map_nth. rewrite seq_nth by lia.
  rewrite Nat.add_0_l. apply N2Nat.id.
Qed.

Lemma oget_none_map {A} (l : list A) r : oget (map (fun _ => None) l) r = None.
Proof.
  unfold oget. generalize (N.to_nat r). induction l as [|x l IH]; intros [|i]; simpl; try reflexivity.
  apply IH.
Qed.

Lemma height_kids_le kids k :
  (fold_right (fun t n => Nat.max (height t) n) 0 kids <= k)%nat <-> Forall (fun t => (height t <= k)%nat) kids.
Proof.
  induction kids as [|t kids IH]; simpl; split; intros H.
  - constructor.
  - lia.
  - constructor; [lia | apply IH; lia].
  - inversion H as [|? ? H1 H2]; subst. apply IH in H2. lia.
Qed.

Section Round.
Variables (cap : N -> N) (maxp : bool) (skip : list bool) (g : grammar) (c : N -> N).
Hypothesis Hwf : wf_grammar g = true.
Hypothesis Hcap : cap_ok cap.
Hypothesis Hclosed : skip_closed g skip.
Hypothesis Hshrinks : skip_shrinks g c maxp skip.

Local Notation step := (cost_step cap maxp skip g c).
Local Notation v0 := (map (fun _ : N => @None N) (ridxs g)).

(* ---- the cap --------------------------------------------------------------------------- *)

Lemma cap_le x : (cap x <= x)%N.
Proof. exact (proj1 Hcap x). Qed.

Lemma cap_mono x y : (x <= y)%N -> (cap x <= cap y)%N.
Proof. exact (proj1 (proj2 Hcap) x y). Qed.

Lemma cap_add_l a b : cap (cap a + b) = cap (a + b).
Proof. exact (proj2 (proj2 Hcap) a b). Qed.

Lemma cap_add_r a b : cap (a + cap b) = cap (a + b).
Proof. rewrite N.add_comm, cap_add_l, N.add_comm. reflexivity. Qed.

Lemma cap_idem a : cap (cap a) = cap a.
Proof. pose proof (cap_add_l a 0) as H. rewrite !N.add_0_r in H. exact H. Qed.

Lemma cap_0 : cap 0 = 0%N.
Proof. pose proof (cap_le 0). lia. Qed.

Lemma cap_add_both a b : cap (a + b) = cap (cap a + cap b).
Proof. rewrite cap_add_l, cap_add_r. reflexivity. Qed.

(* ---- "at least as good as" ---------------------------------------------------------------- *)

Lemma leb'_refl x : leb' maxp x x.
Proof. unfold leb'. destruct maxp; lia. Qed.

Lemma leb'_trans x y z : leb' maxp x y -> leb' maxp y z -> leb' maxp x z.
Proof. unfold leb'. destruct maxp; lia. Qed.

Lemma leb'_antisym x y : leb' maxp x y -> leb' maxp y x -> x = y.
Proof. unfold leb'. destruct maxp; lia. Qed.

Lemma leb'_cap x y : leb' maxp x y -> leb' maxp (cap x) (cap y).
Proof. unfold leb'. destruct maxp; apply cap_mono. Qed.

Lemma leb'_sum x x' y y' :
  leb' maxp (cap x) (cap x') -> leb' maxp (cap y) (cap y') -> leb' maxp (cap (x + y)) (cap (x' + y')).
Proof.
  intros H1 H2. rewrite (cap_add_both x y), (cap_add_both x' y'). apply leb'_cap.
  unfold leb' in *. destruct maxp; lia.
Qed.

(* ---- (A) the cost of a production ----------------------------------------------------------- *)

Lemma prod_cost_none cs l : prod_cost cap c cs l None = None.
Proof. induction l as [|x l IH]; simpl; [reflexivity | exact IH]. Qed.

Lemma prod_cost_some cs l : forall acc, cap acc = acc ->
  prod_cost cap c cs l (Some acc) = option_map (fun s => cap (acc + s)%N) (seq_val c (oget cs) l).
Proof.
  induction l as [|x l IH]; intros acc Hacc; cbn [prod_cost seq_val].
  - cbn [option_map]. rewrite N.add_0_r, Hacc. reflexivity.
  - destruct x as [a|r].
    + rewrite IH by apply cap_idem.
      destruct (seq_val c (oget cs) l) as [y|]; cbn [option_map]; [|reflexivity].
      rewrite cap_add_l, N.add_assoc. reflexivity.
    + destruct (oget cs r) as [x|].
      * rewrite IH by apply cap_idem.
        destruct (seq_val c (oget cs) l) as [y|]; cbn [option_map]; [|reflexivity].
        rewrite cap_add_l, N.add_assoc. reflexivity.
      * rewrite prod_cost_none. reflexivity.
Qed.

(* the candidate value of a production under the table cs *)
Definition cand (cs : ocosts) (p : N) : option N := option_map cap (seq_val c (oget cs) (rhs g p)).

Lemma prod_cost_cand cs p : prod_cost cap c cs (rhs g p) (Some 0%N) = cand cs p.
Proof.
  rewrite prod_cost_some by exact cap_0. unfold cand.
  destruct (seq_val c (oget cs) (rhs g p)) as [s|]; cbn [option_map]; [|reflexivity].
  rewrite N.add_0_l. reflexivity.
Qed.

(* ---- (B) the choice among the productions ---------------------------------------------------- *)

Definition pickf (cd : N -> option N) (best : option N) (p : N) : option N :=
  match cd p with
  | Some v => if better maxp v best then Some v else best
  | None => best
  end.

Lemma rule_cost_eq cs r :
  rule_cost cap maxp g c cs r = fold_left (pickf (cand cs)) (rule_to_prods g r) None.
Proof.
  unfold rule_cost. generalize (@None N).
  induction (rule_to_prods g r) as [|p l IH]; intros b; cbn [fold_left]; [reflexivity|].
  rewrite IH. f_equal. unfold pickf. rewrite prod_cost_cand. reflexivity.
Qed.

Lemma pickf_in cd best p x : pickf cd best p = Some x -> best = Some x \/ cd p = Some x.
Proof.
  unfold pickf. destruct (cd p) as [v|]; [|intros H; left; exact H].
  destruct (better maxp v best); intros H; [right | left]; exact H.
Qed.

Lemma fold_pick_in cd l : forall best x, fold_left (pickf cd) l best = Some x ->
  best = Some x \/ exists p, In p l /\ cd p = Some x.
Proof.
  induction l as [|p l IH]; intros best x H; cbn [fold_left] in H.
  - left. exact H.
  - destruct (IH _ _ H) as [Hb | (q & Hq & Hc)].
    + apply pickf_in in Hb. destruct Hb as [Hb | Hb]; [left; exact Hb|].
      right. exists p. split; [left; reflexivity | exact Hb].
    + right. exists q. split; [right; exact Hq | exact Hc].
Qed.

Lemma pickf_best cd best p y : best = Some y \/ cd p = Some y ->
  exists y', pickf cd best p = Some y' /\ leb' maxp y' y.
Proof.
  intros H. unfold pickf. destruct (cd p) as [v|].
  - destruct best as [b|]; cbn [better].
    + assert (Hy : y = b \/ y = v).
      { destruct H as [H|H]; injection H as H; [left | right]; symmetry; exact H. }
      unfold leb'. destruct maxp.
      * destruct (b <? v)%N eqn:E; [apply N.ltb_lt in E | apply N.ltb_ge in E]; eexists; (split; [reflexivity|]); lia.
      * destruct (v <? b)%N eqn:E; [apply N.ltb_lt in E | apply N.ltb_ge in E]; eexists; (split; [reflexivity|]); lia.
    + destruct H as [H|H]; [discriminate|]. injection H as H. subst v.
      exists y. split; [reflexivity | apply leb'_refl].
  - destruct H as [H|H]; [|discriminate]. exists y. split; [exact H | apply leb'_refl].
Qed.

Lemma fold_pick_best cd l : forall best y,
  (best = Some y \/ exists p, In p l /\ cd p = Some y) ->
  exists x, fold_left (pickf cd) l best = Some x /\ leb' maxp x y.
Proof.
  induction l as [|p l IH]; intros best y H; cbn [fold_left].
  - destruct H as [H | (q & [] & _)]. exists y. split; [exact H | apply leb'_refl].
  - assert (Hcase : (best = Some y \/ cd p = Some y) \/ exists q, In q l /\ cd q = Some y).
    { destruct H as [H | (q & [Hq|Hq] & Hc)].
      - left. left. exact H.
      - subst q. left. right. exact Hc.
      - right. exists q. split; assumption. }
    destruct Hcase as [Hh | Ht].
    + destruct (pickf_best cd best p y Hh) as (y' & Hy' & Hle).
      destruct (IH (pickf cd best p) y' (or_introl Hy')) as (x & Hx & Hxle).
      exists x. split; [exact Hx | eapply leb'_trans; eassumption].
    + apply IH. right. exact Ht.
Qed.

(* ---- (C) one round ------------------------------------------------------------------------------ *)

Lemma cost_step_length cs : length (step cs) = nr g.
Proof. unfold cost_step, nr. rewrite map_length. apply length_ridxs. Qed.

Lemma cost_step_oget cs r : (r < nrules g)%N ->
  oget (step cs) r = if dget skip r then None else rule_cost cap maxp g c cs r.
Proof.
  intros Hr. unfold cost_step.
  exact (oget_map_ridxs g (fun r => if dget skip r then None else rule_cost cap maxp g c cs r) r Hr).
Qed.

Definition vk (k : nat) : ocosts := iter k step v0.

Lemma vk_S k : vk (S k) = step (vk k).
Proof. unfold vk. apply iter_S_out. Qed.

Lemma vk_length k : length (vk k) = nr g.
Proof.
  destruct k as [|k].
  - unfold vk, nr. cbn [iter]. rewrite map_length. apply length_ridxs.
  - rewrite vk_S. apply cost_step_length.
Qed.

Lemma vk_oget_range k r x : oget (vk k) r = Some x -> (r < nrules g)%N.
Proof.
  intros H. destruct (N.lt_ge_cases r (nrules g)) as [Hr|Hr]; [exact Hr|].
  rewrite oget_overflow in H; [discriminate|]. rewrite vk_length. unfold nr. lia.
Qed.

(* ---- (I1) values are attained by low trees --------------------------------------------------------- *)

Lemma build_kids k cs l :
  (forall q x, oget cs q = Some x ->
     exists t, tree_of g q t /\ (height t <= k)%nat /\ cap (cost c t) = x) ->
  forall s, seq_val c (oget cs) l = Some s ->
    exists kids, Forall (valid_tree g) kids /\ map (root g) kids = l /\
                 Forall (fun t => (height t <= k)%nat) kids /\
                 cap (wcost c (flat_map yield kids)) = cap s.
Proof.
  intros HI. induction l as [|x l IH]; intros s Hs.
  - exists []. cbn [seq_val] in Hs. injection Hs as Hs. subst s.
    split; [constructor|]. split; [reflexivity|]. split; [constructor | reflexivity].
  - destruct x as [a|q]; cbn [seq_val] in Hs.
    + destruct (seq_val c (oget cs) l) as [y|] eqn:Hy; [|discriminate]. injection Hs as Hs. subst s.
      destruct (IH y eq_refl) as (kids & Hv & Hm & Hh & Hc).
      exists (Leaf a 0 :: kids).
      split; [constructor; [constructor | exact Hv]|].
      split; [cbn [map root]; rewrite Hm; reflexivity|].
      split; [constructor; [cbn [height]; lia | exact Hh]|].
      rewrite fcost_cons, cost_leaf.
      rewrite <- (cap_add_r (c a) (wcost c (flat_map yield kids))), Hc, cap_add_r. reflexivity.
    + destruct (oget cs q) as [x|] eqn:Hx; [|discriminate].
      destruct (seq_val c (oget cs) l) as [y|] eqn:Hy; [|discriminate]. injection Hs as Hs. subst s.
      destruct (HI q x Hx) as (t & Ht & Hht & Hct).
      destruct (IH y eq_refl) as (kids & Hv & Hm & Hh & Hc).
      exists (t :: kids).
      split; [constructor; [exact (proj1 Ht) | exact Hv]|].
      split; [cbn [map]; rewrite (proj2 Ht), Hm; reflexivity|].
      split; [constructor; [exact Hht | exact Hh]|].
      rewrite fcost_cons.
      rewrite <- (cap_add_l (cost c t) (wcost c (flat_map yield kids))), Hct.
      rewrite <- (cap_add_r x (wcost c (flat_map yield kids))), Hc, cap_add_r. reflexivity.
Qed.

Lemma I1 : forall k r x, oget (vk k) r = Some x ->
  (r < nrules g)%N /\ dget skip r = false /\
  exists t, tree_of g r t /\ (height t <= k)%nat /\ cap (cost c t) = x.
Proof.
  induction k as [|k IH]; intros r x H.
  - unfold vk in H. cbn [iter] in H. rewrite oget_none_map in H. discriminate.
  - pose proof (vk_oget_range _ _ _ H) as Hr. split; [exact Hr|].
    rewrite vk_S, cost_step_oget in H by exact Hr.
    destruct (dget skip r) eqn:Hs; [discriminate|]. split; [reflexivity|].
    rewrite rule_cost_eq in H. apply fold_pick_in in H.
    destruct H as [H | (p & Hp & Hc)]; [discriminate|].
    apply In_rule_to_prods in Hp. destruct Hp as [Hp Hl].
    unfold cand in Hc.
    destruct (seq_val c (oget (vk k)) (rhs g p)) as [s|] eqn:Hsv; [|discriminate].
    cbn [option_map] in Hc. injection Hc as Hc.
    destruct (build_kids k (vk k) (rhs g p)) with (s := s) as (kids & Hv & Hm & Hh & Hcost).
    + intros q y Hq. destruct (IH q y Hq) as (_ & _ & Ht). exact Ht.
    + exact Hsv.
    + exists (Node p kids). split; [split|split].
      * constructor; assumption.
      * cbn [root]. rewrite Hl. reflexivity.
      * cbn [height]. apply le_n_S. apply height_kids_le. exact Hh.
      * rewrite cost_node, Hcost. exact Hc.
Qed.

(* ---- (I2) low trees are accounted for ---------------------------------------------------------------- *)

Lemma kids_vals k cs kids :
  (forall q t, (q < nrules g)%N -> dget skip q = false -> tree_of g q t -> (height t <= k)%nat ->
     exists x, oget cs q = Some x /\ leb' maxp x (cap (cost c t))) ->
  Forall (valid_tree g) kids -> Forall (fun t => (height t <= k)%nat) kids ->
  (forall q, In (R q) (map (root g) kids) -> (q < nrules g)%N /\ dget skip q = false) ->
  exists s, seq_val c (oget cs) (map (root g) kids) = Some s /\
            leb' maxp (cap s) (cap (wcost c (flat_map yield kids))).
Proof.
  intros HI Hv. induction Hv as [|kid kids Hk Hks IH]; intros Hh Hq.
  - exists 0%N. split; [reflexivity | apply leb'_refl].
  - inversion Hh as [|? ? Hh1 Hh2]; subst.
    destruct IH as (s' & Hs' & Hle'); [exact Hh2 | intros q Hin; apply Hq; right; exact Hin |].
    rewrite fcost_cons. destruct kid as [a i | p kk].
    + exists (c a + s')%N. cbn [map root seq_val]. rewrite Hs'. split; [reflexivity|].
      rewrite cost_leaf. apply leb'_sum; [apply leb'_refl | exact Hle'].
    + destruct (Hq (lhs g p)) as [Hr Hsk]; [left; reflexivity|].
      destruct (HI (lhs g p) (Node p kk) Hr Hsk) as (x & Hx & Hxle); [split; [exact Hk | reflexivity] | exact Hh1 |].
      exists (x + s')%N. cbn [map root seq_val]. rewrite Hx, Hs'. split; [reflexivity|].
      apply leb'_sum; [|exact Hle']. apply leb'_cap in Hxle. rewrite cap_idem in Hxle. exact Hxle.
Qed.

Lemma I2 : forall k r t, (r < nrules g)%N -> dget skip r = false -> tree_of g r t -> (height t <= k)%nat ->
  exists x, oget (vk k) r = Some x /\ leb' maxp x (cap (cost c t)).
Proof.
  induction k as [|k IH]; intros r t Hr Hs Ht Hh.
  - destruct (tree_of_node g r t Ht) as (p & kids & Heq & _). subst t. cbn [height] in Hh. lia.
  - destruct (tree_of_node g r t Ht) as (p & kids & Heq & Hp & Hl & Hv & Hm). subst t.
    cbn [height] in Hh. apply le_S_n in Hh. apply height_kids_le in Hh.
    assert (Hpp : pprod g p).
    { split; [exact Hp|]. intros q Hq. rewrite <- Hm in Hq. apply in_map_iff in Hq.
      destruct Hq as (kid & Hroot & Hin). rewrite Forall_forall in Hv.
      exists (yield kid). apply (tree_sentence g q kid). split; [apply Hv; exact Hin | exact Hroot]. }
    destruct (kids_vals k (vk k) kids) as (s & Hsv & Hle).
    + intros q t' Hq Hsq Ht' Hh'. apply IH; assumption.
    + exact Hv.
    + exact Hh.
    + intros q Hq. split.
      * rewrite Hm in Hq. pose proof (wf_rhs_range g p (R q) Hwf Hp Hq) as H.
        cbn [sym_in_range] in H. apply N.ltb_lt. exact H.
      * apply (Hclosed p q Hpp); [rewrite Hl; exact Hs | rewrite <- Hm; exact Hq].
    + rewrite Hm in Hsv.
      rewrite vk_S, cost_step_oget by exact Hr. rewrite Hs, rule_cost_eq.
      destruct (fold_pick_best (cand (vk k)) (rule_to_prods g r) None (cap s)) as (x & Hx & Hxle).
      * right. exists p. split; [apply In_rule_to_prods; split; assumption|].
        unfold cand. rewrite Hsv. reflexivity.
      * exists x. split; [exact Hx|]. rewrite cost_node. eapply leb'_trans; eassumption.
Qed.

(* ---- (T) the table is stable after nr g rounds ----------------------------------------------------------- *)

Lemma vk_stable : vk (S (nr g)) = vk (nr g).
Proof.
  apply oget_ext; [rewrite !vk_length; reflexivity|]. intros r.
  destruct (N.lt_ge_cases r (nrules g)) as [Hr|Hr].
  2: { rewrite !oget_overflow; [reflexivity | |]; rewrite vk_length; unfold nr; lia. }
  assert (C1 : forall x', oget (vk (S (nr g))) r = Some x' ->
                 exists x, oget (vk (nr g)) r = Some x /\ leb' maxp x x').
  { intros x' H. destruct (I1 _ _ _ H) as (_ & Hs & t' & Ht' & _ & Hc').
    destruct (Hshrinks r t' Hr Hs Ht') as (t'' & Ht'' & Hh'' & Hle).
    destruct (I2 (nr g) r t'' Hr Hs Ht'' Hh'') as (x & Hx & Hxle).
    exists x. split; [exact Hx|]. subst x'.
    eapply leb'_trans; [exact Hxle | apply leb'_cap; exact Hle]. }
  assert (C2 : forall x, oget (vk (nr g)) r = Some x ->
                 exists x', oget (vk (S (nr g))) r = Some x' /\ leb' maxp x' x).
  { intros x H. destruct (I1 _ _ _ H) as (_ & Hs & t & Ht & Hh & Hc).
    destruct (I2 (S (nr g)) r t Hr Hs Ht) as (x' & Hx' & Hle); [lia|].
    exists x'. split; [exact Hx'|]. subst x. exact Hle. }
  destruct (oget (vk (S (nr g))) r) as [x'|]; destruct (oget (vk (nr g)) r) as [x|].
  - destruct (C1 x' eq_refl) as (y & Hy & Hle1). injection Hy as Hy. subst y.
    destruct (C2 x eq_refl) as (y' & Hy' & Hle2). injection Hy' as Hy'. subst y'.
    f_equal. apply leb'_antisym; assumption.
  - destruct (C1 x' eq_refl) as (y & Hy & _). discriminate.
  - destruct (C2 x eq_refl) as (y' & Hy' & _). discriminate.
  - reflexivity.
Qed.

(* ---- (F) the loop -------------------------------------------------------------------------------------------- *)

Lemma rule_costs_final_sec :
  exists vs, rule_costs_m cap maxp skip g c = Done vs /\ costs_final cap maxp skip g c vs.
Proof.
  unfold rule_costs_m.
  destruct (jloop_reaches ocosts_eqb step (fun a => proj2 (ocosts_eqb_eq a a) eq_refl)
              (nr g) (costs_fuel g) v0) as (vs & Hvs).
  - unfold costs_fuel. lia.
  - pose proof vk_stable as H. rewrite vk_S in H. exact H.
  - exists vs. split; [exact Hvs|].
    destruct (jloop_done ocosts_eqb step (fun a b => proj1 (ocosts_eqb_eq a b)) _ _ _ Hvs)
      as (k & _ & Hk & Hfix).
    assert (Hall : forall j, vs = vk (k + j)).
    { intros j. unfold vk. rewrite iter_add, <- Hk. symmetry. apply iter_fixed. exact Hfix. }
    assert (Hk' : vs = vk k) by exact Hk.
    split; [rewrite Hk'; apply vk_length|].
    intros r Hr. destruct (oget vs r) as [x|] eqn:E.
    + pose proof E as E'. rewrite Hk' in E'.
      destruct (I1 k r x E') as (_ & Hs & t & Ht & _ & Hc).
      split; [exact Hs|]. split; [exists t; split; assumption|].
      intros t' Ht'. destruct (I2 (k + height t') r t' Hr Hs Ht') as (x' & Hx' & Hle); [lia|].
      rewrite <- Hall, E in Hx'. injection Hx' as Hx'. subst x'. exact Hle.
    + destruct (dget skip r) eqn:Hs; [left; reflexivity | right].
      intros t Ht. destruct (I2 (k + height t) r t Hr Hs Ht) as (x' & Hx' & _); [lia|].
      rewrite <- Hall, E in Hx'. discriminate.
Qed.

End Round.

Lemma rule_costs_final : rule_costs_final_stmt.
Proof.
  intros cap maxp skip g c Hwf Hcap Hcl Hsh. apply rule_costs_final_sec; assumption.
Qed.
