(* C17 (cost part) — generic facts about the loop shape
     loop { let new = step(cur); if new == cur { return cur }; cur = new }   ([jloop]). *)
From Coq Require Import List Arith NArith Bool Lia.
From GV Require Import Common.Outcome Base.Analyses C17.Model C17.CostMirror.
Import ListNotations.

Lemma iter_S_out {A} (f : A -> A) n : forall x, iter (S n) f x = f (iter n f x).
Proof.
  induction n as [|n IH]; intros x; [reflexivity|].
  change (iter (S (S n)) f x) with (iter (S n) f (f x)). rewrite IH. reflexivity.
Qed.

Lemma iter_fixed {A} (f : A -> A) x : f x = x -> forall n, iter n f x = x.
Proof. intros H n. induction n as [|n IH]; simpl; [reflexivity|]. rewrite H. exact IH. Qed.

Lemma iter_add {A} (f : A -> A) n m x : iter (n + m) f x = iter m f (iter n f x).
Proof. revert x. induction n as [|n IH]; intros x; simpl; [reflexivity|]. apply IH. Qed.

(* what the loop returns is an iterate of the round and a fixed point of it *)
Lemma jloop_done {T} (eqb : T -> T -> bool) (step : T -> T) :
  (forall a b, eqb a b = true -> a = b) ->
  forall fuel x y, jloop eqb step fuel x = Done y ->
    exists k, (k < fuel)%nat /\ y = iter k step x /\ step y = y.
Proof.
  intros Heq fuel. induction fuel as [|f IH]; intros x y H; simpl in H; [discriminate|].
  destruct (eqb (step x) x) eqn:E.
  - injection H as H. subst y. exists 0%nat. split; [lia|]. split; [reflexivity|]. apply Heq. exact E.
  - destruct (IH _ _ H) as (k & Hk & Hy & Hfix). exists (S k). split; [lia|]. split; [exact Hy | exact Hfix].
Qed.

(* if the k-th iterate is a fixed point and there is fuel for k+1 rounds, the loop returns *)
Lemma jloop_reaches {T} (eqb : T -> T -> bool) (step : T -> T) :
  (forall a, eqb a a = true) ->
  forall k fuel x, (k < fuel)%nat -> step (iter k step x) = iter k step x ->
    exists y, jloop eqb step fuel x = Done y.
Proof.
  intros Hrefl k. induction k as [|k IH]; intros fuel x Hk Hfix.
  - destruct fuel as [|f]; [lia|]. simpl in *. rewrite Hfix, Hrefl. eexists. reflexivity.
  - destruct fuel as [|f]; [lia|]. simpl. destruct (eqb (step x) x); [eexists; reflexivity|].
    apply (IH f (step x)); [lia|]. exact Hfix.
Qed.

Lemma jloop_never_panics {T} (eqb : T -> T -> bool) (step : T -> T) fuel : forall x,
  jloop eqb step fuel x <> Panic.
Proof.
  induction fuel as [|f IH]; intros x; simpl; [discriminate|].
  destruct (eqb (step x) x); [discriminate | apply IH].
Qed.

(* the equality tests decide equality *)
Lemma oN_eqb_eq a b : oN_eqb a b = true <-> a = b.
Proof.
  destruct a as [x|], b as [y|]; simpl; split; intros H; try discriminate; try reflexivity.
  - apply N.eqb_eq in H. subst. reflexivity.
  - injection H as H. subst. apply N.eqb_refl.
Qed.

Lemma ocosts_eqb_eq a : forall b, ocosts_eqb a b = true <-> a = b.
Proof.
  induction a as [|x a IH]; intros [|y b]; simpl; split; intros H; try discriminate; try reflexivity.
  - apply andb_true_iff in H. destruct H as [H1 H2]. apply oN_eqb_eq in H1. apply IH in H2. subst. reflexivity.
  - injection H as H1 H2. subst. apply andb_true_iff. split; [apply oN_eqb_eq; reflexivity | apply IH; reflexivity].
Qed.

Lemma blist_eqb_iff a : forall b, blist_eqb a b = true <-> a = b.
Proof.
  induction a as [|x a IH]; intros [|y b]; simpl; split; intros H; try discriminate; try reflexivity.
  - apply andb_true_iff in H. destruct H as [H1 H2]. apply Bool.eqb_prop in H1. apply IH in H2. subst. reflexivity.
  - injection H as H1 H2. subst. apply andb_true_iff. split; [apply Bool.eqb_reflx | apply IH; reflexivity].
Qed.

Lemma bmat_eqb_eq a : forall b, bmat_eqb a b = true <-> a = b.
Proof.
  induction a as [|x a IH]; intros [|y b]; simpl; split; intros H; try discriminate; try reflexivity.
  - apply andb_true_iff in H. destruct H as [H1 H2]. apply blist_eqb_iff in H1. apply IH in H2. subst. reflexivity.
  - injection H as H1 H2. subst. apply andb_true_iff. split; [apply blist_eqb_iff; reflexivity | apply IH; reflexivity].
Qed.
