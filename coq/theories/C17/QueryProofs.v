(* C17 (cost queries) — proofs of QuerySpec.v: (1) from the exactness theorems of the cost
   tables (CostMirrorProofs.v); (2) the depth of min_sentences_below. *)
From Coq Require Import List Arith NArith Bool Lia.
From GV Require Import Common.Outcome Base.Grammar Base.GrammarFacts Base.Analyses
  C17.Model C17.Spec C17.Proofs C17.MirrorModel C17.CostMirror C17.CostMirrorLoop C17.CostMirrorStep
  C17.CostMirrorSpec C17.CostMirrorProofs C17.QueryModel C17.QuerySpec.
Import ListNotations.

(* ---- (1) --------------------------------------------------------------------------------- *)

Lemma cost_query_exact_or_foreign_overflow : cost_query_exact_or_foreign_overflow_stmt.
Proof.
  intros g c r Hwf Hr. split.
  - pose proof (min_costs_fixed_exact g c Hwf) as H. unfold min_sentence_cost_m.
    destruct (rule_min_costs_fx g c) as [l| |]; cbn [obind].
    + destruct H as [_ H]. destruct (H r Hr) as [[He Hn] | [Hlt Hm]]; [left | right]; split; assumption.
    + destruct H as (r' & v & Hr' & Hv & Hge). exists r'. split; [exact Hr'|]. exists v. split; assumption.
    + exact H.
  - pose proof (max_costs_fixed_exact g c Hwf) as H. unfold max_sentence_cost_m.
    destruct (rule_max_costs_fx g c) as [l| |]; cbn [obind].
    + destruct H as [_ H]. destruct (H r Hr) as [[He Hn] | [[He Hu] | [Hlt Hm]]].
      * rewrite He. change (0 =? U16MAX)%N with false. left. split; [reflexivity | exact Hn].
      * rewrite He, N.eqb_refl. exact Hu.
      * destruct (cget l r =? U16MAX)%N eqn:E; [apply N.eqb_eq in E; lia|]. right. split; assumption.
    + destruct H as (r' & v & Hr' & Hv & Hge). exists r'. split; [exact Hr'|]. exists v. split; assumption.
    + exact H.
Qed.

Lemma min_query_panic g c r : min_sentence_cost_m g c r = Panic <-> rule_min_costs_fx g c = Panic.
Proof. unfold min_sentence_cost_m. destruct (rule_min_costs_fx g c); cbn [obind]; split; intros H; congruence. Qed.

Lemma max_query_panic g c r : max_sentence_cost_m g c r = Panic <-> rule_max_costs_fx g c = Panic.
Proof. unfold max_sentence_cost_m. destruct (rule_max_costs_fx g c); cbn [obind]; split; intros H; congruence. Qed.

Lemma cost_query_panics_only_if_own_or_foreign : cost_query_panics_only_if_own_or_foreign_stmt.
Proof.
  intros g c r Hwf Hr. split.
  - rewrite min_query_panic, (min_costs_fixed_panic_iff g c Hwf). split.
    + intros (r' & v & Hr' & Hv & Hge). destruct (N.eq_dec r' r) as [E|E].
      * subst r'. left. exists v. split; assumption.
      * right. exists r'. split; [exact E|]. split; [exact Hr'|]. exists v. split; assumption.
    + intros [(v & Hv & Hge) | (r' & _ & Hr' & v & Hv & Hge)]; [exists r, v | exists r', v]; (split; [assumption|]); split; assumption.
  - rewrite max_query_panic, (max_costs_fixed_panic_iff g c Hwf). split.
    + intros (r' & v & Hr' & Hv & Hge). destruct (N.eq_dec r' r) as [E|E].
      * subst r'. left. exists v. split; assumption.
      * right. exists r'. split; [exact E|]. split; [exact Hr'|]. exists v. split; assumption.
    + intros [(v & Hv & Hge) | (r' & _ & Hr' & v & Hv & Hge)]; [exists r, v | exists r', v]; (split; [assumption|]); split; assumption.
Qed.

(* the witness: S: 'a'; Big: 'b' x 258, every token 255: S costs 255 / 255, Big 65790 *)
Lemma cost_panic_unrelated_rule_refuted : cost_panic_unrelated_rule_refuted_stmt.
Proof.
  exists g_unrelated, c_255, 1%N, 255%N, 255%N.
  assert (Hc : exists l, certified_costs g_unrelated c_255 = Some l /\ In (1%N, CCost 255 (Some 255%N)) l).
  { eexists. split; [vm_compute; reflexivity | vm_compute; tauto]. }
  destruct Hc as (l & Hl & Hin).
  destruct (certified_costs_exact _ _ _ Hl) as [_ Hok]. specialize (Hok _ _ Hin). cbn [ans_correct] in Hok.
  destruct Hok as [Hmin Hmax].
  assert (Hpmin : rule_min_costs_fx g_unrelated c_255 = Panic) by (vm_compute; reflexivity).
  assert (Hpmax : rule_max_costs_fx g_unrelated c_255 = Panic) by (vm_compute; reflexivity).
  split; [vm_compute; reflexivity|].
  split; [intros a; unfold c_255; lia|].
  split; [vm_compute; reflexivity|].
  split; [exact Hmin|]. split; [vm_compute; reflexivity|].
  split; [exact Hmax|]. split; [vm_compute; reflexivity|].
  split; [apply min_query_panic; exact Hpmin|].
  split; [apply max_query_panic; exact Hpmax|].
  intros st fuel. unfold min_sentences_m. rewrite Hpmin. reflexivity.
Qed.

(* the hypotheses of the two positive statements are satisfiable, with each outcome: *)
Example query_answers_on_small_grammar :
  wf_grammar (chain_grammar 2) = true /\
  min_sentence_cost_m (chain_grammar 2) c_1 1 = Done 1%N /\
  max_sentence_cost_m (chain_grammar 2) c_1 1 = Done (Some 1%N).
Proof. vm_compute. repeat split; reflexivity. Qed.

(* the rule whose own cost overflows is refused as well (the accepted refusal) *)
Example query_own_overflow_panics :
  (2 < nrules g_unrelated)%N /\ min_sentence_cost_m g_unrelated c_255 2 = Panic /\
  max_sentence_cost_m g_unrelated c_255 2 = Panic.
Proof. vm_compute. repeat split; reflexivity. Qed.

(* ---- (2) lists of flags --------------------------------------------------------------------- *)

Lemma set_nth_length {A} (l : list A) : forall i x, length (set_nth l i x) = length l.
Proof. induction l as [|y l IH]; intros [|i] x; simpl; try reflexivity. rewrite IH. reflexivity. Qed.

Lemma nth_set_nth_same {A} (l : list A) : forall i x d, (i < length l)%nat -> nth i (set_nth l i x) d = x.
Proof. induction l as [|y l IH]; intros [|i] x d Hi; simpl in *; try lia; [reflexivity | apply IH; lia]. Qed.

Lemma nth_set_nth_other {A} (l : list A) : forall i j x d, i <> j -> nth j (set_nth l i x) d = nth j l d.
Proof.
  induction l as [|y l IH]; intros [|i] [|j] x d Hij; simpl; try reflexivity; try congruence.
  apply IH. congruence.
Qed.

Lemma set_nth_twice {A} (l : list A) : forall i x y, set_nth (set_nth l i x) i y = set_nth l i y.
Proof. induction l as [|z l IH]; intros [|i] x y; simpl; try reflexivity. rewrite IH. reflexivity. Qed.

Lemma set_nth_same {A} (l : list A) : forall i d, set_nth l i (nth i l d) = l.
Proof. induction l as [|z l IH]; intros [|i] d; simpl; try reflexivity. rewrite IH. reflexivity. Qed.

(* active[r] = true … active[r] = false gives the flags back when active[r] was false *)
Lemma set_nth_restore (l : list bool) i : nth i l false = false -> set_nth (set_nth l i true) i false = l.
Proof. intros H. rewrite set_nth_twice. rewrite <- H at 1. apply set_nth_same. Qed.

(* the number of rules that are not active *)
Definition cfalse (l : list bool) : nat := length (filter negb l).

Lemma cfalse_set_true (l : list bool) : forall i, (i < length l)%nat -> nth i l false = false ->
  S (cfalse (set_nth l i true)) = cfalse l.
Proof.
  unfold cfalse. induction l as [|b l IH]; intros [|i] Hi Hn; simpl in *; try lia.
  - subst b. reflexivity.
  - assert (H := IH i ltac:(lia) Hn). destruct b; simpl; [exact H | rewrite H; reflexivity].
Qed.

Lemma nth_all_false {A} (l : list A) : forall i, nth i (map (fun _ => false) l) false = false.
Proof. induction l as [|x l IH]; intros [|i]; simpl; try reflexivity. apply IH. Qed.

Lemma dget_none_active g q : dget (none_active g) q = false.
Proof. unfold dget, none_active. apply nth_all_false. Qed.

Lemma length_none_active g : length (none_active g) = nr g.
Proof. unfold none_active, nr. rewrite map_length. apply length_ridxs. Qed.

Lemma cfalse_le_length l : (cfalse l <= length l)%nat.
Proof. unfold cfalse. induction l as [|b l IH]; simpl; [lia|]. destruct b; simpl; lia. Qed.

(* ---- (2) two runs whose recursive calls agree ---------------------------------------------------- *)

Section Agree.
  Variables rec1 rec2 : N -> list bool -> outcome (list (list N) * list bool).
  Variable g : grammar.
  Variable c : N -> N.
  Variable mins : list N.
  Variable r : N.

  (* on [active] the two calls give the same, and the one that returns leaves [active] as it found it *)
  Definition same_call (q : N) (active : list bool) : Prop :=
    rec1 q active = rec2 q active /\ forall m a, rec2 q active = Done (m, a) -> a = active.

  Lemma ms_syms_agree l : forall active, (forall q, In (R q) l -> same_call q active) ->
    ms_syms rec1 l active = ms_syms rec2 l active /\
    forall ms a, ms_syms rec2 l active = Done (ms, a) -> a = active.
  Proof.
    induction l as [|x l IH]; intros active H; cbn [ms_syms].
    - split; [reflexivity|]. intros ms a E. injection E as _ E. symmetry. exact E.
    - assert (Hl : forall q, In (R q) l -> same_call q active) by (intros q Hq; apply H; right; exact Hq).
      destruct x as [t|q].
      + destruct (IH active Hl) as [He Hf]. rewrite He. split; [reflexivity|].
        intros ms a E. destruct (ms_syms rec2 l active) as [[ms' a']| |]; cbn [obind fst snd] in E; try discriminate.
        injection E as _ E. subst a. exact (Hf _ _ eq_refl).
      + destruct (H q (or_introl eq_refl)) as [Hq Hqf]. rewrite Hq.
        destruct (rec2 q active) as [[m a1]| |]; cbn [obind fst snd]; [|split; [reflexivity | discriminate]..].
        rewrite (Hqf _ _ eq_refl). destruct (IH active Hl) as [He Hf]. rewrite He. split; [reflexivity|].
        intros ms a E. destruct (ms_syms rec2 l active) as [[ms' a']| |]; cbn [obind fst snd] in E; try discriminate.
        injection E as _ E. subst a. exact (Hf _ _ eq_refl).
  Qed.

  Lemma uses_active_false active l q : uses_active active l = false -> In (R q) l -> dget active q = false.
  Proof.
    unfold uses_active. intros H Hq. destruct (dget active q) eqn:E; [|reflexivity].
    assert (existsb (fun x => match x with R q => dget active q | T _ => false end) l = true) as Ht.
    { apply existsb_exists. exists (R q). split; [exact Hq | exact E]. }
    congruence.
  Qed.

  Lemma ms_prods_agree ps : forall active sts,
    (forall p q, In p ps -> In (R q) (rhs g p) -> dget active q = false -> same_call q active) ->
    ms_prods rec1 g c mins r ps active sts = ms_prods rec2 g c mins r ps active sts /\
    forall res a, ms_prods rec2 g c mins r ps active sts = Done (res, a) -> a = active.
  Proof.
    induction ps as [|p ps IH]; intros active sts H; cbn [ms_prods].
    - split; [reflexivity|]. intros res a E. injection E as _ E. symmetry. exact E.
    - assert (Hps : forall p q, In p ps -> In (R q) (rhs g p) -> dget active q = false -> same_call q active)
        by (intros p' q Hp'; apply H; right; exact Hp').
      destruct (negb (is_cheapest g c mins r p)) eqn:Ech; cbn [orb]; [apply IH; exact Hps|].
      destruct (uses_active active (rhs g p)) eqn:Eua; [apply IH; exact Hps|].
      destruct (is_nil (rhs g p)); [apply IH; exact Hps|].
      assert (Hs : forall q, In (R q) (rhs g p) -> same_call q active).
      { intros q Hq. apply (H p q (or_introl eq_refl) Hq). exact (uses_active_false _ _ _ Eua Hq). }
      destruct (ms_syms_agree (rhs g p) active Hs) as [He Hf]. rewrite He.
      destruct (ms_syms rec2 (rhs g p) active) as [[ms a1]| |]; cbn [obind fst snd]; [|split; [reflexivity | discriminate]..].
      rewrite (Hf _ _ eq_refl). destruct (existsb is_nil ms); apply IH; exact Hps.
  Qed.
End Agree.

(* ---- (2) the depth never exceeds the number of rules ------------------------------------------------ *)

Lemma rule_to_prods_is_prod g r p : In p (rule_to_prods g r) -> is_prod g p.
Proof. unfold rule_to_prods. intros H. apply filter_In in H. apply In_pidxs. exact (proj1 H). Qed.

Lemma msb_room g c mins : wf_grammar g = true -> forall fuel s r active,
  length active = nr g -> (r < nrules g)%N -> dget active r = false -> (cfalse active <= s)%nat ->
  msb fuel g c mins (Some s) r active = msb fuel g c mins None r active /\
  forall res a, msb fuel g c mins None r active = Done (res, a) -> a = active.
Proof.
  intros Hwf fuel. induction fuel as [|f IH]; intros s r active Hlen Hr Hd Hs; cbn [msb].
  - split; [reflexivity | discriminate].
  - assert (Hi : (N.to_nat r < length active)%nat) by (rewrite Hlen; unfold nr; lia).
    pose proof (cfalse_set_true active _ Hi Hd) as Hcf.
    destruct s as [|s]; [lia|]. cbn [no_room callee].
    destruct (cget mins r =? U16MAX)%N.
    { split; [reflexivity|]. intros res a E. injection E as _ E. symmetry. exact E. }
    set (active1 := set_nth active (N.to_nat r) true) in *.
    assert (Hcalls : forall p q, In p (rule_to_prods g r) -> In (R q) (rhs g p) -> dget active1 q = false ->
                       same_call (msb f g c mins (Some s)) (msb f g c mins None) q active1).
    { intros p q Hp Hq Hdq. apply IH.
      - unfold active1. rewrite set_nth_length. exact Hlen.
      - pose proof (wf_rhs_range g p _ Hwf (rule_to_prods_is_prod g r p Hp) Hq) as Hrg. simpl in Hrg.
        apply N.ltb_lt. exact Hrg.
      - exact Hdq.
      - lia. }
    destruct (ms_prods_agree _ _ g c mins r (rule_to_prods g r) active1 [] Hcalls) as [He Hf]. rewrite He.
    split; [reflexivity|].
    intros res a E. destruct (ms_prods (msb f g c mins None) g c mins r (rule_to_prods g r) active1 []) as [[sts a1]| |];
      cbn [obind fst snd] in E; try discriminate.
    injection E as _ E. subst a. rewrite (Hf _ _ eq_refl). unfold active1. apply set_nth_restore. exact Hd.
Qed.

Lemma min_sentences_depth_le_rules : min_sentences_depth_le_rules_stmt.
Proof.
  intros g c r fuel s Hwf Hr Hs. unfold min_sentences_m.
  destruct (rule_min_costs_fx g c) as [mins| |]; cbn [obind]; try reflexivity.
  destruct (msb_room g c mins Hwf fuel s r (none_active g)) as [He _].
  - apply length_none_active.
  - exact Hr.
  - apply dget_none_active.
  - pose proof (cfalse_le_length (none_active g)). rewrite length_none_active in H. lia.
  - rewrite He. reflexivity.
Qed.

(* ---- (2) the chain grammar --------------------------------------------------------------------- *)

Lemma chain_prods_length k : length (chain_prods k) = (k + 2)%nat.
Proof. unfold chain_prods. rewrite app_length, map_length, seq_length. simpl. lia. Qed.

Lemma chain_prod_lo k i : (i < k)%nat ->
  prod (chain_grammar k) (N.of_nat i) = Some (N.of_nat (S i), [R (N.of_nat (S (S i)))]).
Proof.
  intros Hi. unfold prod, chain_grammar. cbn [prods]. rewrite Nat2N.id. unfold chain_prods.
  rewrite nth_error_app1 by (rewrite map_length, seq_length; exact Hi).
  apply (map_nth_error (fun i => (N.of_nat (S i), [R (N.of_nat (S (S i)))]))).
  rewrite (nth_error_nth' _ 0%nat) by (rewrite seq_length; exact Hi). rewrite seq_nth by exact Hi. reflexivity.
Qed.

Lemma chain_prod_k k : prod (chain_grammar k) (N.of_nat k) = Some (N.of_nat (S k), [T 0%N]).
Proof.
  unfold prod, chain_grammar. cbn [prods]. rewrite Nat2N.id. unfold chain_prods.
  rewrite nth_error_app2 by (rewrite map_length, seq_length; lia).
  rewrite map_length, seq_length, Nat.sub_diag. reflexivity.
Qed.

Lemma chain_prod_Sk k : prod (chain_grammar k) (N.of_nat (S k)) = Some (0%N, [R 1%N]).
Proof.
  unfold prod, chain_grammar. cbn [prods]. rewrite Nat2N.id. unfold chain_prods.
  rewrite nth_error_app2 by (rewrite map_length, seq_length; lia).
  rewrite map_length, seq_length. replace (S k - k)%nat with 1%nat by lia. reflexivity.
Qed.

Lemma chain_rhs_lo k i : (i < k)%nat -> rhs (chain_grammar k) (N.of_nat i) = [R (N.of_nat (S (S i)))].
Proof. intros Hi. unfold rhs. rewrite (chain_prod_lo k i Hi). reflexivity. Qed.
Lemma chain_rhs_k k : rhs (chain_grammar k) (N.of_nat k) = [T 0%N].
Proof. unfold rhs. rewrite chain_prod_k. reflexivity. Qed.
Lemma chain_rhs_Sk k : rhs (chain_grammar k) (N.of_nat (S k)) = [R 1%N].
Proof. unfold rhs. rewrite chain_prod_Sk. reflexivity. Qed.

Lemma chain_lhs_le k i : (i <= k)%nat -> lhs (chain_grammar k) (N.of_nat i) = N.of_nat (S i).
Proof.
  intros Hi. unfold lhs. destruct (Nat.eq_dec i k) as [E|E].
  - subst i. rewrite chain_prod_k. reflexivity.
  - rewrite (chain_prod_lo k i) by lia. reflexivity.
Qed.
Lemma chain_lhs_Sk k : lhs (chain_grammar k) (N.of_nat (S k)) = 0%N.
Proof. unfold lhs. rewrite chain_prod_Sk. reflexivity. Qed.

Lemma chain_pidxs k : pidxs (chain_grammar k) = map N.of_nat (seq 0 (k + 2)).
Proof. unfold pidxs, chain_grammar. cbn [prods]. rewrite chain_prods_length. reflexivity. Qed.

Lemma filter_none {A} (P : A -> bool) l : (forall x, In x l -> P x = false) -> filter P l = [].
Proof.
  induction l as [|x l IH]; intros H; simpl; [reflexivity|].
  rewrite (H x (or_introl eq_refl)). apply IH. intros y Hy. apply H. right. exact Hy.
Qed.

(* exactly one index below n satisfies P *)
Lemma filter_unique (P : N -> bool) n j : (j < n)%nat -> P (N.of_nat j) = true ->
  (forall i, (i < n)%nat -> i <> j -> P (N.of_nat i) = false) ->
  filter P (map N.of_nat (seq 0 n)) = [N.of_nat j].
Proof.
  intros Hj Ht Hf. replace n with (j + S (n - S j))%nat by lia.
  rewrite seq_app, map_app, filter_app. cbn [seq map filter plus]. rewrite Ht.
  rewrite !filter_none; [reflexivity| |].
  - intros x Hx. apply in_map_iff in Hx. destruct Hx as (i & <- & Hi). apply in_seq in Hi. apply Hf; lia.
  - intros x Hx. apply in_map_iff in Hx. destruct Hx as (i & <- & Hi). apply in_seq in Hi. apply Hf; lia.
Qed.

Lemma chain_rule_to_prods k i : (i <= k)%nat ->
  rule_to_prods (chain_grammar k) (N.of_nat (S i)) = [N.of_nat i].
Proof.
  intros Hi. unfold rule_to_prods. rewrite chain_pidxs. apply filter_unique; [lia| |].
  - rewrite (chain_lhs_le k i Hi). apply N.eqb_refl.
  - intros j Hj Hne. apply N.eqb_neq. destruct (Nat.eq_dec j (S k)) as [E|E].
    + subst j. rewrite chain_lhs_Sk. lia.
    + rewrite (chain_lhs_le k j) by lia. lia.
Qed.

Lemma chain_rule_to_prods_0 k : rule_to_prods (chain_grammar k) 0 = [N.of_nat (S k)].
Proof.
  unfold rule_to_prods. rewrite chain_pidxs. apply filter_unique; [lia| |].
  - rewrite chain_lhs_Sk. reflexivity.
  - intros j Hj Hne. apply N.eqb_neq. rewrite (chain_lhs_le k j) by lia. lia.
Qed.

Lemma chain_in_prods k pr : In pr (chain_prods k) ->
  (exists i, (i < k)%nat /\ pr = (N.of_nat (S i), [R (N.of_nat (S (S i)))])) \/
  pr = (N.of_nat (S k), [T 0%N]) \/ pr = (0%N, [R 1%N]).
Proof.
  unfold chain_prods. intros H. apply in_app_iff in H. destruct H as [H | [H | [H | []]]].
  - apply in_map_iff in H. destruct H as (i & <- & Hi). apply in_seq in Hi. left. exists i. split; [lia | reflexivity].
  - right. left. symmetry. exact H.
  - right. right. symmetry. exact H.
Qed.

Lemma chain_wf k : wf_grammar (chain_grammar k) = true.
Proof.
  unfold wf_grammar. repeat (apply andb_true_iff; split).
  - unfold is_prodb, chain_grammar. cbn [start_prod prods]. rewrite chain_prods_length, Nat2N.id. apply Nat.ltb_lt. lia.
  - reflexivity.
  - unfold user_start. change (start_prod (chain_grammar k)) with (N.of_nat (S k)). rewrite chain_rhs_Sk. reflexivity.
  - apply forallb_forall. intros pr Hpr. change (prods (chain_grammar k)) with (chain_prods k) in Hpr.
    change (nrules (chain_grammar k)) with (N.of_nat (k + 2)).
    destruct (chain_in_prods k pr Hpr) as [(i & Hi & ->) | [-> | ->]]; cbn [fst snd forallb sym_in_range andb].
    + change (nrules (chain_grammar k)) with (N.of_nat (k + 2)). rewrite !(proj2 (N.ltb_lt _ _)) by lia. reflexivity.
    + change (ntoks (chain_grammar k)) with 2%N. rewrite (proj2 (N.ltb_lt _ _)) by lia. reflexivity.
    + change (nrules (chain_grammar k)) with (N.of_nat (k + 2)). rewrite !(proj2 (N.ltb_lt _ _)) by lia. reflexivity.
  - apply forallb_forall. intros p Hp. rewrite chain_pidxs in Hp. apply in_map_iff in Hp. destruct Hp as (i & <- & Hi).
    apply in_seq in Hi. unfold start_rule. change (start_prod (chain_grammar k)) with (N.of_nat (S k)). rewrite chain_lhs_Sk.
    destruct (Nat.eq_dec i (S k)) as [E|E].
    + subst i. rewrite N.eqb_refl. reflexivity.
    + rewrite (chain_lhs_le k i) by lia. apply orb_true_iff. right. apply negb_true_iff. apply N.eqb_neq. lia.
  - apply forallb_forall. intros pr Hpr. change (prods (chain_grammar k)) with (chain_prods k) in Hpr.
    unfold start_rule. change (start_prod (chain_grammar k)) with (N.of_nat (S k)). rewrite chain_lhs_Sk.
    change (eof (chain_grammar k)) with 1%N.
    destruct (chain_in_prods k pr Hpr) as [(i & Hi & ->) | [-> | ->]]; cbn [fst snd forallb sym_eqb andb negb]; reflexivity.
Qed.

Lemma chain_nrules k : nrules (chain_grammar k) = N.of_nat (k + 2).
Proof. reflexivity. Qed.

(* the table of minimal costs of the chain: every rule costs 1 *)
Lemma chain_fix k cs :
  cost_step sat16 false (no_skip (chain_grammar k)) (chain_grammar k) c_1 cs = cs ->
  forall i, (i < k + 2)%nat -> oget cs (N.of_nat i) = Some 1%N.
Proof.
  intros Hfix.
  assert (Hget : forall r, (r < nrules (chain_grammar k))%N ->
                   oget cs r = rule_cost sat16 false (chain_grammar k) c_1 cs r).
  { intros r Hr. rewrite <- Hfix at 1. unfold cost_step.
    rewrite (oget_map_ridxs (chain_grammar k)
               (fun r => if dget (no_skip (chain_grammar k)) r then None else rule_cost sat16 false (chain_grammar k) c_1 cs r) r Hr).
    rewrite dget_no_skip. reflexivity. }
  assert (Hdown : forall d i, (i + d = k)%nat -> oget cs (N.of_nat (S i)) = Some 1%N).
  { induction d as [|d IH]; intros i Hid.
    - assert (i = k) by lia. subst i. rewrite Hget by (rewrite chain_nrules; lia).
      unfold rule_cost. rewrite chain_rule_to_prods by lia. cbn [fold_left]. rewrite chain_rhs_k. reflexivity.
    - rewrite Hget by (rewrite chain_nrules; lia).
      unfold rule_cost. rewrite chain_rule_to_prods by lia. cbn [fold_left]. rewrite chain_rhs_lo by lia.
      cbn [prod_cost]. rewrite (IH (S i)) by lia. reflexivity. }
  intros [|i] Hi.
  - change (N.of_nat 0) with 0%N. rewrite Hget by (rewrite chain_nrules; lia).
    unfold rule_cost. rewrite chain_rule_to_prods_0. cbn [fold_left]. rewrite chain_rhs_Sk.
    cbn [prod_cost]. change 1%N with (N.of_nat 1) at 1. rewrite (Hdown k 0%nat) by lia. reflexivity.
  - apply (Hdown (k - i)%nat). lia.
Qed.

Lemma chain_mins k : exists mins, rule_min_costs_fx (chain_grammar k) c_1 = Done mins /\
  forall i, (i < k + 2)%nat -> cget mins (N.of_nat i) = 1%N.
Proof.
  pose proof (proj1 (fixed_costs_terminate (chain_grammar k) c_1 (chain_wf k))) as Hterm.
  unfold rule_min_costs_fx in *. unfold rule_costs_m in *.
  destruct (jloop ocosts_eqb (cost_step sat16 false (no_skip (chain_grammar k)) (chain_grammar k) c_1)
                  (costs_fuel (chain_grammar k)) (map (fun _ => None) (ridxs (chain_grammar k)))) as [cs| |] eqn:E.
  - cbn [obind] in *.
    destruct (jloop_done _ _ (fun a b => proj1 (ocosts_eqb_eq a b)) _ _ _ E) as (j & _ & _ & Hfix).
    pose proof (chain_fix k cs Hfix) as Hone.
    assert (Hlen : length cs = (k + 2)%nat).
    { rewrite <- Hfix. unfold cost_step. rewrite map_length, length_ridxs, chain_nrules. apply Nat2N.id. }
    assert (Hnth : forall i, (i < k + 2)%nat -> nth i cs None = Some 1%N).
    { intros i Hi. specialize (Hone i Hi). unfold oget in Hone. rewrite Nat2N.id in Hone. exact Hone. }
    pose proof (finish_min_spec cs) as Hsp. destruct (finish_min cs) as [l| |].
    + exists l. split; [reflexivity|]. intros i Hi. destruct Hsp as [_ Hsp].
      destruct (Hsp i ltac:(lia)) as [[Hn _] | (v & Hv & _ & Hl)].
      * rewrite Hnth in Hn by exact Hi. discriminate.
      * rewrite Hnth in Hv by exact Hi. injection Hv as <-. unfold cget. rewrite Nat2N.id. exact Hl.
    + destruct Hsp as (i & Hi & Hn). rewrite Hnth in Hn by lia. discriminate.
    + destruct Hsp.
  - exfalso. exact (jloop_never_panics _ _ _ _ E).
  - exfalso. apply Hterm. reflexivity.
Qed.

(* ---- (2) min_sentences_below on the chain ------------------------------------------------------- *)

Definition room (st : stack) (n : nat) : Prop := match st with None => True | Some s => (n <= s)%nat end.

Lemma room_callee st n : room st (S n) -> room (callee st) n.
Proof. destruct st as [[|s]|]; simpl; intros H; try lia; exact I. Qed.

Lemma room_no_room st n : room st (S n) -> no_room st = false.
Proof. destruct st as [[|s]|]; simpl; intros H; try lia; reflexivity. Qed.

Section Chain.
  Variable k : nat.
  Variable mins : list N.
  Hypothesis Hmins : forall i, (i < k + 2)%nat -> cget mins (N.of_nat i) = 1%N.
  Local Notation g := (chain_grammar k).

  Lemma chain_not_max i : (i < k + 2)%nat -> (cget mins (N.of_nat i) =? U16MAX)%N = false.
  Proof. intros Hi. rewrite Hmins by exact Hi. reflexivity. Qed.

  Lemma chain_cheapest_lo i : (i < k)%nat -> is_cheapest g c_1 mins (N.of_nat (S i)) (N.of_nat i) = true.
  Proof.
    intros Hi. unfold is_cheapest. rewrite chain_rhs_lo by exact Hi. cbn [fold_left].
    rewrite !Hmins by lia. reflexivity.
  Qed.
  Lemma chain_cheapest_k : is_cheapest g c_1 mins (N.of_nat (S k)) (N.of_nat k) = true.
  Proof. unfold is_cheapest. rewrite chain_rhs_k. cbn [fold_left]. rewrite !Hmins by lia. reflexivity. Qed.
  Lemma chain_cheapest_Sk : is_cheapest g c_1 mins 0 (N.of_nat (S k)) = true.
  Proof.
    unfold is_cheapest. rewrite chain_rhs_Sk. cbn [fold_left].
    pose proof (Hmins 1%nat ltac:(lia)) as H1. pose proof (Hmins 0%nat ltac:(lia)) as H0.
    change (N.of_nat 1) with 1%N in H1. change (N.of_nat 0) with 0%N in H0. rewrite H1, H0. reflexivity.
  Qed.

  Lemma dget_set_other active i j x : i <> j ->
    dget (set_nth active (N.to_nat (N.of_nat i)) x) (N.of_nat j) = dget active (N.of_nat j).
  Proof. intros H. unfold dget. rewrite !Nat2N.id. apply nth_set_nth_other. exact H. Qed.

  (* with room for the k - i + 1 frames below A_i, the call answers [['x']] and restores the flags *)
  Lemma chain_msb_ok : forall d i, (i + d = k)%nat -> forall fuel st active, (d < fuel)%nat -> room st (S d) ->
    (forall j, (i <= j <= k)%nat -> dget active (N.of_nat (S j)) = false) ->
    msb fuel g c_1 mins st (N.of_nat (S i)) active = Done ([[0%N]], active).
  Proof.
    induction d as [|d IH]; intros i Hid fuel st active Hfuel Hroom Hact;
      (destruct fuel as [|f]; [lia|]); cbn [msb];
      rewrite (room_no_room _ _ Hroom), chain_not_max by lia; rewrite chain_rule_to_prods by lia; cbn [ms_prods].
    - assert (i = k) by lia. subst i. rewrite chain_cheapest_k, chain_rhs_k. cbn.
      rewrite set_nth_restore; [reflexivity|]. exact (Hact k ltac:(lia)).
    - rewrite chain_cheapest_lo, chain_rhs_lo by lia. cbn [negb orb uses_active existsb is_nil ms_syms].
      rewrite dget_set_other by lia. rewrite (Hact (S i)) by lia. cbn [orb].
      rewrite (IH (S i)); [| lia | lia | apply room_callee; exact Hroom |].
      + cbn. rewrite set_nth_restore; [reflexivity|]. exact (Hact i ltac:(lia)).
      + intros j Hj. rewrite dget_set_other by lia. apply Hact. lia.
  Qed.

  (* with fewer frames than that, the recursion exhausts them *)
  Lemma chain_msb_panic : forall s d i, (i + d = k)%nat -> (s <= d)%nat -> forall fuel active, (s < fuel)%nat ->
    (forall j, (i <= j <= k)%nat -> dget active (N.of_nat (S j)) = false) ->
    msb fuel g c_1 mins (Some s) (N.of_nat (S i)) active = Panic.
  Proof.
    induction s as [|s IH]; intros d i Hid Hsd fuel active Hfuel Hact; (destruct fuel as [|f]; [lia|]); cbn [msb no_room].
    - reflexivity.
    - rewrite chain_not_max by lia. rewrite chain_rule_to_prods by lia. cbn [ms_prods callee].
      destruct d as [|d]; [lia|].
      rewrite chain_cheapest_lo, chain_rhs_lo by lia. cbn [negb orb uses_active existsb is_nil ms_syms].
      rewrite dget_set_other by lia. rewrite (Hact (S i)) by lia. cbn [orb].
      rewrite (IH d (S i)); [reflexivity | lia | lia | lia |].
      intros j Hj. rewrite dget_set_other by lia. apply Hact. lia.
  Qed.

  Lemma chain_none_active j : dget (none_active g) (N.of_nat j) = false.
  Proof. apply dget_none_active. Qed.

  (* the query about ^ (rule 0): one frame more *)
  Lemma chain_msb_top_ok fuel st : (S k < fuel)%nat -> room st (k + 2) ->
    msb fuel g c_1 mins st 0 (none_active g) = Done ([[0%N]], none_active g).
  Proof.
    intros Hfuel Hroom. destruct fuel as [|f]; [lia|]. cbn [msb].
    replace (k + 2)%nat with (S (S k)) in Hroom by lia.
    rewrite (room_no_room _ _ Hroom). change 0%N with (N.of_nat 0) at 1. rewrite chain_not_max by lia.
    rewrite chain_rule_to_prods_0. cbn [ms_prods]. rewrite chain_cheapest_Sk, chain_rhs_Sk.
    cbn [negb orb uses_active existsb is_nil ms_syms].
    change 1%N with (N.of_nat 1). change (N.to_nat 0) with (N.to_nat (N.of_nat 0)).
    rewrite dget_set_other by lia. rewrite chain_none_active. cbn [orb].
    rewrite (chain_msb_ok k 0); [| lia | lia | apply room_callee; exact Hroom |].
    - cbn. rewrite set_nth_restore; [reflexivity|]. apply (chain_none_active 0).
    - intros j Hj. rewrite dget_set_other by lia. apply chain_none_active.
  Qed.

  Lemma chain_msb_top_panic fuel : (S k < fuel)%nat ->
    msb fuel g c_1 mins (Some (S k)) 0 (none_active g) = Panic.
  Proof.
    intros Hfuel. destruct fuel as [|f]; [lia|]. cbn [msb no_room callee].
    change 0%N with (N.of_nat 0) at 1. rewrite chain_not_max by lia.
    rewrite chain_rule_to_prods_0. cbn [ms_prods]. rewrite chain_cheapest_Sk, chain_rhs_Sk.
    cbn [negb orb uses_active existsb is_nil ms_syms].
    change 1%N with (N.of_nat 1). change (N.to_nat 0) with (N.to_nat (N.of_nat 0)).
    rewrite dget_set_other by lia. rewrite chain_none_active. cbn [orb].
    rewrite (chain_msb_panic k k 0); [reflexivity | lia | lia | lia |].
    intros j Hj. rewrite dget_set_other by lia. apply chain_none_active.
  Qed.
End Chain.

Lemma min_sentences_chain_threshold : min_sentences_chain_threshold_stmt.
Proof.
  intros k s fuel Hfuel. unfold min_sentences_m.
  destruct (chain_mins k) as (mins & -> & Hmins). cbn [obind].
  change 1%N with (N.of_nat 1). destruct (s <=? k)%nat eqn:E.
  - apply Nat.leb_le in E. rewrite (chain_msb_panic k mins Hmins s k 0); [reflexivity | lia | lia | lia |].
    intros j _. apply dget_none_active.
  - apply Nat.leb_gt in E. rewrite (chain_msb_ok k mins Hmins k 0); [reflexivity | lia | lia | simpl; lia |].
    intros j _. apply dget_none_active.
Qed.

Lemma min_sentences_depth_bound_tight : min_sentences_depth_bound_tight_stmt.
Proof.
  intros k fuel Hfuel. unfold min_sentences_m.
  destruct (chain_mins k) as (mins & -> & Hmins). cbn [obind]. split.
  - rewrite (chain_msb_top_panic k mins Hmins fuel Hfuel). reflexivity.
  - rewrite (chain_msb_top_ok k mins Hmins fuel (Some (k + 2)%nat) Hfuel); [reflexivity | simpl; lia].
Qed.

Lemma min_sentences_depth_unbounded_refuted : min_sentences_depth_unbounded_refuted_stmt.
Proof.
  intros s. exists (chain_grammar s), c_1, 1%N.
  split; [apply chain_wf|]. split; [intros a; unfold c_1; lia|].
  split; [rewrite chain_nrules; lia|]. split; [unfold nr; rewrite chain_nrules; apply Nat2N.id|]. split.
  - intros fuel Hfuel. exists [0%N]. unfold min_sentences_m.
    destruct (chain_mins s) as (mins & -> & Hmins). cbn [obind]. change 1%N with (N.of_nat 1).
    rewrite (chain_msb_ok s mins Hmins s 0); [reflexivity | lia | lia | exact I |].
    intros j _. apply dget_none_active.
  - intros fuel Hfuel. rewrite (min_sentences_chain_threshold s s fuel Hfuel).
    rewrite (proj2 (Nat.leb_le s s)) by lia. reflexivity.
Qed.

(* the hypotheses are satisfiable, the three outcomes occur: *)
Example min_sentences_examples :
  min_sentences_m (Some 4%nat) 10 (chain_grammar 3) c_1 1 = Done [[0%N]] /\
  min_sentences_m (Some 3%nat) 10 (chain_grammar 3) c_1 1 = Panic /\
  min_sentences_m None 10 (chain_grammar 3) c_1 1 = Done [[0%N]] /\
  min_sentences_m None 3 (chain_grammar 3) c_1 1 = OutOfFuel /\
  (* a grammar with alternatives and a recursive rule: S: A A | 'b' 'b'; A: A | 'a';  (^ = 0, S = 1, A = 2) *)
  let g2 := mkGrammar 3 3 [(1, [R 2; R 2]); (1, [T 1; T 1]); (2, [R 2]); (2, [T 0]); (0, [R 1])]%N 4 2 in
  wf_grammar g2 = true /\
  min_sentences_m (Some 3%nat) 10 g2 c_1 0 = Done [[0; 0]; [1; 1]]%N /\
  min_sentences_m (Some 2%nat) 10 g2 c_1 0 = Panic.
Proof. vm_compute. repeat split; reflexivity. Qed.
