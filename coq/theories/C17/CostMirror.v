(* C17 (cost part) — executable MIRROR of the REPAIRED sentence-cost functions of
     cfgrammar/src/lib/yacc/grammar.rs   rule_costs, rule_min_costs, rule_max_costs
   (notes/C17-costs-fix.diff).  Definitions only.

   The Rust code consists of loops of the shape
       loop { let new = <one round from cur>; if new == cur { return cur }; cur = new }
   ([jloop], on fuel = rounds; [OutOfFuel] is excluded by the theorems) whose rounds build a
   NEW table from the previous one (no in-place update), so a round is a function of the
   previous table; the rounds are mirrored as the comprehension that the nested [for]s compute.
   u16 arithmetic is [saturating_add] (= [sat16] of the sum); the two [panic!]s (a finite cost
   that is u16::MAX or more) are the [Panic] outcomes of [finish_min] / [finish_max].
   The saturation is a parameter [cap] of the round ([sat16] in the mirror, the identity in
   proofs about the uncapped values). *)
From Coq Require Import List Arith NArith Bool.
From GV Require Import Common.Outcome Base.Grammar Base.Analyses C17.Model C17.MirrorModel.
Import ListNotations.

(* c.saturating_add(sc) on u16 is sat16 (c + sc) *)
Definition sat16 (x : N) : N := N.min x U16MAX.

(* loop { let new = step(cur); if new == cur { return cur }; cur = new } *)
Fixpoint jloop {T : Type} (eqb : T -> T -> bool) (step : T -> T) (fuel : nat) (cur : T) : outcome T :=
  match fuel with
  | O => OutOfFuel
  | S k => let new := step cur in
           if eqb new cur then Done cur else jloop eqb step k new
  end.

(* ---- rule_costs ------------------------------------------------------------------ *)

(* Vec<Option<u16>> *)
Definition ocosts := list (option N).

Definition oN_eqb (a b : option N) : bool :=
  match a, b with
  | Some x, Some y => N.eqb x y
  | None, None => true
  | _, _ => false
  end.
Fixpoint ocosts_eqb (a b : ocosts) : bool :=
  match a, b with
  | [], [] => true
  | x :: a', y :: b' => oN_eqb x y && ocosts_eqb a' b'
  | _, _ => false
  end.

(* let mut c = Some(0u16); for sym in prod { c = c.zip(sc).map(|(c, sc)| c.saturating_add(sc)) } *)
Fixpoint prod_cost (cap : N -> N) (c : N -> N) (cs : ocosts) (l : list sym) (acc : option N) : option N :=
  match l with
  | [] => acc
  | x :: l' =>
      let sc := match x with T a => Some (c a) | R r => oget cs r end in
      prod_cost cap c cs l' (match acc, sc with
                             | Some a, Some b => Some (cap (a + b)%N)
                             | _, _ => None
                             end)
  end.

(* best.is_none() || if max { c > best } else { c < best } *)
Definition better (maxp : bool) (v : N) (best : option N) : bool :=
  match best with
  | None => true
  | Some b => if maxp then (b <? v)%N else (v <? b)%N
  end.

(* for pidx in grm.rule_to_prods(ridx) { … if c.is_some() && (…) { best = c } } *)
Definition rule_cost (cap : N -> N) (maxp : bool) (g : grammar) (c : N -> N) (cs : ocosts) (r : N) : option N :=
  fold_left (fun best p => match prod_cost cap c cs (rhs g p) (Some 0%N) with
                           | Some v => if better maxp v best then Some v else best
                           | None => best
                           end) (rule_to_prods g r) None.

(* for ridx in grm.iter_rules() { let mut best = None; if !skip[ridx] { … } new.push(best) } *)
Definition cost_step (cap : N -> N) (maxp : bool) (skip : list bool) (g : grammar) (c : N -> N) (cs : ocosts) : ocosts :=
  map (fun r => if dget skip r then None else rule_cost cap maxp g c cs r) (ridxs g).

Definition costs_fuel (g : grammar) : nat := nr g + 2.

Definition rule_costs_m (cap : N -> N) (maxp : bool) (skip : list bool) (g : grammar) (c : N -> N) : outcome ocosts :=
  jloop ocosts_eqb (cost_step cap maxp skip g c) (costs_fuel g) (map (fun _ => None) (ridxs g)).

Definition no_skip (g : grammar) : list bool := map (fun _ => false) (ridxs g).

(* ---- rule_min_costs ----------------------------------------------------------------- *)

(* .map(|c| match c { None => u16::MAX, Some(u16::MAX) => panic!(…), Some(c) => c }).collect() *)
Fixpoint finish_min (l : ocosts) : outcome (list N) :=
  match l with
  | [] => Done []
  | None :: l' => do t <- finish_min l'; Done (U16MAX :: t)
  | Some v :: l' => if (v =? U16MAX)%N then Panic else do t <- finish_min l'; Done (v :: t)
  end.

Definition rule_min_costs_fx (g : grammar) (c : N -> N) : outcome (list N) :=
  do mins <- rule_costs_m sat16 false (no_skip g) g c;
  finish_min mins.

(* ---- rule_max_costs ----------------------------------------------------------------- *)

Definition is_some {A} (x : option A) : bool := match x with Some _ => true | None => false end.

(* let useful = |pidx| grm.prod(pidx).iter().all(|sym| … mins[ridx].is_some()) *)
Definition useful (mins : ocosts) (l : list sym) : bool :=
  forallb (fun x => match x with T _ => true | R r => is_some (oget mins r) end) l.

(* Vec<Vec<bool>> *)
Definition bmat := list (list bool).
Definition mget (m : bmat) (a b : N) : bool := nth (N.to_nat b) (nth (N.to_nat a) m []) false.

Fixpoint bmat_eqb (a b : bmat) : bool :=
  match a, b with
  | [], [] => true
  | x :: a', y :: b' => blist_eqb x y && bmat_eqb a' b'
  | _, _ => false
  end.

(* let mut new = reach.clone();
   for pidx in useful productions { a = prod_to_rule(pidx);
     for Rule(b) in prod { new[a][b] = true; for c in 0..n { if reach[b][c] { new[a][c] = true } } } } *)
Definition reach_step (g : grammar) (mins : ocosts) (m : bmat) : bmat :=
  map (fun a =>
         map (fun x =>
                mget m a x ||
                existsb (fun p => useful mins (rhs g p) &&
                                  existsb (fun s => match s with
                                                    | R b => N.eqb b x || mget m b x
                                                    | T _ => false
                                                    end) (rhs g p))
                        (rule_to_prods g a))
             (ridxs g))
      (ridxs g).

Definition reach_fuel (g : grammar) : nat := nr g * nr g + 2.

Definition reach_m (g : grammar) (mins : ocosts) : outcome bmat :=
  jloop bmat_eqb (reach_step g mins) (reach_fuel g) (map (fun _ => map (fun _ => false) (ridxs g)) (ridxs g)).

Definition tok_pos (c : N -> N) (s : sym) : bool :=
  match s with T t => (0 <? c t)%N | R _ => false end.

(* tok_gt0[a]: a useful production of a contains a token of cost > 0 *)
Definition tok_gt0 (g : grammar) (c : N -> N) (mins : ocosts) (a : N) : bool :=
  existsb (fun p => useful mins (rhs g p) && existsb (tok_pos c) (rhs g p)) (rule_to_prods g a).

(* let gt0 = |sym| … tok_gt0[a] || (0..n).any(|b| reach[a][b] && tok_gt0[b]) *)
Definition gt0 (g : grammar) (c : N -> N) (mins : ocosts) (m : bmat) (s : sym) : bool :=
  match s with
  | T t => (0 <? c t)%N
  | R a => tok_gt0 g c mins a || existsb (fun b => mget m a b && tok_gt0 g c mins b) (ridxs g)
  end.

(* every element of a list together with the others (in order): (prod[i], prod without position i) *)
Fixpoint picks {A} (l : list A) : list (A * list A) :=
  match l with
  | [] => []
  | x :: l' => (x, l') :: map (fun yo => (fst yo, x :: snd yo)) (picks l')
  end.

(* pumpable[a]: a useful production of a has a rule b at position i with (b == a || reach[b][a])
   and a symbol at another position that derives a string of cost > 0 *)
Definition pumpable (g : grammar) (c : N -> N) (mins : ocosts) (m : bmat) (a : N) : bool :=
  existsb (fun p => useful mins (rhs g p) &&
                    existsb (fun xo => match fst xo with
                                       | R b => (N.eqb b a || mget m b a) && existsb (gt0 g c mins m) (snd xo)
                                       | T _ => false
                                       end) (picks (rhs g p)))
          (rule_to_prods g a).

(* (0..n).map(|a| pumpable[a] || (0..n).any(|b| reach[a][b] && pumpable[b])) *)
Definition unbounded_m (g : grammar) (c : N -> N) (mins : ocosts) (m : bmat) : list bool :=
  map (fun a => pumpable g c mins m a || existsb (fun b => mget m a b && pumpable g c mins m b) (ridxs g)) (ridxs g).

(* .zip(unbounded).map(|(c, unbounded)| match c { _ if unbounded => u16::MAX, None => 0,
                                                  Some(u16::MAX) => panic!(…), Some(c) => c }) *)
Fixpoint finish_max (l : ocosts) (ub : list bool) : outcome (list N) :=
  match l, ub with
  | x :: l', u :: ub' =>
      if u then do t <- finish_max l' ub'; Done (U16MAX :: t)
      else match x with
           | None => do t <- finish_max l' ub'; Done (0%N :: t)
           | Some v => if (v =? U16MAX)%N then Panic else do t <- finish_max l' ub'; Done (v :: t)
           end
  | _, _ => Done []
  end.

Definition rule_max_costs_fx (g : grammar) (c : N -> N) : outcome (list N) :=
  do mins <- rule_costs_m sat16 false (no_skip g) g c;
  do m <- reach_m g mins;
  let ub := unbounded_m g c mins m in
  do mx <- rule_costs_m sat16 true ub g c;
  finish_max mx ub.
