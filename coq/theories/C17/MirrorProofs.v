(* C17 (mirror part) — proofs.
   Generic part: a step [s -> s'] on (table, changed) is [mono] when the flag
   only rises, a low flag afterwards means an untouched table, and a flag raised
   by the step means a strictly larger table.  [mono] is a preorder, so folds of
   mono steps are mono; a round that ends with the flag low has applied every one
   of its steps to the final table without effect (closure); a round that ends
   with the flag high has grown the table (termination). *)
From Coq Require Import List Arith NArith Bool Lia.
From GV Require Import Common.Outcome Base.Grammar Base.Analyses Base.GrammarFacts Base.AnalysesProofs
  C17.MirrorModel C17.MirrorSpec.
Import ListNotations.

Section Mono.
Context {T : Type} (msz : T -> nat).

Definition mono (s s' : T * bool) : Prop :=
  (snd s = true -> snd s' = true) /\
  (snd s' = false -> fst s' = fst s) /\
  msz (fst s) <= msz (fst s') /\
  (snd s' = true -> snd s = true \/ msz (fst s) < msz (fst s')).

Lemma mono_refl s : mono s s.
Proof. unfold mono. repeat split; auto. Qed.

Lemma mono_trans a b c : mono a b -> mono b c -> mono a c.
Proof.
  intros (A1 & A2 & A3 & A4) (B1 & B2 & B3 & B4). unfold mono. repeat split.
  - intros H. apply B1. apply A1. exact H.
  - intros H. rewrite (B2 H). apply A2.
    destruct (snd b) eqn:Hb; [|reflexivity]. rewrite (B1 eq_refl) in H. discriminate H.
  - lia.
  - intros H. destruct (B4 H) as [Hb | Hlt].
    + destruct (A4 Hb) as [Ha | Hlt]; [left; exact Ha | right; lia].
    + right. lia.
Qed.

Lemma mono_false_eq s s' : mono s s' -> snd s' = false -> s' = s.
Proof.
  intros (A1 & A2 & _ & _) H. destruct s as [t c], s' as [t' c']. simpl in *.
  subst c'. rewrite (A2 eq_refl). f_equal.
  destruct c; [|reflexivity]. apply A1. reflexivity.
Qed.

Lemma mono_fold {X} (f : T * bool -> X -> T * bool) l :
  (forall s x, mono s (f s x)) -> forall s, mono s (fold_left f l s).
Proof.
  intros Hf. induction l as [|x l IH]; intros s; simpl; [apply mono_refl|].
  eapply mono_trans; [apply Hf | apply IH].
Qed.

(* a fold of mono steps that ends with the flag low: every step was without effect *)
Lemma fold_fixed {X} (f : T * bool -> X -> T * bool) l :
  (forall s x, mono s (f s x)) ->
  forall s, snd (fold_left f l s) = false -> forall x, In x l -> f s x = s.
Proof.
  intros Hf. induction l as [|x0 l IH]; intros s Hend x Hin; [destruct Hin|].
  simpl in Hend.
  assert (H0 : f s x0 = s).
  { apply mono_false_eq; [apply Hf|].
    rewrite <- (mono_false_eq _ _ (mono_fold f l Hf (f s x0)) Hend). exact Hend. }
  destruct Hin as [Hx | Hin]; [subst x0; exact H0|].
  rewrite H0 in Hend. exact (IH s Hend x Hin).
Qed.

Lemma fold_fixed_eq {X} (f : T * bool -> X -> T * bool) l :
  (forall s x, mono s (f s x)) ->
  forall s, snd (fold_left f l s) = false -> fold_left f l s = s.
Proof. intros Hf s H. apply mono_false_eq; [apply mono_fold; exact Hf | exact H]. Qed.

(* the loop *)
Section Loop.
Variable round : T * bool -> T * bool.
Variable Inv : T -> Prop.
Hypothesis Hround_inv : forall t, Inv t -> Inv (fst (round (t, false))).
Hypothesis Hround_mono : forall s, mono s (round s).

Lemma run_loop_done fuel : forall t t', Inv t -> run_loop round fuel t = Done t' ->
  Inv t' /\ round (t', false) = (t', false).
Proof.
  induction fuel as [|k IH]; intros t t' Ht H; simpl in H; [discriminate H|].
  destruct (snd (round (t, false))) eqn:Hc.
  - apply (IH (fst (round (t, false)))); [apply Hround_inv; exact Ht | exact H].
  - injection H as H. pose proof (mono_false_eq _ _ (Hround_mono (t, false)) Hc) as He.
    rewrite He in H. simpl in H. subst t'. split; [exact Ht | exact He].
Qed.

Variable bound : nat.
Hypothesis Hbound : forall t, Inv t -> msz t <= bound.

Lemma run_loop_total fuel : forall t, Inv t -> bound < fuel + msz t ->
  exists t', run_loop round fuel t = Done t'.
Proof.
  induction fuel as [|k IH]; intros t Ht Hlt.
  - pose proof (Hbound t Ht). simpl in Hlt. lia.
  - simpl. destruct (snd (round (t, false))) eqn:Hc.
    + apply IH; [apply Hround_inv; exact Ht|].
      destruct (Hround_mono (t, false)) as (_ & _ & _ & H4).
      destruct (H4 Hc) as [H | H]; [discriminate H|]. simpl in H. lia.
    + eexists. reflexivity.
Qed.
End Loop.
End Mono.

(* ---- lists -------------------------------------------------------------------------- *)

Lemma snoc_eq_mid {A} (l u w : list A) (x y : A) :
  l ++ [x] = u ++ y :: w ->
  (w = [] /\ l = u /\ x = y) \/ (exists w', w = w' ++ [x] /\ l = u ++ y :: w').
Proof.
  intros H. induction w as [|z w _] using rev_ind.
  - left. apply app_inj_tail in H. destruct H as [H1 H2]. repeat split; assumption.
  - right. replace (u ++ y :: w ++ [z]) with ((u ++ y :: w) ++ [z]) in H
      by (rewrite <- app_assoc; reflexivity).
    apply app_inj_tail in H. destruct H as [H1 H2]. subst z. exists w. split; [reflexivity | exact H1].
Qed.

Lemma In_rule_to_prods g r p : In p (rule_to_prods g r) <-> is_prod g p /\ lhs g p = r.
Proof.
  unfold rule_to_prods. rewrite filter_In, In_pidxs, N.eqb_eq. reflexivity.
Qed.

(* ---- firsts ------------------------------------------------------------------------------ *)

Definition fi_msz (t : fi_tbl) : nat := length (fst t) + length (snd t).
Notation fi_mono := (mono fi_msz).

Lemma fi_set_mono r a st : fi_mono st (fi_set r a st).
Proof.
  unfold fi_set. destruct (fi_is_set r a st); [apply mono_refl|].
  unfold mono, fi_msz. simpl. repeat split; auto; lia.
Qed.

Lemma fi_set_eps_mono r st : fi_mono st (fi_set_eps r st).
Proof.
  unfold fi_set_eps. destruct (fi_is_eps r st); [apply mono_refl|].
  unfold mono, fi_msz. simpl. repeat split; auto; lia.
Qed.

Lemma fi_union_step_mono ridx s st t :
  fi_mono st (if fi_is_set s t st then fi_set ridx t st else st).
Proof. destruct (fi_is_set s t st); [apply fi_set_mono | apply mono_refl]. Qed.

Lemma fi_union_mono g ridx s st : fi_mono st (fi_union g ridx s st).
Proof. unfold fi_union. apply mono_fold. intros s0 x. apply fi_union_step_mono. Qed.

Lemma fi_scan_mono g ridx l : forall st, fi_mono st (fi_scan g ridx l st).
Proof.
  induction l as [|x l IH]; intros st; simpl; [apply mono_refl|].
  destruct x as [t | s]; [apply fi_set_mono|].
  set (st1 := fi_union g ridx s st).
  set (st2 := if fi_is_eps s st1 && is_nil l then fi_set_eps ridx st1 else st1).
  assert (H1 : fi_mono st st1) by apply fi_union_mono.
  assert (H2 : fi_mono st1 st2).
  { unfold st2. destruct (fi_is_eps s st1 && is_nil l); [apply fi_set_eps_mono | apply mono_refl]. }
  destruct (fi_is_eps s st2).
  - eapply mono_trans; [exact H1|]. eapply mono_trans; [exact H2 | apply IH].
  - eapply mono_trans; eassumption.
Qed.

Lemma fi_prod_mono g ridx rhs st : fi_mono st (fi_prod g ridx rhs st).
Proof.
  unfold fi_prod. destruct rhs as [|x l]; [apply fi_set_eps_mono | apply fi_scan_mono].
Qed.

Lemma fi_rule_mono g st ridx : fi_mono st (fi_rule g st ridx).
Proof. unfold fi_rule. apply mono_fold. intros s0 p. apply fi_prod_mono. Qed.

Lemma fi_round_mono g st : fi_mono st (fi_round g st).
Proof. unfold fi_round. apply mono_fold. intros s0 r. apply fi_rule_mono. Qed.

(* invariant: sound, duplicate-free, in range *)
Definition fi_inv (g : grammar) (t : fi_tbl) : Prop :=
  nullable_sound g (fst t) /\ first_sound g (snd t) /\
  NoDup (fst t) /\ NoDup (snd t) /\
  incl (fst t) (ridxs g) /\ incl (snd t) (rt_universe g).
Definition FI (g : grammar) (st : fi_state) : Prop := fi_inv g (fst st).

Lemma fi_set_inv g r a st : FI g st -> first_spec g r a -> (r < nrules g)%N -> (a < ntoks g)%N ->
  FI g (fi_set r a st).
Proof.
  intros (H1 & H2 & H3 & H4 & H5 & H6) Hs Hr Ha. unfold fi_set, fi_is_set.
  destruct (memP (r, a) (snd (fst st))) eqn:Hm; [repeat split; assumption|].
  unfold FI, fi_inv. simpl. repeat split; try assumption.
  - intros r' a' [Heq | Hin]; [injection Heq as <- <-; exact Hs | apply H2; exact Hin].
  - constructor; [|exact H4]. intros Hin. apply memP_In in Hin. congruence.
  - intros x [Hx | Hx]; [subst x; apply In_rt_universe; split; assumption | apply H6; exact Hx].
Qed.

Lemma fi_set_eps_inv g r st : FI g st -> nullable_spec g r -> (r < nrules g)%N ->
  FI g (fi_set_eps r st).
Proof.
  intros (H1 & H2 & H3 & H4 & H5 & H6) Hs Hr. unfold fi_set_eps, fi_is_eps.
  destruct (memN r (fst (fst st))) eqn:Hm; [repeat split; assumption|].
  unfold FI, fi_inv. simpl. repeat split; try assumption.
  - intros r' [Heq | Hin]; [subst r'; exact Hs | apply H1; exact Hin].
  - constructor; [|exact H3]. intros Hin. apply memN_In in Hin. congruence.
  - intros x [Hx | Hx]; [subst x; apply In_ridxs; exact Hr | apply H5; exact Hx].
Qed.

Lemma fold_left_inv {S X} (P : S -> Prop) (f : S -> X -> S) l :
  (forall s x, In x l -> P s -> P (f s x)) -> forall s, P s -> P (fold_left f l s).
Proof.
  induction l as [|x l IH]; intros Hf s Hs; simpl; [exact Hs|].
  apply IH; [intros s0 x0 Hin; apply Hf; right; exact Hin|]. apply Hf; [left; reflexivity | exact Hs].
Qed.

Lemma FI_is_set g s t st : FI g st -> fi_is_set s t st = true -> first_spec g s t.
Proof. intros (_ & H2 & _) H. apply H2. apply memP_In. exact H. Qed.

Lemma FI_is_eps g s st : FI g st -> fi_is_eps s st = true -> nullable_spec g s.
Proof. intros (H1 & _) H. apply H1. apply memN_In. exact H. Qed.

Lemma fi_union_inv g ridx s st : FI g st -> (ridx < nrules g)%N ->
  (forall t, first_spec g s t -> first_spec g ridx t) -> FI g (fi_union g ridx s st).
Proof.
  intros Hst Hr Hsub. unfold fi_union. apply fold_left_inv; [|exact Hst].
  intros s0 t Ht Hs0. destruct (fi_is_set s t s0) eqn:Hm; [|exact Hs0].
  apply fi_set_inv; [exact Hs0 | | exact Hr | apply In_tidxs; exact Ht].
  apply Hsub. exact (FI_is_set g s t s0 Hs0 Hm).
Qed.

Lemma fi_scan_inv g ridx : wf_grammar g = true -> (ridx < nrules g)%N ->
  forall l st, FI g st -> derives g [R ridx] l ->
    (forall x, In x l -> sym_in_range g x = true) -> FI g (fi_scan g ridx l st).
Proof.
  intros Hwf Hr. induction l as [|x l IH]; intros st Hst Hd Hrng; simpl; [exact Hst|].
  destruct x as [t | s].
  - apply fi_set_inv; [exact Hst | exists l; exact Hd | exact Hr|].
    specialize (Hrng (T t) (or_introl eq_refl)). apply N.ltb_lt. exact Hrng.
  - set (st1 := fi_union g ridx s st).
    assert (H1 : FI g st1).
    { apply fi_union_inv; [exact Hst | exact Hr|]. intros t (c & Hc). exists (c ++ l).
      eapply derives_trans; [exact Hd|]. exact (derives_ctx_r g [R s] (T t :: c) l Hc). }
    set (st2 := if fi_is_eps s st1 && is_nil l then fi_set_eps ridx st1 else st1).
    assert (H2 : FI g st2).
    { unfold st2. destruct (fi_is_eps s st1 && is_nil l) eqn:Hc; [|exact H1].
      apply andb_true_iff in Hc. destruct Hc as [He Hn].
      apply fi_set_eps_inv; [exact H1 | | exact Hr].
      destruct l; [|discriminate Hn]. unfold nullable_spec.
      eapply derives_trans; [exact Hd | exact (FI_is_eps g s st1 H1 He)]. }
    destruct (fi_is_eps s st2) eqn:He; [|exact H2].
    apply IH; [exact H2 | | intros x Hx; apply Hrng; right; exact Hx].
    eapply derives_trans; [exact Hd|].
    exact (derives_app g [R s] [] l l (FI_is_eps g s st2 H2 He) (d_refl g l)).
Qed.

Lemma fi_prod_inv g p st : wf_grammar g = true -> is_prod g p -> FI g st ->
  FI g (fi_prod g (lhs g p) (rhs g p) st).
Proof.
  intros Hwf Hp Hst. pose proof (wf_lhs_range g p Hwf Hp) as Hr.
  pose proof (derives_prod g p Hp) as Hd. unfold fi_prod.
  destruct (rhs g p) as [|x l] eqn:Hrhs.
  - apply fi_set_eps_inv; [exact Hst | exact Hd | exact Hr].
  - apply fi_scan_inv; try assumption.
    intros y Hy. apply (wf_rhs_range g p y Hwf Hp). rewrite Hrhs. exact Hy.
Qed.

Lemma fi_rule_inv g st ridx : wf_grammar g = true -> FI g st -> FI g (fi_rule g st ridx).
Proof.
  intros Hwf Hst. unfold fi_rule. apply fold_left_inv; [|exact Hst].
  intros s0 p Hp Hs0. apply In_rule_to_prods in Hp. destruct Hp as [Hp Hl]. subst ridx.
  apply fi_prod_inv; assumption.
Qed.

Lemma fi_round_inv g st : wf_grammar g = true -> FI g st -> FI g (fi_round g st).
Proof.
  intros Hwf Hst. unfold fi_round. apply fold_left_inv; [|exact Hst].
  intros s0 r _ Hs0. apply fi_rule_inv; assumption.
Qed.

(* closure: steps without effect on (t, false) *)
Lemma fi_set_fixed r a t : fi_set r a (t, false) = (t, false) -> In (r, a) (snd t).
Proof.
  unfold fi_set, fi_is_set. simpl. destruct (memP (r, a) (snd t)) eqn:Hm.
  - intros _. apply memP_In. exact Hm.
  - intros H. discriminate H.
Qed.

Lemma fi_set_eps_fixed r t : fi_set_eps r (t, false) = (t, false) -> In r (fst t).
Proof.
  unfold fi_set_eps, fi_is_eps. simpl. destruct (memN r (fst t)) eqn:Hm.
  - intros _. apply memN_In. exact Hm.
  - intros H. discriminate H.
Qed.

Lemma fi_union_fixed g ridx s t : fi_union g ridx s (t, false) = (t, false) ->
  forall a, (a < ntoks g)%N -> In (s, a) (snd t) -> In (ridx, a) (snd t).
Proof.
  intros H a Ha Hin. unfold fi_union in H.
  assert (Hend : snd (fold_left (fun st t0 => if fi_is_set s t0 st then fi_set ridx t0 st else st)
                        (tidxs g) (t, false)) = false) by (rewrite H; reflexivity).
  pose proof (fold_fixed fi_msz _ (tidxs g) (fun s0 x => fi_union_step_mono ridx s s0 x)
                (t, false) Hend a (proj2 (In_tidxs g a) Ha)) as Hs.
  cbv beta in Hs. replace (fi_is_set s a (t, false)) with true in Hs.
  - apply fi_set_fixed. exact Hs.
  - symmetry. unfold fi_is_set. simpl. apply memP_In. exact Hin.
Qed.

Lemma fi_scan_fixed g ridx t : incl (snd t) (rt_universe g) ->
  forall l, fi_scan g ridx l (t, false) = (t, false) ->
    (forall a, In a (first_seq (fst t) (snd t) l) -> In (ridx, a) (snd t)) /\
    (l <> [] -> nullable_seq (fst t) l = true -> In ridx (fst t)).
Proof.
  intros Hrng. induction l as [|x l IH]; intros H.
  - split; [intros a [] | intros Hne; exfalso; apply Hne; reflexivity].
  - destruct x as [a0 | s].
    + simpl in H. split.
      * intros a Ha. apply In_first_seq_T in Ha. subst a. apply fi_set_fixed. exact H.
      * intros _ Hn. discriminate Hn.
    + simpl in H.
      set (st1 := fi_union g ridx s (t, false)) in *.
      set (st2 := if fi_is_eps s st1 && is_nil l then fi_set_eps ridx st1 else st1) in *.
      assert (M1 : fi_mono (t, false) st1) by apply fi_union_mono.
      assert (M2 : fi_mono st1 st2).
      { unfold st2. destruct (fi_is_eps s st1 && is_nil l); [apply fi_set_eps_mono | apply mono_refl]. }
      assert (E2 : st2 = (t, false)).
      { destruct (fi_is_eps s st2).
        - assert (Hc : snd (fi_scan g ridx l st2) = false) by (rewrite H; reflexivity).
          pose proof (mono_false_eq _ _ _ (fi_scan_mono g ridx l st2) Hc) as He.
          rewrite <- He. exact H.
        - exact H. }
      assert (E1 : st1 = (t, false)).
      { apply (mono_false_eq fi_msz); [exact M1|].
        assert (Hc : snd st2 = false) by (rewrite E2; reflexivity).
        rewrite <- (mono_false_eq _ _ _ M2 Hc). exact Hc. }
      rewrite E2 in H.
      assert (Heps : fi_is_eps s (t, false) = memN s (fst t)) by reflexivity.
      rewrite Heps in H.
      split.
      * intros a Ha. apply In_first_seq_R in Ha. destruct Ha as [Ha | [Hm Ha]].
        -- apply (fi_union_fixed g ridx s t E1 a); [|exact Ha].
           exact (proj2 (proj1 (In_rt_universe g s a) (Hrng _ Ha))).
        -- rewrite Hm in H. exact (proj1 (IH H) a Ha).
      * intros _ Hn. rewrite nullable_seq_cons in Hn. apply andb_true_iff in Hn.
        destruct Hn as [Hs Hl]. simpl in Hs. rewrite Hs in H.
        destruct l as [|y l'].
        -- unfold st2 in E2. rewrite E1 in E2. rewrite Heps, Hs in E2. simpl in E2.
           apply fi_set_eps_fixed. exact E2.
        -- apply (proj2 (IH H)); [discriminate | exact Hl].
Qed.

Lemma fi_prod_fixed g ridx rhs t : incl (snd t) (rt_universe g) ->
  fi_prod g ridx rhs (t, false) = (t, false) ->
  (forall a, In a (first_seq (fst t) (snd t) rhs) -> In (ridx, a) (snd t)) /\
  (nullable_seq (fst t) rhs = true -> In ridx (fst t)).
Proof.
  intros Hrng H. unfold fi_prod in H. destruct rhs as [|x l].
  - split; [intros a [] | intros _; apply fi_set_eps_fixed; exact H].
  - destruct (fi_scan_fixed g ridx t Hrng (x :: l) H) as [H1 H2].
    split; [exact H1 | apply H2; discriminate].
Qed.

Lemma fi_round_fixed g t : wf_grammar g = true -> incl (snd t) (rt_universe g) ->
  fi_round g (t, false) = (t, false) ->
  nullable_closedP g (fst t) /\ first_closedP g (fst t) (snd t).
Proof.
  intros Hwf Hrng H.
  assert (Hp : forall p, is_prod g p -> fi_prod g (lhs g p) (rhs g p) (t, false) = (t, false)).
  { intros p Hp. unfold fi_round in H.
    assert (Hend : snd (fold_left (fi_rule g) (ridxs g) (t, false)) = false) by (rewrite H; reflexivity).
    pose proof (fold_fixed fi_msz (fi_rule g) (ridxs g) (fun s r => fi_rule_mono g s r) (t, false) Hend
                  (lhs g p) (proj2 (In_ridxs g (lhs g p)) (wf_lhs_range g p Hwf Hp))) as Hr.
    unfold fi_rule in Hr.
    assert (Hend2 : snd (fold_left (fun st p0 => fi_prod g (lhs g p) (rhs g p0) st)
                           (rule_to_prods g (lhs g p)) (t, false)) = false) by (rewrite Hr; reflexivity).
    exact (fold_fixed fi_msz _ _ (fun s p0 => fi_prod_mono g (lhs g p) (rhs g p0) s) (t, false) Hend2
             p (proj2 (In_rule_to_prods g (lhs g p) p) (conj Hp eq_refl))). }
  split.
  - intros p Hpp Hn. exact (proj2 (fi_prod_fixed g _ _ t Hrng (Hp p Hpp)) Hn).
  - intros p a Hpp Ha. exact (proj1 (fi_prod_fixed g _ _ t Hrng (Hp p Hpp)) a Ha).
Qed.

Lemma fi_inv_init g : fi_inv g ([], []).
Proof.
  unfold fi_inv. simpl.
  split; [intros r []|]. split; [intros r a []|].
  split; [constructor|]. split; [constructor|].
  split; intros x [].
Qed.

Lemma fi_round_inv' g : wf_grammar g = true ->
  forall t, fi_inv g t -> fi_inv g (fst (fi_round g (t, false))).
Proof. intros Hwf t Ht. apply (fi_round_inv g (t, false) Hwf). exact Ht. Qed.

Lemma firsts_mirror_inv g fuel t : wf_grammar g = true -> firsts_mirror fuel g = Done t ->
  fi_inv g t /\ nullable_exact g (fst t) /\ first_exact g (snd t).
Proof.
  intros Hwf H. unfold firsts_mirror in H.
  destruct (run_loop_done fi_msz (fi_round g) (fi_inv g) (fi_round_inv' g Hwf) (fi_round_mono g)
              fuel _ _ (fi_inv_init g) H) as [Hinv Hfix].
  split; [exact Hinv|].
  destruct Hinv as (H1 & H2 & _ & _ & _ & H6).
  destruct (fi_round_fixed g t Hwf H6 Hfix) as [Hcn Hcf].
  split.
  - apply nullable_sound_closed_exact; assumption.
  - apply first_sound_closed_exact with (nl := fst t); assumption.
Qed.

Lemma firsts_mirror_exact : firsts_mirror_exact_stmt.
Proof.
  intros g fuel nl fs Hwf H. destruct (firsts_mirror_inv g fuel (nl, fs) Hwf H) as (_ & Hn & Hf).
  split; [exact Hn | exact Hf].
Qed.

Lemma fi_inv_bound g t : fi_inv g t ->
  fi_msz t <= N.to_nat (nrules g) * (N.to_nat (ntoks g) + 1).
Proof.
  intros (_ & _ & H3 & H4 & H5 & H6). unfold fi_msz.
  pose proof (NoDup_incl_length H3 H5) as L1. pose proof (NoDup_incl_length H4 H6) as L2.
  rewrite length_ridxs in L1. rewrite length_rt_universe in L2. lia.
Qed.

Lemma firsts_mirror_terminates : firsts_mirror_terminates_stmt.
Proof.
  intros g fuel Hwf Hfuel. unfold firsts_mirror.
  destruct (run_loop_total fi_msz (fi_round g) (fi_inv g) (fi_round_inv' g Hwf) (fi_round_mono g)
              (N.to_nat (nrules g) * (N.to_nat (ntoks g) + 1)) (fi_inv_bound g)
              fuel ([], []) (fi_inv_init g)) as ([nl fs] & H).
  - unfold firsts_fuel in Hfuel. unfold fi_msz. simpl. lia.
  - exists nl, fs. exact H.
Qed.

(* ---- follows ------------------------------------------------------------------------------- *)

Notation fo_mono := (mono (@length pairN)).

Lemma fo_set_mono r a st : fo_mono st (fo_set r a st).
Proof.
  unfold fo_set. destruct (memP (r, a) (fst st)); [apply mono_refl|].
  unfold mono. simpl. repeat split; auto; lia.
Qed.

Lemma fo_copy_step_mono ridx s st t :
  fo_mono st (if memP (ridx, t) (fst st) then fo_set s t st else st).
Proof. destruct (memP (ridx, t) (fst st)); [apply fo_set_mono | apply mono_refl]. Qed.

Lemma fo_copy_mono g ridx s st : fo_mono st (fo_copy g ridx s st).
Proof. unfold fo_copy. apply mono_fold. intros s0 x. apply fo_copy_step_mono. Qed.

Lemma fo_or_mono fs s n st : fo_mono st (fo_or fs s n st).
Proof. unfold fo_or. apply mono_fold. intros s0 x. apply fo_set_mono. Qed.

Lemma fo_look_mono fixed nl fs s l : forall st, fo_mono st (fo_look fixed nl fs s l st).
Proof.
  induction l as [|x l IH]; intros st; simpl; [apply mono_refl|].
  destruct x as [t | n]; [apply fo_set_mono|].
  destruct (fixed && memN n nl).
  - eapply mono_trans; [apply fo_or_mono | apply IH].
  - apply fo_or_mono.
Qed.

Lemma fo_scan_mono g fixed nl fs ridx pre : forall suffix eps st,
  fo_mono st (fo_scan g fixed nl fs ridx pre suffix eps st).
Proof.
  induction pre as [|x pre IH]; intros suffix eps st; simpl; [apply mono_refl|].
  destruct x as [t | s]; [apply IH|].
  eapply mono_trans; [|apply IH].
  eapply mono_trans; [|apply fo_look_mono].
  destruct eps; [apply fo_copy_mono | apply mono_refl].
Qed.

Lemma fo_prod_mono g fixed nl fs st pr : fo_mono st (fo_prod g fixed nl fs st pr).
Proof. unfold fo_prod. apply fo_scan_mono. Qed.

Lemma fo_round_mono g fixed nl fs st : fo_mono st (fo_round g fixed nl fs st).
Proof. unfold fo_round. apply mono_fold. intros s0 pr. apply fo_prod_mono. Qed.

(* the textbook FOLLOW in the form used by the soundness argument *)
Definition tb (g : grammar) (r a : N) : Prop :=
  follow_from g [R (start_rule g); T (eof g)] r a \/
  exists q, (q < nrules g)%N /\ follow_from g [R q] r a.

Lemma tb_first g p u b v t c : wf_grammar g = true -> is_prod g p ->
  rhs g p = u ++ R b :: v -> derives g v (T t :: c) -> tb g b t.
Proof.
  intros Hwf Hp Hr Hv. right. exists (lhs g p). split; [apply wf_lhs_range; assumption|].
  apply (follow_from_first g [R (lhs g p)] p u b v t c); try assumption.
  exists [], []. apply d_refl.
Qed.

Lemma tb_follow g p u b v t : is_prod g p -> rhs g p = u ++ R b :: v -> derives g v [] ->
  tb g (lhs g p) t -> tb g b t.
Proof.
  intros Hp Hr Hv [Hf | (q & Hq & Hf)].
  - left. exact (follow_from_follow g _ p u b v t Hf Hp Hr Hv).
  - right. exists q. split; [exact Hq|]. exact (follow_from_follow g [R q] p u b v t Hf Hp Hr Hv).
Qed.

Section Follows.
Variable g : grammar.
Variables (nl : list N) (fs : list pairN).
Hypothesis Hwf : wf_grammar g = true.
Hypothesis Hnl : nullable_exact g nl.
Hypothesis Hfs : first_exact g fs.
Hypothesis Hfsr : incl fs (rt_universe g).

Definition fo_inv (fo : list pairN) : Prop :=
  (forall r a, In (r, a) fo -> tb g r a) /\ NoDup fo /\ incl fo (rt_universe g) /\
  In (start_rule g, eof g) fo.
Definition FO (st : fo_state) : Prop := fo_inv (fst st).

Lemma fo_set_inv r a st : FO st -> tb g r a -> (r < nrules g)%N -> (a < ntoks g)%N ->
  FO (fo_set r a st).
Proof.
  intros (H1 & H2 & H3 & H4) Hs Hr Ha. unfold fo_set.
  destruct (memP (r, a) (fst st)) eqn:Hm; [repeat split; assumption|].
  unfold FO, fo_inv. simpl. repeat split.
  - intros r' a' [Heq | Hin]; [injection Heq as <- <-; exact Hs | apply H1; exact Hin].
  - constructor; [|exact H2]. intros Hin. apply memP_In in Hin. congruence.
  - intros x [Hx | Hx]; [subst x; apply In_rt_universe; split; assumption | apply H3; exact Hx].
  - right. exact H4.
Qed.

Lemma fo_copy_inv ridx s st : FO st -> (s < nrules g)%N ->
  (forall t, tb g ridx t -> tb g s t) -> FO (fo_copy g ridx s st).
Proof.
  intros Hst Hs Hsub. unfold fo_copy. apply fold_left_inv; [|exact Hst].
  intros s0 t Ht Hs0. destruct (memP (ridx, t) (fst s0)) eqn:Hm; [|exact Hs0].
  apply fo_set_inv; [exact Hs0 | | exact Hs | apply In_tidxs; exact Ht].
  apply Hsub. apply (proj1 Hs0). apply memP_In. exact Hm.
Qed.

Lemma fo_or_inv s n st : FO st -> (s < nrules g)%N ->
  (forall t, In (n, t) fs -> tb g s t) -> FO (fo_or fs s n st).
Proof.
  intros Hst Hs Hsub. unfold fo_or. apply fold_left_inv; [|exact Hst].
  intros s0 t Ht Hs0. apply In_first_of_rule in Ht.
  apply fo_set_inv; [exact Hs0 | apply Hsub; exact Ht | exact Hs|].
  exact (proj2 (proj1 (In_rt_universe g n t) (Hfsr _ Ht))).
Qed.

Lemma fo_look_inv fixed s : (s < nrules g)%N ->
  forall l st, FO st -> (forall t c, derives g l (T t :: c) -> tb g s t) ->
    (forall x, In x l -> sym_in_range g x = true) -> FO (fo_look fixed nl fs s l st).
Proof.
  intros Hs. induction l as [|x l IH]; intros st Hst Hd Hrng; simpl; [exact Hst|].
  destruct x as [t | n].
  - apply fo_set_inv; [exact Hst | apply (Hd t l); apply d_refl | exact Hs|].
    specialize (Hrng (T t) (or_introl eq_refl)). apply N.ltb_lt. exact Hrng.
  - assert (H1 : FO (fo_or fs s n st)).
    { apply fo_or_inv; [exact Hst | exact Hs|]. intros t Ht. apply Hfs in Ht.
      destruct Ht as (c & Hc). apply (Hd t (c ++ l)).
      exact (derives_ctx_r g [R n] (T t :: c) l Hc). }
    destruct (fixed && memN n nl) eqn:Hc; [|exact H1].
    apply andb_true_iff in Hc. destruct Hc as [_ Hn]. apply memN_In in Hn. apply Hnl in Hn.
    apply IH; [exact H1 | | intros x Hx; apply Hrng; right; exact Hx].
    intros t c Hc. apply (Hd t c). eapply derives_trans; [|exact Hc].
    exact (derives_app g [R n] [] l l Hn (d_refl g l)).
Qed.

Lemma fo_scan_inv fixed p : is_prod g p ->
  forall pre suffix eps st, FO st -> rhs g p = rev pre ++ suffix ->
    (eps = true -> derives g suffix []) ->
    FO (fo_scan g fixed nl fs (lhs g p) pre suffix eps st).
Proof.
  intros Hp. induction pre as [|x pre IH]; intros suffix eps st Hst Hr He; simpl; [exact Hst|].
  assert (Hr' : rhs g p = rev pre ++ x :: suffix).
  { rewrite Hr. simpl. rewrite <- app_assoc. reflexivity. }
  destruct x as [t | s].
  - apply IH; [exact Hst | exact Hr' | intros H; discriminate H].
  - assert (Hs : (s < nrules g)%N).
    { assert (Hin : In (R s) (rhs g p)) by (rewrite Hr'; apply in_or_app; right; left; reflexivity).
      pose proof (wf_rhs_range g p (R s) Hwf Hp Hin) as H. apply N.ltb_lt. exact H. }
    apply IH; [| exact Hr' |].
    + apply fo_look_inv; [exact Hs | | |].
      * destruct eps; [|exact Hst]. apply fo_copy_inv; [exact Hst | exact Hs|].
        intros t Ht. exact (tb_follow g p (rev pre) s suffix t Hp Hr' (He eq_refl) Ht).
      * intros t c Hc. exact (tb_first g p (rev pre) s suffix t c Hwf Hp Hr' Hc).
      * intros x Hx. apply (wf_rhs_range g p x Hwf Hp). rewrite Hr'.
        apply in_or_app. right. right. exact Hx.
    + intros H. destruct (memN s nl) eqn:Hm; [|discriminate H].
      apply memN_In in Hm. apply Hnl in Hm.
      exact (derives_app g [R s] [] suffix [] Hm (He H)).
Qed.

Lemma fo_prod_inv fixed st pr : In pr (prods g) -> FO st -> FO (fo_prod g fixed nl fs st pr).
Proof.
  intros Hin Hst. apply in_prods_prod in Hin. destruct Hin as (p & Hp & Hl & Hr).
  unfold fo_prod. rewrite <- Hl, <- Hr. apply fo_scan_inv; [exact Hp | exact Hst | |].
  - rewrite rev_involutive, app_nil_r. reflexivity.
  - intros _. apply d_refl.
Qed.

Lemma fo_round_inv fixed st : FO st -> FO (fo_round g fixed nl fs st).
Proof.
  intros Hst. unfold fo_round. apply fold_left_inv; [|exact Hst].
  intros s0 pr Hin Hs0. apply fo_prod_inv; assumption.
Qed.

(* closure *)
Lemma fo_set_fixed r a fo : fo_set r a (fo, false) = (fo, false) -> In (r, a) fo.
Proof.
  unfold fo_set. simpl. destruct (memP (r, a) fo) eqn:Hm.
  - intros _. apply memP_In. exact Hm.
  - intros H. discriminate H.
Qed.

Lemma fo_copy_fixed ridx s fo : fo_copy g ridx s (fo, false) = (fo, false) ->
  forall a, (a < ntoks g)%N -> In (ridx, a) fo -> In (s, a) fo.
Proof.
  intros H a Ha Hin. unfold fo_copy in H.
  assert (Hend : snd (fold_left (fun st t => if memP (ridx, t) (fst st) then fo_set s t st else st)
                        (tidxs g) (fo, false)) = false) by (rewrite H; reflexivity).
  pose proof (fold_fixed (@length pairN) _ (tidxs g) (fun s0 x => fo_copy_step_mono ridx s s0 x)
                (fo, false) Hend a (proj2 (In_tidxs g a) Ha)) as Hs.
  cbv beta in Hs. simpl fst in Hs. replace (memP (ridx, a) fo) with true in Hs.
  - apply fo_set_fixed. exact Hs.
  - symmetry. apply memP_In. exact Hin.
Qed.

Lemma fo_or_fixed s n fo : fo_or fs s n (fo, false) = (fo, false) ->
  forall a, In (n, a) fs -> In (s, a) fo.
Proof.
  intros H a Hin. unfold fo_or in H.
  assert (Hend : snd (fold_left (fun st t => fo_set s t st) (first_of_rule fs n) (fo, false)) = false)
    by (rewrite H; reflexivity).
  pose proof (fold_fixed (@length pairN) _ (first_of_rule fs n) (fun s0 x => fo_set_mono s x s0)
                (fo, false) Hend a (proj2 (In_first_of_rule fs n a) Hin)) as Hs.
  apply fo_set_fixed. exact Hs.
Qed.

Lemma fo_look_fixed s fo : forall l, fo_look true nl fs s l (fo, false) = (fo, false) ->
  forall a, In a (first_seq nl fs l) -> In (s, a) fo.
Proof.
  induction l as [|x l IH]; intros H a Ha; [destruct Ha|].
  destruct x as [t | n].
  - apply In_first_seq_T in Ha. subst a. apply fo_set_fixed. exact H.
  - simpl in H. set (st' := fo_or fs s n (fo, false)) in *.
    assert (E : st' = (fo, false)).
    { destruct (memN n nl).
      - assert (Hc : snd (fo_look true nl fs s l st') = false) by (rewrite H; reflexivity).
        pose proof (mono_false_eq _ _ _ (fo_look_mono true nl fs s l st') Hc) as He.
        rewrite <- He. exact H.
      - exact H. }
    apply In_first_seq_R in Ha. destruct Ha as [Ha | [Hm Ha]].
    + exact (fo_or_fixed s n fo E a Ha).
    + rewrite Hm, E in H. exact (IH H a Ha).
Qed.

Lemma fo_scan_fixed ridx fo : incl fo (rt_universe g) ->
  forall pre suffix eps, eps = nullable_seq nl suffix ->
    fo_scan g true nl fs ridx pre suffix eps (fo, false) = (fo, false) ->
    forall u b w, rev pre = u ++ R b :: w ->
      (forall a, In a (first_seq nl fs (w ++ suffix)) -> In (b, a) fo) /\
      (nullable_seq nl (w ++ suffix) = true -> forall a, In (ridx, a) fo -> In (b, a) fo).
Proof.
  intros Hrng. induction pre as [|x pre IH]; intros suffix eps Heps H u b w Hsplit.
  - destruct u; discriminate Hsplit.
  - simpl in Hsplit. destruct x as [t | s].
    + simpl in H. apply snoc_eq_mid in Hsplit.
      destruct Hsplit as [(_ & _ & Hx) | (w' & Hw & Hpre)]; [discriminate Hx|].
      subst w. rewrite <- app_assoc. simpl.
      apply (IH (T t :: suffix) false eq_refl H u b w' Hpre).
    + simpl in H.
      set (st1 := if eps then fo_copy g ridx s (fo, false) else (fo, false)) in *.
      set (eps' := if memN s nl then eps else false) in *.
      set (st2 := fo_look true nl fs s suffix st1) in *.
      assert (M1 : fo_mono (fo, false) st1).
      { unfold st1. destruct eps; [apply fo_copy_mono | apply mono_refl]. }
      assert (M2 : fo_mono st1 st2) by apply fo_look_mono.
      assert (E2 : st2 = (fo, false)).
      { assert (Hc : snd (fo_scan g true nl fs ridx pre (R s :: suffix) eps' st2) = false)
          by (rewrite H; reflexivity).
        pose proof (mono_false_eq _ _ _ (fo_scan_mono g true nl fs ridx pre (R s :: suffix) eps' st2) Hc) as He.
        rewrite <- He. exact H. }
      assert (E1 : st1 = (fo, false)).
      { apply (mono_false_eq (@length pairN)); [exact M1|].
        assert (Hc : snd st2 = false) by (rewrite E2; reflexivity).
        rewrite <- (mono_false_eq _ _ _ M2 Hc). exact Hc. }
      assert (Heps' : eps' = nullable_seq nl (R s :: suffix)).
      { unfold eps'. rewrite nullable_seq_cons. simpl. rewrite <- Heps.
        destruct (memN s nl); reflexivity. }
      rewrite E2 in H.
      apply snoc_eq_mid in Hsplit.
      destruct Hsplit as [(Hw & Hu & Hx) | (w' & Hw & Hpre)].
      * injection Hx as Hx. subst w b. simpl. split.
        -- apply fo_look_fixed. unfold st2 in E2. rewrite E1 in E2. exact E2.
        -- intros Hn a Ha. rewrite <- Heps in Hn. unfold st1 in E1. rewrite Hn in E1.
           apply (fo_copy_fixed ridx s fo E1 a); [|exact Ha].
           exact (proj2 (proj1 (In_rt_universe g ridx a) (Hrng _ Ha))).
      * subst w. rewrite <- app_assoc. simpl.
        apply (IH (R s :: suffix) eps' Heps' H u b w' Hpre).
Qed.

Lemma fo_round_fixed fo : incl fo (rt_universe g) ->
  fo_round g true nl fs (fo, false) = (fo, false) ->
  forall p, is_prod g p -> incl (follow_contrib nl fs fo (lhs g p) (rhs g p)) fo.
Proof.
  intros Hrng H p Hp [b a] Hin. apply In_follow_contrib in Hin.
  destruct Hin as (u & v & Hr & Hc).
  unfold fo_round in H.
  assert (Hend : snd (fold_left (fo_prod g true nl fs) (prods g) (fo, false)) = false)
    by (rewrite H; reflexivity).
  pose proof (fold_fixed (@length pairN) (fo_prod g true nl fs) (prods g)
                (fun s pr => fo_prod_mono g true nl fs s pr) (fo, false) Hend
                (lhs g p, rhs g p) (prod_in_prods g p Hp)) as Hs.
  unfold fo_prod in Hs. simpl fst in Hs. simpl snd in Hs.
  destruct (fo_scan_fixed (lhs g p) fo Hrng (rev (rhs g p)) [] true eq_refl Hs u b v) as [H1 H2].
  - rewrite rev_involutive. exact Hr.
  - rewrite app_nil_r in H1, H2. destruct Hc as [Hc | [Hn Hc]].
    + apply H1. exact Hc.
    + apply H2; assumption.
Qed.

Lemma fo_inv_init : fo_inv [(start_rule g, eof g)].
Proof.
  unfold fo_inv. split; [|split; [|split]].
  - intros r a [Heq | []]. injection Heq as <- <-. left. apply follow_from_start.
  - constructor; [intros [] | constructor].
  - intros x [Hx | []]. subst x. apply In_rt_universe.
    split; [apply wf_start_rule_range | apply wf_eof_range]; exact Hwf.
  - left. reflexivity.
Qed.

Lemma fo_round_inv' fixed : forall t, fo_inv t -> fo_inv (fst (fo_round g fixed nl fs (t, false))).
Proof. intros t Ht. apply (fo_round_inv fixed (t, false)). exact Ht. Qed.

Lemma follows_mirror_sound fixed fuel fo : follows_mirror fixed fuel g nl fs = Done fo ->
  forall r a, In (r, a) fo -> follow_textbook_spec g r a.
Proof.
  intros H r a Hin. unfold follows_mirror in H.
  destruct (run_loop_done (@length pairN) (fo_round g fixed nl fs) fo_inv (fo_round_inv' fixed)
              (fo_round_mono g fixed nl fs) fuel _ _ fo_inv_init H) as [(H1 & _) _].
  apply follow_textbook_spec_from. exact (H1 r a Hin).
Qed.

Lemma follows_mirror_exact' fuel fo : follows_mirror true fuel g nl fs = Done fo ->
  forall r a, In (r, a) fo <-> follow_textbook_spec g r a.
Proof.
  intros H r a. split; [apply (follows_mirror_sound true fuel fo H)|].
  unfold follows_mirror in H.
  destruct (run_loop_done (@length pairN) (fo_round g true nl fs) fo_inv (fo_round_inv' true)
              (fo_round_mono g true nl fs) fuel _ _ fo_inv_init H) as [(_ & _ & H3 & H4) Hfix].
  pose proof (fo_round_fixed fo H3 Hfix) as Hcl.
  rewrite follow_textbook_spec_from. intros [Hf | (q & _ & Hf)].
  - apply (finv_follow_from g (fun _ => true) nl fs Hnl Hfs fo)
      with (s0 := [R (start_rule g); T (eof g)]); try exact Hf.
    + intros; reflexivity.
    + intros p Hp _. apply Hcl. exact Hp.
    + apply finv_start; [reflexivity | exact H4].
  - apply (finv_follow_from g (fun _ => true) nl fs Hnl Hfs fo) with (s0 := [R q]); try exact Hf.
    + intros; reflexivity.
    + intros p Hp _. apply Hcl. exact Hp.
    + apply finv_single. reflexivity.
Qed.

Lemma fo_inv_bound t : fo_inv t -> length t <= N.to_nat (nrules g) * N.to_nat (ntoks g).
Proof.
  intros (_ & H2 & H3 & _). pose proof (NoDup_incl_length H2 H3) as L.
  rewrite length_rt_universe in L. exact L.
Qed.

Lemma follows_mirror_terminates' fixed fuel : (follows_fuel g <= fuel)%nat ->
  exists fo, follows_mirror fixed fuel g nl fs = Done fo.
Proof.
  intros Hfuel. unfold follows_mirror.
  apply (run_loop_total (@length pairN) (fo_round g fixed nl fs) fo_inv (fo_round_inv' fixed)
           (fo_round_mono g fixed nl fs) (N.to_nat (nrules g) * N.to_nat (ntoks g)) fo_inv_bound
           fuel _ fo_inv_init).
  unfold follows_fuel in Hfuel. simpl. lia.
Qed.
End Follows.

(* ---- the statements of MirrorSpec.v ------------------------------------------------------------ *)

Lemma firsts_mirror_range g f1 nl fs : wf_grammar g = true -> firsts_mirror f1 g = Done (nl, fs) ->
  nullable_exact g nl /\ first_exact g fs /\ incl fs (rt_universe g).
Proof.
  intros Hwf H. destruct (firsts_mirror_inv g f1 (nl, fs) Hwf H) as ((_ & _ & _ & _ & _ & H6) & Hn & Hf).
  split; [exact Hn|]. split; [exact Hf | exact H6].
Qed.

Lemma follows_mirror_exact : follows_mirror_exact_stmt.
Proof.
  intros g f1 f2 nl fs fo Hwf H1 H2.
  destruct (firsts_mirror_range g f1 nl fs Hwf H1) as (Hn & Hf & Hr).
  exact (follows_mirror_exact' g nl fs Hwf Hn Hf Hr f2 fo H2).
Qed.

Lemma follows_mirror_orig_sound : follows_mirror_orig_sound_stmt.
Proof.
  intros g f1 f2 nl fs fo Hwf H1 H2.
  destruct (firsts_mirror_range g f1 nl fs Hwf H1) as (Hn & Hf & Hr).
  exact (follows_mirror_sound g nl fs Hwf Hn Hf Hr false f2 fo H2).
Qed.

Lemma follows_mirror_terminates : follows_mirror_terminates_stmt.
Proof.
  intros g fixed f1 nl fs fuel Hwf H1 Hfuel.
  destruct (firsts_mirror_range g f1 nl fs Hwf H1) as (Hn & Hf & Hr).
  exact (follows_mirror_terminates' g nl fs Hwf Hn Hf Hr fixed fuel Hfuel).
Qed.

(* textbook = strict when every rule occurs in a sentential form of ^ *)
Lemma textbook_strict g r a : all_reachable g ->
  (follow_textbook_spec g r a <-> follow_spec g r a).
Proof.
  intros Hall. unfold follow_textbook_spec, follow_spec. split; [|intros H; left; exact H].
  intros [H | (q & b & c & Hq & Hd)]; [exact H|].
  assert (Hocc : exists b0 c0, derives g [R (start_rule g); T (eof g)] (b0 ++ R q :: c0)).
  { destruct (Hall q Hq) as [Heq | Hre].
    - subst q. exists [], [T (eof g)]. apply d_refl.
    - exact (reaches_context g _ _ Hre [] [T (eof g)]). }
  destruct Hocc as (b0 & c0 & H0).
  exists (b0 ++ b), (c ++ c0). eapply derives_trans; [exact H0|].
  replace (b0 ++ R q :: c0) with (b0 ++ [R q] ++ c0) by reflexivity.
  replace ((b0 ++ b) ++ R r :: T a :: c ++ c0) with (b0 ++ (b ++ R r :: T a :: c) ++ c0)
    by (rewrite <- !app_assoc; reflexivity).
  apply derives_ctx. exact Hd.
Qed.

Lemma follows_mirror_strict : follows_mirror_strict_stmt.
Proof.
  intros g f1 f2 nl fs fo Hwf Hall H1 H2 r a.
  rewrite <- (textbook_strict g r a Hall). exact (follows_mirror_exact g f1 f2 nl fs fo Hwf H1 H2 r a).
Qed.

Lemma ff_mirror_total_exact : ff_mirror_total_exact_stmt.
Proof.
  intros g Hwf. unfold ff_mirror.
  destruct (firsts_mirror_terminates g (firsts_fuel g) Hwf (le_n _)) as (nl & fs & H1).
  destruct (follows_mirror_terminates g true (firsts_fuel g) nl fs (follows_fuel g) Hwf H1 (le_n _))
    as (fo & H2).
  rewrite H1, H2. exists nl, fs, fo. split; [reflexivity|].
  destruct (firsts_mirror_exact g _ nl fs Hwf H1) as [Hn Hf].
  split; [exact Hn|]. split; [exact Hf|].
  exact (follows_mirror_exact g _ _ nl fs fo Hwf H1 H2).
Qed.

(* reachability of the witness grammars, via the proved-exact reference *)
Lemma all_reachable_by_ref g rs : reach_ref g = Some rs ->
  forallb (fun q => N.eqb q (start_rule g) || memP (start_rule g, q) rs) (ridxs g) = true ->
  all_reachable g.
Proof.
  intros Hrs Hall q Hq. rewrite forallb_forall in Hall.
  specialize (Hall q (proj2 (In_ridxs g q) Hq)). apply orb_true_iff in Hall.
  destruct Hall as [H | H]; [left; apply N.eqb_eq; exact H|].
  right. apply (reach_ref_exact' g rs Hrs). apply memP_In. exact H.
Qed.

Lemma follows_mirror_orig_refuted : follows_mirror_orig_refuted_stmt.
Proof.
  exists g_follow_witness.
  assert (Hm : exists nl fs fo, ff_mirror false g_follow_witness = Done (nl, fs, fo) /\
                                memP (2, 2)%N fo = false).
  { do 3 eexists. split; [vm_compute; reflexivity | vm_compute; reflexivity]. }
  destruct Hm as (nl & fs & fo & Hff & Hnot).
  exists nl, fs, fo, 2%N, 2%N.
  split; [vm_compute; reflexivity|].
  split.
  { eapply all_reachable_by_ref; [vm_compute; reflexivity | vm_compute; reflexivity]. }
  split; [exact Hff|].
  split.
  - assert (Hs : exists fo', follow_strict_ref g_follow_witness = Some fo' /\ memP (2, 2)%N fo' = true).
    { eexists. split; [vm_compute; reflexivity | vm_compute; reflexivity]. }
    destruct Hs as (fo' & Hfo & Hm). apply (follow_strict_exact' _ fo' Hfo). apply memP_In. exact Hm.
  - intros Hin. apply memP_In in Hin. congruence.
Qed.

Lemma follows_mirror_strict_refuted : follows_mirror_strict_refuted_stmt.
Proof.
  exists g_unreachable_witness.
  assert (Hm : exists nl fs fo, ff_mirror true g_unreachable_witness = Done (nl, fs, fo) /\
                                memP (2, 1)%N fo = true).
  { do 3 eexists. split; [vm_compute; reflexivity | vm_compute; reflexivity]. }
  destruct Hm as (nl & fs & fo & Hff & Hin).
  exists nl, fs, fo, 2%N, 1%N.
  split; [vm_compute; reflexivity|]. split; [exact Hff|].
  split; [apply memP_In; exact Hin|].
  assert (Hs : exists fo', follow_strict_ref g_unreachable_witness = Some fo' /\ memP (2, 1)%N fo' = false).
  { eexists. split; [vm_compute; reflexivity | vm_compute; reflexivity]. }
  destruct Hs as (fo' & Hfo & Hn). intros Hsp.
  apply (follow_strict_exact' _ fo' Hfo) in Hsp. apply memP_In in Hsp. congruence.
Qed.

(* the hypotheses of the theorems above are satisfiable, and the fixed loop finds 'c' *)
Example mirror_hypotheses_satisfiable :
  wf_grammar g_follow_witness = true /\ all_reachable g_follow_witness /\
  exists nl fs fo, firsts_mirror 5 g_follow_witness = Done (nl, fs) /\
                   follows_mirror true 5 g_follow_witness nl fs = Done fo /\
                   In (2, 2)%N fo.
Proof.
  split; [vm_compute; reflexivity|].
  split; [eapply all_reachable_by_ref; vm_compute; reflexivity|].
  do 3 eexists. split; [vm_compute; reflexivity|]. split; [vm_compute; reflexivity|].
  apply memP_In. vm_compute. reflexivity.
Qed.
