(* C17 (mirror part) — proofs.
   Generic part: a step [s -> s'] on (table, changed) is [mono] when the flag
   only rises, a low flag afterwards means an untouched table, and a flag raised
   by the step means a strictly larger table.  [mono] is a preorder, so folds of
   mono steps are mono; a round that ends with the flag low has applied every one
   of its steps to the final table without effect (closure); a round that ends
   with the flag high has grown the table (termination). *)
From Coq Require Import List Arith NArith Bool Lia.
From GV Require Import Common.Outcome Base.Grammar Base.Analyses Base.GrammarFacts Base.AnalysesProofs
  C17.MirrorModel C17.MirrorSpec.
Import ListNotations.

Section Mono.
Context {T : Type} (msz : T -> nat).

Definition mono (s s' : T * bool) : Prop :=
  (snd s = true -> snd s' = true) /\
  (snd s' = false -> fst s' = fst s) /\
  msz (fst s) <= msz (fst s') /\
  (snd s' = true -> snd s = true \/ msz (fst s) < msz (fst s')).

Lemma mono_refl s : mono s s.
Proof. unfold mono. repeat split; auto. Qed.

Lemma mono_trans a b c : mono a b -> mono b c -> mono a c.
Proof.
  intros (A1 & A2 & A3 & A4) (B1 & B2 & B3 & B4). unfold mono. repeat split.
  - intros H. apply B1. apply A1. exact H.
  - intros H. rewrite (B2 H). apply A2.
    destruct (snd b) eqn:Hb; [|reflexivity]. rewrite (B1 eq_refl) in H. discriminate H.
  - lia.
  - intros H. destruct (B4 H) as [Hb | Hlt].
    + destruct (A4 Hb) as [Ha | Hlt]; [left; exact Ha | right; lia].
    + right. lia.
Qed.

Lemma mono_false_eq s s' : mono s s' -> snd s' = false -> s' = s.
Proof.
  intros (A1 & A2 & _ & _) H. destruct s as [t c], s' as [t' c']. simpl in *.
  subst c'. rewrite (A2 eq_refl). f_equal.
  destruct c; [|reflexivity]. apply A1. reflexivity.
Qed.

Lemma mono_fold {X} (f : T * bool -> X -> T * bool) l :
  (forall s x, mono s (f s x)) -> forall s, mono s (fold_left f l s).
Proof.
  intros Hf. induction l as [|x l IH]; intros s; simpl; [apply mono_refl|].
  eapply mono_trans; [apply Hf | apply IH].
Qed.

(* a fold of mono steps that ends with the flag low: every step was without effect *)
Lemma fold_fixed {X} (f : T * bool -> X -> T * bool) l :
  (forall s x, mono s (f s x)) ->
  forall s, snd (fold_left f l s) = false -> forall x, In x l -> f s x = s.
Proof.
  intros Hf. induction l as [|x0 l IH]; intros s Hend x Hin; [destruct Hin|].
  simpl in Hend.
  assert (H0 : f s x0 = s).
  { apply mono_false_eq; [apply Hf|].
    rewrite <- (mono_false_eq _ _ (mono_fold f l Hf (f s x0)) Hend). exact Hend. }
  destruct Hin as [Hx | Hin]; [subst x0; exact H0|].
  rewrite H0 in Hend. exact (IH s Hend x Hin).
Qed.

Lemma fold_fixed_eq {X} (f : T * bool -> X -> T * bool) l :
  (forall s x, mono s (f s x)) ->
  forall s, snd (fold_left f l s) = false -> fold_left f l s = s.
Proof. intros Hf s H. apply mono_false_eq; [apply mono_fold; exact Hf | exact H]. Qed.

(* the loop *)
Section Loop.
Variable round : T * bool -> T * bool.
Variable Inv : T -> Prop.
Hypothesis Hround_inv : forall t, Inv t -> Inv (fst (round (t, false))).
Hypothesis Hround_mono : forall s, mono s (round s).

Lemma run_loop_done fuel : forall t t', Inv t -> run_loop round fuel t = Done t' ->
  Inv t' /\ round (t', false) = (t', false).
Proof.
  induction fuel as [|k IH]; intros t t' Ht H; simpl in H; [discriminate H|].
  destruct (snd (round (t, false))) eqn:Hc.
  - apply (IH (fst (round (t, false)))); [apply Hround_inv; exact Ht | exact H].
  - injection H as H. pose proof (mono_false_eq _ _ (Hround_mono (t, false)) Hc) as He.
    rewrite He in H. simpl in H. subst t'. split; [exact Ht | exact He].
Qed.

Variable bound : nat.
Hypothesis Hbound : forall t, Inv t -> msz t <= bound.

Lemma run_loop_total fuel : forall t, Inv t -> bound < fuel + msz t ->
  exists t', run_loop round fuel t = Done t'.
Proof.
  induction fuel as [|k IH]; intros t Ht Hlt.
  - pose proof (Hbound t Ht). simpl in Hlt. lia.
  - simpl. destruct (snd (round (t, false))) eqn:Hc.
    + apply IH; [apply Hround_inv; exact Ht|].
      destruct (Hround_mono (t, false)) as (_ & _ & _ & H4).
      destruct (H4 Hc) as [H | H]; [discriminate H|]. simpl in H. lia.
    + eexists. reflexivity.
Qed.
End Loop.
End Mono.

(* ---- lists -------------------------------------------------------------------------- *)

Lemma snoc_eq_mid {A} (l u w : list A) (x y : A) :
  l ++ [x] = u ++ y :: w ->
  (w = [] /\ l = u /\ x = y) \/ (exists w', w = w' ++ [x] /\ l = u ++ y :: w').
Proof.
  intros H. induction w as [|z w _] using rev_ind.
  - left. apply app_inj_tail in H. destruct H as [H1 H2]. repeat split; assumption.
  - right. replace (u ++ y :: w ++ [z]) with ((u ++ y :: w) ++ [z]) in H
      by (rewrite <- app_assoc; reflexivity).
    apply app_inj_tail in H. destruct H as [H1 H2]. subst z. exists w. split; [reflexivity | exact H1].
Qed.

Lemma In_rule_to_prods g r p : In p (rule_to_prods g r) <-> is_prod g p /\ lhs g p = r.
Proof.
  unfold rule_to_prods. rewrite filter_In, In_pidxs, N.eqb_eq. reflexivity.
Qed.

(* ---- firsts ------------------------------------------------------------------------------ *)

Definition fi_msz (t : fi_tbl) : nat := length (fst t) + length (snd t).
Notation fi_mono := (mono fi_msz).

Lemma fi_set_mono r a st : fi_mono st (fi_set r a st).
Proof.
  unfold fi_set. destruct (fi_is_set r a st); [apply mono_refl|].
  unfold mono, fi_msz. simpl. repeat split; auto; lia.
Qed.

Lemma fi_set_eps_mono r st : fi_mono st (fi_set_eps r st).
Proof.
  unfold fi_set_eps. destruct (fi_is_eps r st); [apply mono_refl|].
  unfold mono, fi_msz. simpl. repeat split; auto; lia.
Qed.

Lemma fi_union_step_mono ridx s st t :
  fi_mono st (if fi_is_set s t st then fi_set ridx t st else st).
Proof. destruct (fi_is_set s t st); [apply fi_set_mono | apply mono_refl]. Qed.

Lemma fi_union_mono g ridx s st : fi_mono st (fi_union g ridx s st).
Proof. unfold fi_union. apply mono_fold. intros s0 x. apply fi_union_step_mono. Qed.

Lemma fi_scan_mono g ridx l : forall st, fi_mono st (fi_scan g ridx l st).
Proof.
  induction l as [|x l IH]; intros st; simpl; [apply mono_refl|].
  destruct x as [t | s]; [apply fi_set_mono|].
  set (st1 := fi_union g ridx s st).
  set (st2 := if fi_is_eps s st1 && is_nil l then fi_set_eps ridx st1 else st1).
  assert (H1 : fi_mono st st1) by apply fi_union_mono.
  assert (H2 : fi_mono st1 st2).
  { unfold st2. destruct (fi_is_eps s st1 && is_nil l); [apply fi_set_eps_mono | apply mono_refl]. }
  destruct (fi_is_eps s st2).
  - eapply mono_trans; [exact H1|]. eapply mono_trans; [exact H2 | apply IH].
  - eapply mono_trans; eassumption.
Qed.

Lemma fi_prod_mono g ridx rhs st : fi_mono st (fi_prod g ridx rhs st).
Proof.
  unfold fi_prod. destruct rhs as [|x l]; [apply fi_set_eps_mono | apply fi_scan_mono].
Qed.

Lemma fi_rule_mono g st ridx : fi_mono st (fi_rule g st ridx).
Proof. unfold fi_rule. apply mono_fold. intros s0 p. apply fi_prod_mono. Qed.

Lemma fi_round_mono g st : fi_mono st (fi_round g st).
Proof. unfold fi_round. apply mono_fold. intros s0 r. apply fi_rule_mono. Qed.

(* invariant: sound, duplicate-free, in range *)
Definition fi_inv (g : grammar) (t : fi_tbl) : Prop :=
  nullable_sound g (fst t) /\ first_sound g (snd t) /\
  NoDup (fst t) /\ NoDup (snd t) /\
  incl (fst t) (ridxs g) /\ incl (snd t) (rt_universe g).
Definition FI (g : grammar) (st : fi_state) : Prop := fi_inv g (fst st).

Lemma fi_set_inv g r a st : FI g st -> first_spec g r a -> (r < nrules g)%N -> (a < ntoks g)%N ->
  FI g (fi_set r a st).
Proof.
  intros (H1 & H2 & H3 & H4 & H5 & H6) Hs Hr Ha. unfold fi_set, fi_is_set.
  destruct (memP (r, a) (snd (fst st))) eqn:Hm; [repeat split; assumption|].
  unfold FI, fi_inv. simpl. repeat split; try assumption.
  - intros r' a' [Heq | Hin]; [injection Heq as <- <-; exact Hs | apply H2; exact Hin].
  - constructor; [|exact H4]. intros Hin. apply memP_In in Hin. congruence.
  - intros x [Hx | Hx]; [subst x; apply In_rt_universe; split; assumption | apply H6; exact Hx].
Qed.

Lemma fi_set_eps_inv g r st : FI g st -> nullable_spec g r -> (r < nrules g)%N ->
  FI g (fi_set_eps r st).
Proof.
  intros (H1 & H2 & H3 & H4 & H5 & H6) Hs Hr. unfold fi_set_eps, fi_is_eps.
  destruct (memN r (fst (fst st))) eqn:Hm; [repeat split; assumption|].
  unfold FI, fi_inv. simpl. repeat split; try assumption.
  - intros r' [Heq | Hin]; [subst r'; exact Hs | apply H1; exact Hin].
  - constructor; [|exact H3]. intros Hin. apply memN_In in Hin. congruence.
  - intros x [Hx | Hx]; [subst x; apply In_ridxs; exact Hr | apply H5; exact Hx].
Qed.

Lemma fold_left_inv {S X} (P : S -> Prop) (f : S -> X -> S) l :
  (forall s x, In x l -> P s -> P (f s x)) -> forall s, P s -> P (fold_left f l s).
Proof.
  induction l as [|x l IH]; intros Hf s Hs; simpl; [exact Hs|].
  apply IH; [intros s0 x0 Hin; apply Hf; right; exact Hin|]. apply Hf; [left; reflexivity | exact Hs].
Qed.

Lemma FI_is_set g s t st : FI g st -> fi_is_set s t st = true -> first_spec g s t.
Proof. intros (_ & H2 & _) H. apply H2. apply memP_In. exact H. Qed.

Lemma FI_is_eps g s st : FI g st -> fi_is_eps s st = true -> nullable_spec g s.
Proof. intros (H1 & _) H. apply H1. apply memN_In. exact H. Qed.

Lemma fi_union_inv g ridx s st : FI g st -> (ridx < nrules g)%N ->
  (forall t, first_spec g s t -> first_spec g ridx t) -> FI g (fi_union g ridx s st).
Proof.
  intros Hst Hr Hsub. unfold fi_union. apply fold_left_inv; [|exact Hst].
  intros s0 t Ht Hs0. destruct (fi_is_set s t s0) eqn:Hm; [|exact Hs0].
  apply fi_set_inv; [exact Hs0 | | exact Hr | apply In_tidxs; exact Ht].
  apply Hsub. exact (FI_is_set g s t s0 Hs0 Hm).
Qed.

Lemma fi_scan_inv g ridx : wf_grammar g = true -> (ridx < nrules g)%N ->
  forall l st, FI g st -> derives g [R ridx] l ->
    (forall x, In x l -> sym_in_range g x = true) -> FI g (fi_scan g ridx l st).
Proof.
  intros Hwf Hr. induction l as [|x l IH]; intros st Hst Hd Hrng; simpl; [exact Hst|].
  destruct x as [t | s].
  - apply fi_set_inv; [exact Hst | exists l; exact Hd | exact Hr|].
    specialize (Hrng (T t) (or_introl eq_refl)). apply N.ltb_lt. exact Hrng.
  - set (st1 := fi_union g ridx s st).
    assert (H1 : FI g st1).
    { apply fi_union_inv; [exact Hst | exact Hr|]. intros t (c & Hc). exists (c ++ l).
      eapply derives_trans; [exact Hd|]. exact (derives_ctx_r g [R s] (T t :: c) l Hc). }
    set (st2 := if fi_is_eps s st1 && is_nil l then fi_set_eps ridx st1 else st1).
    assert (H2 : FI g st2).
    { unfold st2. destruct (fi_is_eps s st1 && is_nil l) eqn:Hc; [|exact H1].
      apply andb_true_iff in Hc. destruct Hc as [He Hn].
      apply fi_set_eps_inv; [exact H1 | | exact Hr].
      destruct l; [|discriminate Hn]. unfold nullable_spec.
      eapply derives_trans; [exact Hd | exact (FI_is_eps g s st1 H1 He)]. }
    destruct (fi_is_eps s st2) eqn:He; [|exact H2].
    apply IH; [exact H2 | | intros x Hx; apply Hrng; right; exact Hx].
    eapply derives_trans; [exact Hd|].
    exact (derives_app g [R s] [] l l (FI_is_eps g s st2 H2 He) (d_refl g l)).
Qed.

Lemma fi_prod_inv g p st : wf_grammar g = true -> is_prod g p -> FI g st ->
  FI g (fi_prod g (lhs g p) (rhs g p) st).
Proof.
  intros Hwf Hp Hst. pose proof (wf_lhs_range g p Hwf Hp) as Hr.
  pose proof (derives_prod g p Hp) as Hd. unfold fi_prod.
  destruct (rhs g p) as [|x l] eqn:Hrhs.
  - apply fi_set_eps_inv; [exact Hst | exact Hd | exact Hr].
  - apply fi_scan_inv; try assumption.
    intros y Hy. apply (wf_rhs_range g p y Hwf Hp). rewrite Hrhs. exact Hy.
Qed.

Lemma fi_rule_inv g st ridx : wf_grammar g = true -> FI g st -> FI g (fi_rule g st ridx).
Proof.
  intros Hwf Hst. unfold fi_rule. apply fold_left_inv; [|exact Hst].
  intros s0 p Hp Hs0. apply In_rule_to_prods in Hp. destruct Hp as [Hp Hl]. subst ridx.
  apply fi_prod_inv; assumption.
Qed.

Lemma fi_round_inv g st : wf_grammar g = true -> FI g st -> FI g (fi_round g st).
Proof.
  intros Hwf Hst. unfold fi_round. apply fold_left_inv; [|exact Hst].
  intros s0 r _ Hs0. apply fi_rule_inv; assumption.
Qed.

(* closure: steps without effect on (t, false) *)
Lemma fi_set_fixed r a t : fi_set r a (t, false) = (t, false) -> In (r, a) (snd t).
Proof.
  unfold fi_set, fi_is_set. simpl. destruct (memP (r, a) (snd t)) eqn:Hm.
  - intros _. apply memP_In. exact Hm.
  - intros H. discriminate H.
Qed.

Lemma fi_set_eps_fixed r t : fi_set_eps r (t, false) = (t, false) -> In r (fst t).
Proof.
  unfold fi_set_eps, fi_is_eps. simpl. destruct (memN r (fst t)) eqn:Hm.
  - intros _. apply memN_In. exact Hm.
  - intros H. discriminate H.
Qed.

Lemma fi_union_fixed g ridx s t : fi_union g ridx s (t, false) = (t, false) ->
  forall a, (a < ntoks g)%N -> In (s, a) (snd t) -> In (ridx, a) (snd t).
Proof.
  intros H a Ha Hin. unfold fi_union in H.
  assert (Hend : snd (fold_left (fun st t0 => if fi_is_set s t0 st then fi_set ridx t0 st else st)
                        (tidxs g) (t, false)) = false) by (rewrite H; reflexivity).
  pose proof (fold_fixed fi_msz _ (tidxs g) (fun s0 x => fi_union_step_mono ridx s s0 x)
                (t, false) Hend a (proj2 (In_tidxs g a) Ha)) as Hs.
  cbv beta in Hs. replace (fi_is_set s a (t, false)) with true in Hs.
  - apply fi_set_fixed. exact Hs.
  - symmetry. unfold fi_is_set. simpl. apply memP_In. exact Hin.
Qed.

Lemma fi_scan_fixed g ridx t : incl (snd t) (rt_universe g) ->
  forall l, fi_scan g ridx l (t, false) = (t, false) ->
    (forall a, In a (first_seq (fst t) (snd t) l) -> In (ridx, a) (snd t)) /\
    (l <> [] -> nullable_seq (fst t) l = true -> In ridx (fst t)).
Proof.
  intros Hrng. induction l as [|x l IH]; intros H.
  - split; [intros a [] | intros Hne; exfalso; apply Hne; reflexivity].
  - destruct x as [a0 | s].
    + simpl in H. split.
      * intros a Ha. apply In_first_seq_T in Ha. subst a. apply fi_set_fixed. exact H.
      * intros _ Hn. discriminate Hn.
    + simpl in H.
      set (st1 := fi_union g ridx s (t, false)) in *.
      set (st2 := if fi_is_eps s st1 && is_nil l then fi_set_eps ridx st1 else st1) in *.
      assert (M1 : fi_mono (t, false) st1) by apply fi_union_mono.
      assert (M2 : fi_mono st1 st2).
      { unfold st2. destruct (fi_is_eps s st1 && is_nil l); [apply fi_set_eps_mono | apply mono_refl]. }
      assert (E2 : st2 = (t, false)).
      { destruct (fi_is_eps s st2).
        - assert (Hc : snd (fi_scan g ridx l st2) = false) by (rewrite H; reflexivity).
          pose proof (mono_false_eq _ _ _ (fi_scan_mono g ridx l st2) Hc) as He.
          rewrite <- He. exact H.
        - exact H. }
      assert (E1 : st1 = (t, false)).
      { apply (mono_false_eq fi_msz); [exact M1|].
        assert (Hc : snd st2 = false) by (rewrite E2; reflexivity).
        rewrite <- (mono_false_eq _ _ _ M2 Hc). exact Hc. }
      rewrite E2 in H.
      assert (Heps : fi_is_eps s (t, false) = memN s (fst t)) by reflexivity.
      rewrite Heps in H.
      split.
      * intros a Ha. apply In_first_seq_R in Ha. destruct Ha as [Ha | [Hm Ha]].
        -- apply (fi_union_fixed g ridx s t E1 a); [|exact Ha].
           exact (proj2 (proj1 (In_rt_universe g s a) (Hrng _ Ha))).
        -- rewrite Hm in H. exact (proj1 (IH H) a Ha).
      * intros _ Hn. rewrite nullable_seq_cons in Hn. apply andb_true_iff in Hn.
        destruct Hn as [Hs Hl]. simpl in Hs. rewrite Hs in H.
        destruct l as [|y l'].
        -- unfold st2 in E2. rewrite E1 in E2. rewrite Heps, Hs in E2. simpl in E2.
           apply fi_set_eps_fixed. exact E2.
        -- apply (proj2 (IH H)); [discriminate | exact Hl].
Qed.

Lemma fi_prod_fixed g ridx rhs t : incl (snd t) (rt_universe g) ->
  fi_prod g ridx rhs (t, false) = (t, false) ->
  (forall a, In a (first_seq (fst t) (snd t) rhs) -> In (ridx, a) (snd t)) /\
  (nullable_seq (fst t) rhs = true -> In ridx (fst t)).
Proof.
  intros Hrng H. unfold fi_prod in H. destruct rhs as [|x l].
  - split; [intros a [] | intros _; apply fi_set_eps_fixed; exact H].
  - destruct (fi_scan_fixed g ridx t Hrng (x :: l) H) as [H1 H2].
    split; [exact H1 | apply H2; discriminate].
Qed.

Lemma fi_round_fixed g t : wf_grammar g = true -> incl (snd t) (rt_universe g) ->
  fi_round g (t, false) = (t, false) ->
  nullable_closedP g (fst t) /\ first_closedP g (fst t) (snd t).
Proof.
  intros Hwf Hrng H.
  assert (Hp : forall p, is_prod g p -> fi_prod g (lhs g p) (rhs g p) (t, false) = (t, false)).
  { intros p Hp. unfold fi_round in H.
    assert (Hend : snd (fold_left (fi_rule g) (ridxs g) (t, false)) = false) by (rewrite H; reflexivity).
    pose proof (fold_fixed fi_msz (fi_rule g) (ridxs g) (fun s r => fi_rule_mono g s r) (t, false) Hend
                  (lhs g p) (proj2 (In_ridxs g (lhs g p)) (wf_lhs_range g p Hwf Hp))) as Hr.
    unfold fi_rule in Hr.
    assert (Hend2 : snd (fold_left (fun st p0 => fi_prod g (lhs g p) (rhs g p0) st)
                           (rule_to_prods g (lhs g p)) (t, false)) = false) by (rewrite Hr; reflexivity).
    exact (fold_fixed fi_msz _ _ (fun s p0 => fi_prod_mono g (lhs g p) (rhs g p0) s) (t, false) Hend2
             p (proj2 (In_rule_to_prods g (lhs g p) p) (conj Hp eq_refl))). }
  split.
  - intros p Hpp Hn. exact (proj2 (fi_prod_fixed g _ _ t Hrng (Hp p Hpp)) Hn).
  - intros p a Hpp Ha. exact (proj1 (fi_prod_fixed g _ _ t Hrng (Hp p Hpp)) a Ha).
Qed.

Lemma fi_inv_init g : fi_inv g ([], []).
Proof.
  unfold fi_inv. simpl.
  split; [intros r []|]. split; [intros r a []|].
  split; [constructor|]. split; [constructor|].
  split; intros x [].
Qed.

Lemma fi_round_inv' g : wf_grammar g = true ->
  forall t, fi_inv g t -> fi_inv g (fst (fi_round g (t, false))).
Proof. intros Hwf t Ht. apply (fi_round_inv g (t, false) Hwf). exact Ht. Qed.

Lemma firsts_mirror_inv g fuel t : wf_grammar g = true -> firsts_mirror fuel g = Done t ->
  fi_inv g t /\ nullable_exact g (fst t) /\ first_exact g (snd t).
Proof.
  intros Hwf H. unfold firsts_mirror in H.
  destruct (run_loop_done fi_msz (fi_round g) (fi_inv g) (fi_round_inv' g Hwf) (fi_round_mono g)
              fuel _ _ (fi_inv_init g) H) as [Hinv Hfix].
  split; [exact Hinv|].
  destruct Hinv as (H1 & H2 & _ & _ & _ & H6).
  destruct (fi_round_fixed g t Hwf H6 Hfix) as [Hcn Hcf].
  split.
  - apply nullable_sound_closed_exact; assumption.
  - apply first_sound_closed_exact with (nl := fst t); assumption.
Qed.

Lemma firsts_mirror_exact : firsts_mirror_exact_stmt.
Proof.
  intros g fuel nl fs Hwf H. destruct (firsts_mirror_inv g fuel (nl, fs) Hwf H) as (_ & Hn & Hf).
  split; [exact Hn | exact Hf].
Qed.

Lemma fi_inv_bound g t : fi_inv g t ->
  fi_msz t <= N.to_nat (nrules g) * (N.to_nat (ntoks g) + 1).
Proof.
  intros (_ & _ & H3 & H4 & H5 & H6). unfold fi_msz.
  pose proof (NoDup_incl_length H3 H5) as L1. pose proof (NoDup_incl_length H4 H6) as L2.
  rewrite length_ridxs in L1. rewrite length_rt_universe in L2. lia.
Qed.

Lemma firsts_mirror_terminates : firsts_mirror_terminates_stmt.
Proof.
  intros g fuel Hwf Hfuel. unfold firsts_mirror.
  destruct (run_loop_total fi_msz (fi_round g) (fi_inv g) (fi_round_inv' g Hwf) (fi_round_mono g)
              (N.to_nat (nrules g) * (N.to_nat (ntoks g) + 1)) (fi_inv_bound g)
              fuel ([], []) (fi_inv_init g)) as ([nl fs] & H).
  - unfold firsts_fuel in Hfuel. unfold fi_msz. simpl. lia.
  - exists nl, fs. exact H.
Qed.
