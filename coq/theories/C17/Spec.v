(* C17 — declarative notions and the statements.
   The exactness of nullable / FIRST / FOLLOW / reachability is stated (and
   proved) in Base/Analyses.v + Base/AnalysesProofs.v; here: sentence costs. *)
From Coq Require Import List Arith NArith Bool Lia.
From GV Require Import Common.Outcome Base.Grammar Base.Analyses C17.Model.
Import ListNotations.

(* w is a token string derivable from rule r *)
Definition sentence_of (g : grammar) (r : N) (w : list N) : Prop := derives g [R r] (tokens_of w).

(* v is the least / the greatest cost of a token string derivable from r *)
Definition is_min_cost (g : grammar) (c : N -> N) (r v : N) : Prop :=
  (exists w, sentence_of g r w /\ wcost c w = v) /\
  (forall w, sentence_of g r w -> (v <= wcost c w)%N).
Definition is_max_cost (g : grammar) (c : N -> N) (r v : N) : Prop :=
  (exists w, sentence_of g r w /\ wcost c w = v) /\
  (forall w, sentence_of g r w -> (wcost c w <= v)%N).
Definition unbounded_cost (g : grammar) (c : N -> N) (r : N) : Prop :=
  forall n : N, exists w, sentence_of g r w /\ (n <= wcost c w)%N.

(* the same over parse trees *)
Definition tree_of (g : grammar) (r : N) (t : tree) : Prop := valid_tree g t /\ root g t = R r.

(* ---- certificates ---------------------------------------------------------- *)

(* a feasible potential with witnesses gives, for every rule that roots a tree,
   a value that bounds every tree from below and is attained *)
Definition min_cost_certificate_stmt : Prop :=
  forall g c m wt, chk_min g c m wt = true ->
    forall r t, tree_of g r t ->
      exists v, m r = Some v /\ (v <= cost c t)%N /\ exists t', tree_of g r t' /\ cost c t' = v.

(* … and the rules without a value are exactly the unproductive ones (on the certificate's domain) *)
Definition min_cost_productive_stmt : Prop :=
  forall g c m wt, chk_min g c m wt = true ->
    forall r, (r < nrules g)%N -> (m r = None <-> ~ productive_rule g r).

Definition max_cost_finite_certificate_stmt : Prop :=
  forall g c m wt M Wt, chk_max_fin g c m wt M Wt = true ->
    forall r v t, M r = Some v -> tree_of g r t ->
      (cost c t <= v)%N /\ exists t', tree_of g r t' /\ cost c t' = v.

Definition max_cost_unbounded_certificate_stmt : Prop :=
  forall g c r t p1 p2, chk_pump g c r t p1 p2 = true ->
    forall n : N, exists t', tree_of g r t' /\ (n <= cost c t')%N.

(* ---- what the reference reports is true --------------------------------------- *)

Definition ans_correct (g : grammar) (c : N -> N) (r : N) (a : cost_ans) : Prop :=
  match a with
  | CUnprod => ~ productive_rule g r
  | CCost mn mx => is_min_cost g c r mn /\
                   match mx with
                   | Some v => is_max_cost g c r v
                   | None => unbounded_cost g c r
                   end
  end.

Definition certified_costs_exact_stmt : Prop :=
  forall g c l, certified_costs g c = Some l ->
    (forall r, (r < nrules g)%N -> exists a, In (r, a) l) /\
    (forall r a, In (r, a) l -> ans_correct g c r a).

(* ---- the mirror of rule_min_costs --------------------------------------------- *)

(* the iteration does NOT terminate on every grammar whose rules are all productive *)
Definition min_iter_diverges_refuted_stmt : Prop :=
  exists g c, wf_grammar g = true /\ (forall a, (0 < c a)%N) /\
              (forall r, (r < nrules g)%N -> productive_rule g r) /\
              forall fuel, rule_min_costs_m fuel g c = OutOfFuel.

(* a state that a pass maps to itself and that is not all-done never finishes *)
Definition mc_fixpoint_diverges_stmt : Prop :=
  forall g c st, all_done g st = false -> mc_pass g c (ridxs g) st = Done st ->
    forall fuel, mc_loop fuel g c st = OutOfFuel.

(* what the fixpoint-detecting runner reports is what the mirrored loop does *)
Definition mc_run_spec_stmt : Prop :=
  forall g c fuel,
    match rule_min_costs_run fuel g c with
    | McDone l => exists fuel', rule_min_costs_m fuel' g c = Done l
    | McPanic => exists fuel', rule_min_costs_m fuel' g c = Panic
    | McDiverges => forall fuel', rule_min_costs_m fuel' g c = OutOfFuel
    | McFuel => True
    end.
