(* C17 (cost queries) — min_sentences on a clique of mutually recursive UNIT productions.

   min_sentences_below (mirror: QueryModel.v [msb]) excludes only the rules on the CURRENT path ([active]) and
   recomputes a rule's sentences for every path that reaches it; nothing is memoised and the result is a Vec, so
   nothing is de-duplicated.  On
        %start R0  %%  R0: R1 | 'x';   Ri: R0 | R1 | … | Rm  (every j <> i)   for i = 1..m
   (every rule derives exactly one sentence, x) it therefore walks every simple path of the rule graph:
     * the query about R0 answers [[x]] (every path below R0: R1 is a dead end, R0 being active) after walking them all,
     * the query about Ri (i >= 1) returns [x] once per simple path Ri -> … -> R0 inside R1..Rm:
          c(m) = sum over k < m of (m-1)!/(m-1-k)! = a(m-1),   a(0) = 1, a(n+1) = (n+1) a(n) + 1   (= floor(e (m-1)!)),
       2, 5, 16, 65, 326, 1957, 13700, 109601, 986410 for m = 2..10.
   Known finding C17-min_sentences-factorial-paths.  The statements below are witnesses computed on the mirror
   (vm_compute; the mirror is tied to the implementation by the check: the same list in the same order). *)
From Coq Require Import List Arith NArith Bool Lia Factorial.
From GV Require Import Common.Outcome Base.Grammar Base.Analyses C17.Model C17.MirrorModel C17.CostMirror C17.QueryModel.
Import ListNotations.

(* the grammar exactly as YaccGrammar numbers it: ^ = rule 0, R_i = rule i+1; productions in declaration order
   (R0: R1 = 0, R0: 'x' = 1, then R_i's m productions, i = 1..m), ^: R0 last = production m*m + 2;
   'x' = token 0, end of input = token 1 *)
Definition clique_alts (m i : nat) : list (N * list sym) :=
  map (fun j => (N.of_nat (S i), [R (N.of_nat (S j))])) (filter (fun j => negb (j =? i)%nat) (seq 0 (S m))).
Definition clique_prods (m : nat) : list (N * list sym) :=
  [(1%N, [R 2%N]); (1%N, [T 0%N])] ++ flat_map (clique_alts m) (seq 1 m) ++ [(0%N, [R 1%N])].
Definition clique_grammar (m : nat) : grammar :=
  mkGrammar 2 (N.of_nat (m + 2)) (clique_prods m) (N.of_nat (m * m + 2)) 1.

(* the number of copies: a(n+1) = (n+1) a(n) + 1 *)
Fixpoint paths_a (n : nat) : nat := match n with O => 1 | S k => S k * paths_a k + 1 end.
Definition clique_copies (m : nat) : nat := paths_a (m - 1).

Definition clique_query (m i : nat) : outcome (list (list N)) :=
  min_sentences_m None (m + 3) (clique_grammar m) c_1 (N.of_nat (S i)).

(* for m = 2..7 (as far as vm_compute is cheap): the grammar is well formed, the query about R0 (and ^) answers the
   one minimal sentence once, the query about every R_i, i >= 1, answers it clique_copies m > 1 times and nothing else *)
Definition min_sentences_clique_copies_stmt : Prop :=
  forall m, (2 <= m <= 7)%nat ->
    wf_grammar (clique_grammar m) = true /\
    min_sentences_m None (m + 3) (clique_grammar m) c_1 0 = Done [[0%N]] /\
    clique_query m 0 = Done [[0%N]] /\
    (1 < clique_copies m)%nat /\
    forall i, (1 <= i <= m)%nat -> clique_query m i = Done (repeat [0%N] (clique_copies m)).

(* "the answer lists each minimal sentence once" fails for the mirror: a well-formed grammar, costs > 0 and a rule whose
   answer (unbounded stack, every sufficient fuel is the same run: C17_min_sentences_depth_le_rules) repeats a sentence *)
Definition min_sentences_answer_not_duplicate_free_refuted_stmt : Prop :=
  exists g c r ss,
    wf_grammar g = true /\ (forall a, (0 < c a)%N) /\ (r < nrules g)%N /\
    min_sentences_m None (nr g + 1) g c r = Done ss /\ ~ NoDup ss.

(* the recurrence grows factorially (arithmetic on [paths_a] only) *)
Definition clique_copies_factorial_stmt : Prop :=
  forall n, (fact n <= paths_a n)%nat /\ (paths_a (S n) = S n * paths_a n + 1)%nat.

Lemma clique_at (P : nat -> Prop) : P 2%nat -> P 3%nat -> P 4%nat -> P 5%nat -> P 6%nat -> P 7%nat ->
  forall m, (2 <= m <= 7)%nat -> P m.
Proof.
  intros H2 H3 H4 H5 H6 H7 m Hm.
  assert (E : (m = 2 \/ m = 3 \/ m = 4 \/ m = 5 \/ m = 6 \/ m = 7)%nat) by lia.
  destruct E as [->|[->|[->|[->|[->| ->]]]]]; assumption.
Qed.

Lemma clique_rules_at (m : nat) (P : nat -> Prop) :
  Forall P (seq 1 m) -> forall i, (1 <= i <= m)%nat -> P i.
Proof.
  intros H i Hi. rewrite Forall_forall in H. apply H. apply in_seq. lia.
Qed.

Lemma clique_one (m : nat) :
  wf_grammar (clique_grammar m) = true ->
  min_sentences_m None (m + 3) (clique_grammar m) c_1 0 = Done [[0%N]] ->
  clique_query m 0 = Done [[0%N]] ->
  (1 <? clique_copies m)%nat = true ->
  forallb (fun i => match clique_query m i with
                    | Done ss => if list_eq_dec (list_eq_dec N.eq_dec) ss (repeat [0%N] (clique_copies m)) then true else false
                    | _ => false end) (seq 1 m) = true ->
  wf_grammar (clique_grammar m) = true /\
  min_sentences_m None (m + 3) (clique_grammar m) c_1 0 = Done [[0%N]] /\
  clique_query m 0 = Done [[0%N]] /\
  (1 < clique_copies m)%nat /\
  forall i, (1 <= i <= m)%nat -> clique_query m i = Done (repeat [0%N] (clique_copies m)).
Proof.
  intros Hw H0 H1 Hc Hall. repeat split; try assumption.
  - apply Nat.ltb_lt, Hc.
  - apply clique_rules_at. rewrite forallb_forall in Hall. apply Forall_forall. intros i Hi.
    specialize (Hall i Hi). destruct (clique_query m i) as [ss| |]; try discriminate.
    destruct (list_eq_dec (list_eq_dec N.eq_dec) ss (repeat [0%N] (clique_copies m))) as [->|]; [reflexivity|discriminate].
Qed.

Lemma min_sentences_clique_copies : min_sentences_clique_copies_stmt.
Proof.
  unfold min_sentences_clique_copies_stmt. apply clique_at; apply clique_one; vm_compute; reflexivity.
Qed.

Lemma min_sentences_answer_not_duplicate_free_refuted : min_sentences_answer_not_duplicate_free_refuted_stmt.
Proof.
  exists (clique_grammar 2), c_1, 2%N, [[0%N]; [0%N]].
  split; [vm_compute; reflexivity|]. split; [intro; reflexivity|]. split; [vm_compute; reflexivity|].
  split; [vm_compute; reflexivity|].
  intro H. inversion H as [|x l Hn _]; subst. apply Hn. left. reflexivity.
Qed.

Lemma clique_copies_factorial : clique_copies_factorial_stmt.
Proof.
  intro n. split; [|reflexivity].
  induction n as [|n IH]; [simpl; lia|].
  change (fact (S n)) with (S n * fact n)%nat. change (paths_a (S n)) with (S n * paths_a n + 1)%nat.
  assert (S n * fact n <= S n * paths_a n)%nat by (apply Nat.mul_le_mono_l; exact IH). lia.
Qed.

(* the table of the check's evidence: copies for m = 2..10 (m = 4..8 are observed in every run) *)
Example clique_copies_table :
  map (fun m => N.of_nat (clique_copies m)) [2; 3; 4; 5; 6; 7; 8; 9; 10]%nat =
  [2; 5; 16; 65; 326; 1957; 13700; 109601; 986410]%N.
Proof. vm_compute. reflexivity. Qed.

(* the smallest instance spelled out: R0: R1 | 'x'; R1: R0 | R2; R2: R0 | R1 — the query about R1 finds x through
   R1 -> R0 and through R1 -> R2 -> R0 *)
Example clique_2_spelled_out :
  clique_prods 2 = [(1, [R 2]); (1, [T 0]); (2, [R 1]); (2, [R 3]); (3, [R 1]); (3, [R 2]); (0, [R 1])]%N /\
  clique_query 2 1 = Done [[0%N]; [0%N]].
Proof. split; vm_compute; reflexivity. Qed.
