(* C17 (cost queries) — statements about the mirrors of the public QUERIES (QueryModel.v):
   (1) what a min/max_sentence_cost query about ONE rule answers, given that it computes (and
       overflow-checks) the table of ALL rules;
   (2) the depth of the native recursion of min_sentences_below. *)
From Coq Require Import List Arith NArith Bool.
From GV Require Import Common.Outcome Base.Grammar Base.Analyses C17.Model C17.Spec C17.CostMirror C17.QueryModel.
Import ListNotations.

(* ---- (1) one rule's overflow is every rule's panic ------------------------------------------ *)

(* some rule's true minimum / true FINITE maximum is not below u16::MAX *)
Definition min_overflows (g : grammar) (c : N -> N) (r : N) : Prop :=
  exists v, is_min_cost g c r v /\ (U16MAX <= v)%N.
Definition max_overflows (g : grammar) (c : N -> N) (r : N) : Prop :=
  exists v, is_max_cost g c r v /\ (U16MAX <= v)%N.

(* the answer for r is the true one (u16::MAX / Some(0) for a rule without a sentence, None for
   unbounded), OR the query panics and some rule r' — possibly r itself, possibly a rule that has
   nothing to do with r — has a true finite cost of u16::MAX or more.  Never a wrong number, never
   a hang. *)
Definition cost_query_exact_or_foreign_overflow_stmt : Prop :=
  forall g c r, wf_grammar g = true -> (r < nrules g)%N ->
    match min_sentence_cost_m g c r with
    | OutOfFuel => False
    | Done v => (v = U16MAX /\ ~ productive_rule g r) \/ ((v < U16MAX)%N /\ is_min_cost g c r v)
    | Panic => exists r', (r' < nrules g)%N /\ min_overflows g c r'
    end /\
    match max_sentence_cost_m g c r with
    | OutOfFuel => False
    | Done None => unbounded_cost g c r
    | Done (Some v) => (v = 0%N /\ ~ productive_rule g r) \/ ((v < U16MAX)%N /\ is_max_cost g c r v)
    | Panic => exists r', (r' < nrules g)%N /\ max_overflows g c r'
    end.

(* a query panics exactly when the asked rule's own cost overflows (the refusal that the u16 result
   type forces) or ANOTHER rule's does (the known class) *)
Definition cost_query_panics_only_if_own_or_foreign_stmt : Prop :=
  forall g c r, wf_grammar g = true -> (r < nrules g)%N ->
    (min_sentence_cost_m g c r = Panic <->
       min_overflows g c r \/ exists r', r' <> r /\ (r' < nrules g)%N /\ min_overflows g c r') /\
    (max_sentence_cost_m g c r = Panic <->
       max_overflows g c r \/ exists r', r' <> r /\ (r' < nrules g)%N /\ max_overflows g c r').

(* "the cost queries return the true minimum and maximum" fails on the mirror: a rule with
   (certified) true costs far below u16::MAX whose queries panic all the same *)
Definition cost_panic_unrelated_rule_refuted_stmt : Prop :=
  exists g c r vmin vmax,
    wf_grammar g = true /\ (forall a, (0 < c a <= 255)%N) /\ (r < nrules g)%N /\
    is_min_cost g c r vmin /\ (vmin < U16MAX)%N /\
    is_max_cost g c r vmax /\ (vmax < U16MAX)%N /\
    min_sentence_cost_m g c r = Panic /\
    max_sentence_cost_m g c r = Panic /\
    (forall st fuel, min_sentences_m st fuel g c r = Panic).

(* ---- (2) the recursion depth of min_sentences_below ------------------------------------------ *)

(* the [active] guard bounds the depth by the number of rules: a stack with room for rules_len()
   frames is never exhausted, the run is the run on an unbounded stack (for every fuel: also the
   out-of-fuel outcomes agree) *)
Definition min_sentences_depth_le_rules_stmt : Prop :=
  forall g c r fuel s, wf_grammar g = true -> (r < nrules g)%N -> (nr g <= s)%nat ->
    min_sentences_m (Some s) fuel g c r = min_sentences_m None fuel g c r.

(* on the chain A0: A1; … A{k}: 'x' the query about A0 needs exactly k + 1 frames: with less room it
   is the stack overflow, with that much it answers [['x']] *)
Definition min_sentences_chain_threshold_stmt : Prop :=
  forall k s fuel, (k < fuel)%nat ->
    min_sentences_m (Some s) fuel (chain_grammar k) c_1 1 =
    if (s <=? k)%nat then Panic else Done [[0%N]].

(* hence no stack is large enough for every grammar: for every number of frames s there is a grammar
   (of s + 2 rules, token costs > 0) and a rule whose query answers on an unbounded stack and
   exhausts s frames — "all these queries terminate" fails for min_sentences on a real stack *)
Definition min_sentences_depth_unbounded_refuted_stmt : Prop :=
  forall s : nat, exists g c r,
    wf_grammar g = true /\ (forall a, (0 < c a)%N) /\ (r < nrules g)%N /\ nr g = (s + 2)%nat /\
    (forall fuel, (s < fuel)%nat -> exists w, min_sentences_m None fuel g c r = Done [w]) /\
    (forall fuel, (s < fuel)%nat -> min_sentences_m (Some s) fuel g c r = Panic).

(* the bound of [min_sentences_depth_le_rules] is attained: a stack of rules_len() - 1 frames is
   too small for the query about ^ on the chain *)
Definition min_sentences_depth_bound_tight_stmt : Prop :=
  forall k fuel, (S k < fuel)%nat ->
    min_sentences_m (Some (S k)) fuel (chain_grammar k) c_1 0 = Panic /\
    min_sentences_m (Some (k + 2)) fuel (chain_grammar k) c_1 0 = Done [[0%N]].
