(* C17 (mirror part) — executable MIRRORS of the two Rust fixed points
     cfgrammar/src/lib/yacc/firsts.rs   YaccFirsts::new
     cfgrammar/src/lib/yacc/follows.rs  YaccFollows::new
   Definitions only.  The mirrors follow the control flow of the Rust loops:
   the tables are mutated IN PLACE while a round runs (later rules / productions /
   symbols of the same round see the earlier updates), which is mirrored
   literally as folds over rules, productions, symbols and tokens that thread
   the table together with the flag [changed]; the early [break]s are the
   non-recursive branches of the scans.  The outer [loop { … if !changed {
   return } }] runs on fuel (= rounds) and gives [OutOfFuel] when it is spent
   (excluded by the *_terminates theorems).

   Representation.  A [Vob] bit table is the duplicate-free list of its set
   positions (rule, token) resp. rule; [Vob::set]/[YaccFirsts::set] become
   "add if absent and report".  Reading or writing a bit table at an index
   beyond its length would panic in Rust; positions are only ever taken from
   the grammar's own symbols, [iter_rules], [iter_tidxs], so such a panic needs
   an out-of-range symbol in a production, which [wf_grammar] (a hypothesis of
   every theorem; true of every dump of a YaccGrammar) excludes.  The list
   representation has no such failure, hence no [Panic] outcome here. *)
From Coq Require Import List Arith NArith Bool.
From GV Require Import Common.Outcome Base.Grammar Base.Analyses.
Import ListNotations.

(* loop { let mut changed = false; <round>; if !changed { return table } } *)
Fixpoint run_loop {T : Type} (round : T * bool -> T * bool) (fuel : nat) (t : T) : outcome T :=
  match fuel with
  | O => OutOfFuel
  | S k => let s := round (t, false) in
           if snd s then run_loop round k (fst s) else Done (fst s)
  end.

(* grm.rule_to_prods(ridx): the productions of a rule, by increasing PIdx *)
Definition rule_to_prods (g : grammar) (r : N) : list N :=
  filter (fun p => N.eqb (lhs g p) r) (pidxs g).

(* ---- YaccFirsts::new --------------------------------------------------------- *)

(* (epsilons, firsts) and the flag [changed] *)
Definition fi_tbl := (list N * list pairN)%type.
Definition fi_state := (fi_tbl * bool)%type.

Definition fi_is_set (r t : N) (st : fi_state) : bool := memP (r, t) (snd (fst st)).
Definition fi_is_eps (r : N) (st : fi_state) : bool := memN r (fst (fst st)).

(* if !firsts.set(ridx, tidx) { changed = true; } *)
Definition fi_set (r t : N) (st : fi_state) : fi_state :=
  if fi_is_set r t st then st else ((fst (fst st), (r, t) :: snd (fst st)), true).

(* if !firsts.is_epsilon_set(ridx) { firsts.epsilons.set(ridx, true); changed = true; } *)
Definition fi_set_eps (r : N) (st : fi_state) : fi_state :=
  if fi_is_eps r st then st else ((r :: fst (fst st), snd (fst st)), true).

(* for tidx in grm.iter_tidxs() {
     if firsts.is_set(s_ridx, tidx) && !firsts.set(ridx, tidx) { changed = true; } } *)
Definition fi_union (g : grammar) (ridx s : N) (st : fi_state) : fi_state :=
  fold_left (fun st t => if fi_is_set s t st then fi_set ridx t st else st) (tidxs g) st.

Definition is_nil {A} (l : list A) : bool := match l with [] => true | _ => false end.

(* for (sidx, sym) in prod.iter().enumerate() { … }  over the remaining symbols [l];
   [is_nil l'] is  sidx == prod.len() - 1 *)
Fixpoint fi_scan (g : grammar) (ridx : N) (l : list sym) (st : fi_state) : fi_state :=
  match l with
  | [] => st
  | T t :: _ => fi_set ridx t st                                     (* … break *)
  | R s :: l' =>
      let st1 := fi_union g ridx s st in
      let st2 := if fi_is_eps s st1 && is_nil l' then fi_set_eps ridx st1 else st1 in
      if fi_is_eps s st2 then fi_scan g ridx l' st2 else st2         (* if !is_epsilon_set(s_ridx) { break } *)
  end.

(* one production of rule ridx *)
Definition fi_prod (g : grammar) (ridx : N) (rhs : list sym) (st : fi_state) : fi_state :=
  match rhs with
  | [] => fi_set_eps ridx st                                         (* prod.is_empty() … continue *)
  | _ => fi_scan g ridx rhs st
  end.

(* for &pidx in grm.rule_to_prods(ridx).iter() *)
Definition fi_rule (g : grammar) (st : fi_state) (ridx : N) : fi_state :=
  fold_left (fun st p => fi_prod g ridx (rhs g p) st) (rule_to_prods g ridx) st.

(* for ridx in grm.iter_rules() *)
Definition fi_round (g : grammar) (st : fi_state) : fi_state :=
  fold_left (fi_rule g) (ridxs g) st.

(* all bits clear at the start; result (epsilons, firsts) *)
Definition firsts_mirror (fuel : nat) (g : grammar) : outcome fi_tbl :=
  run_loop (fi_round g) fuel ([], []).

Definition firsts_fuel (g : grammar) : nat :=
  N.to_nat (nrules g) * (N.to_nat (ntoks g) + 1) + 2.

(* ---- YaccFollows::new ---------------------------------------------------------- *)

Definition fo_state := (list pairN * bool)%type.

(* if follows[r].set(t, true) { changed = true; }     (Vob::set reports a change) *)
Definition fo_set (r t : N) (st : fo_state) : fo_state :=
  if memP (r, t) (fst st) then st else ((r, t) :: fst st, true).

(* for tidx in grm.iter_tidxs() {
     if follows[ridx][tidx] && follows[s_ridx].set(tidx, true) { changed = true; } } *)
Definition fo_copy (g : grammar) (ridx s : N) (st : fo_state) : fo_state :=
  fold_left (fun st t => if memP (ridx, t) (fst st) then fo_set s t st else st) (tidxs g) st.

(* if follows[s_ridx].or(firsts.firsts(nxt_ridx)) { changed = true; }   (over the set bits of the operand) *)
Definition fo_or (fs : list pairN) (s n : N) (st : fo_state) : fo_state :=
  fold_left (fun st t => fo_set s t st) (first_of_rule fs n) st.

(* the symbols after s_ridx.
   fixed = true : the repaired loop  for nxt in &prod[sidx + 1..] { … break unless nullable }
   fixed = false: the original code  if sidx < prod.len() - 1 { match prod[sidx + 1] { … } }
                  (git show 4c68ced): only the next symbol is consulted *)
Fixpoint fo_look (fixed : bool) (nl : list N) (fs : list pairN) (s : N) (l : list sym)
  (st : fo_state) : fo_state :=
  match l with
  | [] => st
  | T t :: _ => fo_set s t st                                         (* … break *)
  | R n :: l' =>
      let st' := fo_or fs s n st in
      if fixed && memN n nl then fo_look fixed nl fs s l' st' else st'
  end.

(* for sidx in (0..prod.len()).rev(): [pre_rev] = prod[..=sidx] reversed (its head is
   prod[sidx]), [suffix] = prod[sidx + 1..], [epsilon] the Rust flag of that name *)
Fixpoint fo_scan (g : grammar) (fixed : bool) (nl : list N) (fs : list pairN) (ridx : N)
  (pre_rev suffix : list sym) (epsilon : bool) (st : fo_state) : fo_state :=
  match pre_rev with
  | [] => st
  | T t :: pre' => fo_scan g fixed nl fs ridx pre' (T t :: suffix) false st
  | R s :: pre' =>
      let st1 := if epsilon then fo_copy g ridx s st else st in
      let epsilon' := if memN s nl then epsilon else false in      (* if !firsts.is_epsilon_set(s_ridx) { epsilon = false } *)
      let st2 := fo_look fixed nl fs s suffix st1 in
      fo_scan g fixed nl fs ridx pre' (R s :: suffix) epsilon' st2
  end.

(* one production: ridx = prod_to_rule(pidx), prod = grm.prod(pidx) *)
Definition fo_prod (g : grammar) (fixed : bool) (nl : list N) (fs : list pairN)
  (st : fo_state) (pr : N * list sym) : fo_state :=
  fo_scan g fixed nl fs (fst pr) (rev (snd pr)) [] true st.

(* for pidx in grm.iter_pidxs() *)
Definition fo_round (g : grammar) (fixed : bool) (nl : list N) (fs : list pairN)
  (st : fo_state) : fo_state :=
  fold_left (fo_prod g fixed nl fs) (prods g) st.

(* follows[start_rule_idx].set(eof_token_idx, true); firsts = grm.firsts() = (nl, fs) *)
Definition follows_mirror (fixed : bool) (fuel : nat) (g : grammar) (nl : list N) (fs : list pairN)
  : outcome (list pairN) :=
  run_loop (fo_round g fixed nl fs) fuel [(start_rule g, eof g)].

Definition follows_fuel (g : grammar) : nat :=
  N.to_nat (nrules g) * N.to_nat (ntoks g) + 2.

(* both, as YaccGrammar::follows() runs them *)
Definition ff_mirror (fixed : bool) (g : grammar) : outcome (list N * list pairN * list pairN) :=
  match firsts_mirror (firsts_fuel g) g with
  | Done (nl, fs) =>
      match follows_mirror fixed (follows_fuel g) g nl fs with
      | Done fo => Done (nl, fs, fo)
      | Panic => Panic
      | OutOfFuel => OutOfFuel
      end
  | Panic => Panic
  | OutOfFuel => OutOfFuel
  end.

(* the witness grammar of the original one-symbol lookahead:
     ^: S;  S: A B 'c';  A: 'a';  B: 'b' | ;
   tokens a=0 b=1 c=2 $=3, rules ^=0 S=1 A=2 B=3 *)
Definition g_follow_witness : grammar :=
  mkGrammar 4 4
    [ (0%N, [R 1%N]);
      (1%N, [R 2%N; R 3%N; T 2%N]);
      (2%N, [T 0%N]);
      (3%N, [T 1%N]);
      (3%N, []) ]
    0 3.

(* a grammar with a rule U that no sentential form of ^ contains:
     ^: S;  S: A;  A: 'a';  U: A 'x';       tokens a=0 x=1 $=2, rules ^=0 S=1 A=2 U=3 *)
Definition g_unreachable_witness : grammar :=
  mkGrammar 3 4
    [ (0%N, [R 1%N]);
      (1%N, [R 2%N]);
      (2%N, [T 0%N]);
      (3%N, [R 2%N; T 1%N]) ]
    0 2.
