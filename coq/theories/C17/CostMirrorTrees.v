(* C17 (cost part) — parse-tree surgery: a tree higher than the number of rules repeats a
   rule on a path; cutting the repetition out (Proofs.plug) never costs more, and costs the
   same when no reachable rule can be pumped; wrapping trees along [preach]; where the cost
   is gained on the way down to a cheaper subtree. *)
From Coq Require Import List Arith NArith Bool Lia.
From GV Require Import Common.Outcome Base.Grammar Base.GrammarFacts Base.Analyses
  C17.Model C17.Spec C17.Proofs C17.MirrorModel C17.CostMirror C17.CostMirrorDefs.
Import ListNotations.

(* ---- subtrees ----------------------------------------------------------------------- *)

Lemma subtree_mid p l1 k l2 path :
  subtree (Node p (l1 ++ k :: l2)) (length l1 :: path) = subtree k path.
Proof.
  simpl. rewrite nth_error_app2 by lia. rewrite Nat.sub_diag. reflexivity.
Qed.

Lemma subtree_step' t i path u : subtree t (i :: path) = Some u ->
  exists p l1 k l2, t = Node p (l1 ++ k :: l2) /\ length l1 = i /\ subtree k path = Some u.
Proof.
  intros H. destruct t as [a j | p kids]; simpl in H; [discriminate|].
  destruct (nth_error kids i) as [k|] eqn:E; [|discriminate].
  destruct (nth_error_split kids i E) as (l1 & l2 & Hk & Hl).
  exists p, l1, k, l2. subst kids. repeat split; assumption.
Qed.

Lemma subtree_app t p : forall q, subtree t (p ++ q) =
  match subtree t p with Some u => subtree u q | None => None end.
Proof.
  revert t. induction p as [|i p IH]; intros t q; [reflexivity|].
  simpl. destruct t as [a j | pp kids]; [reflexivity|].
  destruct (nth_error kids i) as [k|]; [apply IH | reflexivity].
Qed.

Lemma subtree_leaf a j path u : subtree (Leaf a j) path = Some u -> path = [] /\ u = Leaf a j.
Proof.
  destruct path as [|i path]; simpl; intros H; [|discriminate].
  injection H as H. subst u. split; reflexivity.
Qed.

Lemma subtree_cost_le c path t u : subtree t path = Some u -> (cost c u <= cost c t)%N.
Proof.
  intros H. destruct (plug_cost c path t u H) as (ctx & Hc & _). lia.
Qed.

(* ---- trees and productivity ------------------------------------------------------------ *)

Lemma tree_productive g r t : tree_of g r t -> productive_rule g r.
Proof. intros H. exists (yield t). apply tree_sentence. exact H. Qed.

Lemma productive_tree g r : productive_rule g r -> exists t, tree_of g r t.
Proof.
  intros [w Hw]. destruct (sentence_tree g r w Hw) as (t & Ht & _). exists t. exact Ht.
Qed.

Lemma valid_node_pprod g p kids : valid_tree g (Node p kids) -> pprod g p.
Proof.
  intros Hv. apply valid_node_inv in Hv. destruct Hv as (Hp & Hf & Hm). split; [exact Hp|].
  intros q Hq. rewrite <- Hm in Hq. apply in_map_iff in Hq. destruct Hq as (k & Hk & Hin).
  rewrite Forall_forall in Hf. apply (tree_productive g q k). split; [apply Hf; exact Hin | exact Hk].
Qed.

Lemma build_kids g l : (forall q, In (R q) l -> productive_rule g q) ->
  exists kids, Forall (valid_tree g) kids /\ map (root g) kids = l.
Proof.
  induction l as [|x l IH]; intros H.
  - exists []. split; [constructor | reflexivity].
  - destruct IH as (ks & Hv & Hm); [intros q Hq; apply H; right; exact Hq|].
    destruct x as [a | q].
    + exists (Leaf a 0 :: ks). split; [constructor; [constructor | exact Hv] | simpl; rewrite Hm; reflexivity].
    + destruct (productive_tree g q) as (t & Hvt & Hrt); [apply H; left; reflexivity|].
      exists (t :: ks). split; [constructor; assumption | simpl; rewrite Hrt, Hm; reflexivity].
Qed.

Lemma pprod_kids : pprod_kids_stmt.
Proof.
  intros g p. split.
  - intros [Hp Hq]. split; [exact Hp|]. apply build_kids. exact Hq.
  - intros [Hp (kids & Hv & Hm)]. apply (valid_node_pprod g p kids). constructor; assumption.
Qed.

(* ---- preach ------------------------------------------------------------------------------ *)

Lemma preach_trans g a b x : preach g a b -> preach g b x -> preach g a x.
Proof.
  intros H. induction H as [p a b Hp Hl Hin | p a b y Hp Hl Hin Hby IH]; intros Hx.
  - exact (pr_step g p a b x Hp Hl Hin Hx).
  - exact (pr_step g p a b x Hp Hl Hin (IH Hx)).
Qed.

Lemma preach_eq_trans g a b x : preach_eq g a b -> preach_eq g b x -> preach_eq g a x.
Proof.
  intros [H1 | H1] [H2 | H2].
  - left. congruence.
  - subst b. right. exact H2.
  - subst x. right. exact H1.
  - right. exact (preach_trans g a b x H1 H2).
Qed.

Lemma preach_eq_l g a b x : preach g a b -> preach_eq g b x -> preach g a x.
Proof. intros H1 [H2 | H2]; [subst x; exact H1 | exact (preach_trans g a b x H1 H2)]. Qed.

Lemma preach_eq_r g a b x : preach_eq g a b -> preach g b x -> preach g a x.
Proof. intros [H1 | H1] H2; [subst b; exact H2 | exact (preach_trans g a b x H1 H2)]. Qed.

Lemma path_preach : path_preach_stmt.
Proof.
  intros g t path. revert t. induction path as [|i path IH]; intros t u a b Hv Hs Ha Hb.
  - simpl in Hs. injection Hs as Hs. subst u. rewrite Ha in Hb. injection Hb as Hb.
    split; [left; exact Hb | intros Hn; exfalso; apply Hn; reflexivity].
  - destruct (subtree_step' t i path u Hs) as (p & l1 & k & l2 & Ht & _ & Hk). subst t.
    pose proof (valid_node_pprod g p _ Hv) as Hpp.
    simpl in Ha. injection Ha as Ha.
    apply valid_node_inv in Hv. destruct Hv as (_ & Hf & Hm).
    apply Forall_app in Hf. destruct Hf as [_ Hf]. inversion Hf as [|? ? Hvk _]; subst.
    assert (Hin : In (root g k) (rhs g p)).
    { rewrite <- Hm. rewrite map_app. apply in_or_app. right. left. reflexivity. }
    assert (Hpr : preach g (lhs g p) b).
    { destruct k as [c j | q kk].
      - destruct (subtree_leaf c j path u Hk) as [_ Hu]. subst u. discriminate Hb.
      - destruct (IH (Node q kk) u (lhs g q) b Hvk Hk eq_refl Hb) as [[He | He] _].
        + simpl in Hin. rewrite He in Hin. exact (pr_direct g p _ b Hpp eq_refl Hin).
        + simpl in Hin. exact (pr_step g p _ (lhs g q) b Hpp eq_refl Hin He). }
    split; [right; exact Hpr | intros _; exact Hpr].
Qed.

(* one step of wrapping *)
Lemma wrap1 g p b tb : pprod g p -> In (R b) (rhs g p) -> tree_of g b tb ->
  exists t i, tree_of g (lhs g p) t /\ forall path, subtree t (i :: path) = subtree tb path.
Proof.
  intros [Hp Hq] Hin [Hvb Hrb].
  destruct (in_split _ _ Hin) as (l1 & l2 & Hl).
  destruct (build_kids g l1) as (k1 & Hv1 & Hm1).
  { intros q Hq1. apply Hq. rewrite Hl. apply in_or_app. left. exact Hq1. }
  destruct (build_kids g l2) as (k2 & Hv2 & Hm2).
  { intros q Hq2. apply Hq. rewrite Hl. apply in_or_app. right. right. exact Hq2. }
  exists (Node p (k1 ++ tb :: k2)), (length k1). split; [split|].
  - constructor; [exact Hp | |].
    + apply Forall_app. split; [exact Hv1 | constructor; assumption].
    + rewrite map_app. simpl. rewrite Hm1, Hm2, Hrb. symmetry. exact Hl.
  - reflexivity.
  - intros path. apply subtree_mid.
Qed.

Lemma preach_wrap : preach_wrap_stmt.
Proof.
  intros g a b H. induction H as [p a b Hp Hl Hin | p a b x Hp Hl Hin Hbx IH]; intros tb Htb.
  - destruct (wrap1 g p b tb Hp Hin Htb) as (t & i & Ht & Hs).
    exists t, [i]. rewrite Hl in Ht. split; [exact Ht|]. split; [discriminate|]. rewrite Hs. reflexivity.
  - destruct (IH tb Htb) as (t' & path & Ht' & _ & Hs').
    destruct (wrap1 g p b t' Hp Hin Ht') as (t & i & Ht & Hs).
    exists t, (i :: path). rewrite Hl in Ht. split; [exact Ht|]. split; [discriminate|].
    rewrite Hs. exact Hs'.
Qed.

(* ---- heights -------------------------------------------------------------------------------- *)

Definition hmax (kids : list tree) : nat := fold_right (fun k n => Nat.max (height k) n) 0 kids.

Lemma height_node p kids : height (Node p kids) = S (hmax kids).
Proof. reflexivity. Qed.

Lemma hmax_in kids k : In k kids -> (height k <= hmax kids)%nat.
Proof.
  induction kids as [|x kids IH]; intros H; [destruct H|].
  simpl. destruct H as [H | H]; [subst x; lia | specialize (IH H); lia].
Qed.

Lemma hmax_ex kids : (0 < hmax kids)%nat -> exists k, In k kids /\ height k = hmax kids.
Proof.
  induction kids as [|x kids IH]; simpl; intros H; [lia|].
  destruct (le_lt_dec (hmax kids) (height x)) as [Hle | Hlt].
  - exists x. split; [left; reflexivity | unfold hmax in *; lia].
  - destruct IH as (k & Hk & Hh); [unfold hmax in *; lia|].
    exists k. split; [right; exact Hk | unfold hmax in *; lia].
Qed.

Lemma hmax_le kids n : (forall k, In k kids -> (height k <= n)%nat) -> (hmax kids <= n)%nat.
Proof.
  induction kids as [|x kids IH]; intros H; simpl; [lia|].
  assert (height x <= n)%nat by (apply H; left; reflexivity).
  assert (hmax kids <= n)%nat by (apply IH; intros k Hk; apply H; right; exact Hk).
  unfold hmax in *. lia.
Qed.

(* ---- pigeonhole ------------------------------------------------------------------------------- *)

Lemma nodup_bound (l : list N) (n : N) : NoDup l -> (forall x, In x l -> (x < n)%N) ->
  (length l <= N.to_nat n)%nat.
Proof.
  intros Hnd Hlt.
  assert (Hnd' : NoDup (map N.to_nat l)).
  { induction Hnd as [|x l Hx Hnd IH]; simpl; constructor.
    - intros Hin. apply in_map_iff in Hin. destruct Hin as (y & Hy & Hin).
      apply N2Nat.inj in Hy. subst y. exact (Hx Hin).
    - apply IH. intros y Hy. apply Hlt. right. exact Hy. }
  assert (Hincl : incl (map N.to_nat l) (seq 0 (N.to_nat n))).
  { intros y Hy. apply in_map_iff in Hy. destruct Hy as (x & Hx & Hin). subst y.
    apply in_seq. specialize (Hlt x Hin). lia. }
  pose proof (NoDup_incl_length Hnd' Hincl) as H. rewrite map_length, seq_length in H. exact H.
Qed.

Lemma tall_gen g : wf_grammar g = true -> forall t, valid_tree g t ->
  forall seen, NoDup seen -> (forall x, In x seen -> (x < nrules g)%N) ->
    (exists p kids, t = Node p kids) -> (nr g < height t + length seen)%nat ->
    (exists path u b, subtree t path = Some u /\ root g u = R b /\ In b seen) \/
    (exists p1 p2 t1 t2 b, p2 <> [] /\ subtree t p1 = Some t1 /\ subtree t1 p2 = Some t2 /\
                           root g t1 = R b /\ root g t2 = R b).
Proof.
  intros Hwf t. induction t as [a i | p kids IH] using tree_ind'; intros Hv seen Hnd Hlt Hnode Hh.
  - destruct Hnode as (p & kids & Hc). discriminate Hc.
  - clear Hnode. pose proof (valid_node_inv g p kids Hv) as (Hp & Hf & Hm).
    destruct (in_dec N.eq_dec (lhs g p) seen) as [Hin | Hnin].
    + left. exists [], (Node p kids), (lhs g p). split; [reflexivity | split; [reflexivity | exact Hin]].
    + assert (Hnd' : NoDup (lhs g p :: seen)) by (constructor; assumption).
      assert (Hlt' : forall x, In x (lhs g p :: seen) -> (x < nrules g)%N).
      { intros x [Hx | Hx]; [subst x; apply wf_lhs_range; assumption | apply Hlt; exact Hx]. }
      rewrite height_node in Hh.
      destruct (Nat.eq_dec (hmax kids) 0) as [Hz | Hnz].
      * exfalso. pose proof (nodup_bound _ _ Hnd' Hlt') as Hb. simpl in Hb. unfold nr in Hh. lia.
      * destruct (hmax_ex kids) as (k & Hk & Hhk); [lia|].
        destruct (in_split _ _ Hk) as (l1 & l2 & Hkids).
        rewrite Forall_forall in IH, Hf.
        assert (Hknode : exists q kk, k = Node q kk).
        { destruct k as [c j | q kk]; [simpl in Hhk; lia | exists q, kk; reflexivity]. }
        destruct (IH k Hk (Hf k Hk) (lhs g p :: seen) Hnd' Hlt' Hknode) as [HA | HB].
        { simpl. lia. }
        -- destruct HA as (path & u & b & Hs & Hr & Hb).
           destruct Hb as [Hb | Hb].
           ++ right. exists [], (length l1 :: path), (Node p kids), u, b.
              split; [discriminate|]. split; [reflexivity|]. split.
              { rewrite Hkids. rewrite subtree_mid. exact Hs. }
              split; [simpl; rewrite Hb; reflexivity | exact Hr].
           ++ left. exists (length l1 :: path), u, b. split; [|split; assumption].
              rewrite Hkids. rewrite subtree_mid. exact Hs.
        -- destruct HB as (p1 & p2 & t1 & t2 & b & Hne & Hs1 & Hs2 & Hr1 & Hr2).
           right. exists (length l1 :: p1), p2, t1, t2, b. split; [exact Hne|]. split.
           { rewrite Hkids. rewrite subtree_mid. exact Hs1. }
           split; [exact Hs2 | split; assumption].
Qed.

Lemma tall_repeats : tall_repeats_stmt.
Proof.
  intros g t Hwf Hv Hh.
  assert (Hnode : exists p kids, t = Node p kids).
  { destruct t as [a i | p kids]; [simpl in Hh; lia | exists p, kids; reflexivity]. }
  destruct (tall_gen g Hwf t Hv [] (NoDup_nil N)) as [HA | HB].
  - intros x [].
  - exact Hnode.
  - simpl. lia.
  - destruct HA as (path & u & b & _ & _ & []).
  - exact HB.
Qed.

(* ---- sizes ------------------------------------------------------------------------------------- *)

Definition fsize (kids : list tree) : nat := fold_right (fun k n => (tree_size k + n)%nat) 0 kids.

Lemma size_node p kids : tree_size (Node p kids) = S (fsize kids).
Proof. reflexivity. Qed.

Lemma fsize_app l1 l2 : fsize (l1 ++ l2) = (fsize l1 + fsize l2)%nat.
Proof. induction l1 as [|x l1 IH]; simpl; [reflexivity|]. unfold fsize in *. lia. Qed.

Lemma fsize_mid l1 k l2 : fsize (l1 ++ k :: l2) = (fsize l1 + tree_size k + fsize l2)%nat.
Proof. rewrite fsize_app. simpl. lia. Qed.

Lemma size_pos t : (0 < tree_size t)%nat.
Proof. destruct t; simpl; lia. Qed.

Lemma plug_size path : forall t u s, subtree t path = Some u ->
  (tree_size (plug t path s) + tree_size u = tree_size t + tree_size s)%nat.
Proof.
  induction path as [|i path IH]; intros t u s H.
  - simpl in H. injection H as H. subst u. simpl. lia.
  - destruct (subtree_step t i path u H) as (p & l1 & k & l2 & Ht & Hk & Hp). rewrite Hp. subst t.
    rewrite !size_node, !fsize_mid. specialize (IH k u s Hk). lia.
Qed.

Lemma subtree_size_le path : forall t u, subtree t path = Some u -> (tree_size u <= tree_size t)%nat.
Proof.
  induction path as [|i path IH]; intros t u H.
  - simpl in H. injection H as H. subst u. lia.
  - destruct (subtree_step t i path u H) as (p & l1 & k & l2 & Ht & Hk & _). subst t.
    rewrite size_node, fsize_mid. specialize (IH k u Hk). lia.
Qed.

Lemma subtree_size_lt path t u : path <> [] -> subtree t path = Some u -> (tree_size u < tree_size t)%nat.
Proof.
  destruct path as [|i path]; intros Hne H; [exfalso; apply Hne; reflexivity|].
  destruct (subtree_step t i path u H) as (p & l1 & k & l2 & Ht & Hk & _). subst t.
  rewrite size_node, fsize_mid. pose proof (subtree_size_le path k u Hk). lia.
Qed.

(* ---- cutting a repetition out --------------------------------------------------------------------- *)

(* the common part: a tree that is too high has a strictly smaller variant with the same root *)
Lemma cut_step g c r t : wf_grammar g = true -> tree_of g r t -> (nr g < height t)%nat ->
  exists p1 p2 t1 t2 b,
    subtree t p1 = Some t1 /\ subtree t1 p2 = Some t2 /\ root g t1 = R b /\ root g t2 = R b /\
    tree_of g r (plug t p1 t2) /\ (tree_size (plug t p1 t2) < tree_size t)%nat /\
    (cost c t2 <= cost c t1)%N /\ (cost c (plug t p1 t2) + cost c t1 = cost c t + cost c t2)%N.
Proof.
  intros Hwf [Hv Hr] Hh.
  destruct (tall_repeats g t Hwf Hv Hh) as (p1 & p2 & t1 & t2 & b & Hne & Hs1 & Hs2 & Hr1 & Hr2).
  exists p1, p2, t1, t2, b.
  pose proof (subtree_valid g p1 t t1 Hv Hs1) as Hv1.
  pose proof (subtree_valid g p2 t1 t2 Hv1 Hs2) as Hv2.
  assert (Hrr : root g t2 = root g t1) by (rewrite Hr1, Hr2; reflexivity).
  split; [exact Hs1|]. split; [exact Hs2|]. split; [exact Hr1|]. split; [exact Hr2|].
  split; [split|].
  - exact (plug_valid g p1 t t1 t2 Hv Hs1 Hv2 Hrr).
  - rewrite (plug_root g p1 t t1 t2 Hs1 Hrr). exact Hr.
  - split; [|split].
    + pose proof (plug_size p1 t t1 t2 Hs1) as Hsz.
      pose proof (subtree_size_lt p2 t1 t2 Hne Hs2). lia.
    + exact (subtree_cost_le c p2 t1 t2 Hs2).
    + destruct (plug_cost c p1 t t1 Hs1) as (ctx & Hc & Hp). rewrite Hp, Hc. lia.
Qed.

Lemma shrink_le : shrink_le_stmt.
Proof.
  intros g c r t Hwf. remember (tree_size t) as n eqn:Hn.
  assert (Hle : (tree_size t <= n)%nat) by lia. clear Hn. revert t Hle.
  induction n as [|n IH]; intros t Hle Ht.
  - pose proof (size_pos t). lia.
  - destruct (le_lt_dec (height t) (nr g)) as [Hh | Hh].
    + exists t. split; [exact Ht | split; [exact Hh | lia]].
    + destruct (cut_step g c r t Hwf Ht Hh) as (p1 & p2 & t1 & t2 & b & _ & _ & _ & _ & Ht' & Hsz & Hc12 & Hc).
      destruct (IH (plug t p1 t2)) as (t' & Htt & Hht & Hct); [lia | exact Ht' |].
      exists t'. split; [exact Htt | split; [exact Hht | lia]].
Qed.

Lemma shrink_eq : shrink_eq_stmt.
Proof.
  intros g c r t Hwf Ht0 Hnp. remember (tree_size t) as n eqn:Hn.
  assert (Hle : (tree_size t <= n)%nat) by lia. clear Hn. revert t Hle Ht0.
  induction n as [|n IH]; intros t Hle Ht.
  - pose proof (size_pos t). lia.
  - destruct (le_lt_dec (height t) (nr g)) as [Hh | Hh].
    + exists t. split; [exact Ht | split; [exact Hh | reflexivity]].
    + destruct (cut_step g c r t Hwf Ht Hh) as (p1 & p2 & t1 & t2 & b & Hs1 & Hs2 & Hr1 & Hr2 & Ht' & Hsz & Hc12 & Hc).
      assert (Heq : cost c t2 = cost c t1).
      { destruct (N.eq_dec (cost c t2) (cost c t1)) as [He | Hne]; [exact He | exfalso].
        destruct Ht as [Hv Hr].
        destruct (path_preach g t p1 t1 r b Hv Hs1 Hr Hr1) as [Hrb _].
        apply (Hnp b Hrb). exists t1, p2, t2. split; [split|].
        - exact (subtree_valid g p1 t t1 Hv Hs1).
        - exact Hr1.
        - split; [exact Hs2 | split; [exact Hr2 | lia]]. }
      destruct (IH (plug t p1 t2)) as (t' & Htt & Hht & Hct); [lia | exact Ht' |].
      exists t'. split; [exact Htt | split; [exact Hht | lia]].
Qed.

(* ---- pumping ---------------------------------------------------------------------------------------- *)

Lemma pump_unbounded : pump_unbounded_stmt.
Proof.
  intros g c b (t1 & p2 & t2 & [Hv1 Hr1] & Hs & Hr2 & Hlt) n.
  destruct (plug_cost c p2 t1 t2 Hs) as (ctx & Hc & Hp).
  assert (Hrr : root g t1 = root g t2) by (rewrite Hr1, Hr2; reflexivity).
  destruct (pumpk_ok g c t1 p2 t2 ctx Hv1 Hs Hrr Hp (N.to_nat n)) as (Hpv & Hpr & Hpc).
  exists (pumpk t1 p2 (N.to_nat n)). split; [split|].
  - exact Hpv.
  - rewrite Hpr. exact Hr1.
  - rewrite Hpc, N2Nat.id. nia.
Qed.

(* ---- where the cost is gained ------------------------------------------------------------------------- *)

Lemma gain_on_path : gain_on_path_stmt.
Proof.
  intros g c t1 p2. revert t1. induction p2 as [|i p2 IH]; intros t1 t2 Hv Hs Hlt.
  - simpl in Hs. injection Hs as Hs. subst t2. lia.
  - destruct (subtree_step' t1 i p2 t2 Hs) as (q & l1 & k & l2 & Ht & _ & Hk). subst t1.
    destruct (N.eq_dec (wcost c (flat_map yield (l1 ++ l2))) 0) as [Hz | Hnz].
    + apply valid_node_inv in Hv. destruct Hv as (_ & Hf & _).
      apply Forall_app in Hf. destruct Hf as [_ Hf]. inversion Hf as [|? ? Hvk _]; subst.
      assert (Hck : (cost c t2 < cost c k)%N).
      { rewrite cost_node, fcost_app, fcost_cons in Hlt. rewrite fcost_app in Hz. lia. }
      destruct (IH k t2 Hvk Hk Hck) as (pa & q' & kl & ky & kr & pb & Hsa & Hsb & Hpos).
      exists (length l1 :: pa), q', kl, ky, kr, pb. split; [|split; assumption].
      rewrite subtree_mid. exact Hsa.
    + exists [], q, l1, k, l2, p2. split; [reflexivity|]. split; [exact Hk | lia].
Qed.
