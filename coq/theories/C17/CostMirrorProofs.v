(* C17 (cost part) — the mirrors of the repaired rule_min_costs / rule_max_costs terminate
   and are exact: assembly of CostMirrorStep (the round of rule_costs), CostMirrorReach
   (reachability, unboundedness) and CostMirrorTrees (tree surgery). *)
From Coq Require Import List Arith NArith Bool Lia.
From GV Require Import Common.Outcome Base.Grammar Base.GrammarFacts Base.Analyses
  C17.Model C17.Spec C17.Proofs C17.MirrorModel C17.CostMirror C17.CostMirrorDefs C17.CostMirrorLoop
  C17.CostMirrorTrees C17.CostMirrorStep C17.CostMirrorReach C17.CostMirrorSpec.
Import ListNotations.

(* ---- trees <-> sentences ------------------------------------------------------------------ *)

Lemma min_of_trees g c r v : (exists t, tree_of g r t /\ cost c t = v) ->
  (forall t, tree_of g r t -> (v <= cost c t)%N) -> is_min_cost g c r v.
Proof.
  intros (t & Ht & Hc) Hall. split.
  - exists (yield t). split; [apply tree_sentence; exact Ht | exact Hc].
  - intros w Hw. destruct (sentence_tree g r w Hw) as (t' & Ht' & Hy).
    specialize (Hall t' Ht'). unfold cost in Hall. rewrite Hy in Hall. exact Hall.
Qed.

Lemma max_of_trees g c r v : (exists t, tree_of g r t /\ cost c t = v) ->
  (forall t, tree_of g r t -> (cost c t <= v)%N) -> is_max_cost g c r v.
Proof.
  intros (t & Ht & Hc) Hall. split.
  - exists (yield t). split; [apply tree_sentence; exact Ht | exact Hc].
  - intros w Hw. destruct (sentence_tree g r w Hw) as (t' & Ht' & Hy).
    specialize (Hall t' Ht'). unfold cost in Hall. rewrite Hy in Hall. exact Hall.
Qed.

Lemma unbounded_of_trees g c r : unbounded_trees g c r -> unbounded_cost g c r.
Proof.
  intros H n. destruct (H n) as (t & Ht & Hn). exists (yield t).
  split; [apply tree_sentence; exact Ht | exact Hn].
Qed.

Lemma no_tree_unproductive g r : (forall t, ~ tree_of g r t) -> ~ productive_rule g r.
Proof. intros H Hp. destruct (productive_tree g r Hp) as (t & Ht). exact (H t Ht). Qed.

Lemma min_unique g c r v v' : is_min_cost g c r v -> is_min_cost g c r v' -> v = v'.
Proof.
  intros [(w & Hw & Hc) Hl] [(w' & Hw' & Hc') Hl'].
  specialize (Hl w' Hw'). specialize (Hl' w Hw). lia.
Qed.

Lemma max_unique g c r v v' : is_max_cost g c r v -> is_max_cost g c r v' -> v = v'.
Proof.
  intros [(w & Hw & Hc) Hl] [(w' & Hw' & Hc') Hl'].
  specialize (Hl w' Hw'). specialize (Hl' w Hw). lia.
Qed.

Lemma max_not_unbounded g c r v : is_max_cost g c r v -> unbounded_cost g c r -> False.
Proof.
  intros [_ Hl] Hu. destruct (Hu (v + 1)%N) as (w & Hw & Hc). specialize (Hl w Hw). lia.
Qed.

Lemma min_productive g c r v : is_min_cost g c r v -> productive_rule g r.
Proof. intros [(w & Hw & _) _]. exists w. exact Hw. Qed.

Lemma max_productive g c r v : is_max_cost g c r v -> productive_rule g r.
Proof. intros [(w & Hw & _) _]. exists w. exact Hw. Qed.

(* ---- the two saturations --------------------------------------------------------------------- *)

Lemma sat16_spec x : (x < U16MAX /\ sat16 x = x)%N \/ (U16MAX <= x /\ sat16 x = U16MAX)%N.
Proof. unfold sat16. destruct (N.min_spec x U16MAX) as [[H1 H2] | [H1 H2]]; rewrite H2; [left | right]; lia. Qed.

Lemma cap_ok_sat16 : cap_ok sat16.
Proof.
  split; [|split].
  - intros x. destruct (sat16_spec x) as [[_ H] | [H1 H]]; rewrite H; lia.
  - intros x y Hxy. destruct (sat16_spec x) as [[Hx H] | [Hx H]], (sat16_spec y) as [[Hy H'] | [Hy H']]; rewrite H, H'; lia.
  - intros a b. destruct (sat16_spec a) as [[Ha H] | [Ha H]]; rewrite H; [reflexivity|].
    destruct (sat16_spec (U16MAX + b)) as [[Hx H1] | [Hx H1]], (sat16_spec (a + b)) as [[Hy H2] | [Hy H2]]; rewrite H1, H2; lia.
Qed.

Lemma cap_ok_id : cap_ok (fun x => x).
Proof. split; [|split]; intros; lia || reflexivity || assumption. Qed.

(* ---- indices ------------------------------------------------------------------------------------- *)

Lemma dget_no_skip g q : dget (no_skip g) q = false.
Proof.
  unfold dget, no_skip. destruct (nth_in_or_default (N.to_nat q) (map (fun _ : N => false) (ridxs g)) false) as [H | H]; [|exact H].
  apply in_map_iff in H. destruct H as (x & Hx & _). symmetry. exact Hx.
Qed.

Lemma rule_index g i : (i < nr g)%nat -> (N.of_nat i < nrules g)%N /\ N.to_nat (N.of_nat i) = i.
Proof. unfold nr. intros H. split; [lia | apply Nat2N.id]. Qed.

(* ---- rule_costs for minima ------------------------------------------------------------------------- *)

Lemma min_instance cap g c : cap_ok cap -> wf_grammar g = true ->
  exists vs, rule_costs_m cap false (no_skip g) g c = Done vs /\ costs_final cap false (no_skip g) g c vs.
Proof.
  intros Hcap Hwf. apply rule_costs_final; [exact Hwf | exact Hcap | |].
  - intros p q _ _ _. apply dget_no_skip.
  - intros r t Hr _ Ht. destruct (shrink_le g c r t Hwf Ht) as (t' & Ht' & Hh & Hc).
    exists t'. split; [exact Ht' | split; [exact Hh | exact Hc]].
Qed.

(* the true minimum of a rule that has a tree *)
Lemma true_min g c r t : wf_grammar g = true -> (r < nrules g)%N -> tree_of g r t ->
  exists v, is_min_cost g c r v.
Proof.
  intros Hwf Hr Ht. destruct (min_instance (fun x => x) g c cap_ok_id Hwf) as (vs & _ & _ & Hfin).
  specialize (Hfin r Hr). destruct (oget vs r) as [y|].
  - destruct Hfin as (_ & Hatt & Hopt). exists y. apply min_of_trees; [exact Hatt | exact Hopt].
  - destruct Hfin as [Hs | Hn]; [rewrite dget_no_skip in Hs; discriminate | exfalso; exact (Hn t Ht)].
Qed.

Lemma mins_exact_of g c vs : costs_final sat16 false (no_skip g) g c vs -> mins_exact g vs.
Proof.
  intros [Hlen Hfin]. split; [exact Hlen|]. intros r Hr. specialize (Hfin r Hr).
  destruct (oget vs r) as [x|]; simpl.
  - destruct Hfin as (_ & (t & Ht & _) & _). split; [intros _; exact (tree_productive g r t Ht) | reflexivity].
  - destruct Hfin as [Hs | Hn]; [rewrite dget_no_skip in Hs; discriminate|].
    split; [discriminate | intros Hp; exfalso; exact (no_tree_unproductive g r Hn Hp)].
Qed.

(* ---- finish_min -------------------------------------------------------------------------------------- *)

Lemma finish_min_spec vs :
  match finish_min vs with
  | OutOfFuel => False
  | Panic => exists i, (i < length vs)%nat /\ nth i vs None = Some U16MAX
  | Done l => length l = length vs /\
              forall i, (i < length vs)%nat ->
                (nth i vs None = None /\ nth i l 0%N = U16MAX) \/
                (exists v, nth i vs None = Some v /\ v <> U16MAX /\ nth i l 0%N = v)
  end.
Proof.
  induction vs as [|x vs IH]; simpl.
  - split; [reflexivity | intros i Hi; lia].
  - destruct x as [v|].
    + destruct (v =? U16MAX)%N eqn:E.
      * apply N.eqb_eq in E. subst v. exists 0%nat. split; [lia | reflexivity].
      * apply N.eqb_neq in E. destruct (finish_min vs) as [l| |]; simpl.
        -- destruct IH as [Hl IH]. split; [simpl; rewrite Hl; reflexivity|].
           intros [|i] Hi; [right; exists v; repeat split; assumption | apply IH; lia].
        -- destruct IH as (i & Hi & Hn). exists (S i). split; [lia | exact Hn].
        -- exact IH.
    + destruct (finish_min vs) as [l| |]; simpl.
      * destruct IH as [Hl IH]. split; [simpl; rewrite Hl; reflexivity|].
        intros [|i] Hi; [left; split; reflexivity | apply IH; lia].
      * destruct IH as (i & Hi & Hn). exists (S i). split; [lia | exact Hn].
      * exact IH.
Qed.

Lemma min_costs_fixed_exact : min_costs_fixed_exact_stmt.
Proof.
  intros g c Hwf. unfold rule_min_costs_fx.
  destruct (min_instance sat16 g c cap_ok_sat16 Hwf) as (vs & Hvs & Hlen & Hfin).
  rewrite Hvs. simpl. pose proof (finish_min_spec vs) as Hsp.
  destruct (finish_min vs) as [l| |].
  - destruct Hsp as [Hl Hsp]. split; [rewrite Hl; exact Hlen|]. intros r Hr.
    assert (Hi : (N.to_nat r < length vs)%nat) by (rewrite Hlen; unfold nr; lia).
    specialize (Hfin r Hr). unfold oget in Hfin. unfold cget.
    destruct (Hsp _ Hi) as [[Hn Hv] | (v & Hs & Hne & Hv)].
    + left. split; [exact Hv|]. rewrite Hn in Hfin.
      destruct Hfin as [Hs | Hn']; [rewrite dget_no_skip in Hs; discriminate | exact (no_tree_unproductive g r Hn')].
    + right. rewrite Hs in Hfin. destruct Hfin as (_ & (t & Ht & Hc) & Hopt). rewrite Hv.
      destruct (sat16_spec (cost c t)) as [[Hlt He] | [Hge He]]; [|exfalso; rewrite He in Hc; congruence].
      split; [lia|]. apply min_of_trees.
      * exists t. split; [exact Ht | lia].
      * intros t' Ht'. specialize (Hopt t' Ht'). simpl in Hopt.
        destruct (sat16_spec (cost c t')) as [[_ He'] | [Hge' He']]; rewrite He' in Hopt; lia.
  - destruct Hsp as (i & Hi & Hn). rewrite Hlen in Hi. destruct (rule_index g i Hi) as [Hr Hii].
    specialize (Hfin _ Hr). unfold oget in Hfin. rewrite Hii, Hn in Hfin.
    destruct Hfin as (_ & (t & Ht & Hc) & Hopt).
    destruct (true_min g c _ t Hwf Hr Ht) as (v & Hv). exists (N.of_nat i), v. split; [exact Hr|]. split; [exact Hv|].
    destruct Hv as [(w & Hw & Hcw) _]. destruct (sentence_tree g _ w Hw) as (t' & Ht' & Hy).
    specialize (Hopt t' Ht'). simpl in Hopt. unfold cost in Hopt. rewrite Hy, Hcw in Hopt.
    destruct (sat16_spec v) as [[_ He] | [Hge _]]; [rewrite He in Hopt|]; lia.
  - exact Hsp.
Qed.

(* ---- rule_costs for maxima ----------------------------------------------------------------------------- *)

Lemma max_instance cap g c ub : cap_ok cap -> wf_grammar g = true -> unbounded_final g c ub ->
  exists vs, rule_costs_m cap true ub g c = Done vs /\ costs_final cap true ub g c vs.
Proof.
  intros Hcap Hwf (_ & Hcl & _ & Hnp). apply rule_costs_final; [exact Hwf | exact Hcap | exact Hcl |].
  intros r t Hr Hub Ht. destruct (shrink_eq g c r t Hwf Ht (Hnp r Hr Hub)) as (t' & Ht' & Hh & Hc).
  exists t'. split; [exact Ht' | split; [exact Hh | simpl; lia]].
Qed.

Lemma true_max g c ub r t : wf_grammar g = true -> unbounded_final g c ub -> (r < nrules g)%N ->
  dget ub r = false -> tree_of g r t -> exists v, is_max_cost g c r v.
Proof.
  intros Hwf Hub Hr Hf Ht. destruct (max_instance (fun x => x) g c ub cap_ok_id Hwf Hub) as (vs & _ & _ & Hfin).
  specialize (Hfin r Hr). destruct (oget vs r) as [y|].
  - destruct Hfin as (_ & Hatt & Hopt). exists y. apply max_of_trees; [exact Hatt | exact Hopt].
  - destruct Hfin as [Hs | Hn]; [congruence | exfalso; exact (Hn t Ht)].
Qed.

Lemma finish_max_spec vs : forall ub, length vs = length ub ->
  match finish_max vs ub with
  | OutOfFuel => False
  | Panic => exists i, (i < length vs)%nat /\ nth i ub false = false /\ nth i vs None = Some U16MAX
  | Done l => length l = length vs /\
              forall i, (i < length vs)%nat ->
                (nth i ub false = true /\ nth i l 0%N = U16MAX) \/
                (nth i ub false = false /\ nth i vs None = None /\ nth i l 0%N = 0%N) \/
                (nth i ub false = false /\ exists v, nth i vs None = Some v /\ v <> U16MAX /\ nth i l 0%N = v)
  end.
Proof.
  induction vs as [|x vs IH]; intros [|u ub] Hlen; simpl in Hlen; try discriminate; simpl.
  - split; [reflexivity | intros i Hi; lia].
  - injection Hlen as Hlen. specialize (IH ub Hlen). destruct u.
    + destruct (finish_max vs ub) as [l| |]; simpl.
      * destruct IH as [Hl IH]. split; [simpl; rewrite Hl; reflexivity|].
        intros [|i] Hi; [left; split; reflexivity | apply IH; lia].
      * destruct IH as (i & Hi & Hn). exists (S i). split; [lia | exact Hn].
      * exact IH.
    + destruct x as [v|].
      * destruct (v =? U16MAX)%N eqn:E.
        -- apply N.eqb_eq in E. subst v. exists 0%nat. split; [lia | split; reflexivity].
        -- apply N.eqb_neq in E. destruct (finish_max vs ub) as [l| |]; simpl.
           ++ destruct IH as [Hl IH]. split; [simpl; rewrite Hl; reflexivity|].
              intros [|i] Hi; [right; right; split; [reflexivity | exists v; repeat split; assumption] | apply IH; lia].
           ++ destruct IH as (i & Hi & Hn). exists (S i). split; [lia | exact Hn].
           ++ exact IH.
      * destruct (finish_max vs ub) as [l| |]; simpl.
        -- destruct IH as [Hl IH]. split; [simpl; rewrite Hl; reflexivity|].
           intros [|i] Hi; [right; left; repeat split; reflexivity | apply IH; lia].
        -- destruct IH as (i & Hi & Hn). exists (S i). split; [lia | exact Hn].
        -- exact IH.
Qed.

Lemma max_costs_fixed_exact : max_costs_fixed_exact_stmt.
Proof.
  intros g c Hwf. unfold rule_max_costs_fx.
  destruct (min_instance sat16 g c cap_ok_sat16 Hwf) as (mins & Hmins & Hminfin).
  rewrite Hmins. simpl.
  destruct (reach_unbounded g c mins Hwf (mins_exact_of g c mins Hminfin)) as (m & Hm & Hub).
  rewrite Hm. simpl. set (ub := unbounded_m g c mins m) in *.
  destruct (max_instance sat16 g c ub cap_ok_sat16 Hwf Hub) as (vs & Hvs & Hlen & Hfin).
  rewrite Hvs. simpl.
  pose proof Hub as (Hlub & _ & Hsound & _).
  assert (Hll : length vs = length ub) by (rewrite Hlen, Hlub; reflexivity).
  pose proof (finish_max_spec vs ub Hll) as Hsp.
  destruct (finish_max vs ub) as [l| |].
  - destruct Hsp as [Hl Hsp]. split; [rewrite Hl; exact Hlen|]. intros r Hr.
    assert (Hi : (N.to_nat r < length vs)%nat) by (rewrite Hlen; unfold nr; lia).
    specialize (Hfin r Hr). unfold oget in Hfin. unfold cget.
    destruct (Hsp _ Hi) as [[Hu Hv] | [(Hu & Hn & Hv) | (Hu & v & Hs & Hne & Hv)]].
    + right. left. split; [exact Hv|]. apply unbounded_of_trees. apply (Hsound r Hr). exact Hu.
    + left. split; [exact Hv|]. rewrite Hn in Hfin.
      destruct Hfin as [Hs | Hn']; [unfold dget in Hs; congruence | exact (no_tree_unproductive g r Hn')].
    + right. right. rewrite Hs in Hfin. destruct Hfin as (_ & (t & Ht & Hc) & Hopt). rewrite Hv.
      destruct (sat16_spec (cost c t)) as [[Hlt He] | [Hge He]]; [|exfalso; rewrite He in Hc; congruence].
      split; [lia|]. apply max_of_trees.
      * exists t. split; [exact Ht | lia].
      * intros t' Ht'. specialize (Hopt t' Ht'). simpl in Hopt.
        destruct (sat16_spec (cost c t')) as [[_ He'] | [Hge' He']]; rewrite He' in Hopt; lia.
  - destruct Hsp as (i & Hi & Hu & Hn). rewrite Hlen in Hi. destruct (rule_index g i Hi) as [Hr Hii].
    specialize (Hfin _ Hr). unfold oget in Hfin. rewrite Hii, Hn in Hfin.
    destruct Hfin as (_ & (t & Ht & Hc) & _).
    assert (Hu' : dget ub (N.of_nat i) = false) by (unfold dget; rewrite Hii; exact Hu).
    destruct (true_max g c ub _ t Hwf Hub Hr Hu' Ht) as (v & Hv). exists (N.of_nat i), v. split; [exact Hr|]. split; [exact Hv|].
    destruct Hv as [_ Hall]. specialize (Hall (yield t) (tree_sentence g _ t Ht)). fold (cost c t) in Hall.
    destruct (sat16_spec (cost c t)) as [[Hlt He] | [Hge _]]; [rewrite He in Hc|]; lia.
  - exact Hsp.
Qed.

(* ---- corollaries ------------------------------------------------------------------------------------------ *)

Lemma fixed_costs_terminate : fixed_costs_terminate_stmt.
Proof.
  intros g c Hwf. pose proof (min_costs_fixed_exact g c Hwf) as H1. pose proof (max_costs_fixed_exact g c Hwf) as H2.
  split; intros He; [rewrite He in H1; exact H1 | rewrite He in H2; exact H2].
Qed.

Lemma min_costs_fixed_panic_iff : min_costs_fixed_panic_iff_stmt.
Proof.
  intros g c Hwf. pose proof (min_costs_fixed_exact g c Hwf) as H. split.
  - intros He. rewrite He in H. exact H.
  - intros (r & v & Hr & Hv & Hge). destruct (rule_min_costs_fx g c) as [l| |]; [exfalso | reflexivity | destruct H].
    destruct H as [_ H]. destruct (H r Hr) as [[_ Hnp] | [Hlt Hm]].
    + exact (Hnp (min_productive g c r v Hv)).
    + pose proof (min_unique g c r _ _ Hv Hm). lia.
Qed.

Lemma max_costs_fixed_panic_iff : max_costs_fixed_panic_iff_stmt.
Proof.
  intros g c Hwf. pose proof (max_costs_fixed_exact g c Hwf) as H. split.
  - intros He. rewrite He in H. exact H.
  - intros (r & v & Hr & Hv & Hge). destruct (rule_max_costs_fx g c) as [l| |]; [exfalso | reflexivity | destruct H].
    destruct H as [_ H]. destruct (H r Hr) as [[_ Hnp] | [[_ Hu] | [Hlt Hm]]].
    + exact (Hnp (max_productive g c r v Hv)).
    + exact (max_not_unbounded g c r v Hv Hu).
    + pose proof (max_unique g c r _ _ Hv Hm). lia.
Qed.

Lemma fixed_costs_agree_certified : fixed_costs_agree_certified_stmt.
Proof.
  intros g c l mn mx Hwf Hcert Hmn Hmx r a Hr Hin.
  destruct (certified_costs_exact g c l Hcert) as [_ Hcor]. pose proof (Hcor r a Hin) as Ha.
  pose proof (min_costs_fixed_exact g c Hwf) as H1. rewrite Hmn in H1. destruct H1 as [_ H1].
  pose proof (max_costs_fixed_exact g c Hwf) as H2. rewrite Hmx in H2. destruct H2 as [_ H2].
  specialize (H1 r Hr). specialize (H2 r Hr).
  destruct a as [|v V]; simpl in Ha |- *.
  - destruct H1 as [[E1 _] | [_ Hm]]; [|exfalso; exact (Ha (min_productive g c r _ Hm))].
    destruct H2 as [[E2 _] | [[_ Hu] | [_ Hm]]].
    + rewrite E1, E2. reflexivity.
    + exfalso. destruct (Hu 0%N) as (w & Hw & _). apply Ha. exists w. exact Hw.
    + exfalso. exact (Ha (max_productive g c r _ Hm)).
  - destruct Ha as [Hmin Hmax]. pose proof (min_productive g c r v Hmin) as Hp.
    destruct H1 as [[_ Hnp] | [_ Hm]]; [exfalso; exact (Hnp Hp)|].
    rewrite <- (min_unique g c r _ _ Hmin Hm).
    destruct H2 as [[_ Hnp] | [[E2 Hu] | [_ HM]]]; [exfalso; exact (Hnp Hp) | |].
    + destruct V as [V|]; [exfalso; exact (max_not_unbounded g c r V Hmax Hu) | rewrite E2; reflexivity].
    + destruct V as [V|]; [rewrite <- (max_unique g c r _ _ Hmax HM); reflexivity | exfalso; exact (max_not_unbounded g c r _ HM Hmax)].
Qed.

(* ---- the four recorded defects of the original functions, on the repaired mirror ------------------------ *)

(* min-cycle:  A: B; B: A | 'x';   (g_unit_cycle)   and   A: A | 'x';   (g_selfloop) *)
Example fx_min_unit_cycle : rule_min_costs_fx g_unit_cycle c_one = Done [1; 1; 1]%N.
Proof. vm_compute. reflexivity. Qed.
Example fx_min_selfloop : rule_min_costs_fx g_selfloop c_one = Done [1; 1]%N.
Proof. vm_compute. reflexivity. Qed.
(* max-recursive:  A: A | 'x';   the maximum is cost('x') *)
Example fx_max_selfloop : rule_max_costs_fx g_selfloop c_one = Done [1; 1]%N.
Proof. vm_compute. reflexivity. Qed.
(* min-unproductive:  S: S 'a' | 'b' | U;  U: U 'c';   (g_ex): U gets u16::MAX / 0, S its minimum 7 and an unbounded maximum *)
Example fx_min_unproductive : rule_min_costs_fx g_ex c_ex = Done [7; 7; 65535]%N.
Proof. vm_compute. reflexivity. Qed.
Example fx_max_unproductive : rule_max_costs_fx g_ex c_ex = Done [65535; 65535; 0]%N.
Proof. vm_compute. reflexivity. Qed.
(* max-early:  S: 'a' 'a' 'a' | B;  B: C;  C: 'a' 'a' 'a' 'a' 'a';   tokens a=0 eof=1, rules ^=0 S=1 B=2 C=3 *)
Definition g_max_early : grammar :=
  mkGrammar 2 4 [(1, [T 0; T 0; T 0]); (1, [R 2]); (2, [R 3]); (3, [T 0; T 0; T 0; T 0; T 0]); (0, [R 1])]%N 4 1.
Example fx_max_early : rule_max_costs_fx g_max_early c_one = Done [5; 5; 5; 5]%N.
Proof. vm_compute. reflexivity. Qed.
(* the overflow panic: a finite minimum / maximum of 65535 or more *)
Definition g_big : grammar := mkGrammar 2 2 [(1, [T 0; T 0; T 0]); (0, [R 1])]%N 1 1.
Example fx_overflow : rule_min_costs_fx g_big (fun _ => 30000%N) = Panic /\ rule_max_costs_fx g_big (fun _ => 30000%N) = Panic.
Proof. split; vm_compute; reflexivity. Qed.
