(* C17 (cost queries) — executable MIRRORS of the public sentence-cost QUERIES of
     cfgrammar/src/lib/yacc/grammar.rs   SentenceGenerator::{min_sentence_cost, max_sentence_cost,
                                          is_cheapest_prod, min_sentences, min_sentences_below}
   on top of the mirrors of rule_min_costs / rule_max_costs (CostMirror.v).  Definitions only.

   (1) A query about ONE rule computes (get_or_insert_with) the table of ALL rules: the panic of
       rule_min_costs / rule_max_costs is the panic of the query, whatever rule it is about
       ([min_sentence_cost_m], [max_sentence_cost_m]; the cache is only filled by a table that was
       computed, so a later query panics again).
   (2) min_sentences_below is recursive on the NATIVE stack: one frame per call.  The stack is
       modelled as a frame budget ([option nat]: [Some s] = room for s more frames, [None] = no
       limit), the way theories/C12 models it for the header parser: a call that finds no room
       is the [Panic] outcome (in Rust: the process is aborted, which no caller can catch).
       The recursion itself runs on fuel ([OutOfFuel] excluded by enough fuel). *)
From Coq Require Import List Arith NArith Bool.
From GV Require Import Common.Outcome Base.Grammar Base.Analyses C17.Model C17.MirrorModel C17.CostMirror.
Import ListNotations.

(* ---- (1) the cost queries --------------------------------------------------------------- *)

(* self.rule_min_costs.borrow_mut().get_or_insert_with(|| rule_min_costs(..))[usize::from(ridx)] *)
Definition min_sentence_cost_m (g : grammar) (c : N -> N) (r : N) : outcome N :=
  do l <- rule_min_costs_fx g c; Done (cget l r).

(* let v = …get_or_insert_with(|| rule_max_costs(..))[ridx]; if v == u16::MAX { None } else { Some(v) } *)
Definition max_sentence_cost_m (g : grammar) (c : N -> N) (r : N) : outcome (option N) :=
  do l <- rule_max_costs_fx g c;
  Done (if (cget l r =? U16MAX)%N then None else Some (cget l r)).

(* ---- (2) min_sentences ---------------------------------------------------------------- *)

(* the native stack: room for one more frame? *)
Definition stack := option nat.
Definition no_room (st : stack) : bool := match st with Some O => true | _ => false end.
Definition callee (st : stack) : stack := match st with Some (S n) => Some n | other => other end.

(* fn is_cheapest_prod: the minimal costs of the symbols add up (in u64) to the minimal cost of the rule *)
Definition is_cheapest (g : grammar) (c : N -> N) (mins : list N) (r p : N) : bool :=
  (fold_left (fun sc x => (sc + match x with R i => cget mins i | T i => c i end)%N) (rhs g p) 0%N =? cget mins r)%N.

(* grm.prod(pidx).iter().any(|sym| match sym { Rule(s) => active[s], Token(_) => false }) *)
Definition uses_active (active : list bool) (l : list sym) : bool :=
  existsb (fun x => match x with R q => dget active q | T _ => false end) l.

Definition is_nil {A} (l : list A) : bool := match l with [] => true | _ => false end.

(* the odometer ('b: loop … todo[j] += 1 …): every combination, last column fastest; all columns non-empty *)
Fixpoint combos (ms : list (list (list N))) : list (list N) :=
  match ms with
  | [] => [[]]
  | m :: ms' => flat_map (fun x => map (fun y => x ++ y) (combos ms')) m
  end.

Section Frame.
  (* the recursive call self.min_sentences_below(s_ridx, active): result and the [active] it leaves *)
  Variable rec : N -> list bool -> outcome (list (list N) * list bool).
  Variable g : grammar.
  Variable c : N -> N.
  Variable mins : list N.
  Variable r : N.

  (* for sym in prod { Rule(s) => ms.push(self.min_sentences_below(s, active)), Token(t) => ms.push(vec![vec![t]]) } *)
  Fixpoint ms_syms (l : list sym) (active : list bool) : outcome (list (list (list N)) * list bool) :=
    match l with
    | [] => Done ([], active)
    | T t :: l' => do ra <- ms_syms l' active; Done ([[t]] :: fst ra, snd ra)
    | R q :: l' => do ma <- rec q active;
                   do ra <- ms_syms l' (snd ma);
                   Done (fst ma :: fst ra, snd ra)
    end.

  (* for &pidx in self.grm.rule_to_prods(ridx).iter() { … } *)
  Fixpoint ms_prods (ps : list N) (active : list bool) (sts : list (list N)) : outcome (list (list N) * list bool) :=
    match ps with
    | [] => Done (sts, active)
    | p :: ps' =>
        if negb (is_cheapest g c mins r p) || uses_active active (rhs g p) then ms_prods ps' active sts
        else if is_nil (rhs g p) then ms_prods ps' active (sts ++ [[]])
        else do ma <- ms_syms (rhs g p) active;
             if existsb is_nil (fst ma) then ms_prods ps' (snd ma) sts
             else ms_prods ps' (snd ma) (sts ++ combos (fst ma))
    end.
End Frame.

(* fn min_sentences_below(&self, ridx, active: &mut Vec<bool>) -> Vec<Vec<TIdx>>, one native frame per call *)
Fixpoint msb (fuel : nat) (g : grammar) (c : N -> N) (mins : list N) (st : stack) (r : N) (active : list bool)
  : outcome (list (list N) * list bool) :=
  match fuel with
  | O => OutOfFuel
  | S f =>
      if no_room st then Panic
      else if (cget mins r =? U16MAX)%N then Done ([], active)
      else do sa <- ms_prods (msb f g c mins (callee st)) g c mins r (rule_to_prods g r)
                             (set_nth active (N.to_nat r) true) [];
           Done (fst sa, set_nth (snd sa) (N.to_nat r) false)
  end.

Definition none_active (g : grammar) : list bool := map (fun _ => false) (ridxs g).

(* pub fn min_sentences(&self, ridx): the costs are computed by the first min_sentence_cost query *)
Definition min_sentences_m (st : stack) (fuel : nat) (g : grammar) (c : N -> N) (r : N) : outcome (list (list N)) :=
  do mins <- rule_min_costs_fx g c;
  do sa <- msb fuel g c mins st r (none_active g);
  Done (fst sa).

(* ---- witnesses ------------------------------------------------------------------------- *)

(* %start S  %%  S: 'a';  Big: 'b' x 258;   as YaccGrammar numbers it (^ = rule 0, S = 1, Big = 2;
   'a' = token 0, 'b' = 1, end of input = 2); every token costs 255 *)
Definition g_unrelated : grammar :=
  mkGrammar 3 3 [(1, [T 0]); (2, repeat (T 1) 258); (0, [R 1])]%N 2 2.
Definition c_255 : N -> N := fun _ => 255%N.

(* %start A0  %%  A0: A1; A1: A2; … A{k-1}: A{k}; A{k}: 'x';   (^ = rule 0, A_i = rule i+1; production i is
   A_i's, production k+1 is ^: A0; 'x' = token 0, end of input = 1) *)
Definition chain_prods (k : nat) : list (N * list sym) :=
  map (fun i => (N.of_nat (S i), [R (N.of_nat (S (S i)))])) (seq 0 k) ++
  [(N.of_nat (S k), [T 0%N]); (0%N, [R 1%N])].
Definition chain_grammar (k : nat) : grammar :=
  mkGrammar 2 (N.of_nat (k + 2)) (chain_prods k) (N.of_nat (S k)) 1.
Definition c_1 : N -> N := fun _ => 1%N.
