(* C17 (mirror part) — statements about the mirrors of YaccFirsts::new and
   YaccFollows::new (MirrorModel.v), against the declarative notions of
   Base/Grammar.v (sentential forms).  All statements are for ALL well-formed
   grammars. *)
From Coq Require Import List Arith NArith Bool.
From GV Require Import Common.Outcome Base.Grammar Base.Analyses C17.MirrorModel.
Import ListNotations.

(* 1. when the loop of firsts.rs returns, its epsilon bits are exactly the rules that
      derive the empty string and its FIRST table is exactly the set of tokens that
      can begin a string derived from the rule — whatever the number of rounds *)
Definition firsts_mirror_exact_stmt : Prop :=
  forall g fuel nl fs, wf_grammar g = true -> firsts_mirror fuel g = Done (nl, fs) ->
    (forall r, In r nl <-> nullable_spec g r) /\
    (forall r a, In (r, a) fs <-> first_spec g r a).

(* 2. it returns within nrules*(ntoks+1) + 2 rounds (never runs out of fuel, never panics) *)
Definition firsts_mirror_terminates_stmt : Prop :=
  forall g fuel, wf_grammar g = true -> (firsts_fuel g <= fuel)%nat ->
    exists nl fs, firsts_mirror fuel g = Done (nl, fs).

(* 3. the repaired loop of follows.rs, run on the tables the firsts loop returned: the
      result is exactly the TEXTBOOK FOLLOW (every production contributes, whether its
      rule occurs in a sentential form of ^ or not) … *)
Definition follows_mirror_exact_stmt : Prop :=
  forall g f1 f2 nl fs fo, wf_grammar g = true ->
    firsts_mirror f1 g = Done (nl, fs) -> follows_mirror true f2 g nl fs = Done fo ->
    forall r a, In (r, a) fo <-> follow_textbook_spec g r a.

(* … which is FOLLOW over the sentential forms of ^ $ when every rule is reachable … *)
Definition all_reachable (g : grammar) : Prop :=
  forall q, (q < nrules g)%N -> q = start_rule g \/ reaches g (start_rule g) q.

Definition follows_mirror_strict_stmt : Prop :=
  forall g f1 f2 nl fs fo, wf_grammar g = true -> all_reachable g ->
    firsts_mirror f1 g = Done (nl, fs) -> follows_mirror true f2 g nl fs = Done fo ->
    forall r a, In (r, a) fo <-> follow_spec g r a.

(* … and is NOT that set in general: a production of an unreachable rule contributes *)
Definition follows_mirror_strict_refuted_stmt : Prop :=
  exists g nl fs fo r a, wf_grammar g = true /\ ff_mirror true g = Done (nl, fs, fo) /\
    In (r, a) fo /\ ~ follow_spec g r a.

(* either variant of the follows loop returns within nrules*ntoks + 2 rounds *)
Definition follows_mirror_terminates_stmt : Prop :=
  forall g fixed f1 nl fs fuel, wf_grammar g = true -> firsts_mirror f1 g = Done (nl, fs) ->
    (follows_fuel g <= fuel)%nat ->
    exists fo, follows_mirror fixed fuel g nl fs = Done fo.

(* both loops with the fuel above: always an answer, and the answer is exact *)
Definition ff_mirror_total_exact_stmt : Prop :=
  forall g, wf_grammar g = true ->
    exists nl fs fo, ff_mirror true g = Done (nl, fs, fo) /\
      (forall r, In r nl <-> nullable_spec g r) /\
      (forall r a, In (r, a) fs <-> first_spec g r a) /\
      (forall r a, In (r, a) fo <-> follow_textbook_spec g r a).

(* 4. the ORIGINAL loop body (one-symbol lookahead, before fix 4c68ced) returns a
      table that misses a token which follows the rule in a sentential form of ^ $:
      S: A B 'c'; A: 'a'; B: 'b' | ;   —  'c' is not in FOLLOW(A) *)
Definition follows_mirror_orig_refuted_stmt : Prop :=
  exists g nl fs fo r a, wf_grammar g = true /\ all_reachable g /\
    ff_mirror false g = Done (nl, fs, fo) /\
    follow_spec g r a /\ ~ In (r, a) fo.

(* the original loop never reports a token that does not follow (it is sound, only incomplete) *)
Definition follows_mirror_orig_sound_stmt : Prop :=
  forall g f1 f2 nl fs fo, wf_grammar g = true ->
    firsts_mirror f1 g = Done (nl, fs) -> follows_mirror false f2 g nl fs = Done fo ->
    forall r a, In (r, a) fo -> follow_textbook_spec g r a.
