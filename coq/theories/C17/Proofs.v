(* C17 — soundness of the cost-certificate checkers and of [certified_costs];
   divergence of the mirrored [rule_min_costs] on a productive grammar. *)
From Coq Require Import List Arith NArith Bool Lia.
From GV Require Import Common.Outcome Base.Grammar Base.GrammarFacts Base.Analyses C17.Model C17.Spec.
Import ListNotations.

(* ---- costs ------------------------------------------------------------------ *)

Lemma wcost_app c a b : wcost c (a ++ b) = (wcost c a + wcost c b)%N.
Proof. induction a as [|x a IH]; simpl; [reflexivity|]. rewrite IH. lia. Qed.

Lemma cost_leaf c a i : cost c (Leaf a i) = c a.
Proof. unfold cost, yield. simpl. lia. Qed.

Lemma cost_node c p kids : cost c (Node p kids) = wcost c (flat_map yield kids).
Proof. unfold cost. rewrite yield_node. reflexivity. Qed.

Lemma fcost_cons c k ks :
  wcost c (flat_map yield (k :: ks)) = (cost c k + wcost c (flat_map yield ks))%N.
Proof. simpl. rewrite wcost_app. reflexivity. Qed.

Lemma fcost_app c l1 l2 :
  wcost c (flat_map yield (l1 ++ l2)) = (wcost c (flat_map yield l1) + wcost c (flat_map yield l2))%N.
Proof. rewrite flat_map_app, wcost_app. reflexivity. Qed.

(* ---- trees <-> sentences ------------------------------------------------------ *)

Lemma tree_sentence g r t : tree_of g r t -> sentence_of g r (yield t).
Proof.
  intros [Hv Hr]. unfold sentence_of. rewrite <- Hr. apply tree_derives. exact Hv.
Qed.

Lemma sentence_tree g r w : sentence_of g r w -> exists t, tree_of g r t /\ yield t = w.
Proof.
  intros H. apply derives_tree in H. destruct H as (t & Hv & Hr & Hy).
  exists t. split; [split; assumption | exact Hy].
Qed.

Lemma tree_of_node g r t : tree_of g r t ->
  exists p kids, t = Node p kids /\ is_prod g p /\ lhs g p = r /\
                 Forall (valid_tree g) kids /\ map (root g) kids = rhs g p.
Proof.
  intros [Hv Hr]. destruct Hv as [a i | p kids Hp Hk Hm].
  - discriminate Hr.
  - simpl in Hr. injection Hr as Hr. exists p, kids. repeat split; assumption.
Qed.

Lemma tree_of_dom g r t : tree_of g r t -> In r (dom g).
Proof.
  intros H. destruct (tree_of_node g r t H) as (p & kids & _ & Hp & Hl & _).
  unfold dom. apply in_or_app. left. apply in_map_iff.
  exists (lhs g p, rhs g p). split; [exact Hl | apply prod_in_prods; exact Hp].
Qed.

(* ---- the boolean tree checker --------------------------------------------------- *)

Lemma syms_eqb_eq a b : syms_eqb a b = true -> a = b.
Proof.
  revert b. induction a as [|x a IH]; intros [|y b] H; simpl in H; try discriminate; [reflexivity|].
  apply andb_true_iff in H. destruct H as [H1 H2]. apply sym_eqb_eq in H1. subst y.
  f_equal. apply IH. exact H2.
Qed.

Lemma tree_ind' (P : tree -> Prop) :
  (forall a i, P (Leaf a i)) ->
  (forall p kids, Forall P kids -> P (Node p kids)) ->
  forall t, P t.
Proof.
  intros HL HN. fix IH 1. intros [a i | p kids].
  - apply HL.
  - apply HN. revert kids. fix IHk 1. intros [|k ks].
    + constructor.
    + constructor; [apply IH | apply IHk].
Qed.

Lemma valid_treeb_sound g t : valid_treeb g t = true -> valid_tree g t.
Proof.
  induction t as [a i | p kids IH] using tree_ind'; intros H.
  - constructor.
  - simpl in H. apply andb_true_iff in H. destruct H as [H H3].
    apply andb_true_iff in H. destruct H as [H1 H2].
    constructor.
    + apply is_prodb_spec. exact H1.
    + rewrite forallb_forall in H3. rewrite Forall_forall in IH |- *.
      intros k Hk. apply IH; [exact Hk | apply H3; exact Hk].
    + apply syms_eqb_eq. exact H2.
Qed.

(* ---- minimum ---------------------------------------------------------------------- *)

Definition lb_prop g c (m : N -> option N) (t : tree) : Prop :=
  forall r, root g t = R r -> exists v, m r = Some v /\ (v <= cost c t)%N.

Lemma seq_val_lb g c m kids : Forall (lb_prop g c m) kids ->
  exists s, seq_val c m (map (root g) kids) = Some s /\ (s <= wcost c (flat_map yield kids))%N.
Proof.
  intros H. induction H as [|k ks Hk Hks IH].
  - exists 0%N. split; [reflexivity | simpl; lia].
  - destruct IH as (y & Hy & Hle). rewrite fcost_cons. destruct k as [a i | q kk].
    + exists (c a + y)%N. simpl. rewrite Hy. split; [reflexivity|]. rewrite cost_leaf. lia.
    + destruct (Hk (lhs g q) eq_refl) as (x & Hx & Hxle).
      exists (x + y)%N. simpl. rewrite Hx, Hy. split; [reflexivity | lia].
Qed.

Lemma min_lb g c m : feasible_min g c m = true ->
  forall t, valid_tree g t -> lb_prop g c m t.
Proof.
  intros Hf t Hv. induction Hv as [a i | p kids Hp Hk IH Hm] using valid_tree_ind'.
  - intros r Hr. discriminate Hr.
  - intros r Hr. simpl in Hr. injection Hr as Hr.
    destruct (seq_val_lb g c m kids IH) as (s & Hs & Hle). rewrite Hm in Hs.
    unfold feasible_min in Hf. rewrite forallb_forall in Hf.
    specialize (Hf (lhs g p, rhs g p) (prod_in_prods g p Hp)). simpl in Hf.
    rewrite Hs in Hf. rewrite Hr in Hf. destruct (m r) as [v|]; [|discriminate].
    exists v. split; [reflexivity|]. apply N.leb_le in Hf. rewrite cost_node. lia.
Qed.

Lemma wits_ok_spec g c m wt : wits_ok g c m wt = true ->
  forall r v, In r (dom g) -> m r = Some v -> exists t, tree_of g r t /\ cost c t = v.
Proof.
  intros H r v Hr Hm. unfold wits_ok in H. rewrite forallb_forall in H.
  specialize (H r Hr). rewrite Hm in H. destruct (wt r) as [t|]; [|discriminate].
  unfold wit_ok in H. apply andb_true_iff in H. destruct H as [H H3].
  apply andb_true_iff in H. destruct H as [H1 H2].
  exists t. split; [split|].
  - apply valid_treeb_sound. exact H1.
  - apply sym_eqb_eq. exact H2.
  - apply N.eqb_eq. exact H3.
Qed.

Lemma min_cost_certificate : min_cost_certificate_stmt.
Proof.
  intros g c m wt H r t Ht. unfold chk_min in H. apply andb_true_iff in H. destruct H as [Hf Hw].
  destruct (min_lb g c m Hf t (proj1 Ht) r (proj2 Ht)) as (v & Hv & Hle).
  exists v. split; [exact Hv|]. split; [exact Hle|].
  apply (wits_ok_spec g c m wt Hw r v); [eapply tree_of_dom; exact Ht | exact Hv].
Qed.

Lemma min_cost_productive : min_cost_productive_stmt.
Proof.
  intros g c m wt H r Hr. split.
  - intros Hn [w Hw]. destruct (sentence_tree g r w Hw) as (t & Ht & _).
    destruct (min_cost_certificate g c m wt H r t Ht) as (v & Hv & _). congruence.
  - intros Hnp. destruct (m r) as [v|] eqn:Hm; [|reflexivity]. exfalso. apply Hnp.
    unfold chk_min in H. apply andb_true_iff in H. destruct H as [_ Hw].
    destruct (wits_ok_spec g c m wt Hw r v) as (t & Ht & _).
    + unfold dom. apply in_or_app. right. apply In_ridxs. exact Hr.
    + exact Hm.
    + exists (yield t). apply tree_sentence. exact Ht.
Qed.

(* ---- finite maximum ----------------------------------------------------------------- *)

Definition ub_prop g c (M : N -> option N) (t : tree) : Prop :=
  forall r v, root g t = R r -> M r = Some v -> (cost c t <= v)%N.

Lemma seq_val_ub g c M kids : Forall (ub_prop g c M) kids ->
  forall s, seq_val c M (map (root g) kids) = Some s -> (wcost c (flat_map yield kids) <= s)%N.
Proof.
  intros H. induction H as [|k ks Hk Hks IH]; intros s Hs.
  - simpl in *. injection Hs as Hs. lia.
  - rewrite fcost_cons. destruct k as [a i | q kk]; simpl in Hs.
    + destruct (seq_val c M (map (root g) ks)) as [y|]; [|discriminate].
      injection Hs as Hs. specialize (IH y eq_refl). rewrite cost_leaf. lia.
    + destruct (M (lhs g q)) as [x|] eqn:Hx; [|discriminate].
      destruct (seq_val c M (map (root g) ks)) as [y|]; [|discriminate].
      injection Hs as Hs. specialize (IH y eq_refl).
      specialize (Hk (lhs g q) x eq_refl Hx). lia.
Qed.

Lemma max_ub g c m M : feasible_min g c m = true -> dominates g c m M = true ->
  forall t, valid_tree g t -> ub_prop g c M t.
Proof.
  intros Hf Hd t Hv. induction Hv as [a i | p kids Hp Hk IH Hm] using valid_tree_ind'.
  - intros r v Hr. discriminate Hr.
  - intros r v Hr HM. simpl in Hr. injection Hr as Hr.
    assert (Hlb : Forall (lb_prop g c m) kids).
    { rewrite Forall_forall in Hk |- *. intros k Hin. apply min_lb; [exact Hf | apply Hk; exact Hin]. }
    destruct (seq_val_lb g c m kids Hlb) as (s0 & Hs0 & _). rewrite Hm in Hs0.
    unfold dominates in Hd. rewrite forallb_forall in Hd.
    specialize (Hd (lhs g p, rhs g p) (prod_in_prods g p Hp)). simpl in Hd.
    rewrite Hr, HM, Hs0 in Hd.
    destruct (seq_val c M (rhs g p)) as [s|] eqn:Hs; [|discriminate].
    apply N.leb_le in Hd. rewrite <- Hm in Hs.
    pose proof (seq_val_ub g c M kids IH s Hs) as Hle. rewrite cost_node. lia.
Qed.

Lemma max_cost_finite_certificate : max_cost_finite_certificate_stmt.
Proof.
  intros g c m wt M Wt H r v t HM Ht. unfold chk_max_fin in H.
  apply andb_true_iff in H. destruct H as [H HW]. apply andb_true_iff in H. destruct H as [Hmin Hd].
  unfold chk_min in Hmin. apply andb_true_iff in Hmin. destruct Hmin as [Hf _].
  split.
  - exact (max_ub g c m M Hf Hd t (proj1 Ht) r v (proj2 Ht) HM).
  - apply (wits_ok_spec g c M Wt HW r v); [eapply tree_of_dom; exact Ht | exact HM].
Qed.

(* ---- pumping -------------------------------------------------------------------------- *)

Fixpoint plug (t : tree) (path : list nat) (s : tree) : tree :=
  match path with
  | [] => s
  | i :: path' =>
      match t with
      | Leaf _ _ => t
      | Node p kids => match nth_error kids i with
                       | Some k => Node p (firstn i kids ++ plug k path' s :: skipn (S i) kids)
                       | None => t
                       end
      end
  end.

Lemma nth_error_split_at {A} (l : list A) i x : nth_error l i = Some x ->
  l = firstn i l ++ x :: skipn (S i) l.
Proof.
  revert l. induction i as [|i IH]; intros [|y l] H; simpl in H; try discriminate.
  - injection H as H. subst y. reflexivity.
  - simpl. f_equal. apply IH. exact H.
Qed.

(* one step down a path *)
Lemma subtree_step t i path u : subtree t (i :: path) = Some u ->
  exists p l1 k l2, t = Node p (l1 ++ k :: l2) /\ subtree k path = Some u /\
                    forall s, plug t (i :: path) s = Node p (l1 ++ plug k path s :: l2).
Proof.
  intros H. destruct t as [a j | p kids]; simpl in H; [discriminate|].
  destruct (nth_error kids i) as [k|] eqn:E; [|discriminate].
  exists p, (firstn i kids), k, (skipn (S i) kids). split; [|split].
  - f_equal. apply nth_error_split_at. exact E.
  - exact H.
  - intros s. simpl. rewrite E. reflexivity.
Qed.

Lemma plug_root g path : forall t u s, subtree t path = Some u -> root g s = root g u ->
  root g (plug t path s) = root g t.
Proof.
  destruct path as [|i path]; intros t u s H Hr.
  - simpl in *. injection H as H. subst u. exact Hr.
  - destruct (subtree_step t i path u H) as (p & l1 & k & l2 & Ht & _ & Hp).
    rewrite Hp, Ht. reflexivity.
Qed.

Lemma valid_node_inv g p kids : valid_tree g (Node p kids) ->
  is_prod g p /\ Forall (valid_tree g) kids /\ map (root g) kids = rhs g p.
Proof. intros H. inversion H; subst. repeat split; assumption. Qed.

Lemma subtree_valid g path : forall t u, valid_tree g t -> subtree t path = Some u -> valid_tree g u.
Proof.
  induction path as [|i path IH]; intros t u Hv H.
  - simpl in H. injection H as H. subst u. exact Hv.
  - destruct (subtree_step t i path u H) as (p & l1 & k & l2 & Ht & Hk & _). subst t.
    apply valid_node_inv in Hv. destruct Hv as (_ & Hf & _).
    apply Forall_app in Hf. destruct Hf as [_ Hf]. inversion Hf as [|? ? Hvk _]; subst.
    exact (IH k u Hvk Hk).
Qed.

Lemma plug_valid g path : forall t u s, valid_tree g t -> subtree t path = Some u ->
  valid_tree g s -> root g s = root g u -> valid_tree g (plug t path s).
Proof.
  induction path as [|i path IH]; intros t u s Hv H Hs Hr.
  - simpl. exact Hs.
  - destruct (subtree_step t i path u H) as (p & l1 & k & l2 & Ht & Hk & Hp). rewrite Hp. subst t.
    apply valid_node_inv in Hv. destruct Hv as (Hpp & Hf & Hm).
    apply Forall_app in Hf. destruct Hf as [Hf1 Hf]. inversion Hf as [|? ? Hvk Hf2]; subst.
    constructor.
    + exact Hpp.
    + apply Forall_app. split; [exact Hf1|]. constructor; [|exact Hf2].
      exact (IH k u s Hvk Hk Hs Hr).
    + rewrite <- Hm. rewrite !map_app. simpl. f_equal. f_equal.
      exact (plug_root g path k u s Hk Hr).
Qed.

Lemma plug_cost c path : forall t u, subtree t path = Some u ->
  exists ctx, cost c t = (ctx + cost c u)%N /\ forall s, cost c (plug t path s) = (ctx + cost c s)%N.
Proof.
  induction path as [|i path IH]; intros t u H.
  - simpl in H. injection H as H. subst u. exists 0%N. split; [lia|]. intros s. simpl. lia.
  - destruct (subtree_step t i path u H) as (p & l1 & k & l2 & Ht & Hk & Hp). subst t.
    destruct (IH k u Hk) as (ctx & Hc1 & Hc2).
    exists (wcost c (flat_map yield l1) + ctx + wcost c (flat_map yield l2))%N. split.
    + rewrite cost_node, fcost_app, fcost_cons, Hc1. lia.
    + intros s. rewrite Hp, cost_node, fcost_app, fcost_cons, Hc2. lia.
Qed.

Fixpoint pumpk (t1 : tree) (p2 : list nat) (k : nat) : tree :=
  match k with O => t1 | S k' => plug t1 p2 (pumpk t1 p2 k') end.

Lemma pumpk_ok g c t1 p2 t2 ctx :
  valid_tree g t1 -> subtree t1 p2 = Some t2 -> root g t1 = root g t2 ->
  (forall s, cost c (plug t1 p2 s) = (ctx + cost c s)%N) ->
  forall k, valid_tree g (pumpk t1 p2 k) /\ root g (pumpk t1 p2 k) = root g t1 /\
            cost c (pumpk t1 p2 k) = (N.of_nat k * ctx + cost c t1)%N.
Proof.
  intros Hv Hs Hr Hc. induction k as [|k IH].
  - cbn [pumpk]. split; [exact Hv | split; [reflexivity | lia]].
  - destruct IH as (IHv & IHr & IHc). simpl pumpk.
    assert (Hr' : root g (pumpk t1 p2 k) = root g t2) by (rewrite IHr; exact Hr).
    split; [|split].
    + exact (plug_valid g p2 t1 t2 _ Hv Hs IHv Hr').
    + exact (plug_root g p2 t1 t2 _ Hs Hr').
    + rewrite Hc, IHc, Nat2N.inj_succ, N.mul_succ_l. lia.
Qed.

Lemma max_cost_unbounded_certificate : max_cost_unbounded_certificate_stmt.
Proof.
  intros g c r t p1 p2 H n. unfold chk_pump in H.
  apply andb_true_iff in H. destruct H as [H H3]. apply andb_true_iff in H. destruct H as [H1 H2].
  apply valid_treeb_sound in H1. apply sym_eqb_eq in H2.
  destruct (subtree t p1) as [t1|] eqn:E1; [|discriminate].
  destruct (subtree t1 p2) as [t2|] eqn:E2; [|discriminate].
  apply andb_true_iff in H3. destruct H3 as [H3 H4]. apply sym_eqb_eq in H3. apply N.ltb_lt in H4.
  pose proof (subtree_valid g p1 t t1 H1 E1) as Hv1.
  destruct (plug_cost c p1 t t1 E1) as (ctx1 & _ & Hc1).
  destruct (plug_cost c p2 t1 t2 E2) as (ctx2 & Hc2 & Hc2').
  destruct (pumpk_ok g c t1 p2 t2 ctx2 Hv1 E2 H3 Hc2' (N.to_nat n)) as (Hpv & Hpr & Hpc).
  exists (plug t p1 (pumpk t1 p2 (N.to_nat n))). split; [split|].
  - exact (plug_valid g p1 t t1 _ H1 E1 Hpv Hpr).
  - rewrite (plug_root g p1 t t1 _ E1 Hpr). exact H2.
  - rewrite Hc1, Hpc, N2Nat.id. nia.
Qed.

(* ---- the reference answers --------------------------------------------------------------- *)

Lemma certified_costs_exact : certified_costs_exact_stmt.
Proof.
  intros g c l H. unfold certified_costs in H.
  destruct (cert_ok g c (search g c)) eqn:Hok; [|discriminate]. injection H as H. subst l.
  set (cc := search g c) in *. clearbody cc.
  unfold cert_ok in Hok. apply andb_true_iff in Hok. destruct Hok as [Hfin Hpump].
  pose proof Hfin as Hfin'. unfold chk_max_fin in Hfin'.
  apply andb_true_iff in Hfin'. destruct Hfin' as [Hx HW]. apply andb_true_iff in Hx. destruct Hx as [Hmin Hdom].
  pose proof Hmin as Hmin'. unfold chk_min in Hmin'. apply andb_true_iff in Hmin'. destruct Hmin' as [Hfeas Hw].
  split.
  - intros r Hr. eexists. unfold answers. apply in_map_iff. exists r. split; [reflexivity|].
    apply In_ridxs. exact Hr.
  - intros r a Hin. unfold answers in Hin. apply in_map_iff in Hin. destruct Hin as (r0 & Heq & Hr0).
    injection Heq as Heq1 Heq2. subst r0.
    assert (Hrn : (r < nrules g)%N) by (apply In_ridxs; exact Hr0).
    assert (Hrd : In r (dom g)) by (unfold dom; apply in_or_app; right; exact Hr0).
    rewrite forallb_forall in Hpump. specialize (Hpump r Hr0).
    destruct (oget (cc_min cc) r) as [v|] eqn:Hm; subst a; simpl.
    + split.
      * (* minimum *)
        split.
        -- destruct (wits_ok_spec g c _ _ Hw r v Hrd Hm) as (t & Ht & Hc).
           exists (yield t). split; [apply tree_sentence; exact Ht | exact Hc].
        -- intros w Hsw. destruct (sentence_tree g r w Hsw) as (t & Ht & Hy).
           destruct (min_cost_certificate g c _ _ Hmin r t Ht) as (v' & Hv' & Hle & _).
           rewrite Hm in Hv'. injection Hv' as Hv'. subst v'. unfold cost in Hle. rewrite Hy in Hle. exact Hle.
      * destruct (oget (cc_max cc) r) as [V|] eqn:HM.
        -- (* finite maximum *)
           split.
           ++ destruct (wits_ok_spec g c _ _ HW r V Hrd HM) as (t & Ht & Hc).
              exists (yield t). split; [apply tree_sentence; exact Ht | exact Hc].
           ++ intros w Hsw. destruct (sentence_tree g r w Hsw) as (t & Ht & Hy).
              destruct (max_cost_finite_certificate g c _ _ _ _ Hfin r V t HM Ht) as (Hle & _).
              unfold cost in Hle. rewrite Hy in Hle. exact Hle.
        -- (* unbounded *)
           destruct (pget (cc_pump cc) r) as [[t [p1 p2]]|]; [|discriminate].
           intros n. destruct (max_cost_unbounded_certificate g c r t p1 p2 Hpump n) as (t' & Ht' & Hn).
           exists (yield t'). split; [apply tree_sentence; exact Ht' | exact Hn].
    + apply (min_cost_productive g c _ _ Hmin r Hrn). exact Hm.
Qed.

(* ---- the mirrored iteration -------------------------------------------------------------- *)

Lemma mc_fixpoint_diverges : mc_fixpoint_diverges_stmt.
Proof.
  intros g c st Hnd Hfix fuel. induction fuel as [|f IH]; simpl; [reflexivity|].
  rewrite Hnd, Hfix. simpl. exact IH.
Qed.

Lemma nlist_eqb_eq a b : nlist_eqb a b = true -> a = b.
Proof.
  revert b. induction a as [|x a IH]; intros [|y b] H; simpl in H; try discriminate; [reflexivity|].
  apply andb_true_iff in H. destruct H as [H1 H2]. apply N.eqb_eq in H1. subst y. f_equal. apply IH. exact H2.
Qed.
Lemma blist_eqb_eq a b : blist_eqb a b = true -> a = b.
Proof.
  revert b. induction a as [|x a IH]; intros [|y b] H; simpl in H; try discriminate; [reflexivity|].
  apply andb_true_iff in H. destruct H as [H1 H2]. apply Bool.eqb_prop in H1. subst y. f_equal. apply IH. exact H2.
Qed.
Lemma mc_state_eqb_eq s t : mc_state_eqb s t = true -> s = t.
Proof.
  destruct s as [c1 d1], t as [c2 d2]. unfold mc_state_eqb. simpl. intros H.
  apply andb_true_iff in H. destruct H as [H1 H2].
  apply nlist_eqb_eq in H1. apply blist_eqb_eq in H2. subst. reflexivity.
Qed.

Lemma mc_run_spec_gen g c fuel : forall st,
  match mc_run fuel g c st with
  | McDone l => exists fuel', mc_loop fuel' g c st = Done l
  | McPanic => exists fuel', mc_loop fuel' g c st = Panic
  | McDiverges => forall fuel', mc_loop fuel' g c st = OutOfFuel
  | McFuel => True
  end.
Proof.
  induction fuel as [|f IH]; intros st; simpl; [exact I|].
  destruct (all_done g st) eqn:Had.
  - exists 1%nat. simpl. rewrite Had. reflexivity.
  - destruct (mc_pass g c (ridxs g) st) as [st'| |] eqn:Hp.
    + destruct (mc_state_eqb st st') eqn:He.
      * apply mc_state_eqb_eq in He. subst st'. apply mc_fixpoint_diverges; assumption.
      * specialize (IH st'). destruct (mc_run f g c st') as [l| | |].
        -- destruct IH as [fuel' IH]. exists (S fuel'). simpl. rewrite Had, Hp. simpl. exact IH.
        -- destruct IH as [fuel' IH]. exists (S fuel'). simpl. rewrite Had, Hp. simpl. exact IH.
        -- intros [|fuel']; simpl; [reflexivity|]. rewrite Had, Hp. simpl. apply IH.
        -- exact I.
    + exists 1%nat. simpl. rewrite Had, Hp. reflexivity.
    + exact I.
Qed.

Lemma mc_run_spec : mc_run_spec_stmt.
Proof. intros g c fuel. unfold rule_min_costs_run, rule_min_costs_m. apply mc_run_spec_gen. Qed.

(* A: B;  B: A | 'x';   as dumped by the harness: tokens x=0, eof=1; rules ^=0, A=1, B=2 *)
Definition g_unit_cycle : grammar :=
  mkGrammar 2 3 [(1, [R 2]); (2, [R 1]); (2, [T 0]); (0, [R 1])]%N 3 1.
Definition c_one : N -> N := fun _ => 1%N.

Lemma min_iter_diverges_refuted : min_iter_diverges_refuted_stmt.
Proof.
  exists g_unit_cycle, c_one. split; [vm_compute; reflexivity|]. split; [intros a; unfold c_one; lia|]. split.
  - intros r Hr.
    assert (Hc : certified_costs g_unit_cycle c_one =
                 Some [(0, CCost 1 (Some 1)); (1, CCost 1 (Some 1)); (2, CCost 1 (Some 1))]%N)
      by (vm_compute; reflexivity).
    destruct (certified_costs_exact _ _ _ Hc) as [Hall Hcor].
    destruct (Hall r Hr) as (a & Ha). pose proof (Hcor r a Ha) as Hans.
    simpl in Ha. destruct Ha as [Ha | [Ha | [Ha | []]]]; injection Ha as Ha1 Ha2; subst r a;
      simpl in Hans; destruct Hans as [[[w [Hw _]] _] _]; exists w; exact Hw.
  - intros fuel. unfold rule_min_costs_m. apply mc_fixpoint_diverges; vm_compute; reflexivity.
Qed.

(* ---- the hypotheses are satisfiable ------------------------------------------------------- *)

(* S: S 'a' | 'b' | U;  U: U 'c';   tokens a=0 b=1 c=2 eof=3; rules ^=0 S=1 U=2 *)
Definition g_ex : grammar :=
  mkGrammar 4 3 [(1, [R 1; T 0]); (1, [T 1]); (1, [R 2]); (2, [R 2; T 2]); (0, [R 1])]%N 4 3.
Definition c_ex : N -> N := tcost [5; 7; 1; 1]%N.

Example certified_costs_ex :
  certified_costs g_ex c_ex = Some [(0, CCost 7 None); (1, CCost 7 None); (2, CUnprod)]%N.
Proof. vm_compute. reflexivity. Qed.

(* A: A | 'x';  the maximum is finite although the rule is recursive *)
Definition g_selfloop : grammar := mkGrammar 2 2 [(1, [R 1]); (1, [T 0]); (0, [R 1])]%N 2 1.
Example certified_costs_selfloop :
  certified_costs g_selfloop c_one = Some [(0, CCost 1 (Some 1)); (1, CCost 1 (Some 1))]%N.
Proof. vm_compute. reflexivity. Qed.

Example chk_min_ex : exists m wt, chk_min g_ex c_ex m wt = true.
Proof.
  exists (oget (cc_min (search g_ex c_ex))), (tget (cc_minw (search g_ex c_ex))). vm_compute. reflexivity.
Qed.
Example chk_max_fin_ex : exists m wt M Wt, chk_max_fin g_selfloop c_one m wt M Wt = true.
Proof.
  exists (oget (cc_min (search g_selfloop c_one))), (tget (cc_minw (search g_selfloop c_one))),
         (oget (cc_max (search g_selfloop c_one))), (tget (cc_maxw (search g_selfloop c_one))).
  vm_compute. reflexivity.
Qed.
Example chk_pump_ex : exists t p1 p2, chk_pump g_ex c_ex 1 t p1 p2 = true.
Proof.
  exists (Node 0 [Node 0 [Node 1 [Leaf 1 0]; Leaf 0 0]; Leaf 0 0])%N, [], [0%nat]. vm_compute. reflexivity.
Qed.
