(* C17 — executable definitions.
   (1) token costs, cost of a tree / token string;
   (2) boolean CHECKERS of cost certificates (proved sound in Proofs.v):
       [chk_min] (feasible potential + witness trees => true minimum),
       [chk_max_fin] (dominating potential + witness trees => true maximum),
       [chk_pump] (a tree with a rule repeated on a path at strictly smaller
       cost => sentences of unbounded cost);
   (3) an (unverified) SEARCH that produces such certificates: Jacobi iteration
       of the Bellman equations carrying witness trees, search for pumping contexts — its
       output is only ever used after the checkers accepted it ([certified_costs]);
   (4) a mirror of the Rust fixed point [rule_min_costs] (grammar.rs) on fuel,
       used for the termination finding. *)
From Coq Require Import List Arith NArith Bool Lia.
From GV Require Import Common.Outcome Base.Grammar Base.Analyses.
Import ListNotations.

(* ---- (1) costs ------------------------------------------------------------- *)

Definition tcost (cs : list N) (a : N) : N := nth (N.to_nat a) cs 0%N.

Fixpoint wcost (c : N -> N) (w : list N) : N :=
  match w with [] => 0%N | a :: w' => (c a + wcost c w')%N end.

(* cost of a tree = sum of the costs of its leaves *)
Definition cost (c : N -> N) (t : tree) : N := wcost c (yield t).

(* ---- (2) checkers ---------------------------------------------------------- *)

Fixpoint syms_eqb (a b : list sym) : bool :=
  match a, b with
  | [], [] => true
  | x :: a', y :: b' => sym_eqb x y && syms_eqb a' b'
  | _, _ => false
  end.

Fixpoint valid_treeb (g : grammar) (t : tree) : bool :=
  match t with
  | Leaf _ _ => true
  | Node p kids => is_prodb g p && syms_eqb (map (root g) kids) (rhs g p) && forallb (valid_treeb g) kids
  end.

(* value of a right-hand side under a potential [m] on rules (None = no value) *)
Fixpoint seq_val (c : N -> N) (m : N -> option N) (l : list sym) : option N :=
  match l with
  | [] => Some 0%N
  | T a :: l' => match seq_val c m l' with Some y => Some (c a + y)%N | None => None end
  | R r :: l' => match m r, seq_val c m l' with
                 | Some x, Some y => Some (x + y)%N
                 | _, _ => None
                 end
  end.

(* every production all of whose rules have a value gives its rule a value that
   is no larger than the production's *)
Definition feasible_min (g : grammar) (c : N -> N) (m : N -> option N) : bool :=
  forallb (fun pr => match seq_val c m (snd pr) with
                     | None => true
                     | Some s => match m (fst pr) with Some v => (v <=? s)%N | None => false end
                     end) (prods g).

Definition wit_ok (g : grammar) (c : N -> N) (r v : N) (t : tree) : bool :=
  valid_treeb g t && sym_eqb (root g t) (R r) && (cost c t =? v)%N.

(* the rules the certificates speak about: every left-hand side and every index below nrules *)
Definition dom (g : grammar) : list N := map fst (prods g) ++ ridxs g.

Definition wits_ok (g : grammar) (c : N -> N) (m : N -> option N) (wt : N -> option tree) : bool :=
  forallb (fun r => match m r with
                    | None => true
                    | Some v => match wt r with Some t => wit_ok g c r v t | None => false end
                    end) (dom g).

Definition chk_min (g : grammar) (c : N -> N) (m : N -> option N) (wt : N -> option tree) : bool :=
  feasible_min g c m && wits_ok g c m wt.

(* [M] bounds from above: a production of a rule with a bound, all of whose
   rules are productive (have a value under [m]), has a value under [M] that is
   no larger than the bound *)
Definition dominates (g : grammar) (c : N -> N) (m M : N -> option N) : bool :=
  forallb (fun pr => match M (fst pr) with
                     | None => true
                     | Some v => match seq_val c m (snd pr) with
                                 | None => true
                                 | Some _ => match seq_val c M (snd pr) with
                                             | Some s => (s <=? v)%N
                                             | None => false
                                             end
                                 end
                     end) (prods g).

Definition chk_max_fin (g : grammar) (c : N -> N) (m : N -> option N) (wt : N -> option tree)
           (M : N -> option N) (Wt : N -> option tree) : bool :=
  chk_min g c m wt && dominates g c m M && wits_ok g c M Wt.

Fixpoint subtree (t : tree) (path : list nat) : option tree :=
  match path with
  | [] => Some t
  | i :: path' => match t with
                  | Leaf _ _ => None
                  | Node _ kids => match nth_error kids i with
                                   | Some k => subtree k path'
                                   | None => None
                                   end
                  end
  end.

(* [t] derives from rule [r]; below [p1] sits a subtree that contains, below
   [p2], a subtree with the same root and a strictly smaller cost *)
Definition chk_pump (g : grammar) (c : N -> N) (r : N) (t : tree) (p1 p2 : list nat) : bool :=
  valid_treeb g t && sym_eqb (root g t) (R r) &&
  match subtree t p1 with
  | Some t1 => match subtree t1 p2 with
               | Some t2 => sym_eqb (root g t1) (root g t2) && (cost c t2 <? cost c t1)%N
               | None => false
               end
  | None => false
  end.

(* ---- (3) search (unverified; its results are checked) ------------------------ *)

Definition ent := option (N * tree).
Definition eget (s : list ent) (r : N) : ent := nth (N.to_nat r) s None.
Definition oget (s : list (option N)) (r : N) : option N := nth (N.to_nat r) s None.
Definition tget (s : list (option tree)) (r : N) : option tree := nth (N.to_nat r) s None.

Definition iprods (g : grammar) : list (N * (N * list sym)) := combine (pidxs g) (prods g).
Definition nr (g : grammar) : nat := N.to_nat (nrules g).

Definition first_some {A B} (f : A -> option B) (l : list A) : option B :=
  fold_left (fun acc x => match acc with Some _ => acc | None => f x end) l None.
Definition positions (l : list sym) : list (nat * sym) := combine (seq 0 (length l)) l.

Fixpoint seq_build (c : N -> N) (s : list ent) (l : list sym) : option (N * list tree) :=
  match l with
  | [] => Some (0%N, [])
  | T a :: l' => match seq_build c s l' with
                 | Some (v, ks) => Some ((c a + v)%N, Leaf a 0 :: ks)
                 | None => None
                 end
  | R r :: l' => match eget s r, seq_build c s l' with
                 | Some (x, t), Some (v, ks) => Some ((x + v)%N, t :: ks)
                 | _, _ => None
                 end
  end.

(* an entry is replaced only by a strictly better one *)
Definition improve (better : N -> N -> bool) (old : ent) (v : N) (t : tree) : ent :=
  match old with
  | None => Some (v, t)
  | Some (v0, _) => if better v v0 then Some (v, t) else old
  end.

(* one Jacobi round of the Bellman equations over the rules selected by [use] *)
Definition opt_step (better : N -> N -> bool) (use : N -> bool) (g : grammar) (c : N -> N) (s : list ent) : list ent :=
  map (fun r =>
         if use r then
           fold_left (fun acc ip =>
                        if N.eqb (fst (snd ip)) r then
                          match seq_build c s (snd (snd ip)) with
                          | Some (v, ks) => improve better acc v (Node (fst ip) ks)
                          | None => acc
                          end
                        else acc)
                     (iprods g) (eget s r)
         else None)
      (ridxs g).

Definition ents0 (g : grammar) : list ent := map (fun _ => None) (ridxs g).

Definition min_ents (g : grammar) (c : N -> N) : list ent :=
  iter (S (nr g)) (opt_step N.ltb (fun _ => true) g c) (ents0 g).

Definition gtb (a b : N) : bool := (b <? a)%N.
Definition max_ents (g : grammar) (c : N -> N) (use : N -> bool) : list ent :=
  iter (S (nr g)) (opt_step gtb use g c) (ents0 g).

Definition vals (s : list ent) : list (option N) := map (option_map fst) s.
Definition trees (s : list ent) : list (option tree) := map (option_map snd) s.

(* kids of a production: the trees prescribed by [subs] at some positions, leaves
   for tokens and minimum witnesses for rules elsewhere *)
Fixpoint kids_sub (mins : list ent) (l : list sym) (k : nat) (subs : nat -> option tree) : option (list tree) :=
  match l with
  | [] => Some []
  | x :: l' =>
      match (match subs k with
             | Some t => Some t
             | None => match x with
                       | T a => Some (Leaf a 0)
                       | R r => option_map snd (eget mins r)
                       end
             end), kids_sub mins l' (S k) subs with
      | Some t, Some ks => Some (t :: ks)
      | _, _ => None
      end
  end.

Definition sub1 (i : nat) (t : tree) : nat -> option tree := fun k => if Nat.eqb k i then Some t else None.
Definition sub2 (i : nat) (t : tree) (j : nat) (u : tree) : nat -> option tree :=
  fun k => if Nat.eqb k i then Some t else if Nat.eqb k j then Some u else None.

(* a tree of positive cost for every rule that has one *)
Definition pos_prod (c : N -> N) (mins : list ent) (pos : list (option tree)) (ip : N * (N * list sym)) : option tree :=
  let rhs := snd (snd ip) in
  first_some (fun js => match snd js with
                        | T a => if (0 <? c a)%N then option_map (Node (fst ip)) (kids_sub mins rhs 0 (fun _ => None)) else None
                        | R q => match tget pos q with
                                 | Some tq => option_map (Node (fst ip)) (kids_sub mins rhs 0 (sub1 (fst js) tq))
                                 | None => None
                                 end
                        end) (positions rhs).

Definition pos_step (g : grammar) (c : N -> N) (mins : list ent) (pos : list (option tree)) : list (option tree) :=
  map (fun r => match tget pos r with
                | Some t => Some t
                | None => first_some (fun ip => if N.eqb (fst (snd ip)) r then pos_prod c mins pos ip else None) (iprods g)
                end) (ridxs g).

(* contexts: for a target tree [tb], per rule x a tree rooted at x that contains
   [tb] at the recorded path; [s0]: any such tree, [s1]: one whose leaves outside
   [tb] have positive cost *)
Definition ctxs := list (option (tree * list nat)).
Definition xget (s : ctxs) (r : N) : option (tree * list nat) := nth (N.to_nat r) s None.

Definition ctx_plain (mins : list ent) (s : ctxs) (ip : N * (N * list sym)) : option (tree * list nat) :=
  let rhs := snd (snd ip) in
  first_some (fun js => match snd js with
                        | R q => match xget s q with
                                 | Some (tq, path) =>
                                     option_map (fun ks => (Node (fst ip) ks, fst js :: path))
                                                (kids_sub mins rhs 0 (sub1 (fst js) tq))
                                 | None => None
                                 end
                        | T _ => None
                        end) (positions rhs).

Definition ctx_gain (c : N -> N) (mins : list ent) (pos : list (option tree)) (s0 : ctxs) (ip : N * (N * list sym))
  : option (tree * list nat) :=
  let rhs := snd (snd ip) in
  first_some (fun js =>
    match snd js with
    | R q =>
        match xget s0 q with
        | Some (tq, path) =>
            first_some (fun js2 =>
              if Nat.eqb (fst js2) (fst js) then None else
              match snd js2 with
              | T a => if (0 <? c a)%N then
                         option_map (fun ks => (Node (fst ip) ks, fst js :: path)) (kids_sub mins rhs 0 (sub1 (fst js) tq))
                       else None
              | R q2 => match tget pos q2 with
                        | Some tp => option_map (fun ks => (Node (fst ip) ks, fst js :: path))
                                                (kids_sub mins rhs 0 (sub2 (fst js) tq (fst js2) tp))
                        | None => None
                        end
              end) (positions rhs)
        | None => None
        end
    | T _ => None
    end) (positions rhs).

Definition ctx_step (g : grammar) (c : N -> N) (mins : list ent) (pos : list (option tree)) (s : ctxs * ctxs) : ctxs * ctxs :=
  let (s0, s1) := s in
  (map (fun r => match xget s0 r with
                 | Some x => Some x
                 | None => first_some (fun ip => if N.eqb (fst (snd ip)) r then ctx_plain mins s0 ip else None) (iprods g)
                 end) (ridxs g),
   map (fun r => match xget s1 r with
                 | Some x => Some x
                 | None => first_some (fun ip => if N.eqb (fst (snd ip)) r then
                                                   match ctx_plain mins s1 ip with
                                                   | Some x => Some x
                                                   | None => ctx_gain c mins pos s0 ip
                                                   end
                                                 else None) (iprods g)
                 end) (ridxs g)).

Definition ctx_init (g : grammar) (b : N) (tb : tree) : ctxs * ctxs :=
  (map (fun r => if N.eqb r b then Some (tb, []) else None) (ridxs g), map (fun _ => None) (ridxs g)).

Definition ctx_run (g : grammar) (c : N -> N) (mins : list ent) (pos : list (option tree)) (b : N) (tb : tree) : ctxs * ctxs :=
  iter (S (S (2 * nr g))) (ctx_step g c mins pos) (ctx_init g b tb).

Record cost_cert := mkCert {
  cc_min : list (option N);  cc_minw : list (option tree);
  cc_max : list (option N);  cc_maxw : list (option tree);
  cc_pump : list (option (tree * (list nat * list nat)))
}.
Definition pget (s : list (option (tree * (list nat * list nat)))) (r : N) := nth (N.to_nat r) s None.

Definition search (g : grammar) (c : N -> N) : cost_cert :=
  let mins := min_ents g c in
  let pos := iter (S (nr g)) (pos_step g c mins) (map (fun _ => None) (ridxs g)) in
  (* rules b with a tree  b =>* u b v  of positive cost(u)+cost(v): the tree and the path of the inner b *)
  let pumps : ctxs :=
    map (fun b => match eget mins b with
                  | Some (_, tb) => xget (snd (ctx_run g c mins pos b tb)) b
                  | None => None
                  end) (ridxs g) in
  (* for each such b: contexts from every rule that reaches b, around b's pump tree *)
  let around : list (option (ctxs * list nat)) :=
    map (fun b => match xget pumps b with
                  | Some (tb, p2) => Some (fst (ctx_run g c mins pos b tb), p2)
                  | None => None
                  end) (ridxs g) in
  let pumpc : list (option (tree * (list nat * list nat))) :=
    map (fun r => first_some (fun a => match a with
                                       | Some (s0, p2) => match xget s0 r with
                                                          | Some (t, p1) => Some (t, (p1, p2))
                                                          | None => None
                                                          end
                                       | None => None
                                       end) around) (ridxs g) in
  let unb := fun r => match pget pumpc r with Some _ => true | None => false end in
  let his := max_ents g c (fun r => negb (unb r)) in
  mkCert (vals mins) (trees mins) (vals his) (trees his) pumpc.

Definition cert_ok (g : grammar) (c : N -> N) (cc : cost_cert) : bool :=
  chk_max_fin g c (oget (cc_min cc)) (tget (cc_minw cc)) (oget (cc_max cc)) (tget (cc_maxw cc)) &&
  forallb (fun r => match oget (cc_min cc) r with
                    | None => true
                    | Some _ => match oget (cc_max cc) r with
                                | Some _ => true
                                | None => match pget (cc_pump cc) r with
                                          | Some (t, (p1, p2)) => chk_pump g c r t p1 p2
                                          | None => false
                                          end
                                end
                    end) (ridxs g).

(* answer per rule: unproductive | minimum and (finite maximum | unbounded) *)
Inductive cost_ans := CUnprod | CCost (mn : N) (mx : option N).

Definition answers (g : grammar) (cc : cost_cert) : list (N * cost_ans) :=
  map (fun r => (r, match oget (cc_min cc) r with
                    | None => CUnprod
                    | Some v => CCost v (oget (cc_max cc) r)
                    end)) (ridxs g).

Definition certified_costs (g : grammar) (c : N -> N) : option (list (N * cost_ans)) :=
  let cc := search g c in
  if cert_ok g c cc then Some (answers g cc) else None.

(* ---- (4) mirror of rule_min_costs (grammar.rs:907) ---------------------------- *)

(* u16 arithmetic: checked_add panics on overflow *)
Definition U16MAX : N := 65535%N.

Record mc_state := mkMc { mc_costs : list N; mc_done : list bool }.
Definition cget (l : list N) (r : N) : N := nth (N.to_nat r) l 0%N.
Definition dget (l : list bool) (r : N) : bool := nth (N.to_nat r) l false.
Fixpoint set_nth {A} (l : list A) (i : nat) (x : A) : list A :=
  match l, i with
  | [], _ => []
  | _ :: l', O => x :: l'
  | y :: l', S i' => y :: set_nth l' i' x
  end.

(* cost of one production and whether it is complete; None = overflow panic *)
Fixpoint mc_prod (c : N -> N) (st : mc_state) (l : list sym) (acc : N) (cmplt : bool) : option (N * bool) :=
  match l with
  | [] => Some (acc, cmplt)
  | T a :: l' => let s := (acc + c a)%N in
                 if (U16MAX <? s)%N then None else mc_prod c st l' s cmplt
  | R r :: l' => let s := (acc + cget (mc_costs st) r)%N in
                 if (U16MAX <? s)%N then None else mc_prod c st l' s (cmplt && dget (mc_done st) r)
  end.

Definition olt (a : N) (b : option N) : bool := match b with None => true | Some y => (a <? y)%N end.

(* the body of `for i in 0..done.len()` for one not-yet-done rule i *)
Definition mc_rule (g : grammar) (c : N -> N) (st : mc_state) (i : N) : outcome mc_state :=
  let fix go (ps : list (N * list sym)) (lc ln : option N) : outcome (option N * option N) :=
      match ps with
      | [] => Done (lc, ln)
      | (l, rhs) :: ps' =>
          if N.eqb l i then
            match mc_prod c st rhs 0%N true with
            | None => Panic
            | Some (v, true) => if olt v lc then go ps' (Some v) ln else go ps' lc ln
            | Some (v, false) => if olt v ln then go ps' lc (Some v) else go ps' lc ln
            end
          else go ps' lc ln
      end in
  do r <- go (prods g) None None;
  match r with
  | (Some lc, ln) =>
      if olt lc ln then Done (mkMc (set_nth (mc_costs st) (N.to_nat i) lc) (set_nth (mc_done st) (N.to_nat i) true))
      else match ln with
           | Some v => Done (mkMc (set_nth (mc_costs st) (N.to_nat i) v) (mc_done st))
           | None => Done st
           end
  | (None, Some v) => Done (mkMc (set_nth (mc_costs st) (N.to_nat i) v) (mc_done st))
  | (None, None) => Done st
  end.

(* one pass of the outer `loop` over all rules, in place *)
Fixpoint mc_pass (g : grammar) (c : N -> N) (rs : list N) (st : mc_state) : outcome mc_state :=
  match rs with
  | [] => Done st
  | i :: rs' => if dget (mc_done st) i then mc_pass g c rs' st
                else do st' <- mc_rule g c st i; mc_pass g c rs' st'
  end.

Definition all_done (g : grammar) (st : mc_state) : bool := forallb (dget (mc_done st)) (ridxs g).

Fixpoint mc_loop (fuel : nat) (g : grammar) (c : N -> N) (st : mc_state) : outcome (list N) :=
  match fuel with
  | O => OutOfFuel
  | S f => if all_done g st then Done (mc_costs st)
           else do st' <- mc_pass g c (ridxs g) st; mc_loop f g c st'
  end.

Definition mc_init (g : grammar) : mc_state :=
  mkMc (map (fun _ => 0%N) (ridxs g)) (map (fun _ => false) (ridxs g)).

Definition rule_min_costs_m (fuel : nat) (g : grammar) (c : N -> N) : outcome (list N) :=
  mc_loop fuel g c (mc_init g).

(* the same loop, stopping as soon as a pass changes nothing (from where it can
   only repeat itself, see [mc_run_diverges]) *)
Inductive mc_result := McDone (l : list N) | McPanic | McDiverges | McFuel.

Fixpoint nlist_eqb (a b : list N) : bool :=
  match a, b with
  | [], [] => true
  | x :: a', y :: b' => N.eqb x y && nlist_eqb a' b'
  | _, _ => false
  end.
Fixpoint blist_eqb (a b : list bool) : bool :=
  match a, b with
  | [], [] => true
  | x :: a', y :: b' => Bool.eqb x y && blist_eqb a' b'
  | _, _ => false
  end.
Definition mc_state_eqb (s t : mc_state) : bool :=
  nlist_eqb (mc_costs s) (mc_costs t) && blist_eqb (mc_done s) (mc_done t).

Fixpoint mc_run (fuel : nat) (g : grammar) (c : N -> N) (st : mc_state) : mc_result :=
  match fuel with
  | O => McFuel
  | S f => if all_done g st then McDone (mc_costs st)
           else match mc_pass g c (ridxs g) st with
                | Done st' => if mc_state_eqb st st' then McDiverges else mc_run f g c st'
                | Panic => McPanic
                | OutOfFuel => McFuel
                end
  end.

Definition rule_min_costs_run (fuel : nat) (g : grammar) (c : N -> N) : mc_result :=
  mc_run fuel g c (mc_init g).
