(** C14 — the reader of a configuration WITH a preallocation size limit
    ([decode_limited], Model.v) against the unlimited one: exact
    characterisation, agreement below the limit, and the refutation of the round
    trip under wincode's default limit (the defect fixed by /repo 40b4e42). *)
From Coq Require Import List NArith Bool Lia Arith.
From GV Require Import Common.Outcome C14.Model C14.Schema_gen C14.Spec C14.Run C14.Proofs.
Import ListNotations.
Local Open Scope N_scope.

(* ------------------------------------- the local fixpoints, by their names *)

Lemma decode_limited_tuple_eq : forall L e c ss bs,
  decode_limited L e c (STuple ss) bs = wrap VTuple (dec_tuple_l L e c ss bs).
Proof.
  intros L e c ss bs. simpl. f_equal.
  revert bs. induction ss as [|s ss IH]; intros bs.
  - reflexivity.
  - simpl. destruct (decode_limited L e c s bs) as [[v r1]|]; [|reflexivity].
    rewrite IH. reflexivity.
Qed.

Lemma decode_limited_vec_eq : forall L e c s' bs,
  decode_limited L e c (SVec s') bs =
  match dec_int c W64 bs with
  | Some (n, r) => if over_limit L (e s') n then None
                   else wrap VList (dec_rep_l L e c s' (N.to_nat n) r)
  | None => None
  end.
Proof.
  intros L e c s' bs. simpl.
  destruct (dec_int c W64 bs) as [[n r]|]; [|reflexivity].
  destruct (over_limit L (e s') n); [reflexivity|].
  f_equal. generalize (N.to_nat n) as k. intros k. revert r.
  induction k as [|k IH]; intros r.
  - reflexivity.
  - simpl. destruct (decode_limited L e c s' r) as [[v r1]|]; [|reflexivity].
    rewrite IH. reflexivity.
Qed.

Lemma pick_l_eq : forall L e c r t0 ss i,
  (fix pick (ss : list schema) (i : nat) {struct ss} : option (value * list N) :=
     match ss with
     | [] => None
     | s' :: ss' =>
         match i with
         | O => wrap (VEnum t0) (decode_limited L e c s' r)
         | S i' => pick ss' i'
         end
     end) ss i = dec_pick_l L e c t0 r ss i.
Proof.
  intros L e c r t0 ss. induction ss as [|s ss IH]; intros i.
  - reflexivity.
  - destruct i as [|i]; [reflexivity|]. simpl. apply IH.
Qed.

Lemma decode_limited_enum_eq : forall L e c ss bs,
  decode_limited L e c (SEnum ss) bs =
  match dec_int c W32 bs with
  | Some (t, r) => if t <? N.of_nat (length ss)
                   then dec_pick_l L e c (N.to_nat t) r ss (N.to_nat t) else None
  | None => None
  end.
Proof.
  intros L e c ss bs. simpl.
  destruct (dec_int c W32 bs) as [[t r]|]; [|reflexivity].
  destruct (t <? N.of_nat (length ss)); [|reflexivity].
  apply pick_l_eq.
Qed.

Lemma within_tuple_eq : forall L e ss vs,
  within_limit L e (STuple ss) (VTuple vs) = within_tuple L e ss vs.
Proof.
  intros L e ss. induction ss as [|s ss IH]; intros vs.
  - reflexivity.
  - destruct vs as [|v vs]; [reflexivity|].
    simpl. f_equal. apply IH.
Qed.

Lemma within_pick_eq : forall L e ss i v',
  within_limit L e (SEnum ss) (VEnum i v') = within_pick L e v' ss i.
Proof.
  intros L e ss i v'. simpl. revert i.
  induction ss as [|s ss IH]; intros i.
  - reflexivity.
  - destruct i as [|i]; [reflexivity|]. simpl. apply IH.
Qed.

(* ------------------------------------------------------- characterisation *)

Definition lim_of (L : N) (e : schema -> N) (s : schema) (o : option (value * list N))
  : option (value * list N) :=
  match o with
  | Some (v, r) => if within_limit L e s v then Some (v, r) else None
  | None => None
  end.

Definition ch (L : N) (e : schema -> N) (c : cfg) (s : schema) : Prop :=
  forall bs, decode_limited L e c s bs = lim_of L e s (decode c s bs).

Lemma dec_rep_length : forall c s k bs vs r,
  dec_rep c s k bs = Some (vs, r) -> length vs = k.
Proof.
  intros c s k. induction k as [|k IH]; intros bs vs r H.
  - cbn [dec_rep] in H. inversion H; subst. reflexivity.
  - cbn [dec_rep] in H.
    destruct (decode c s bs) as [[v r1]|]; [|discriminate].
    destruct (dec_rep c s k r1) as [[vs' r2]|] eqn:Hr; [|discriminate].
    inversion H; subst. simpl. rewrite (IH _ _ _ Hr). reflexivity.
Qed.

Lemma ch_rep : forall L e c s, ch L e c s ->
  forall k bs,
    dec_rep_l L e c s k bs =
    match dec_rep c s k bs with
    | Some (vs, r) => if forallb (within_limit L e s) vs then Some (vs, r) else None
    | None => None
    end.
Proof.
  intros L e c s Hs k. induction k as [|k IH]; intros bs.
  - reflexivity.
  - cbn [dec_rep_l dec_rep]. rewrite Hs. unfold lim_of.
    destruct (decode c s bs) as [[v r1]|]; [|reflexivity].
    destruct (within_limit L e s v) eqn:Hw.
    + rewrite IH. destruct (dec_rep c s k r1) as [[vs r2]|]; [|reflexivity].
      cbn [forallb]. rewrite Hw. cbn [andb].
      destruct (forallb (within_limit L e s) vs); reflexivity.
    + destruct (dec_rep c s k r1) as [[vs r2]|]; [|reflexivity].
      cbn [forallb]. rewrite Hw. reflexivity.
Qed.

Lemma ch_tuple : forall L e c ss, Forall (ch L e c) ss ->
  forall bs,
    dec_tuple_l L e c ss bs =
    match dec_tuple c ss bs with
    | Some (vs, r) => if within_tuple L e ss vs then Some (vs, r) else None
    | None => None
    end.
Proof.
  intros L e c ss HF. induction HF as [|s ss Hs HF IH]; intros bs.
  - reflexivity.
  - cbn [dec_tuple_l dec_tuple]. rewrite Hs. unfold lim_of.
    destruct (decode c s bs) as [[v r1]|]; [|reflexivity].
    destruct (within_limit L e s v) eqn:Hw.
    + rewrite IH. destruct (dec_tuple c ss r1) as [[vs r2]|]; [|reflexivity].
      cbn [within_tuple]. rewrite Hw. cbn [andb].
      destruct (within_tuple L e ss vs); reflexivity.
    + destruct (dec_tuple c ss r1) as [[vs r2]|]; [|reflexivity].
      cbn [within_tuple]. rewrite Hw. reflexivity.
Qed.

Lemma ch_pick : forall L e c t r ss, Forall (ch L e c) ss ->
  forall i,
    dec_pick_l L e c t r ss i =
    match dec_pick c t r ss i with
    | Some (VEnum t' v', r') => if within_pick L e v' ss i then Some (VEnum t' v', r') else None
    | Some (_, _) => None
    | None => None
    end.
Proof.
  intros L e c t r ss HF. induction HF as [|s ss Hs HF IH]; intros i.
  - reflexivity.
  - destruct i as [|i]; cbn [dec_pick_l dec_pick within_pick].
    + rewrite Hs. unfold lim_of, wrap.
      destruct (decode c s r) as [[v r1]|]; [|reflexivity].
      destruct (within_limit L e s v); reflexivity.
    + apply IH.
Qed.

Lemma dec_pick_shape : forall c t r ss i v r',
  dec_pick c t r ss i = Some (v, r') -> exists v', v = VEnum t v'.
Proof.
  intros c t r ss. induction ss as [|s ss IH]; intros i v r' H.
  - discriminate.
  - destruct i as [|i]; cbn [dec_pick] in H.
    + apply wrap_inv in H. destruct H as [a [_ Hv]]. exists a. exact Hv.
    + apply (IH _ _ _ H).
Qed.

Lemma ch_all : forall L e c s, ch L e c s.
Proof.
  intros L e c. apply schema_ind'; unfold ch.
  - (* u8 *) intros bs. destruct bs; reflexivity.
  - (* int *) intros w bs. cbn [decode decode_limited]. unfold wrap.
    destruct (dec_int c w bs) as [[n r]|]; reflexivity.
  - (* bool *) intros bs. cbn [decode decode_limited].
    destruct bs as [|b r]; [reflexivity|].
    destruct (b =? 0); [reflexivity|]. destruct (b =? 1); reflexivity.
  - (* string *) intros bs. cbn [decode decode_limited].
    destruct (dec_int c W64 bs) as [[n r]|]; [|reflexivity].
    unfold wrap, lim_of.
    destruct (take (N.to_nat n) r) as [[a r']|] eqn:Ht.
    + apply take_inv in Ht. destruct Ht as [_ Hlen].
      cbn [within_limit]. rewrite Hlen, N2Nat.id.
      destruct (over_limit L 1 n); reflexivity.
    + destruct (over_limit L 1 n); reflexivity.
  - (* option *) intros s IH bs. cbn [decode decode_limited].
    destruct bs as [|b r]; [reflexivity|].
    destruct (b =? 0); [reflexivity|]. destruct (b =? 1); [|reflexivity].
    rewrite IH. unfold lim_of, wrap.
    destruct (decode c s r) as [[v r']|]; [|reflexivity].
    cbn [within_limit]. destruct (within_limit L e s v); reflexivity.
  - (* vec *) intros s IH bs. rewrite decode_limited_vec_eq, decode_vec_eq.
    destruct (dec_int c W64 bs) as [[n r]|]; [|reflexivity].
    rewrite (ch_rep L e c s IH). unfold lim_of, wrap.
    destruct (dec_rep c s (N.to_nat n) r) as [[vs r']|] eqn:Hr.
    + apply dec_rep_length in Hr. cbn [within_limit]. rewrite Hr, N2Nat.id.
      destruct (over_limit L (e s) n); [reflexivity|]. cbn [negb andb].
      destruct (forallb (within_limit L e s) vs); reflexivity.
    + destruct (over_limit L (e s) n); reflexivity.
  - (* tuple *) intros ss HF bs. rewrite decode_limited_tuple_eq, decode_tuple_eq.
    rewrite (ch_tuple L e c ss HF). unfold lim_of, wrap.
    destruct (dec_tuple c ss bs) as [[vs r]|]; [|reflexivity].
    rewrite within_tuple_eq. destruct (within_tuple L e ss vs); reflexivity.
  - (* enum *) intros ss HF bs. rewrite decode_limited_enum_eq, decode_enum_eq.
    destruct (dec_int c W32 bs) as [[t r]|]; [|reflexivity].
    destruct (t <? N.of_nat (length ss)); [|reflexivity].
    rewrite (ch_pick L e c (N.to_nat t) r ss HF). unfold lim_of.
    destruct (dec_pick c (N.to_nat t) r ss (N.to_nat t)) as [[v r']|] eqn:Hp; [|reflexivity].
    destruct (dec_pick_shape _ _ _ _ _ _ _ Hp) as [v' Hv]. subst v.
    rewrite within_pick_eq. reflexivity.
  - (* opaque *) intros w bs. reflexivity.
Qed.

Lemma decode_limited_exact : decode_limited_exact_stmt.
Proof.
  unfold decode_limited_exact_stmt. intros L e c s bs. apply (ch_all L e c s).
Qed.

Lemma decode_limited_agrees_below_limit : decode_limited_agrees_below_limit_stmt.
Proof.
  unfold decode_limited_agrees_below_limit_stmt. intros L e c s bs H.
  rewrite decode_limited_exact.
  destruct (decode c s bs) as [[v r]|] eqn:Hd; [|reflexivity].
  rewrite (H v r eq_refl). reflexivity.
Qed.

Lemma codec_roundtrip_within_limit : codec_roundtrip_within_limit_stmt.
Proof.
  unfold codec_roundtrip_within_limit_stmt. intros L e c s v rest Hwf Hv Hw.
  rewrite decode_limited_exact. rewrite (codec_roundtrip c s v rest Hwf Hv).
  rewrite Hw. reflexivity.
Qed.

Lemma limited_build_fails_iff : limited_build_fails_iff_stmt.
Proof.
  unfold limited_build_fails_iff_stmt, serialize_limited, reconstitute_limited.
  intros L e c s v rest Hwf Hv.
  rewrite decode_limited_exact. rewrite (codec_roundtrip c s v rest Hwf Hv).
  destruct (within_limit L e s v); split.
  - split; intros H; discriminate.
  - intros _. reflexivity.
  - split; intros _; reflexivity.
  - intros H. exfalso. apply H. reflexivity.
Qed.

(* ------------------------------------------------------------ the refutation *)

(** a [Vec<u64>] of [limit / 8 + 1] words *)
Definition words (L : N) : value := VList (repeat (VInt 0) (N.to_nat (L / 8 + 1))).

Lemma words_has_schema : forall L, L / 8 + 1 < iw_max W64 -> has_schema (SVec (SInt W64)) (words L).
Proof.
  intros L HL. unfold words. cbn [has_schema]. rewrite repeat_length, N2Nat.id. split.
  - exact HL.
  - apply Forall_forall. intros x Hx. apply repeat_spec in Hx. subst x. simpl. lia.
Qed.

Lemma words_over : forall L, within_limit L mem_size (SVec (SInt W64)) (words L) = false.
Proof.
  intros L. unfold words. cbn [within_limit]. rewrite repeat_length, N2Nat.id.
  assert (Ho : over_limit L (mem_size (SInt W64)) (L / 8 + 1) = true).
  { unfold over_limit. change (N.max (mem_size (SInt W64)) 1) with 8.
    apply N.ltb_lt. pose proof (N.div_mod L 8). pose proof (N.mod_lt L 8). lia. }
  rewrite Ho. reflexivity.
Qed.

Lemma codec_roundtrip_limited_refuted : codec_roundtrip_limited_refuted_stmt.
Proof.
  exists (SVec (SInt W64)), (words PREALLOC_LIMIT).
  assert (Hs : has_schema (SVec (SInt W64)) (words PREALLOC_LIMIT))
    by (apply words_has_schema; vm_compute; reflexivity).
  split; [reflexivity|]. split; [exact Hs|].
  intros c rest. split.
  - apply codec_roundtrip; [reflexivity|exact Hs].
  - rewrite decode_limited_exact.
    rewrite (codec_roundtrip c (SVec (SInt W64)) _ rest (eq_refl true) Hs).
    rewrite words_over. reflexivity.
Qed.

(* ---------------------------------- witnesses / the hypotheses are satisfiable *)

(* the same refutation at a limit of 16 bytes, by evaluation of the two readers:
   three u64 words are 24 bytes *)
Example ex_limited_refuted_small :
  decode Fix (SVec (SInt W64)) (encode Fix (SVec (SInt W64)) (words 16)) = Some (words 16, []) /\
  decode_limited 16 mem_size Fix (SVec (SInt W64)) (encode Fix (SVec (SInt W64)) (words 16)) = None /\
  decode_limited 24 mem_size Var (SVec (SInt W64)) (encode Var (SVec (SInt W64)) (words 16) ++ [7])
    = Some (words 16, [7]).
Proof. vm_compute. repeat split; reflexivity. Qed.

(* the size check of the 4 MiB witness itself, evaluated *)
Example ex_words_over_evaluated :
  within_limit PREALLOC_LIMIT mem_size (SVec (SInt W64)) (words PREALLOC_LIMIT) = false /\
  within_limit PREALLOC_LIMIT mem_size (SVec (SInt W64)) (words (PREALLOC_LIMIT - 8)) = true.
Proof. vm_compute. split; reflexivity. Qed.

(* [within_limit] is satisfiable on a value with every constructor; strings count bytes,
   sequences count in-memory elements (40 bytes for a (String, Span)) *)
Example ex_within : within_limit PREALLOC_LIMIT mem_size ex_schema ex_value = true /\
                    within_limit 80 mem_size ex_schema ex_value = true /\
                    within_limit 79 mem_size ex_schema ex_value = false.
Proof. vm_compute. repeat split; reflexivity. Qed.

(* the element sizes [mem_size] gives for the generated schemas at u16 storage (the check
   compares them with size_of on the implementation) *)
Example ex_mem_sizes_u16 :
  map mem_size (seq_elems (yacc_grammar_schema St16)) =
  [40; 1; 40; 1; 16; 24; 1; 16; 4; 16; 2; 2; 16; 16; 24; 1; 24; 1; 1; 1; 1; 24; 1; 8] /\
  map mem_size (seq_elems (state_table_schema St16)) =
  [8; 8; 8; 8; 8; 8; 8; 8; 8; 8; 8; 6].
Proof. vm_compute. split; reflexivity. Qed.
