(** C14 — proofs about the codec model (Model.v) and the generated schemas. *)
From Coq Require Import List NArith Bool Lia Arith.
From GV Require Import Common.Outcome C14.Model C14.Schema_gen C14.Spec C14.Run.
Import ListNotations.
Local Open Scope N_scope.

(* split syntactic conjunctions only (never unfold a definition to find one) *)
Ltac splits :=
  repeat match goal with |- _ /\ _ => split end; try reflexivity; try exact I.

(* ------------------------------------------------ induction over schemas *)

Section SchemaInd.
  Variable P : schema -> Prop.
  Hypothesis HU8 : P SU8.
  Hypothesis HInt : forall w, P (SInt w).
  Hypothesis HBool : P SBool.
  Hypothesis HString : P SString.
  Hypothesis HOption : forall s, P s -> P (SOption s).
  Hypothesis HVec : forall s, P s -> P (SVec s).
  Hypothesis HTuple : forall l, Forall P l -> P (STuple l).
  Hypothesis HEnum : forall l, Forall P l -> P (SEnum l).
  Hypothesis HOpaque : forall w, P (SOpaque w).

  Fixpoint schema_ind' (s : schema) : P s :=
    match s with
    | SU8 => HU8
    | SInt w => HInt w
    | SBool => HBool
    | SString => HString
    | SOption s' => HOption s' (schema_ind' s')
    | SVec s' => HVec s' (schema_ind' s')
    | STuple l =>
        HTuple l ((fix f (l : list schema) : Forall P l :=
                     match l with
                     | [] => Forall_nil P
                     | x :: r => Forall_cons x (schema_ind' x) (f r)
                     end) l)
    | SEnum l =>
        HEnum l ((fix f (l : list schema) : Forall P l :=
                    match l with
                    | [] => Forall_nil P
                    | x :: r => Forall_cons x (schema_ind' x) (f r)
                    end) l)
    | SOpaque w => HOpaque w
    end.
End SchemaInd.

(* ------------------------------------- the local fixpoints, by their names *)

Lemma encode_tuple_eq : forall c ss vs,
  encode c (STuple ss) (VTuple vs) = enc_tuple c ss vs.
Proof.
  intros c ss. induction ss as [|s ss IH]; intros vs.
  - reflexivity.
  - destruct vs as [|v vs]; [reflexivity|].
    simpl. f_equal. apply IH.
Qed.

Lemma encode_enum_eq : forall c ss i v',
  encode c (SEnum ss) (VEnum i v') = enc_int c W32 (N.of_nat i) ++ enc_pick c v' ss i.
Proof.
  intros c ss i v'. simpl. f_equal.
  revert i. induction ss as [|s ss IH]; intros i.
  - reflexivity.
  - destruct i as [|i]; [reflexivity|]. simpl. apply IH.
Qed.

Lemma decode_tuple_eq : forall c ss bs,
  decode c (STuple ss) bs = wrap VTuple (dec_tuple c ss bs).
Proof.
  intros c ss bs. simpl. f_equal.
  revert bs. induction ss as [|s ss IH]; intros bs.
  - reflexivity.
  - simpl. destruct (decode c s bs) as [[v r1]|]; [|reflexivity].
    rewrite IH. reflexivity.
Qed.

Lemma decode_vec_eq : forall c s' bs,
  decode c (SVec s') bs =
  match dec_int c W64 bs with
  | Some (n, r) => wrap VList (dec_rep c s' (N.to_nat n) r)
  | None => None
  end.
Proof.
  intros c s' bs. simpl.
  destruct (dec_int c W64 bs) as [[n r]|]; [|reflexivity].
  f_equal. generalize (N.to_nat n) as k. intros k. revert r.
  induction k as [|k IH]; intros r.
  - reflexivity.
  - simpl. destruct (decode c s' r) as [[v r1]|]; [|reflexivity].
    rewrite IH. reflexivity.
Qed.

Lemma pick_eq : forall c r t0 ss i,
  (fix pick (ss : list schema) (i : nat) {struct ss} : option (value * list N) :=
     match ss with
     | [] => None
     | s' :: ss' =>
         match i with
         | O => wrap (VEnum t0) (decode c s' r)
         | S i' => pick ss' i'
         end
     end) ss i = dec_pick c t0 r ss i.
Proof.
  intros c r t0 ss. induction ss as [|s ss IH]; intros i.
  - reflexivity.
  - destruct i as [|i]; [reflexivity|]. simpl. apply IH.
Qed.

Lemma decode_enum_eq : forall c ss bs,
  decode c (SEnum ss) bs =
  match dec_int c W32 bs with
  | Some (t, r) => if t <? N.of_nat (length ss)
                   then dec_pick c (N.to_nat t) r ss (N.to_nat t) else None
  | None => None
  end.
Proof.
  intros c ss bs. simpl.
  destruct (dec_int c W32 bs) as [[t r]|]; [|reflexivity].
  destruct (t <? N.of_nat (length ss)); [|reflexivity].
  apply pick_eq.
Qed.

Lemma has_tuple_eq : forall ss vs,
  has_schema (STuple ss) (VTuple vs) = has_tuple ss vs.
Proof.
  intros ss. induction ss as [|s ss IH]; intros vs.
  - reflexivity.
  - destruct vs as [|v vs]; [reflexivity|].
    simpl. f_equal; try apply IH.
Qed.

Lemma has_pick_eq : forall ss i v',
  has_schema (SEnum ss) (VEnum i v') = has_pick v' ss i.
Proof.
  intros ss i v'. simpl. revert i.
  induction ss as [|s ss IH]; intros i.
  - reflexivity.
  - destruct i as [|i]; [reflexivity|]. simpl. apply IH.
Qed.

(* ----------------------------------------------------------- little endian *)

Fixpoint p256 (k : nat) : N :=
  match k with O => 1 | S k' => 256 * p256 k' end.

Lemma p256_iw : forall w, p256 (iw_bytes w) = iw_max w.
Proof. intros w. destruct w; reflexivity. Qed.

Lemma le_bytes_length : forall k n, length (le_bytes k n) = k.
Proof.
  induction k as [|k IH]; intros n; simpl; [reflexivity|].
  rewrite IH. reflexivity.
Qed.

Lemma le_val_le_bytes : forall k n, n < p256 k -> le_val (le_bytes k n) = n.
Proof.
  induction k as [|k IH]; intros n Hn.
  - simpl in *. lia.
  - cbn [le_bytes le_val].
    rewrite IH.
    + pose proof (N.div_mod n 256) as Hdm. lia.
    + apply N.div_lt_upper_bound; [lia|]. cbn [p256] in Hn. lia.
Qed.

Lemma le_val_bound : forall bs, bytes_ok bs -> le_val bs < p256 (length bs).
Proof.
  induction bs as [|b bs IH]; intros Hok.
  - simpl. lia.
  - inversion Hok as [|? ? Hb Hbs]; subst.
    specialize (IH Hbs). cbn [le_val length p256]. lia.
Qed.

Lemma le_bytes_le_val : forall bs, bytes_ok bs -> le_bytes (length bs) (le_val bs) = bs.
Proof.
  induction bs as [|b bs IH]; intros Hok.
  - reflexivity.
  - inversion Hok as [|? ? Hb Hbs]; subst.
    cbn [length le_bytes le_val].
    replace (b + 256 * le_val bs) with (b + le_val bs * 256) by lia.
    rewrite N.mod_add by lia. rewrite N.mod_small by exact Hb.
    rewrite N.div_add by lia. rewrite N.div_small by exact Hb.
    rewrite N.add_0_l. rewrite IH by exact Hbs. reflexivity.
Qed.

Lemma take_app : forall a r, take (length a) (a ++ r) = Some (a, r).
Proof.
  induction a as [|b a IH]; intros r.
  - reflexivity.
  - cbn [length app take]. rewrite IH. reflexivity.
Qed.

Lemma take_inv : forall k bs a r,
  take k bs = Some (a, r) -> bs = a ++ r /\ length a = k.
Proof.
  induction k as [|k IH]; intros bs a r H.
  - cbn [take] in H. inversion H; subst. split; reflexivity.
  - cbn [take] in H. destruct bs as [|b bs']; [discriminate|].
    destruct (take k bs') as [[a' r']|] eqn:Ht; [|discriminate].
    inversion H; subst. apply IH in Ht. destruct Ht as [Hbs Hlen]. subst bs'.
    split; [reflexivity|]. simpl. rewrite Hlen. reflexivity.
Qed.

Lemma bytes_ok_app : forall a b, bytes_ok (a ++ b) -> bytes_ok a /\ bytes_ok b.
Proof. intros a b H. apply Forall_app in H. exact H. Qed.

Lemma dec_fix_app : forall k n rest,
  n < p256 k -> dec_fix k (le_bytes k n ++ rest) = Some (n, rest).
Proof.
  intros k n rest Hn. unfold dec_fix.
  pose proof (take_app (le_bytes k n) rest) as Ht.
  rewrite le_bytes_length in Ht. rewrite Ht.
  rewrite le_val_le_bytes by exact Hn. reflexivity.
Qed.

Lemma dec_fix_inv : forall k bs n rest,
  bytes_ok bs -> dec_fix k bs = Some (n, rest) ->
  exists a, bs = a ++ rest /\ length a = k /\ n < p256 k /\ le_bytes k n = a.
Proof.
  intros k bs n rest Hok H. unfold dec_fix in H.
  destruct (take k bs) as [[a r]|] eqn:Ht; [|discriminate].
  inversion H; subst. apply take_inv in Ht. destruct Ht as [Hbs Hlen].
  exists a. subst bs. apply bytes_ok_app in Hok. destruct Hok as [Hoka _].
  splits; try assumption.
  - rewrite <- Hlen. apply le_val_bound. exact Hoka.
  - rewrite <- Hlen. apply le_bytes_le_val. exact Hoka.
Qed.

(* ---------------- "pre is a way of writing e": the freedom of the decoder *)

Definition R (c : cfg) (e pre : list N) : Prop :=
  (length e <= length pre)%nat /\
  (length e = length pre -> pre = e) /\
  (c = Fix -> pre = e).

Lemma R_refl : forall c e, R c e e.
Proof. intros c e. unfold R. splits; auto. Qed.

Lemma R_app : forall c e1 p1 e2 p2,
  R c e1 p1 -> R c e2 p2 -> R c (e1 ++ e2) (p1 ++ p2).
Proof.
  intros c e1 p1 e2 p2 [Hl1 [He1 Hf1]] [Hl2 [He2 Hf2]]. unfold R.
  rewrite !app_length. splits.
  - lia.
  - intros Hlen. rewrite He1 by lia. rewrite He2 by lia. reflexivity.
  - intros Hc. rewrite Hf1 by exact Hc. rewrite Hf2 by exact Hc. reflexivity.
Qed.

Lemma R_cons : forall c b e p, R c e p -> R c (b :: e) (b :: p).
Proof.
  intros c b e p H. change (R c ([b] ++ e) ([b] ++ p)).
  apply R_app; [apply R_refl|exact H].
Qed.

Lemma R_short : forall e pre, (length e < length pre)%nat -> R Var e pre.
Proof.
  intros e pre H. unfold R. splits.
  - lia.
  - intros Heq. lia.
  - intros Hc. discriminate.
Qed.

(* ------------------------------------------------------------------ integers *)

Lemma iw_max_ge : forall w, 65536 <= iw_max w.
Proof. intros w. destruct w; simpl; lia. Qed.

Lemma dec_enc_int : forall c w n rest,
  n < iw_max w -> dec_int c w (enc_int c w n ++ rest) = Some (n, rest).
Proof.
  intros c w n rest Hn. destruct c; unfold dec_int, enc_int.
  - apply dec_fix_app. rewrite p256_iw. exact Hn.
  - unfold enc_var.
    destruct (n <? 251) eqn:H1.
    { simpl. rewrite H1. reflexivity. }
    apply N.ltb_ge in H1.
    destruct (n <? 65536) eqn:H2.
    { apply N.ltb_lt in H2. rewrite <- app_comm_cons. unfold dec_var.
      change (251 <? 251) with false. change (251 =? 251) with true. cbv iota.
      apply dec_fix_app. simpl. exact H2. }
    apply N.ltb_ge in H2.
    destruct (n <? 4294967296) eqn:H3.
    { apply N.ltb_lt in H3. rewrite <- app_comm_cons. unfold dec_var.
      change (252 <? 251) with false. change (252 =? 251) with false.
      change (252 =? 252) with true. cbv iota.
      assert (Hw : w_ge32 w = true) by (destruct w; simpl in *; [lia|reflexivity|reflexivity]).
      rewrite Hw. cbn [andb]. apply dec_fix_app. simpl. exact H3. }
    apply N.ltb_ge in H3.
    rewrite <- app_comm_cons. unfold dec_var.
    change (253 <? 251) with false. change (253 =? 251) with false.
    change (253 =? 252) with false. change (253 =? 253) with true. cbv iota.
    assert (Hw : w_is64 w = true) by (destruct w; simpl in *; [lia|lia|reflexivity]).
    rewrite Hw. cbn [andb]. apply dec_fix_app. destruct w; simpl in *; try lia.
Qed.

Lemma dec_int_inv : forall c w bs n rest,
  bytes_ok bs -> dec_int c w bs = Some (n, rest) ->
  exists pre, bs = pre ++ rest /\ n < iw_max w /\ R c (enc_int c w n) pre.
Proof.
  intros c w bs n rest Hok H. destruct c; unfold dec_int, enc_int in *.
  - apply dec_fix_inv in H; [|exact Hok].
    destruct H as [a [Hbs [Hlen [Hn Hle]]]].
    exists a. rewrite p256_iw in Hn. splits; try assumption.
    rewrite Hle. apply R_refl.
  - unfold dec_var in H. destruct bs as [|t r]; [discriminate|].
    inversion Hok as [|? ? Ht Hr]; subst.
    pose proof (iw_max_ge w) as Hge.
    destruct (t <? 251) eqn:H1.
    { inversion H; subst. apply N.ltb_lt in H1. exists [n]. splits.
      - lia.
      - unfold enc_var. apply N.ltb_lt in H1. rewrite H1. apply R_refl. }
    destruct (t =? 251) eqn:H2.
    { apply N.eqb_eq in H2. subst t.
      apply dec_fix_inv in H; [|exact Hr].
      destruct H as [a [Hbs [Hlen [Hn Hle]]]]. simpl in Hn.
      exists (251 :: a). subst r. splits.
      - lia.
      - unfold enc_var. destruct (n <? 251).
        + apply R_short. simpl. lia.
        + apply N.ltb_lt in Hn. rewrite Hn. rewrite Hle. apply R_refl. }
    destruct ((t =? 252) && w_ge32 w) eqn:H3.
    { apply andb_true_iff in H3. destruct H3 as [H3 Hw]. apply N.eqb_eq in H3. subst t.
      apply dec_fix_inv in H; [|exact Hr].
      destruct H as [a [Hbs [Hlen [Hn Hle]]]]. simpl in Hn.
      exists (252 :: a). subst r. splits.
      - destruct w; simpl in *; [discriminate|lia|lia].
      - unfold enc_var. destruct (n <? 251).
        + apply R_short. simpl. lia.
        + destruct (n <? 65536).
          * apply R_short. simpl; rewrite ?le_bytes_length; lia.
          * apply N.ltb_lt in Hn. rewrite Hn. rewrite Hle. apply R_refl. }
    destruct ((t =? 253) && w_is64 w) eqn:H4; [|discriminate].
    apply andb_true_iff in H4. destruct H4 as [H4 Hw]. apply N.eqb_eq in H4. subst t.
    apply dec_fix_inv in H; [|exact Hr].
    destruct H as [a [Hbs [Hlen [Hn Hle]]]]. simpl in Hn.
    exists (253 :: a). subst r. splits.
    + destruct w; simpl in *; [discriminate|discriminate|lia].
    + unfold enc_var. destruct (n <? 251).
      * apply R_short. simpl. lia.
      * destruct (n <? 65536).
        -- apply R_short. simpl; rewrite ?le_bytes_length; lia.
        -- destruct (n <? 4294967296).
           ++ apply R_short. simpl; rewrite ?le_bytes_length; lia.
           ++ rewrite Hle. apply R_refl.
Qed.

(* ---------------------------------------------------------------- round trip *)

Definition rt (c : cfg) (s : schema) : Prop :=
  schema_wf s = true ->
  forall v rest, has_schema s v -> decode c s (encode c s v ++ rest) = Some (v, rest).

Lemma rt_rep : forall c s,
  (forall v rest, has_schema s v -> decode c s (encode c s v ++ rest) = Some (v, rest)) ->
  forall l rest, Forall (has_schema s) l ->
  dec_rep c s (length l) (flat_map (encode c s) l ++ rest) = Some (l, rest).
Proof.
  intros c s Hs l. induction l as [|v l IH]; intros rest Hl.
  - reflexivity.
  - inversion Hl as [|? ? Hv Hl']; subst.
    cbn [length flat_map dec_rep]. rewrite <- app_assoc.
    rewrite Hs by exact Hv. rewrite IH by exact Hl'. reflexivity.
Qed.

Lemma rt_tuple : forall c ss,
  Forall (rt c) ss -> forallb schema_wf ss = true ->
  forall vs rest, has_tuple ss vs ->
  dec_tuple c ss (enc_tuple c ss vs ++ rest) = Some (vs, rest).
Proof.
  intros c ss HF. induction HF as [|s ss Hs HF IH]; intros Hwf vs rest Hvs.
  - destruct vs; [reflexivity|contradiction].
  - destruct vs as [|v vs]; [contradiction|].
    cbn [forallb] in Hwf. apply andb_true_iff in Hwf. destruct Hwf as [Hw1 Hw2].
    cbn [has_tuple] in Hvs. destruct Hvs as [Hv Hvs].
    cbn [enc_tuple dec_tuple]. rewrite <- app_assoc.
    rewrite (Hs Hw1) by exact Hv. rewrite (IH Hw2) by exact Hvs. reflexivity.
Qed.

Lemma has_pick_lt : forall v' ss i, has_pick v' ss i -> (i < length ss)%nat.
Proof.
  intros v' ss. induction ss as [|s ss IH]; intros i H.
  - contradiction.
  - destruct i as [|i]; simpl; [lia|]. apply IH in H. lia.
Qed.

Lemma rt_pick : forall c t v' ss,
  Forall (rt c) ss -> forallb schema_wf ss = true ->
  forall i rest, has_pick v' ss i ->
  dec_pick c t (enc_pick c v' ss i ++ rest) ss i = Some (VEnum t v', rest).
Proof.
  intros c t v' ss HF. induction HF as [|s ss Hs HF IH]; intros Hwf i rest Hi.
  - contradiction.
  - cbn [forallb] in Hwf. apply andb_true_iff in Hwf. destruct Hwf as [Hw1 Hw2].
    destruct i as [|i].
    + cbn [has_pick] in Hi. cbn [enc_pick dec_pick].
      rewrite (Hs Hw1) by exact Hi. reflexivity.
    + cbn [has_pick] in Hi. cbn [enc_pick dec_pick]. apply (IH Hw2). exact Hi.
Qed.

Lemma rt_all : forall c s, rt c s.
Proof.
  intros c. apply schema_ind'; unfold rt.
  - (* u8 *) intros _ v rest Hv. destruct v; try contradiction. reflexivity.
  - (* int *) intros w _ v rest Hv. destruct v; try contradiction.
    cbn [encode decode]. cbn [has_schema] in Hv. rewrite dec_enc_int by exact Hv. reflexivity.
  - (* bool *) intros _ v rest Hv. destruct v as [| b | | | | | | |]; try contradiction.
    destruct b; reflexivity.
  - (* string *) intros _ v rest Hv. destruct v as [| | l | | | | | |]; try contradiction.
    cbn [has_schema] in Hv. destruct Hv as [Hlen _].
    cbn [encode decode]. rewrite <- app_assoc.
    rewrite dec_enc_int by exact Hlen.
    rewrite Nat2N.id. rewrite take_app. reflexivity.
  - (* option *) intros s IH Hwf v rest Hv. cbn [schema_wf] in Hwf.
    destruct v as [| | | | v' | | | |]; try contradiction.
    + reflexivity.
    + cbn [has_schema] in Hv. cbn [encode]. rewrite <- app_comm_cons. cbn [decode].
      change (1 =? 0) with false. change (1 =? 1) with true. cbv iota.
      rewrite (IH Hwf) by exact Hv. reflexivity.
  - (* vec *) intros s IH Hwf v rest Hv. cbn [schema_wf] in Hwf.
    destruct v as [| | | | | l | | |]; try contradiction.
    cbn [has_schema] in Hv. destruct Hv as [Hlen Hl].
    rewrite decode_vec_eq. cbn [encode]. rewrite <- app_assoc.
    rewrite dec_enc_int by exact Hlen.
    rewrite Nat2N.id.
    rewrite (rt_rep c s (IH Hwf)) by exact Hl. reflexivity.
  - (* tuple *) intros ss HF Hwf v rest Hv. cbn [schema_wf] in Hwf.
    destruct v as [| | | | | | vs | |]; try contradiction.
    rewrite has_tuple_eq in Hv. rewrite decode_tuple_eq, encode_tuple_eq.
    rewrite (rt_tuple c ss HF Hwf) by exact Hv. reflexivity.
  - (* enum *) intros ss HF Hwf v rest Hv. cbn [schema_wf] in Hwf.
    apply andb_true_iff in Hwf. destruct Hwf as [Hn Hwf]. apply N.leb_le in Hn.
    destruct v as [| | | | | | | i v' |]; try contradiction.
    rewrite has_pick_eq in Hv. pose proof (has_pick_lt _ _ _ Hv) as Hlt.
    rewrite decode_enum_eq, encode_enum_eq. rewrite <- app_assoc.
    rewrite dec_enc_int by (simpl; lia).
    assert (Hi : (N.of_nat i <? N.of_nat (length ss)) = true) by (apply N.ltb_lt; lia).
    rewrite Hi. rewrite Nat2N.id.
    apply (rt_pick c i v' ss HF Hwf). exact Hv.
  - (* opaque *) intros w Hwf. discriminate.
Qed.

Lemma codec_roundtrip : codec_roundtrip_stmt.
Proof.
  unfold codec_roundtrip_stmt. intros c s v rest Hwf Hv. apply (rt_all c s Hwf). exact Hv.
Qed.

Lemma codec_roundtrip_needs_wf : codec_roundtrip_needs_wf_stmt.
Proof.
  exists Fix, (STuple [SU8; SOpaque 1]), (VTuple [VInt 7; VOpaque]), [].
  splits.
  - simpl. lia.
  - simpl. discriminate.
Qed.

(* ------------------------------------------------------ inversion of decode *)

Definition inv (c : cfg) (s : schema) : Prop :=
  forall bs v rest,
    bytes_ok bs -> decode c s bs = Some (v, rest) ->
    exists pre, bs = pre ++ rest /\ has_schema s v /\ R c (encode c s v) pre.

Lemma wrap_inv : forall A (f : A -> value) o v rest,
  wrap f o = Some (v, rest) -> exists a, o = Some (a, rest) /\ v = f a.
Proof.
  intros A f o v rest H. unfold wrap in H.
  destruct o as [[a r]|]; [|discriminate]. inversion H; subst. exists a. split; reflexivity.
Qed.

Lemma inv_rep : forall c s, inv c s ->
  forall k bs vs rest,
    bytes_ok bs -> dec_rep c s k bs = Some (vs, rest) ->
    exists pre, bs = pre ++ rest /\ length vs = k /\ Forall (has_schema s) vs /\
                R c (flat_map (encode c s) vs) pre.
Proof.
  intros c s Hs k. induction k as [|k IH]; intros bs vs rest Hok H.
  - cbn [dec_rep] in H. inversion H; subst. exists []. splits.
    + constructor.
    + apply R_refl.
  - cbn [dec_rep] in H.
    destruct (decode c s bs) as [[v r1]|] eqn:Hd; [|discriminate].
    destruct (dec_rep c s k r1) as [[vs' r2]|] eqn:Hr; [|discriminate].
    inversion H; subst.
    apply Hs in Hd; [|exact Hok]. destruct Hd as [p1 [Hbs [Hv HR1]]]. subst bs.
    apply bytes_ok_app in Hok. destruct Hok as [_ Hok1].
    apply IH in Hr; [|exact Hok1]. destruct Hr as [p2 [Hr1 [Hlen [HF HR2]]]]. subst r1.
    exists (p1 ++ p2). splits.
    + rewrite app_assoc. reflexivity.
    + simpl. rewrite Hlen. reflexivity.
    + constructor; assumption.
    + cbn [flat_map]. apply R_app; assumption.
Qed.

Lemma inv_tuple : forall c ss, Forall (inv c) ss ->
  forall bs vs rest,
    bytes_ok bs -> dec_tuple c ss bs = Some (vs, rest) ->
    exists pre, bs = pre ++ rest /\ has_tuple ss vs /\ R c (enc_tuple c ss vs) pre.
Proof.
  intros c ss HF. induction HF as [|s ss Hs HF IH]; intros bs vs rest Hok H.
  - cbn [dec_tuple] in H. inversion H; subst. exists []. splits.
    apply R_refl.
  - cbn [dec_tuple] in H.
    destruct (decode c s bs) as [[v r1]|] eqn:Hd; [|discriminate].
    destruct (dec_tuple c ss r1) as [[vs' r2]|] eqn:Hr; [|discriminate].
    inversion H; subst.
    apply Hs in Hd; [|exact Hok]. destruct Hd as [p1 [Hbs [Hv HR1]]]. subst bs.
    apply bytes_ok_app in Hok. destruct Hok as [_ Hok1].
    apply IH in Hr; [|exact Hok1]. destruct Hr as [p2 [Hr1 [Hvs HR2]]]. subst r1.
    exists (p1 ++ p2). cbn [has_tuple]. splits.
    + rewrite app_assoc. reflexivity.
    + assumption.
    + assumption.
    + cbn [enc_tuple]. apply R_app; assumption.
Qed.

Lemma inv_pick : forall c t ss, Forall (inv c) ss ->
  forall i bs v rest,
    bytes_ok bs -> dec_pick c t bs ss i = Some (v, rest) ->
    exists v' pre, v = VEnum t v' /\ bs = pre ++ rest /\ has_pick v' ss i /\
                   R c (enc_pick c v' ss i) pre.
Proof.
  intros c t ss HF. induction HF as [|s ss Hs HF IH]; intros i bs v rest Hok H.
  - discriminate.
  - destruct i as [|i]; cbn [dec_pick] in H.
    + apply wrap_inv in H. destruct H as [v' [Hd Hv]].
      apply Hs in Hd; [|exact Hok]. destruct Hd as [pre [Hbs [Hv' HR]]].
      exists v', pre. splits; assumption.
    + apply IH in H; [|exact Hok]. exact H.
Qed.

Lemma inv_all : forall c s, inv c s.
Proof.
  intros c. apply schema_ind'; unfold inv.
  - (* u8 *) intros bs v rest Hok H. cbn [decode] in H.
    destruct bs as [|b r]; [discriminate|]. inversion H; subst.
    inversion Hok as [|? ? Hb Hr]; subst.
    exists [b]. splits.
    + exact Hb.
    + apply R_refl.
  - (* int *) intros w bs v rest Hok H. cbn [decode] in H.
    apply wrap_inv in H. destruct H as [n [Hd Hv]]. subst v.
    apply dec_int_inv in Hd; [|exact Hok]. destruct Hd as [pre [Hbs [Hn HR]]].
    exists pre. splits; assumption.
  - (* bool *) intros bs v rest Hok H. cbn [decode] in H.
    destruct bs as [|b r]; [discriminate|].
    destruct (b =? 0) eqn:H0.
    { apply N.eqb_eq in H0. subst b. inversion H; subst. exists [0]. splits. apply R_refl. }
    destruct (b =? 1) eqn:H1; [|discriminate].
    apply N.eqb_eq in H1. subst b. inversion H; subst. exists [1]. splits. apply R_refl.
  - (* string *) intros bs v rest Hok H. cbn [decode] in H.
    destruct (dec_int c W64 bs) as [[n r]|] eqn:Hd; [|discriminate].
    apply wrap_inv in H. destruct H as [l [Ht Hv]]. subst v.
    apply dec_int_inv in Hd; [|exact Hok]. destruct Hd as [p1 [Hbs [Hn HR]]]. subst bs.
    apply take_inv in Ht. destruct Ht as [Hr Hlen]. subst r.
    apply bytes_ok_app in Hok. destruct Hok as [_ Hok1].
    apply bytes_ok_app in Hok1. destruct Hok1 as [Hokl _].
    assert (Hn' : N.of_nat (length l) = n) by (rewrite Hlen; apply N2Nat.id).
    exists (p1 ++ l). cbn [has_schema]. splits.
    + rewrite app_assoc. reflexivity.
    + rewrite Hn'. exact Hn.
    + exact Hokl.
    + cbn [encode]. rewrite Hn'. apply R_app; [exact HR|apply R_refl].
  - (* option *) intros s IH bs v rest Hok H. cbn [decode] in H.
    destruct bs as [|b r]; [discriminate|].
    inversion Hok as [|? ? Hb Hr]; subst.
    destruct (b =? 0) eqn:H0.
    { apply N.eqb_eq in H0. subst b. inversion H; subst. exists [0]. splits. apply R_refl. }
    destruct (b =? 1) eqn:H1; [|discriminate].
    apply N.eqb_eq in H1. subst b.
    apply wrap_inv in H. destruct H as [v' [Hd Hv]]. subst v.
    apply IH in Hd; [|exact Hr]. destruct Hd as [pre [Hbs [Hv' HR]]]. subst r.
    exists (1 :: pre). splits.
    + exact Hv'.
    + cbn [encode]. apply R_cons. exact HR.
  - (* vec *) intros s IH bs v rest Hok H. rewrite decode_vec_eq in H.
    destruct (dec_int c W64 bs) as [[n r]|] eqn:Hd; [|discriminate].
    apply wrap_inv in H. destruct H as [l [Hrep Hv]]. subst v.
    apply dec_int_inv in Hd; [|exact Hok]. destruct Hd as [p1 [Hbs [Hn HR]]]. subst bs.
    apply bytes_ok_app in Hok. destruct Hok as [_ Hok1].
    apply (inv_rep c s IH) in Hrep; [|exact Hok1].
    destruct Hrep as [p2 [Hr [Hlen [HF HR2]]]]. subst r.
    assert (Hn' : N.of_nat (length l) = n) by (rewrite Hlen; apply N2Nat.id).
    exists (p1 ++ p2). cbn [has_schema]. splits.
    + rewrite app_assoc. reflexivity.
    + rewrite Hn'. exact Hn.
    + exact HF.
    + cbn [encode]. rewrite Hn'. apply R_app; assumption.
  - (* tuple *) intros ss HF bs v rest Hok H. rewrite decode_tuple_eq in H.
    apply wrap_inv in H. destruct H as [vs [Hd Hv]]. subst v.
    apply (inv_tuple c ss HF) in Hd; [|exact Hok].
    destruct Hd as [pre [Hbs [Hvs HR]]].
    exists pre. rewrite has_tuple_eq, encode_tuple_eq. splits; assumption.
  - (* enum *) intros ss HF bs v rest Hok H. rewrite decode_enum_eq in H.
    destruct (dec_int c W32 bs) as [[t r]|] eqn:Hd; [|discriminate].
    destruct (t <? N.of_nat (length ss)) eqn:Hlt; [|discriminate].
    apply dec_int_inv in Hd; [|exact Hok]. destruct Hd as [p1 [Hbs [Hn HR]]]. subst bs.
    apply bytes_ok_app in Hok. destruct Hok as [_ Hok1].
    apply (inv_pick c (N.to_nat t) ss HF) in H; [|exact Hok1].
    destruct H as [v' [p2 [Hv [Hr [Hp HR2]]]]]. subst v r.
    exists (p1 ++ p2). rewrite has_pick_eq, encode_enum_eq. rewrite N2Nat.id. splits.
    + rewrite app_assoc. reflexivity.
    + exact Hp.
    + apply R_app; assumption.
  - (* opaque *) intros w bs v rest Hok H. discriminate.
Qed.

Lemma codec_decode_sound : codec_decode_sound_stmt.
Proof.
  unfold codec_decode_sound_stmt. intros c s bs v rest Hok H.
  destruct (inv_all c s bs v rest Hok H) as [pre [Hbs [Hv _]]].
  split; [exact Hv|]. exists pre. exact Hbs.
Qed.

Lemma codec_canonical_fixint : codec_canonical_fixint_stmt.
Proof.
  unfold codec_canonical_fixint_stmt. intros s bs v rest Hok H.
  destruct (inv_all Fix s bs v rest Hok H) as [pre [Hbs [_ [_ [_ Hf]]]]].
  rewrite <- (Hf eq_refl). exact Hbs.
Qed.

Lemma codec_canonical_varint_refuted : codec_canonical_varint_refuted_stmt.
Proof.
  exists (SInt W16), [251; 5; 0], (VInt 5), [].
  splits.
  - unfold bytes_ok. repeat constructor.
  - vm_compute. discriminate.
Qed.

Lemma codec_canonical_minimal : codec_canonical_minimal_stmt.
Proof.
  unfold codec_canonical_minimal_stmt. intros c s bs v rest Hok H.
  destruct (inv_all c s bs v rest Hok H) as [pre [Hbs [_ [Hle [Heq _]]]]].
  subst bs. rewrite app_length. split.
  - lia.
  - intros Hlen. rewrite Heq by lia. reflexivity.
Qed.

(* -------------------------------------------------- the generated schemas *)

Lemma generated_schemas_wf : forall t,
  schema_wf (yacc_grammar_schema t) = true /\ schema_wf (state_table_schema t) = true.
Proof. intros t. destruct t; split; vm_compute; reflexivity. Qed.

Lemma grammar_reconstitute : grammar_reconstitute_stmt.
Proof.
  unfold grammar_reconstitute_stmt, reconstitute. intros c t v junk Hv.
  rewrite (codec_roundtrip c _ v junk (proj1 (generated_schemas_wf t)) Hv). reflexivity.
Qed.

Lemma table_reconstitute : table_reconstitute_stmt.
Proof.
  unfold table_reconstitute_stmt, reconstitute. intros c t v junk Hv.
  rewrite (codec_roundtrip c _ v junk (proj2 (generated_schemas_wf t)) Hv). reflexivity.
Qed.

(* what the correspondence driver evaluates is exactly decode / encode under
   the generated schema *)
Lemma run_case_spec : forall table t c bs v rest re,
  run_case table t c bs = Some (v, rest, re) ->
  decode c (schema_of table t) bs = Some (v, rest) /\ re = encode c (schema_of table t) v.
Proof.
  intros table t c bs v rest re H. unfold run_case in H.
  destruct (decode c (schema_of table t) bs) as [[v' r']|]; [|discriminate].
  inversion H; subst. split; reflexivity.
Qed.

(* ---------------------------------- the hypotheses are satisfiable: examples *)

Example ex_value : value :=
  VTuple [VTuple [VInt 3];
          VList [VTuple [VBytes [94]; VTuple [VInt 0; VInt 0]];
                 VTuple [VBytes [69; 195; 169]; VTuple [VInt 300; VInt 70000]]];
          VSome (VEnum 1 (VTuple [VTuple [VInt 2]]));
          VNone].
Example ex_schema : schema :=
  STuple [sch_RIdx (SInt W16); SVec (STuple [SString; sch_Span]);
          SOption (sch_Symbol (SInt W16)); SOption SUsize].

Example ex_has_schema : has_schema ex_schema ex_value.
Proof.
  unfold ex_schema, ex_value, bytes_ok. simpl.
  repeat (split || constructor || lia); vm_compute; discriminate.
Qed.

Example ex_roundtrip_var :
  decode Var ex_schema (encode Var ex_schema ex_value ++ [9]) = Some (ex_value, [9]).
Proof. vm_compute. reflexivity. Qed.

Example ex_bytes_var :
  encode Var ex_schema ex_value =
  [3; 2; 1; 94; 0; 0; 3; 69; 195; 169; 251; 44; 1; 252; 112; 17; 1; 0; 1; 1; 2; 0].
Proof. vm_compute. reflexivity. Qed.

Example ex_bytes_ok_decodes :
  bytes_ok [251; 5; 0] /\ decode Var (SInt W16) [251; 5; 0] = Some (VInt 5, []).
Proof. split; [unfold bytes_ok; repeat constructor|reflexivity]. Qed.
