(** C14 — what the correspondence check evaluates on the model side: decode the
    implementation's bytes under the schema generated from the Rust
    definitions, report what is left over and the re-encoding of the decoded
    value. *)
From Coq Require Import List NArith Bool.
From GV Require Import C14.Model C14.Schema_gen.
Import ListNotations.

Definition schema_of (table : bool) (t : stw) : schema :=
  if table then state_table_schema t else yacc_grammar_schema t.

Definition run_case (table : bool) (t : stw) (c : cfg) (bs : list N)
  : option (value * list N * list N) :=
  match decode c (schema_of table t) bs with
  | Some (v, rest) => Some (v, rest, encode c (schema_of table t) v)
  | None => None
  end.

Definition wf_case (table : bool) (t : stw) : bool := schema_wf (schema_of table t).

(** the reader of wincode's DEFAULT configuration (4 MiB preallocation size limit, element sizes =
    [mem_size]) on the same bytes: does it accept them?  (ctbuilder before /repo 40b4e42) *)
Definition run_limited (table : bool) (t : stw) (c : cfg) (bs : list N) : bool :=
  match decode_limited PREALLOC_LIMIT mem_size c (schema_of table t) bs with
  | Some _ => true
  | None => false
  end.

(** [mem_size] of the element type of every sequence position, in encoding order *)
Definition elem_sizes (table : bool) (t : stw) : list N :=
  map mem_size (seq_elems (schema_of table t)).
