(** C14 — executable model of the wincode (0.5.5) byte format used by lrpar's
    ctbuilder to embed a grammar and its state table in generated parsers.

    Read off the vendored crate:
    - [config/mod.rs]: the two configurations used are the default one
      (little endian, lengths = [BincodeLen] = [UseIntLen<u64>], enum tags =
      [u32]) with [FixInt] resp. [VarInt] integer encoding;
    - [schema/int_encoding.rs]: [FixInt] = [to_le_bytes]; [VarInt] = bincode's
      scheme ([<= 250]: one byte; [251]+u16; [252]+u32; [253]+u64).  The VarInt
      DECODER of a [uN] accepts every marker whose payload fits in [uN], i.e.
      also non-minimal encodings ([251 5 0] decodes to 5);
    - [schema/impls.rs]: [u8] is always one byte; [usize] travels as [u64];
      [bool] is one byte 0/1; [Option] is a one byte tag 0/1; [String], [Vec<T>],
      [Box<[T]>] are a length (a [u64] in the configured integer encoding)
      followed by the elements.  [len.rs] ([SeqLen::prealloc_check]): a
      configuration with a "preallocation size limit" (the default one: 4 MiB)
      refuses, when writing AND when reading, every sequence with
      [len * max(size_of::<T>(), 1) > limit] ([T] = the in-memory element type;
      [u8] for strings).  Since /repo 40b4e42 ctbuilder uses
      [.disable_preallocation_size_limit()] on both sides: [decode] below has no
      limit; [decode_limited] is the reader of a configuration that has one;
    - wincode-derive: structs/tuples = fields in declaration order; enums = the
      variant index as a [u32] in the configured integer encoding, then the
      fields of the variant.

    Bytes are numbers (type [N]); "byte string" = all elements below 256
    ([bytes_ok], Spec.v).  Executable definitions only. *)
From Coq Require Import List NArith Bool.
Import ListNotations.
Local Open Scope N_scope.

Inductive cfg := Fix | Var.

(** integer widths that depend on the configured encoding *)
Inductive iw := W16 | W32 | W64.

Definition iw_bytes (w : iw) : nat :=
  match w with W16 => 2 | W32 => 4 | W64 => 8 end%nat.

Definition iw_max (w : iw) : N :=
  match w with W16 => 65536 | W32 => 4294967296 | W64 => 18446744073709551616 end.

(** [SOpaque] marks something that is present in the Rust type but does not
    travel (a skipped field, a type without the derive, an unsupported type):
    nothing can be decoded at such a position. *)
Inductive schema :=
| SU8
| SInt (w : iw)
| SBool
| SString
| SOption (s : schema)
| SVec (s : schema)
| STuple (l : list schema)
| SEnum (l : list schema)
| SOpaque (why : N).

(** [usize]: written as a [u64]; read back with [try_into] (never fails on the
    64-bit targets this model is about). *)
Definition SUsize : schema := SInt W64.

Inductive value :=
| VInt (n : N)
| VBool (b : bool)
| VBytes (l : list N)
| VNone
| VSome (v : value)
| VList (l : list value)
| VTuple (l : list value)
| VEnum (i : nat) (v : value)
| VOpaque.

(** storage type parameter of the grammar / table types *)
Inductive stw := St8 | St16 | St32.
Definition st_schema (t : stw) : schema :=
  match t with St8 => SU8 | St16 => SInt W16 | St32 => SInt W32 end.

(** wincode's DEFAULT_PREALLOCATION_SIZE_LIMIT = 4 << 20 bytes (the limit of
    [Configuration::default()], in force in ctbuilder before /repo 40b4e42). *)
Definition PREALLOC_LIMIT : N := 4194304.

(* ---------- little endian ---------- *)

Fixpoint le_bytes (k : nat) (n : N) : list N :=
  match k with
  | O => []
  | S k' => (n mod 256) :: le_bytes k' (n / 256)
  end.

Fixpoint le_val (bs : list N) : N :=
  match bs with
  | [] => 0
  | b :: r => b + 256 * le_val r
  end.

(* first k bytes and the rest; None if fewer than k are left *)
Fixpoint take (k : nat) (bs : list N) {struct k} : option (list N * list N) :=
  match k with
  | O => Some ([], bs)
  | S k' =>
      match bs with
      | [] => None
      | b :: r =>
          match take k' r with
          | Some (a, r') => Some (b :: a, r')
          | None => None
          end
      end
  end.

Definition dec_fix (k : nat) (bs : list N) : option (N * list N) :=
  match take k bs with
  | Some (a, r) => Some (le_val a, r)
  | None => None
  end.

(* ---------- VarInt ---------- *)

Definition enc_var (n : N) : list N :=
  if n <? 251 then [n]
  else if n <? 65536 then 251 :: le_bytes 2 n
  else if n <? 4294967296 then 252 :: le_bytes 4 n
  else 253 :: le_bytes 8 n.

Definition w_ge32 (w : iw) : bool := match w with W16 => false | _ => true end.
Definition w_is64 (w : iw) : bool := match w with W64 => true | _ => false end.

Definition dec_var (w : iw) (bs : list N) : option (N * list N) :=
  match bs with
  | [] => None
  | t :: r =>
      if t <? 251 then Some (t, r)
      else if t =? 251 then dec_fix 2 r
      else if (t =? 252) && w_ge32 w then dec_fix 4 r
      else if (t =? 253) && w_is64 w then dec_fix 8 r
      else None
  end.

Definition enc_int (c : cfg) (w : iw) (n : N) : list N :=
  match c with Fix => le_bytes (iw_bytes w) n | Var => enc_var n end.

Definition dec_int (c : cfg) (w : iw) (bs : list N) : option (N * list N) :=
  match c with Fix => dec_fix (iw_bytes w) bs | Var => dec_var w bs end.

(* ---------- values ---------- *)

Fixpoint encode (c : cfg) (s : schema) (v : value) {struct s} : list N :=
  match s, v with
  | SU8, VInt n => [n]
  | SInt w, VInt n => enc_int c w n
  | SBool, VBool b => [if b then 1 else 0]
  | SString, VBytes l => enc_int c W64 (N.of_nat (length l)) ++ l
  | SOption _, VNone => [0]
  | SOption s', VSome v' => 1 :: encode c s' v'
  | SVec s', VList l => enc_int c W64 (N.of_nat (length l)) ++ flat_map (encode c s') l
  | STuple ss, VTuple vs =>
      (fix go (ss : list schema) (vs : list value) {struct ss} : list N :=
         match ss, vs with
         | s' :: ss', v' :: vs' => encode c s' v' ++ go ss' vs'
         | _, _ => []
         end) ss vs
  | SEnum ss, VEnum i v' =>
      enc_int c W32 (N.of_nat i) ++
      (fix pick (ss : list schema) (i : nat) {struct ss} : list N :=
         match ss with
         | [] => []
         | s' :: ss' => match i with O => encode c s' v' | S i' => pick ss' i' end
         end) ss i
  | _, _ => []
  end.

Definition wrap {A} (f : A -> value) (o : option (A * list N)) : option (value * list N) :=
  match o with Some (a, r) => Some (f a, r) | None => None end.

Fixpoint decode (c : cfg) (s : schema) (bs : list N) {struct s} : option (value * list N) :=
  match s with
  | SU8 => match bs with b :: r => Some (VInt b, r) | [] => None end
  | SInt w => wrap VInt (dec_int c w bs)
  | SBool =>
      match bs with
      | b :: r => if b =? 0 then Some (VBool false, r)
                  else if b =? 1 then Some (VBool true, r) else None
      | [] => None
      end
  | SString =>
      match dec_int c W64 bs with
      | Some (n, r) => wrap VBytes (take (N.to_nat n) r)
      | None => None
      end
  | SOption s' =>
      match bs with
      | b :: r => if b =? 0 then Some (VNone, r)
                  else if b =? 1 then wrap VSome (decode c s' r) else None
      | [] => None
      end
  | SVec s' =>
      match dec_int c W64 bs with
      | Some (n, r) =>
          wrap VList
            ((fix rep (k : nat) (bs : list N) {struct k} : option (list value * list N) :=
                match k with
                | O => Some ([], bs)
                | S k' =>
                    match decode c s' bs with
                    | Some (v, r1) =>
                        match rep k' r1 with
                        | Some (vs, r2) => Some (v :: vs, r2)
                        | None => None
                        end
                    | None => None
                    end
                end) (N.to_nat n) r)
      | None => None
      end
  | STuple ss =>
      wrap VTuple
        ((fix go (ss : list schema) (bs : list N) {struct ss} : option (list value * list N) :=
            match ss with
            | [] => Some ([], bs)
            | s' :: ss' =>
                match decode c s' bs with
                | Some (v, r1) =>
                    match go ss' r1 with
                    | Some (vs, r2) => Some (v :: vs, r2)
                    | None => None
                    end
                | None => None
                end
            end) ss bs)
  | SEnum ss =>
      match dec_int c W32 bs with
      | Some (t, r) =>
          if t <? N.of_nat (length ss) then
            (fix pick (ss : list schema) (i : nat) {struct ss} : option (value * list N) :=
               match ss with
               | [] => None
               | s' :: ss' =>
                   match i with
                   | O => wrap (VEnum (N.to_nat t)) (decode c s' r)
                   | S i' => pick ss' i'
                   end
               end) ss (N.to_nat t)
          else None
      | None => None
      end
  | SOpaque _ => None
  end.

(** side conditions on a schema under which everything of that shape travels:
    nothing opaque inside, enum tags fit the [u32] tag *)
Fixpoint schema_wf (s : schema) : bool :=
  match s with
  | SOpaque _ => false
  | SOption s' => schema_wf s'
  | SVec s' => schema_wf s'
  | STuple ss => forallb schema_wf ss
  | SEnum ss => (N.of_nat (length ss) <=? 4294967296) && forallb schema_wf ss
  | _ => true
  end.

(* named forms of the local fixpoints (equal to them by computation) *)

Fixpoint enc_tuple (c : cfg) (ss : list schema) (vs : list value) {struct ss} : list N :=
  match ss, vs with
  | s' :: ss', v' :: vs' => encode c s' v' ++ enc_tuple c ss' vs'
  | _, _ => []
  end.

Fixpoint enc_pick (c : cfg) (v' : value) (ss : list schema) (i : nat) {struct ss} : list N :=
  match ss with
  | [] => []
  | s' :: ss' => match i with O => encode c s' v' | S i' => enc_pick c v' ss' i' end
  end.

Fixpoint dec_rep (c : cfg) (s' : schema) (k : nat) (bs : list N) {struct k}
  : option (list value * list N) :=
  match k with
  | O => Some ([], bs)
  | S k' =>
      match decode c s' bs with
      | Some (v, r1) =>
          match dec_rep c s' k' r1 with
          | Some (vs, r2) => Some (v :: vs, r2)
          | None => None
          end
      | None => None
      end
  end.

Fixpoint dec_tuple (c : cfg) (ss : list schema) (bs : list N) {struct ss}
  : option (list value * list N) :=
  match ss with
  | [] => Some ([], bs)
  | s' :: ss' =>
      match decode c s' bs with
      | Some (v, r1) =>
          match dec_tuple c ss' r1 with
          | Some (vs, r2) => Some (v :: vs, r2)
          | None => None
          end
      | None => None
      end
  end.

Fixpoint dec_pick (c : cfg) (t : nat) (r : list N) (ss : list schema) (i : nat) {struct ss}
  : option (value * list N) :=
  match ss with
  | [] => None
  | s' :: ss' =>
      match i with
      | O => wrap (VEnum t) (decode c s' r)
      | S i' => dec_pick c t r ss' i'
      end
  end.

(* ====================================================================== *)
(** * The reader of a configuration WITH a preallocation size limit

    [len.rs], [SeqLen::prealloc_check::<T>(len)]:
      [needed = len.checked_mul(max(size_of::<T>(), 1))]; error if the product
      overflows or [needed > limit].
    Call sites ([schema/containers.rs], [schema/impls.rs]): [Vec<T>], [Box<[T]>]
    read [Len::read_prealloc_check::<T::Dst>] before allocating, write
    [Len::prealloc_check::<T>] before the first byte; [String] / [str] use
    [T = u8].  The element size is the size of the IN-MEMORY element (40 bytes
    for a [(String, Span)]), not of its encoding: it is a parameter [esz] of the
    reader below ([mem_size] is the instance for the types of Schema_gen.v).
    Numbers are unbounded here: an overflowing product is above any limit that
    fits a [usize], so the two error cases of [check] coincide. *)

Definition over_limit (limit esz n : N) : bool := limit <? n * N.max esz 1.

Fixpoint decode_limited (limit : N) (esz : schema -> N) (c : cfg) (s : schema) (bs : list N)
  {struct s} : option (value * list N) :=
  match s with
  | SU8 => match bs with b :: r => Some (VInt b, r) | [] => None end
  | SInt w => wrap VInt (dec_int c w bs)
  | SBool =>
      match bs with
      | b :: r => if b =? 0 then Some (VBool false, r)
                  else if b =? 1 then Some (VBool true, r) else None
      | [] => None
      end
  | SString =>
      match dec_int c W64 bs with
      | Some (n, r) => if over_limit limit 1 n then None else wrap VBytes (take (N.to_nat n) r)
      | None => None
      end
  | SOption s' =>
      match bs with
      | b :: r => if b =? 0 then Some (VNone, r)
                  else if b =? 1 then wrap VSome (decode_limited limit esz c s' r) else None
      | [] => None
      end
  | SVec s' =>
      match dec_int c W64 bs with
      | Some (n, r) =>
          if over_limit limit (esz s') n then None
          else wrap VList
            ((fix rep (k : nat) (bs : list N) {struct k} : option (list value * list N) :=
                match k with
                | O => Some ([], bs)
                | S k' =>
                    match decode_limited limit esz c s' bs with
                    | Some (v, r1) =>
                        match rep k' r1 with
                        | Some (vs, r2) => Some (v :: vs, r2)
                        | None => None
                        end
                    | None => None
                    end
                end) (N.to_nat n) r)
      | None => None
      end
  | STuple ss =>
      wrap VTuple
        ((fix go (ss : list schema) (bs : list N) {struct ss} : option (list value * list N) :=
            match ss with
            | [] => Some ([], bs)
            | s' :: ss' =>
                match decode_limited limit esz c s' bs with
                | Some (v, r1) =>
                    match go ss' r1 with
                    | Some (vs, r2) => Some (v :: vs, r2)
                    | None => None
                    end
                | None => None
                end
            end) ss bs)
  | SEnum ss =>
      match dec_int c W32 bs with
      | Some (t, r) =>
          if t <? N.of_nat (length ss) then
            (fix pick (ss : list schema) (i : nat) {struct ss} : option (value * list N) :=
               match ss with
               | [] => None
               | s' :: ss' =>
                   match i with
                   | O => wrap (VEnum (N.to_nat t)) (decode_limited limit esz c s' r)
                   | S i' => pick ss' i'
                   end
               end) ss (N.to_nat t)
          else None
      | None => None
      end
  | SOpaque _ => None
  end.

(** every sequence inside [v] passes [prealloc_check] (what the WRITER of such a
    configuration checks, sequence by sequence, on the in-memory value) *)
Fixpoint within_limit (limit : N) (esz : schema -> N) (s : schema) (v : value) {struct s} : bool :=
  match s, v with
  | SString, VBytes l => negb (over_limit limit 1 (N.of_nat (length l)))
  | SOption s', VSome v' => within_limit limit esz s' v'
  | SVec s', VList l =>
      negb (over_limit limit (esz s') (N.of_nat (length l))) && forallb (within_limit limit esz s') l
  | STuple ss, VTuple vs =>
      (fix go (ss : list schema) (vs : list value) {struct ss} : bool :=
         match ss, vs with
         | s' :: ss', v' :: vs' => within_limit limit esz s' v' && go ss' vs'
         | _, _ => true
         end) ss vs
  | SEnum ss, VEnum i v' =>
      (fix pick (ss : list schema) (i : nat) {struct ss} : bool :=
         match ss with
         | [] => true
         | s' :: ss' => match i with O => within_limit limit esz s' v' | S i' => pick ss' i' end
         end) ss i
  | _, _ => true
  end.

(* named forms of the local fixpoints *)

Fixpoint dec_rep_l (limit : N) (esz : schema -> N) (c : cfg) (s' : schema) (k : nat) (bs : list N)
  {struct k} : option (list value * list N) :=
  match k with
  | O => Some ([], bs)
  | S k' =>
      match decode_limited limit esz c s' bs with
      | Some (v, r1) =>
          match dec_rep_l limit esz c s' k' r1 with
          | Some (vs, r2) => Some (v :: vs, r2)
          | None => None
          end
      | None => None
      end
  end.

Fixpoint dec_tuple_l (limit : N) (esz : schema -> N) (c : cfg) (ss : list schema) (bs : list N)
  {struct ss} : option (list value * list N) :=
  match ss with
  | [] => Some ([], bs)
  | s' :: ss' =>
      match decode_limited limit esz c s' bs with
      | Some (v, r1) =>
          match dec_tuple_l limit esz c ss' r1 with
          | Some (vs, r2) => Some (v :: vs, r2)
          | None => None
          end
      | None => None
      end
  end.

Fixpoint dec_pick_l (limit : N) (esz : schema -> N) (c : cfg) (t : nat) (r : list N)
  (ss : list schema) (i : nat) {struct ss} : option (value * list N) :=
  match ss with
  | [] => None
  | s' :: ss' =>
      match i with
      | O => wrap (VEnum t) (decode_limited limit esz c s' r)
      | S i' => dec_pick_l limit esz c t r ss' i'
      end
  end.

Fixpoint within_tuple (limit : N) (esz : schema -> N) (ss : list schema) (vs : list value)
  {struct ss} : bool :=
  match ss, vs with
  | s' :: ss', v' :: vs' => within_limit limit esz s' v' && within_tuple limit esz ss' vs'
  | _, _ => true
  end.

Fixpoint within_pick (limit : N) (esz : schema -> N) (v' : value) (ss : list schema) (i : nat)
  {struct ss} : bool :=
  match ss with
  | [] => true
  | s' :: ss' => match i with O => within_limit limit esz s' v' | S i' => within_pick limit esz v' ss' i' end
  end.

(* ---------- in-memory element sizes ---------- *)

(** [size_of::<T>()] on a 64-bit target for the Rust type behind a schema, as
    rustc lays out the shapes that occur in Schema_gen.v (the Rust layout is not
    specified; the check compares these numbers with [size_of] of the element
    type of every sequence field of YaccGrammar / StateTable on every run):
    integers by width; [String] = 24; a sequence AS AN ELEMENT is a [Box<[T]>]
    (fat pointer, 16) in every generated schema; a struct/tuple = the sum of its
    fields rounded up to its alignment (fields are reordered: no inner padding
    when every size is a multiple of its alignment); an enum without fields = 1,
    with fields = one alignment unit for the tag + the largest variant;
    [Option<T>] = [T] when [T] has a niche (a [bool], a non-null pointer or
    capacity, a field-less enum tag), else one alignment unit more. *)
Definition round_up (n a : N) : N := if a =? 0 then n else ((n + a - 1) / a) * a.

Fixpoint mem_align (s : schema) : N :=
  match s with
  | SU8 | SBool => 1
  | SInt w => N.of_nat (iw_bytes w)
  | SString | SVec _ => 8
  | SOption s' => mem_align s'
  | STuple l => fold_right (fun x a => N.max (mem_align x) a) 1 l
  | SEnum l => fold_right (fun x a => N.max (mem_align x) a) 1 l
  | SOpaque _ => 1
  end.

Fixpoint has_niche (s : schema) : bool :=
  match s with
  | SBool | SString | SVec _ => true
  | SOption s' => has_niche s'
  | STuple l => existsb has_niche l
  | SEnum l => N.of_nat (length l) <? 256
  | _ => false
  end.

Fixpoint mem_size (s : schema) : N :=
  match s with
  | SU8 | SBool => 1
  | SInt w => N.of_nat (iw_bytes w)
  | SString => 24
  | SVec _ => 16
  | SOption s' => if has_niche s' then mem_size s' else round_up (mem_size s' + 1) (mem_align s')
  | STuple l => round_up (fold_right (fun x a => mem_size x + a) 0 l) (mem_align (STuple l))
  | SEnum l =>
      let m := fold_right (fun x a => N.max (mem_size x) a) 0 l in
      if m =? 0 then 1 else round_up (mem_align (SEnum l) + m) (mem_align (SEnum l))
  | SOpaque _ => 0
  end.

(** the element schema of every sequence position of a schema, in the order of
    the encoding (strings: [SU8]) — what [mem_size] is asked about *)
Fixpoint seq_elems (s : schema) : list schema :=
  match s with
  | SString => [SU8]
  | SOption s' => seq_elems s'
  | SVec s' => s' :: seq_elems s'
  | STuple l => flat_map seq_elems l
  | SEnum l => flat_map seq_elems l
  | _ => []
  end.
