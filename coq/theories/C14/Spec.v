(** C14 — what "serialise, then reconstitute" has to satisfy, and the statements.

    The grammar and the state table are plain data: every public query is a
    function of the fields (no interior mutability, no pointer identity).  So
    "every public query answers the same and every input parses identically"
    follows from: the reconstituted object has the same fields.  On the model
    that is [decode c s (encode c s v) = Some (v, _)] for every value [v] of the
    shape [s] ([has_schema]) — for BOTH integer encodings and for the schemas
    that tools/schema_of_rust.py reads off the Rust type definitions
    ([Schema_gen.v]) at every storage width.  The check then ties the model to
    the implementation per generated grammar: the implementation's bytes must be
    decoded completely by [decode] under the generated schema and re-encoded
    identically, and all public queries / parses on the reconstituted objects
    are compared with the originals directly. *)
From Coq Require Import List NArith Bool Lia.
From GV Require Import Common.Outcome C14.Model C14.Schema_gen.
Import ListNotations.
Local Open Scope N_scope.

Definition bytes_ok (bs : list N) : Prop := Forall (fun b => b < 256) bs.

(** [has_schema s v]: [v] is an in-memory value of the Rust type described by
    [s]; integers are bounded by their width, the LENGTH of a sequence fits a
    [usize] = [u64] (it is one, in memory).  No other bound: since /repo 40b4e42
    the configurations of ctbuilder have no preallocation size limit (before,
    [serialize] returned [Err] for any sequence above 4 MiB and the build
    failed — see [within_limit], [decode_limited] and the statements at the end). *)
Fixpoint has_schema (s : schema) (v : value) {struct s} : Prop :=
  match s, v with
  | SU8, VInt n => n < 256
  | SInt w, VInt n => n < iw_max w
  | SBool, VBool _ => True
  | SString, VBytes l => N.of_nat (length l) < iw_max W64 /\ bytes_ok l
  | SOption _, VNone => True
  | SOption s', VSome v' => has_schema s' v'
  | SVec s', VList l => N.of_nat (length l) < iw_max W64 /\ Forall (has_schema s') l
  | STuple ss, VTuple vs =>
      (fix go (ss : list schema) (vs : list value) {struct ss} : Prop :=
         match ss, vs with
         | [], [] => True
         | s' :: ss', v' :: vs' => has_schema s' v' /\ go ss' vs'
         | _, _ => False
         end) ss vs
  | SEnum ss, VEnum i v' =>
      (fix pick (ss : list schema) (i : nat) {struct ss} : Prop :=
         match ss with
         | [] => False
         | s' :: ss' => match i with O => has_schema s' v' | S i' => pick ss' i' end
         end) ss i
  | SOpaque _, VOpaque => True
  | _, _ => False
  end.

Fixpoint has_tuple (ss : list schema) (vs : list value) {struct ss} : Prop :=
  match ss, vs with
  | [], [] => True
  | s' :: ss', v' :: vs' => has_schema s' v' /\ has_tuple ss' vs'
  | _, _ => False
  end.

Fixpoint has_pick (v' : value) (ss : list schema) (i : nat) {struct ss} : Prop :=
  match ss with
  | [] => False
  | s' :: ss' => match i with O => has_schema s' v' | S i' => has_pick v' ss' i' end
  end.

(** what lrpar::ctbuilder::_reconstitute does with a buffer:
    [deserialize_from(buf, config).unwrap()] *)
Definition reconstitute (c : cfg) (s : schema) (bs : list N) : outcome value :=
  match decode c s bs with
  | Some (v, _) => Done v
  | None => Panic
  end.

(* ------------------------------------------------------------ statements *)

(** round trip, both encodings, any well-formed schema, any trailing bytes *)
Definition codec_roundtrip_stmt : Prop :=
  forall c s v rest,
    schema_wf s = true -> has_schema s v ->
    decode c s (encode c s v ++ rest) = Some (v, rest).

(** the round trip NEEDS the side condition: at an opaque position (a skipped
    field, a type without the derive) a value exists in memory but does not
    come back *)
Definition codec_roundtrip_needs_wf_stmt : Prop :=
  exists c s v rest,
    has_schema s v /\ schema_wf s = false /\
    decode c s (encode c s v ++ rest) <> Some (v, rest).

(** whatever is decoded has the shape of the schema and was a prefix of the input *)
Definition codec_decode_sound_stmt : Prop :=
  forall c s bs v rest,
    bytes_ok bs -> decode c s bs = Some (v, rest) ->
    has_schema s v /\ exists pre, bs = pre ++ rest.

(** fixed-width integers: the format is canonical — the only bytes that decode
    to [v] are [encode v] *)
Definition codec_canonical_fixint_stmt : Prop :=
  forall s bs v rest,
    bytes_ok bs -> decode Fix s bs = Some (v, rest) ->
    bs = encode Fix s v ++ rest.

(** variable-width integers: NOT canonical — wincode's VarInt decoder accepts a
    wider marker than necessary ([251 5 0] is read as the u16 5, written as [5]) *)
Definition codec_canonical_varint_refuted_stmt : Prop :=
  exists s bs v rest,
    bytes_ok bs /\ decode Var s bs = Some (v, rest) /\ bs <> encode Var s v ++ rest.

(** ... and that is the only freedom: the writer's output is the unique
    shortest byte string decoding to [v] (an input that is as short as the
    re-encoding of what was decoded IS that re-encoding; no input is shorter) *)
Definition codec_canonical_minimal_stmt : Prop :=
  forall c s bs v rest,
    bytes_ok bs -> decode c s bs = Some (v, rest) ->
    (length (encode c s v) + length rest <= length bs)%nat /\
    ((length (encode c s v) + length rest = length bs)%nat -> bs = encode c s v ++ rest).

(** instance for the schemas generated from the Rust definitions, every storage
    width, both encodings: [_reconstitute] does not panic and returns the value
    that was serialised *)
Definition grammar_reconstitute_stmt : Prop :=
  forall c t v junk,
    has_schema (yacc_grammar_schema t) v ->
    reconstitute c (yacc_grammar_schema t) (encode c (yacc_grammar_schema t) v ++ junk) = Done v.

Definition table_reconstitute_stmt : Prop :=
  forall c t v junk,
    has_schema (state_table_schema t) v ->
    reconstitute c (state_table_schema t) (encode c (state_table_schema t) v ++ junk) = Done v.

(* ------------------------------------------ a configuration WITH a size limit *)

(** [_reconstitute] under a configuration whose preallocation size limit is
    [limit] (ctbuilder before /repo 40b4e42: [Configuration::default()], 4 MiB) *)
Definition reconstitute_limited (limit : N) (esz : schema -> N) (c : cfg) (s : schema) (bs : list N)
  : outcome value :=
  match decode_limited limit esz c s bs with
  | Some (v, _) => Done v
  | None => Panic
  end.

(** [wincode::config::serialize] under such a configuration: the same check,
    sequence by sequence, on the value being written ([Err] = the build fails) *)
Definition serialize_limited (limit : N) (esz : schema -> N) (c : cfg) (s : schema) (v : value)
  : option (list N) :=
  if within_limit limit esz s v then Some (encode c s v) else None.

(** the limited reader is EXACTLY the unlimited one restricted to values all of
    whose sequences pass the size check *)
Definition decode_limited_exact_stmt : Prop :=
  forall limit esz c s bs,
    decode_limited limit esz c s bs =
    match decode c s bs with
    | Some (v, rest) => if within_limit limit esz s v then Some (v, rest) else None
    | None => None
    end.

(** below the limit the two readers are the same function *)
Definition decode_limited_agrees_below_limit_stmt : Prop :=
  forall limit esz c s bs,
    (forall v rest, decode c s bs = Some (v, rest) -> within_limit limit esz s v = true) ->
    decode_limited limit esz c s bs = decode c s bs.

Definition codec_roundtrip_within_limit_stmt : Prop :=
  forall limit esz c s v rest,
    schema_wf s = true -> has_schema s v -> within_limit limit esz s v = true ->
    decode_limited limit esz c s (encode c s v ++ rest) = Some (v, rest).

(** THE FORMER GAP: with the default limit the round trip fails for a legal
    value — a [Vec<u64>] of [limit / 8 + 1] words (a bit vector of more than
    33 554 432 bits: [core_reduces] of a 7200-state, 4800-production table) is
    written and read back by the unlimited codec and refused by the limited one,
    in both integer encodings *)
Definition codec_roundtrip_limited_refuted_stmt : Prop :=
  exists s v,
    schema_wf s = true /\ has_schema s v /\
    forall c rest,
      decode c s (encode c s v ++ rest) = Some (v, rest) /\
      decode_limited PREALLOC_LIMIT mem_size c s (encode c s v ++ rest) = None.

(** what the check uses when it is told that the limit is (again) in force:
    the build fails ([serialize] = Err) exactly when the limited reader refuses
    the bytes the unlimited writer produces; and when it does not fail,
    [_reconstitute] under the limit returns the value *)
Definition limited_build_fails_iff_stmt : Prop :=
  forall limit esz c s v rest,
    schema_wf s = true -> has_schema s v ->
    (serialize_limited limit esz c s v = None <->
     decode_limited limit esz c s (encode c s v ++ rest) = None) /\
    (serialize_limited limit esz c s v <> None ->
     reconstitute_limited limit esz c s (encode c s v ++ rest) = Done v).
