(* C13 — the run-time parser on an ERRONEOUS input, as far as the choice among equally ranked
   repair sequences is concerned (lrpar/src/lib/cpctplus.rs: recover, simplify_repairs; parser.rs:
   the parse loop applies `rnk_rprs[0]` and goes on).  Executable definitions only.

   PipelineModel.v takes the run-time parser as a FUNCTION [rt_parse] of (grammar, table, kind,
   entry point, input).  For the code pinned before /repo ca69cd1 that reading was too strong: the
   list `ParseError::repairs()` an error reports, and with it the sequence that is APPLIED (its
   head), the value and every later error, depended on the keys of a randomly seeded HashSet, i.e.
   on the RUN.  PipelineRunSpec.v therefore states the pipeline theorem per run (a relation) and
   separates what holds unconditionally (same SET of possible outcomes) from what needs the
   parser to be a function (same value, same errors, same repairs() lists on every input,
   erroneous ones included).  This file holds the executable part:

     found          the (stripped, duplicate-free) repair sequences the search finds for an error, in
                    the order in which it finds them — a function of (grammar, table, input): the
                    search (dijkstra.rs) iterates an IndexMap and vectors only;
     key            what simplify_repairs sorts on: (contains an %avoid_insert token, length);
     continue_with  the rest of the parse once a sequence (None: none found) has been applied:
                    value, later errors — everything else the run returns;
     stable_sort    `sort_by` (a stable sort; executable mirror: insertion sort, as C06/Model.v isort);
     rt_parse_fixed the run of the repaired code: insertion-ordered dedup + stable sort, head applied. *)
From Coq Require Import List NArith Bool Arith.
From GV Require Import Common.Outcome C14.Model C14.Schema_gen C14.Spec C13.Model C13.PipelineModel.
Import ListNotations.

Section Tied.
  Variables (input rseq rest : Type).
  Variable found : value -> value -> input -> list rseq.
  Variable key : rseq -> nat.
  Variable continue_with : value -> value -> recovery -> entry -> input -> option rseq -> rest.

  (* x goes before the first element whose key is not smaller: an element found earlier stays
     before the elements of the same key found later *)
  Fixpoint insert_stable (x : rseq) (l : list rseq) : list rseq :=
    match l with
    | [] => [x]
    | y :: r => if key x <=? key y then x :: y :: r else y :: insert_stable x r
    end.

  Fixpoint stable_sort (l : list rseq) : list rseq :=
    match l with
    | [] => []
    | x :: r => insert_stable x (stable_sort r)
    end.

  (* one run, given the order [o] in which the error reports its sequences: the head is applied;
     the run returns (value and later errors, the repairs() list) *)
  Definition run_with_order (g t : value) (k : recovery) (e : entry) (i : input) (o : list rseq)
    : rest * list rseq :=
    (continue_with g t k e i (hd_error o), o).

  (* /repo ca69cd1: IndexSet (insertion order) + sort_by (stable) *)
  Definition rt_parse_fixed (g t : value) (k : recovery) (e : entry) (i : input) : rest * list rseq :=
    run_with_order g t k e i (stable_sort (found g t i)).
End Tied.

(* ---- the auditor's input (audit/1): `S -> String: 'a' {"A"} | 'b' {"B"};` on the empty input.
   The search finds Insert 'a' and Insert 'b'; both have the key (no %avoid_insert, length 1);
   applying the first gives Some("A"), the second Some("B"); no later error. ---- *)
Inductive aud_rseq := AudInsertA | AudInsertB.

Definition aud_found (_ _ : value) (_ : unit) : list aud_rseq := [AudInsertA; AudInsertB].
Definition aud_key (_ : aud_rseq) : nat := 1.
(* (value as code points, number of later errors) *)
Definition aud_continue (_ _ : value) (_ : recovery) (_ : entry) (_ : unit) (o : option aud_rseq)
  : option (list N) * nat :=
  match o with
  | Some AudInsertA => (Some [65%N], 0)
  | Some AudInsertB => (Some [66%N], 0)
  | None => (None, 0)
  end.
