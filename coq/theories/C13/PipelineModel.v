(* C13 — the COMPILE-TIME PIPELINE as a model over the C14 codec.

   Parser side (lrpar/src/lib/ctbuilder.rs, gen_parse_function :1281-1456, _reconstitute :1863-1874).
   CTParserBuilder::build builds the grammar and the state table with the SAME library
   functions the run-time pipeline calls (YaccGrammar::new_from_ast_with_validity_info,
   lrtable::from_yacc), serialises both with wincode in the configured format and writes
   into the generated module

       const __GRM_DATA: &[u8] = &[…];  const __STABLE_DATA: &[u8] = &[…];
       const __SERIALISATION_FORMAT: … = <format>;
       fn __lrpar_parser_data() -> &'static ParserData<StorageT> {            // OnceLock
           match __SERIALISATION_FORMAT {
             FixedSizeInteger     => _reconstitute(__GRM_DATA, __STABLE_DATA, …with_fixint_encoding()),
             VariableSizedInteger => _reconstitute(__GRM_DATA, __STABLE_DATA, …with_varint_encoding()), … } }
       pub fn parse(lexer, [param]) -> … {
           let __data = __lrpar_parser_data(); let grm = __data.grm(); let stable = __data.stable();
           ::lrpar::RTParserBuilder::new(grm, stable).recoverer(<kind>).parse_actions(lexer, &actions, param)
                                                              // or .parse_map(lexer, &Node::Term.., &Node::Nonterm..)
                                                              // or .parse_map(lexer, &|_| (), &|_, _| ()).1
       }

   The run-time pipeline calls `RTParserBuilder::new(&grm, &stable).recoverer(kind).parse_…`
   on the objects it has just built.  So the claim "compile time = run time" is: the
   generated module calls the same library code on the RECONSTITUTED objects, and
   reconstitution gives the objects back (C14).  In this model

     * a grammar / state table is a [value] of C14/Model.v (plain data: every public query,
       and the parser, is a function of the fields — C14/Spec.v);
     * the run-time library is a SECTION PARAMETER [rt_parse]: ANY function of the two values,
       the recovery kind, the entry point and the input.  Nothing is assumed about it;
     * [generate] = what gen_parse_function writes; [ct_parse] = what the generated
       `parse()` computes: decode both constants ([reconstitute] of C14/Spec.v =
       `deserialize_from(..).unwrap()`, [Panic] when it fails) and call [rt_parse].

   Lexer side (lrlex/src/lib/ctbuilder.rs :803-870, lexer.rs Rule::new :241-290, from_rules :409-419).
   CTLexerBuilder builds the lexer definition with from_str / new_with_options +
   set_rule_ids (the run-time functions), reads every rule back through the accessors and
   writes `Rule::new(api, <tok_id>, <name>, <name_span>, <re_str>, vec![<start states>],
   <target_state>, &lex_flags).unwrap()` per rule, the start states as
   `StartState::new(<id>, <name>, <exclusive>, <name_span>)`, the twelve flags as quoted
   options (C13/Model.v [regen]), and `LRNonStreamingLexerDef::from_rules(start_states, rules)`.
   A rule = its source fields + the compiled regex; the regex compiler is a section
   parameter [compile] (any partial function of the regex text and the flags).  Lexing reads
   only `rules` and `start_states` (lexer.rs: the `lex_flags` field is read by nothing but
   ctbuilder's own `lex_flags()` accessor; the generated definition stores
   DEFAULT_LEX_FLAGS there, the run-time one the header's flags) — [lexerdef] is that pair.

   ASSUMED BY THIS MODEL about the generated text, and where each fact is CHECKED
   (checks/C13.py, obligation "generated parse()/lexerdef() text"; every generated module):
     (P1) the module has exactly one __GRM_DATA and one __STABLE_DATA constant and they are
          used only as the two arguments, in this order, of `_reconstitute` — static check;
     (P2) __SERIALISATION_FORMAT is the configured format and each arm of
          __lrpar_parser_data decodes with the configuration of its format — static check;
     (P3) `parse()` takes grm / stable from __lrpar_parser_data() and contains exactly one
          `RTParserBuilder::new(grm, stable)`, followed by `.recoverer(<configured kind>)` and
          the entry point of the configured YaccKind — static check;
     (P4) the embedded bytes ARE the serialisation of the grammar and table the run-time
          pipeline builds from the same source — byte comparison with the run-time
          serialisation (harness c14) in the configured format;
     (P5) wincode's serialize / deserialize_from = [encode] / [decode] under the schema read
          off the Rust types, and built objects satisfy [has_schema] — C14's check (decoder
          consumes and re-encodes the implementation's bytes; schema regenerated each run);
     (L1) every `Rule::new(..)` of lexerdef() is built with `&lex_flags`, the variable the
          twelve quoted options are folded into, and lexerdef() returns
          `from_rules(start_states, rules)` — static check; the quoted options themselves
          are read back and evaluated by the model (existing flags correspondence);
     (L2) the quoted rule / start-state fields are read back by rustc as the values that were
          quoted (literal round trip of rustc; QuoteOption / QuoteToString / QuoteTuple) —
          NOT checked statically: decided by compile-and-run (pipeline correspondence);
     (A)  the action wrappers and `$`-substitution — C13/Model.v (i), (ii);
     (R)  rustc compiles the module to what its text says — trusted.

   Executable definitions only. *)
From Coq Require Import List NArith Bool.
From GV Require Import Common.Outcome C14.Model C14.Schema_gen C14.Spec C13.Model.
Import ListNotations.

(* ---- parser side ---------------------------------------------------------------------- *)

(* lrpar::RecoveryKind *)
Inductive recovery := RNone | RCPCTPlus.

(* which RTParserBuilder method the generated parse() calls: parse_actions (Grmtools /
   Original(UserAction)), parse_map building Node (Original(GenericParseTree)), parse_map
   building () (Original(NoAction)) *)
Inductive entry := EActions | EGenericTree | ENoAction.

(* what gen_parse_function leaves in the generated file *)
Record gmodule := mkModule {
  m_format : cfg;               (* __SERIALISATION_FORMAT *)
  m_grm_data : list N;          (* __GRM_DATA *)
  m_stable_data : list N;       (* __STABLE_DATA *)
  m_kind : recovery;            (* .recoverer(#recoverer) *)
  m_entry : entry
}.

Section Parser.
  Variables (input result : Type).
  (* schemas of YaccGrammar<StorageT> and StateTable<StorageT> *)
  Variables (sg st : schema).
  (* the run-time parser: RTParserBuilder::new(&grm, &stable).recoverer(kind).parse_…(lexer, …) *)
  Variable rt_parse : value -> value -> recovery -> entry -> input -> result.

  (* gen_parse_function: serialise in the configured format, embed *)
  Definition generate (fmt : cfg) (kind : recovery) (e : entry) (g t : value) : gmodule :=
    mkModule fmt (encode fmt sg g) (encode fmt st t) kind e.

  (* __lrpar_parser_data(): _reconstitute(__GRM_DATA, __STABLE_DATA, <config of the format>) *)
  Definition parser_data (m : gmodule) : outcome (value * value) :=
    do g <- reconstitute (m_format m) sg (m_grm_data m);
    do t <- reconstitute (m_format m) st (m_stable_data m);
    Done (g, t).

  (* the generated parse() *)
  Definition ct_parse (m : gmodule) (i : input) : outcome result :=
    do gt <- parser_data m;
    Done (rt_parse (fst gt) (snd gt) (m_kind m) (m_entry m) i).

  (* the form of the brief: bytes in, decode both, call the library *)
  Definition ct_parse_bytes (c : cfg) (bytes_g bytes_t : list N) (kind : recovery) (e : entry) (i : input)
    : outcome result :=
    match decode c sg bytes_g, decode c st bytes_t with
    | Some (g, _), Some (t, _) => Done (rt_parse g t kind e i)
    | _, _ => Panic
    end.
End Parser.

(* ---- lexer side ------------------------------------------------------------------------ *)

(* lrlex::StartStateOperation *)
Inductive ssop := OpReplaceStack | OpPush | OpPop.

(* the fields of a Rule other than the compiled regex (texts as code points) *)
Record rule_src := mkRuleSrc {
  rs_tok_id : option N;
  rs_name : option (list N);
  rs_name_span : N * N;
  rs_re_str : list N;
  rs_start_states : list N;
  rs_target_state : option (N * ssop)
}.

(* lrlex::StartState *)
Record start_state := mkStartState {
  ss_id : N; ss_name : list N; ss_exclusive : bool; ss_name_span : N * N
}.

(* the text ctbuilder writes for one rule / one start state, as rustc reads it back: each
   field through its quoting adapter (assumption L2: the adapters are faithful) *)
Record quoted_rule := mkQRule {
  q_tok_id : quoted N;
  q_name : quoted (list N);
  q_name_span : N * N;
  q_re_str : list N;
  q_start_states : list N;
  q_target_state : quoted (N * ssop)
}.

Definition quote_rule_src (s : rule_src) : quoted_rule :=
  mkQRule (quote_option (rs_tok_id s)) (quote_option (rs_name s)) (rs_name_span s) (rs_re_str s)
          (rs_start_states s) (quote_option (rs_target_state s)).

Definition unquote_rule (q : quoted_rule) : rule_src :=
  mkRuleSrc (unquote (q_tok_id q)) (unquote (q_name q)) (q_name_span q) (q_re_str q)
            (q_start_states q) (unquote (q_target_state q)).

(* `StartState::new(#id, #name, #exclusive, #name_span)`: the argument list of the quoted
   constructor call, and StartState::new reading it *)
Definition quote_start_state (s : start_state) : N * list N * bool * (N * N) :=
  (ss_id s, ss_name s, ss_exclusive s, ss_name_span s).
Definition start_state_new (a : N * list N * bool * (N * N)) : start_state :=
  match a with (id, name, excl, span) => mkStartState id name excl span end.

(* the whole generated lexerdef() *)
Record quoted_lexerdef := mkQLexerdef {
  ql_flags : quoted_flags;
  ql_start_states : list (N * list N * bool * (N * N));
  ql_rules : list quoted_rule
}.

Section Lexer.
  Variable RE : Type.
  (* RegexBuilder::new("\\A(?:re)")…build(): None = Err(regex::Error) *)
  Variable compile : list N -> lexflags -> option RE.

  Record rule := mkRule { r_src : rule_src; r_re : RE }.

  (* the part of a lexer definition lexing reads *)
  Record lexerdef := mkLexerdef { ld_start_states : list start_state; ld_rules : list rule }.

  (* Rule::new: the three unwraps ([rule_new_flags], C13/Model.v), then the regex build;
     [Done None] = Err(regex::Error) *)
  Definition rule_new (s : rule_src) (f : lexflags) : outcome (option rule) :=
    do f' <- rule_new_flags f;
    Done (option_map (mkRule s) (compile (rs_re_str s) f')).

  (* set_rule_ids: overwrites tok_id of a built rule ([assign]: any function of the rule's
     fields — the map look-up by name) and nothing else *)
  Definition set_tok_id (assign : rule_src -> option N) (r : rule) : rule :=
    let s := r_src r in
    mkRule (mkRuleSrc (assign s) (rs_name s) (rs_name_span s) (rs_re_str s) (rs_start_states s)
                      (rs_target_state s)) (r_re r).

  (* ---- run time: from_str / new_with_options (rules built with the FILLED flags,
     parser.rs:169-181), then set_rule_ids.  [Done None] = the specification is rejected
     (Err: outside the property's domain) *)
  Fixpoint build_rules (f : lexflags) (srcs : list rule_src) : outcome (option (list rule)) :=
    match srcs with
    | [] => Done (Some [])
    | s :: srcs' =>
        do r <- rule_new s f;
        do rs <- build_rules f srcs';
        Done (match r, rs with Some r', Some rs' => Some (r' :: rs') | _, _ => None end)
    end.

  Definition rt_lexerdef (h : lexflags) (starts : list start_state) (srcs : list rule_src)
    (assign : rule_src -> option N) : outcome (option lexerdef) :=
    do rs <- build_rules (fill h) srcs;
    Done (option_map (fun rs' => mkLexerdef starts (map (set_tok_id assign) rs')) rs).

  (* ---- compile time: CTLexerBuilder holds that very definition (and the header flags [h],
     stored unfilled); what it writes *)
  Definition quote_lexerdef (h : lexflags) (ld : lexerdef) : quoted_lexerdef :=
    mkQLexerdef (quote_flags h) (map quote_start_state (ld_start_states ld))
                (map (fun r => quote_rule_src (r_src r)) (ld_rules ld)).

  (* ... and what the generated lexerdef() computes: `.unwrap()` of every Rule::new *)
  Fixpoint unwrap_rules (f : lexflags) (qs : list quoted_rule) : outcome (list rule) :=
    match qs with
    | [] => Done []
    | q :: qs' =>
        do r <- rule_new (unquote_rule q) f;
        match r with
        | None => Panic
        | Some r' => do rs <- unwrap_rules f qs'; Done (r' :: rs)
        end
    end.

  Definition ct_lexerdef (q : quoted_lexerdef) : outcome lexerdef :=
    let lex_flags := run_generated_flags (ql_flags q) in
    do rs <- unwrap_rules lex_flags (ql_rules q);
    Done (mkLexerdef (map start_state_new (ql_start_states q)) rs).

  (* lexing: any function of the definition and the input *)
  Variables (linput lresult : Type).
  Variable rt_lex : lexerdef -> linput -> lresult.

  Definition ct_lex (q : quoted_lexerdef) (i : linput) : outcome lresult :=
    do ld <- ct_lexerdef q; Done (rt_lex ld i).
End Lexer.

Arguments mkRule {RE} r_src r_re.
Arguments r_src {RE} r.
Arguments r_re {RE} r.
Arguments mkLexerdef {RE} ld_start_states ld_rules.
Arguments ld_start_states {RE} l.
Arguments ld_rules {RE} l.
