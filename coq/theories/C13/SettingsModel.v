(* C13 / C18 — "the settings in force": mirror of the header sequence at the top of
   CTParserBuilder::build_inner (lrpar/src/lib/ctbuilder.rs), on top of the MarkMap mirror
   C12/MarkMapModel.v.  Values are abstract (V); keys are the byte strings of the code, so the
   Vec order is the real one: "recoverer" < "serialisation_format" < "yacckind".

     let mut header = Header::new();
     match header.entry("yacckind") { Occupied => unreachable!(),
        Vacant(v) => match self.yacckind { Some(yk) => { let mut o = v.insert_entry(..); o.set_merge_behavior(Ours) }
                                           None => v.mark_required() } }
     if let Some(r) = self.recoverer            { entry("recoverer"): insert_entry + set_merge_behavior(Ours) }
     if let Some(e) = self.serialisation_format { entry("serialisation_format"): the same }
     header.merge_from(parsed_header)?;
     yacckind = header.get("yacckind"); header.mark_used("yacckind");          (None: Err("Missing 'yacckind'") unless from_ast)
     header.mark_used("recoverer"); recoverer = header.get("recoverer") or CPCTPlus;
     header.mark_used("serialisation_format"); serialisation_format = header.get(..) or VariableSizedInteger;
     ... header.unused() (non-empty: "Unused keys in header" error) ... header.missing() (non-empty: error)

   Definitions only. *)
From Coq Require Import List NArith Bool.
From GV Require Import Common.Outcome C12.MarkMapModel.
Import ListNotations.
Local Open Scope N_scope.

Definition K_YACCKIND : mkey := [121; 97; 99; 99; 107; 105; 110; 100].
Definition K_RECOVERER : mkey := [114; 101; 99; 111; 118; 101; 114; 101; 114].
Definition K_SERFMT : mkey :=
  [115; 101; 114; 105; 97; 108; 105; 115; 97; 116; 105; 111; 110; 95; 102; 111; 114; 109; 97; 116].

Section Settings.
Variable V : Type.

(* what the builder was given (CTParserBuilder::yacckind / recoverer / serialisation_format) *)
Record builder := MkB { b_yacckind : option V; b_recoverer : option V; b_serfmt : option V }.

(* Vacant(v) => { let mut o = v.insert_entry(val); o.set_merge_behavior(Ours); }   Occupied => unreachable!() *)
Definition give (h : markmap V) (k : mkey) (v : V) : outcome (markmap V) :=
  do e <- mm_entry V h k;
  match e with
  | EOcc _ => Panic
  | EVac found p => do h1 <- vac_insert V h found p k v; occ_mark V h1 p (fun r => set_mb_repr r Ours)
  end.

(* Vacant(v) => v.mark_required() *)
Definition require (h : markmap V) (k : mkey) : outcome (markmap V) :=
  do e <- mm_entry V h k;
  match e with
  | EOcc _ => Panic
  | EVac found p => vac_mark V h found p k (fun r => N.lor r M_REQUIRED)
  end.

Definition setup (b : builder) : outcome (markmap V) :=
  do h1 <- match b_yacckind b with Some v => give (mm_new V) K_YACCKIND v | None => require (mm_new V) K_YACCKIND end;
  do h2 <- match b_recoverer b with Some v => give h1 K_RECOVERER v | None => Done h1 end;
  match b_serfmt b with Some v => give h2 K_SERFMT v | None => Done h2 end.

(* SMergeErr: `header.merge_from(parsed_header)?` returned Err(Exclusivity(k, v));
   SDone yk rk sf unused missing: the three `get`s (None = no value in force), then unused() and missing() *)
Inductive sres :=
| SMergeErr (k : mkey) (v : V)
| SDone (yk rk sf : option V) (unused missing : list mkey).

Definition settings_run (b : builder) (section : markmap V) : outcome sres :=
  do h0 <- setup b;
  do r <- mm_merge_from V h0 section;
  match fst r with
  | Some (k, v) => Done (SMergeErr k v)
  | None =>
      let h1 := snd r in
      do yk <- mm_get V h1 K_YACCKIND;
      do h2 <- mm_mark_used V h1 K_YACCKIND;
      do h3 <- mm_mark_used V h2 K_RECOVERER;
      do rk <- mm_get V h3 K_RECOVERER;
      do h4 <- mm_mark_used V h3 K_SERFMT;
      do sf <- mm_get V h4 K_SERFMT;
      Done (SDone yk rk sf (mm_unused V h4) (mm_missing V h4))
  end.

(* what the builder goes on with: the documented fallbacks *)
Inductive in_force := Given (v : V) | Fallback_CPCTPlus | Fallback_VariableSizedInteger | Error_MissingYacckind.
Definition yacckind_in_force (o : option V) : in_force := match o with Some v => Given v | None => Error_MissingYacckind end.
Definition recoverer_in_force (o : option V) : in_force := match o with Some v => Given v | None => Fallback_CPCTPlus end.
Definition serfmt_in_force (o : option V) : in_force := match o with Some v => Given v | None => Fallback_VariableSizedInteger end.

(* the parsed %grmtools section as GrmtoolsSectionParser builds it: new() and `entry.insert` on Vacant entries only *)
Fixpoint section_of (kvs : list (mkey * V)) (s : markmap V) : outcome (markmap V) :=
  match kvs with
  | [] => Done s
  | (k, v) :: t => do r <- mm_insert V s k v; section_of t (snd r)
  end.

End Settings.
