(* C13 / C18 — statements about the settings sequence (C13/SettingsModel.v).  Statements only. *)
From Coq Require Import List NArith Bool Sorted.
From GV Require Import Common.Outcome C12.MarkMapModel C12.MarkMapSpec C13.SettingsModel.
Import ListNotations.
Local Open Scope N_scope.

(* a parsed section: sorted, every entry has a value and no marks (built by inserts only: [section_of_parsed]) *)
Definition parsed_section {V} (s : markmap V) : Prop :=
  mm_sorted s /\ Forall (fun e => e_mark V e = 0 /\ is_some (e_val V e) = true) (mm_contents s).
Definition sec_val {V} (s : markmap V) (k : mkey) : option V := abs_val (abs s k).
Definition pick {V} (a b : option V) : option V := match a with Some v => Some v | None => b end.
Definition is_setting_key (k : mkey) : bool := mkey_eqb K_YACCKIND k || mkey_eqb K_RECOVERER k || mkey_eqb K_SERFMT k.

Definition section_of_parsed_stmt : Prop :=
  forall V (kvs : list (mkey * V)), exists s, section_of V kvs (mm_new V) = Done s /\ parsed_section s.

(* the whole sequence, for every builder and every parsed section: never a panic, never a merge error; each of the three
   settings = the builder's when given, else the section's; unused() = the section's keys other than the three, in key
   order; missing() is non-empty exactly when no yacckind is in force (then it is [yacckind]) *)
Definition settings_in_force_stmt : Prop :=
  forall V (b : builder V) (s : markmap V), parsed_section s ->
    exists u m,
      settings_run V b s = Done (SDone V (pick (b_yacckind V b) (sec_val s K_YACCKIND))
                                         (pick (b_recoverer V b) (sec_val s K_RECOVERER))
                                         (pick (b_serfmt V b) (sec_val s K_SERFMT)) u m)
      /\ u = filter (fun k => negb (is_setting_key k)) (mm_keys V s)
      /\ m = (if is_some (pick (b_yacckind V b) (sec_val s K_YACCKIND)) then [] else [K_YACCKIND]).

Definition settings_merge_never_conflicts_stmt : Prop :=
  forall V (b : builder V) (s : markmap V), parsed_section s ->
    exists yk rk sf u m, settings_run V b s = Done (SDone V yk rk sf u m).

Definition builder_setting_wins_stmt : Prop :=
  forall V (b : builder V) (s : markmap V), parsed_section s ->
    exists yk rk sf u m, settings_run V b s = Done (SDone V yk rk sf u m)
      /\ (forall v, b_yacckind V b = Some v -> yacckind_in_force V yk = Given V v)
      /\ (forall v, b_recoverer V b = Some v -> recoverer_in_force V rk = Given V v)
      /\ (forall v, b_serfmt V b = Some v -> serfmt_in_force V sf = Given V v).

Definition section_setting_used_otherwise_stmt : Prop :=
  forall V (b : builder V) (s : markmap V), parsed_section s ->
    exists yk rk sf u m, settings_run V b s = Done (SDone V yk rk sf u m)
      /\ (b_yacckind V b = None ->
            yacckind_in_force V yk = match sec_val s K_YACCKIND with Some v => Given V v | None => Error_MissingYacckind V end)
      /\ (b_recoverer V b = None ->
            recoverer_in_force V rk = match sec_val s K_RECOVERER with Some v => Given V v | None => Fallback_CPCTPlus V end)
      /\ (b_serfmt V b = None ->
            serfmt_in_force V sf = match sec_val s K_SERFMT with Some v => Given V v | None => Fallback_VariableSizedInteger V end).

(* unused() after the three mark_used: exactly the section's keys other than the three, in the section's (key) order *)
Definition unknown_keys_reported_stmt : Prop :=
  forall V (b : builder V) (s : markmap V), parsed_section s ->
    exists yk rk sf u m, settings_run V b s = Done (SDone V yk rk sf u m)
      /\ u = filter (fun k => negb (is_setting_key k)) (map (e_key V) (mm_contents s))
      /\ StronglySorted key_lt u
      /\ (m <> [] <-> yk = None).

(* the two latent MarkMap defects need (a) a deciding behaviour Theirs in self and (b) a key of [other] that carries a mark
   but no value.  Neither exists here: the builder's header has default MutuallyExclusive and per-key behaviour Ours or
   none; a parsed section has a value on every key, and `for (k,v) in &section` sees all its keys *)
Definition settings_never_use_theirs_stmt : Prop :=
  forall V (b : builder V), exists h0, setup V b = Done h0 /\ mm_sorted h0 /\ mm_default h0 = MutEx
    /\ Forall (fun e => deciding_mb (mm_default h0) (e_mark V e) <> M_MB Theirs
                        /\ (N.land (e_mark V e) MERGE_REPRS = 0 \/ N.land (e_mark V e) MERGE_REPRS = M_MB Ours))
              (mm_contents h0).
Definition section_has_no_bare_marks_stmt : Prop :=
  forall V (s : markmap V), parsed_section s ->
    (forall k, abs s k = None \/ exists v, abs s k = Some (0, Some v))
    /\ map fst (mm_iter V s) = mm_keys V s
    /\ mm_keys V s = map (e_key V) (mm_contents s).
