(* C13 — proofs of PipelineRunSpec.v. *)
From Coq Require Import List NArith Bool Arith Lia Sorting.Sorted Sorting.Permutation.
From GV Require Import Common.Outcome C14.Model C14.Schema_gen C14.Spec C14.Proofs
  C13.Model C13.PipelineModel C13.PipelineSpec C13.PipelineProofs C13.PipelineRunModel C13.PipelineRunSpec.
Import ListNotations.

(* ---- per run ------------------------------------------------------------------------------ *)

Lemma ct_runs_are_rt_runs : ct_runs_are_rt_runs_stmt.
Proof.
  intros input result rt_run w fmt kind e g t i r Vg Vt. unfold ct_run.
  rewrite (parser_data_reconstitutes w fmt kind e g t Vg Vt). cbn [generate m_kind m_entry].
  split.
  - intros (g' & t' & H & Hr). injection H as Hg' Ht'. subst g' t'. exact Hr.
  - intros Hr. exists g, t. split; [reflexivity|exact Hr].
Qed.

Lemma ct_equals_rt_value : ct_equals_rt_value_stmt.
Proof.
  intros input val err rt_run Hdet w fmt kind e g t i r_ct r_rt Vg Vt Hct Hrt.
  apply (ct_runs_are_rt_runs input _ rt_run w fmt kind e g t i r_ct Vg Vt) in Hct.
  exact (Hdet g t kind e i r_ct r_rt Hct Hrt).
Qed.

Lemma graph_determined : graph_determined_stmt.
Proof. intros input result rt_parse g t k e i r1 r2 H1 H2. rewrite H1, H2. reflexivity. Qed.

(* the function form follows from the per-run form (same statement as PipelineProofs.ct_equals_rt) *)
Example ct_equals_rt_from_value (input val err : Type)
  (rt_parse : value -> value -> recovery -> entry -> input -> option val * list err) w fmt kind e g t i :
  has_schema (yacc_grammar_schema w) g -> has_schema (state_table_schema w) t ->
  forall r, ct_run input _ (yacc_grammar_schema w) (state_table_schema w) (fun g t k e i r => r = rt_parse g t k e i)
                   (generate (yacc_grammar_schema w) (state_table_schema w) fmt kind e g t) i r ->
            r = rt_parse g t kind e i.
Proof.
  intros Vg Vt r Hct.
  exact (ct_equals_rt_value input val err _ (graph_determined input _ rt_parse) w fmt kind e g t i r _ Vg Vt Hct eq_refl).
Qed.

(* non-vacuity: objects of the generated schemas exist and the generated parse() has an outcome *)
Example ct_run_nonvacuous (input result : Type) (rt_parse : value -> value -> recovery -> entry -> input -> result)
  w fmt kind e i :
  ct_run input result (yacc_grammar_schema w) (state_table_schema w) (fun g t k e i r => r = rt_parse g t k e i)
         (generate (yacc_grammar_schema w) (state_table_schema w) fmt kind e
            (default_value (yacc_grammar_schema w)) (default_value (state_table_schema w))) i
         (rt_parse (default_value (yacc_grammar_schema w)) (default_value (state_table_schema w)) kind e i).
Proof.
  apply (ct_runs_are_rt_runs input result _ w fmt kind e _ _ i _
           (default_grammar_has_schema w) (default_table_has_schema w)).
  reflexivity.
Qed.

(* ---- the stable sort ---------------------------------------------------------------------- *)

Section SortProofs.
  Variable rseq : Type.
  Variable key : rseq -> nat.
  Let le_key := fun a b : rseq => key a <= key b.

  Lemma insert_stable_perm x : forall l, Permutation (x :: l) (insert_stable rseq key x l).
  Proof.
    induction l as [|y r IH]; cbn [insert_stable]; [apply Permutation_refl|].
    destruct (key x <=? key y); [apply Permutation_refl|].
    eapply Permutation_trans; [apply perm_swap|]. apply perm_skip. exact IH.
  Qed.

  Lemma stable_sort_perm : forall l, Permutation l (stable_sort rseq key l).
  Proof.
    induction l as [|x r IH]; cbn [stable_sort]; [constructor|].
    eapply Permutation_trans; [apply perm_skip; exact IH|]. apply insert_stable_perm.
  Qed.

  Lemma insert_stable_hdrel a x : forall l,
    le_key a x -> HdRel le_key a l -> HdRel le_key a (insert_stable rseq key x l).
  Proof.
    intros l Hax Hl. destruct l as [|y r]; cbn [insert_stable]; [constructor; exact Hax|].
    destruct (key x <=? key y); constructor; [exact Hax|]. inversion Hl; assumption.
  Qed.

  Lemma insert_stable_sorted x : forall l, Sorted le_key l -> Sorted le_key (insert_stable rseq key x l).
  Proof.
    induction l as [|y r IH]; intros Hs; cbn [insert_stable]; [repeat constructor|].
    destruct (key x <=? key y) eqn:E.
    - constructor; [exact Hs|]. constructor. apply Nat.leb_le in E. exact E.
    - apply Nat.leb_gt in E. inversion Hs as [|? ? Hr Hh]; subst. constructor; [exact (IH Hr)|].
      apply insert_stable_hdrel; [unfold le_key; lia|exact Hh].
  Qed.

  Lemma stable_sort_sorted : forall l, StronglySorted le_key (stable_sort rseq key l).
  Proof.
    intros l. apply Sorted_StronglySorted.
    - intros a b c Hab Hbc. unfold le_key in *. lia.
    - induction l as [|x r IH]; cbn [stable_sort]; [constructor|]. apply insert_stable_sorted. exact IH.
  Qed.

  Lemma insert_stable_tied x : forall l,
    (forall y, In y l -> key x = key y) -> insert_stable rseq key x l = x :: l.
  Proof.
    intros [|y r] H; cbn [insert_stable]; [reflexivity|].
    rewrite (H y (or_introl eq_refl)). rewrite Nat.leb_refl. reflexivity.
  Qed.

  Lemma stable_sort_tied : forall l,
    (forall x y, In x l -> In y l -> key x = key y) -> stable_sort rseq key l = l.
  Proof.
    induction l as [|x r IH]; intros H; cbn [stable_sort]; [reflexivity|].
    rewrite IH; [|intros a b Ha Hb; apply H; right; assumption].
    apply insert_stable_tied. intros y Hy. apply H; [left; reflexivity|right; exact Hy].
  Qed.
End SortProofs.

Lemma tied_keep_found_order : tied_keep_found_order_stmt.
Proof. intros rseq key l H. exact (stable_sort_tied rseq key l H). Qed.

Lemma fixed_run_determined : fixed_run_determined_stmt.
Proof.
  intros input rseq rest found key continue_with g t k e i r1 r2 H1 H2.
  unfold rt_run_fixed in *. rewrite H1, H2. reflexivity.
Qed.

Lemma fixed_refines_pinned : fixed_refines_pinned_stmt.
Proof.
  intros input rseq rest found key continue_with g t k e i r H. unfold rt_run_fixed, rt_parse_fixed in H.
  exists (stable_sort rseq key (found g t i)). split; [apply stable_sort_perm|].
  split; [apply stable_sort_sorted|exact H].
Qed.

(* ---- the auditor's input ------------------------------------------------------------------- *)

Lemma aud_sorted o : key_sorted aud_rseq aud_key o.
Proof.
  unfold key_sorted. induction o as [|x o IH]; constructor; [exact IH|].
  apply Forall_forall. intros y _. unfold aud_key. lia.
Qed.

Lemma aud_pinned_A g t k e :
  rt_run_pinned unit aud_rseq _ aud_found aud_key aud_continue g t k e tt
    ((Some [65%N], 0), [AudInsertA; AudInsertB]).
Proof.
  exists [AudInsertA; AudInsertB]. split; [apply Permutation_refl|]. split; [apply aud_sorted|reflexivity].
Qed.

Lemma aud_pinned_B g t k e :
  rt_run_pinned unit aud_rseq _ aud_found aud_key aud_continue g t k e tt
    ((Some [66%N], 0), [AudInsertB; AudInsertA]).
Proof.
  exists [AudInsertB; AudInsertA]. split; [apply perm_swap|]. split; [apply aud_sorted|reflexivity].
Qed.

Lemma ct_equals_rt_value_refuted : ct_equals_rt_value_refuted_stmt.
Proof.
  exists St32, Var, RCPCTPlus, EActions,
         (default_value (yacc_grammar_schema St32)), (default_value (state_table_schema St32)), tt,
         ((Some [65%N], 0), [AudInsertA; AudInsertB]), ((Some [66%N], 0), [AudInsertB; AudInsertA]).
  split; [apply default_grammar_has_schema|]. split; [apply default_table_has_schema|].
  split.
  - apply (ct_runs_are_rt_runs unit _ _ St32 Var RCPCTPlus EActions _ _ tt _
             (default_grammar_has_schema St32) (default_table_has_schema St32)).
    apply aud_pinned_A.
  - split; [apply aud_pinned_B|]. split; [reflexivity|]. split; [reflexivity|].
    intros Hdet.
    pose proof (Hdet (VInt 0) (VInt 0) RCPCTPlus EActions tt _ _
                  (aud_pinned_A _ _ _ _) (aud_pinned_B _ _ _ _)) as H.
    discriminate H.
Qed.

Lemma aud_fixed_value : aud_fixed_value_stmt.
Proof.
  intros w fmt kind e g t r_ct r_rt Vg Vt Hct Hrt.
  apply (ct_runs_are_rt_runs unit _ _ w fmt kind e g t tt r_ct Vg Vt) in Hct.
  unfold rt_run_fixed in *. rewrite Hct, Hrt. split; [reflexivity|]. split; reflexivity.
Qed.
