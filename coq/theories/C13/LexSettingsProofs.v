(* C13 / C18 — proofs of the statements of C13/LexSettingsSpec.v. *)
From Coq Require Import List NArith Bool Sorted Lia.
From GV Require Import Common.Outcome C12.MarkMapModel C12.MarkMapSpec C12.MarkMapProofs
  C13.SettingsModel C13.SettingsSpec C13.SettingsProofs C13.LexSettingsModel C13.LexSettingsSpec.
Import ListNotations.
Local Open Scope N_scope.

Lemma ss_filter : forall (P : mkey -> bool) l, StronglySorted key_lt l -> StronglySorted key_lt (filter P l).
Proof.
  induction 1 as [|a l S IH F]; simpl; [constructor|]. destruct (P a); auto. constructor; auto.
  rewrite Forall_forall in *. intros x I. apply filter_In in I. destruct I; auto.
Qed.

Section LP.
Variable V : Type.

Lemma mark_get_all_spec : forall ks (h : markmap V), mm_sorted h ->
  exists h', mark_get_all V h ks = Done (h', map (fun k => abs_val (abs h k)) ks) /\ mm_sorted h'
    /\ (forall k', abs_val (abs h' k') = abs_val (abs h k'))
    /\ (forall k', has_bit (abs_mark (abs h' k')) M_USED
                   = existsb (fun k0 => mkey_eqb k0 k') ks || has_bit (abs_mark (abs h k')) M_USED).
Proof.
  induction ks as [|k t IH]; intros h S.
  - exists h. simpl. repeat split; auto.
  - cbn [mark_get_all map].
    destruct (mark_used_spec V h k S) as (h1 & E1 & S1 & V1 & U1 & _). rewrite E1. cbn [obind].
    destruct (markmap_get_spec_g V h1 k S1) as [G _]. rewrite G. cbn [obind].
    destruct (IH h1 S1) as (h' & E' & S' & V' & U'). rewrite E'. cbn [obind fst snd].
    exists h'. split.
    { rewrite V1. f_equal. f_equal. f_equal. apply map_ext. intros; rewrite V1; auto. }
    split; auto. split.
    + intros; rewrite V', V1; auto.
    + intros k'. rewrite U', U1. cbn [existsb].
      destruct (mkey_eqb k k'); destruct (existsb (fun k0 => mkey_eqb k0 k') t); simpl; auto.
Qed.

Definition lmerged (h0 s : markmap V) (k : mkey) : option (N * option V) :=
  match abs s k with None => abs h0 k | Some (tm, tv) => merge_point Ours (abs h0 k) tm tv end.

Lemma lmerged_val : forall h0 s k, parsed_section h0 -> parsed_section s ->
  abs_val (lmerged h0 s k) = pick (sec_val h0 k) (sec_val s k).
Proof.
  intros h0 s k P0 Ps. unfold lmerged, sec_val.
  destruct (parsed_abs V h0 k P0) as [E0|[v0 E0]]; destruct (parsed_abs V s k Ps) as [E|[v E]]; rewrite ?E0, ?E;
    vm_compute; reflexivity.
Qed.
Lemma lmerged_used : forall h0 s k, parsed_section h0 -> parsed_section s ->
  has_bit (abs_mark (lmerged h0 s k)) M_USED = false.
Proof.
  intros h0 s k P0 Ps. unfold lmerged.
  destruct (parsed_abs V h0 k P0) as [E0|[v0 E0]]; destruct (parsed_abs V s k Ps) as [E|[v E]]; rewrite ?E0, ?E;
    vm_compute; reflexivity.
Qed.

Theorem lex_settings_in_force_g : forall (lk : option V) (h0 s : markmap V), lex_header h0 -> parsed_section s ->
    exists u,
      lex_settings_run V lk h0 s
        = Done (LDone V (pick lk (pick (sec_val h0 K_LEXERKIND) (sec_val s K_LEXERKIND)))
                        (map (fun k => pick (sec_val h0 k) (sec_val s k)) FLAG_KEYS) u)
      /\ StronglySorted key_lt u
      /\ (forall k, In k u <-> (In k (mm_keys V h0) \/ In k (mm_keys V s)) /\ is_lex_key k = false).
Proof.
  intros lk h0 s [P0 D0] Ps. pose proof P0 as [S0 F0]. pose proof Ps as [Ss Fs].
  unfold lex_settings_run.
  destruct (markmap_merge_spec_g V h0 s S0 Ss) as (res & h1 & Em & S1 & _ & HH). cbv zeta in HH. destruct HH as [A1 Hres].
  rewrite Em. cbn [obind fst snd].
  destruct (merge_abs_noconf V (mm_default h0) (mm_contents s) (abs h0) Ss) as [F R].
  { intros te I. rewrite Forall_forall in Fs. destruct (Fs te I) as [M Iv]. rewrite M, D0.
    destruct (e_val V te) as [tv|]; try discriminate.
    destruct (parsed_abs V h0 (e_key V te) P0) as [E|[v E]]; rewrite E; vm_compute; discriminate. }
  rewrite F in Hres. destruct res as [[ek ev]|]; [contradiction|]. clear Hres.
  assert (A1' : forall k, abs h1 k = lmerged h0 s k).
  { intros k. rewrite A1, R, D0. reflexivity. }
  destruct (mark_get_all_spec (K_LEXERKIND :: FLAG_KEYS) h1 S1) as (h2 & E2 & S2 & V2 & U2).
  rewrite E2. cbn [obind fst snd map hd tl].
  assert (VAL : forall k, abs_val (abs h2 k) = pick (sec_val h0 k) (sec_val s k)).
  { intros k. rewrite V2, A1'. apply lmerged_val; auto. }
  assert (USED : forall k, has_bit (abs_mark (abs h2 k)) M_USED = is_lex_key k).
  { intros k. rewrite U2, A1', lmerged_used; auto. apply orb_false_r. }
  eexists. split.
  { f_equal. f_equal.
    - rewrite A1', lmerged_val; auto.
    - apply map_ext. intros k. rewrite A1', lmerged_val; auto. }
  destruct (markmap_unused_missing_spec_g V h2 S2) as (SU & _ & _ & IU & _).
  destruct (markmap_unused_missing_spec_g V h0 S0) as (_ & _ & _ & _ & _ & IK0).
  destruct (markmap_unused_missing_spec_g V s Ss) as (_ & _ & _ & _ & _ & IKs).
  split; auto. intros k. rewrite IU. split.
  - intros (r & v & E & B). pose proof (USED k) as U. pose proof (VAL k) as W. rewrite E in U, W. simpl in U, W.
    rewrite B in U. split; auto. unfold sec_val in W.
    destruct (parsed_abs V h0 k P0) as [E0|[v0 E0]]; destruct (parsed_abs V s k Ps) as [Es|[vs Es]];
      rewrite E0, Es in W; simpl in W; try discriminate.
    + right. apply IKs. eauto.
    + left. apply IK0. eauto.
    + left. apply IK0. eauto.
  - intros [I NK].
    assert (X : exists v, pick (sec_val h0 k) (sec_val s k) = Some v).
    { unfold sec_val. destruct I as [I|I]; [apply IK0 in I | apply IKs in I]; destruct I as (r' & v' & E'); rewrite E'; simpl.
      - eauto.
      - destruct (abs_val (abs h0 k)); simpl; eauto. }
    destruct X as [v X]. pose proof (VAL k) as W. rewrite X in W. apply val_some in W. destruct W as [r W].
    exists r, v. split; auto. pose proof (USED k) as U. rewrite W in U. simpl in U. congruence.
Qed.

Theorem lex_header_of_g : forall (kvs : list (mkey * V)) h0, lex_header h0 ->
  exists h, lex_header_of V kvs h0 = Done h /\ lex_header h.
Proof.
  induction kvs as [|[k v] t IH]; intros h0 [P D]. { simpl. exists h0. split; auto. split; auto. }
  cbn [lex_header_of]. pose proof P as [S _].
  destruct (markmap_insert_spec_g V h0 k v S) as (old & m' & E & S' & D' & _ & _).
  destruct (section_of_parsed_g V [(k, v)] h0 P) as (s1 & E1 & P1). cbn [section_of] in E1. rewrite E in E1. cbn [obind snd] in E1.
  inversion E1; subst s1. rewrite E. cbn [obind snd]. apply IH. split; auto. congruence.
Qed.

End LP.

Theorem lex_settings_in_force : lex_settings_in_force_stmt.
Proof. exact lex_settings_in_force_g. Qed.

Theorem lex_settings_merge_never_conflicts : lex_settings_merge_never_conflicts_stmt.
Proof. intros V lk h0 s H P. destruct (lex_settings_in_force_g V lk h0 s H P) as (u & E & _). eauto. Qed.

Theorem lex_unknown_keys_reported : lex_unknown_keys_reported_stmt.
Proof.
  intros V lk h0 s H P FK. destruct (lex_settings_in_force_g V lk h0 s H P) as (u & E & SU & IU).
  eexists _, _, _. split; [exact E|].
  destruct (markmap_unused_missing_spec_g V s (proj1 P)) as (_ & _ & SK & _).
  assert (X : u = filter (fun k => negb (is_lex_key k)) (mm_keys V s)).
  { apply sorted_ext; auto. { apply ss_filter; auto. }
    intros k. rewrite IU, filter_In, negb_true_iff. split.
    - intros [[I|I] NK]; auto. rewrite Forall_forall in FK. rewrite (FK k I) in NK. discriminate.
    - intros [I NK]. auto. }
  split; auto.
Qed.

Theorem lex_header_of_builder : lex_header_of_builder_stmt.
Proof.
  intros V kvs. apply lex_header_of_g. split; [|reflexivity]. split; [apply new_sorted | constructor].
Qed.

(* ---- instances (non-vacuity) ---- *)
Definition ex_lex_header : markmap N := MkMM Ours [(K_OCTAL, 0, Some 1); (K_UNICODE, 0, Some 2)].
Definition ex_lex_section : markmap N := MkMM MutEx [(K_LEXERKIND, 0, Some 5); (K_OCTAL, 0, Some 3); (K_ZZZ, 0, Some 9)].
Example ex_lex_header_ok : lex_header ex_lex_header.
Proof. split; [split; [apply sorted_dec_ok; vm_compute; reflexivity | repeat constructor] | reflexivity]. Qed.
Example ex_lex_header_built : lex_header_of N [(K_UNICODE, 2); (K_OCTAL, 1)] (lex_header_new N) = Done ex_lex_header.
Proof. vm_compute. reflexivity. Qed.
Example ex_lex_section_parsed : parsed_section ex_lex_section.
Proof. split; [apply sorted_dec_ok; vm_compute; reflexivity | repeat constructor]. Qed.
(* no lexerkind on the builder: the section's 5 is in force; octal: the builder's 1 wins over the section's 3, no conflict;
   unicode from the builder; zzz is reported *)
Example ex_lex_settings_run :
  lex_settings_run N None ex_lex_header ex_lex_section
  = Done (LDone N (Some 5) [None; None; Some 1; None; None; None; None; None; Some 2; None; None; None] [K_ZZZ]).
Proof. vm_compute. reflexivity. Qed.
(* the builder's lexerkind FIELD (7) wins; the section's lexerkind key is marked used all the same (not reported) *)
Example ex_lex_builder_lexerkind_wins :
  lex_settings_run N (Some 7) ex_lex_header ex_lex_section
  = Done (LDone N (Some 7) [None; None; Some 1; None; None; None; None; None; Some 2; None; None; None] [K_ZZZ]).
Proof. vm_compute. reflexivity. Qed.
(* nobody gives lexerkind: None = the default LRNonStreamingLexer *)
Example ex_lex_default_lexerkind :
  lex_settings_run N None ex_lex_header (MkMM MutEx []) 
  = Done (LDone N None [None; None; Some 1; None; None; None; None; None; Some 2; None; None; None] []).
Proof. vm_compute. reflexivity. Qed.
(* the hypothesis matters: WITHOUT set_default_merge_behavior(Ours) (default MutuallyExclusive) a flag set on both sides
   is the Exclusivity error, with the section's value *)
Example ex_lex_without_ours_conflicts :
  lex_settings_run N None (MkMM MutEx (mm_contents ex_lex_header)) ex_lex_section = Done (LMergeErr N K_OCTAL 3).
Proof. vm_compute. reflexivity. Qed.
