(* C13 — what the correspondence check evaluates on the model side. *)
From Coq Require Import List Arith NArith Bool.
From GV Require Import Common.Outcome C13.Model.
Import ListNotations.

(* the scanner on one action text; [extra] lists the non-ASCII characters of
   the text that char::is_numeric accepts *)
Definition run_subst (extra text : list N) : outcome subst_result :=
  subst (isnum_with extra) text.

(* the wrapper's unpacking of one observed reduction (values = ids of the
   reductions that produced them) *)
Definition run_unpack (syms : list sym) (drain : list (astack nat)) : outcome (list (argval nat)) :=
  unpack syms drain.

(* the 0-based position among [n] arguments that the name the scanner makes of
   `$<ds>` is bound to in the generated action function *)
Definition run_arg_index (n : nat) (ds : list N) : option nat :=
  lookup (out_arg ++ ds) (action_env (seq 0 n)).

(* flags: what the generated lexerdef() computes from a header, what the
   run-time lexer computes, and the evaluation of quoted options read back from a
   generated file *)
Definition run_regen (h : lexflags) : lexflags := regen h.
Definition run_fill (h : lexflags) : lexflags := fill h.
Definition run_quoted (q : quoted_flags) : lexflags := run_generated_flags q.
