(* C13 / C18 — proofs of the statements of C13/SettingsSpec.v. *)
From Coq Require Import List NArith Bool Sorted Lia.
From GV Require Import Common.Outcome C12.MarkMapModel C12.MarkMapSpec C12.MarkMapProofs C13.SettingsModel C13.SettingsSpec.
Import ListNotations.
Local Open Scope N_scope.

Lemma sorted_ext : forall (l1 l2 : list mkey), StronglySorted key_lt l1 -> StronglySorted key_lt l2 ->
  (forall k, In k l1 <-> In k l2) -> l1 = l2.
Proof.
  induction l1 as [|a t IH]; intros l2 S1 S2 H.
  - destruct l2 as [|b t2]; auto. exfalso. apply (H b). left; auto.
  - destruct l2 as [|b t2]. { exfalso. apply (H a). left; auto. }
    inversion S1 as [|? ? St Fa]; subst. inversion S2 as [|? ? St2 Fb]; subst.
    rewrite Forall_forall in Fa, Fb.
    assert (a = b).
    { destruct (proj1 (H a) (or_introl eq_refl)) as [E|I]; auto.
      destruct (proj2 (H b) (or_introl eq_refl)) as [E|I2]; auto.
      exfalso. apply (lt_irrefl a). eapply cmp_lt_trans; [apply Fa; eauto | apply Fb; auto]. }
    subst b. f_equal. apply IH; auto. intros k. split; intros I.
    + destruct (proj1 (H k) (or_intror I)) as [E|]; auto. subst k. exfalso. apply (lt_irrefl a). auto.
    + destruct (proj2 (H k) (or_intror I)) as [E|]; auto. subst k. exfalso. apply (lt_irrefl a). auto.
Qed.

Section P.
Variable V : Type.
Notation ekey := (e_key V).

Definition OURS : N := set_mb_repr 0 Ours.

Definition setup_contents (b : builder V) : list (ent V) :=
  (match b_recoverer V b with Some v => [(K_RECOVERER, OURS, Some v)] | None => [] end) ++
  (match b_serfmt V b with Some v => [(K_SERFMT, OURS, Some v)] | None => [] end) ++
  [match b_yacckind V b with Some v => (K_YACCKIND, OURS, Some v) | None => (K_YACCKIND, M_REQUIRED, None) end].

Lemma setup_eq : forall b, setup V b = Done (MkMM MutEx (setup_contents b)).
Proof. intros [[y|] [r|] [s|]]; vm_compute; reflexivity. Qed.

Lemma setup_sorted : forall b, sorted_ents (setup_contents b).
Proof. intros [[y|] [r|] [s|]]; apply sorted_dec_ok; vm_compute; reflexivity. Qed.

Definition hb_abs (b : builder V) (k : mkey) : option (N * option V) :=
  if mkey_eqb K_YACCKIND k then Some (match b_yacckind V b with Some v => (OURS, Some v) | None => (M_REQUIRED, None) end)
  else if mkey_eqb K_RECOVERER k then option_map (fun v => (OURS, Some v)) (b_recoverer V b)
  else if mkey_eqb K_SERFMT k then option_map (fun v => (OURS, Some v)) (b_serfmt V b)
  else None.

Lemma abs_cons : forall (e : ent V) t k, abs_ents (e :: t) k = if mkey_eqb (ekey e) k then Some (e_mark V e, e_val V e) else abs_ents t k.
Proof. reflexivity. Qed.

Lemma setup_abs : forall b k, abs_ents (setup_contents b) k = hb_abs b k.
Proof.
  intros b k. unfold hb_abs.
  destruct (mkey_eqb K_YACCKIND k) eqn:EY.
  { apply eqb_eq in EY. subst k. destruct b as [[y|] [r|] [s|]]; vm_compute; reflexivity. }
  destruct (mkey_eqb K_RECOVERER k) eqn:ER.
  { apply eqb_eq in ER. subst k. destruct b as [[y|] [r|] [s|]]; vm_compute; reflexivity. }
  destruct (mkey_eqb K_SERFMT k) eqn:ES.
  { apply eqb_eq in ES. subst k. destruct b as [[y|] [r|] [s|]]; vm_compute; reflexivity. }
  destruct b as [[y|] [r|] [s|]]; unfold setup_contents; cbn [b_recoverer b_serfmt b_yacckind app];
    repeat rewrite abs_cons; cbn [e_key e_mark e_val fst snd]; rewrite ?EY, ?ER, ?ES; reflexivity.
Qed.

(* ---- the merge without conflicts, pointwise ---- *)
Lemma merge_abs_noconf : forall dflt (theirs : list (ent V)) a, sorted_ents theirs ->
  (forall te, In te theirs -> merge_point dflt (a (ekey te)) (e_mark V te) (e_val V te) <> None) ->
  fst (merge_abs dflt a theirs) = None /\
  forall k, snd (merge_abs dflt a theirs) k =
    match abs_ents theirs k with None => a k | Some (tm, tv) => merge_point dflt (a k) tm tv end.
Proof.
  intros dflt. induction theirs as [|te rest IH]; intros a S C.
  - simpl. auto.
  - apply sorted_cons_inv in S. destruct S as [S L]. simpl.
    destruct (merge_point dflt (a (ekey te)) (e_mark V te) (e_val V te)) as [x|] eqn:E.
    2:{ exfalso. apply (C te); auto. left; auto. }
    destruct (IH (upd a (ekey te) (Some x)) S) as [F R].
    { intros te' I. unfold upd. rewrite (lt_neqb1 _ _ (L te' I)). apply C. right; auto. }
    split; auto. intros k. rewrite R. unfold upd.
    destruct (mkey_eqb (ekey te) k) eqn:EK.
    + apply eqb_eq in EK. subst k. rewrite (abs_none_gt V rest (ekey te)); auto.
      intros a0 I. apply lt_neqb2. auto.
    + reflexivity.
Qed.

Lemma parsed_abs : forall (s : markmap V) k, parsed_section s ->
  abs s k = None \/ exists v, abs s k = Some (0, Some v).
Proof.
  intros s k [S F]. unfold abs. destruct (abs_ents (mm_contents s) k) as [[r v]|] eqn:E; auto.
  right. apply (abs_in V _ _ _ _ S) in E. rewrite Forall_forall in F. destruct (F _ E) as [M I].
  unfold e_mark, e_val in *. simpl in *. subst r. destruct v; try discriminate. eauto.
Qed.

Ltac cases b k :=
  unfold hb_abs; destruct (mkey_eqb K_YACCKIND k), (mkey_eqb K_RECOVERER k), (mkey_eqb K_SERFMT k);
  destruct b as [[?y|] [?r|] [?s|]].

Lemma no_conflict : forall b k tv, merge_point MutEx (hb_abs b k) 0 (Some tv) <> None.
Proof. intros b k tv. cases b k; vm_compute; discriminate. Qed.

Definition merged (b : builder V) (s : markmap V) (k : mkey) : option (N * option V) :=
  match abs s k with None => hb_abs b k | Some (tm, tv) => merge_point MutEx (hb_abs b k) tm tv end.

Definition given (b : builder V) (k : mkey) : option V :=
  if mkey_eqb K_YACCKIND k then b_yacckind V b else if mkey_eqb K_RECOVERER k then b_recoverer V b
  else if mkey_eqb K_SERFMT k then b_serfmt V b else None.

Lemma merged_val : forall b s k, parsed_section s -> abs_val (merged b s k) = pick (given b k) (sec_val s k).
Proof.
  intros b s k P. unfold merged, sec_val, given. destruct (parsed_abs s k P) as [E|[v E]]; rewrite E.
  - cases b k; reflexivity.
  - cases b k; vm_compute; reflexivity.
Qed.
Lemma merged_used : forall b s k, parsed_section s -> has_bit (abs_mark (merged b s k)) M_USED = false.
Proof.
  intros b s k P. unfold merged. destruct (parsed_abs s k P) as [E|[v E]]; rewrite E; cases b k; vm_compute; reflexivity.
Qed.
Lemma merged_req : forall b s k, parsed_section s ->
  has_bit (abs_mark (merged b s k)) M_REQUIRED = mkey_eqb K_YACCKIND k && negb (is_some (b_yacckind V b)).
Proof.
  intros b s k P. unfold merged. destruct (parsed_abs s k P) as [E|[v E]]; rewrite E; cases b k; vm_compute; reflexivity.
Qed.

Lemma has_used_lor : forall r, has_bit (N.lor r M_USED) M_USED = true.
Proof.
  intros r. unfold has_bit, M_USED. rewrite N.land_lor_distr_l. change (N.land 1 1) with 1.
  destruct (N.eqb_spec (N.lor (N.land r 1) 1) 0) as [E|]; auto. apply N.lor_eq_0_iff in E. destruct E; discriminate.
Qed.
Lemma has_req_lor : forall r, has_bit (N.lor r M_USED) M_REQUIRED = has_bit r M_REQUIRED.
Proof.
  intros r. unfold has_bit, M_USED, M_REQUIRED. rewrite N.land_lor_distr_l. change (N.land 1 2) with 0. rewrite N.lor_0_r. auto.
Qed.

Lemma mark_used_spec : forall (m : markmap V) k, mm_sorted m ->
  exists m', mm_mark_used V m k = Done m' /\ mm_sorted m'
    /\ (forall k', abs_val (abs m' k') = abs_val (abs m k'))
    /\ (forall k', has_bit (abs_mark (abs m' k')) M_USED = mkey_eqb k k' || has_bit (abs_mark (abs m k')) M_USED)
    /\ (forall k', has_bit (abs_mark (abs m' k')) M_REQUIRED = has_bit (abs_mark (abs m k')) M_REQUIRED).
Proof.
  intros m k S. unfold mm_mark_used.
  destruct (markmap_mark_spec_g V m k (fun r => N.lor r M_USED) S) as (m' & E & S' & _ & A).
  exists m'. split; auto. split; auto.
  assert (X : forall k', abs m' k' = if mkey_eqb k k' then Some (N.lor (abs_mark (abs m k')) M_USED, abs_val (abs m k')) else abs m k').
  { intros k'. rewrite A. unfold upd. destruct (mkey_eqb k k') eqn:EK; auto. apply eqb_eq in EK. subst; auto. }
  repeat split; intros k'; rewrite X; destruct (mkey_eqb k k'); simpl; auto.
  - apply has_used_lor.
  - apply has_req_lor.
Qed.

Lemma val_some : forall (a : option (N * option V)) v, abs_val a = Some v -> exists r, a = Some (r, Some v).
Proof. intros [[r [x|]]|] v; simpl; intros E; try discriminate. inversion E; eauto. Qed.

Lemma given_keys : forall b,
  given b K_YACCKIND = b_yacckind V b /\ given b K_RECOVERER = b_recoverer V b /\ given b K_SERFMT = b_serfmt V b.
Proof. intros b. repeat split; vm_compute; reflexivity. Qed.

Lemma given_other : forall b k, is_setting_key k = false -> given b k = None.
Proof.
  intros b k. unfold is_setting_key, given.
  destruct (mkey_eqb K_YACCKIND k), (mkey_eqb K_RECOVERER k), (mkey_eqb K_SERFMT k); simpl; try discriminate; auto.
Qed.
Lemma keys_parsed : forall (s : markmap V), parsed_section s -> mm_keys V s = map ekey (mm_contents s).
Proof.
  intros s [_ F]. unfold mm_keys. f_equal. induction F as [|e t [_ I] F IH]; simpl; auto. rewrite I. f_equal. auto.
Qed.

Lemma filter_map_key : forall (P : mkey -> bool) (l : list (ent V)),
  filter P (map ekey l) = map ekey (filter (fun e => P (ekey e)) l).
Proof. induction l; simpl; auto. destruct (P (ekey a)); simpl; congruence. Qed.

Theorem settings_in_force_g : forall (b : builder V) (s : markmap V), parsed_section s ->
  exists u m,
    settings_run V b s = Done (SDone V (pick (b_yacckind V b) (sec_val s K_YACCKIND))
                                       (pick (b_recoverer V b) (sec_val s K_RECOVERER))
                                       (pick (b_serfmt V b) (sec_val s K_SERFMT)) u m)
    /\ u = filter (fun k => negb (is_setting_key k)) (mm_keys V s)
    /\ m = (if is_some (pick (b_yacckind V b) (sec_val s K_YACCKIND)) then [] else [K_YACCKIND]).
Proof.
  intros b s P. pose proof P as [Ss Fs].
  unfold settings_run. rewrite setup_eq. cbn [obind].
  set (h0 := MkMM MutEx (setup_contents b)).
  assert (S0 : mm_sorted h0) by apply setup_sorted.
  destruct (markmap_merge_spec_g V h0 s S0 Ss) as (res & h1 & Em & S1 & _ & HH). cbv zeta in HH. destruct HH as [A1 Hres].
  rewrite Em. cbn [obind fst snd].
  destruct (merge_abs_noconf (mm_default h0) (mm_contents s) (abs h0) Ss) as [F R].
  { intros te I. rewrite Forall_forall in Fs. destruct (Fs te I) as [M Iv]. rewrite M.
    destruct (e_val V te) as [tv|]; try discriminate. unfold abs, h0. simpl mm_contents. rewrite setup_abs. apply no_conflict. }
  rewrite F in Hres. destruct res as [[ek ev]|]; [contradiction|]. clear Hres.
  assert (A1' : forall k, abs h1 k = merged b s k).
  { intros k. rewrite A1, R. unfold merged, abs, h0. cbn [mm_default mm_contents]. rewrite setup_abs. reflexivity. }
  destruct (markmap_get_spec_g V h1 K_YACCKIND S1) as [G1 _]. rewrite G1. cbn [obind].
  destruct (mark_used_spec h1 K_YACCKIND S1) as (h2 & E2 & S2 & V2 & U2 & R2). rewrite E2. cbn [obind].
  destruct (mark_used_spec h2 K_RECOVERER S2) as (h3 & E3 & S3 & V3 & U3 & R3). rewrite E3. cbn [obind].
  destruct (markmap_get_spec_g V h3 K_RECOVERER S3) as [G3 _]. rewrite G3. cbn [obind].
  destruct (mark_used_spec h3 K_SERFMT S3) as (h4 & E4 & S4 & V4 & U4 & R4). rewrite E4. cbn [obind].
  destruct (markmap_get_spec_g V h4 K_SERFMT S4) as [G4 _]. rewrite G4. cbn [obind].
  assert (VAL : forall k, abs_val (abs h4 k) = pick (given b k) (sec_val s k)).
  { intros k. rewrite V4, V3, V2, A1'. apply merged_val; auto. }
  assert (USED : forall k, has_bit (abs_mark (abs h4 k)) M_USED = is_setting_key k).
  { intros k. rewrite U4, U3, U2, A1', merged_used; auto. unfold is_setting_key.
    destruct (mkey_eqb K_YACCKIND k), (mkey_eqb K_RECOVERER k), (mkey_eqb K_SERFMT k); reflexivity. }
  assert (REQ : forall k, has_bit (abs_mark (abs h4 k)) M_REQUIRED = mkey_eqb K_YACCKIND k && negb (is_some (b_yacckind V b))).
  { intros k. rewrite R4, R3, R2, A1'. apply merged_req; auto. }
  destruct (given_keys b) as (GY & GR & GS).
  eexists _, _. split.
  { rewrite <- (V2 K_YACCKIND) at 1. rewrite <- (V3 K_YACCKIND), <- (V4 K_YACCKIND), <- (V4 K_RECOVERER).
    rewrite !VAL, GY, GR, GS. reflexivity. }
  destruct (markmap_unused_missing_spec_g V h4 S4) as (SU & SM & _ & IU & IM & _).
  split.
  - apply sorted_ext; auto.
    { rewrite keys_parsed, filter_map_key; auto. apply filter_sorted; auto. }
    intros k. rewrite IU, filter_In. split.
    + intros (r & v & E & B). pose proof (USED k) as U. pose proof (VAL k) as W. rewrite E in U, W. simpl in U, W.
      rewrite B in U. split; [|rewrite <- U; auto].
      rewrite given_other in W by auto. simpl in W.
      destruct (markmap_unused_missing_spec_g V s Ss) as (_ & _ & _ & _ & _ & IK). apply IK.
      unfold sec_val in W. symmetry in W. apply val_some in W. destruct W as [r' W]. eauto.
    + intros [I NK]. apply negb_true_iff in NK.
      destruct (markmap_unused_missing_spec_g V s Ss) as (_ & _ & _ & _ & _ & IK). apply IK in I. destruct I as (r' & v & E').
      pose proof (VAL k) as W. rewrite given_other in W by auto. unfold sec_val in W. rewrite E' in W. simpl in W.
      apply val_some in W. destruct W as [r W]. exists r, v. split; auto.
      pose proof (USED k) as U. rewrite W in U. simpl in U. congruence.
  - apply sorted_ext; auto.
    { destruct (is_some (pick (b_yacckind V b) (sec_val s K_YACCKIND))); repeat constructor. }
    intros k. rewrite IM. split.
    + intros (r & E & B). pose proof (REQ k) as Q. pose proof (VAL k) as W. rewrite E in Q, W. simpl in Q, W.
      rewrite B in Q. symmetry in Q. apply andb_true_iff in Q. destruct Q as [Q1 Q2]. apply eqb_eq in Q1. subst k.
      rewrite GY in W. rewrite <- W. simpl. left; auto.
    + intros I. destruct (pick (b_yacckind V b) (sec_val s K_YACCKIND)) eqn:PK; simpl in I; [contradiction|].
      destruct I as [<-|[]]. pose proof (VAL K_YACCKIND) as W. rewrite GY, PK in W.
      pose proof (REQ K_YACCKIND) as Q. rewrite eqb_refl in Q.
      destruct (b_yacckind V b); [discriminate|]. simpl in Q.
      destruct (abs h4 K_YACCKIND) as [[r [x|]]|]; simpl in *; try discriminate. eauto.
Qed.

Theorem section_has_no_bare_marks_g : forall (s : markmap V), parsed_section s ->
    (forall k, abs s k = None \/ exists v, abs s k = Some (0, Some v))
    /\ map fst (mm_iter V s) = mm_keys V s
    /\ mm_keys V s = map ekey (mm_contents s).
Proof.
  intros s P. split; [intros; apply parsed_abs; auto|]. split; [|apply keys_parsed; auto].
  rewrite keys_parsed; auto. destruct P as [_ F]. unfold mm_iter.
  induction F as [|e t [_ I] F IH]; simpl; auto. destruct (e_val V e); try discriminate. simpl. f_equal. auto.
Qed.

Theorem settings_never_use_theirs_g : forall (b : builder V), exists h0, setup V b = Done h0 /\ mm_sorted h0 /\ mm_default h0 = MutEx
    /\ Forall (fun e => deciding_mb (mm_default h0) (e_mark V e) <> M_MB Theirs
                        /\ (N.land (e_mark V e) MERGE_REPRS = 0 \/ N.land (e_mark V e) MERGE_REPRS = M_MB Ours))
              (mm_contents h0).
Proof.
  intros b. eexists. split; [apply setup_eq|]. split; [apply setup_sorted|]. split; auto.
  destruct b as [[y|] [r|] [s|]]; rewrite Forall_forall; intros e I; unfold setup_contents in I; simpl in I;
    repeat (destruct I as [<-|I]; [split; [vm_compute; discriminate | vm_compute; auto]|]); contradiction.
Qed.

Theorem section_of_parsed_g : forall (kvs : list (mkey * V)) s0, parsed_section s0 ->
  exists s, section_of V kvs s0 = Done s /\ parsed_section s.
Proof.
  induction kvs as [|[k v] t IH]; intros s0 P. { simpl; eauto. }
  simpl. pose proof P as [S F].
  destruct (markmap_insert_spec_g V s0 k v S) as (old & m' & E & S' & _ & _ & A). rewrite E. cbn [obind snd].
  apply IH. split; auto. rewrite Forall_forall. intros [[k' r'] v'] I.
  apply (abs_in V _ _ _ _ S') in I. unfold abs in A. rewrite A in I. unfold upd in I.
  unfold e_mark, e_val. simpl.
  destruct (mkey_eqb k k') eqn:EK.
  - inversion I; subst. split; auto. destruct (parsed_abs s0 k P) as [E0|[v0 E0]]; unfold abs in E0; rewrite E0; reflexivity.
  - apply (abs_in V _ _ _ _ S) in I. rewrite Forall_forall in F. apply (F _ I).
Qed.

End P.

Theorem settings_in_force : settings_in_force_stmt.
Proof. exact settings_in_force_g. Qed.

Theorem settings_merge_never_conflicts : settings_merge_never_conflicts_stmt.
Proof. intros V b s P. destruct (settings_in_force_g V b s P) as (u & m & E & _). eauto 10. Qed.

Theorem builder_setting_wins : builder_setting_wins_stmt.
Proof.
  intros V b s P. destruct (settings_in_force_g V b s P) as (u & m & E & _).
  eexists _, _, _, _, _. split; [exact E|]. repeat split; intros v H; rewrite H; reflexivity.
Qed.

Theorem section_setting_used_otherwise : section_setting_used_otherwise_stmt.
Proof.
  intros V b s P. destruct (settings_in_force_g V b s P) as (u & m & E & _).
  eexists _, _, _, _, _. split; [exact E|]. repeat split; intros H; rewrite H; simpl;
    match goal with |- context [sec_val s ?k] => destruct (sec_val s k) end; reflexivity.
Qed.

Theorem unknown_keys_reported : unknown_keys_reported_stmt.
Proof.
  intros V b s P. destruct (settings_in_force_g V b s P) as (u & m & E & EU & EM).
  eexists _, _, _, _, _. split; [exact E|]. rewrite (keys_parsed V s P) in EU. split; auto. split.
  - subst u. rewrite filter_map_key. apply filter_sorted. apply P.
  - subst m. destruct (pick (b_yacckind V b) (sec_val s K_YACCKIND)); simpl; split; congruence.
Qed.

Theorem settings_never_use_theirs : settings_never_use_theirs_stmt.
Proof. exact settings_never_use_theirs_g. Qed.
Theorem section_has_no_bare_marks : section_has_no_bare_marks_stmt.
Proof. exact section_has_no_bare_marks_g. Qed.
Theorem section_of_parsed : section_of_parsed_stmt.
Proof.
  intros V kvs. apply section_of_parsed_g. split; [apply new_sorted | constructor].
Qed.

(* ---- instances (non-vacuity): builder gives recoverer (7), section gives yacckind (3) and an unknown key "zzz" (9) ---- *)
Definition K_ZZZ : mkey := [122; 122; 122].
Definition ex_builder : builder N := MkB N None (Some 7) None.
Definition ex_section : markmap N := MkMM MutEx [(K_YACCKIND, 0, Some 3); (K_ZZZ, 0, Some 9)].
Example ex_section_parsed : parsed_section ex_section.
Proof. split; [apply sorted_dec_ok; vm_compute; reflexivity | repeat constructor]. Qed.
Example ex_section_built : section_of N [(K_ZZZ, 9); (K_YACCKIND, 3)] (mm_new N) = Done ex_section.
Proof. vm_compute. reflexivity. Qed.
Example ex_settings_run : settings_run N ex_builder ex_section = Done (SDone N (Some 3) (Some 7) None [K_ZZZ] []).
Proof. vm_compute. reflexivity. Qed.
(* both give recoverer: the builder's 7 wins over the section's 8, no conflict *)
Example ex_builder_wins :
  settings_run N ex_builder (MkMM MutEx [(K_RECOVERER, 0, Some 8); (K_YACCKIND, 0, Some 3)])
  = Done (SDone N (Some 3) (Some 7) None [] []).
Proof. vm_compute. reflexivity. Qed.
(* nobody gives yacckind: the "Missing 'yacckind'" case, and missing() = [yacckind] *)
Example ex_missing_yacckind :
  settings_run N ex_builder (MkMM MutEx [(K_ZZZ, 0, Some 9)]) = Done (SDone N None (Some 7) None [K_ZZZ] [K_YACCKIND])
  /\ yacckind_in_force N None = Error_MissingYacckind N /\ serfmt_in_force N None = Fallback_VariableSizedInteger N.
Proof. vm_compute. auto. Qed.
(* the hypothesis matters: a section entry that carries behaviour Theirs is NOT a parsed section (not producible by inserts);
   and a header WITHOUT the Ours mark would conflict — the set_merge_behavior(Ours) call is what makes the merge total *)
Example ex_without_ours_conflicts :
  mm_merge_from N (MkMM MutEx [(K_RECOVERER, 0, Some 7)]) (MkMM MutEx [(K_RECOVERER, 0, Some 8)])
  = Done (Some (K_RECOVERER, 8), MkMM MutEx [(K_RECOVERER, 0, Some 7)]).
Proof. vm_compute. reflexivity. Qed.
