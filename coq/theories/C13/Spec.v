(* C13 — declarative specification of the `$`-notation of action code, of the
   wrapper's argument unpacking and of lexer flag propagation; and the
   statements proved in Proofs.v. *)
From Coq Require Import List Arith NArith Bool Lia.
From GV Require Import Common.Outcome C13.Model.
Import ListNotations.

(* ---- (i) what an action text means ------------------------------------- *)

Inductive tok :=
| Lit (c : N)            (* any character other than '$' *)
| Dollar                 (* $$ *)
| Arg (ds : list N)      (* $ followed by a maximal non-empty run of numeric characters *)
| SpanT                  (* $span *)
| LexerT.                (* $lexer *)

Definition render1 (t : tok) : list N :=
  match t with
  | Lit c => [c]
  | Dollar => [DOLLAR]
  | Arg ds => out_arg ++ ds
  | SpanT => out_span
  | LexerT => out_lexer
  end.
Definition render (ts : list tok) : list N := concat (map render1 ts).

Section Spec.
  Variable isnum : N -> bool.

  Definition head_not_numeric (r : list N) : Prop :=
    match r with c :: _ => isnum c = false | [] => True end.

  (* the text splits, left to right, into the tokens [ts] *)
  Inductive tokenises : list N -> list tok -> Prop :=
  | T_nil : tokenises [] []
  | T_lit c r ts : c <> DOLLAR -> tokenises r ts -> tokenises (c :: r) (Lit c :: ts)
  | T_dollar r ts : tokenises r ts -> tokenises (s_dd ++ r) (Dollar :: ts)
  | T_lexer r ts : tokenises r ts -> tokenises (s_lexer ++ r) (LexerT :: ts)
  | T_span r ts : tokenises r ts -> tokenises (s_span ++ r) (SpanT :: ts)
  | T_arg d ds r ts :
      Forall (fun c => isnum c = true) (d :: ds) -> head_not_numeric r ->
      tokenises r ts -> tokenises (DOLLAR :: (d :: ds) ++ r) (Arg (d :: ds) :: ts).

  (* what may follow a '$' *)
  Definition dollar_ok (r : list N) : Prop :=
    starts_with [DOLLAR] r = true \/ starts_with (tl s_lexer) r = true \/
    starts_with (tl s_span) r = true \/ (exists c r', r = c :: r' /\ isnum c = true).

  (* the first '$' that is followed by none of these: [n] is the byte offset
     (from the start of the text) of the character after it *)
  Inductive bad_at : list N -> nat -> Prop :=
  | B_here r : ~ dollar_ok r -> bad_at (DOLLAR :: r) 1
  | B_lit c r n : c <> DOLLAR -> bad_at r n -> bad_at (c :: r) (len_utf8 c + n)
  | B_dollar r n : bad_at r n -> bad_at (s_dd ++ r) (2 + n)
  | B_lexer r n : bad_at r n -> bad_at (s_lexer ++ r) (6 + n)
  | B_span r n : bad_at r n -> bad_at (s_span ++ r) (5 + n)
  | B_arg d r n : isnum d = true -> bad_at (d :: r) n -> bad_at (DOLLAR :: d :: r) (1 + n).
End Spec.

(* `is_numeric` is false on '$', 'l' and 's' (true of char::is_numeric) *)
Definition isnum_sane (isnum : N -> bool) : Prop :=
  isnum 36%N = false /\ isnum 108%N = false /\ isnum 115%N = false.

(* ---- statements --------------------------------------------------------- *)

(* the scanner substitutes exactly the tokens of the text *)
Definition subst_ok_stmt : Prop :=
  forall isnum pre ts, isnum_sane isnum -> tokenises isnum pre ts ->
    subst isnum pre = Done (SubstOk (render ts)).

(* … and reports exactly the first ill-formed '$' *)
Definition subst_err_stmt : Prop :=
  forall isnum pre n, isnum_sane isnum -> bad_at isnum pre n ->
    subst isnum pre = Done (SubstErr n).

(* every text is tokenisable or has a first bad '$': together with the two
   statements above the scanner is determined on ALL texts and never panics or
   runs out of fuel *)
Definition spec_total_stmt : Prop :=
  forall isnum pre, isnum_sane isnum ->
    (exists ts, tokenises isnum pre ts) \/ (exists n, bad_at isnum pre n).

Definition subst_mirror_meets_spec_stmt : Prop :=
  forall isnum pre, isnum_sane isnum ->
    (exists ts, tokenises isnum pre ts /\ subst isnum pre = Done (SubstOk (render ts))) \/
    (exists n, bad_at isnum pre n /\ subst isnum pre = Done (SubstErr n)).

(* the tokenisation is unique (the notation is unambiguous) *)
Definition tokenises_unique_stmt : Prop :=
  forall isnum pre ts1 ts2, isnum_sane isnum ->
    tokenises isnum pre ts1 -> tokenises isnum pre ts2 -> ts1 = ts2.

(* ---- (ii) wrapper arguments ------------------------------------------- *)

(* what the parser hands to a wrapper: one stack entry per symbol of the
   production, a lexeme for a token and a value of that rule for a rule *)
Definition entry_matches {V} (s : sym) (a : astack V) : Prop :=
  match s, a with
  | Tok _, ALexeme _ => True
  | Rule r, AAction r' _ => r = r'
  | _, _ => False
  end.

(* `$i` for the i-th symbol: Ok for a real lexeme, Err for an inserted one, the
   child's value for a rule *)
Definition arg_spec {V} (a : astack V) : argval V :=
  match a with
  | ALexeme l => if lx_faulty l then ArgErr l else ArgOk l
  | AAction _ x => ArgVal x
  end.

Definition wrapper_args_spec_stmt : Prop :=
  forall (V : Type) syms (drain : list (astack V)),
    Forall2 entry_matches syms drain ->
    unpack syms drain = Done (map arg_spec drain).

(* the wrapper can only fail when the parser breaks that contract *)
Definition wrapper_panics_only_on_mismatch_stmt : Prop :=
  forall (V : Type) syms (drain : list (astack V)),
    unpack syms drain = Panic -> ~ Forall2 entry_matches syms drain.

(* `$k` (rendered `__gt_arg_<k>` by the scanner) is the k-th symbol's value *)
Definition dollar_k_denotes_kth_stmt : Prop :=
  forall (A : Type) (vals : list A) k, 1 <= k <= length vals ->
    lookup (render1 (Arg (decimal k))) (action_env vals) = nth_error vals (k - 1).

(* `$0`, `$k` beyond the production and any other digit string are unbound
   names in the generated function (rustc rejects the module; the builder does not) *)
Definition dollar_out_of_range_unbound_stmt : Prop :=
  forall (A : Type) (vals : list A) ds,
    (forall k, 1 <= k <= length vals -> ds <> decimal k) ->
    lookup (render1 (Arg ds)) (action_env vals) = None.

(* ---- (iii) flags -------------------------------------------------------- *)

(* the flags the generated lexerdef() builds its rules with are the flags the
   run-time lexer builds its rules with, for every header *)
Definition lexerdef_flags_roundtrip_stmt : Prop :=
  forall h, regen h = fill h.

Definition fill_idempotent_stmt : Prop := forall h, fill (fill h) = fill h.

(* a flag set in the header survives; an unset one takes the default *)
Definition fill_spec_stmt : Prop :=
  forall h,
    (forall b, case_insensitive h = Some b -> case_insensitive (regen h) = Some b) /\
    (forall b, dot_matches_new_line h = Some b -> dot_matches_new_line (regen h) = Some b) /\
    (forall b, multi_line h = Some b -> multi_line (regen h) = Some b) /\
    (forall b, octal h = Some b -> octal (regen h) = Some b) /\
    (forall b, posix_escapes h = Some b -> posix_escapes (regen h) = Some b) /\
    (forall b, allow_wholeline_comments h = Some b -> allow_wholeline_comments (regen h) = Some b) /\
    (forall b, swap_greed h = Some b -> swap_greed (regen h) = Some b) /\
    (forall b, ignore_whitespace h = Some b -> ignore_whitespace (regen h) = Some b) /\
    (forall b, unicode h = Some b -> unicode (regen h) = Some b) /\
    (forall n, size_limit h = Some n -> size_limit (regen h) = Some n) /\
    (forall n, dfa_size_limit h = Some n -> dfa_size_limit (regen h) = Some n) /\
    (forall n, nest_limit h = Some n -> nest_limit (regen h) = Some n) /\
    regen UNSPECIFIED_LEX_FLAGS = DEFAULT_LEX_FLAGS.

(* Rule::new's unwraps cannot fail in a generated lexerdef() *)
Definition rule_new_no_panic_stmt : Prop :=
  forall h, rule_new_flags (regen h) = Done (regen h).
