(* C13 / C18 — "the settings in force", lexer side: mirror of the header sequence of CTLexerBuilder::build_inner
   (lrlex/src/lib/ctbuilder.rs) and of LexFlags::try_from(&mut Header) (lrlex/src/lib/lexer.rs), on the MarkMap mirror.

     CTLexerBuilder::new():  header = Header::new(); header.set_default_merge_behavior(Ours);  lexerkind: None (a FIELD, not a header key)
     each flag setter (dot_matches_new_line(..), ..., nest_limit(..)):  self.header.insert(key, value)      (no marks)
     build_inner:  header.merge_from(parsed_header)?;  header.mark_used("lexerkind");
                   lexerkind = self.lexerkind, else header.get("lexerkind") (try_from), else LRNonStreamingLexer
                   LexFlags::try_from(&mut header): for each of the 12 keys IN THIS ORDER  mark_used(k); get(k)
                   ... header.unused() (non-empty: "Unused header values: .." error)
   Values are abstract (V): the conversion errors (LexerKind::try_from, "Expected boolean", "Number out of range") return
   before unused() and are not part of this mirror.  Definitions only. *)
From Coq Require Import List NArith Bool.
From GV Require Import Common.Outcome C12.MarkMapModel C13.SettingsModel.
Import ListNotations.
Local Open Scope N_scope.

Definition K_LEXERKIND : mkey := [108; 101; 120; 101; 114; 107; 105; 110; 100].
Definition K_DOT_MATCHES_NEW_LINE : mkey := [100; 111; 116; 95; 109; 97; 116; 99; 104; 101; 115; 95; 110; 101; 119; 95; 108; 105; 110; 101].
Definition K_MULTI_LINE : mkey := [109; 117; 108; 116; 105; 95; 108; 105; 110; 101].
Definition K_OCTAL : mkey := [111; 99; 116; 97; 108].
Definition K_POSIX_ESCAPES : mkey := [112; 111; 115; 105; 120; 95; 101; 115; 99; 97; 112; 101; 115].
Definition K_ALLOW_WHOLELINE_COMMENTS : mkey := [97; 108; 108; 111; 119; 95; 119; 104; 111; 108; 101; 108; 105; 110; 101; 95; 99; 111; 109; 109; 101; 110; 116; 115].
Definition K_CASE_INSENSITIVE : mkey := [99; 97; 115; 101; 95; 105; 110; 115; 101; 110; 115; 105; 116; 105; 118; 101].
Definition K_SWAP_GREED : mkey := [115; 119; 97; 112; 95; 103; 114; 101; 101; 100].
Definition K_IGNORE_WHITESPACE : mkey := [105; 103; 110; 111; 114; 101; 95; 119; 104; 105; 116; 101; 115; 112; 97; 99; 101].
Definition K_UNICODE : mkey := [117; 110; 105; 99; 111; 100; 101].
Definition K_SIZE_LIMIT : mkey := [115; 105; 122; 101; 95; 108; 105; 109; 105; 116].
Definition K_DFA_SIZE_LIMIT : mkey := [100; 102; 97; 95; 115; 105; 122; 101; 95; 108; 105; 109; 105; 116].
Definition K_NEST_LIMIT : mkey := [110; 101; 115; 116; 95; 108; 105; 109; 105; 116].
Definition FLAG_KEYS : list mkey :=
  [K_DOT_MATCHES_NEW_LINE; K_MULTI_LINE; K_OCTAL; K_POSIX_ESCAPES; K_ALLOW_WHOLELINE_COMMENTS; K_CASE_INSENSITIVE; K_SWAP_GREED; K_IGNORE_WHITESPACE; K_UNICODE; K_SIZE_LIMIT; K_DFA_SIZE_LIMIT; K_NEST_LIMIT].

Section LexSettings.
Variable V : Type.

(* header.mark_used(k); ... header.get(k)   for each key in turn *)
Fixpoint mark_get_all (h : markmap V) (ks : list mkey) : outcome (markmap V * list (option V)) :=
  match ks with
  | [] => Done (h, [])
  | k :: t => do h1 <- mm_mark_used V h k; do v <- mm_get V h1 k; do r <- mark_get_all h1 t; Done (fst r, v :: snd r)
  end.

(* LMergeErr: `header.merge_from(parsed_header)?` returned Err(Exclusivity(k, v));
   LDone lk flags unused: the lexerkind value in force (None = the default LRNonStreamingLexer), the 12 flag values in the
   order of FLAG_KEYS (None = flag not set), then unused() *)
Inductive lres :=
| LMergeErr (k : mkey) (v : V)
| LDone (lk : option V) (flags : list (option V)) (unused : list mkey).

Definition pick_lk (a b : option V) : option V := match a with Some v => Some v | None => b end.

(* lk = CTLexerBuilder::lexerkind field; h0 = the builder's header; section = the parsed %grmtools section *)
Definition lex_settings_run (lk : option V) (h0 section : markmap V) : outcome lres :=
  do r <- mm_merge_from V h0 section;
  match fst r with
  | Some (k, v) => Done (LMergeErr k v)
  | None =>
      do r2 <- mark_get_all (snd r) (K_LEXERKIND :: FLAG_KEYS);
      Done (LDone (pick_lk lk (hd None (snd r2))) (tl (snd r2)) (mm_unused V (fst r2)))
  end.

(* the builder's header: new(), set_default_merge_behavior(Ours), then `insert`s *)
Fixpoint lex_header_of (kvs : list (mkey * V)) (h : markmap V) : outcome (markmap V) :=
  match kvs with
  | [] => Done h
  | (k, v) :: t => do r <- mm_insert V h k v; lex_header_of t (snd r)
  end.
Definition lex_header_new : markmap V := mm_set_default_merge_behavior V (mm_new V) Ours.

End LexSettings.
