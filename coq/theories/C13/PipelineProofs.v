(* C13 — proofs of PipelineSpec.v.  The parser side is C14's round-trip theorem read through
   the generated module; the lexer side is the flag theorem [lexerdef_flags_roundtrip]
   (regen h = fill h) read through the generated lexerdef(). *)
From Coq Require Import List NArith Bool Lia.
From GV Require Import Common.Outcome C14.Model C14.Schema_gen C14.Spec C14.Proofs
  C13.Model C13.Spec C13.Proofs C13.PipelineModel C13.PipelineSpec.
Import ListNotations.

(* ---- parser side ---------------------------------------------------------------------- *)

Lemma pl_reconstitute c s v : schema_wf s = true -> has_schema s v ->
  reconstitute c s (encode c s v) = Done v.
Proof.
  intros Hwf Hv. unfold reconstitute.
  rewrite <- (app_nil_r (encode c s v)). rewrite (codec_roundtrip c s v [] Hwf Hv). reflexivity.
Qed.

Lemma pl_parser_data sg st fmt kind e g t :
  schema_wf sg = true -> schema_wf st = true -> has_schema sg g -> has_schema st t ->
  parser_data sg st (generate sg st fmt kind e g t) = Done (g, t).
Proof.
  intros Hg Ht Vg Vt. unfold parser_data, generate. cbn [m_format m_grm_data m_stable_data].
  rewrite (pl_reconstitute fmt sg g Hg Vg). cbn [obind].
  rewrite (pl_reconstitute fmt st t Ht Vt). reflexivity.
Qed.

Lemma ct_equals_rt_generic : ct_equals_rt_generic_stmt.
Proof.
  intros input result sg st rt_parse fmt kind e g t i Hg Ht Vg Vt. unfold ct_parse.
  rewrite (pl_parser_data sg st fmt kind e g t Hg Ht Vg Vt). reflexivity.
Qed.

Lemma ct_equals_rt : ct_equals_rt_stmt.
Proof.
  intros input result rt_parse w fmt kind e g t i Vg Vt.
  destruct (generated_schemas_wf w) as [Hg Ht].
  exact (ct_equals_rt_generic input result _ _ rt_parse fmt kind e g t i Hg Ht Vg Vt).
Qed.

Lemma ct_equals_rt_bytes : ct_equals_rt_bytes_stmt.
Proof.
  intros input result rt_parse w c kind e g t junk1 junk2 i Vg Vt.
  destruct (generated_schemas_wf w) as [Hg Ht]. unfold ct_parse_bytes.
  rewrite (codec_roundtrip c _ g junk1 Hg Vg), (codec_roundtrip c _ t junk2 Ht Vt). reflexivity.
Qed.

Lemma parser_data_reconstitutes : parser_data_reconstitutes_stmt.
Proof.
  intros w fmt kind e g t Vg Vt. destruct (generated_schemas_wf w) as [Hg Ht].
  exact (pl_parser_data _ _ fmt kind e g t Hg Ht Vg Vt).
Qed.

Lemma ct_parse_format_independent : ct_parse_format_independent_stmt.
Proof.
  intros input result rt_parse w kind e g t i Vg Vt.
  rewrite (ct_equals_rt input result rt_parse w Fix kind e g t i Vg Vt).
  rewrite (ct_equals_rt input result rt_parse w Var kind e g t i Vg Vt). reflexivity.
Qed.

Lemma format_mismatch_breaks : format_mismatch_breaks_stmt.
Proof.
  exists (SInt W32), (SInt W32), (VInt 5), (VInt 5).
  split; [reflexivity|]. split; [reflexivity|]. split; [reflexivity|]. split; [reflexivity|].
  vm_compute. reflexivity.
Qed.

Lemma kind_is_passed_through : kind_is_passed_through_stmt.
Proof.
  intros input result rt_parse w fmt kind kind' e g t i Vg Vt m. subst m.
  exact (ct_equals_rt input result rt_parse w fmt kind' e g t i Vg Vt).
Qed.

(* non-vacuity: values of the generated schemas exist (every vector empty, every option
   None, every integer 0, the first variant of every enum) *)
Fixpoint default_value (s : schema) : value :=
  match s with
  | SU8 | SInt _ => VInt 0
  | SBool => VBool false
  | SString => VBytes []
  | SOption _ => VNone
  | SVec _ => VList []
  | STuple l => VTuple (map default_value l)
  | SEnum l => VEnum 0 (match l with s' :: _ => default_value s' | [] => VOpaque end)
  | SOpaque _ => VOpaque
  end.

Fixpoint inhabited_b (s : schema) : bool :=
  match s with
  | STuple l => forallb inhabited_b l
  | SEnum l => match l with s' :: _ => inhabited_b s' | [] => false end
  | _ => true
  end.

Lemma default_has_schema : forall s, inhabited_b s = true -> has_schema s (default_value s).
Proof.
  apply (schema_ind' (fun s => inhabited_b s = true -> has_schema s (default_value s))).
  - intros _. reflexivity.
  - intros w _. destruct w; reflexivity.
  - intros _. exact I.
  - intros _. split; [reflexivity|constructor].
  - intros s _ _. exact I.
  - intros s _ _. split; [reflexivity|constructor].
  - intros l HF Hb. cbn [default_value]. rewrite has_tuple_eq. cbn [inhabited_b] in Hb.
    induction HF as [|x l Hx _ IH]; [exact I|].
    cbn [forallb] in Hb. apply andb_true_iff in Hb. destruct Hb as [Hb1 Hb2].
    cbn [map has_tuple]. split; [exact (Hx Hb1)|exact (IH Hb2)].
  - intros l HF Hb. cbn [default_value]. rewrite has_pick_eq.
    destruct HF as [|x l Hx _]; [discriminate Hb|]. cbn [inhabited_b] in Hb. cbn [has_pick]. exact (Hx Hb).
  - intros w _. exact I.
Qed.

Example default_grammar_has_schema w : has_schema (yacc_grammar_schema w) (default_value (yacc_grammar_schema w)).
Proof. apply default_has_schema. destruct w; vm_compute; reflexivity. Qed.

Example default_table_has_schema w : has_schema (state_table_schema w) (default_value (state_table_schema w)).
Proof. apply default_has_schema. destruct w; vm_compute; reflexivity. Qed.

Example ct_equals_rt_nonvacuous (input result : Type) rt_parse w fmt kind e i :
  ct_parse input result (yacc_grammar_schema w) (state_table_schema w) rt_parse
    (generate (yacc_grammar_schema w) (state_table_schema w) fmt kind e
       (default_value (yacc_grammar_schema w)) (default_value (state_table_schema w))) i
  = Done (rt_parse (default_value (yacc_grammar_schema w)) (default_value (state_table_schema w)) kind e i).
Proof.
  exact (ct_equals_rt input result rt_parse w fmt kind e _ _ i
           (default_grammar_has_schema w) (default_table_has_schema w)).
Qed.

(* ---- lexer side ------------------------------------------------------------------------- *)

Lemma quote_rule_roundtrip : quote_rule_roundtrip_stmt.
Proof.
  intros [tok name span re ss tgt]. unfold unquote_rule, quote_rule_src. cbn.
  destruct tok, name, tgt; reflexivity.
Qed.

Lemma quote_start_state_roundtrip : quote_start_state_roundtrip_stmt.
Proof. intros [id name excl span]. reflexivity. Qed.

Section LexerProofs.
  Variable RE : Type.
  Variable compile : list N -> lexflags -> option RE.

  Lemma pl_rule_new_fill s h :
    rule_new RE compile s (fill h) = Done (option_map (mkRule s) (compile (rs_re_str s) (fill h))).
  Proof.
    unfold rule_new. rewrite <- (lexerdef_flags_roundtrip h). rewrite (rule_new_no_panic h). reflexivity.
  Qed.

  Lemma pl_build_rules_inv h : forall srcs rs,
    build_rules RE compile (fill h) srcs = Done (Some rs) ->
    Forall2 (fun s r => r_src r = s /\ compile (rs_re_str s) (fill h) = Some (r_re r)) srcs rs.
  Proof.
    induction srcs as [|s srcs IH]; intros rs H; cbn [build_rules] in H.
    - injection H as H. subst rs. constructor.
    - rewrite pl_rule_new_fill in H. cbn [obind] in H.
      destruct (build_rules RE compile (fill h) srcs) as [ors| |]; cbn [obind] in H; try discriminate H.
      destruct (compile (rs_re_str s) (fill h)) as [re|] eqn:Ec; cbn [option_map] in H; [|discriminate H].
      destruct ors as [rs'|]; [|discriminate H]. injection H as H. subst rs.
      constructor; [split; [reflexivity|exact Ec]|]. apply IH. reflexivity.
  Qed.

  Lemma pl_build_rules_no_panic h : forall srcs, build_rules RE compile (fill h) srcs <> Panic.
  Proof.
    induction srcs as [|s srcs IH]; cbn [build_rules]; [discriminate|].
    rewrite pl_rule_new_fill. cbn [obind].
    destruct (build_rules RE compile (fill h) srcs) as [ors| |]; cbn [obind]; try discriminate.
    exfalso. apply IH. reflexivity.
  Qed.

  Lemma pl_unwrap_rules h assign : forall srcs rs,
    Forall2 (fun s r => r_src r = s /\ compile (rs_re_str s) (fill h) = Some (r_re r)) srcs rs ->
    unwrap_rules RE compile (regen h)
      (map (fun r => quote_rule_src (r_src r)) (map (set_tok_id RE assign) rs))
    = Done (map (set_tok_id RE assign) rs).
  Proof.
    intros srcs rs H. induction H as [|s r srcs rs [Es Ec] _ IH]; [reflexivity|].
    cbn [map unwrap_rules]. rewrite quote_rule_roundtrip.
    rewrite (lexerdef_flags_roundtrip h). rewrite pl_rule_new_fill.
    rewrite (lexerdef_flags_roundtrip h) in IH.
    unfold set_tok_id at 1 2. cbn [r_src rs_re_str]. rewrite Es, Ec. cbn [option_map obind].
    rewrite IH. cbn [obind]. unfold set_tok_id at 2. rewrite Es. reflexivity.
  Qed.
End LexerProofs.

Lemma ct_lexerdef_equals_rt : ct_lexerdef_equals_rt_stmt.
Proof.
  intros RE compile h starts srcs assign ld H. unfold rt_lexerdef in H.
  destruct (build_rules RE compile (fill h) srcs) as [[rs|]| |] eqn:Eb; cbn [obind option_map] in H;
    try discriminate H.
  injection H as H. subst ld.
  pose proof (pl_build_rules_inv RE compile h srcs rs Eb) as Hinv.
  unfold ct_lexerdef, quote_lexerdef. cbn [ql_flags ql_rules ql_start_states ld_rules ld_start_states].
  change (run_generated_flags (quote_flags h)) with (regen h).
  rewrite (pl_unwrap_rules RE compile h assign srcs rs Hinv). cbn [obind].
  rewrite map_map. f_equal. f_equal.
  rewrite <- (map_id starts) at 2. apply map_ext. intros s. apply quote_start_state_roundtrip.
Qed.

Lemma ct_lex_equals_rt : ct_lex_equals_rt_stmt.
Proof.
  intros RE compile linput lresult rt_lex h starts srcs assign ld i H. unfold ct_lex.
  rewrite (ct_lexerdef_equals_rt RE compile h starts srcs assign ld H). reflexivity.
Qed.

Lemma rt_lexerdef_no_panic : rt_lexerdef_no_panic_stmt.
Proof.
  intros RE compile h starts srcs assign. unfold rt_lexerdef.
  pose proof (pl_build_rules_no_panic RE compile h srcs) as Hn.
  destruct (build_rules RE compile (fill h) srcs) as [ors| |]; cbn [obind]; try discriminate.
  exfalso. apply Hn. reflexivity.
Qed.

(* a "compiler" that only looks at the case_insensitive flag; header: case_insensitive = true *)
Lemma lexerdef_flags_needed : lexerdef_flags_needed_stmt.
Proof.
  exists (fun _ f => case_insensitive f).
  exists {| dot_matches_new_line := None; multi_line := None; octal := None; posix_escapes := None;
            allow_wholeline_comments := None; case_insensitive := Some true; swap_greed := None;
            ignore_whitespace := None; unicode := None; size_limit := None; dfa_size_limit := None;
            nest_limit := None |}.
  exists [], [mkRuleSrc (Some 0%N) (Some [97%N]) (0%N, 1%N) [97%N] [0%N] None], (fun s => rs_tok_id s).
  eexists. split; [vm_compute; reflexivity|]. vm_compute. discriminate.
Qed.
