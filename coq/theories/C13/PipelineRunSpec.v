(* C13 — the pipeline statement PER RUN, and what it takes to make it a statement about values.

   [rt_run g t kind e i r]: ONE run of the run-time parser
   (`RTParserBuilder::new(&grm, &stable).recoverer(kind).parse_…(lexer, …)`) on the built objects
   may return r = (value or tree, errors with their repairs() lists).  Nothing else is assumed
   about it.  [ct_run m i r]: one call of the generated `parse()` may return r — it decodes the
   two embedded constants and makes that very library call (PipelineModel.v, facts P1-P4).

     ct_runs_are_rt_runs     (no hypothesis) the generated parse() and the run-time call have the
                             same SET of possible outcomes — all that could be said, and all that was
                             compared (repair sets), while the applied repair depended on the run;
     ct_equals_rt_value      under [applied_repair_determined] — the run-time parser is a FUNCTION
                             of (grammar, table, kind, entry point, input): the fact /repo ca69cd1
                             established (simplify_repairs: insertion-ordered dedup + stable sort;
                             Coq: C05_simplify_deterministic for the mirror of that code) — every call of
                             the generated parse() returns the SAME (value, errors) as every run-time
                             call, on every input, erroneous ones with several equally ranked repair
                             sequences included;
     ct_equals_rt_value_refuted   the hypothesis is needed: for the pinned selection among tied
                             sequences (any enumeration of the found set that is sorted by the key) the
                             auditor's grammar has a generated-parser run and a run-time run on the same
                             input with different VALUES (Some "A" / Some "B").

   [ct_equals_rt] of PipelineSpec.v (the run-time parser as a function [rt_parse]) is the instance
   rt_run := the graph of rt_parse, which is determined ([graph_determined]). *)
From Coq Require Import List NArith Bool Arith Sorting.Sorted Sorting.Permutation.
From GV Require Import Common.Outcome C14.Model C14.Schema_gen C14.Spec C13.Model C13.PipelineModel
  C13.PipelineRunModel.
Import ListNotations.

Section Runs.
  Variables (input result : Type) (sg st : schema).
  Variable rt_run : value -> value -> recovery -> entry -> input -> result -> Prop.

  (* the generated parse(): `let __data = __lrpar_parser_data(); … RTParserBuilder::new(grm, stable)
     .recoverer(kind).parse_…`; a start-up panic has no outcome *)
  Definition ct_run (m : gmodule) (i : input) (r : result) : Prop :=
    exists g t, parser_data sg st m = Done (g, t) /\ rt_run g t (m_kind m) (m_entry m) i r.
End Runs.

(* THE FACT /repo ca69cd1 ESTABLISHED: what a parse returns — the repairs() list of every error in
   its order, hence the applied sequence, the value and the later errors — is a function of
   (grammar, table, recovery kind, entry point, input); two runs cannot differ *)
Definition applied_repair_determined {input result : Type}
  (rt_run : value -> value -> recovery -> entry -> input -> result -> Prop) : Prop :=
  forall g t k e i r1 r2, rt_run g t k e i r1 -> rt_run g t k e i r2 -> r1 = r2.

Definition ct_runs_are_rt_runs_stmt : Prop :=
  forall (input result : Type)
         (rt_run : value -> value -> recovery -> entry -> input -> result -> Prop)
         (w : stw) fmt kind e g t i r,
    has_schema (yacc_grammar_schema w) g -> has_schema (state_table_schema w) t ->
    (ct_run input result (yacc_grammar_schema w) (state_table_schema w) rt_run
            (generate (yacc_grammar_schema w) (state_table_schema w) fmt kind e g t) i r
     <-> rt_run g t kind e i r).

(* result = (value or tree, errors): [val] the action type / Node, [err] a LexParseError with its
   repairs() list IN ORDER *)
Definition ct_equals_rt_value_stmt : Prop :=
  forall (input val err : Type)
         (rt_run : value -> value -> recovery -> entry -> input -> option val * list err -> Prop),
    applied_repair_determined rt_run ->
    forall (w : stw) fmt kind e g t i r_ct r_rt,
      has_schema (yacc_grammar_schema w) g -> has_schema (state_table_schema w) t ->
      ct_run input (option val * list err) (yacc_grammar_schema w) (state_table_schema w) rt_run
             (generate (yacc_grammar_schema w) (state_table_schema w) fmt kind e g t) i r_ct ->
      rt_run g t kind e i r_rt ->
      r_ct = r_rt.

(* a function's graph is determined: PipelineSpec.ct_equals_rt_stmt is the instance of
   ct_equals_rt_value_stmt for it (and the hypothesis is satisfiable) *)
Definition graph_determined_stmt : Prop :=
  forall (input result : Type) (rt_parse : value -> value -> recovery -> entry -> input -> result),
    applied_repair_determined (fun g t k e i r => r = rt_parse g t k e i).

(* ---- the selection among equally ranked sequences ------------------------------------- *)

Section TiedSpec.
  Variables (input rseq rest : Type).
  Variable found : value -> value -> input -> list rseq.
  Variable key : rseq -> nat.
  Variable continue_with : value -> value -> recovery -> entry -> input -> option rseq -> rest.

  Definition key_sorted (o : list rseq) : Prop := StronglySorted (fun a b => key a <= key b) o.

  (* the pinned code: `hs.drain()` of a randomly seeded HashSet enumerates the found set in ANY
     order, sort_unstable_by leaves ANY order that is sorted by the key; the head is applied *)
  Definition rt_run_pinned (g t : value) (k : recovery) (e : entry) (i : input) (r : rest * list rseq) : Prop :=
    exists o, Permutation (found g t i) o /\ key_sorted o /\
              r = run_with_order input rseq rest continue_with g t k e i o.

  (* the repaired code *)
  Definition rt_run_fixed (g t : value) (k : recovery) (e : entry) (i : input) (r : rest * list rseq) : Prop :=
    r = rt_parse_fixed input rseq rest found key continue_with g t k e i.
End TiedSpec.

(* the repaired selection makes the parser a function, whatever the search finds and whatever the
   rest of the parse does with the applied sequence ... *)
Definition fixed_run_determined_stmt : Prop :=
  forall (input rseq rest : Type) found key continue_with,
    applied_repair_determined (rt_run_fixed input rseq rest found key continue_with).

(* ... and returns one of the outcomes the pinned code could return (the repair narrows) *)
Definition fixed_refines_pinned_stmt : Prop :=
  forall (input rseq rest : Type) found key continue_with g t k e i r,
    rt_run_fixed input rseq rest found key continue_with g t k e i r ->
    rt_run_pinned input rseq rest found key continue_with g t k e i r.

(* among sequences of ONE rank the repairs() list is the order in which they were found: the
   first found is the one applied *)
Definition tied_keep_found_order_stmt : Prop :=
  forall (rseq : Type) (key : rseq -> nat) (l : list rseq),
    (forall x y, In x l -> In y l -> key x = key y) -> stable_sort rseq key l = l.

(* the pinned behaviour: the same input, one call of the generated parse() and one run-time call,
   different VALUES; in particular the pinned parser is not a function *)
Definition ct_equals_rt_value_refuted_stmt : Prop :=
  exists (w : stw) fmt kind e g t i r_ct r_rt,
    has_schema (yacc_grammar_schema w) g /\ has_schema (state_table_schema w) t /\
    ct_run unit _ (yacc_grammar_schema w) (state_table_schema w)
           (rt_run_pinned unit aud_rseq _ aud_found aud_key aud_continue)
           (generate (yacc_grammar_schema w) (state_table_schema w) fmt kind e g t) i r_ct /\
    rt_run_pinned unit aud_rseq _ aud_found aud_key aud_continue g t kind e i r_rt /\
    fst (fst r_ct) = Some [65%N] /\ fst (fst r_rt) = Some [66%N] /\
    ~ applied_repair_determined (rt_run_pinned unit aud_rseq _ aud_found aud_key aud_continue).

(* with the repaired selection the same grammar and input give Some "A" on both sides, always *)
Definition aud_fixed_value_stmt : Prop :=
  forall (w : stw) fmt kind e g t r_ct r_rt,
    has_schema (yacc_grammar_schema w) g -> has_schema (state_table_schema w) t ->
    ct_run unit _ (yacc_grammar_schema w) (state_table_schema w)
           (rt_run_fixed unit aud_rseq _ aud_found aud_key aud_continue)
           (generate (yacc_grammar_schema w) (state_table_schema w) fmt kind e g t) tt r_ct ->
    rt_run_fixed unit aud_rseq _ aud_found aud_key aud_continue g t kind e tt r_rt ->
    r_ct = r_rt /\ fst (fst r_rt) = Some [65%N] /\ snd r_rt = [AudInsertA; AudInsertB].
