(* C13 / C18 — statements about the lexer builder's settings sequence (C13/LexSettingsModel.v).  Statements only. *)
From Coq Require Import List NArith Bool Sorted.
From GV Require Import Common.Outcome C12.MarkMapModel C12.MarkMapSpec C13.SettingsModel C13.SettingsSpec C13.LexSettingsModel.
Import ListNotations.
Local Open Scope N_scope.

(* the builder's header: default behaviour Ours, and (built by inserts only: [lex_header_of_builder]) sorted, every entry
   has a value and no marks *)
Definition lex_header {V} (h : markmap V) : Prop := parsed_section h /\ mm_default h = Ours.
Definition is_lex_key (k : mkey) : bool := existsb (fun k0 => mkey_eqb k0 k) (K_LEXERKIND :: FLAG_KEYS).

Definition lex_header_of_builder_stmt : Prop :=
  forall V (kvs : list (mkey * V)), exists h, lex_header_of V kvs (lex_header_new V) = Done h /\ lex_header h.

(* the whole sequence, for every builder state (lexerkind field, header) and every parsed section: never a panic, never a
   merge error (the default behaviour Ours decides every key present on both sides);
   lexerkind in force = the builder's FIELD when given, else the header's own "lexerkind" entry (only reachable through the
   section in the real builder: no setter inserts that key), else the section's, else None = default LRNonStreamingLexer;
   each flag = the builder's when set, else the section's;
   unused() = sorted, and exactly the keys of the builder's header or of the section that are not one of the 13 marked keys *)
Definition lex_settings_in_force_stmt : Prop :=
  forall V (lk : option V) (h0 s : markmap V), lex_header h0 -> parsed_section s ->
    exists u,
      lex_settings_run V lk h0 s
        = Done (LDone V (pick lk (pick (sec_val h0 K_LEXERKIND) (sec_val s K_LEXERKIND)))
                        (map (fun k => pick (sec_val h0 k) (sec_val s k)) FLAG_KEYS) u)
      /\ StronglySorted key_lt u
      /\ (forall k, In k u <-> (In k (mm_keys V h0) \/ In k (mm_keys V s)) /\ is_lex_key k = false).

Definition lex_settings_merge_never_conflicts_stmt : Prop :=
  forall V (lk : option V) (h0 s : markmap V), lex_header h0 -> parsed_section s ->
    exists l f u, lex_settings_run V lk h0 s = Done (LDone V l f u).

(* the real builder only ever inserts flag keys: then unused() = the section's keys other than the 13, in key order *)
Definition lex_unknown_keys_reported_stmt : Prop :=
  forall V (lk : option V) (h0 s : markmap V), lex_header h0 -> parsed_section s ->
    Forall (fun k => is_lex_key k = true) (mm_keys V h0) ->
    exists l f u, lex_settings_run V lk h0 s = Done (LDone V l f u)
      /\ u = filter (fun k => negb (is_lex_key k)) (mm_keys V s)
      /\ StronglySorted key_lt u.
