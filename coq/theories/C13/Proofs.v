(* C13 — proofs of the statements of Spec.v. *)
From Coq Require Import List Arith NArith Bool Lia.
From Coq Require Decimal DecimalNat.
From GV Require Import Common.Outcome C13.Model C13.Spec.
Import ListNotations.

(* ------------------------------------------------------------------ *)
(* slices, find, starts_with                                           *)
(* ------------------------------------------------------------------ *)

Lemma slice_from_app : forall (a b : list N), slice_from (a ++ b) (length a) = Done b.
Proof.
  intros a b. unfold slice_from.
  rewrite app_length.
  replace (length a <=? length a + length b) with true
    by (symmetry; apply Nat.leb_le; lia).
  rewrite skipn_app, skipn_all, Nat.sub_diag. reflexivity.
Qed.

Lemma slice_mid : forall (a b c : list N),
  slice (a ++ b ++ c) (length a) (length a + length b) = Done b.
Proof.
  intros a b c. unfold slice.
  rewrite !app_length.
  replace (length a <=? length a + length b) with true
    by (symmetry; apply Nat.leb_le; lia).
  replace (length a + length b <=? length a + (length b + length c)) with true
    by (symmetry; apply Nat.leb_le; lia).
  cbn [andb].
  rewrite skipn_app, skipn_all, Nat.sub_diag. cbn [skipn app].
  replace (length a + length b - length a) with (length b) by lia.
  rewrite firstn_app, firstn_all, Nat.sub_diag. cbn [firstn]. rewrite app_nil_r. reflexivity.
Qed.

Definition nd (c : N) : Prop := c <> DOLLAR.

Lemma find_dollar_none : forall lits, Forall nd lits -> find_dollar lits = None.
Proof.
  intros lits H. induction H as [|c l Hc Hl IH]; cbn [find_dollar].
  - reflexivity.
  - apply N.eqb_neq in Hc. rewrite Hc, IH. reflexivity.
Qed.

Lemma find_dollar_lits : forall lits r, Forall nd lits ->
  find_dollar (lits ++ DOLLAR :: r) = Some (length lits).
Proof.
  intros lits r H. induction H as [|c l Hc Hl IH]; cbn [find_dollar app length].
  - rewrite N.eqb_refl. reflexivity.
  - apply N.eqb_neq in Hc. rewrite Hc, IH. reflexivity.
Qed.

Lemma starts_with_app : forall p r, starts_with p (p ++ r) = true.
Proof.
  induction p as [|a p IH]; intros r; cbn [starts_with app].
  - reflexivity.
  - rewrite N.eqb_refl, IH. reflexivity.
Qed.

(* ------------------------------------------------------------------ *)
(* one scanner iteration at a '$'                                      *)
(* ------------------------------------------------------------------ *)

Section ScanFacts.
  Variable isnum : N -> bool.
  Hypothesis Hsane : isnum_sane isnum.

  Lemma num_not_dollar : forall d, isnum d = true -> d <> DOLLAR.
  Proof. intros d Hd E. subst d. destruct Hsane as [H _]. unfold DOLLAR in Hd. congruence. Qed.

  Lemma num_not_l : forall d, isnum d = true -> d <> 108%N.
  Proof. intros d Hd E. subst d. destruct Hsane as [_ [H _]]. congruence. Qed.

  Lemma num_not_s : forall d, isnum d = true -> d <> 115%N.
  Proof. intros d Hd E. subst d. destruct Hsane as [_ [_ H]]. congruence. Qed.

  (* unfolding of one iteration whose pending literal run is [lits] and whose
     next '$' starts [rest'] *)
  Lemma scan_at_dollar : forall fuel done lits r outs, Forall nd lits ->
    scan isnum (S fuel) (done ++ lits ++ DOLLAR :: r) (length done) outs =
    let pre := done ++ lits ++ DOLLAR :: r in
    let pos := length done + length lits in
    let at_ := DOLLAR :: r in
    if starts_with s_dd at_ then
      scan isnum fuel pre (pos + 2) (outs ++ (lits ++ [DOLLAR]))
    else if starts_with s_lexer at_ then
      scan isnum fuel pre (pos + 6) (outs ++ lits ++ out_lexer)
    else if starts_with s_span at_ then
      scan isnum fuel pre (pos + 5) (outs ++ lits ++ out_span)
    else if (match r with c :: _ => isnum c | [] => false end) then
      scan isnum fuel pre (pos + 1) (outs ++ lits ++ out_arg)
    else Done (SubstErr (byte_len (done ++ lits) + 1)).
  Proof.
    intros fuel done lits r outs Hl.
    cbn zeta. cbn [scan].
    rewrite slice_from_app. cbn [obind].
    rewrite (find_dollar_lits lits r Hl).
    replace (done ++ lits ++ DOLLAR :: r) with ((done ++ lits) ++ DOLLAR :: r)
      by (rewrite app_assoc; reflexivity).
    replace (length done + length lits) with (length (done ++ lits))
      by (rewrite app_length; reflexivity).
    rewrite slice_from_app. cbn [obind].
    destruct (starts_with s_dd (DOLLAR :: r)) eqn:Edd.
    { (* "$$" *)
      replace ((done ++ lits) ++ DOLLAR :: r) with (done ++ (lits ++ [DOLLAR]) ++ r)
        by (rewrite <- !app_assoc; reflexivity).
      replace (length (done ++ lits) + 1) with (length done + length (lits ++ [DOLLAR]))
        by (rewrite !app_length; cbn [length]; lia).
      rewrite slice_mid. cbn [obind]. reflexivity. }
    assert (Hlit : slice ((done ++ lits) ++ DOLLAR :: r) (length done) (length (done ++ lits)) = Done lits).
    { rewrite <- app_assoc. rewrite app_length. apply slice_mid. }
    destruct (starts_with s_lexer (DOLLAR :: r)) eqn:Elx.
    { rewrite Hlit. reflexivity. }
    destruct (starts_with s_span (DOLLAR :: r)) eqn:Esp.
    { rewrite Hlit. reflexivity. }
    assert (Hfirst : firstn (length (done ++ lits) + 1) ((done ++ lits) ++ DOLLAR :: r)
                     = (done ++ lits) ++ [DOLLAR]).
    { replace ((done ++ lits) ++ DOLLAR :: r) with (((done ++ lits) ++ [DOLLAR]) ++ r)
        by (rewrite <- app_assoc; reflexivity).
      replace (length (done ++ lits) + 1) with (length ((done ++ lits) ++ [DOLLAR]))
        by (rewrite (app_length (done ++ lits) [DOLLAR]); reflexivity).
      rewrite firstn_app, firstn_all, Nat.sub_diag. cbn [firstn]. apply app_nil_r. }
    assert (Hbl : forall a b, byte_len (a ++ b) = byte_len a + byte_len b).
    { intros a b. induction a as [|x a IH]; cbn [byte_len app]; [reflexivity | rewrite IH; lia]. }
    destruct r as [|c r'].
    { (* '$' is the last character *)
      replace (length (done ++ lits) + 1 <? length ((done ++ lits) ++ [DOLLAR])) with false
        by (symmetry; apply Nat.ltb_ge; rewrite (app_length (done ++ lits) [DOLLAR]); cbn [length]; lia).
      rewrite Hfirst, Hbl. reflexivity. }
    replace (length (done ++ lits) + 1 <? length ((done ++ lits) ++ DOLLAR :: c :: r')) with true
      by (symmetry; apply Nat.ltb_lt; rewrite (app_length (done ++ lits)); cbn [length]; lia).
    replace ((done ++ lits) ++ DOLLAR :: c :: r') with (((done ++ lits) ++ [DOLLAR]) ++ c :: r') at 1
      by (rewrite <- app_assoc; reflexivity).
    replace (length (done ++ lits) + 1) with (length ((done ++ lits) ++ [DOLLAR])) at 1
      by (rewrite (app_length (done ++ lits) [DOLLAR]); reflexivity).
    rewrite slice_from_app. cbn [obind].
    destruct (isnum c) eqn:Ec.
    { rewrite Hlit. reflexivity. }
    rewrite Hfirst, Hbl. reflexivity.
  Qed.
End ScanFacts.

(* ------------------------------------------------------------------ *)
(* the scanner meets the specification                                 *)
(* ------------------------------------------------------------------ *)

Lemma byte_len_app : forall a b, byte_len (a ++ b) = byte_len a + byte_len b.
Proof.
  intros a b. induction a as [|x a IH]; cbn [byte_len app]; [reflexivity | rewrite IH; lia].
Qed.

Lemma len_utf8_ascii : forall c, (c <? 128)%N = true -> len_utf8 c = 1.
Proof. intros c H. unfold len_utf8. rewrite H. reflexivity. Qed.

Section ScanMain.
  Variable isnum : N -> bool.
  Hypothesis Hsane : isnum_sane isnum.

  Lemma num_all_nd : forall ds, Forall (fun c => isnum c = true) ds -> Forall nd ds.
  Proof.
    intros ds H. induction H as [|c l Hc Hl IH]; constructor; [|assumption].
    apply (num_not_dollar isnum Hsane); assumption.
  Qed.

  (* re-association used to hand the state after a '$' to the induction hypothesis *)
  Lemma reassoc : forall (done lits mid r : list N),
    done ++ lits ++ mid ++ r = (done ++ lits ++ mid) ++ [] ++ r.
  Proof. intros. cbn [app]. rewrite <- !app_assoc. reflexivity. Qed.

  Lemma len3 : forall (done lits mid : list N),
    length (done ++ lits ++ mid) = length done + length lits + length mid.
  Proof. intros. rewrite !app_length. lia. Qed.

  Lemma scan_ok : forall rest ts, tokenises isnum rest ts ->
    forall done lits outs fuel, Forall nd lits -> length rest < fuel ->
      scan isnum fuel (done ++ lits ++ rest) (length done) outs
      = Done (SubstOk (outs ++ lits ++ render ts)).
  Proof.
    intros rest ts H.
    induction H as [ | c r ts Hc Ht IH | r ts Ht IH | r ts Ht IH | r ts Ht IH
                     | d ds r ts Hnum Hhd Ht IH ];
      intros done lits outs fuel Hl Hf.
    - (* end of text *)
      destruct fuel as [|fuel]; [cbn in Hf; lia|].
      cbn [scan]. rewrite slice_from_app. cbn [obind].
      change (render []) with (@nil N). rewrite !app_nil_r.
      rewrite (find_dollar_none _ Hl). reflexivity.
    - (* a literal character joins the pending run *)
      specialize (IH done (lits ++ [c]) outs fuel).
      rewrite <- !app_assoc in IH. cbn [app] in IH.
      rewrite IH.
      + reflexivity.
      + apply Forall_app. split; [assumption|]. constructor; [exact Hc | constructor].
      + cbn [length] in Hf. lia.
    - (* $$ *)
      destruct fuel as [|fuel]; [cbn in Hf; lia|].
      change (s_dd ++ r) with (DOLLAR :: DOLLAR :: r).
      rewrite (scan_at_dollar isnum fuel done lits (DOLLAR :: r) outs Hl). cbn zeta.
      replace (starts_with s_dd (DOLLAR :: DOLLAR :: r)) with true by reflexivity.
      specialize (IH (done ++ lits ++ [DOLLAR; DOLLAR]) [] (outs ++ (lits ++ [DOLLAR])) fuel (Forall_nil _)).
      rewrite len3 in IH. cbn [length] in IH.
      rewrite <- (reassoc done lits [DOLLAR; DOLLAR] r) in IH. cbn [app] in IH.
      cbn [app]. rewrite IH.
      + cbn [app]. unfold render. cbn [map concat render1]. rewrite <- !app_assoc. reflexivity.
      + unfold s_dd in Hf. cbn [length app] in Hf. lia.
    - (* $lexer *)
      destruct fuel as [|fuel]; [cbn in Hf; lia|].
      change (s_lexer ++ r) with (DOLLAR :: (tl s_lexer ++ r)).
      rewrite (scan_at_dollar isnum fuel done lits (tl s_lexer ++ r) outs Hl). cbn zeta.
      replace (starts_with s_dd (DOLLAR :: tl s_lexer ++ r)) with false by reflexivity.
      replace (starts_with s_lexer (DOLLAR :: tl s_lexer ++ r)) with true
        by (symmetry; apply (starts_with_app s_lexer r)).
      specialize (IH (done ++ lits ++ s_lexer) [] (outs ++ lits ++ out_lexer) fuel (Forall_nil _)).
      rewrite len3 in IH. cbn [length s_lexer] in IH.
      rewrite <- (reassoc done lits s_lexer r) in IH.
      change (DOLLAR :: tl s_lexer ++ r) with (s_lexer ++ r).
      rewrite IH.
      + cbn [app]. unfold render. cbn [map concat render1]. rewrite <- !app_assoc. reflexivity.
      + unfold s_lexer in Hf. cbn [length app] in Hf. lia.
    - (* $span *)
      destruct fuel as [|fuel]; [cbn in Hf; lia|].
      change (s_span ++ r) with (DOLLAR :: (tl s_span ++ r)).
      rewrite (scan_at_dollar isnum fuel done lits (tl s_span ++ r) outs Hl). cbn zeta.
      replace (starts_with s_dd (DOLLAR :: tl s_span ++ r)) with false by reflexivity.
      replace (starts_with s_lexer (DOLLAR :: tl s_span ++ r)) with false by reflexivity.
      replace (starts_with s_span (DOLLAR :: tl s_span ++ r)) with true
        by (symmetry; apply (starts_with_app s_span r)).
      specialize (IH (done ++ lits ++ s_span) [] (outs ++ lits ++ out_span) fuel (Forall_nil _)).
      rewrite len3 in IH. cbn [length s_span] in IH.
      rewrite <- (reassoc done lits s_span r) in IH.
      change (DOLLAR :: tl s_span ++ r) with (s_span ++ r).
      rewrite IH.
      + cbn [app]. unfold render. cbn [map concat render1]. rewrite <- !app_assoc. reflexivity.
      + unfold s_span in Hf. cbn [length app] in Hf. lia.
    - (* $<digits> : the '$' becomes "__gt_arg_", the digits stay as literal text *)
      destruct fuel as [|fuel]; [cbn in Hf; lia|].
      assert (Hd : isnum d = true) by (inversion Hnum; assumption).
      pose proof (num_not_dollar isnum Hsane d Hd) as Hd1.
      pose proof (num_not_l isnum Hsane d Hd) as Hd2.
      pose proof (num_not_s isnum Hsane d Hd) as Hd3.
      rewrite (scan_at_dollar isnum fuel done lits ((d :: ds) ++ r) outs Hl). cbn zeta.
      assert (E1 : starts_with s_dd (DOLLAR :: (d :: ds) ++ r) = false).
      { cbn [starts_with s_dd app]. rewrite N.eqb_refl. cbn [andb].
        replace (36 =? d)%N with false; [reflexivity|].
        symmetry. apply N.eqb_neq. intro E. apply Hd1. symmetry. exact E. }
      assert (E2 : starts_with s_lexer (DOLLAR :: (d :: ds) ++ r) = false).
      { cbn [starts_with s_lexer app]. rewrite N.eqb_refl. cbn [andb].
        replace (108 =? d)%N with false; [reflexivity|].
        symmetry. apply N.eqb_neq. intro E. apply Hd2. symmetry. exact E. }
      assert (E3 : starts_with s_span (DOLLAR :: (d :: ds) ++ r) = false).
      { cbn [starts_with s_span app]. rewrite N.eqb_refl. cbn [andb].
        replace (115 =? d)%N with false; [reflexivity|].
        symmetry. apply N.eqb_neq. intro E. apply Hd3. symmetry. exact E. }
      rewrite E1, E2, E3. cbn [app]. rewrite Hd.
      specialize (IH (done ++ lits ++ [DOLLAR]) (d :: ds) (outs ++ lits ++ out_arg) fuel (num_all_nd _ Hnum)).
      rewrite len3 in IH. cbn [length] in IH.
      replace ((done ++ lits ++ [DOLLAR]) ++ (d :: ds) ++ r) with (done ++ lits ++ DOLLAR :: d :: ds ++ r) in IH
        by (rewrite <- !app_assoc; reflexivity).
      rewrite IH.
      + unfold render. cbn [map concat render1]. rewrite <- !app_assoc. reflexivity.
      + cbn [length app] in Hf. rewrite app_length in Hf. lia.
  Qed.
End ScanMain.

Section ScanErr.
  Variable isnum : N -> bool.
  Hypothesis Hsane : isnum_sane isnum.

  Lemma scan_err : forall rest n, bad_at isnum rest n ->
    forall done lits outs fuel, Forall nd lits -> length rest < fuel ->
      scan isnum fuel (done ++ lits ++ rest) (length done) outs
      = Done (SubstErr (byte_len (done ++ lits) + n)).
  Proof.
    intros rest n H.
    induction H as [ r Hbad | c r n Hc Hb IH | r n Hb IH | r n Hb IH | r n Hb IH | d r n Hd Hb IH ];
      intros done lits outs fuel Hl Hf.
    - (* the offending '$' *)
      destruct fuel as [|fuel]; [cbn in Hf; lia|].
      rewrite (scan_at_dollar isnum fuel done lits r outs Hl). cbn zeta.
      destruct (starts_with s_dd (DOLLAR :: r)) eqn:E1.
      { exfalso. apply Hbad. left. cbn [starts_with s_dd] in E1. rewrite N.eqb_refl in E1. exact E1. }
      destruct (starts_with s_lexer (DOLLAR :: r)) eqn:E2.
      { exfalso. apply Hbad. right. left. cbn [starts_with s_lexer] in E2. rewrite N.eqb_refl in E2. exact E2. }
      destruct (starts_with s_span (DOLLAR :: r)) eqn:E3.
      { exfalso. apply Hbad. right. right. left. cbn [starts_with s_span] in E3. rewrite N.eqb_refl in E3. exact E3. }
      destruct r as [|c r'].
      { reflexivity. }
      destruct (isnum c) eqn:Ec.
      { exfalso. apply Hbad. right. right. right. exists c, r'. split; [reflexivity | exact Ec]. }
      reflexivity.
    - specialize (IH done (lits ++ [c]) outs fuel).
      rewrite <- !app_assoc in IH. cbn [app] in IH.
      rewrite IH.
      + rewrite (app_assoc done lits [c]). rewrite (byte_len_app (done ++ lits) [c]).
        cbn [byte_len]. f_equal. f_equal. lia.
      + apply Forall_app. split; [assumption|]. constructor; [exact Hc | constructor].
      + cbn [length] in Hf. lia.
    - destruct fuel as [|fuel]; [cbn in Hf; lia|].
      change (s_dd ++ r) with (DOLLAR :: DOLLAR :: r).
      rewrite (scan_at_dollar isnum fuel done lits (DOLLAR :: r) outs Hl). cbn zeta.
      replace (starts_with s_dd (DOLLAR :: DOLLAR :: r)) with true by reflexivity.
      specialize (IH (done ++ lits ++ [DOLLAR; DOLLAR]) [] (outs ++ (lits ++ [DOLLAR])) fuel (Forall_nil _)).
      rewrite len3 in IH. cbn [length] in IH.
      rewrite <- (reassoc done lits [DOLLAR; DOLLAR] r) in IH. cbn [app] in IH.
      cbn [app]. rewrite IH.
      + rewrite app_nil_r. rewrite (app_assoc done lits). rewrite (byte_len_app (done ++ lits)).
        f_equal. f_equal. change (byte_len [DOLLAR; DOLLAR]) with 2. lia.
      + unfold s_dd in Hf. cbn [length app] in Hf. lia.
    - destruct fuel as [|fuel]; [cbn in Hf; lia|].
      change (s_lexer ++ r) with (DOLLAR :: (tl s_lexer ++ r)).
      rewrite (scan_at_dollar isnum fuel done lits (tl s_lexer ++ r) outs Hl). cbn zeta.
      replace (starts_with s_dd (DOLLAR :: tl s_lexer ++ r)) with false by reflexivity.
      replace (starts_with s_lexer (DOLLAR :: tl s_lexer ++ r)) with true
        by (symmetry; apply (starts_with_app s_lexer r)).
      specialize (IH (done ++ lits ++ s_lexer) [] (outs ++ lits ++ out_lexer) fuel (Forall_nil _)).
      rewrite len3 in IH. cbn [length s_lexer] in IH.
      rewrite <- (reassoc done lits s_lexer r) in IH.
      change (DOLLAR :: tl s_lexer ++ r) with (s_lexer ++ r).
      rewrite IH.
      + rewrite app_nil_r. rewrite (app_assoc done lits). rewrite (byte_len_app (done ++ lits)).
        f_equal. f_equal. change (byte_len s_lexer) with 6. lia.
      + unfold s_lexer in Hf. cbn [length app] in Hf. lia.
    - destruct fuel as [|fuel]; [cbn in Hf; lia|].
      change (s_span ++ r) with (DOLLAR :: (tl s_span ++ r)).
      rewrite (scan_at_dollar isnum fuel done lits (tl s_span ++ r) outs Hl). cbn zeta.
      replace (starts_with s_dd (DOLLAR :: tl s_span ++ r)) with false by reflexivity.
      replace (starts_with s_lexer (DOLLAR :: tl s_span ++ r)) with false by reflexivity.
      replace (starts_with s_span (DOLLAR :: tl s_span ++ r)) with true
        by (symmetry; apply (starts_with_app s_span r)).
      specialize (IH (done ++ lits ++ s_span) [] (outs ++ lits ++ out_span) fuel (Forall_nil _)).
      rewrite len3 in IH. cbn [length s_span] in IH.
      rewrite <- (reassoc done lits s_span r) in IH.
      change (DOLLAR :: tl s_span ++ r) with (s_span ++ r).
      rewrite IH.
      + rewrite app_nil_r. rewrite (app_assoc done lits). rewrite (byte_len_app (done ++ lits)).
        f_equal. f_equal. change (byte_len s_span) with 5. lia.
      + unfold s_span in Hf. cbn [length app] in Hf. lia.
    - destruct fuel as [|fuel]; [cbn in Hf; lia|].
      pose proof (num_not_dollar isnum Hsane d Hd) as Hd1.
      pose proof (num_not_l isnum Hsane d Hd) as Hd2.
      pose proof (num_not_s isnum Hsane d Hd) as Hd3.
      rewrite (scan_at_dollar isnum fuel done lits (d :: r) outs Hl). cbn zeta.
      assert (E1 : starts_with s_dd (DOLLAR :: d :: r) = false).
      { cbn [starts_with s_dd]. rewrite N.eqb_refl. cbn [andb].
        replace (36 =? d)%N with false; [reflexivity|].
        symmetry. apply N.eqb_neq. intro E. apply Hd1. symmetry. exact E. }
      assert (E2 : starts_with s_lexer (DOLLAR :: d :: r) = false).
      { cbn [starts_with s_lexer]. rewrite N.eqb_refl. cbn [andb].
        replace (108 =? d)%N with false; [reflexivity|].
        symmetry. apply N.eqb_neq. intro E. apply Hd2. symmetry. exact E. }
      assert (E3 : starts_with s_span (DOLLAR :: d :: r) = false).
      { cbn [starts_with s_span]. rewrite N.eqb_refl. cbn [andb].
        replace (115 =? d)%N with false; [reflexivity|].
        symmetry. apply N.eqb_neq. intro E. apply Hd3. symmetry. exact E. }
      rewrite E1, E2, E3, Hd.
      specialize (IH (done ++ lits ++ [DOLLAR]) [] (outs ++ lits ++ out_arg) fuel (Forall_nil _)).
      rewrite len3 in IH. cbn [length] in IH.
      replace ((done ++ lits ++ [DOLLAR]) ++ [] ++ d :: r) with (done ++ lits ++ DOLLAR :: d :: r) in IH
        by (cbn [app]; rewrite <- !app_assoc; reflexivity).
      rewrite IH.
      + rewrite app_nil_r. rewrite (app_assoc done lits). rewrite (byte_len_app (done ++ lits)).
        f_equal. f_equal. change (byte_len [DOLLAR]) with 1. lia.
      + cbn [length] in Hf. cbn [length]. lia.
  Qed.
End ScanErr.

Lemma subst_ok : subst_ok_stmt.
Proof.
  intros isnum pre ts Hs H. unfold subst.
  pose proof (scan_ok isnum Hs pre ts H [] [] [] (S (length pre)) (Forall_nil _)) as E.
  cbn [app length] in E. apply E. lia.
Qed.

Lemma subst_err : subst_err_stmt.
Proof.
  intros isnum pre n Hs H. unfold subst.
  pose proof (scan_err isnum Hs pre n H [] [] [] (S (length pre)) (Forall_nil _)) as E.
  cbn [app length byte_len] in E. apply E. lia.
Qed.

(* ------------------------------------------------------------------ *)
(* totality and unambiguity of the notation                            *)
(* ------------------------------------------------------------------ *)

Lemma starts_with_true : forall p s, starts_with p s = true -> exists r, s = p ++ r.
Proof.
  induction p as [|a p IH]; intros s H; cbn [starts_with] in H.
  - exists s. reflexivity.
  - destruct s as [|b s']; [discriminate|].
    apply andb_true_iff in H. destruct H as [Hab Hp].
    apply N.eqb_eq in Hab. subst b.
    destruct (IH s' Hp) as [r Hr]. exists r. rewrite Hr. reflexivity.
Qed.

Section Total.
  Variable isnum : N -> bool.
  Hypothesis Hsane : isnum_sane isnum.

  (* the maximal numeric run at the head of a text *)
  Lemma numeric_run : forall r, exists ds r', r = ds ++ r' /\
    Forall (fun c => isnum c = true) ds /\ head_not_numeric isnum r'.
  Proof.
    induction r as [|c r IH].
    - exists [], []. repeat split; constructor.
    - destruct (isnum c) eqn:Ec.
      + destruct IH as [ds [r' [E [Hn Hh]]]].
        exists (c :: ds), r'. subst r. repeat split; [constructor; assumption | exact Hh].
      + exists [], (c :: r). repeat split; [constructor | exact Ec].
  Qed.

  Lemma bad_digits : forall ds r n, Forall (fun c => isnum c = true) ds ->
    bad_at isnum r n -> bad_at isnum (ds ++ r) (byte_len ds + n).
  Proof.
    intros ds r n H Hb. induction H as [|c l Hc Hl IH]; cbn [app byte_len].
    - exact Hb.
    - rewrite <- Nat.add_assoc. apply B_lit; [|exact IH].
      apply (num_not_dollar isnum Hsane); assumption.
  Qed.

  Lemma total_len : forall k pre, length pre <= k ->
    (exists ts, tokenises isnum pre ts) \/ (exists n, bad_at isnum pre n).
  Proof.
    induction k as [|k IH]; intros pre Hk.
    - destruct pre; [|cbn in Hk; lia]. left. exists []. constructor.
    - destruct pre as [|c r].
      { left. exists []. constructor. }
      cbn [length] in Hk.
      destruct (N.eq_dec c DOLLAR) as [Ec|Ec].
      2:{ destruct (IH r ltac:(lia)) as [[ts Ht]|[n Hb]].
          - left. exists (Lit c :: ts). constructor; assumption.
          - right. exists (len_utf8 c + n). constructor; assumption. }
      subst c.
      destruct (starts_with [DOLLAR] r) eqn:E1.
      { destruct (starts_with_true _ _ E1) as [r' Hr]. subst r. cbn [app length] in Hk.
        destruct (IH r' ltac:(lia)) as [[ts Ht]|[n Hb]].
        - left. exists (Dollar :: ts). apply (T_dollar isnum r' ts Ht).
        - right. exists (2 + n). apply (B_dollar isnum r' n Hb). }
      destruct (starts_with (tl s_lexer) r) eqn:E2.
      { destruct (starts_with_true _ _ E2) as [r' Hr]. subst r.
        rewrite app_length in Hk. cbn [length tl s_lexer] in Hk.
        destruct (IH r' ltac:(lia)) as [[ts Ht]|[n Hb]].
        - left. exists (LexerT :: ts). apply (T_lexer isnum r' ts Ht).
        - right. exists (6 + n). apply (B_lexer isnum r' n Hb). }
      destruct (starts_with (tl s_span) r) eqn:E3.
      { destruct (starts_with_true _ _ E3) as [r' Hr]. subst r.
        rewrite app_length in Hk. cbn [length tl s_span] in Hk.
        destruct (IH r' ltac:(lia)) as [[ts Ht]|[n Hb]].
        - left. exists (SpanT :: ts). apply (T_span isnum r' ts Ht).
        - right. exists (5 + n). apply (B_span isnum r' n Hb). }
      destruct r as [|d r'].
      { right. exists 1. apply B_here. intros [H|[H|[H|[c [r' [H _]]]]]]; discriminate. }
      destruct (isnum d) eqn:Ed.
      2:{ right. exists 1. apply B_here.
          intros [H|[H|[H|[c [r'' [H Hc]]]]]]; congruence. }
      destruct (numeric_run r') as [ds [r'' [Er [Hn Hh]]]]. subst r'.
      cbn [length] in Hk. rewrite app_length in Hk.
      destruct (IH r'' ltac:(lia)) as [[ts Ht]|[n Hb]].
      + left. exists (Arg (d :: ds) :: ts).
        apply (T_arg isnum d ds r'' ts); [constructor; assumption | exact Hh | exact Ht].
      + right. exists (1 + (byte_len (d :: ds) + n)).
        apply B_arg; [exact Ed|].
        apply (bad_digits (d :: ds) r'' n); [constructor; assumption | exact Hb].
  Qed.
End Total.

Lemma spec_total : spec_total_stmt.
Proof. intros isnum pre Hs. apply (total_len isnum Hs (length pre)). lia. Qed.

Lemma subst_mirror_meets_spec : subst_mirror_meets_spec_stmt.
Proof.
  intros isnum pre Hs.
  destruct (spec_total isnum pre Hs) as [[ts Ht]|[n Hb]].
  - left. exists ts. split; [exact Ht | apply subst_ok; assumption].
  - right. exists n. split; [exact Hb | apply subst_err; assumption].
Qed.

Section Unique.
  Variable isnum : N -> bool.
  Hypothesis Hsane : isnum_sane isnum.

  Lemma run_unique : forall ds1 ds2 r1 r2,
    Forall (fun c => isnum c = true) ds1 -> Forall (fun c => isnum c = true) ds2 ->
    head_not_numeric isnum r1 -> head_not_numeric isnum r2 ->
    ds1 ++ r1 = ds2 ++ r2 -> ds1 = ds2 /\ r1 = r2.
  Proof.
    induction ds1 as [|a ds1 IH]; intros ds2 r1 r2 H1 H2 Hh1 Hh2 E.
    - destruct ds2 as [|b ds2]; [split; [reflexivity | exact E]|].
      cbn [app] in E. subst r1. cbn in Hh1. inversion H2; subst. congruence.
    - destruct ds2 as [|b ds2].
      + cbn [app] in E. subst r2. cbn in Hh2. inversion H1; subst. congruence.
      + cbn [app] in E. inversion E; subst.
        inversion H1; subst. inversion H2; subst.
        destruct (IH ds2 r1 r2) as [Ea Eb]; try assumption.
        subst. split; reflexivity.
  Qed.

  Lemma tokenises_unique_gen : forall pre ts1, tokenises isnum pre ts1 ->
    forall ts2, tokenises isnum pre ts2 -> ts1 = ts2.
  Proof.
    destruct Hsane as [S1 [S2 S3]].
    intros pre ts1 H.
    induction H as [ | c r ts Hc Ht IH | r ts Ht IH | r ts Ht IH | r ts Ht IH
                     | d ds r ts Hnum Hhd Ht IH ]; intros ts2 H2.
    - inversion H2. reflexivity.
    - inversion H2; subst; try (exfalso; apply Hc; reflexivity).
      f_equal. apply IH. assumption.
    - inversion H2; subst.
      + exfalso. match goal with H : _ <> DOLLAR |- _ => apply H; reflexivity end.
      + f_equal. apply IH. assumption.
      + exfalso. match goal with H : Forall _ (_ :: _) |- _ => inversion H; subst end.
        unfold DOLLAR in *. congruence.
    - inversion H2; subst.
      + exfalso. match goal with H : _ <> DOLLAR |- _ => apply H; reflexivity end.
      + f_equal. apply IH. assumption.
      + exfalso. match goal with H : Forall _ (_ :: _) |- _ => inversion H; subst end.
        congruence.
    - inversion H2; subst.
      + exfalso. match goal with H : _ <> DOLLAR |- _ => apply H; reflexivity end.
      + f_equal. apply IH. assumption.
      + exfalso. match goal with H : Forall _ (_ :: _) |- _ => inversion H; subst end.
        congruence.
    - assert (Hd : isnum d = true) by (inversion Hnum; assumption).
      inversion H2; subst.
      + exfalso. match goal with H : _ <> DOLLAR |- _ => apply H; reflexivity end.
      + exfalso. unfold DOLLAR in *. congruence.
      + exfalso. congruence.
      + exfalso. congruence.
      + assert (Hds : Forall (fun c => isnum c = true) ds) by (inversion Hnum; assumption).
        match goal with
        | Hn0 : Forall _ (d :: ?ds0), Hh0 : head_not_numeric isnum ?r0, E : ?ds0 ++ ?r0 = ds ++ r |- _ =>
            assert (Hds0 : Forall (fun c => isnum c = true) ds0) by (inversion Hn0; assumption);
            destruct (run_unique ds ds0 r r0 Hds Hds0 Hhd Hh0 (eq_sym E)) as [Ea Eb]
        end.
        subst. f_equal. apply IH. assumption.
  Qed.
End Unique.

Lemma tokenises_unique : tokenises_unique_stmt.
Proof. intros isnum pre ts1 ts2 Hs H1 H2. apply (tokenises_unique_gen isnum Hs pre ts1 H1 ts2 H2). Qed.

(* ------------------------------------------------------------------ *)
(* (ii) wrapper arguments                                              *)
(* ------------------------------------------------------------------ *)

Lemma wrapper_args_spec : wrapper_args_spec_stmt.
Proof.
  intros V syms drain H.
  induction H as [|s a syms' drain' Hm Hrest IH]; cbn [unpack map].
  - reflexivity.
  - destruct s as [t|r]; destruct a as [l|r' x]; cbn in Hm; try contradiction.
    + cbn [unpack1 obind]. rewrite IH. reflexivity.
    + subst r'. cbn [unpack1]. rewrite Nat.eqb_refl. cbn [obind]. rewrite IH. reflexivity.
Qed.

Lemma wrapper_panics_only_on_mismatch : wrapper_panics_only_on_mismatch_stmt.
Proof.
  intros V syms drain Hp Hm.
  rewrite (wrapper_args_spec V syms drain Hm) in Hp. discriminate.
Qed.

Lemma list_eqb_eq : forall a b, list_eqb a b = true <-> a = b.
Proof.
  induction a as [|x a IH]; intros b; destruct b as [|y b]; cbn [list_eqb]; split; intro H;
    try reflexivity; try discriminate.
  - apply andb_true_iff in H. destruct H as [H1 H2].
    apply N.eqb_eq in H1. apply IH in H2. subst. reflexivity.
  - inversion H; subst. rewrite N.eqb_refl. cbn [andb]. apply IH. reflexivity.
Qed.

Lemma uint_codes_inj : forall u1 u2, uint_codes u1 = uint_codes u2 -> u1 = u2.
Proof.
  induction u1 as [|u1 IH|u1 IH|u1 IH|u1 IH|u1 IH|u1 IH|u1 IH|u1 IH|u1 IH|u1 IH];
    intros u2 H; destruct u2 as [|u2|u2|u2|u2|u2|u2|u2|u2|u2|u2];
    cbn [uint_codes] in H; try discriminate H; try reflexivity;
    inversion H as [H']; f_equal; apply IH; exact H'.
Qed.

Lemma arg_name_inj : forall i j, arg_name i = arg_name j -> i = j.
Proof.
  intros i j H. unfold arg_name in H. apply app_inv_head in H.
  unfold decimal in H. apply uint_codes_inj in H.
  apply DecimalNat.Unsigned.to_uint_inj. exact H.
Qed.

Lemma lookup_env_gen : forall (A : Type) (vals : list A) start k,
  start <= k < start + length vals ->
  lookup (arg_name k) (combine (map arg_name (seq start (length vals))) vals)
  = nth_error vals (k - start).
Proof.
  intros A vals. induction vals as [|v vals IH]; intros start k Hk; cbn [length] in Hk.
  - lia.
  - cbn [length seq map combine lookup].
    destruct (list_eqb (arg_name k) (arg_name start)) eqn:E.
    + apply list_eqb_eq in E. apply arg_name_inj in E. subst k.
      rewrite Nat.sub_diag. reflexivity.
    + assert (k <> start).
      { intro Ek. subst k. assert (list_eqb (arg_name start) (arg_name start) = true)
          by (apply list_eqb_eq; reflexivity). congruence. }
      rewrite (IH (S start) k) by lia.
      replace (k - start) with (S (k - S start)) by lia. reflexivity.
Qed.

Lemma dollar_k_denotes_kth : dollar_k_denotes_kth_stmt.
Proof.
  intros A vals k Hk. unfold action_env. cbn [render1].
  change (out_arg ++ decimal k) with (arg_name k).
  apply lookup_env_gen. lia.
Qed.

Lemma lookup_none_gen : forall (A : Type) (vals : list A) start name,
  (forall k, start <= k < start + length vals -> name <> arg_name k) ->
  lookup name (combine (map arg_name (seq start (length vals))) vals) = None.
Proof.
  intros A vals. induction vals as [|v vals IH]; intros start name H; cbn [length seq map combine lookup].
  - reflexivity.
  - destruct (list_eqb name (arg_name start)) eqn:E.
    + apply list_eqb_eq in E. exfalso. apply (H start); [cbn [length]; lia | exact E].
    + apply IH. intros k Hk. apply H. cbn [length]. lia.
Qed.

Lemma dollar_out_of_range_unbound : dollar_out_of_range_unbound_stmt.
Proof.
  intros A vals ds H. unfold action_env. cbn [render1].
  apply lookup_none_gen. intros k Hk E.
  unfold arg_name in E. apply app_inv_head in E. apply (H k); [lia | exact E].
Qed.

(* ------------------------------------------------------------------ *)
(* (iii) flags                                                         *)
(* ------------------------------------------------------------------ *)

Lemma unquote_quote : forall (A : Type) (o : option A), unquote (quote_option o) = o.
Proof. intros A o. destruct o; reflexivity. Qed.

Lemma lexerdef_flags_roundtrip : lexerdef_flags_roundtrip_stmt.
Proof.
  intros h. unfold regen, run_generated_flags, quote_flags, fill. cbn.
  rewrite !unquote_quote. reflexivity.
Qed.

Lemma fill_idempotent : fill_idempotent_stmt.
Proof.
  intros [a b c d e f g h i j k l]. unfold fill. cbn.
  destruct a, b, c, d, e, f, g, h, i, j, k, l; reflexivity.
Qed.

Lemma fill_spec : fill_spec_stmt.
Proof.
  intros h. rewrite lexerdef_flags_roundtrip.
  repeat split; try (intros x Hx; unfold fill; cbn; rewrite Hx; reflexivity).
Qed.

Lemma rule_new_no_panic : rule_new_no_panic_stmt.
Proof.
  intros h. rewrite lexerdef_flags_roundtrip.
  destruct h as [a b c d e f g h i j k l]. unfold rule_new_flags, fill. cbn.
  destruct a, b, c; reflexivity.
Qed.

(* the hypotheses of the statements are satisfiable *)
Example ascii_digit_sane : isnum_sane ascii_digit.
Proof. repeat split. Qed.

Example isnum_with_sane : forall extra, isnum_sane (isnum_with extra).
Proof. intros extra. repeat split. Qed.

(* "{ f($lexer, $1, $span) + '$$' }" with $12 and a trailing bad '$' *)
Example subst_example :
  subst ascii_digit [36;108;101;120;101;114; 32; 36;49;50; 32; 36;36; 36;115;112;97;110]%N
  = Done (SubstOk (out_lexer ++ [32]%N ++ out_arg ++ [49;50;32]%N ++ [36]%N ++ out_span)).
Proof. vm_compute. reflexivity. Qed.

Example subst_example_bad :
  subst ascii_digit [97; 36; 233; 36]%N = Done (SubstErr 2).
Proof. vm_compute. reflexivity. Qed.

Example entry_matches_example :
  Forall2 (@entry_matches nat) [Tok 3; Rule 1]
    [ALexeme {| lx_tok := 3; lx_start := 0; lx_len := 0; lx_faulty := true |}; AAction 1 7].
Proof. repeat constructor. Qed.
