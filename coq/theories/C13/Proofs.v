(* C13 — proofs of the statements of Spec.v. *)
From Coq Require Import List Arith NArith Bool Lia.
From Coq Require Decimal DecimalNat.
From GV Require Import Common.Outcome C13.Model C13.Spec.
Import ListNotations.

(* ------------------------------------------------------------------ *)
(* slices, find, starts_with                                           *)
(* ------------------------------------------------------------------ *)

Lemma slice_from_app : forall (a b : list N), slice_from (a ++ b) (length a) = Done b.
Proof.
  intros a b. unfold slice_from.
  rewrite app_length.
  replace (length a <=? length a + length b) with true
    by (symmetry; apply Nat.leb_le; lia).
  rewrite skipn_app, skipn_all, Nat.sub_diag. reflexivity.
Qed.

Lemma slice_mid : forall (a b c : list N),
  slice (a ++ b ++ c) (length a) (length a + length b) = Done b.
Proof.
  intros a b c. unfold slice.
  rewrite !app_length.
  replace (length a <=? length a + length b) with true
    by (symmetry; apply Nat.leb_le; lia).
  replace (length a + length b <=? length a + (length b + length c)) with true
    by (symmetry; apply Nat.leb_le; lia).
  cbn [andb].
  rewrite skipn_app, skipn_all, Nat.sub_diag. cbn [skipn app].
  replace (length a + length b - length a) with (length b) by lia.
  rewrite firstn_app, firstn_all, Nat.sub_diag. cbn [firstn]. rewrite app_nil_r. reflexivity.
Qed.

Definition nd (c : N) : Prop := c <> DOLLAR.

Lemma find_dollar_none : forall lits, Forall nd lits -> find_dollar lits = None.
Proof.
  intros lits H. induction H as [|c l Hc Hl IH]; cbn [find_dollar].
  - reflexivity.
  - apply N.eqb_neq in Hc. rewrite Hc, IH. reflexivity.
Qed.

Lemma find_dollar_lits : forall lits r, Forall nd lits ->
  find_dollar (lits ++ DOLLAR :: r) = Some (length lits).
Proof.
  intros lits r H. induction H as [|c l Hc Hl IH]; cbn [find_dollar app length].
  - rewrite N.eqb_refl. reflexivity.
  - apply N.eqb_neq in Hc. rewrite Hc, IH. reflexivity.
Qed.

Lemma starts_with_app : forall p r, starts_with p (p ++ r) = true.
Proof.
  induction p as [|a p IH]; intros r; cbn [starts_with app].
  - reflexivity.
  - rewrite N.eqb_refl, IH. reflexivity.
Qed.

(* ------------------------------------------------------------------ *)
(* one scanner iteration at a '$'                                      *)
(* ------------------------------------------------------------------ *)

Section ScanFacts.
  Variable isnum : N -> bool.
  Hypothesis Hsane : isnum_sane isnum.

  Lemma num_not_dollar : forall d, isnum d = true -> d <> DOLLAR.
  Proof. intros d Hd E. subst d. destruct Hsane as [H _]. unfold DOLLAR in Hd. congruence. Qed.

  Lemma num_not_l : forall d, isnum d = true -> d <> 108%N.
  Proof. intros d Hd E. subst d. destruct Hsane as [_ [H _]]. congruence. Qed.

  Lemma num_not_s : forall d, isnum d = true -> d <> 115%N.
  Proof. intros d Hd E. subst d. destruct Hsane as [_ [_ H]]. congruence. Qed.

  (* unfolding of one iteration whose pending literal run is [lits] and whose
     next '$' starts [rest'] *)
  Lemma scan_at_dollar : forall fuel done lits r outs, Forall nd lits ->
    scan isnum (S fuel) (done ++ lits ++ DOLLAR :: r) (length done) outs =
    let pre := done ++ lits ++ DOLLAR :: r in
    let pos := length done + length lits in
    let at_ := DOLLAR :: r in
    if starts_with s_dd at_ then
      scan isnum fuel pre (pos + 2) (outs ++ (lits ++ [DOLLAR]))
    else if starts_with s_lexer at_ then
      scan isnum fuel pre (pos + 6) (outs ++ lits ++ out_lexer)
    else if starts_with s_span at_ then
      scan isnum fuel pre (pos + 5) (outs ++ lits ++ out_span)
    else if (match r with c :: _ => isnum c | [] => false end) then
      scan isnum fuel pre (pos + 1) (outs ++ lits ++ out_arg)
    else Done (SubstErr (byte_len (done ++ lits) + 1)).
  Proof.
    intros fuel done lits r outs Hl.
    cbn zeta. cbn [scan].
    rewrite slice_from_app. cbn [obind].
    rewrite (find_dollar_lits lits r Hl).
    replace (done ++ lits ++ DOLLAR :: r) with ((done ++ lits) ++ DOLLAR :: r)
      by (rewrite app_assoc; reflexivity).
    replace (length done + length lits) with (length (done ++ lits))
      by (rewrite app_length; reflexivity).
    rewrite slice_from_app. cbn [obind].
    destruct (starts_with s_dd (DOLLAR :: r)) eqn:Edd.
    { (* "$$" *)
      replace ((done ++ lits) ++ DOLLAR :: r) with (done ++ (lits ++ [DOLLAR]) ++ r)
        by (rewrite <- !app_assoc; reflexivity).
      replace (length (done ++ lits) + 1) with (length done + length (lits ++ [DOLLAR]))
        by (rewrite !app_length; cbn [length]; lia).
      rewrite slice_mid. cbn [obind]. reflexivity. }
    assert (Hlit : slice ((done ++ lits) ++ DOLLAR :: r) (length done) (length (done ++ lits)) = Done lits).
    { rewrite <- app_assoc. rewrite app_length. apply slice_mid. }
    destruct (starts_with s_lexer (DOLLAR :: r)) eqn:Elx.
    { rewrite Hlit. reflexivity. }
    destruct (starts_with s_span (DOLLAR :: r)) eqn:Esp.
    { rewrite Hlit. reflexivity. }
    assert (Hfirst : firstn (length (done ++ lits) + 1) ((done ++ lits) ++ DOLLAR :: r)
                     = (done ++ lits) ++ [DOLLAR]).
    { replace ((done ++ lits) ++ DOLLAR :: r) with (((done ++ lits) ++ [DOLLAR]) ++ r)
        by (rewrite <- app_assoc; reflexivity).
      replace (length (done ++ lits) + 1) with (length ((done ++ lits) ++ [DOLLAR]))
        by (rewrite (app_length (done ++ lits) [DOLLAR]); reflexivity).
      rewrite firstn_app, firstn_all, Nat.sub_diag. cbn [firstn]. apply app_nil_r. }
    assert (Hbl : forall a b, byte_len (a ++ b) = byte_len a + byte_len b).
    { intros a b. induction a as [|x a IH]; cbn [byte_len app]; [reflexivity | rewrite IH; lia]. }
    destruct r as [|c r'].
    { (* '$' is the last character *)
      replace (length (done ++ lits) + 1 <? length ((done ++ lits) ++ [DOLLAR])) with false
        by (symmetry; apply Nat.ltb_ge; rewrite (app_length (done ++ lits) [DOLLAR]); cbn [length]; lia).
      rewrite Hfirst, Hbl. reflexivity. }
    replace (length (done ++ lits) + 1 <? length ((done ++ lits) ++ DOLLAR :: c :: r')) with true
      by (symmetry; apply Nat.ltb_lt; rewrite (app_length (done ++ lits)); cbn [length]; lia).
    replace ((done ++ lits) ++ DOLLAR :: c :: r') with (((done ++ lits) ++ [DOLLAR]) ++ c :: r') at 1
      by (rewrite <- app_assoc; reflexivity).
    replace (length (done ++ lits) + 1) with (length ((done ++ lits) ++ [DOLLAR])) at 1
      by (rewrite (app_length (done ++ lits) [DOLLAR]); reflexivity).
    rewrite slice_from_app. cbn [obind].
    destruct (isnum c) eqn:Ec.
    { rewrite Hlit. reflexivity. }
    rewrite Hfirst, Hbl. reflexivity.
  Qed.
End ScanFacts.
