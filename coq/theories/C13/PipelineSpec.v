(* C13 — statements about the compile-time pipeline model (PipelineModel.v).

   Parser: for EVERY run-time parser (any function [rt_parse] of the grammar value, the
   table value, the recovery kind, the entry point and the input), both serialisation
   formats, every storage width: the generated `parse()` returns what the run-time
   pipeline returns — same value or tree, same errors, same repair sets, because it IS the
   same function applied to the same arguments.  Lexer: the generated `lexerdef()`
   rebuilds the very definition the run-time pipeline builds (same start states, same
   rules with the same token ids, same compiled regexes because the flags are the same),
   hence the same lexemes for every lexing function.

   The facts about the generated text these statements rest on are listed, with the place
   where each is checked, at the head of PipelineModel.v. *)
From Coq Require Import List NArith Bool.
From GV Require Import Common.Outcome C14.Model C14.Schema_gen C14.Spec C13.Model C13.PipelineModel.
Import ListNotations.

(* ---- parser side ---------------------------------------------------------------------- *)

(* any schemas that can travel (no opaque position), values of their shape *)
Definition ct_equals_rt_generic_stmt : Prop :=
  forall (input result : Type) (sg st : schema)
         (rt_parse : value -> value -> recovery -> entry -> input -> result)
         fmt kind e g t i,
    schema_wf sg = true -> schema_wf st = true -> has_schema sg g -> has_schema st t ->
    ct_parse input result sg st rt_parse (generate sg st fmt kind e g t) i = Done (rt_parse g t kind e i).

(* the schemas read off YaccGrammar<StorageT> / StateTable<StorageT>, every storage width,
   fixint and varint *)
Definition ct_equals_rt_stmt : Prop :=
  forall (input result : Type) (rt_parse : value -> value -> recovery -> entry -> input -> result)
         (w : stw) fmt kind e g t i,
    has_schema (yacc_grammar_schema w) g -> has_schema (state_table_schema w) t ->
    ct_parse input result (yacc_grammar_schema w) (state_table_schema w) rt_parse
             (generate (yacc_grammar_schema w) (state_table_schema w) fmt kind e g t) i
    = Done (rt_parse g t kind e i).

(* the form "bytes in": decoding the two serialisations (any trailing bytes) and calling the
   library = calling the library on the originals *)
Definition ct_equals_rt_bytes_stmt : Prop :=
  forall (input result : Type) (rt_parse : value -> value -> recovery -> entry -> input -> result)
         (w : stw) c kind e g t junk1 junk2 i,
    has_schema (yacc_grammar_schema w) g -> has_schema (state_table_schema w) t ->
    ct_parse_bytes input result (yacc_grammar_schema w) (state_table_schema w) rt_parse c
      (encode c (yacc_grammar_schema w) g ++ junk1) (encode c (state_table_schema w) t ++ junk2) kind e i
    = Done (rt_parse g t kind e i).

(* the start-up of a generated module never panics and yields the built objects *)
Definition parser_data_reconstitutes_stmt : Prop :=
  forall (w : stw) fmt kind e g t,
    has_schema (yacc_grammar_schema w) g -> has_schema (state_table_schema w) t ->
    parser_data (yacc_grammar_schema w) (state_table_schema w)
                (generate (yacc_grammar_schema w) (state_table_schema w) fmt kind e g t) = Done (g, t).

(* what the generated parse() returns depends on the module only through the DECODED values,
   the kind and the entry point: two modules that reconstitute to the same objects (e.g. the
   fixint and the varint module of one grammar) parse alike *)
Definition ct_parse_format_independent_stmt : Prop :=
  forall (input result : Type) (rt_parse : value -> value -> recovery -> entry -> input -> result)
         (w : stw) kind e g t i,
    has_schema (yacc_grammar_schema w) g -> has_schema (state_table_schema w) t ->
    ct_parse input result (yacc_grammar_schema w) (state_table_schema w) rt_parse
             (generate (yacc_grammar_schema w) (state_table_schema w) Fix kind e g t) i
    = ct_parse input result (yacc_grammar_schema w) (state_table_schema w) rt_parse
             (generate (yacc_grammar_schema w) (state_table_schema w) Var kind e g t) i.

(* the static facts are NEEDED: a module whose format constant is not the format its
   constants were written in (P2 broken) panics at start-up — and a module that passes a
   different kind (P3 broken) calls the library with that kind *)
Definition format_mismatch_breaks_stmt : Prop :=
  exists sg st g t,
    schema_wf sg = true /\ schema_wf st = true /\ has_schema sg g /\ has_schema st t /\
    let m := generate sg st Var RCPCTPlus EActions g t in
    parser_data sg st (mkModule Fix (m_grm_data m) (m_stable_data m) (m_kind m) (m_entry m)) = Panic.

Definition kind_is_passed_through_stmt : Prop :=
  forall (input result : Type) (rt_parse : value -> value -> recovery -> entry -> input -> result)
         (w : stw) fmt kind kind' e g t i,
    has_schema (yacc_grammar_schema w) g -> has_schema (state_table_schema w) t ->
    let m := generate (yacc_grammar_schema w) (state_table_schema w) fmt kind e g t in
    ct_parse input result (yacc_grammar_schema w) (state_table_schema w) rt_parse
             (mkModule (m_format m) (m_grm_data m) (m_stable_data m) kind' (m_entry m)) i
    = Done (rt_parse g t kind' e i).

(* ---- lexer side ------------------------------------------------------------------------- *)

(* quoting a rule / a start state and reading it back gives it back *)
Definition quote_rule_roundtrip_stmt : Prop :=
  forall s, unquote_rule (quote_rule_src s) = s.
Definition quote_start_state_roundtrip_stmt : Prop :=
  forall s, start_state_new (quote_start_state s) = s.

(* whenever the run-time pipeline accepts the specification, the generated lexerdef()
   does not panic and returns the same definition: same start states, same rules in the
   same order with the same token ids, regexes compiled from the same text under the same
   flags — for every regex compiler and every id assignment *)
Definition ct_lexerdef_equals_rt_stmt : Prop :=
  forall (RE : Type) (compile : list N -> lexflags -> option RE) h starts srcs assign ld,
    rt_lexerdef RE compile h starts srcs assign = Done (Some ld) ->
    ct_lexerdef RE compile (quote_lexerdef RE h ld) = Done ld.

(* hence the same lexemes, for every lexing function *)
Definition ct_lex_equals_rt_stmt : Prop :=
  forall (RE : Type) (compile : list N -> lexflags -> option RE) (linput lresult : Type)
         (rt_lex : lexerdef RE -> linput -> lresult) h starts srcs assign ld i,
    rt_lexerdef RE compile h starts srcs assign = Done (Some ld) ->
    ct_lex RE compile linput lresult rt_lex (quote_lexerdef RE h ld) i = Done (rt_lex ld i).

(* the run-time construction itself never panics (the three unwraps of Rule::new see
   filled flags) *)
Definition rt_lexerdef_no_panic_stmt : Prop :=
  forall (RE : Type) (compile : list N -> lexflags -> option RE) h starts srcs assign,
    rt_lexerdef RE compile h starts srcs assign <> Panic.

(* the flags matter: the statement is FALSE for a generated lexerdef() that builds its
   rules with other flags than the filled header flags (L1 broken: e.g. DEFAULT_LEX_FLAGS
   instead of the `lex_flags` variable) — for a compiler that distinguishes them *)
Definition lexerdef_flags_needed_stmt : Prop :=
  exists (compile : list N -> lexflags -> option bool) h starts srcs assign ld,
    rt_lexerdef bool compile h starts srcs assign = Done (Some ld) /\
    (do rs <- unwrap_rules bool compile DEFAULT_LEX_FLAGS (ql_rules (quote_lexerdef bool h ld));
     Done (mkLexerdef (map start_state_new (ql_start_states (quote_lexerdef bool h ld))) rs)) <> Done ld.
