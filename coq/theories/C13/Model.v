(* C13 — the parts of the compile-time builders that Coq can carry.

   (i)   [subst]: mirror of the `$`-substitution scanner of
         lrpar/src/lib/ctbuilder.rs (gen_user_actions, the `loop { match
         pre_action[last..].find('$') … }` at ~1725-1767) over action texts given
         as lists of Unicode code points.  Positions ([last], [off]) are counted
         in characters; every Rust slice `pre_action[a..b]` is a checked slice
         ([Panic] when out of range); the byte offset reported in the
         "Unknown text following '$'" error is computed with [len_utf8].
         `char::is_numeric` is the parameter [isnum] (the Unicode table is not
         modelled; the correspondence instantiates it with ASCII digits plus the
         non-ASCII numeric characters of the generated text).
   (ii)  [unpack]: mirror of the argument unpacking of a generated wrapper
         (gen_wrappers ~1503-1534) and the environment of the generated action
         function ([action_env]: parameter `__gt_arg_i` is bound to the i-th
         unpacked value, gen_user_actions ~1683 / gen_wrappers ~1537-1555).
   (iii) [lexflags], [fill], [regen]: the lexer flag record, the default filling
         of lrlex/src/lib/parser.rs:169-181 (run time) and the flags computed by
         the generated `lexerdef()` (lrlex/src/lib/ctbuilder.rs:780-825).

   Definitions only; statements in Spec.v, proofs in Proofs.v. *)
From Coq Require Import List Arith NArith Bool Lia.
From Coq Require Decimal DecimalNat.
From GV Require Import Common.Outcome.
Import ListNotations.

(* ------------------------------------------------------------------ *)
(* (i) the `$`-substitution scanner                                    *)
(* ------------------------------------------------------------------ *)

Definition DOLLAR : N := 36%N.
Definition s_dd : list N := [36; 36]%N.                          (* "$$" *)
Definition s_lexer : list N := [36; 108; 101; 120; 101; 114]%N.  (* "$lexer" *)
Definition s_span : list N := [36; 115; 112; 97; 110]%N.         (* "$span" *)
Definition prefix : list N := [95; 95; 103; 116; 95]%N.          (* ACTION_PREFIX = "__gt_" *)
Definition out_lexer : list N := prefix ++ [108; 101; 120; 101; 114]%N.   (* "__gt_lexer" *)
Definition out_span : list N := prefix ++ [115; 112; 97; 110]%N.          (* "__gt_span" *)
Definition out_arg : list N := prefix ++ [97; 114; 103; 95]%N.            (* "__gt_arg_" *)

(* char::len_utf8 *)
Definition len_utf8 (c : N) : nat :=
  if (c <? 128)%N then 1
  else if (c <? 2048)%N then 2
  else if (c <? 65536)%N then 3
  else 4.

Fixpoint byte_len (s : list N) : nat :=
  match s with [] => 0 | c :: s' => len_utf8 c + byte_len s' end.

(* str::find('$'): offset of the first '$' *)
Fixpoint find_dollar (s : list N) : option nat :=
  match s with
  | [] => None
  | c :: r => if (c =? DOLLAR)%N then Some 0
              else match find_dollar r with Some n => Some (S n) | None => None end
  end.

(* str::starts_with(&str) *)
Fixpoint starts_with (p s : list N) : bool :=
  match p with
  | [] => true
  | a :: p' => match s with
               | [] => false
               | b :: s' => (a =? b)%N && starts_with p' s'
               end
  end.

(* &s[a..b] : panics unless a <= b <= len *)
Definition slice (s : list N) (a b : nat) : outcome (list N) :=
  if (a <=? b) && (b <=? length s) then Done (firstn (b - a) (skipn a s)) else Panic.

(* &s[a..] *)
Definition slice_from (s : list N) (a : nat) : outcome (list N) :=
  if a <=? length s then Done (skipn a s) else Panic.

Inductive subst_result :=
| SubstOk (outs : list N)          (* the text handed to str::parse::<TokenStream> *)
| SubstErr (byte_off : nat).       (* "Unknown text following '$'" at action_span.start + byte_off *)

Section Scanner.
  Variable isnum : N -> bool.      (* char::is_numeric *)

  (* one iteration of the `loop`; fuel bounds the number of '$' processed *)
  Fixpoint scan (fuel : nat) (pre : list N) (last : nat) (outs : list N) : outcome subst_result :=
    match fuel with
    | 0 => OutOfFuel
    | S fuel' =>
        do rest <- slice_from pre last;                              (* pre_action[last..] *)
        match find_dollar rest with
        | Some off =>
            do at_ <- slice_from pre (last + off);                   (* pre_action[last + off..] *)
            if starts_with s_dd at_ then
              do lit <- slice pre last (last + off + 1);             (* up to and including one '$' *)
              scan fuel' pre (last + off + 2) (outs ++ lit)
            else if starts_with s_lexer at_ then
              do lit <- slice pre last (last + off);
              scan fuel' pre (last + off + 6) (outs ++ lit ++ out_lexer)
            else if starts_with s_span at_ then
              do lit <- slice pre last (last + off);
              scan fuel' pre (last + off + 5) (outs ++ lit ++ out_span)
            else if (last + off + 1 <? length pre) then
              do nxt <- slice_from pre (last + off + 1);             (* pre_action[last + off + 1..] *)
              if (match nxt with c :: _ => isnum c | [] => false end) then
                do lit <- slice pre last (last + off);
                scan fuel' pre (last + off + 1) (outs ++ lit ++ out_arg)
              else Done (SubstErr (byte_len (firstn (last + off + 1) pre)))
            else Done (SubstErr (byte_len (firstn (last + off + 1) pre)))
        | None => Done (SubstOk (outs ++ rest))
        end
    end.

  Definition subst (pre : list N) : outcome subst_result :=
    scan (S (length pre)) pre 0 [].
End Scanner.

(* the instance used by the correspondence: ASCII digits, plus the listed
   non-ASCII numeric characters *)
Definition ascii_digit (c : N) : bool := (48 <=? c)%N && (c <=? 57)%N.
Definition isnum_with (extra : list N) (c : N) : bool :=
  ascii_digit c || ((127 <? c)%N && existsb (N.eqb c) extra).

(* ------------------------------------------------------------------ *)
(* (ii) wrapper argument unpacking and the action's environment         *)
(* ------------------------------------------------------------------ *)

Inductive sym := Tok (t : nat) | Rule (r : nat).

Record lexeme := { lx_tok : nat; lx_start : nat; lx_len : nat; lx_faulty : bool }.

Section Wrapper.
  Variable V : Type.               (* action values *)

  (* ::lrpar::parser::AStackType<LexemeT, __GtActionsKind>; the ActionType
     variant carries the enum variant Ak<ridx>(x) *)
  Inductive astack :=
  | ALexeme (l : lexeme)
  | AAction (ridx : nat) (x : V).

  (* what `$i` is bound to *)
  Inductive argval :=
  | ArgOk (l : lexeme)             (* Ok(l): a real lexeme *)
  | ArgErr (l : lexeme)            (* Err(l): an inserted (faulty) lexeme *)
  | ArgVal (x : V).                (* the value of a rule *)

  (* one `let __gt_arg_i = match __gt_args.next().unwrap() { … }` *)
  Definition unpack1 (s : sym) (a : astack) : outcome argval :=
    match s, a with
    | Rule r, AAction r' x => if r =? r' then Done (ArgVal x) else Panic    (* _ => unreachable!() *)
    | Rule _, ALexeme _ => Panic                                            (* _ => unreachable!() *)
    | Tok _, ALexeme l => Done (if lx_faulty l then ArgErr l else ArgOk l)
    | Tok _, AAction _ _ => Panic                                           (* ActionType(_) => unreachable!() *)
    end.

  Fixpoint unpack (syms : list sym) (drain : list astack) : outcome (list argval) :=
    match syms with
    | [] => Done []
    | s :: syms' =>
        match drain with
        | [] => Panic                                                       (* .next().unwrap() *)
        | a :: drain' =>
            do v <- unpack1 s a;
            do vs <- unpack syms' drain';
            Done (v :: vs)
        end
    end.
End Wrapper.
Arguments ALexeme {V} l.
Arguments AAction {V} ridx x.
Arguments ArgOk {V} l.
Arguments ArgErr {V} l.
Arguments ArgVal {V} x.
Arguments unpack1 {V} s a.
Arguments unpack {V} syms drain.

(* decimal rendering of format_ident!("{}arg_{}", ACTION_PREFIX, i + 1) *)
Fixpoint uint_codes (u : Decimal.uint) : list N :=
  match u with
  | Decimal.Nil => []
  | Decimal.D0 u' => 48%N :: uint_codes u'
  | Decimal.D1 u' => 49%N :: uint_codes u'
  | Decimal.D2 u' => 50%N :: uint_codes u'
  | Decimal.D3 u' => 51%N :: uint_codes u'
  | Decimal.D4 u' => 52%N :: uint_codes u'
  | Decimal.D5 u' => 53%N :: uint_codes u'
  | Decimal.D6 u' => 54%N :: uint_codes u'
  | Decimal.D7 u' => 55%N :: uint_codes u'
  | Decimal.D8 u' => 56%N :: uint_codes u'
  | Decimal.D9 u' => 57%N :: uint_codes u'
  end.
Definition decimal (n : nat) : list N := uint_codes (Nat.to_uint n).

Definition arg_name (i : nat) : list N := out_arg ++ decimal i.

Fixpoint list_eqb (a b : list N) : bool :=
  match a, b with
  | [], [] => true
  | x :: a', y :: b' => (x =? y)%N && list_eqb a' b'
  | _, _ => false
  end.

Fixpoint lookup {A} (name : list N) (env : list (list N * A)) : option A :=
  match env with
  | [] => None
  | (n, v) :: env' => if list_eqb name n then Some v else lookup name env'
  end.

(* the parameters `__gt_arg_1 … __gt_arg_n` of the generated action function,
   bound positionally to the wrapper's `(#args,)*` *)
Definition action_env {A} (vals : list A) : list (list N * A) :=
  combine (map arg_name (seq 1 (length vals))) vals.

(* ------------------------------------------------------------------ *)
(* (iii) lexer flags                                                    *)
(* ------------------------------------------------------------------ *)

Record lexflags := {
  dot_matches_new_line : option bool;
  multi_line : option bool;
  octal : option bool;
  posix_escapes : option bool;
  allow_wholeline_comments : option bool;
  case_insensitive : option bool;
  swap_greed : option bool;
  ignore_whitespace : option bool;
  unicode : option bool;
  size_limit : option N;
  dfa_size_limit : option N;
  nest_limit : option N
}.

(* lexer.rs DEFAULT_LEX_FLAGS *)
Definition DEFAULT_LEX_FLAGS : lexflags := {|
  dot_matches_new_line := Some true;
  multi_line := Some true;
  octal := Some true;
  posix_escapes := Some false;
  allow_wholeline_comments := Some false;
  case_insensitive := None;
  swap_greed := None;
  ignore_whitespace := None;
  unicode := None;
  size_limit := None;
  dfa_size_limit := None;
  nest_limit := None |}.

(* lexer.rs UNSPECIFIED_LEX_FLAGS *)
Definition UNSPECIFIED_LEX_FLAGS : lexflags := {|
  dot_matches_new_line := None; multi_line := None; octal := None; posix_escapes := None;
  allow_wholeline_comments := None; case_insensitive := None; swap_greed := None;
  ignore_whitespace := None; unicode := None; size_limit := None; dfa_size_limit := None;
  nest_limit := None |}.

(* Option::or *)
Definition oor {A} (a b : option A) : option A := match a with Some _ => a | None => b end.

(* parser.rs:169-181 (LexParser::new_with_lex_flags): the flags the run-time
   rules are built with *)
Definition fill (f : lexflags) : lexflags := {|
  dot_matches_new_line := oor (dot_matches_new_line f) (dot_matches_new_line DEFAULT_LEX_FLAGS);
  multi_line := oor (multi_line f) (multi_line DEFAULT_LEX_FLAGS);
  octal := oor (octal f) (octal DEFAULT_LEX_FLAGS);
  posix_escapes := oor (posix_escapes f) (posix_escapes DEFAULT_LEX_FLAGS);
  allow_wholeline_comments := oor (allow_wholeline_comments f) (allow_wholeline_comments DEFAULT_LEX_FLAGS);
  case_insensitive := oor (case_insensitive f) (case_insensitive DEFAULT_LEX_FLAGS);
  swap_greed := oor (swap_greed f) (swap_greed DEFAULT_LEX_FLAGS);
  ignore_whitespace := oor (ignore_whitespace f) (ignore_whitespace DEFAULT_LEX_FLAGS);
  unicode := oor (unicode f) (unicode DEFAULT_LEX_FLAGS);
  size_limit := oor (size_limit f) (size_limit DEFAULT_LEX_FLAGS);
  dfa_size_limit := oor (dfa_size_limit f) (dfa_size_limit DEFAULT_LEX_FLAGS);
  nest_limit := oor (nest_limit f) (nest_limit DEFAULT_LEX_FLAGS) |}.

(* the text `QuoteOption(x)` leaves in the generated file, as read back by rustc *)
Inductive quoted (A : Type) := QNone | QSome (a : A).
Arguments QNone {A}.
Arguments QSome {A} a.
Definition quote_option {A} (o : option A) : quoted A :=
  match o with Some a => QSome a | None => QNone end.
Definition unquote {A} (q : quoted A) : option A :=
  match q with QSome a => Some a | QNone => None end.

(* the twelve quoted options of one generated lexerdef(), in the order of the
   assignments `lex_flags.<field> = #<field>.or(DEFAULT_LEX_FLAGS.<field>)` *)
Record quoted_flags := {
  q_allow_wholeline_comments : quoted bool;
  q_dot_matches_new_line : quoted bool;
  q_multi_line : quoted bool;
  q_octal : quoted bool;
  q_posix_escapes : quoted bool;
  q_case_insensitive : quoted bool;
  q_unicode : quoted bool;
  q_swap_greed : quoted bool;
  q_ignore_whitespace : quoted bool;
  q_size_limit : quoted N;
  q_dfa_size_limit : quoted N;
  q_nest_limit : quoted N
}.

(* ctbuilder.rs:781-806 *)
Definition quote_flags (f : lexflags) : quoted_flags := {|
  q_allow_wholeline_comments := quote_option (allow_wholeline_comments f);
  q_dot_matches_new_line := quote_option (dot_matches_new_line f);
  q_multi_line := quote_option (multi_line f);
  q_octal := quote_option (octal f);
  q_posix_escapes := quote_option (posix_escapes f);
  q_case_insensitive := quote_option (case_insensitive f);
  q_unicode := quote_option (unicode f);
  q_swap_greed := quote_option (swap_greed f);
  q_ignore_whitespace := quote_option (ignore_whitespace f);
  q_size_limit := quote_option (size_limit f);
  q_dfa_size_limit := quote_option (dfa_size_limit f);
  q_nest_limit := quote_option (nest_limit f) |}.

(* the generated code of ctbuilder.rs:809-824, run:  `let mut lex_flags =
   DEFAULT_LEX_FLAGS; lex_flags.x = <quoted x>.or(DEFAULT_LEX_FLAGS.x); …` *)
Definition run_generated_flags (q : quoted_flags) : lexflags := {|
  dot_matches_new_line := oor (unquote (q_dot_matches_new_line q)) (dot_matches_new_line DEFAULT_LEX_FLAGS);
  multi_line := oor (unquote (q_multi_line q)) (multi_line DEFAULT_LEX_FLAGS);
  octal := oor (unquote (q_octal q)) (octal DEFAULT_LEX_FLAGS);
  posix_escapes := oor (unquote (q_posix_escapes q)) (posix_escapes DEFAULT_LEX_FLAGS);
  allow_wholeline_comments := oor (unquote (q_allow_wholeline_comments q)) (allow_wholeline_comments DEFAULT_LEX_FLAGS);
  case_insensitive := oor (unquote (q_case_insensitive q)) (case_insensitive DEFAULT_LEX_FLAGS);
  swap_greed := oor (unquote (q_swap_greed q)) (swap_greed DEFAULT_LEX_FLAGS);
  ignore_whitespace := oor (unquote (q_ignore_whitespace q)) (ignore_whitespace DEFAULT_LEX_FLAGS);
  unicode := oor (unquote (q_unicode q)) (unicode DEFAULT_LEX_FLAGS);
  size_limit := oor (unquote (q_size_limit q)) (size_limit DEFAULT_LEX_FLAGS);
  dfa_size_limit := oor (unquote (q_dfa_size_limit q)) (dfa_size_limit DEFAULT_LEX_FLAGS);
  nest_limit := oor (unquote (q_nest_limit q)) (nest_limit DEFAULT_LEX_FLAGS) |}.

(* compile time: the header flags [h] are kept unfilled by
   LRNonStreamingLexerDef::new_with_options (lexer.rs:540-553, `lex_flags`
   stored as given), read back through lex_flags(), quoted, and re-evaluated by
   the generated lexerdef() *)
Definition regen (h : lexflags) : lexflags := run_generated_flags (quote_flags h).

(* Rule::new (lexer.rs:241-290): the three `.unwrap()`s *)
Definition rule_new_flags (f : lexflags) : outcome lexflags :=
  match octal f, multi_line f, dot_matches_new_line f with
  | Some _, Some _, Some _ => Done f
  | _, _, _ => Panic
  end.
