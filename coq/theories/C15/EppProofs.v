(* C15 (f) — proofs about the `%epp` validation loop *)
From Coq Require Import List Arith Bool Lia Permutation Sorted PeanoNat.
From GV Require Import C15.EppModel C15.EppSpec.
Import ListNotations.

(* ------------------------------------------------------------------ the order on spans *)
Lemma span_ltb_true : forall a b : span,
  span_ltb a b = true <-> (fst a < fst b \/ (fst a = fst b /\ snd a < snd b)).
Proof.
  intros [a1 a2] [b1 b2]; unfold span_ltb; simpl.
  rewrite orb_true_iff, andb_true_iff, !Nat.ltb_lt, Nat.eqb_eq. tauto.
Qed.

Lemma span_ltb_false : forall a b : span,
  span_ltb a b = false <-> ~ (fst a < fst b \/ (fst a = fst b /\ snd a < snd b)).
Proof.
  intros a b. rewrite <- span_ltb_true. destruct (span_ltb a b); split; intro H; try reflexivity;
    try discriminate; try (intro; discriminate). exfalso; apply H; reflexivity.
Qed.

Lemma span_antisym : forall a b : span, span_ltb a b = false -> span_ltb b a = false -> a = b.
Proof.
  intros [a1 a2] [b1 b2] H1 H2. apply span_ltb_false in H1. apply span_ltb_false in H2.
  simpl in *. f_equal; lia.
Qed.

Lemma span_asym : forall a b : span, span_ltb a b = true -> span_ltb b a = false.
Proof.
  intros [a1 a2] [b1 b2] H. apply span_ltb_true in H. apply span_ltb_false. simpl in *. lia.
Qed.

(* "not less" is transitive (the order is total) *)
Lemma span_nlt_trans : forall a b c : span,
  span_ltb b a = false -> span_ltb c b = false -> span_ltb c a = false.
Proof.
  intros [a1 a2] [b1 b2] [c1 c2] H1 H2.
  apply span_ltb_false in H1. apply span_ltb_false in H2. apply span_ltb_false. simpl in *. lia.
Qed.

Lemma span_nlt_refl : forall a : span, span_ltb a a = false.
Proof. intros [a1 a2]. apply span_ltb_false. simpl. lia. Qed.

(* ------------------------------------------------------------------ min_by_key *)
Lemma min_step_cases : forall acc y,
  (min_step acc y = acc \/ min_step acc y = y) /\
  span_ltb (snd acc) (snd (min_step acc y)) = false /\
  span_ltb (snd y) (snd (min_step acc y)) = false.
Proof.
  intros acc y. unfold min_step. destruct (span_ltb (snd y) (snd acc)) eqn:E.
  - split; [right; reflexivity|]. split; [apply span_asym; exact E | apply span_nlt_refl].
  - split; [left; reflexivity|]. split; [apply span_nlt_refl | exact E].
Qed.

Lemma fold_min_spec : forall xs x,
  In (fold_left min_step xs x) (x :: xs) /\
  forall y, In y (x :: xs) -> span_ltb (snd y) (snd (fold_left min_step xs x)) = false.
Proof.
  induction xs as [|a xs IH]; intro x; simpl.
  - split; [left; reflexivity|]. intros y [<-|[]]. apply span_nlt_refl.
  - destruct (min_step_cases x a) as [Hc [Hx Ha]].
    remember (min_step x a) as x' eqn:Ex'. clear Ex'.
    destruct (IH x') as [Hin Hmin].
    split.
    + destruct Hin as [Hin|Hin].
      * rewrite <- Hin. destruct Hc as [Hc|Hc]; rewrite Hc; [left | right; left]; reflexivity.
      * right; right; exact Hin.
    + intros y [<-|[<-|Hy]].
      * eapply span_nlt_trans; [apply Hmin; left; reflexivity | exact Hx].
      * eapply span_nlt_trans; [apply Hmin; left; reflexivity | exact Ha].
      * apply Hmin. right; exact Hy.
Qed.

Lemma min_by_span_spec : forall l,
  match min_by_span l with
  | Some m => In m l /\ forall y, In y l -> span_ltb (snd y) (snd m) = false
  | None => l = []
  end.
Proof.
  intros [|x xs]; simpl; [reflexivity|]. apply fold_min_spec.
Qed.

Lemma NoDup_map_inj : forall (A B : Type) (f : A -> B) (l : list A) a b,
  NoDup (map f l) -> In a l -> In b l -> f a = f b -> a = b.
Proof.
  induction l as [|x l IH]; intros a b Hnd Ha Hb Hf; [destruct Ha|].
  simpl in Hnd. inversion Hnd as [|? ? Hnin Hnd']; subst.
  destruct Ha as [<-|Ha]; destruct Hb as [<-|Hb]; try reflexivity.
  - exfalso; apply Hnin. rewrite Hf. apply in_map; exact Hb.
  - exfalso; apply Hnin. rewrite <- Hf. apply in_map; exact Ha.
  - apply IH; assumption.
Qed.

Lemma min_by_span_perm : forall l1 l2,
  NoDup (map snd l1) -> Permutation l1 l2 -> min_by_span l1 = min_by_span l2.
Proof.
  intros l1 l2 Hnd Hp.
  pose proof (min_by_span_spec l1) as H1. pose proof (min_by_span_spec l2) as H2.
  destruct (min_by_span l1) as [m1|]; destruct (min_by_span l2) as [m2|].
  - destruct H1 as [Hin1 Hmin1]; destruct H2 as [Hin2 Hmin2].
    f_equal. apply (NoDup_map_inj _ _ snd l1); try assumption.
    + apply Permutation_sym in Hp. eapply Permutation_in; eassumption.
    + apply span_antisym.
      * apply Hmin2. eapply Permutation_in; eassumption.
      * apply Hmin1. apply Permutation_sym in Hp. eapply Permutation_in; eassumption.
  - subst l2. apply Permutation_sym, Permutation_nil in Hp. subst l1. destruct H1 as [[] _].
  - subst l1. apply Permutation_nil in Hp. subst l2. destruct H2 as [[] _].
  - reflexivity.
Qed.

(* ------------------------------------------------------------------ filter *)
Lemma filter_perm : forall (A : Type) (f : A -> bool) l l',
  Permutation l l' -> Permutation (filter f l) (filter f l').
Proof.
  intros A f l l' H. induction H; simpl.
  - constructor.
  - destruct (f x); [constructor|]; assumption.
  - destruct (f x); destruct (f y); try apply Permutation_refl. apply perm_swap.
  - eapply Permutation_trans; eassumption.
Qed.

Lemma NoDup_map_filter : forall (A B : Type) (g : A -> B) (f : A -> bool) l,
  NoDup (map g l) -> NoDup (map g (filter f l)).
Proof.
  induction l as [|x l IH]; simpl; intro H; [constructor|].
  inversion H as [|? ? Hnin Hnd]; subst.
  destruct (f x); simpl; [constructor|]; auto.
  intro Hin. apply Hnin. apply in_map_iff in Hin. destruct Hin as [y [Hy Hin]].
  apply filter_In in Hin. rewrite <- Hy. apply in_map. tauto.
Qed.

(* ------------------------------------------------------------------ the theorems *)
Lemma validate_epp_order_insensitive : validate_epp_order_insensitive_stmt.
Proof.
  intros known es1 es2 Hnd Hp. unfold validate_epp_min.
  apply min_by_span_perm.
  - apply NoDup_map_filter; exact Hnd.
  - apply filter_perm; exact Hp.
Qed.

Lemma validate_epp_min_spec : validate_epp_min_spec_stmt.
Proof.
  intros known es. unfold validate_epp_min.
  pose proof (min_by_span_spec (filter (epp_unknown known) es)) as H.
  destruct (min_by_span (filter (epp_unknown known) es)) as [m|].
  - destruct H as [Hin Hmin]. apply filter_In in Hin. destruct Hin as [Hin Hu].
    repeat split; try assumption.
    intros y Hy Huy. apply Hmin. apply filter_In. split; assumption.
  - intros y Hy. destruct (epp_unknown known y) eqn:E; [|reflexivity].
    assert (In y (filter (epp_unknown known) es)) as Hin by (apply filter_In; split; assumption).
    rewrite H in Hin. destruct Hin.
Qed.

Lemma fold_min_head : forall xs x,
  (forall y, In y xs -> span_ltb (snd x) (snd y) = true) -> fold_left min_step xs x = x.
Proof.
  induction xs as [|a xs IH]; intros x H; simpl; [reflexivity|].
  assert (min_step x a = x) as ->.
  { unfold min_step. rewrite (span_asym _ _ (H a (or_introl eq_refl))). reflexivity. }
  apply IH. intros y Hy. apply H. right; exact Hy.
Qed.

Lemma validate_epp_min_is_source_order : validate_epp_min_is_source_order_stmt.
Proof.
  intros known es Hs. unfold validate_epp_min, validate_epp_first_found.
  induction Hs as [|a r Hr IH Hall]; simpl; [reflexivity|].
  destruct (epp_unknown known a) eqn:E.
  - simpl. f_equal. apply fold_min_head. intros y Hy.
    apply filter_In in Hy. destruct Hy as [Hy _].
    rewrite Forall_forall in Hall. apply Hall; exact Hy.
  - exact IH.
Qed.

Lemma validate_epp_first_found_refuted : validate_epp_first_found_refuted_stmt.
Proof.
  (* `%epp U1 'one'` at 14..16 and `%epp U2 'two'` at 28..30, no token of either name *)
  exists (fun _ => false), [(0, (14, 16)); (1, (28, 30))], [(1, (28, 30)); (0, (14, 16))].
  split; [|split].
  - split; simpl; repeat constructor; simpl; intuition discriminate.
  - apply perm_swap.
  - vm_compute. discriminate.
Qed.

Lemma find_hd_filter : forall (A : Type) (f : A -> bool) l, find f l = hd_error (filter f l).
Proof.
  induction l as [|x l IH]; simpl; [reflexivity|]. destruct (f x); [reflexivity | exact IH].
Qed.

Lemma NoDup_filter' : forall (A : Type) (f : A -> bool) l, NoDup l -> NoDup (filter f l).
Proof.
  induction l as [|x l IH]; simpl; intro H; [constructor|].
  inversion H as [|? ? Hnin Hnd]; subst.
  destruct (f x); [constructor|]; auto.
  intro Hin. apply Hnin. apply filter_In in Hin. tauto.
Qed.

Lemma validate_epp_first_found_sensitive : validate_epp_first_found_sensitive_stmt.
Proof.
  intros known es [Hk _] Hlen. unfold validate_epp_first_found.
  assert (NoDup es) as Hnd by (eapply NoDup_map_inv; exact Hk).
  pose proof (NoDup_filter' _ (epp_unknown known) es Hnd) as Hndf.
  rewrite find_hd_filter.
  destruct (filter (epp_unknown known) es) as [|u1 [|u2 rest]] eqn:Ef; simpl in Hlen; try lia.
  assert (In u2 es /\ epp_unknown known u2 = true) as [Hin2 Hu2].
  { apply filter_In. rewrite Ef. right; left; reflexivity. }
  destruct (in_split _ _ Hin2) as [l1 [l2 Hes]].
  exists (u2 :: l1 ++ l2). split.
  - rewrite Hes. apply Permutation_sym, Permutation_middle.
  - simpl. rewrite Hu2. simpl. intro H. inversion H as [H12]. subst u2.
    inversion Hndf as [|? ? Hnin _]; subst. apply Hnin. left; reflexivity.
Qed.

(* ------------------------------------------------------------------ the hypotheses are satisfiable *)
(* six `%epp` declarations for unknown tokens (the input of the audit report), one known
   token in between: well-formed entries, and the repaired loop reports U1 @ 14..16 for the
   order of the source and for a scrambled order *)
Definition ex_entries : list epp_entry :=
  [(1, (14, 16)); (2, (28, 30)); (9, (40, 41)); (3, (42, 44)); (4, (58, 60)); (5, (73, 75)); (6, (88, 90))].
Definition ex_known (k : nat) : bool := Nat.eqb k 9.

Example ex_entries_wf : epp_entries_wf ex_entries.
Proof. split; simpl; repeat constructor; simpl; intuition discriminate. Qed.

Example ex_min_reports_first :
  validate_epp_min ex_known ex_entries = Some (1, (14, 16)) /\
  validate_epp_min ex_known (rev ex_entries) = Some (1, (14, 16)) /\
  validate_epp_first_found ex_known (rev ex_entries) = Some (6, (88, 90)).
Proof. vm_compute. repeat split. Qed.

Example ex_two_unknown : 2 <= length (filter (epp_unknown ex_known) ex_entries).
Proof. vm_compute. lia. Qed.

Example ex_sorted : StronglySorted (fun a b => span_ltb (snd a) (snd b) = true) ex_entries.
Proof. unfold ex_entries. repeat (constructor; [|repeat constructor]). constructor. Qed.
