(* C15 (e) — abstract OnceLock::get_or_init: safety for every schedule (induction
   over the schedule) and progress under three round-robin rounds. *)
From Coq Require Import List Arith Bool Lia Permutation.
From GV Require Import Common.Outcome C15.Model C15.Spec C15.Lemmas.
Import ListNotations.

Lemma nth_error_set_nth_cases {A} (l : list A) t p t' q :
  nth_error (set_nth l t p) t' = Some q ->
  (t' = t /\ q = p) \/ (t' <> t /\ nth_error l t' = Some q).
Proof.
  intros H. destruct (Nat.eq_dec t t') as [->|Hne].
  - left. split; [reflexivity|].
    assert (Hlt : t' < length l).
    { rewrite <- (set_nth_length l t' p). apply nth_error_Some. congruence. }
    rewrite nth_error_set_nth_eq in H by exact Hlt. congruence.
  - right. rewrite nth_error_set_nth_neq in H by exact Hne. split; [congruence|exact H].
Qed.

Section OnceProofs.
  Context {V : Type} (f : unit -> V).

  Definition is_init (p : @opc V) : bool := match p with PInit => true | _ => false end.
  Definition cnt_init (l : list (@opc V)) : nat := length (filter is_init l).
  Definition b2n (b : bool) : nat := if b then 1 else 0.

  Lemma cnt_set_nth : forall (l : list (@opc V)) t old new,
    nth_error l t = Some old ->
    cnt_init (set_nth l t new) + b2n (is_init old) = cnt_init l + b2n (is_init new).
  Proof.
    unfold cnt_init.
    induction l as [|x xs IH]; intros [|t] old new H; simpl in *; try discriminate.
    - inversion H; subst x. destruct (is_init old), (is_init new); simpl; lia.
    - specialize (IH t old new H). destruct (is_init x); simpl; lia.
  Qed.

  Definition nodone (l : list (@opc V)) : Prop := forall t v, nth_error l t <> Some (PDone v).

  Definition oinv (s : @ostate V) : Prop :=
    (forall t v, nth_error (o_pcs s) t = Some (PDone v) -> v = f tt) /\
    match o_cell s with
    | OEmpty => Forall (fun p => p = PStart) (o_pcs s) /\ o_inits s = 0
    | ORunning _ => cnt_init (o_pcs s) = 1 /\ o_inits s = 0 /\ nodone (o_pcs s)
    | OFull v => v = f tt /\ cnt_init (o_pcs s) = 0 /\ o_inits s = 1
    end.

  Lemma cnt_all_start l : Forall (fun p : @opc V => p = PStart) l -> cnt_init l = 0.
  Proof.
    unfold cnt_init. induction 1 as [|x xs Hx _ IH]; simpl; [reflexivity|]. subst x. simpl. exact IH.
  Qed.

  Lemma nodone_all_start l : Forall (fun p : @opc V => p = PStart) l -> nodone l.
  Proof.
    intros H t v Hn. rewrite Forall_forall in H. apply nth_error_In in Hn. apply H in Hn. discriminate.
  Qed.

  Lemma nodone_set l t p : nodone l -> is_pdone p = false -> nodone (set_nth l t p).
  Proof.
    intros Hn Hp t' v H. apply nth_error_set_nth_cases in H. destruct H as [[_ H]|[_ H]].
    - subst p. discriminate.
    - apply (Hn t' v H).
  Qed.

  Lemma oinv_step s t : oinv s -> oinv (ostep f s t).
  Proof.
    intros [Hd Hc]. unfold ostep.
    destruct (nth_error (o_pcs s) t) as [p|] eqn:Hp; [|split; assumption].
    destruct s as [cell pcs inits]; simpl in *.
    destruct p as [| | |v0].
    - (* PStart *)
      destruct cell as [|t0|v]; simpl.
      + destruct Hc as [Hall Hi]. split.
        * intros t' v H. apply nth_error_set_nth_cases in H. destruct H as [[_ H]|[_ H]]; [discriminate|].
          apply (Hd t' v H).
        * pose proof (cnt_set_nth pcs t PStart PInit Hp) as Hcnt. rewrite (cnt_all_start pcs Hall) in Hcnt.
          unfold cnt_init in *; cbn in *. split; [lia|]. split; [exact Hi|].
          apply nodone_set; [apply nodone_all_start; exact Hall|reflexivity].
      + destruct Hc as [Hcnt [Hi Hn]]. split.
        * intros t' v H. apply nth_error_set_nth_cases in H. destruct H as [[_ H]|[_ H]]; [discriminate|].
          apply (Hd t' v H).
        * pose proof (cnt_set_nth pcs t PStart PWait Hp) as Hc2. unfold cnt_init in *; cbn in *.
          split; [lia|]. split; [exact Hi|]. apply nodone_set; [exact Hn|reflexivity].
      + destruct Hc as [Hv [Hcnt Hi]]. split.
        * intros t' v' H. apply nth_error_set_nth_cases in H. destruct H as [[_ H]|[_ H]].
          -- inversion H; subst. reflexivity.
          -- apply (Hd t' v' H).
        * pose proof (cnt_set_nth pcs t PStart (PDone v) Hp) as Hc2. unfold cnt_init in *; cbn in *.
          split; [exact Hv|]. split; [lia|exact Hi].
    - (* PInit *)
      split.
      + intros t' v' H. apply nth_error_set_nth_cases in H. destruct H as [[_ H]|[_ H]].
        * inversion H; subst. reflexivity.
        * apply (Hd t' v' H).
      + pose proof (cnt_set_nth pcs t PInit (PDone (f tt)) Hp) as Hc2. unfold cnt_init in *; cbn in *.
        split; [reflexivity|].
        destruct cell as [|t0|v].
        * destruct Hc as [Hall _]. rewrite Forall_forall in Hall.
          apply nth_error_In in Hp. apply Hall in Hp. discriminate.
        * destruct Hc as [Hcnt [Hi _]]. split; lia.
        * destruct Hc as [_ [Hcnt _]]. exfalso. lia.
    - (* PWait *)
      destruct cell as [|t0|v]; simpl; try (split; assumption).
      destruct Hc as [Hv [Hcnt Hi]]. split.
      + intros t' v' H. apply nth_error_set_nth_cases in H. destruct H as [[_ H]|[_ H]].
        * inversion H; subst. reflexivity.
        * apply (Hd t' v' H).
      + pose proof (cnt_set_nth pcs t PWait (PDone v) Hp) as Hc2. unfold cnt_init in *; cbn in *.
        split; [exact Hv|]. split; [lia|exact Hi].
    - split; assumption.
  Qed.

  Lemma oinv_init n : oinv (oinit n).
  Proof.
    unfold oinit, oinv; simpl. split.
    - intros t v H. apply nth_error_In in H. apply repeat_spec in H. discriminate.
    - split; [|reflexivity]. apply Forall_forall. intros p Hp. apply repeat_spec in Hp. exact Hp.
  Qed.

  Lemma oinv_run sched : forall s, oinv s -> oinv (orun f sched s).
  Proof.
    unfold orun. induction sched as [|t sched IH]; intros s H; simpl; [exact H|].
    apply IH. apply oinv_step. exact H.
  Qed.

  Lemma once_safety n sched :
    let s := orun f sched (oinit n) in
    (forall t v, nth_error (o_pcs s) t = Some (PDone v) -> v = f tt) /\
    (forall v, o_cell s = OFull v -> v = f tt) /\
    o_inits s <= 1 /\
    ((exists t v, nth_error (o_pcs s) t = Some (PDone v)) -> o_inits s = 1) /\
    (forall (R : Type) (parse : V -> R) t v, nth_error (o_pcs s) t = Some (PDone v) -> parse v = parse (f tt)).
  Proof.
    intros s. pose proof (oinv_run sched (oinit n) (oinv_init n)) as [Hd Hc]. fold s in Hd, Hc.
    split; [exact Hd|]. split; [|split; [|split]].
    - intros v Hv. rewrite Hv in Hc. apply Hc.
    - destruct (o_cell s); lia.
    - intros [t [v H]]. destruct (o_cell s) as [|t0|v0].
      + destruct Hc as [Hall _]. exfalso. apply (nodone_all_start _ Hall t v H).
      + destruct Hc as [_ [_ Hn]]. exfalso. apply (Hn t v H).
      + apply Hc.
    - intros R parse t v H. rewrite (Hd t v H). reflexivity.
  Qed.

  (* ------------------------------------------------------------ progress *)
  Lemma ostep_length s t : length (o_pcs (ostep f s t)) = length (o_pcs s).
  Proof.
    unfold ostep. destruct (nth_error (o_pcs s) t) as [p|]; [|reflexivity].
    destruct p; [destruct (o_cell s)| |destruct (o_cell s)|]; simpl; rewrite ?set_nth_length; reflexivity.
  Qed.

  Definition is_full (s : @ostate V) : bool := match o_cell s with OFull _ => true | _ => false end.
  Definition is_empty (s : @ostate V) : bool := match o_cell s with OEmpty => true | _ => false end.

  Lemma ostep_nonempty_stable s t : is_empty s = false -> is_empty (ostep f s t) = false.
  Proof.
    unfold is_empty, ostep, set_pc. intros H. destruct (nth_error (o_pcs s) t) as [p|]; [|exact H].
    destruct p; [destruct (o_cell s) eqn:Hc| |destruct (o_cell s) eqn:Hc|]; simpl in *; rewrite ?Hc; congruence.
  Qed.

  Lemma ostep_full_stable s t : is_full s = true -> is_full (ostep f s t) = true.
  Proof.
    unfold is_full, ostep, set_pc. intros H. destruct (nth_error (o_pcs s) t) as [p|]; [|exact H].
    destruct p; [destruct (o_cell s) eqn:Hc| |destruct (o_cell s) eqn:Hc|]; simpl in *; rewrite ?Hc; congruence.
  Qed.

  Definition oinvn (n : nat) (s : @ostate V) : Prop := oinv s /\ length (o_pcs s) = n.

  Lemma oinvn_step n s t : oinvn n s -> oinvn n (ostep f s t).
  Proof.
    intros [Hi Hl]. split; [apply oinv_step; exact Hi|rewrite ostep_length; exact Hl].
  Qed.

  (* one pass over threads a, a+1, …, a+m-1 *)
  Lemma pass n (P : nat -> @ostate V -> Prop) :
    (forall k s, oinvn n s -> P k s -> P (S k) (ostep f s k)) ->
    forall m a s, oinvn n s -> P a s ->
      P (a + m) (fold_left (ostep f) (seq a m) s) /\ oinvn n (fold_left (ostep f) (seq a m) s).
  Proof.
    intros Hstep. induction m as [|m IH]; intros a s Hi Hp; simpl.
    - rewrite Nat.add_0_r. split; assumption.
    - replace (a + S m) with (S a + m) by lia. apply IH; [apply oinvn_step; exact Hi|apply Hstep; assumption].
  Qed.

  (* round 1: the step of thread 0 leaves the cell non-empty, and it stays so *)
  Lemma round1 n s : 0 < n -> oinvn n s ->
    let s1 := fold_left (ostep f) (seq 0 n) s in is_empty s1 = false /\ oinvn n s1.
  Proof.
    intros Hn Hi.
    destruct (pass n (fun k s' => 0 < k -> is_empty s' = false)) with (m := n) (a := 0) (s := s) as [H Hi'].
    - intros k s' [Hi1 Hl1] Hp _. destruct k as [|k].
      + unfold is_empty. destruct (o_cell s') as [|t0|v] eqn:Hc.
        * destruct Hi1 as [_ Hc']. rewrite Hc in Hc'. destruct Hc' as [Hall _].
          unfold ostep. destruct (nth_error (o_pcs s') 0) as [p|] eqn:Hp0.
          -- rewrite Forall_forall in Hall. apply nth_error_In in Hp0 as Hin. apply Hall in Hin. subst p.
             rewrite Hc. reflexivity.
          -- apply nth_error_None in Hp0. lia.
        * apply (ostep_nonempty_stable s' 0). unfold is_empty. rewrite Hc. reflexivity.
        * apply (ostep_nonempty_stable s' 0). unfold is_empty. rewrite Hc. reflexivity.
      + apply ostep_nonempty_stable. apply Hp. lia.
    - exact Hi.
    - intros H0. lia.
    - split; [apply H; simpl; exact Hn|exact Hi'].
  Qed.

  Lemma cnt_pos_exists (l : list (@opc V)) : 0 < cnt_init l -> exists t, nth_error l t = Some PInit.
  Proof.
    unfold cnt_init. induction l as [|x xs IH]; simpl; [lia|].
    destruct x; simpl; intros H.
    2:{ exists 0. reflexivity. }
    all: destruct (IH H) as [t Ht]; exists (S t); exact Ht.
  Qed.

  (* round 2: the initialiser gets its turn, so the cell is full afterwards *)
  Lemma round2 n s : oinvn n s -> is_empty s = false ->
    let s2 := fold_left (ostep f) (seq 0 n) s in is_full s2 = true /\ oinvn n s2.
  Proof.
    intros Hi He.
    destruct (pass n (fun k s' => is_full s' = true \/
                (exists t0, k <= t0 /\ nth_error (o_pcs s') t0 = Some PInit /\ is_empty s' = false)))
      with (m := n) (a := 0) (s := s) as [H Hi'].
    - intros k s' [Hi1 Hl1] [Hf|[t0 [Hk [Ht0 Hne]]]].
      + left. apply ostep_full_stable. exact Hf.
      + destruct (is_full s') eqn:Hfull; [left; apply ostep_full_stable; exact Hfull|].
        destruct (Nat.eq_dec t0 k) as [->|Hneq].
        * left. unfold ostep. rewrite Ht0. reflexivity.
        * unfold ostep. destruct (nth_error (o_pcs s') k) as [p|] eqn:Hp.
          2:{ right. exists t0. split; [lia|]. split; assumption. }
          unfold is_full, is_empty in *.
          destruct p as [| | |v0].
          -- destruct (o_cell s') as [|tr|v] eqn:Hc; try discriminate.
             right. exists t0. simpl. rewrite Hc.
             split; [lia|]. split; [|reflexivity]. rewrite nth_error_set_nth_neq by congruence. exact Ht0.
          -- left. reflexivity.
          -- destruct (o_cell s') as [|tr|v] eqn:Hc; try discriminate.
             right. exists t0. rewrite Hc. split; [lia|]. split; [exact Ht0|reflexivity].
          -- right. exists t0. split; [lia|]. split; assumption.
    - exact Hi.
    - unfold is_full, is_empty in *. destruct Hi as [[_ Hc] _].
      destruct (o_cell s) as [|tr|v] eqn:Hcell; try discriminate.
      + right. destruct Hc as [Hcnt _]. destruct (cnt_pos_exists (o_pcs s)) as [t0 Ht0]; [lia|].
        exists t0. split; [lia|]. split; [exact Ht0|reflexivity].
      + left. reflexivity.
    - split; [|exact Hi'].
      destruct H as [H|[t0 [Hk [Ht0 _]]]]; [exact H|].
      exfalso. assert (Hlt : t0 < length (o_pcs (fold_left (ostep f) (seq 0 n) s))) by (apply nth_error_Some; congruence).
      destruct Hi' as [_ Hl]. rewrite Hl in Hlt. simpl in Hk. lia.
  Qed.

  (* round 3: with a full cell every thread returns at its next step *)
  Lemma round3 n s : oinvn n s -> is_full s = true ->
    all_done (fold_left (ostep f) (seq 0 n) s) = true.
  Proof.
    intros Hi Hf.
    destruct (pass n (fun k s' => is_full s' = true /\
                forall t, t < k -> t < n -> exists v, nth_error (o_pcs s') t = Some (PDone v)))
      with (m := n) (a := 0) (s := s) as [[_ H] [_ Hl]].
    - intros k s' [Hi1 Hl1] [Hfull Hdone]. split; [apply ostep_full_stable; exact Hfull|].
      intros t Htk Htn.
      unfold is_full in Hfull. destruct (o_cell s') as [|tr|v] eqn:Hc; try discriminate.
      assert (Hkeep : forall q, t <> k -> nth_error (set_nth (o_pcs s') k q) t = nth_error (o_pcs s') t).
      { intros q Hne. apply nth_error_set_nth_neq. congruence. }
      destruct (Nat.eq_dec t k) as [->|Hne].
      + assert (Hk : k < length (o_pcs s')) by lia.
        unfold ostep. destruct (nth_error (o_pcs s') k) as [p|] eqn:Hp.
        2:{ apply nth_error_None in Hp. lia. }
        destruct p as [| | |v0]; rewrite ?Hc; simpl; rewrite ?nth_error_set_nth_eq by exact Hk; eauto.
      + assert (Hlt : t < k) by lia. destruct (Hdone t Hlt Htn) as [w Hw].
        exists w. unfold ostep. destruct (nth_error (o_pcs s') k) as [p|] eqn:Hp; [|exact Hw].
        destruct p as [| | |v0]; rewrite ?Hc; simpl; rewrite ?Hkeep by exact Hne; exact Hw.
    - exact Hi.
    - split; [exact Hf|]. intros t Ht. lia.
    - unfold all_done. apply forallb_forall. intros p Hp.
      apply In_nth_error in Hp. destruct Hp as [t Ht].
      assert (Hlt : t < n) by (rewrite <- Hl; apply nth_error_Some; congruence).
      destruct (H t) as [v Hv]; [simpl; exact Hlt|exact Hlt|]. rewrite Hv in Ht. inversion Ht. reflexivity.
  Qed.

  Lemma once_progress n sched : all_done (orun f (sched ++ round_robin n 3) (oinit n)) = true.
  Proof.
    unfold orun. rewrite fold_left_app.
    set (s0 := fold_left (ostep f) sched (oinit n)).
    assert (Hlen : forall sc (s : @ostate V), length (o_pcs (fold_left (ostep f) sc s)) = length (o_pcs s)).
    { induction sc as [|t sc IH]; intros s; simpl; [reflexivity|]. rewrite IH. apply ostep_length. }
    assert (H0 : oinvn n s0).
    { split; [apply (oinv_run sched); apply oinv_init|].
      subst s0. rewrite Hlen. simpl. apply repeat_length. }
    simpl. rewrite app_nil_r, !fold_left_app.
    destruct n as [|n].
    - simpl. destruct H0 as [_ Hl]. unfold all_done. destruct (o_pcs s0); [reflexivity|discriminate].
    - destruct (round1 (S n) s0) as [He H1]; [lia|exact H0|].
      destruct (round2 (S n) _ H1 He) as [Hf H2].
      apply round3; assumption.
  Qed.
End OnceProofs.

Lemma once_init_linearizable : once_init_linearizable_stmt.
Proof. intros V f n sched. apply once_safety. Qed.

Lemma once_init_progress : once_init_progress_stmt.
Proof. intros V f n sched. apply once_progress. Qed.

Example once_example :
  (* 3 threads, value 42: an unfair prefix, then the rounds; the init ran once *)
  let s := orun (fun _ => 42) ([1; 1; 2; 2; 0; 0] ++ round_robin 3 3) (oinit 3) in
  o_pcs s = [PDone 42; PDone 42; PDone 42] /\ o_inits s = 1 /\
  o_pcs (orun (fun _ => 42) [1; 2; 0; 2] (oinit 3)) = [PWait; PInit; PWait].
Proof. vm_compute. repeat split; reflexivity. Qed.
