(* C15 — statements.  "Independent of the hash seed" = invariant under every
   permutation (resp. every schedule) of the explicit iteration-order parameter. *)
From Coq Require Import List Arith Bool Lia Permutation.
From GV Require Import Common.Outcome C15.Model.
Import ListNotations.

(* ------------------------------------------------------------------ (a) *)
(* the statement the property demands of the code as it is: *)
Definition build_implicit_order_insensitive_stmt : Prop :=
  forall nprods rs o1 o2, NoDup o1 -> Permutation o1 o2 ->
    eco_build nprods rs o1 = eco_build nprods rs o2.

(* … it is FALSE of the faithful mirror: concrete witness, and in general for
   every set of >= 2 implicit tokens some other iteration order renumbers `~` *)
Definition build_implicit_order_insensitive_refuted_stmt : Prop :=
  exists nprods rs o1 o2, NoDup o1 /\ Permutation o1 o2 /\
    eco_build nprods rs o1 <> eco_build nprods rs o2.

Definition build_implicit_sensitive_stmt : Prop :=
  forall nprods rs o, NoDup o -> 2 <= length o ->
    exists o', Permutation o o' /\ eco_build nprods rs o <> eco_build nprods rs o'.

(* the numbering determines the order: the mirror is order-insensitive exactly on equal orders *)
Definition build_implicit_injective_stmt : Prop :=
  forall nprods rs o1 o2, eco_build nprods rs o1 = eco_build nprods rs o2 -> o1 = o2.

(* what does NOT depend on the order (the part of the property that holds):
   the productions as a multiset, the rule of every production index, the index
   lists of `~`, the start production and the `^~` production; and with at most one
   implicit token everything *)
Definition build_implicit_invariants_stmt : Prop :=
  forall nprods rs o1 o2, Permutation o1 o2 ->
    let a := eco_build nprods rs o1 in
    let b := eco_build nprods rs o2 in
    Permutation (eo_prods a) (eo_prods b) /\
    map fst (eo_prods a) = map fst (eo_prods b) /\
    eo_implicit_prods a = eo_implicit_prods b /\
    eo_start_prod a = eo_start_prod b /\
    eo_implicit_start_prod a = eo_implicit_start_prod b.

Definition build_implicit_le1_order_insensitive_stmt : Prop :=
  forall nprods rs o1 o2, length o1 <= 1 -> Permutation o1 o2 ->
    eco_build nprods rs o1 = eco_build nprods rs o2.

(* the proposed fix: order-insensitive, and it yields one of the orders the current
   code can already produce (no new behaviour) *)
Definition build_implicit_fixed_order_insensitive_stmt : Prop :=
  forall nprods rs ntokens o1 o2, Permutation o1 o2 ->
    eco_build_fixed nprods rs ntokens o1 = eco_build_fixed nprods rs ntokens o2.

Definition build_implicit_fixed_is_an_order_stmt : Prop :=
  forall ntokens o, NoDup o -> (forall t, In t o -> t < ntokens) ->
    Permutation o (implicit_in_token_order ntokens o).

(* ------------------------------------------------------------------ (b) *)
Definition avoid_insert_order_insensitive_stmt : Prop :=
  forall ntok o1 o2, Permutation o1 o2 -> avoid_bits ntok o1 = avoid_bits ntok o2.

(* and what the bits are (no panic when the indices are token indices) *)
Definition avoid_insert_spec_stmt : Prop :=
  forall ntok o, (forall t, In t o -> t < ntok) ->
    avoid_bits ntok o = Done (map (fun t => mem t o) (seq 0 ntok)).

(* ------------------------------------------------------------------ (c) *)
Inductive reach (edges : list (list (nat * nat))) (start : nat) : nat -> Prop :=
| reach_start : reach edges start start
| reach_step : forall x es sym y,
    reach edges start x -> nth_error edges x = Some es -> In (sym, y) es -> reach edges start y.

Definition edges_wf (edges : list (list (nat * nat))) : Prop :=
  forall x es sym y, nth_error edges x = Some es -> In (sym, y) es -> y < length edges.

(* whatever element the HashSet hands out at each step, the walk ends (within
   |states| pops) with exactly the reachable states *)
Definition gc_walk_reachable_stmt : Prop :=
  forall edges start sched, edges_wf edges -> start < length edges -> length edges <= length sched ->
    exists seen, gc_walk edges sched [start] [] = Done seen /\ NoDup seen /\
                 forall x, In x seen <-> reach edges start x.

(* the kept states, their new numbers and the renumbered edges are the same for all
   pop orders (the renumbering runs over 0..n in index order and only asks membership) *)
Definition gc_order_insensitive_stmt : Prop :=
  forall edges start s1 s2, edges_wf edges -> start < length edges ->
    length edges <= length s1 -> length edges <= length s2 ->
    gc edges start s1 = gc edges start s2 /\ is_done (gc edges start s1) = true.

(* the new numbering keeps the old relative order: kept old indices are strictly increasing *)
Definition gc_renumbering_monotone_stmt : Prop :=
  forall edges start sched kept new_edges,
    gc edges start sched = Done (kept, new_edges) ->
    forall i j a b, i < j -> nth_error kept i = Some a -> nth_error kept j = Some b -> a < b.

(* ------------------------------------------------------------------ (d) *)
Definition row_equiv (a b : outcome row) : Prop :=
  match a, b with
  | Done r1, Done r2 =>
      r_actions r1 = r_actions r2 /\ r_gotos r1 = r_gotos r2 /\ r_sa r1 = r_sa r2 /\
      Permutation (r_conflicts r1) (r_conflicts r2)
  | Panic, Panic => True
  | OutOfFuel, OutOfFuel => True
  | _, _ => False
  end.

(* cells, gotos and state_actions bits equal; conflict lists equal as multisets; a
   panic happens for every order or for none.  NoDup keys: the edges are a map. *)
Definition table_row_order_insensitive_stmt : Prop :=
  forall res init es1 es2, NoDup (map fst es1) -> Permutation es1 es2 ->
    row_equiv (process_edges res init es1) (process_edges res init es2).

(* literal equality INCLUDING the order of the conflict list — what byte-identical
   generated modules need, because the StateTable (with `conflicts`) is serialised
   into `__STABLE_DATA` — is false of the mirror: *)
Definition table_row_bytes_order_insensitive_stmt : Prop :=
  forall res init es1 es2, NoDup (map fst es1) -> Permutation es1 es2 ->
    process_edges res init es1 = process_edges res init es2.

Definition table_row_bytes_order_insensitive_refuted_stmt : Prop :=
  exists res init es1 es2, NoDup (map fst es1) /\ Permutation es1 es2 /\
    process_edges res init es1 <> process_edges res init es2.

(* with the conflict list sorted (proposed fix) it holds *)
Definition table_row_fixed_order_insensitive_stmt : Prop :=
  forall res init es1 es2, NoDup (map fst es1) -> Permutation es1 es2 ->
    process_edges_fixed res init es1 = process_edges_fixed res init es2.

(* ------------------------------------------------------------------ (e) *)
(* Every interleaving of n threads calling get_or_init f: a thread that has
   returned observed f tt; f ran at most once, exactly once if somebody returned;
   whatever a thread then computes from the value is what a sequential caller computes. *)
Definition once_init_linearizable_stmt : Prop :=
  forall (V : Type) (f : unit -> V) (n : nat) (sched : list nat),
    let s := orun f sched (oinit n) in
    (forall t v, nth_error (o_pcs s) t = Some (PDone v) -> v = f tt) /\
    (forall v, o_cell s = OFull v -> v = f tt) /\
    o_inits s <= 1 /\
    ((exists t v, nth_error (o_pcs s) t = Some (PDone v)) -> o_inits s = 1) /\
    (forall (R : Type) (parse : V -> R) t v, nth_error (o_pcs s) t = Some (PDone v) -> parse v = parse (f tt)).

(* progress (non-vacuity of the above): after ANY prefix, three round-robin rounds
   let every thread return *)
Definition once_init_progress_stmt : Prop :=
  forall (V : Type) (f : unit -> V) (n : nat) (sched : list nat),
    all_done (orun f (sched ++ round_robin n 3) (oinit n)) = true.
