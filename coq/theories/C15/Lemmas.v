(* C15 — generic list lemmas: folds over permutations, set_nth, mem, insertion sort *)
From Coq Require Import List Arith Bool Lia Permutation Sorted.
From GV Require Import Common.Outcome C15.Model.
Import ListNotations.

(* ---------------------------------------------------------------- folds *)
Lemma fold_left_perm_comm {A B} (f : B -> A -> B) :
  (forall a x y, f (f a x) y = f (f a y) x) ->
  forall l1 l2, Permutation l1 l2 -> forall a, fold_left f l1 a = fold_left f l2 a.
Proof.
  intros Hc l1 l2 HP. induction HP as [|x l l' HP IH|x y l|l l' l'' HP1 IH1 HP2 IH2]; intros a; simpl.
  - reflexivity.
  - apply IH.
  - rewrite Hc. reflexivity.
  - rewrite IH1. apply IH2.
Qed.

Section FoldPerm.
  Context {A B : Type} (R : B -> B -> Prop) (f : B -> A -> B) (key : A -> nat).
  Hypothesis R_refl : forall b, R b b.
  Hypothesis R_trans : forall a b c, R a b -> R b c -> R a c.
  Hypothesis f_resp : forall a b x, R a b -> R (f a x) (f b x).
  Hypothesis f_comm : forall a x y, key x <> key y -> R (f (f a x) y) (f (f a y) x).

  Lemma fold_resp : forall l a b, R a b -> R (fold_left f l a) (fold_left f l b).
  Proof.
    induction l as [|x l IH]; intros a b Hab; simpl; [exact Hab|].
    apply IH. apply f_resp. exact Hab.
  Qed.

  Lemma fold_perm_R : forall l1 l2, Permutation l1 l2 -> NoDup (map key l1) ->
    forall a b, R a b -> R (fold_left f l1 a) (fold_left f l2 b).
  Proof.
    intros l1 l2 HP.
    induction HP as [|x l l' HP IH|x y l|l l' l'' HP1 IH1 HP2 IH2]; intros Hnd a b Hab; simpl.
    - exact Hab.
    - simpl in Hnd. inversion Hnd as [|k ks Hk Hks]; subst.
      apply IH; [exact Hks|]. apply f_resp. exact Hab.
    - apply fold_resp.
      simpl in Hnd. inversion Hnd as [|k ks Hk Hks]; subst.
      assert (Hne : key y <> key x).
      { intro He. apply Hk. left. symmetry. exact He. }
      eapply R_trans; [apply f_comm; exact Hne|].
      apply f_resp. apply f_resp. exact Hab.
    - assert (Hnd' : NoDup (map key l')).
      { eapply Permutation_NoDup; [|exact Hnd]. apply Permutation_map. exact HP1. }
      eapply R_trans; [apply IH1; [exact Hnd|exact Hab]|].
      apply IH2; [exact Hnd'|apply R_refl].
  Qed.
End FoldPerm.

(* -------------------------------------------------------------- set_nth *)
Lemma set_nth_length {A} (l : list A) i v : length (set_nth l i v) = length l.
Proof.
  revert i. induction l as [|x xs IH]; intros [|i]; simpl; auto.
Qed.

Lemma set_nth_comm {A} (l : list A) i j a b :
  i <> j -> set_nth (set_nth l i a) j b = set_nth (set_nth l j b) i a.
Proof.
  revert i j. induction l as [|x xs IH]; intros [|i] [|j] Hne; simpl; auto; try congruence.
  f_equal. apply IH. congruence.
Qed.

Lemma nth_error_set_nth_neq {A} (l : list A) i j v :
  i <> j -> nth_error (set_nth l i v) j = nth_error l j.
Proof.
  revert i j. induction l as [|x xs IH]; intros [|i] [|j] Hne; simpl; auto; try congruence.
Qed.

Lemma nth_error_set_nth_eq {A} (l : list A) i v :
  i < length l -> nth_error (set_nth l i v) i = Some v.
Proof.
  revert i. induction l as [|x xs IH]; intros [|i] Hlt; simpl in *; try lia; auto.
  all: try (apply IH; lia).
Qed.

Lemma nth_set_nth {A} (l : list A) i j v d :
  nth j (set_nth l i v) d = if (i =? j) && (i <? length l) then v else nth j l d.
Proof.
  revert i j. induction l as [|x xs IH]; intros i j.
  - destruct i, j; simpl; rewrite ?andb_false_r; reflexivity.
  - destruct i as [|i], j as [|j]; simpl; try reflexivity.
    rewrite IH. reflexivity.
Qed.

(* ------------------------------------------------------------------ mem *)
Lemma mem_In x l : mem x l = true <-> In x l.
Proof.
  unfold mem. rewrite existsb_exists. split.
  - intros [y [Hy He]]. apply Nat.eqb_eq in He. subst. exact Hy.
  - intros H. exists x. split; [exact H|apply Nat.eqb_refl].
Qed.

Lemma mem_false x l : mem x l = false <-> ~ In x l.
Proof.
  rewrite <- mem_In. destruct (mem x l); split; intros H; try congruence; try (exfalso; apply H; reflexivity).
  all: try (intro; congruence).
Qed.

Lemma mem_ext_perm x l1 l2 : (forall y, In y l1 <-> In y l2) -> mem x l1 = mem x l2.
Proof.
  intros H. destruct (mem x l1) eqn:E1, (mem x l2) eqn:E2; auto.
  - apply mem_In in E1. apply H in E1. apply mem_In in E1. congruence.
  - apply mem_In in E2. apply H in E2. apply mem_In in E2. congruence.
Qed.

Lemma map_const_len {A B} (c : B) (l1 l2 : list A) :
  length l1 = length l2 -> map (fun _ => c) l1 = map (fun _ => c) l2.
Proof.
  revert l2. induction l1 as [|x xs IH]; intros [|y ys] H; simpl in *; try lia; auto.
  f_equal. apply IH. lia.
Qed.

Lemma map_inj {A B} (g : A -> B) : (forall x y, g x = g y -> x = y) ->
  forall l1 l2, map g l1 = map g l2 -> l1 = l2.
Proof.
  intros Hg. induction l1 as [|x xs IH]; intros [|y ys] H; simpl in *; try congruence.
  inversion H. f_equal; auto.
Qed.

(* ------------------------------------------------------- insertion sort *)
Section SortFacts.
  Context {A : Type} (leb : A -> A -> bool).
  Hypothesis leb_total : forall a b, leb a b = true \/ leb b a = true.
  Hypothesis leb_trans : forall a b c, leb a b = true -> leb b c = true -> leb a c = true.
  Hypothesis leb_antisym : forall a b, leb a b = true -> leb b a = true -> a = b.

  Let le (a b : A) : Prop := leb a b = true.

  Lemma insert_sorted_perm x l : Permutation (x :: l) (insert_sorted leb x l).
  Proof.
    induction l as [|y ys IH]; simpl; [apply Permutation_refl|].
    destruct (leb x y); [apply Permutation_refl|].
    eapply perm_trans; [apply perm_swap|]. apply perm_skip. exact IH.
  Qed.

  Lemma isort_perm l : Permutation l (isort leb l).
  Proof.
    induction l as [|x xs IH]; simpl; [apply perm_nil|].
    eapply perm_trans; [apply perm_skip; exact IH|]. apply insert_sorted_perm.
  Qed.

  Lemma insert_sorted_sorted x l : StronglySorted le l -> StronglySorted le (insert_sorted leb x l).
  Proof.
    induction l as [|y ys IH]; intros Hs; simpl.
    - constructor; constructor.
    - inversion Hs as [|y' ys' Hys Hall]; subst.
      destruct (leb x y) eqn:Exy.
      + constructor; [exact Hs|]. constructor; [exact Exy|].
        eapply Forall_impl; [|exact Hall]. intros z Hz. eapply leb_trans; [exact Exy|exact Hz].
      + constructor; [apply IH; exact Hys|].
        eapply Permutation_Forall; [apply insert_sorted_perm|].
        constructor; [|exact Hall].
        destruct (leb_total x y) as [H|H]; [congruence|exact H].
  Qed.

  Lemma isort_sorted l : StronglySorted le (isort leb l).
  Proof.
    induction l as [|x xs IH]; simpl; [constructor|]. apply insert_sorted_sorted. exact IH.
  Qed.

  Lemma sorted_perm_unique : forall l1 l2,
    StronglySorted le l1 -> StronglySorted le l2 -> Permutation l1 l2 -> l1 = l2.
  Proof.
    induction l1 as [|a l1 IH]; intros l2 H1 H2 HP.
    - apply Permutation_nil in HP. subst. reflexivity.
    - destruct l2 as [|b l2].
      + apply Permutation_sym, Permutation_nil in HP. discriminate.
      + inversion H1 as [|a' l1' Hs1 Ha]; subst. inversion H2 as [|b' l2' Hs2 Hb]; subst.
        assert (Hab : a = b).
        { assert (Hin1 : In a (b :: l2)) by (eapply Permutation_in; [exact HP|left; reflexivity]).
          assert (Hin2 : In b (a :: l1)) by (eapply Permutation_in; [apply Permutation_sym; exact HP|left; reflexivity]).
          destruct Hin1 as [He|Hin1]; [symmetry; exact He|].
          destruct Hin2 as [He|Hin2]; [exact He|].
          rewrite Forall_forall in Ha, Hb.
          apply leb_antisym; [apply Ha; exact Hin2|apply Hb; exact Hin1]. }
        subst b. f_equal. apply IH; [exact Hs1|exact Hs2|].
        eapply Permutation_cons_inv. exact HP.
  Qed.

  Lemma isort_perm_eq l1 l2 : Permutation l1 l2 -> isort leb l1 = isort leb l2.
  Proof.
    intros HP. apply sorted_perm_unique; try apply isort_sorted.
    eapply perm_trans; [apply Permutation_sym; apply isort_perm|].
    eapply perm_trans; [exact HP|apply isort_perm].
  Qed.
End SortFacts.

Lemma pair_leb_total a b : pair_leb a b = true \/ pair_leb b a = true.
Proof.
  destruct a as [a1 a2], b as [b1 b2]. unfold pair_leb; simpl.
  rewrite !orb_true_iff, !andb_true_iff, !Nat.ltb_lt, !Nat.eqb_eq, !Nat.leb_le. lia.
Qed.

Lemma pair_leb_trans a b c : pair_leb a b = true -> pair_leb b c = true -> pair_leb a c = true.
Proof.
  destruct a as [a1 a2], b as [b1 b2], c as [c1 c2]. unfold pair_leb; simpl.
  rewrite !orb_true_iff, !andb_true_iff, !Nat.ltb_lt, !Nat.eqb_eq, !Nat.leb_le. lia.
Qed.

Lemma pair_leb_antisym a b : pair_leb a b = true -> pair_leb b a = true -> a = b.
Proof.
  destruct a as [a1 a2], b as [b1 b2]. unfold pair_leb; simpl.
  rewrite !orb_true_iff, !andb_true_iff, !Nat.ltb_lt, !Nat.eqb_eq, !Nat.leb_le.
  intros H1 H2. assert (a1 = b1 /\ a2 = b2) as [-> ->] by lia. reflexivity.
Qed.
