(* C15 — what the correspondence run evaluates: the mirrors under several
   iteration orders of the hash-ordered parameter *)
From Coq Require Import List Arith NArith Bool.
From GV Require Import Common.Outcome C15.Model C15.EppModel.
Import ListNotations.

Fixpoint insert_all (x : nat) (l : list nat) : list (list nat) :=
  match l with
  | [] => [[x]]
  | y :: ys => (x :: l) :: map (cons y) (insert_all x ys)
  end.

Fixpoint perms (l : list nat) : list (list nat) :=
  match l with
  | [] => [[]]
  | x :: xs => flat_map (insert_all x) (perms xs)
  end.

Fixpoint rotations (k : nat) (l : list nat) : list (list nat) :=
  match k with
  | 0 => []
  | S k' => match l with
            | [] => []
            | x :: xs => l :: rotations k' (xs ++ [x])
            end
  end.

(* all orders of up to 4 elements; rotations of the list and of its reverse beyond *)
Definition orders (l : list nat) : list (list nat) :=
  if length l <=? 4 then perms l
  else rotations (length l) l ++ rotations (length l) (rev l).

Definition run_eco (nprods rs : nat) (o : list nat) : list (list nat * eco_out) :=
  map (fun p => (p, eco_build nprods rs p)) (orders o).

Definition run_eco_fixed (nprods rs ntokens : nat) (o : list nat) : list eco_out :=
  map (eco_build_fixed nprods rs ntokens) (orders o).

Definition run_avoid (ntok : nat) (o : list nat) : list (outcome (list bool)) :=
  map (avoid_bits ntok) (orders o).

Definition run_gc (edges : list (list (nat * nat))) (start : nat) (scheds : list (list nat)) :=
  map (fun s => (gc_walk edges s [start] [], gc edges start s)) scheds.

(* one state's row under several edge orders, with and without the proposed sort *)
Definition res_of (tprec pprec : list (nat * (nat * nat))) : nat -> nat -> sr_res :=
  let look := fun (m : list (nat * (nat * nat))) (k : nat) =>
    match find (fun e => Nat.eqb (fst e) k) m with Some e => Some (snd e) | None => None end in
  resolve_sr (look tprec) (look pprec).

Definition run_row (tprec pprec : list (nat * (nat * nat))) (init : row) (orders_ : list (list (nat * nat))) :=
  map (fun es => (process_edges (res_of tprec pprec) init es,
                  process_edges_fixed (res_of tprec pprec) init es)) orders_.

(* the `%epp` validation loop (repaired and pinned) under several iteration orders of the map *)
Definition run_epp (known : list nat) (orders_ : list (list epp_entry)) :=
  map (fun es => (validate_epp_min (fun k => mem k known) es,
                  validate_epp_first_found (fun k => mem k known) es)) orders_.

(* the shared OCaml glue (ocaml/common/conv.ml) mentions the binary number types *)
Definition glue_n_of_nat (k : nat) : N := N.of_nat k.
