(* C15 (f) — cfgrammar/src/lib/yacc/ast.rs, GrammarAST::complete_and_validate, the loop over
   `self.epp : HashMap<String, (Span, (String, Span))>` (std RandomState): which `%epp`
   declaration for a token that does not exist is reported.

   An entry of the map is (key, span): the key is the token name (coded as a number: the
   map has one entry per name), the span is that of the name in the `%epp` declaration
   (start, end).  [known k] = `self.tokens.contains(k) || implicit_tokens.contains_key(k)`.
   [es] = the entries in the iteration order of the map (explicit parameter).
   Result: None = the loop falls through (no error from this loop), Some e = `return
   Err(UnknownEPP(key e), spans [span e])`.

   Definitions only; statements in EppSpec.v, proofs in EppProofs.v. *)
From Coq Require Import List Arith Bool PeanoNat.
Import ListNotations.

Definition span := (nat * nat)%type.
Definition epp_entry := (nat * span)%type.

Definition epp_unknown (known : nat -> bool) (e : epp_entry) : bool := negb (known (fst e)).

(* the loop as it was up to /repo 3e32e4e^ (pinned):
     for (k, (sp, _)) in self.epp.iter() {
         if self.tokens.contains(k) { continue; }
         if let Some(ref it) = self.implicit_tokens && it.contains_key(k) { continue; }
         return Err(YaccGrammarError { kind: UnknownEPP(k.clone()), spans: vec![*sp] });
     }                                                                                     *)
Definition validate_epp_first_found (known : nat -> bool) (es : list epp_entry) : option epp_entry :=
  find (epp_unknown known) es.

(* (sp.start(), sp.end()) compared as Rust compares tuples *)
Definition span_ltb (a b : span) : bool :=
  (fst a <? fst b) || ((fst a =? fst b) && (snd a <? snd b)).

(* Iterator::min_by_key = reduce(|x, y| match key(x).cmp(key(y)) { Greater => y, _ => x }):
   the accumulator is replaced only by a STRICTLY smaller element (of equal keys the first
   met is kept — so with equal keys the result would still follow the iteration order) *)
Definition min_step (acc y : epp_entry) : epp_entry :=
  if span_ltb (snd y) (snd acc) then y else acc.

Definition min_by_span (l : list epp_entry) : option epp_entry :=
  match l with
  | [] => None
  | x :: xs => Some (fold_left min_step xs x)
  end.

(* the repaired loop (/repo 3e32e4e):
     let unknown_epp = self.epp.iter().filter(|(k, _)| !(known k))
                           .min_by_key(|(_, (sp, _))| (sp.start(), sp.end()));
     if let Some((k, (sp, _))) = unknown_epp { return Err(UnknownEPP(k) @ sp) }             *)
Definition validate_epp_min (known : nat -> bool) (es : list epp_entry) : option epp_entry :=
  min_by_span (filter (epp_unknown known) es).
