(* C15 (f) — statements about the `%epp` validation loop (EppModel.v).
   "Independent of the hash seed" = invariant under every permutation of the entry list. *)
From Coq Require Import List Arith Bool Lia Permutation Sorted.
From GV Require Import C15.EppModel.
Import ListNotations.

(* The entries of one map: one entry per key; distinct `%epp` declarations occupy distinct
   places of the source text, so their spans differ (a second declaration of the same name is
   rejected earlier, by the parser: DuplicateEPP). *)
Definition epp_entries_wf (es : list epp_entry) : Prop :=
  NoDup (map fst es) /\ NoDup (map snd es).

(* the repaired loop: the reported error (kind argument AND span) — or the absence of one —
   is the same for every iteration order of the map *)
Definition validate_epp_order_insensitive_stmt : Prop :=
  forall known es1 es2, NoDup (map snd es1) -> Permutation es1 es2 ->
    validate_epp_min known es1 = validate_epp_min known es2.

(* … and it is the declaration of an unknown token that comes first in the source text:
   Some e  iff  e is an unknown entry and no unknown entry has a smaller span;
   None    iff  every key is known *)
Definition validate_epp_min_spec_stmt : Prop :=
  forall known es,
    match validate_epp_min known es with
    | Some e => In e es /\ epp_unknown known e = true /\
                forall y, In y es -> epp_unknown known y = true -> span_ltb (snd y) (snd e) = false
    | None => forall y, In y es -> epp_unknown known y = false
    end.

(* no new behaviour: it is what the pinned loop does when the map happens to iterate in
   source order *)
Definition validate_epp_min_is_source_order_stmt : Prop :=
  forall known es, StronglySorted (fun a b => span_ltb (snd a) (snd b) = true) es ->
    validate_epp_min known es = validate_epp_first_found known es.

(* the pinned loop (first unknown key met): two unknown keys, two iteration orders, two errors *)
Definition validate_epp_first_found_refuted_stmt : Prop :=
  exists known es1 es2, epp_entries_wf es1 /\ Permutation es1 es2 /\
    validate_epp_first_found known es1 <> validate_epp_first_found known es2.

(* in general: whenever >= 2 declarations name unknown tokens, some iteration order of the same
   map makes the pinned loop report another one *)
Definition validate_epp_first_found_sensitive_stmt : Prop :=
  forall known es, epp_entries_wf es -> 2 <= length (filter (epp_unknown known) es) ->
    exists es', Permutation es es' /\
      validate_epp_first_found known es <> validate_epp_first_found known es'.
