(* C15 — proofs of the statements of Spec.v, parts (a) (b) (d); (c) is in
   ProofsGc.v and (e) in ProofsOnce.v *)
From Coq Require Import List Arith Bool Lia Permutation Sorted.
From GV Require Import Common.Outcome C15.Model C15.Spec C15.Lemmas.
Import ListNotations.

(* ================================================================== (a) *)
Definition imp_prod (t : nat) : nat * list nat := (1, [tok t; rul 1]).

Lemma eco_fold nprods : forall o ps ip,
  fold_left (eco_tok_step nprods) o (ps, ip) =
  (ps ++ map imp_prod o, ip ++ map (fun k => nprods + k) (seq (length ps) (length o))).
Proof.
  induction o as [|t o IH]; intros ps ip; simpl.
  - rewrite !app_nil_r. reflexivity.
  - unfold eco_tok_step at 2. simpl. rewrite IH.
    rewrite app_length. simpl. rewrite Nat.add_1_r.
    rewrite <- !app_assoc. reflexivity.
Qed.

Lemma eco_build_closed nprods rs o :
  eco_build nprods rs o =
  {| eo_prods := ((0, [rul 2]) :: map imp_prod o) ++ [(1, [])] ++ [(2, [rul 1; rul rs])];
     eo_implicit_prods := map (fun k => nprods + k) (seq 1 (length o)) ++ [nprods + S (length o)];
     eo_start_prod := nprods;
     eo_implicit_start_prod := nprods + S (S (length o)) |}.
Proof.
  unfold eco_build. rewrite eco_fold. simpl.
  rewrite !app_length, !map_length. simpl.
  rewrite <- !app_assoc. simpl.
  f_equal; try f_equal; lia.
Qed.

Lemma imp_prod_inj x y : imp_prod x = imp_prod y -> x = y.
Proof. unfold imp_prod, tok. intros H. inversion H. lia. Qed.

Lemma build_implicit_injective : build_implicit_injective_stmt.
Proof.
  intros nprods rs o1 o2 H. rewrite !eco_build_closed in H.
  inversion H as [[Hp Hi]]. clear Hi.
  apply app_inv_tail in Hp. eapply map_inj; [exact imp_prod_inj|exact Hp].
Qed.

Lemma build_implicit_sensitive : build_implicit_sensitive_stmt.
Proof.
  intros nprods rs o Hnd Hlen.
  destruct o as [|a [|b l]]; simpl in Hlen; try lia.
  exists (b :: a :: l). split; [apply perm_swap|].
  intros He. apply build_implicit_injective in He.
  inversion He as [[Hab Hba]]. subst b.
  inversion Hnd as [|x xs Hx Hxs]; subst. apply Hx. left. reflexivity.
Qed.

Lemma build_implicit_order_insensitive_refuted : build_implicit_order_insensitive_refuted_stmt.
Proof.
  exists 2, 3, [0; 1], [1; 0].
  split; [repeat constructor; simpl; intuition lia|].
  split; [apply perm_swap|].
  vm_compute. intros H. discriminate H.
Qed.

Lemma build_implicit_invariants : build_implicit_invariants_stmt.
Proof.
  intros nprods rs o1 o2 HP a b. subst a b. rewrite !eco_build_closed. simpl.
  pose proof (Permutation_length HP) as Hlen.
  split; [|split; [|split; [|split]]].
  - apply perm_skip. apply Permutation_app_tail. apply Permutation_map. exact HP.
  - f_equal. rewrite !map_app. f_equal. unfold imp_prod. rewrite !map_map. simpl.
    apply map_const_len. exact Hlen.
  - rewrite Hlen. reflexivity.
  - reflexivity.
  - rewrite Hlen. reflexivity.
Qed.

Lemma build_implicit_le1_order_insensitive : build_implicit_le1_order_insensitive_stmt.
Proof.
  intros nprods rs o1 o2 Hlen HP.
  destruct o1 as [|a [|b l]]; simpl in Hlen; try lia.
  - apply Permutation_nil in HP. subst. reflexivity.
  - apply Permutation_length_1_inv in HP. subst. reflexivity.
Qed.

Lemma implicit_in_token_order_perm ntokens o1 o2 :
  Permutation o1 o2 -> implicit_in_token_order ntokens o1 = implicit_in_token_order ntokens o2.
Proof.
  intros HP. unfold implicit_in_token_order. apply filter_ext. intros t.
  apply mem_ext_perm. intros y. split; intros H.
  - eapply Permutation_in; [exact HP|exact H].
  - eapply Permutation_in; [apply Permutation_sym; exact HP|exact H].
Qed.

Lemma build_implicit_fixed_order_insensitive : build_implicit_fixed_order_insensitive_stmt.
Proof.
  intros nprods rs ntokens o1 o2 HP. unfold eco_build_fixed.
  rewrite (implicit_in_token_order_perm ntokens o1 o2 HP). reflexivity.
Qed.

Lemma build_implicit_fixed_is_an_order : build_implicit_fixed_is_an_order_stmt.
Proof.
  intros ntokens o Hnd Hb. unfold implicit_in_token_order.
  apply NoDup_Permutation.
  - exact Hnd.
  - apply NoDup_filter. apply seq_NoDup.
  - intros x. rewrite filter_In, in_seq, mem_In. split.
    + intros H. split; [|exact H]. specialize (Hb x H). lia.
    + intros [_ H]. exact H.
Qed.

(* ================================================================== (b) *)
Lemma ai_step_comm ntok a x y : ai_step ntok (ai_step ntok a x) y = ai_step ntok (ai_step ntok a y) x.
Proof.
  destruct a as [v| |]; simpl; try reflexivity.
  destruct (x <? ntok) eqn:Ex, (y <? ntok) eqn:Ey; simpl; rewrite ?Ex, ?Ey; try reflexivity.
  destruct (Nat.eq_dec x y) as [->|Hne]; [reflexivity|].
  rewrite set_nth_comm by exact Hne. reflexivity.
Qed.

Lemma avoid_insert_order_insensitive : avoid_insert_order_insensitive_stmt.
Proof.
  intros ntok o1 o2 HP. unfold avoid_bits.
  apply fold_left_perm_comm; [apply ai_step_comm|exact HP].
Qed.

Lemma ai_fold_spec ntok : forall o v,
  length v = ntok -> (forall t, In t o -> t < ntok) ->
  exists w, fold_left (ai_step ntok) o (Done v) = Done w /\ length w = ntok /\
            forall j, nth j w false = nth j v false || (mem j o && (j <? ntok)).
Proof.
  induction o as [|t o IH]; intros v Hlen Hb; simpl.
  - exists v. split; [reflexivity|split; [exact Hlen|]]. intros j. rewrite orb_false_r. reflexivity.
  - assert (Ht : t < ntok) by (apply Hb; left; reflexivity).
    apply Nat.ltb_lt in Ht. rewrite Ht.
    destruct (IH (set_nth v t true)) as [w [Hw [Hlw Hn]]].
    + rewrite set_nth_length. exact Hlen.
    + intros u Hu. apply Hb. right. exact Hu.
    + exists w. split; [exact Hw|split; [exact Hlw|]].
      intros j. rewrite Hn, nth_set_nth, Hlen, Ht, andb_true_r.
      rewrite (Nat.eqb_sym j t).
      destruct (t =? j) eqn:E; simpl.
      * apply Nat.eqb_eq in E. subst j. rewrite Ht. simpl. rewrite orb_true_r. reflexivity.
      * reflexivity.
Qed.

Lemma nth_repeat_false j n : nth j (repeat false n) false = false.
Proof.
  revert j. induction n as [|n IH]; intros [|j]; simpl; auto.
Qed.

Lemma avoid_insert_spec : avoid_insert_spec_stmt.
Proof.
  intros ntok o Hb. unfold avoid_bits.
  destruct (ai_fold_spec ntok o (repeat false ntok)) as [w [Hw [Hlw Hn]]].
  - apply repeat_length.
  - exact Hb.
  - rewrite Hw. f_equal.
    apply nth_ext with (d := false) (d' := false).
    + rewrite map_length, seq_length. exact Hlw.
    + intros j Hj. rewrite Hlw in Hj. rewrite Hn, nth_repeat_false. simpl.
      apply Nat.ltb_lt in Hj as Hj'. rewrite Hj', andb_true_r.
      rewrite (nth_indep _ false (mem 0 o)) by (rewrite map_length, seq_length; exact Hj).
      change (mem 0 o) with ((fun t => mem t o) 0).
      rewrite map_nth, seq_nth by exact Hj. reflexivity.
Qed.

(* ================================================================== (d) *)
Lemma row_equiv_refl a : row_equiv a a.
Proof. destruct a as [r| |]; simpl; auto. Qed.

Lemma row_equiv_trans a b c : row_equiv a b -> row_equiv b c -> row_equiv a c.
Proof.
  destruct a as [ra| |], b as [rb| |], c as [rc| |]; simpl; try tauto.
  intros [H1 [H2 [H3 H4]]] [K1 [K2 [K3 K4]]].
  repeat split; try congruence. eapply perm_trans; eassumption.
Qed.

Lemma edge_step_resp res a b x :
  row_equiv a b -> row_equiv (edge_step res a x) (edge_step res b x).
Proof.
  destruct a as [ra| |], b as [rb| |]; simpl; try tauto.
  intros [H1 [H2 [H3 H4]]].
  destruct ra as [aa ag asa ac], rb as [ba bg bsa bc]; simpl in *. subst ba bg bsa.
  destruct (Nat.even (fst x)).
  - unfold tok_edge; simpl. destruct (nth_error aa (Nat.div2 (fst x))) as [c|]; simpl; [|exact I].
    destruct (tok_effect res c (Nat.div2 (fst x)) (snd x)) as [eff| |]; simpl; auto.
    repeat split; auto. apply Permutation_app_tail. exact H4.
  - unfold rule_edge; simpl. destruct (Nat.div2 (fst x) <? length ag); simpl; auto.
Qed.

Lemma even_div2_inj a b : Nat.even a = Nat.even b -> Nat.div2 a = Nat.div2 b -> a = b.
Proof.
  intros He Hd.
  rewrite (Nat.div2_odd a), (Nat.div2_odd b), Hd.
  rewrite <- !Nat.negb_even, He. reflexivity.
Qed.

Lemma tok_effect_not_fuel res c i t : tok_effect res c i t <> OutOfFuel.
Proof.
  unfold tok_effect. destruct c as [|x|p|]; try discriminate.
  - destruct (x =? t); discriminate.
  - destruct (res i p) as [|cf| |]; discriminate.
Qed.

(* the three commutation cases *)
Lemma tok_tok_comm res r i1 t1 i2 t2 : i1 <> i2 ->
  row_equiv (do r' <- tok_edge res r i1 t1; tok_edge res r' i2 t2)
            (do r' <- tok_edge res r i2 t2; tok_edge res r' i1 t1).
Proof.
  intros Hne. destruct r as [aa ag asa ac]. unfold tok_edge; simpl.
  destruct (nth_error aa i1) as [c1|] eqn:E1; destruct (nth_error aa i2) as [c2|] eqn:E2; simpl.
  - destruct (tok_effect res c1 i1 t1) as [[n1 k1]| |] eqn:F1;
    destruct (tok_effect res c2 i2 t2) as [[n2 k2]| |] eqn:F2; simpl.
    all: try (destruct n1 as [n1|]; simpl; rewrite ?nth_error_set_nth_neq by exact Hne; rewrite ?E2; simpl; rewrite ?F2; simpl).
    all: try (destruct n2 as [n2|]; simpl; rewrite ?nth_error_set_nth_neq by (intro; apply Hne; symmetry; assumption); rewrite ?E1; simpl; rewrite ?F1; simpl).
    all: try exact I.
    all: repeat split; try reflexivity.
    all: try (rewrite (set_nth_comm _ i1 i2) by exact Hne; reflexivity).
    all: try (rewrite <- !app_assoc; apply Permutation_app_head; apply Permutation_app_comm).
    all: try (exfalso; eapply tok_effect_not_fuel; eassumption).
  - destruct (tok_effect res c1 i1 t1) as [[n1 k1]| |] eqn:F1; simpl.
    + destruct n1 as [n1|]; simpl; rewrite ?nth_error_set_nth_neq by exact Hne; rewrite E2; exact I.
    + exact I.
    + exfalso; eapply tok_effect_not_fuel; eassumption.
  - destruct (tok_effect res c2 i2 t2) as [[n2 k2]| |] eqn:F2; simpl.
    + destruct n2 as [n2|]; simpl; rewrite ?nth_error_set_nth_neq by (intro; apply Hne; symmetry; assumption); rewrite E1; exact I.
    + exact I.
    + exfalso; eapply tok_effect_not_fuel; eassumption.
  - exact I.
Qed.

Lemma tok_rule_comm res r i1 t1 i2 t2 :
  row_equiv (do r' <- tok_edge res r i1 t1; rule_edge r' i2 t2)
            (do r' <- rule_edge r i2 t2; tok_edge res r' i1 t1).
Proof.
  destruct r as [aa ag asa ac]. unfold tok_edge, rule_edge; simpl.
  destruct (nth_error aa i1) as [c1|] eqn:E1; simpl.
  - destruct (tok_effect res c1 i1 t1) as [[n1 k1]| |] eqn:F1; simpl.
    + destruct (i2 <? length ag); simpl; [|exact I]. rewrite E1. simpl. rewrite F1. simpl.
      repeat split; reflexivity.
    + destruct (i2 <? length ag); simpl; [|exact I]. rewrite E1. simpl. rewrite F1. exact I.
    + exfalso; eapply tok_effect_not_fuel; eassumption.
  - destruct (i2 <? length ag); simpl; [|exact I]. rewrite E1. exact I.
Qed.

Lemma row_equiv_sym a b : row_equiv a b -> row_equiv b a.
Proof.
  destruct a as [ra| |], b as [rb| |]; simpl; try tauto.
  intros [H1 [H2 [H3 H4]]]. repeat split; auto. apply Permutation_sym. exact H4.
Qed.

Lemma rule_rule_comm r i1 t1 i2 t2 : i1 <> i2 ->
  row_equiv (do r' <- rule_edge r i1 t1; rule_edge r' i2 t2)
            (do r' <- rule_edge r i2 t2; rule_edge r' i1 t1).
Proof.
  intros Hne. destruct r as [aa ag asa ac]. unfold rule_edge; simpl.
  destruct (i1 <? length ag) eqn:L1; destruct (i2 <? length ag) eqn:L2; simpl;
    rewrite ?set_nth_length, ?L1, ?L2; simpl; try exact I.
  repeat split; try reflexivity. apply set_nth_comm. exact Hne.
Qed.

Lemma edge_step_comm res a x y : fst x <> fst y ->
  row_equiv (edge_step res (edge_step res a x) y) (edge_step res (edge_step res a y) x).
Proof.
  intros Hne. destruct a as [r| |]; simpl; try exact I.
  destruct (Nat.even (fst x)) eqn:Ex; destruct (Nat.even (fst y)) eqn:Ey.
  - assert (Hd : Nat.div2 (fst x) <> Nat.div2 (fst y)).
    { intro Hd. apply Hne. apply even_div2_inj; congruence. }
    pose proof (tok_tok_comm res r _ (snd x) _ (snd y) Hd) as H.
    destruct (tok_edge res r (Nat.div2 (fst x)) (snd x)) as [rx| |];
    destruct (tok_edge res r (Nat.div2 (fst y)) (snd y)) as [ry| |]; simpl in *; rewrite ?Ex, ?Ey; exact H.
  - pose proof (tok_rule_comm res r (Nat.div2 (fst x)) (snd x) (Nat.div2 (fst y)) (snd y)) as H.
    destruct (tok_edge res r (Nat.div2 (fst x)) (snd x)) as [rx| |];
    destruct (rule_edge r (Nat.div2 (fst y)) (snd y)) as [ry| |]; simpl in *; rewrite ?Ex, ?Ey; exact H.
  - pose proof (tok_rule_comm res r (Nat.div2 (fst y)) (snd y) (Nat.div2 (fst x)) (snd x)) as H.
    apply row_equiv_sym in H.
    destruct (tok_edge res r (Nat.div2 (fst y)) (snd y)) as [ry| |];
    destruct (rule_edge r (Nat.div2 (fst x)) (snd x)) as [rx| |]; simpl in *; rewrite ?Ex, ?Ey; exact H.
  - assert (Hd : Nat.div2 (fst x) <> Nat.div2 (fst y)).
    { intro Hd. apply Hne. apply even_div2_inj; congruence. }
    pose proof (rule_rule_comm r _ (snd x) _ (snd y) Hd) as H.
    destruct (rule_edge r (Nat.div2 (fst x)) (snd x)) as [rx| |];
    destruct (rule_edge r (Nat.div2 (fst y)) (snd y)) as [ry| |]; simpl in *; rewrite ?Ex, ?Ey; exact H.
Qed.

Lemma table_row_order_insensitive : table_row_order_insensitive_stmt.
Proof.
  intros res init es1 es2 Hnd HP. unfold process_edges.
  apply (fold_perm_R row_equiv (edge_step res) fst).
  - exact row_equiv_refl.
  - exact row_equiv_trans.
  - intros a b x. apply edge_step_resp.
  - intros a x y. apply edge_step_comm.
  - exact HP.
  - exact Hnd.
  - apply row_equiv_refl.
Qed.

Lemma table_row_fixed_order_insensitive : table_row_fixed_order_insensitive_stmt.
Proof.
  intros res init es1 es2 Hnd HP. unfold process_edges_fixed.
  pose proof (table_row_order_insensitive res init es1 es2 Hnd HP) as H.
  destruct (process_edges res init es1) as [r1| |], (process_edges res init es2) as [r2| |];
    simpl in *; try tauto.
  destruct H as [H1 [H2 [H3 H4]]]. unfold sort_conflicts. f_equal.
  rewrite H1, H2, H3.
  rewrite (isort_perm_eq pair_leb pair_leb_total pair_leb_trans pair_leb_antisym _ _ H4).
  reflexivity.
Qed.

(* witness: one state, tokens 0 and 1 both carry Reduce(0), no precedences, so both
   edges record a shift/reduce conflict; the two iteration orders list them differently *)
Definition wit_res : nat -> nat -> sr_res := resolve_sr (fun _ => None) (fun _ => None).
Definition wit_row : row :=
  {| r_actions := [CReduce 0; CReduce 0]; r_gotos := [0]; r_sa := [true; true]; r_conflicts := [] |}.

Lemma table_row_bytes_order_insensitive_refuted : table_row_bytes_order_insensitive_refuted_stmt.
Proof.
  exists wit_res, wit_row, [(0, 5); (2, 6)], [(2, 6); (0, 5)].
  split; [simpl; repeat constructor; simpl; intuition lia|].
  split; [apply perm_swap|].
  vm_compute. intros H. discriminate H.
Qed.

(* hypotheses satisfiable / the mirrors compute what one expects *)
Example eco_example :
  eco_build 2 3 [1; 0] =
  {| eo_prods := [(0, [5]); (1, [2; 3]); (1, [0; 3]); (1, []); (2, [3; 7])];
     eo_implicit_prods := [3; 4; 5]; eo_start_prod := 2; eo_implicit_start_prod := 6 |}.
Proof. vm_compute. reflexivity. Qed.

Example eco_fixed_example :
  eco_build_fixed 2 3 4 [1; 0] = eco_build 2 3 [0; 1] /\ eco_build_fixed 2 3 4 [0; 1] = eco_build 2 3 [0; 1].
Proof. vm_compute. split; reflexivity. Qed.

Example avoid_example : avoid_bits 4 [2; 0] = Done [true; false; true; false] /\ avoid_bits 2 [5] = Panic.
Proof. vm_compute. split; reflexivity. Qed.

Example row_example :
  process_edges wit_res wit_row [(0, 5); (2, 6); (1, 7)] =
  Done {| r_actions := [CShift 5; CShift 6]; r_gotos := [8]; r_sa := [true; true]; r_conflicts := [(0, 0); (1, 0)] |}
  /\ process_edges_fixed wit_res wit_row [(2, 6); (1, 7); (0, 5)] = process_edges_fixed wit_res wit_row [(0, 5); (2, 6); (1, 7)].
Proof. vm_compute. split; reflexivity. Qed.
