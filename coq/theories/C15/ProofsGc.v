(* C15 (c) — pager.rs gc: the reachability walk finds exactly the reachable states
   whatever element the HashSet `todo` hands out; the renumbering only asks
   membership, in state-index order. *)
From Coq Require Import List Arith Bool Lia Permutation.
From GV Require Import Common.Outcome C15.Model C15.Spec C15.Lemmas.
Import ListNotations.

Lemma add_new_In l x y : In y (add_new l x) <-> In y l \/ y = x.
Proof.
  unfold add_new. destruct (mem x l) eqn:E.
  - apply mem_In in E. split; [auto|]. intros [H|H]; [exact H|subst; exact E].
  - rewrite in_app_iff. simpl. intuition.
Qed.

Lemma add_new_NoDup l x : NoDup l -> NoDup (add_new l x).
Proof.
  intros H. unfold add_new. destruct (mem x l) eqn:E; [exact H|].
  apply mem_false in E. eapply Permutation_NoDup; [apply Permutation_cons_append|].
  constructor; assumption.
Qed.

Lemma fold_add_new_In ys : forall l y, In y (fold_left add_new ys l) <-> In y l \/ In y ys.
Proof.
  induction ys as [|z ys IH]; intros l y; simpl; [intuition|].
  rewrite IH, add_new_In. intuition.
Qed.

Lemma fold_add_new_NoDup ys : forall l, NoDup l -> NoDup (fold_left add_new ys l).
Proof.
  induction ys as [|z ys IH]; intros l H; simpl; [exact H|]. apply IH. apply add_new_NoDup. exact H.
Qed.

Lemma remove_nat_In x l y : In y (remove_nat x l) <-> In y l /\ y <> x.
Proof.
  unfold remove_nat. rewrite filter_In. rewrite negb_true_iff, Nat.eqb_neq. intuition.
Qed.

Section Walk.
  Variable edges : list (list (nat * nat)).
  Variable start : nat.
  Hypothesis Hwf : edges_wf edges.
  Let n := length edges.

  Definition winv (todo seen : list nat) : Prop :=
    NoDup todo /\ NoDup seen /\
    (forall x, In x todo -> ~ In x seen) /\
    (forall x, In x todo \/ In x seen -> reach edges start x /\ x < n) /\
    (In start todo \/ In start seen) /\
    (forall x es sym y, In x seen -> nth_error edges x = Some es -> In (sym, y) es -> In y todo \/ In y seen).

  Lemma winv_done seen : winv [] seen -> forall x, In x seen <-> reach edges start x.
  Proof.
    intros [_ [_ [_ [Hr [Hs Hc]]]]] x. split.
    - intros H. apply Hr. right. exact H.
    - intros H. induction H as [|x es sym y Hx IH He Hy].
      + destruct Hs as [[]|Hs]. exact Hs.
      + destruct (Hc x es sym y IH He Hy) as [[]|H]. exact H.
  Qed.

  Lemma winv_bound todo seen x : winv todo seen -> In x todo -> length seen < n.
  Proof.
    intros [_ [Hns [Hd [Hr _]]]] Hx.
    assert (Hnd : NoDup (x :: seen)) by (constructor; [apply Hd; exact Hx|exact Hns]).
    assert (Hincl : incl (x :: seen) (seq 0 n)).
    { intros y Hy. apply in_seq. split; [lia|]. simpl.
      destruct Hy as [<-|Hy]; [apply Hr; left; exact Hx|apply Hr; right; exact Hy]. }
    pose proof (NoDup_incl_length Hnd Hincl) as Hl. rewrite seq_length in Hl. simpl in Hl. lia.
  Qed.

  Lemma winv_step todo seen d k es :
    winv todo seen -> todo = d :: tl todo ->
    let i := nth (k mod length todo) todo d in
    nth_error edges i = Some es ->
    let seen1 := add_new seen i in
    winv (fold_left add_new (filter (fun x => negb (mem x seen1)) (map snd es)) (remove_nat i todo)) seen1
    /\ length seen1 = S (length seen).
  Proof.
    intros Hinv Htodo i Hes seen1.
    assert (Hi : In i todo).
    { subst i. apply nth_In. apply Nat.mod_upper_bound. rewrite Htodo. simpl. lia. }
    destruct Hinv as [Hnt [Hns [Hd [Hr [Hs Hc]]]]].
    assert (Hnis : ~ In i seen) by (apply Hd; exact Hi).
    assert (Hseen1 : seen1 = seen ++ [i]).
    { subst seen1. unfold add_new. apply mem_false in Hnis. rewrite Hnis. reflexivity. }
    assert (Hin1 : forall y, In y seen1 <-> In y seen \/ y = i).
    { intros y. subst seen1. apply add_new_In. }
    split.
    2:{ rewrite Hseen1, app_length. simpl. lia. }
    set (ys := filter (fun x => negb (mem x seen1)) (map snd es)).
    assert (Hys : forall y, In y ys <-> (exists sym, In (sym, y) es) /\ ~ In y seen1).
    { intros y. subst ys. rewrite filter_In, negb_true_iff, mem_false, in_map_iff. split.
      - intros [[[sym y'] [He Hy]] Hn]. simpl in He. subst y'. split; [exists sym; exact Hy|exact Hn].
      - intros [[sym Hy] Hn]. split; [exists (sym, y); split; [reflexivity|exact Hy]|exact Hn]. }
    unfold winv. split; [|split; [|split; [|split; [|split]]]].
    - apply fold_add_new_NoDup. unfold remove_nat. apply NoDup_filter. exact Hnt.
    - subst seen1. apply add_new_NoDup. exact Hns.
    - intros x Hx. rewrite fold_add_new_In in Hx. destruct Hx as [Hx|Hx].
      + apply remove_nat_In in Hx. destruct Hx as [Hx Hne]. rewrite Hin1. intros [H|H]; [apply (Hd x Hx H)|contradiction].
      + apply Hys in Hx. tauto.
    - intros x Hx.
      assert (Hri : reach edges start i /\ i < n) by (apply Hr; left; exact Hi).
      destruct Hx as [Hx|Hx].
      + rewrite fold_add_new_In in Hx. destruct Hx as [Hx|Hx].
        * apply remove_nat_In in Hx. apply Hr. left. tauto.
        * apply Hys in Hx. destruct Hx as [[sym Hy] _]. split.
          -- eapply reach_step; [apply Hri|exact Hes|exact Hy].
          -- eapply Hwf; eassumption.
      + apply Hin1 in Hx. destruct Hx as [Hx | ->]; [apply Hr; right; exact Hx|exact Hri].
    - destruct Hs as [Hs|Hs].
      + destruct (Nat.eq_dec start i) as [He|Hne].
        * right. apply Hin1. right. exact He.
        * left. apply fold_add_new_In. left. apply remove_nat_In. tauto.
      + right. apply Hin1. left. exact Hs.
    - intros x es' sym y Hx He Hy.
      assert (Hcase : In y seen1 \/ ~ In y seen1).
      { destruct (mem y seen1) eqn:E; [left; apply mem_In; exact E|right; apply mem_false; exact E]. }
      destruct Hcase as [Hyes|Hno]; [right; exact Hyes|]. left.
      apply fold_add_new_In.
      apply Hin1 in Hx. destruct Hx as [Hx | ->].
      + destruct (Hc x es' sym y Hx He Hy) as [H|H].
        * left. apply remove_nat_In. split; [exact H|]. intros ->. apply Hno. apply Hin1. right. reflexivity.
        * exfalso. apply Hno. apply Hin1. left. exact H.
      + rewrite Hes in He. inversion He; subst es'. right. apply Hys. split; [exists sym; exact Hy|exact Hno].
  Qed.

  Lemma gc_walk_inv : forall sched todo seen,
    winv todo seen -> n <= length seen + length sched ->
    exists r, gc_walk edges sched todo seen = Done r /\ NoDup r /\ forall x, In x r <-> reach edges start x.
  Proof.
    induction sched as [|k sched IH]; intros todo seen Hinv Hfuel.
    - destruct todo as [|d todo].
      + exists seen. split; [reflexivity|]. split; [apply Hinv|apply winv_done; exact Hinv].
      + exfalso. assert (H : length seen < n) by (eapply winv_bound; [exact Hinv|left; reflexivity]).
        simpl in Hfuel. lia.
    - destruct todo as [|d todo].
      + exists seen. split; [reflexivity|]. split; [apply Hinv|apply winv_done; exact Hinv].
      + cbn [gc_walk].
        set (i := nth (k mod length (d :: todo)) (d :: todo) d).
        assert (Hi : In i (d :: todo)).
        { subst i. apply nth_In. apply Nat.mod_upper_bound. simpl. lia. }
        assert (Hin : i < n) by (apply Hinv; left; exact Hi).
        destruct (nth_error edges i) as [es|] eqn:Hes.
        2:{ apply nth_error_None in Hes. unfold n in Hin. lia. }
        destruct (winv_step (d :: todo) seen d k es Hinv eq_refl Hes) as [Hinv' Hlen].
        fold i in Hinv', Hlen.
        apply IH; [exact Hinv'|]. rewrite Hlen. simpl in Hfuel. lia.
  Qed.
End Walk.

Lemma gc_walk_reachable : gc_walk_reachable_stmt.
Proof.
  intros edges start sched Hwf Hs Hlen.
  apply gc_walk_inv; [exact Hwf| |simpl; lia].
  unfold winv. split; [repeat constructor; simpl; tauto|]. split; [constructor|].
  split; [intros x _ []|]. split.
  - intros x [[<-|[]]|[]]. split; [constructor|exact Hs].
  - split; [left; left; reflexivity|]. intros x es sym y [].
Qed.

(* ---- the renumbering depends on membership and |seen| only ---- *)
Lemma gc_offsets_ext s1 s2 : (forall x, mem x s1 = mem x s2) ->
  forall m i off, gc_offsets s1 i off m = gc_offsets s2 i off m.
Proof.
  intros H. induction m as [|m IH]; intros i off; simpl; [reflexivity|].
  rewrite H, IH. reflexivity.
Qed.

Lemma gc_offsets_length s : forall m i off, length (gc_offsets s i off m) = m.
Proof.
  induction m as [|m IH]; intros i off; simpl; [reflexivity|]. rewrite IH. reflexivity.
Qed.

Lemma gc_finish_ext edges s1 s2 :
  (forall x, mem x s1 = mem x s2) -> length s1 = length s2 -> gc_finish edges s1 = gc_finish edges s2.
Proof.
  intros Hm Hl. unfold gc_finish. rewrite Hl.
  rewrite (gc_offsets_ext s1 s2 Hm).
  rewrite (filter_ext _ _ Hm). reflexivity.
Qed.

Lemma map_outcome_done {A B} (f : A -> outcome B) l :
  (forall x, In x l -> exists y, f x = Done y) -> exists ys, map_outcome f l = Done ys.
Proof.
  induction l as [|x xs IH]; intros H; simpl.
  - exists []. reflexivity.
  - destruct (H x (or_introl eq_refl)) as [y Hy]. rewrite Hy. simpl.
    destruct IH as [ys Hys]; [intros z Hz; apply H; right; exact Hz|].
    rewrite Hys. simpl. exists (y :: ys). reflexivity.
Qed.

Lemma gc_finish_done edges seen : edges_wf edges -> is_done (gc_finish edges seen) = true.
Proof.
  intros Hwf. unfold gc_finish. destruct (length seen =? length edges); [reflexivity|].
  match goal with |- context [map_outcome ?f ?l] => destruct (map_outcome_done f l) as [ys Hys] end.
  - intros i Hi. apply filter_In in Hi. destruct Hi as [Hi _]. apply in_seq in Hi.
    unfold nth_checked. destruct (nth_error edges i) as [es|] eqn:He.
    2:{ apply nth_error_None in He. lia. }
    simpl.
    match goal with |- context [map_outcome ?g es] => destruct (map_outcome_done g es) as [zs Hzs] end.
    + intros [sym y] Hy. simpl.
      assert (Hlt : y < length edges) by (eapply Hwf; eassumption).
      destruct (nth_error (gc_offsets seen 0 0 (length edges)) y) as [v|] eqn:Hv.
      * simpl. eexists. reflexivity.
      * apply nth_error_None in Hv. rewrite gc_offsets_length in Hv. lia.
    + rewrite Hzs. eexists. reflexivity.
  - rewrite Hys. reflexivity.
Qed.

Lemma gc_order_insensitive : gc_order_insensitive_stmt.
Proof.
  intros edges start s1 s2 Hwf Hs H1 H2.
  destruct (gc_walk_reachable edges start s1 Hwf Hs H1) as [r1 [W1 [N1 R1]]].
  destruct (gc_walk_reachable edges start s2 Hwf Hs H2) as [r2 [W2 [N2 R2]]].
  unfold gc. rewrite W1, W2. simpl.
  assert (Hiff : forall x, In x r1 <-> In x r2) by (intros x; rewrite R1, R2; tauto).
  split; [|apply gc_finish_done; exact Hwf].
  apply gc_finish_ext.
  - intros x. apply mem_ext_perm. exact Hiff.
  - apply Permutation_length. apply NoDup_Permutation; assumption.
Qed.

(* ---- new numbers follow the old order ---- *)
Lemma filter_seq_increasing (p : nat -> bool) : forall m s i j a b,
  i < j -> nth_error (filter p (seq s m)) i = Some a -> nth_error (filter p (seq s m)) j = Some b -> a < b.
Proof.
  induction m as [|m IH]; intros s i j a b Hij Ha Hb; simpl in *.
  - destruct i; discriminate.
  - destruct (p s).
    + destruct i as [|i], j as [|j]; simpl in *; try lia.
      * inversion Ha; subst a.
        assert (Hin : In b (filter p (seq (S s) m))) by (eapply nth_error_In; exact Hb).
        apply filter_In in Hin. destruct Hin as [Hin _]. apply in_seq in Hin. lia.
      * eapply IH; [|exact Ha|exact Hb]. lia.
    + eapply IH; eassumption.
Qed.

Lemma gc_renumbering_monotone : gc_renumbering_monotone_stmt.
Proof.
  intros edges start sched kept new_edges Hgc i j a b Hij Ha Hb.
  unfold gc in Hgc. destruct (gc_walk edges sched [start] []) as [seen| |]; simpl in Hgc; try discriminate.
  unfold gc_finish in Hgc. destruct (length seen =? length edges).
  - inversion Hgc; subst kept new_edges.
    assert (Hli : i < length (seq 0 (length edges))) by (apply nth_error_Some; congruence).
    assert (Hlj : j < length (seq 0 (length edges))) by (apply nth_error_Some; congruence).
    rewrite seq_length in Hli, Hlj.
    pose proof (nth_error_nth _ _ 0 Ha) as Hia. rewrite seq_nth in Hia by exact Hli.
    pose proof (nth_error_nth _ _ 0 Hb) as Hjb. rewrite seq_nth in Hjb by exact Hlj.
    lia.
  - match type of Hgc with context [map_outcome ?f ?l] => destruct (map_outcome f l) as [ne| |] end;
      simpl in Hgc; try discriminate.
    inversion Hgc; subst kept new_edges.
    eapply filter_seq_increasing; eassumption.
Qed.

Example gc_example :
  (* states 0..3, state 1 unreachable; two different pop orders *)
  let edges := [[(0, 2); (3, 3)]; [(0, 0)]; [(2, 3)]; [(1, 2)]] in
  gc edges 0 [0; 0; 0; 0] = Done ([0; 2; 3], [[(0, 1); (3, 2)]; [(2, 2)]; [(1, 1)]]) /\
  gc edges 0 [7; 5; 1; 0] = gc edges 0 [0; 0; 0; 0] /\
  gc_walk edges [0; 0; 0; 0] [0] [] <> gc_walk edges [0; 1; 0; 0] [0] [].
Proof. vm_compute. repeat split; try reflexivity. intros H; discriminate H. Qed.
