(* C15 — small mirrors of the places in /repo where a randomly seeded container
   (std HashMap / HashSet with RandomState) is iterated.  In every mirror the
   iteration order is an EXPLICIT list (or schedule) parameter, so "the result
   does not depend on the hash seed" becomes "the result is invariant under
   permutation of that parameter".

     (a) cfgrammar/src/lib/yacc/grammar.rs:255-305   Eco implicit-token rewrite
     (b) cfgrammar/src/lib/yacc/grammar.rs:351-359   %avoid_insert bit vector
     (c) lrtable/src/lib/pager.rs:319-400            gc (reachability walk + renumbering)
     (d) lrtable/src/lib/statetable.rs:279-314       StateTable::new, loop over sg.edges(stidx)
     (e) lrpar/src/lib/ctbuilder.rs:1384-1404        OnceLock-guarded reconstitution (abstract)

   Symbols are coded as in the harness dumps: 2k = token k, 2k+1 = rule k.
   Definitions only; statements in Spec.v, proofs in Proofs.v. *)
From Coq Require Import List Arith Bool Lia PeanoNat.
From GV Require Import Common.Outcome.
Import ListNotations.

Definition tok (t : nat) : nat := 2 * t.
Definition rul (r : nat) : nat := 2 * r + 1.

(* Vec / Vob element update; out of range is checked by the callers *)
Fixpoint set_nth {A} (l : list A) (i : nat) (v : A) : list A :=
  match l, i with
  | [], _ => []
  | _ :: xs, 0 => v :: xs
  | x :: xs, S i' => x :: set_nth xs i' v
  end.

Definition mem (x : nat) (l : list nat) : bool := existsb (Nat.eqb x) l.

(* ------------------------------------------------------------------ (a) *)
(* grammar.rs: rule_names = [^ ; ~ ; ^~ ; user rules…] so RIdx 0 = start rule,
   1 = implicit rule `~`, 2 = implicit start rule `^~`.  The AST productions keep
   their indices 0..nprods-1; the loop `for (astrulename, _) in &rule_names`
   APPENDS (prods.push) in this order:
       ^  : ^~                          at index nprods
       ~  : T ~   for T in implicit_tokens.keys()      <- HashMap iteration, order [o]
       ~  :                             (empty production)
       ^~ : ~ S
   [o] is the key iteration order already mapped through token_map (every key is a
   member of ast.tokens: parser.rs:569 inserts it; a hand-built AST violating this
   panics at `token_map[t]` whatever the order).  [rs] is the RIdx of the user's
   start rule. *)
Record eco_out := {
  eo_prods : list (nat * list nat);     (* appended productions (rule, symbols); PIdx = nprods + position *)
  eo_implicit_prods : list nat;         (* rules_prods[~] *)
  eo_start_prod : nat;                  (* rules_prods[^][0] *)
  eo_implicit_start_prod : nat          (* rules_prods[^~][0] *)
}.

Definition eco_tok_step (nprods : nat) (acc : list (nat * list nat) * list nat) (t : nat) :=
  (fst acc ++ [(1, [tok t; rul 1])], snd acc ++ [nprods + length (fst acc)]).

Definition eco_build (nprods rs : nat) (o : list nat) : eco_out :=
  let ps0 := [(0, [rul 2])] in
  let acc := fold_left (eco_tok_step nprods) o (ps0, []) in
  let ps1 := fst acc in
  let ip2 := snd acc ++ [nprods + length ps1] in
  let ps2 := ps1 ++ [(1, [])] in
  let ps3 := ps2 ++ [(2, [rul 1; rul rs])] in
  {| eo_prods := ps3; eo_implicit_prods := ip2; eo_start_prod := nprods;
     eo_implicit_start_prod := nprods + length ps2 |}.

(* PROPOSED FIX: iterate `ast.tokens` (IndexSet: insertion order = TIdx order) and keep
   the members of implicit_tokens:
       for t in ast.tokens.iter().filter(|t| implicit_tokens.contains_key(t))        *)
Definition implicit_in_token_order (ntokens : nat) (o : list nat) : list nat :=
  filter (fun t => mem t o) (seq 0 ntokens).

Definition eco_build_fixed (nprods rs ntokens : nat) (o : list nat) : eco_out :=
  eco_build nprods rs (implicit_in_token_order ntokens o).

(* ------------------------------------------------------------------ (b) *)
(* let mut aiv = Vob::from_elem(false, token_names.len());
   for n in ai.keys() { aiv.set(usize::from(token_map[n]), true); }     (Vob::set panics out of range) *)
Definition ai_step (ntok : nat) (acc : outcome (list bool)) (t : nat) : outcome (list bool) :=
  match acc with
  | Done v => if t <? ntok then Done (set_nth v t true) else Panic
  | x => x
  end.

Definition avoid_bits (ntok : nat) (o : list nat) : outcome (list bool) :=
  fold_left (ai_step ntok) o (Done (repeat false ntok)).

(* ------------------------------------------------------------------ (c) *)
(* pager.rs gc.  [edges] : per state the (symbol, target) pairs of its HashMap in
   iteration order.  `todo`/`seen` are HashSets: kept as duplicate-free lists; the
   element returned by `todo.iter().next()` is chosen by the schedule: step i takes
   element number (k_i mod |todo|).  Every real hash order is some schedule.  The
   schedule doubles as fuel. *)
Definition add_new (l : list nat) (x : nat) : list nat := if mem x l then l else l ++ [x].

Definition remove_nat (x : nat) (l : list nat) : list nat := filter (fun y => negb (Nat.eqb x y)) l.

Fixpoint gc_walk (edges : list (list (nat * nat))) (sched : list nat) (todo seen : list nat)
  : outcome (list nat) :=
  match sched with
  | [] => match todo with [] => Done seen | _ => OutOfFuel end
  | k :: sched' =>
    match todo with
    | [] => Done seen
    | d :: _ =>
      let i := nth (k mod length todo) todo d in
      let todo1 := remove_nat i todo in
      let seen1 := add_new seen i in
      match nth_error edges i with
      | None => Panic                                   (* edges[usize::from(state_i)] *)
      | Some es =>
        let todo2 := fold_left add_new (filter (fun x => negb (mem x seen1)) (map snd es)) todo1 in
        gc_walk edges sched' todo2 seen1
      end
    end
  end.

(* offsets.push(state_i - offset); if !seen.contains(state_i) { offset += 1 } *)
Fixpoint gc_offsets (seen : list nat) (i offset n : nat) : list nat :=
  match n with
  | 0 => []
  | S n' => (i - offset) :: gc_offsets seen (S i) (if mem i seen then offset else S offset) n'
  end.

Fixpoint map_outcome {A B} (f : A -> outcome B) (l : list A) : outcome (list B) :=
  match l with
  | [] => Done []
  | x :: xs => do y <- f x; do ys <- map_outcome f xs; Done (y :: ys)
  end.

(* result: the old indices that are kept, in their new order (new index = position),
   and the renumbered edges of every kept state *)
Definition gc_finish (edges : list (list (nat * nat))) (seen : list nat)
  : outcome (list nat * list (list (nat * nat))) :=
  let n := length edges in
  if length seen =? n then Done (seq 0 n, edges)        (* nothing to garbage collect *)
  else
    let offsets := gc_offsets seen 0 0 n in
    let kept := filter (fun i => mem i seen) (seq 0 n) in
    do new_edges <- map_outcome (fun i =>
        do es <- nth_checked edges i;
        map_outcome (fun kv => do v' <- nth_checked offsets (snd kv); Done (fst kv, v')) es) kept;
    Done (kept, new_edges).

Definition gc (edges : list (list (nat * nat))) (start : nat) (sched : list nat) :=
  do seen <- gc_walk edges sched [start] [];
  gc_finish edges seen.

(* ------------------------------------------------------------------ (d) *)
(* One state's row of StateTable::new after the reduce/accept phase, then
   `for (&sym, ref_stidx) in sg.edges(stidx)` (HashMap iteration = list [es]). *)
Inductive cell := CErr | CShift (s : nat) | CReduce (p : nat) | CAccept.

Record row := {
  r_actions : list cell;          (* actions[stidx * tokens_len ..] *)
  r_gotos : list nat;             (* gotos[stidx * rules_len ..], 0 = none, else target+1 *)
  r_sa : list bool;               (* state_actions bits of this state *)
  r_conflicts : list (nat * nat)  (* shift_reduce entries (tidx, pidx) pushed for this state *)
}.

(* Precedence: (level, kind) with kind 0 = Left, 1 = Right, 2 = Nonassoc *)
Inductive sr_res := KeepReduce | ToShift (conflict : bool) | ToError | NotSupported.

Definition resolve_sr (tprec pprec : nat -> option (nat * nat)) (t p : nat) : sr_res :=
  match tprec t, pprec p with
  | _, None | None, _ => ToShift true
  | Some (tl, tk), Some (pl, pk) =>
    if tl =? pl then
      match tk, pk with
      | 0, 0 => KeepReduce
      | 1, 1 => ToShift false
      | 2, 2 => ToError
      | _, _ => NotSupported             (* panic!("Not supported.") *)
      end
    else if pl <? tl then ToShift false
    else KeepReduce
  end.

(* what a token edge does to the cell it meets: new cell value (None = unchanged) and
   the conflicts it records *)
Definition tok_effect (res : nat -> nat -> sr_res) (c : cell) (t tgt : nat)
  : outcome (option cell * list (nat * nat)) :=
  match c with
  | CShift x => if x =? tgt then Done (None, []) else Panic      (* assert!( *ref_stidx == x ) *)
  | CReduce p =>
    match res t p with
    | KeepReduce => Done (None, [])
    | ToShift cf => Done (Some (CShift tgt), if cf then [(t, p)] else [])
    | ToError => Done (Some CErr, [])
    | NotSupported => Panic
    end
  | CAccept => Panic                                             (* panic!("Internal error") *)
  | CErr => Done (Some (CShift tgt), [])
  end.

(* Symbol::Token(s_tidx) arm *)
Definition tok_edge (res : nat -> nat -> sr_res) (r : row) (i tgt : nat) : outcome row :=
  match nth_error (r_actions r) i with
  | None => Panic
  | Some c =>
    do eff <- tok_effect res c i tgt;
    Done {| r_actions := match fst eff with Some c' => set_nth (r_actions r) i c' | None => r_actions r end;
            r_gotos := r_gotos r;
            r_sa := set_nth (r_sa r) i true;
            r_conflicts := r_conflicts r ++ snd eff |}
  end.

(* Symbol::Rule(s_ridx) arm (the debug_assert!(gotos[off] == 0) is compiled out in release) *)
Definition rule_edge (r : row) (i tgt : nat) : outcome row :=
  if i <? length (r_gotos r) then
    Done {| r_actions := r_actions r; r_gotos := set_nth (r_gotos r) i (tgt + 1);
            r_sa := r_sa r; r_conflicts := r_conflicts r |}
  else Panic.

Definition edge_step (res : nat -> nat -> sr_res) (acc : outcome row) (e : nat * nat) : outcome row :=
  do r <- acc;
  if Nat.even (fst e) then tok_edge res r (Nat.div2 (fst e)) (snd e)
  else rule_edge r (Nat.div2 (fst e)) (snd e).

Definition process_edges (res : nat -> nat -> sr_res) (init : row) (es : list (nat * nat)) : outcome row :=
  fold_left (edge_step res) es (Done init).

(* PROPOSED FIX (statetable.rs, before `Conflicts { .. }` is built):
       shift_reduce.sort_by_key(|&(tidx, pidx, stidx)| (stidx, tidx, pidx));
   The outer loop visits states in index order, so the list is already grouped by
   state; per state this is an (insertion) sort by (tidx, pidx). *)
Definition pair_leb (a b : nat * nat) : bool :=
  (fst a <? fst b) || ((fst a =? fst b) && (snd a <=? snd b)).

Section Sort.
  Context {A : Type} (leb : A -> A -> bool).
  Fixpoint insert_sorted (x : A) (l : list A) : list A :=
    match l with
    | [] => [x]
    | y :: ys => if leb x y then x :: l else y :: insert_sorted x ys
    end.
  Fixpoint isort (l : list A) : list A :=
    match l with [] => [] | x :: xs => insert_sorted x (isort xs) end.
End Sort.

Definition sort_conflicts (r : row) : row :=
  {| r_actions := r_actions r; r_gotos := r_gotos r; r_sa := r_sa r;
     r_conflicts := isort pair_leb (r_conflicts r) |}.

Definition process_edges_fixed (res : nat -> nat -> sr_res) (init : row) (es : list (nat * nat)) : outcome row :=
  do r <- process_edges res init es; Done (sort_conflicts r).

(* ------------------------------------------------------------------ (e) *)
(* Abstract std::sync::OnceLock<V>::get_or_init(f) for a pure f : unit -> V, as a
   small-step machine.  A thread at [PStart] inspects the cell: Empty -> it becomes
   the initialiser (cell Running); Running -> it blocks ([PWait]); Full v -> it
   returns v.  The initialiser's next step runs f, stores the value and returns it.
   A blocked thread returns the value once the cell is Full.  This atomicity is the
   ASSUMPTION about std (documented contract of OnceLock::get_or_init: "Many threads
   may call get_or_init concurrently with different initializing functions, but it is
   guaranteed that only one function will be executed"). *)
Section Once.
  Context {V : Type} (f : unit -> V).

  Inductive ocell := OEmpty | ORunning (t : nat) | OFull (v : V).
  Inductive opc := PStart | PInit | PWait | PDone (v : V).

  Record ostate := { o_cell : ocell; o_pcs : list opc; o_inits : nat }.

  Definition set_pc (s : ostate) (t : nat) (p : opc) : ostate :=
    {| o_cell := o_cell s; o_pcs := set_nth (o_pcs s) t p; o_inits := o_inits s |}.

  Definition ostep (s : ostate) (t : nat) : ostate :=
    match nth_error (o_pcs s) t with
    | None => s
    | Some PStart =>
      match o_cell s with
      | OEmpty => {| o_cell := ORunning t; o_pcs := set_nth (o_pcs s) t PInit; o_inits := o_inits s |}
      | ORunning _ => set_pc s t PWait
      | OFull v => set_pc s t (PDone v)
      end
    | Some PInit =>
      {| o_cell := OFull (f tt); o_pcs := set_nth (o_pcs s) t (PDone (f tt)); o_inits := S (o_inits s) |}
    | Some PWait =>
      match o_cell s with
      | OFull v => set_pc s t (PDone v)
      | _ => s
      end
    | Some (PDone _) => s
    end.

  Definition oinit (n : nat) : ostate := {| o_cell := OEmpty; o_pcs := repeat PStart n; o_inits := 0 |}.

  Definition orun (sched : list nat) (s : ostate) : ostate := fold_left ostep sched s.

  Definition is_pdone (p : opc) : bool := match p with PDone _ => true | _ => false end.
  Definition all_done (s : ostate) : bool := forallb is_pdone (o_pcs s).
End Once.

Arguments OEmpty {V}.
Arguments ORunning {V} t.
Arguments PStart {V}.
Arguments PInit {V}.
Arguments PWait {V}.

(* n rounds of round robin over threads 0..k-1 *)
Fixpoint round_robin (k rounds : nat) : list nat :=
  match rounds with 0 => [] | S r => seq 0 k ++ round_robin k r end.
