(* C16 — executable definitions.

   (1) the derived views of a state table (state_actions, state_shifts,
       core_reduces, reduce_only_state) and the boolean coherence check
       [coherent_b] over a dumped automaton extended with the views;
   (2) MIRROR of the second half of StateTable::new (statetable.rs 318-370):
       shifts, core reduces and the reduce-only flag computed from the FINAL
       cells; state_actions comes from the first half (C03.Model.state_mirror:
       bits set while cells are first written, :235 and :292);
   (3) reference LR(1) closure over (production, dot, lookahead) triples using
       the proved-exact FIRST, and the reachable-state set.
   Definitions only. *)
From Coq Require Import List Arith NArith Bool Lia.
From GV Require Import Common.Outcome Base.Grammar Base.Analyses LR.Automaton LR.Validator C03.Model.
Import ListNotations.

Record views := mkViews {
  v_actions : N -> list N;         (* StateTable::state_actions(st) *)
  v_shifts : N -> list N;          (* StateTable::state_shifts(st) *)
  v_core_reduces : N -> list N;    (* StateTable::core_reduces(st) *)
  v_reduce_only : N -> bool        (* StateTable::reduce_only_state(st) *)
}.

Definition views_of_dump (va vsh vcr : list (N * list N)) (vro : list (N * bool)) : views :=
  {| v_actions := fun s => odefault [] (assocN s va);
     v_shifts := fun s => odefault [] (assocN s vsh);
     v_core_reduces := fun s => odefault [] (assocN s vcr);
     v_reduce_only := fun s => odefault false (assocN s vro) |}.

(* ---- per-row checks ---------------------------------------------------------------- *)

Definition nonerr (c : act) : bool := match c with Err => false | _ => true end.
Definition is_shift (c : act) : bool := match c with Shift _ => true | _ => false end.

(* the (rule, length) class of a production: what a reduction does to a parse stack *)
Definition cls (g : grammar) (p : N) : N * nat := (lhs g p, length (rhs g p)).
Definition cls_eqb (x y : N * nat) : bool := N.eqb (fst x) (fst y) && Nat.eqb (snd x) (snd y).

Definition actions_b (toks : list N) (cells : N -> act) (va : list N) : bool :=
  forallb (fun a => memN a toks && nonerr (cells a)) va &&
  forallb (fun a => negb (nonerr (cells a)) || memN a va) toks.

Definition shifts_b (toks : list N) (cells : N -> act) (vsh : list N) : bool :=
  forallb (fun a => memN a toks && is_shift (cells a)) vsh &&
  forallb (fun a => negb (is_shift (cells a)) || memN a vsh) toks.

Definition core_reduces_b (g : grammar) (toks : list N) (cells : N -> act) (vcr : list N) : bool :=
  nodupb N.eqb vcr &&
  forallb (fun p => existsb (fun a => act_eqb (cells a) (Reduce p)) toks) vcr &&
  forallb (fun a => match cells a with
                    | Reduce p => existsb (fun q => cls_eqb (cls g q) (cls g p)) vcr
                    | _ => true
                    end) toks &&
  forallb (fun q => forallb (fun q' => negb (cls_eqb (cls g q) (cls g q')) || N.eqb q q') vcr) vcr.

(* all non-error actions reduce one and the same (rule, length) — and there is one *)
Definition reduce_only_ref (g : grammar) (toks : list N) (cells : N -> act) : bool :=
  match filter (fun a => nonerr (cells a)) toks with
  | [] => false
  | a0 :: ne =>
      match cells a0 with
      | Reduce p0 => forallb (fun a => match cells a with
                                       | Reduce p => cls_eqb (cls g p) (cls g p0)
                                       | _ => false
                                       end) ne
      | _ => false
      end
  end.
Definition reduce_only_b (g : grammar) (toks : list N) (cells : N -> act) (ro : bool) : bool :=
  Bool.eqb ro (reduce_only_ref g toks cells).

(* shift and goto targets are the graph's edges *)
Definition targets_b (g : grammar) (A : automaton) (s : N) : bool :=
  forallb (fun a => match action A s a with
                    | Shift t => optN_eqb (edge A s (T a)) (Some t)
                    | _ => true
                    end) (tidxs g) &&
  forallb (fun r => match goto A s r with
                    | Some t => optN_eqb (edge A s (R r)) (Some t)
                    | None => true
                    end) (ridxs g).

(* ---- reachability of states ------------------------------------------------------------ *)

Definition succs (g : grammar) (A : automaton) (s : N) : list N :=
  flat_map (fun X => match edge A s X with Some t => [t] | None => [] end) (all_syms g).
Definition reach_states_step (g : grammar) (A : automaton) (S : list N) : list N :=
  unionN (flat_map (succs g A) S) S.
Definition reach_states (g : grammar) (A : automaton) : list N :=
  iter (N.to_nat (nstates A)) (reach_states_step g A) [start A].
Definition all_reachable_b (g : grammar) (A : automaton) : bool :=
  forallb (fun s => memN s (reach_states g A)) (states A).

(* ---- LR(1) closure over triples ------------------------------------------------------------ *)

(* A closed state is a set of LR(0) items each carrying a lookahead SET, which
   is empty for items of rules that derive no token string.  A triple
   (p, d, None) says "the item is present", (p, d, Some a) "a is one of its
   lookaheads". *)
Definition triple := (N * nat * option N)%type.
Definition tr_eqb (x y : triple) : bool :=
  N.eqb (fst (fst x)) (fst (fst y)) && Nat.eqb (snd (fst x)) (snd (fst y)) && optN_eqb (snd x) (snd y).
Definition mem_tr (x : triple) (l : list triple) : bool := existsb (tr_eqb x) l.
Definition add_tr (x : triple) (l : list triple) : list triple := if mem_tr x l then l else l ++ [x].
Definition union_tr (a b : list triple) : list triple := fold_left (fun acc x => add_tr x acc) a b.
Definition subset_tr (a b : list triple) : bool := forallb (fun x => mem_tr x b) a.

Definition triples_of (l : list item) : list triple :=
  flat_map (fun i => (it_p i, it_d i, None) :: map (fun a => (it_p i, it_d i, Some a)) (it_la i)) l.

(* what [p -> alpha . R r beta] with lookahead x contributes: for every
   production q of r the item [q -> . gamma], every token of FIRST(beta) as a
   lookahead of it, and x itself when beta is nullable *)
Definition clo_of (g : grammar) (nl : list N) (fs : list pairN) (t : triple) : list triple :=
  let p := fst (fst t) in let d := snd (fst t) in let x := snd t in
  match nth_error (rhs g p) d with
  | Some (R r) =>
      let beta := skipn (S d) (rhs g p) in
      let ls := None :: map Some (first_seq nl fs beta) ++ (if nullable_seq nl beta then [x] else []) in
      flat_map (fun q => if N.eqb (lhs g q) r then map (fun y => (q, 0%nat, y)) ls else []) (pidxs g)
  | _ => []
  end.
Definition clo_new (g : grammar) (nl : list N) (fs : list pairN) (S : list triple) : list triple :=
  flat_map (clo_of g nl fs) S.
Definition clo_step (g : grammar) (nl : list N) (fs : list pairN) (S : list triple) : list triple :=
  union_tr (clo_new g nl fs S) S.
(* iterate until a round adds nothing ([union_tr] only appends) *)
Fixpoint clo_fix (g : grammar) (nl : list N) (fs : list pairN) (fuel : nat) (S : list triple) : list triple :=
  match fuel with
  | O => S
  | Datatypes.S f => let S' := clo_step g nl fs S in
                     if Nat.eqb (length S') (length S) then S' else clo_fix g nl fs f S'
  end.
Definition lr1_closure (g : grammar) (nl : list N) (fs : list pairN) (K : list item) : list triple :=
  clo_fix g nl fs (S (length (prods g) * S (S (N.to_nat (ntoks g))))) (triples_of K).

(* closed(s) is the closure of core(s): contains the core, is closed under the
   closure step, and contains nothing the reference closure does not *)
Definition closure_b (g : grammar) (nl : list N) (fs : list pairN) (A : automaton) (s : N) : bool :=
  let C := triples_of (closed A s) in
  subset_tr (triples_of (core A s)) C &&
  subset_tr (clo_new g nl fs C) C &&
  subset_tr C (lr1_closure g nl fs (core A s)).

(* ---- the whole check --------------------------------------------------------------------------- *)

Definition row_b (g : grammar) (A : automaton) (V : views) (s : N) : bool :=
  actions_b (tidxs g) (action A s) (v_actions V s) &&
  shifts_b (tidxs g) (action A s) (v_shifts V s) &&
  targets_b g A s &&
  core_reduces_b g (tidxs g) (action A s) (v_core_reduces V s) &&
  reduce_only_b g (tidxs g) (action A s) (v_reduce_only V s).

Definition coherent_b (g : grammar) (A : automaton) (V : views) : bool :=
  forallb (row_b g A V) (states A) &&
  all_reachable_b g A &&
  match first_ref g with
  | Some (nl, fs) => forallb (closure_b g nl fs A) (states A)
  | None => false
  end.

(* ---- MIRROR of statetable.rs 333-370 (one state) ------------------------------------------------- *)

(* nt_depth: HashMap<(RIdx, usize), PIdx>; insert overwrites *)
Fixpoint nt_insert (k : N * nat) (v : N) (m : list ((N * nat) * N)) : list ((N * nat) * N) :=
  match m with
  | [] => [(k, v)]
  | (k', v') :: m' => if cls_eqb k k' then (k, v) :: m' else (k', v') :: nt_insert k v m'
  end.

Record vacc := mkVacc { va_nt : list ((N * nat) * N); va_only : bool; va_shifts : list N }.

Definition view_tok (g : grammar) (cells : N -> act) (acc : vacc) (a : N) : vacc :=
  match cells a with
  | Reduce p => mkVacc (nt_insert (cls g p) p (va_nt acc)) (va_only acc) (va_shifts acc)
  | Shift _ => mkVacc (va_nt acc) false (va_shifts acc ++ [a])
  | Accept => mkVacc (va_nt acc) false (va_shifts acc)
  | Err => acc
  end.

(* core_reduces.set(off, true) returns whether the bit changed; the bits of a
   state start cleared.  nt_depth.values() is iterated in hash order: only the
   set of bits and the count depend on it, and neither depends on the order. *)
Definition set_bits (vals : list N) : list N * nat :=
  fold_left (fun '(cr, n) p => if memN p cr then (cr, n) else (cr ++ [p], S n)) vals ([], 0%nat).

(* (state_shifts, core_reduces, reduce_only) of a state from its final cells *)
Definition views_row (g : grammar) (toks : list N) (cells : N -> act) : list N * list N * bool :=
  let acc := fold_left (view_tok g cells) toks (mkVacc [] true []) in
  let '(cr, distinct) := set_bits (map snd (va_nt acc)) in
  (va_shifts acc, cr, va_only acc && Nat.eqb distinct 1).
