(* C16 — proofs of the statements of Spec.v. *)
From Coq Require Import List Arith NArith Bool Lia Permutation.
From GV Require Import Common.Outcome Base.Grammar Base.Analyses Base.GrammarFacts Base.AnalysesProofs
  LR.Automaton LR.Validator C03.Model C03.Spec C03.Lists C03.Small C03.Proofs C03.Examples
  C16.Model C16.Spec C16.RowProofs C16.GraphProofs.
Import ListNotations.

Lemma coherent_b_sound : coherent_b_sound_stmt.
Proof.
  intros g A V _ H. unfold coherent_b in H.
  apply andb_true_iff in H. destruct H as [H H3]. apply andb_true_iff in H. destruct H as [H1 H2].
  rewrite forallb_forall in H1. split; [|split].
  - intros s Hs. specialize (H1 s Hs). unfold row_b in H1.
    apply andb_true_iff in H1. destruct H1 as [H1 R5]. apply andb_true_iff in H1. destruct H1 as [H1 R4].
    apply andb_true_iff in H1. destruct H1 as [H1 R3]. apply andb_true_iff in H1. destruct H1 as [R1 R2].
    split; [apply actions_reflect; exact R1|]. split; [apply shifts_reflect; exact R2|].
    split; [apply (proj1 (targets_reflect g A s)); exact R3|]. split; [apply core_reduces_reflect; exact R4|].
    apply reduce_only_reflect. exact R5.
  - exact (all_reachable_b_sound g A H2).
  - destruct (first_ref g) as [[nl fs]|] eqn:Efr; [|discriminate].
    rewrite forallb_forall in H3. intros s Hs. apply (closure_b_sound g nl fs A s Efr). apply H3. exact Hs.
Qed.

(* ---- state_actions as the code computes it ------------------------------------------------- *)

Lemma has_candidate_char g tp pp items edges a :
  has_candidate g items edges a = true <->
  (cell_spec g tp pp items edges a <> Err \/ nonassoc_erased g tp pp items edges a).
Proof.
  unfold has_candidate, cell_spec, nonassoc_erased, winner.
  destruct (acc_cand g items a) eqn:Ea.
  - simpl. split; [intros _; left; discriminate | reflexivity].
  - simpl. remember (red_cands g items a) as rc eqn:Erc. destruct rc as [|p0 l].
    + change (min_list []) with (@None N). destruct (assoc_sym (T a) edges) as [tgt|] eqn:Ee; simpl.
      * split; [intros _; left; discriminate | reflexivity].
      * split; [discriminate|]. intros [H|(_ & tgt & p & H & _)]; [exfalso; apply H; reflexivity | discriminate].
    + destruct (min_list (p0 :: l)) as [p|] eqn:Em; [|apply min_list_none in Em; discriminate].
      simpl negb. simpl orb. destruct (assoc_sym (T a) edges) as [tgt|] eqn:Ee.
      * split; [|reflexivity]. intros _.
        destruct (fst (decide tp pp a p tgt)) eqn:Ed; try (left; discriminate).
        right. split; [reflexivity|]. exists tgt, p. split; [reflexivity|]. split; [reflexivity | exact Ed].
      * split; [intros _; left; discriminate | reflexivity].
Qed.

Lemma state_actions_mirror_characterised : state_actions_mirror_characterised_stmt.
Proof.
  intros g tp pp s items edges io eo rr0 sr0 fin0 st Hwf Hcons Hpi Hpe Hfin Hrun a.
  pose proof (state_mirror_meets_spec g tp pp s items edges io eo rr0 sr0 fin0 Hwf Hcons Hpi Hpe Hfin) as H.
  rewrite Hrun in H. destruct H as (_ & Hcells & _ & _ & _ & _ & Hsa).
  rewrite (Hsa a), (Hcells a). apply has_candidate_char.
Qed.

Example wf_state_na : wf_state g_na items_na edges_na.
Proof. apply wf_state_b_sound. vm_compute. reflexivity. Qed.

Example prec_consistent_na : prec_consistent tp_na pp_na.
Proof.
  intros a p t q Ht Hq _. unfold tp_na, pp_na in *.
  destruct (a =? 0)%N; [|discriminate]. destruct (p =? 0)%N; [|discriminate].
  inversion Ht. inversion Hq. reflexivity.
Qed.

(* %nonassoc '<'  E: E '<' E | 'n';  state after E '<' E: '<' is listed, its cell is Error *)
Lemma state_actions_mirror_refuted : state_actions_mirror_refuted_stmt.
Proof.
  intros H.
  pose (st := match state_mirror g_na tp_na pp_na 4%N items_na edges_na (init_tstate [] [] None) with
              | Done (Some st) => st
              | _ => init_tstate [] [] None
              end).
  assert (E : state_mirror g_na tp_na pp_na 4%N items_na edges_na (init_tstate [] [] None) = Done (Some st))
    by (vm_compute; reflexivity).
  specialize (H g_na tp_na pp_na 4%N items_na edges_na st wf_state_na prec_consistent_na E 0%N).
  destruct H as [H _].
  assert (Hin : In 0%N (t_sa st)) by (vm_compute; left; reflexivity).
  apply H in Hin. apply Hin. vm_compute. reflexivity.
Qed.

(* ---- the check's hypothesis is satisfiable: S: 'a';  (tokens a=0 $=1; rules ^=0 S=1) -------- *)
Definition g_a : grammar := mkGrammar 2 2 [(1%N, [T 0]); (0%N, [R 1])] 1 1.
Definition A_a : automaton :=
  of_dump (mkDump 3 0
    [(0%N, [(0%N, 0%nat, [1%N]); (1%N, 0%nat, [1%N])]); (1%N, [(0%N, 1%nat, [1%N])]); (2%N, [(1%N, 1%nat, [1%N])])]
    [(0%N, [(1%N, 0%nat, [1%N])]); (1%N, [(0%N, 1%nat, [1%N])]); (2%N, [(1%N, 1%nat, [1%N])])]
    [(0%N, [(T 0, 1%N); (R 1, 2%N)]); (1%N, []); (2%N, [])]
    [(0%N, [(0%N, Shift 1)]); (1%N, [(1%N, Reduce 0)]); (2%N, [(1%N, Accept)])]
    [(0%N, [(1%N, 2%N)]); (1%N, []); (2%N, [])]).
Definition V_a : views :=
  views_of_dump [(0%N, [0%N]); (1%N, [1%N]); (2%N, [1%N])] [(0%N, [0%N]); (1%N, []); (2%N, [])]
                [(0%N, []); (1%N, [0%N]); (2%N, [])] [(0%N, false); (1%N, true); (2%N, false)].
Example coherent_b_a : coherent_b g_a A_a V_a = true.
Proof. vm_compute. reflexivity. Qed.
Example coherent_a : coherent g_a A_a V_a.
Proof. apply coherent_b_sound; vm_compute; reflexivity. Qed.
