(* C16 — exactness of the boolean coherence checker: statements.

   [coherent_b_sound] (Spec.v) says an accepted dump satisfies the property.  The
   statements below are the converse for the two graph clauses (reachability,
   LR(1) closure) and the resulting equivalence for the whole checker: under the
   well-formedness conditions named here, [coherent_b] is accepted EXACTLY on the
   dumps that satisfy the property, so a rejection is never a false alarm.

   The conditions, and why each is needed:
   - [vS1 g A = true] (LR/Validator.v, a conjunct of [validS]): edges of listed
     states on the grammar's symbols lead to listed states — the saturation
     argument counts the listed states;
   - [vS5 g A = true] (conjunct of [validS]): used only for "the start state is
     a listed state";
   - [edges_in_syms g A]: a listed state has edges only on symbols of the
     grammar.  [reachable] follows ANY edge of the automaton (a function
     N -> sym -> option N), the checker enumerates [all_syms g]; an edge on a
     symbol outside the grammar would make a state reachable that the checker
     cannot see.  For automata built from a dump it is decided by
     [dump_edges_in_syms_b];
   - [core_la_in_toks g A]: the lookaheads of core items are tokens of the
     grammar.  The fuel of [lr1_closure] counts the triples (q, 0, y) with y a
     token or absent; a lookahead outside the grammar would be propagated as a
     further value of y that the count does not cover.  Decided by
     [core_la_in_toks_b];
   - [wf_grammar g = true]: FIRST is exact and within the tokens, [first_ref]
     is defined.
   Definitions and statements only. *)
From Coq Require Import List Arith NArith Bool Lia.
From GV Require Import Common.Outcome Base.Grammar Base.Analyses LR.Automaton LR.Validator
  C03.Model C16.Model C16.Spec.
Import ListNotations.

Definition edges_in_syms (g : grammar) (A : automaton) : Prop :=
  forall s X t, In s (states A) -> edge A s X = Some t -> In X (all_syms g).

Definition core_la_in_toks (g : grammar) (A : automaton) : Prop :=
  forall s p d la a, In s (states A) -> In (p, d, la) (core A s) -> In a la -> In a (tidxs g).

(* deciders: on the dump for the edges (the automaton is a function), on the
   automaton for the core lookaheads *)
Definition dump_edges_in_syms_b (g : grammar) (d : dump) : bool :=
  forallb (fun se => forallb (fun xe => sym_in_range g (fst xe)) (snd se)) (d_edges d).

Definition core_la_in_toks_b (g : grammar) (A : automaton) : bool :=
  forallb (fun s => forallb (fun i => forallb (fun a => (a <? ntoks g)%N) (it_la i)) (core A s)) (states A).

Definition dump_edges_in_syms_b_sound_stmt : Prop :=
  forall g d, dump_edges_in_syms_b g d = true -> edges_in_syms g (of_dump d).

Definition core_la_in_toks_b_reflects_stmt : Prop :=
  forall g A, core_la_in_toks_b g A = true <-> core_la_in_toks g A.

(* ---- reachability --------------------------------------------------------------------- *)

(* the iteration saturates: the computed set contains every reachable state *)
Definition reach_states_complete_stmt : Prop :=
  forall g A, vS1 g A = true -> vS5 g A = true -> edges_in_syms g A ->
    forall s, reachable A s -> In s (reach_states g A).

Definition all_reachable_b_complete_stmt : Prop :=
  forall g A, vS1 g A = true -> vS5 g A = true -> edges_in_syms g A ->
    (forall s, In s (states A) -> reachable A s) -> all_reachable_b g A = true.

Definition all_reachable_b_reflects_stmt : Prop :=
  forall g A, vS1 g A = true -> vS5 g A = true -> edges_in_syms g A ->
    (all_reachable_b g A = true <-> forall s, In s (states A) -> reachable A s).

(* ---- LR(1) closure -------------------------------------------------------------------- *)

(* the fuel of [lr1_closure] is enough: the reference closure is the declarative one *)
Definition lr1_closure_exact_stmt : Prop :=
  forall g nl fs K, wf_grammar g = true -> first_ref g = Some (nl, fs) ->
    (forall p d la a, In (p, d, la) K -> In a la -> In a (tidxs g)) ->
    forall p d x, In (p, d, x) (lr1_closure g nl fs K) <-> in_closure g K p d x.

Definition closure_b_complete_stmt : Prop :=
  forall g nl fs A s, wf_grammar g = true -> first_ref g = Some (nl, fs) ->
    (forall p d la a, In (p, d, la) (core A s) -> In a la -> In a (tidxs g)) ->
    closure_ok g A s -> closure_b g nl fs A s = true.

Definition closure_b_reflects_stmt : Prop :=
  forall g nl fs A s, wf_grammar g = true -> first_ref g = Some (nl, fs) ->
    (forall p d la a, In (p, d, la) (core A s) -> In a la -> In a (tidxs g)) ->
    (closure_b g nl fs A s = true <-> closure_ok g A s).

(* ---- the whole checker ---------------------------------------------------------------- *)

Definition coherent_b_complete_stmt : Prop :=
  forall g A V, wf_grammar g = true -> vS1 g A = true -> vS5 g A = true ->
    edges_in_syms g A -> core_la_in_toks g A ->
    coherent g A V -> coherent_b g A V = true.

Definition coherent_b_exact_stmt : Prop :=
  forall g A V, wf_grammar g = true -> vS1 g A = true -> vS5 g A = true ->
    edges_in_syms g A -> core_la_in_toks g A ->
    (coherent_b g A V = true <-> coherent g A V).

(* the form for dumps: every hypothesis is a boolean the check can evaluate *)
Definition coherent_b_exact_dump_stmt : Prop :=
  forall g d V, wf_grammar g = true -> validS g (of_dump d) = true ->
    dump_edges_in_syms_b g d = true -> core_la_in_toks_b g (of_dump d) = true ->
    (coherent_b g (of_dump d) V = true <-> coherent g (of_dump d) V).
