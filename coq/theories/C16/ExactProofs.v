(* C16 — exactness of the boolean coherence checker: proofs of ExactSpec.v. *)
From Coq Require Import List Arith NArith Bool Lia Permutation.
From GV Require Import Common.Outcome Base.Grammar Base.Analyses Base.GrammarFacts Base.AnalysesProofs
  LR.Automaton LR.Validator C03.Model C03.Spec C03.Lists C03.Small C03.Proofs C03.Examples
  C16.Model C16.Spec C16.RowProofs C16.GraphProofs C16.Proofs C16.ExactSpec.
Import ListNotations.
Local Open Scope nat_scope.

(* ---- counting ------------------------------------------------------------------------- *)

Lemma count_le {X} (f f' : X -> bool) U : (forall u, f' u = true -> f u = true) ->
  length (filter f' U) <= length (filter f U).
Proof.
  intros H. induction U as [|u U IH]; simpl; [lia|].
  destruct (f' u) eqn:E'.
  - rewrite (H u E'). simpl. lia.
  - destruct (f u); simpl; lia.
Qed.

Lemma count_lt {X} (f f' : X -> bool) U x : (forall u, f' u = true -> f u = true) ->
  In x U -> f x = true -> f' x = false ->
  length (filter f' U) < length (filter f U).
Proof.
  intros H. induction U as [|u U IH]; intros Hin Hf Hf'; [destruct Hin|].
  destruct Hin as [->|Hin].
  - simpl. rewrite Hf, Hf'. simpl. pose proof (count_le f f' U H). lia.
  - simpl. specialize (IH Hin Hf Hf'). destruct (f' u) eqn:E'.
    + rewrite (H u E'). simpl. lia.
    + destruct (f u); simpl; lia.
Qed.

Lemma filter_length_le' {X} (f : X -> bool) U : length (filter f U) <= length U.
Proof. induction U as [|u U IH]; simpl; [lia|]. destruct (f u); simpl; lia. Qed.

Lemma count_zero {X} (f : X -> bool) U : length (filter f U) = 0 -> forall u, In u U -> f u = false.
Proof.
  intros H u Hu. destruct (f u) eqn:E; [|reflexivity].
  assert (Hin : In u (filter f U)) by (apply filter_In; split; assumption).
  destruct (filter f U); [destruct Hin | simpl in H; lia].
Qed.

Lemma forallb_false_ex {X} (f : X -> bool) l : forallb f l = false -> exists x, In x l /\ f x = false.
Proof.
  induction l as [|y l IH]; simpl; [discriminate|]. destruct (f y) eqn:E; simpl.
  - intros H. destruct (IH H) as (x & Hx & Hf). exists x. split; [right; exact Hx | exact Hf].
  - intros _. exists y. split; [left; reflexivity | exact E].
Qed.

Lemma length_flat_map_const {X Y} (f : X -> list Y) c l : (forall x, length (f x) = c) ->
  length (flat_map f l) = length l * c.
Proof. intros H. induction l as [|x l IH]; simpl; [reflexivity|]. rewrite app_length, H, IH. lia. Qed.

(* ---- the hypotheses' deciders ---------------------------------------------------------- *)

Lemma In_states A s : In s (states A) <-> (s < nstates A)%N.
Proof.
  unfold states. rewrite in_map_iff. split.
  - intros (n & <- & Hn). apply in_seq in Hn. lia.
  - intros H. exists (N.to_nat s). split; [apply N2Nat.id | apply in_seq; lia].
Qed.

Lemma In_all_syms g X : In X (all_syms g) <-> sym_in_range g X = true.
Proof.
  unfold all_syms. rewrite in_app_iff, !in_map_iff. destruct X as [t|r]; simpl; rewrite N.ltb_lt; split.
  - intros [(a & E & Ha)|(a & E & _)]; [|discriminate]. inversion E; subst. apply In_tidxs. exact Ha.
  - intros H. left. exists t. split; [reflexivity | apply In_tidxs; exact H].
  - intros [(a & E & _)|(a & E & Ha)]; [discriminate|]. inversion E; subst. apply In_ridxs. exact Ha.
  - intros H. right. exists r. split; [reflexivity | apply In_ridxs; exact H].
Qed.

Lemma assoc_sym_Some_In {Y} (X : sym) (l : list (sym * Y)) v : assoc_sym X l = Some v -> In (X, v) l.
Proof.
  induction l as [|[k w] l IH]; simpl; [discriminate|]. destruct (sym_eqb X k) eqn:E.
  - intros H. inversion H; subst. apply sym_eqb_eq in E. subst. left. reflexivity.
  - intros H. right. apply IH. exact H.
Qed.

Lemma dump_edges_in_syms_b_sound : dump_edges_in_syms_b_sound_stmt.
Proof.
  intros g d H s X t _ He. unfold dump_edges_in_syms_b in H. rewrite forallb_forall in H.
  simpl in He. destruct (assocN s (d_edges d)) as [l|] eqn:El; [|discriminate].
  apply C03.Small.assocN_In in El. specialize (H _ El). simpl in H. rewrite forallb_forall in H.
  apply assoc_sym_Some_In in He. specialize (H _ He). simpl in H. apply In_all_syms. exact H.
Qed.

Lemma core_la_in_toks_b_reflects : core_la_in_toks_b_reflects_stmt.
Proof.
  intros g A. unfold core_la_in_toks_b, core_la_in_toks. rewrite forallb_forall. split.
  - intros H s p d la a Hs Hi Ha. specialize (H s Hs). rewrite forallb_forall in H. specialize (H _ Hi).
    rewrite forallb_forall in H. specialize (H a Ha). apply In_tidxs. apply N.ltb_lt. exact H.
  - intros H s Hs. apply forallb_forall. intros [[p d] la] Hi. apply forallb_forall. intros a Ha.
    apply N.ltb_lt. apply In_tidxs. exact (H s p d la a Hs Hi Ha).
Qed.

(* ---- reachability: the iteration saturates --------------------------------------------- *)

Section Reach.
Variables (g : grammar) (A : automaton).
Hypothesis HS1 : vS1 g A = true.
Hypothesis Hstart : In (start A) (states A).
Hypothesis Hsyms : edges_in_syms g A.

Let step := reach_states_step g A.
Definition closedS (S : list N) : Prop := forall s t, In s S -> In t (succs g A s) -> In t S.
Definition miss (S : list N) : nat := length (filter (fun u => negb (memN u S)) (states A)).

Lemma In_succs s t : In t (succs g A s) <-> exists X, In X (all_syms g) /\ edge A s X = Some t.
Proof.
  unfold succs. rewrite in_flat_map. split.
  - intros (X & HX & H). exists X. split; [exact HX|]. destruct (edge A s X) as [t'|]; [|destruct H].
    destruct H as [->|[]]. reflexivity.
  - intros (X & HX & H). exists X. split; [exact HX|]. rewrite H. left. reflexivity.
Qed.

Lemma succs_in_states s t : In s (states A) -> In t (succs g A s) -> In t (states A).
Proof.
  intros Hs Ht. apply In_succs in Ht. destruct Ht as (X & HX & He).
  unfold vS1 in HS1. rewrite forallb_forall in HS1. specialize (HS1 s Hs). rewrite forallb_forall in HS1.
  specialize (HS1 X HX). rewrite He in HS1. apply andb_true_iff in HS1. destruct HS1 as [_ H].
  apply In_states. apply N.ltb_lt. exact H.
Qed.

Lemma In_step S x : In x (step S) <-> (exists s, In s S /\ In x (succs g A s)) \/ In x S.
Proof. unfold step, reach_states_step. rewrite In_unionN, in_flat_map. tauto. Qed.

Lemma step_in_states S : incl S (states A) -> incl (step S) (states A).
Proof.
  intros H x Hx. apply In_step in Hx. destruct Hx as [(s & Hs & Hx)|Hx]; [|apply H; exact Hx].
  apply (succs_in_states s); [apply H; exact Hs | exact Hx].
Qed.

Lemma closed_step S : closedS S -> closedS (step S) /\ incl (step S) S.
Proof.
  intros Hc. assert (Hi : incl (step S) S).
  { intros x Hx. apply In_step in Hx. destruct Hx as [(s & Hs & Hx)|Hx]; [exact (Hc s x Hs Hx) | exact Hx]. }
  split; [|exact Hi]. intros s t Hs Ht. apply In_step. right. apply (Hc s t); [apply Hi; exact Hs | exact Ht].
Qed.

Lemma closed_iter S : closedS S -> forall k, closedS (iter k step S) /\ incl S (iter k step S).
Proof.
  intros Hc k. apply (iter_invariant (fun T => closedS T /\ incl S T)).
  - intros T [HT Hi]. split; [apply closed_step; exact HT|].
    intros x Hx. apply In_step. right. apply Hi. exact Hx.
  - split; [exact Hc | apply incl_refl].
Qed.

Lemma reach_saturates : forall k S, incl S (states A) -> miss S <= k ->
  closedS (iter k step S) /\ incl S (iter k step S).
Proof.
  induction k as [|k IH]; intros S Hinc Hm.
  - simpl. split; [|apply incl_refl]. assert (Hz : miss S = 0) by lia.
    intros s t Hs Ht. pose proof (succs_in_states s t (Hinc s Hs) Ht) as Hts.
    pose proof (count_zero _ _ Hz t Hts) as Hf. simpl in Hf. apply negb_false_iff in Hf.
    apply memN_In. exact Hf.
  - simpl. destruct (forallb (fun t => memN t S) (flat_map (succs g A) S)) eqn:E.
    + assert (Hc : closedS S).
      { intros s t Hs Ht. rewrite forallb_forall in E. apply memN_In. apply E. apply in_flat_map.
        exists s. split; assumption. }
      destruct (closed_step S Hc) as [Hc' _].
      destruct (closed_iter (step S) Hc' k) as [H1 H2]. split; [exact H1|].
      intros x Hx. apply H2. apply In_step. right. exact Hx.
    + apply forallb_false_ex in E. destruct E as (t & Ht & Hnt). apply in_flat_map in Ht.
      destruct Ht as (s & Hs & Ht).
      assert (Hts : In t (states A)) by (apply (succs_in_states s); [apply Hinc; exact Hs | exact Ht]).
      assert (Hlt : miss (step S) < miss S).
      { unfold miss. apply (count_lt _ _ _ t).
        - intros u Hu. apply negb_true_iff in Hu. apply negb_true_iff.
          destruct (memN u S) eqn:M; [|reflexivity]. apply memN_In in M.
          assert (In u (step S)) by (apply In_step; right; exact M). apply memN_In in H. congruence.
        - exact Hts.
        - simpl. rewrite Hnt. reflexivity.
        - simpl. apply negb_false_iff. apply memN_In. apply In_step. left. exists s. split; assumption. }
      destruct (IH (step S) (step_in_states S Hinc)) as [H1 H2]; [lia|]. split; [exact H1|].
      intros x Hx. apply H2. apply In_step. right. exact Hx.
Qed.

Lemma reach_states_complete' s : reachable A s -> In s (reach_states g A).
Proof.
  assert (Hinc0 : incl [start A] (states A)) by (intros x [<-|[]]; exact Hstart).
  assert (Hm : miss [start A] <= N.to_nat (nstates A)).
  { unfold miss. etransitivity; [apply filter_length_le'|]. unfold states. rewrite map_length, seq_length. lia. }
  destruct (reach_saturates (N.to_nat (nstates A)) [start A] Hinc0 Hm) as [Hc Hi].
  assert (Hin : incl (reach_states g A) (states A)).
  { unfold reach_states. apply (iter_invariant (fun T => incl T (states A))); [apply step_in_states | exact Hinc0]. }
  intros H. induction H as [|s X t H IH He].
  - apply Hi. left. reflexivity.
  - apply (Hc s t IH). apply In_succs. exists X. split; [|exact He].
    exact (Hsyms s X t (Hin s IH) He).
Qed.

End Reach.

Lemma vS5_start g A : vS5 g A = true -> In (start A) (states A).
Proof.
  unfold vS5. intros H. apply andb_true_iff in H. destruct H as [H _]. apply In_states. apply N.ltb_lt. exact H.
Qed.

Lemma reach_states_complete : reach_states_complete_stmt.
Proof. intros g A H1 H5 Hs. apply (reach_states_complete' g A H1 (vS5_start g A H5) Hs). Qed.

Lemma all_reachable_b_complete : all_reachable_b_complete_stmt.
Proof.
  intros g A H1 H5 Hs H. unfold all_reachable_b. apply forallb_forall. intros s Hin. apply memN_In.
  apply (reach_states_complete g A H1 H5 Hs). apply H. exact Hin.
Qed.

Lemma all_reachable_b_reflects : all_reachable_b_reflects_stmt.
Proof.
  intros g A H1 H5 Hs. split; [apply all_reachable_b_sound | apply all_reachable_b_complete; assumption].
Qed.

(* ---- LR(1) closure: the fuel is enough -------------------------------------------------- *)

Lemma union_tr_incl_id a : forall b, incl a b -> union_tr a b = b.
Proof.
  unfold union_tr. induction a as [|y a IH]; intros b H; simpl; [reflexivity|].
  assert (E : add_tr y b = b).
  { unfold add_tr. destruct (mem_tr y b) eqn:M; [reflexivity|]. exfalso.
    assert (Hy : In y b) by (apply H; left; reflexivity). apply mem_tr_In in Hy. congruence. }
  rewrite E. apply IH. intros z Hz. apply H. right. exact Hz.
Qed.

Lemma length_union_tr a : forall b,
  length b <= length (union_tr a b) /\ (length (union_tr a b) = length b -> incl a b).
Proof.
  unfold union_tr. induction a as [|y a IHa]; intros b; simpl.
  - split; [lia | intros _ z []].
  - destruct (mem_tr y b) eqn:M.
    + assert (E : add_tr y b = b) by (unfold add_tr; rewrite M; reflexivity). rewrite E.
      destruct (IHa b) as [H1 H2]. split; [exact H1|].
      intros E' z [<-|Hz]; [apply mem_tr_In; exact M | exact (H2 E' z Hz)].
    + assert (E : add_tr y b = b ++ [y]) by (unfold add_tr; rewrite M; reflexivity). rewrite E.
      destruct (IHa (b ++ [y])) as [H1 _]. rewrite app_length in H1. simpl in H1. split; [lia|]. intros E'. lia.
Qed.

Lemma rhs_nth_is_prod g p d X : nth_error (rhs g p) d = Some X -> is_prod g p.
Proof.
  unfold rhs, prod, is_prod. destruct (nth_error (prods g) (N.to_nat p)) as [[l r]|] eqn:E.
  - intros _. apply nth_error_Some. rewrite E. discriminate.
  - destruct d; discriminate.
Qed.

Section Clo.
Variables (g : grammar) (nl : list N) (fs : list pairN).
Hypothesis Hwf : wf_grammar g = true.
Hypothesis Hfr : first_ref g = Some (nl, fs).

(* the triples a closure step can add *)
Definition clo_universe : list triple :=
  flat_map (fun q => map (fun y => (q, 0%nat, y)) (None :: map Some (tidxs g))) (pidxs g).
Definition la_ok (t : triple) : Prop := match snd t with None => True | Some a => In a (tidxs g) end.
Definition missT (S : list triple) : nat := length (filter (fun u => negb (mem_tr u S)) clo_universe).

Lemma length_clo_universe : length clo_universe = length (prods g) * S (N.to_nat (ntoks g)).
Proof.
  unfold clo_universe. rewrite (length_flat_map_const _ (S (N.to_nat (ntoks g)))).
  - unfold pidxs. rewrite map_length, seq_length. reflexivity.
  - intros q. rewrite map_length. simpl. rewrite map_length, length_tidxs. reflexivity.
Qed.

Lemma In_clo_universe q y : is_prod g q -> la_ok (q, 0%nat, y) -> In (q, 0%nat, y) clo_universe.
Proof.
  intros Hq Hy. unfold clo_universe. apply in_flat_map. exists q. split; [apply In_pidxs; exact Hq|].
  apply in_map_iff. exists y. split; [reflexivity|]. destruct y as [a|]; [right | left; reflexivity].
  apply in_map_iff. exists a. split; [reflexivity | exact Hy].
Qed.

Lemma clo_of_new t t' : la_ok t -> In t' (clo_of g nl fs t) -> In t' clo_universe /\ la_ok t'.
Proof.
  destruct t as [[p d] x], t' as [[q d'] y]. intros Hx Hin. apply In_clo_of in Hin.
  destruct Hin as (-> & r & Hnth & Hq & _ & Hy).
  assert (Hok : la_ok (q, 0%nat, y)).
  { destruct Hy as [->|[(b & -> & Hb)|[_ ->]]]; [exact I | | exact Hx].
    unfold la_ok. simpl. apply In_tidxs. apply (first_seq_range g nl fs (skipn (S d) (rhs g p)) b).
    - intros r' t' Hrt. destruct (first_ref_range g nl fs Hwf Hfr) as [_ Hi]. apply Hi in Hrt.
      apply In_rt_universe in Hrt. exact (proj2 Hrt).
    - intros X HX. apply (wf_rhs_range g p X Hwf (rhs_nth_is_prod g p d _ Hnth)).
      rewrite <- (firstn_skipn (S d) (rhs g p)). apply in_or_app. right. exact HX.
    - exact Hb. }
  split; [apply In_clo_universe; assumption | exact Hok].
Qed.

Lemma clo_fix_closed : forall fuel S, (forall t, In t S -> la_ok t) -> missT S < fuel ->
  incl S (clo_fix g nl fs fuel S) /\
  incl (clo_new g nl fs (clo_fix g nl fs fuel S)) (clo_fix g nl fs fuel S).
Proof.
  induction fuel as [|f IH]; intros S Hinv Hm; [lia|].
  assert (HS' : incl S (clo_step g nl fs S)).
  { intros x Hx. unfold clo_step. apply In_union_tr. right. exact Hx. }
  cbn [clo_fix]. cbv zeta. destruct (subset_tr (clo_new g nl fs S) S) eqn:Sub.
  - apply subset_tr_incl in Sub.
    assert (E : clo_step g nl fs S = S) by (unfold clo_step; apply union_tr_incl_id; exact Sub).
    rewrite E, Nat.eqb_refl. split; [apply incl_refl | exact Sub].
  - apply forallb_false_ex in Sub. destruct Sub as (x & Hx & Hnx).
    assert (Hxn : In x (clo_new g nl fs S)) by exact Hx.
    unfold clo_new in Hx. apply in_flat_map in Hx. destruct Hx as (t & Ht & Hx).
    destruct (clo_of_new t x (Hinv t Ht) Hx) as [HxU _].
    assert (Hinv' : forall t, In t (clo_step g nl fs S) -> la_ok t).
    { intros u Hu. unfold clo_step in Hu. apply In_union_tr in Hu. destruct Hu as [Hu|Hu]; [|apply Hinv; exact Hu].
      unfold clo_new in Hu. apply in_flat_map in Hu. destruct Hu as (t0 & Ht0 & Hu).
      exact (proj2 (clo_of_new t0 u (Hinv t0 Ht0) Hu)). }
    assert (Hlt : missT (clo_step g nl fs S) < missT S).
    { unfold missT. apply (count_lt _ _ _ x).
      - intros u Hu. apply negb_true_iff in Hu. apply negb_true_iff.
        destruct (mem_tr u S) eqn:M; [|reflexivity]. apply mem_tr_In in M. apply HS' in M.
        apply mem_tr_In in M. congruence.
      - exact HxU.
      - simpl. rewrite Hnx. reflexivity.
      - simpl. apply negb_false_iff. apply mem_tr_In. unfold clo_step. apply In_union_tr. left. exact Hxn. }
    destruct (Nat.eqb (length (clo_step g nl fs S)) (length S)) eqn:El.
    + (* cannot happen: a new element was appended; but the conclusion holds anyway *)
      exfalso. apply Nat.eqb_eq in El.
      destruct (length_union_tr (clo_new g nl fs S) S) as [_ H2]. unfold clo_step in El. specialize (H2 El x Hxn).
      apply mem_tr_In in H2. congruence.
    + destruct (IH (clo_step g nl fs S) Hinv') as [H1 H2]; [lia|]. split; [|exact H2].
      intros z Hz. apply H1. apply HS'. exact Hz.
Qed.

Variable K : list item.
Hypothesis HK : forall p d la a, In (p, d, la) K -> In a la -> In a (tidxs g).

Lemma lr1_closure_complete p d x : in_closure g K p d x -> In (p, d, x) (lr1_closure g nl fs K).
Proof.
  destruct (first_ref_exact' g nl fs Hfr) as [Hn Hf].
  assert (Hinv : forall t, In t (triples_of K) -> la_ok t).
  { intros [[p0 d0] x0] Ht. apply In_triples_of in Ht. destruct Ht as (la & Hi & Hx).
    unfold la_ok. simpl. destruct x0 as [a|]; [|exact I]. exact (HK p0 d0 la a Hi Hx). }
  assert (Hm : missT (triples_of K) < S (length (prods g) * S (S (N.to_nat (ntoks g))))).
  { unfold missT. pose proof (filter_length_le' (fun u => negb (mem_tr u (triples_of K))) clo_universe) as H.
    rewrite length_clo_universe in H. nia. }
  destruct (clo_fix_closed _ (triples_of K) Hinv Hm) as [H1 H2].
  apply (closed_contains_closure g nl fs K _ Hn Hf H1 H2).
Qed.

End Clo.

Lemma lr1_closure_exact : lr1_closure_exact_stmt.
Proof.
  intros g nl fs K Hwf Hfr HK p d x. destruct (first_ref_exact' g nl fs Hfr) as [Hn Hf]. split.
  - apply (lr1_closure_sound g nl fs K Hn Hf).
  - apply (lr1_closure_complete g nl fs Hwf Hfr K HK).
Qed.

Lemma closure_b_complete : closure_b_complete_stmt.
Proof.
  intros g nl fs A s Hwf Hfr HK Hok. destruct (first_ref_exact' g nl fs Hfr) as [Hn Hf].
  assert (HC : forall p d x, In (p, d, x) (triples_of (closed A s)) -> in_closure g (core A s) p d x).
  { intros p d x H. apply Hok. apply In_triples_of. exact H. }
  unfold closure_b. rewrite !andb_true_iff. split; [split|]; apply subset_tr_incl.
  - intros [[p d] x] H. apply In_triples_of. apply Hok. apply In_triples_of in H. destruct H as (la & Hi & Hx).
    destruct x as [a|]; [eapply ic_la | eapply ic_item]; eassumption.
  - intros [[p d] x] H. apply In_triples_of. apply Hok.
    apply (clo_step_sound g nl fs (core A s) (triples_of (closed A s)) Hn Hf HC).
    unfold clo_step. apply In_union_tr. left. exact H.
  - intros [[p d] x] H. apply (lr1_closure_complete g nl fs Hwf Hfr (core A s) HK). apply HC. exact H.
Qed.

Lemma closure_b_reflects : closure_b_reflects_stmt.
Proof.
  intros g nl fs A s Hwf Hfr HK. split; [apply closure_b_sound; exact Hfr | apply closure_b_complete; assumption].
Qed.

(* ---- the whole checker ------------------------------------------------------------------- *)

Lemma coherent_b_complete : coherent_b_complete_stmt.
Proof.
  intros g A V Hwf H1 H5 Hs Hla (Hrow & Hreach & Hclo). unfold coherent_b. rewrite !andb_true_iff. split; [split|].
  - apply forallb_forall. intros s Hin. destruct (Hrow s Hin) as (R1 & R2 & R3 & R4 & R5).
    unfold row_b. rewrite !andb_true_iff. repeat split.
    + apply actions_reflect. exact R1.
    + apply shifts_reflect. exact R2.
    + apply (proj2 (targets_reflect g A s)). exact R3.
    + apply core_reduces_reflect. exact R4.
    + apply reduce_only_reflect. exact R5.
  - apply all_reachable_b_complete; assumption.
  - destruct (first_ref g) as [[nl fs]|] eqn:Efr; [|exfalso; exact (first_ref_total g Hwf Efr)].
    apply forallb_forall. intros s Hin. apply (closure_b_complete g nl fs A s Hwf Efr).
    + intros p d la a. apply Hla. exact Hin.
    + apply Hclo. exact Hin.
Qed.

Lemma coherent_b_exact : coherent_b_exact_stmt.
Proof.
  intros g A V Hwf H1 H5 Hs Hla. split; [apply coherent_b_sound; exact Hwf | apply coherent_b_complete; assumption].
Qed.

Lemma coherent_b_exact_dump : coherent_b_exact_dump_stmt.
Proof.
  intros g d V Hwf HvS He Hla. unfold validS in HvS. rewrite !andb_true_iff in HvS.
  destruct HvS as [[[[[_ H1] _] _] _] H5].
  apply coherent_b_exact; try assumption.
  - apply dump_edges_in_syms_b_sound. exact He.
  - apply core_la_in_toks_b_reflects. exact Hla.
Qed.

(* ---- the hypotheses are satisfiable: the automaton of S: 'a' (Proofs.v) ------------------ *)

Example exact_hyps_a :
  wf_grammar g_a = true /\ validS g_a A_a = true /\ vS1 g_a A_a = true /\ vS5 g_a A_a = true /\
  edges_in_syms g_a A_a /\ core_la_in_toks g_a A_a.
Proof.
  split; [vm_compute; reflexivity|]. split; [vm_compute; reflexivity|].
  split; [vm_compute; reflexivity|]. split; [vm_compute; reflexivity|]. split.
  - apply (dump_edges_in_syms_b_sound g_a). vm_compute. reflexivity.
  - apply core_la_in_toks_b_reflects. vm_compute. reflexivity.
Qed.

(* both directions used on it: accepted, hence coherent; coherent, hence accepted *)
Example coherent_b_exact_a : coherent_b g_a A_a V_a = true <-> coherent g_a A_a V_a.
Proof.
  destruct exact_hyps_a as (Hwf & _ & H1 & H5 & He & Hla). exact (coherent_b_exact g_a A_a V_a Hwf H1 H5 He Hla).
Qed.

Example coherent_b_complete_a : coherent_b g_a A_a V_a = true.
Proof. apply coherent_b_exact_a. exact coherent_a. Qed.

(* a dump the checker rejects and, by exactness, that is NOT coherent: state 2 of A_a made
   unreachable by dropping the edge 0 -R 1-> 2 (the goto cell goes with it) *)
Definition A_cut : automaton :=
  of_dump (mkDump 3 0
    [(0%N, [(0%N, 0%nat, [1%N]); (1%N, 0%nat, [1%N])]); (1%N, [(0%N, 1%nat, [1%N])]); (2%N, [(1%N, 1%nat, [1%N])])]
    [(0%N, [(1%N, 0%nat, [1%N])]); (1%N, [(0%N, 1%nat, [1%N])]); (2%N, [(1%N, 1%nat, [1%N])])]
    [(0%N, [(T 0, 1%N)]); (1%N, []); (2%N, [])]
    [(0%N, [(0%N, Shift 1)]); (1%N, [(1%N, Reduce 0)]); (2%N, [(1%N, Accept)])]
    [(0%N, []); (1%N, []); (2%N, [])]).

Example rejected_means_incoherent : coherent_b g_a A_cut V_a = false /\ ~ coherent g_a A_cut V_a.
Proof.
  assert (Hb : coherent_b g_a A_cut V_a = false) by (vm_compute; reflexivity).
  split; [exact Hb|]. intros H.
  assert (Ht : coherent_b g_a A_cut V_a = true).
  { apply coherent_b_complete; try exact H; try (vm_compute; reflexivity).
    - apply (dump_edges_in_syms_b_sound g_a). vm_compute. reflexivity.
    - apply core_la_in_toks_b_reflects. vm_compute. reflexivity. }
  rewrite Hb in Ht. discriminate.
Qed.
