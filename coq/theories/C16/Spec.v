(* C16 — the property, clause by clause, and the statements. *)
From Coq Require Import List Arith NArith Bool Lia Permutation.
From GV Require Import Common.Outcome Base.Grammar Base.Analyses LR.Automaton LR.Validator
  C03.Model C03.Spec C16.Model.
Import ListNotations.

(* ---- one state (row) ------------------------------------------------------------------ *)

(* the tokens listed as having actions are exactly those whose action is not an error *)
Definition actions_ok (toks : list N) (cells : N -> act) (va : list N) : Prop :=
  forall a, In a va <-> In a toks /\ cells a <> Err.

(* the tokens listed as shifts are exactly those whose action is a shift *)
Definition shifts_ok (toks : list N) (cells : N -> act) (vsh : list N) : Prop :=
  forall a, In a vsh <-> In a toks /\ exists t, cells a = Shift t.

(* the core reductions contain one production for each distinct (rule, length)
   pair among the state's reductions and nothing else *)
Definition core_reduces_ok (g : grammar) (toks : list N) (cells : N -> act) (vcr : list N) : Prop :=
  NoDup vcr /\
  (forall p, In p vcr -> exists a, In a toks /\ cells a = Reduce p) /\
  (forall a p, In a toks -> cells a = Reduce p -> exists q, In q vcr /\ cls g q = cls g p) /\
  (forall q q', In q vcr -> In q' vcr -> cls g q = cls g q' -> q = q').

(* flagged reduce-only exactly when all its non-error actions reduce one and the
   same (rule, length) — at least one such action existing *)
Definition reduce_only_ok (g : grammar) (toks : list N) (cells : N -> act) (ro : bool) : Prop :=
  ro = true <->
  (exists a, In a toks /\ cells a <> Err) /\
  (exists c, forall a, In a toks -> cells a <> Err -> exists p, cells a = Reduce p /\ cls g p = c).

(* each shift and goto target equals the graph's edge on that symbol *)
Definition targets_ok (g : grammar) (A : automaton) (s : N) : Prop :=
  (forall a t, In a (tidxs g) -> action A s a = Shift t -> edge A s (T a) = Some t) /\
  (forall r t, In r (ridxs g) -> goto A s r = Some t -> edge A s (R r) = Some t).

(* ---- the graph ---------------------------------------------------------------------------- *)

Inductive reachable (A : automaton) : N -> Prop :=
| reach_start : reachable A (start A)
| reach_edge s X t : reachable A s -> edge A s X = Some t -> reachable A t.

(* the LR(1) closure of a core state, declaratively.  A state is a set of LR(0)
   items each with a lookahead SET (empty for items of rules deriving no token
   string); [in_closure p d None] = the item is in the closure,
   [in_closure p d (Some a)] = a is one of its lookaheads.  The least relation
   containing the core and with every [p -> alpha . B beta] (lookahead set L)
   also every [q -> . gamma], q a production of B, with lookaheads
   FIRST(beta) and, when beta derives the empty string, L.  Where every item
   has a lookahead this is the textbook closure of single-lookahead LR(1)
   items ([q -> . gamma, b] for b in FIRST(beta a)). *)
Inductive in_closure (g : grammar) (K : list item) : N -> nat -> option N -> Prop :=
| ic_item p d la : In (p, d, la) K -> in_closure g K p d None
| ic_la p d la a : In (p, d, la) K -> In a la -> in_closure g K p d (Some a)
| ic_sub p d x r q :
    in_closure g K p d x -> nth_error (rhs g p) d = Some (R r) -> is_prod g q -> lhs g q = r ->
    in_closure g K q 0%nat None
| ic_first p d x r q b :
    in_closure g K p d x -> nth_error (rhs g p) d = Some (R r) -> is_prod g q -> lhs g q = r ->
    (exists c, derives g (skipn (S d) (rhs g p)) (T b :: c)) ->
    in_closure g K q 0%nat (Some b)
| ic_null p d a r q :
    in_closure g K p d (Some a) -> nth_error (rhs g p) d = Some (R r) -> is_prod g q -> lhs g q = r ->
    derives g (skipn (S d) (rhs g p)) [] ->
    in_closure g K q 0%nat (Some a).

Definition has_triple (l : list item) (p : N) (d : nat) (x : option N) : Prop :=
  exists la, In (p, d, la) l /\ match x with Some a => In a la | None => True end.

Definition closure_ok (g : grammar) (A : automaton) (s : N) : Prop :=
  forall p d x, has_triple (closed A s) p d x <-> in_closure g (core A s) p d x.

(* ---- the property ----------------------------------------------------------------------------- *)

Definition coherent (g : grammar) (A : automaton) (V : views) : Prop :=
  (forall s, In s (states A) ->
     actions_ok (tidxs g) (action A s) (v_actions V s) /\
     shifts_ok (tidxs g) (action A s) (v_shifts V s) /\
     targets_ok g A s /\
     core_reduces_ok g (tidxs g) (action A s) (v_core_reduces V s) /\
     reduce_only_ok g (tidxs g) (action A s) (v_reduce_only V s)) /\
  (forall s, In s (states A) -> reachable A s) /\
  (forall s, In s (states A) -> closure_ok g A s).

(* ---- statements ---------------------------------------------------------------------------------- *)

(* the per-row boolean checks decide the clauses *)
Definition row_checks_reflect_stmt : Prop :=
  forall g toks cells,
    (forall va, actions_b toks cells va = true <-> actions_ok toks cells va) /\
    (forall vsh, shifts_b toks cells vsh = true <-> shifts_ok toks cells vsh) /\
    (forall vcr, core_reduces_b g toks cells vcr = true <-> core_reduces_ok g toks cells vcr) /\
    (forall ro, reduce_only_b g toks cells ro = true <-> reduce_only_ok g toks cells ro).

Definition targets_reflect_stmt : Prop :=
  forall g A s, targets_b g A s = true <-> targets_ok g A s.

(* a dump accepted by the boolean check satisfies the property *)
Definition coherent_b_sound_stmt : Prop :=
  forall g A V, wf_grammar g = true -> coherent_b g A V = true -> coherent g A V.

(* the views the code computes from the FINAL cells are coherent, whatever the cells *)
Definition views_from_final_cells_coherent_stmt : Prop :=
  forall g toks cells,
    let '(vsh, vcr, ro) := views_row g toks cells in
    shifts_ok toks cells vsh /\ core_reduces_ok g toks cells vcr /\ reduce_only_ok g toks cells ro.

(* a cell that a shift and a reduction competed for and that %nonassoc erased *)
Definition nonassoc_erased (g : grammar) (tp pp : precs) (items : list item) (edges : list (sym * N)) (a : N) : Prop :=
  acc_cand g items a = false /\
  exists tgt p, assoc_sym (T a) edges = Some tgt /\ winner g items a = Some p /\ fst (decide tp pp a p tgt) = Err.

(* state_actions as the code computes it (bits set while the cells are first
   written): the tokens with a non-error final cell PLUS the erased cells *)
Definition state_actions_mirror_characterised_stmt : Prop :=
  forall g tp pp s items edges io eo rr0 sr0 fin0 st,
    wf_state g items edges -> prec_consistent tp pp ->
    Permutation io items -> Permutation eo edges ->
    (fin0 = None \/ acc_cand g items (eof g) = false) ->
    state_mirror g tp pp s io eo (init_tstate rr0 sr0 fin0) = Done (Some st) ->
    forall a, In a (t_sa st) <-> (t_cells st a <> Err \/ nonassoc_erased g tp pp items edges a).

(* "the tokens listed as having actions are exactly those whose action is not
   an error" is therefore false of the mirror *)
Definition state_actions_mirror_coherent_stmt : Prop :=
  forall g tp pp s items edges st,
    wf_state g items edges -> prec_consistent tp pp ->
    state_mirror g tp pp s items edges (init_tstate [] [] None) = Done (Some st) ->
    forall a, In a (t_sa st) <-> t_cells st a <> Err.
Definition state_actions_mirror_refuted_stmt : Prop := ~ state_actions_mirror_coherent_stmt.
