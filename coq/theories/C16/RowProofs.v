(* C16 — per-row facts: the boolean checks decide the clauses; the views the
   code computes from the final cells satisfy them. *)
From Coq Require Import List Arith NArith Bool Lia Permutation.
From GV Require Import Common.Outcome Base.Grammar Base.Analyses Base.GrammarFacts Base.AnalysesProofs
  LR.Automaton LR.Validator C03.Model C03.Spec C03.Lists C03.Small C03.Proofs C16.Model C16.Spec.
Import ListNotations.

Lemma nonerr_iff c : nonerr c = true <-> c <> Err.
Proof. destruct c; simpl; split; intros H; try reflexivity; try discriminate; try congruence. Qed.

Lemma is_shift_iff c : is_shift c = true <-> exists t, c = Shift t.
Proof.
  destruct c; simpl; split; intros H; try discriminate; try (destruct H as (t & H); discriminate).
  - eexists. reflexivity.
  - reflexivity.
Qed.

Lemma act_eqb_eq x y : act_eqb x y = true <-> x = y.
Proof.
  destruct x, y; simpl; split; intros H; try discriminate; try reflexivity;
    try (apply N.eqb_eq in H; subst; reflexivity); try (inversion H; subst; apply N.eqb_refl).
Qed.

Lemma cls_eqb_eq x y : cls_eqb x y = true <-> x = y.
Proof.
  destruct x as [a b], y as [c d]. unfold cls_eqb. simpl. rewrite andb_true_iff, N.eqb_eq, Nat.eqb_eq. split.
  - intros [-> ->]. reflexivity.
  - intros H. inversion H. split; reflexivity.
Qed.

Lemma nodupb_complete {A} (eqb : A -> A -> bool) (l : list A) :
  (forall x y, eqb x y = true <-> x = y) -> NoDup l -> nodupb eqb l = true.
Proof.
  intros Heq. induction 1 as [|x l Hx Hnd IH]; [reflexivity|].
  simpl. rewrite IH, andb_true_r. apply negb_true_iff.
  destruct (existsb (eqb x) l) eqn:E; [|reflexivity].
  apply existsb_exists in E. destruct E as (y & Hy & Hxy). apply Heq in Hxy. subst y. contradiction.
Qed.

(* ---- reflection of the row checks ------------------------------------------------------ *)

Lemma actions_reflect toks cells va : actions_b toks cells va = true <-> actions_ok toks cells va.
Proof.
  unfold actions_b, actions_ok. rewrite andb_true_iff, !forallb_forall. split.
  - intros [H1 H2] a. split.
    + intros Ha. specialize (H1 a Ha). apply andb_true_iff in H1. destruct H1 as [Hm Hn].
      split; [apply memN_In; exact Hm | apply nonerr_iff; exact Hn].
    + intros [Ha Hn]. specialize (H2 a Ha). apply nonerr_iff in Hn. rewrite Hn in H2. simpl in H2.
      apply memN_In. exact H2.
  - intros H. split.
    + intros a Ha. apply H in Ha. destruct Ha as [Ha Hn]. apply andb_true_iff. split;
        [apply memN_In; exact Ha | apply nonerr_iff; exact Hn].
    + intros a Ha. destruct (nonerr (cells a)) eqn:E; [|reflexivity]. simpl. apply memN_In. apply H.
      split; [exact Ha | apply nonerr_iff; exact E].
Qed.

Lemma shifts_reflect toks cells vsh : shifts_b toks cells vsh = true <-> shifts_ok toks cells vsh.
Proof.
  unfold shifts_b, shifts_ok. rewrite andb_true_iff, !forallb_forall. split.
  - intros [H1 H2] a. split.
    + intros Ha. specialize (H1 a Ha). apply andb_true_iff in H1. destruct H1 as [Hm Hn].
      split; [apply memN_In; exact Hm | apply is_shift_iff; exact Hn].
    + intros [Ha Hn]. specialize (H2 a Ha). apply is_shift_iff in Hn. rewrite Hn in H2. simpl in H2.
      apply memN_In. exact H2.
  - intros H. split.
    + intros a Ha. apply H in Ha. destruct Ha as [Ha Hn]. apply andb_true_iff. split;
        [apply memN_In; exact Ha | apply is_shift_iff; exact Hn].
    + intros a Ha. destruct (is_shift (cells a)) eqn:E; [|reflexivity]. simpl. apply memN_In. apply H.
      split; [exact Ha | apply is_shift_iff; exact E].
Qed.

Lemma core_reduces_reflect g toks cells vcr :
  core_reduces_b g toks cells vcr = true <-> core_reduces_ok g toks cells vcr.
Proof.
  unfold core_reduces_b, core_reduces_ok. rewrite !andb_true_iff, !forallb_forall. split.
  - intros [[[H1 H2] H3] H4]. split; [|split; [|split]].
    + apply (nodupb_sound N.eqb); [exact N.eqb_eq | exact H1].
    + intros p Hp. specialize (H2 p Hp). apply existsb_exists in H2. destruct H2 as (a & Ha & He).
      exists a. split; [exact Ha | apply act_eqb_eq; exact He].
    + intros a p Ha Hc. specialize (H3 a Ha). rewrite Hc in H3. apply existsb_exists in H3.
      destruct H3 as (q & Hq & He). exists q. split; [exact Hq | apply cls_eqb_eq; exact He].
    + intros q q' Hq Hq' Hc. specialize (H4 q Hq). rewrite forallb_forall in H4. specialize (H4 q' Hq').
      apply orb_true_iff in H4. destruct H4 as [H4|H4].
      * apply negb_true_iff in H4. apply cls_eqb_eq in Hc. congruence.
      * apply N.eqb_eq. exact H4.
  - intros (H1 & H2 & H3 & H4). split; [split; [split|]|].
    + apply nodupb_complete; [exact N.eqb_eq | exact H1].
    + intros p Hp. destruct (H2 p Hp) as (a & Ha & Hc). apply existsb_exists. exists a.
      split; [exact Ha | apply act_eqb_eq; exact Hc].
    + intros a Ha. destruct (cells a) as [t|p| |] eqn:Ec; try reflexivity.
      destruct (H3 a p Ha Ec) as (q & Hq & Hc). apply existsb_exists. exists q.
      split; [exact Hq | apply cls_eqb_eq; exact Hc].
    + intros q Hq. apply forallb_forall. intros q' Hq'.
      destruct (cls_eqb (cls g q) (cls g q')) eqn:E; [|reflexivity]. simpl. apply N.eqb_eq.
      apply H4; [exact Hq | exact Hq' | apply cls_eqb_eq; exact E].
Qed.

Lemma reduce_only_ref_spec g toks cells :
  reduce_only_ref g toks cells = true <->
  (exists a, In a toks /\ cells a <> Err) /\
  (exists c, forall a, In a toks -> cells a <> Err -> exists p, cells a = Reduce p /\ cls g p = c).
Proof.
  unfold reduce_only_ref.
  assert (Hne : forall a, In a (filter (fun a => nonerr (cells a)) toks) <-> In a toks /\ cells a <> Err).
  { intros a. rewrite filter_In, nonerr_iff. tauto. }
  destruct (filter (fun a => nonerr (cells a)) toks) as [|a0 ne] eqn:E.
  - split; [discriminate|]. intros [(a & Ha & Hn) _]. exfalso.
    assert (Hin : In a []) by (apply Hne; split; assumption). destruct Hin.
  - destruct (Hne a0) as [Ha0 _]. specialize (Ha0 (or_introl eq_refl)). destruct Ha0 as [Ha0 Hn0].
    destruct (cells a0) as [t|p0| |] eqn:Ec0.
    + split; [discriminate|]. intros [_ (c & Hc)]. destruct (Hc a0 Ha0) as (p & Hp & _); [congruence|]. congruence.
    + rewrite forallb_forall. split.
      * intros H. split; [exists a0; split; [exact Ha0 | congruence]|]. exists (cls g p0). intros a Ha Hn.
        assert (Hin : In a (a0 :: ne)) by (apply Hne; split; assumption).
        destruct Hin as [Hin|Hin].
        -- subst a. exists p0. split; [exact Ec0 | reflexivity].
        -- specialize (H a Hin). destruct (cells a) as [t|p| |]; try discriminate.
           exists p. split; [reflexivity | apply cls_eqb_eq; exact H].
      * intros [_ (c & Hc)] a Hin.
        assert (Hin' : In a toks /\ cells a <> Err) by (apply Hne; right; exact Hin).
        destruct Hin' as [Ha Hn]. destruct (Hc a Ha Hn) as (p & Hp & Hcp). rewrite Hp.
        destruct (Hc a0 Ha0) as (p0' & Hp0 & Hcp0); [congruence|]. rewrite Ec0 in Hp0. inversion Hp0; subst p0'.
        apply cls_eqb_eq. congruence.
    + split; [discriminate|]. intros [_ (c & Hc)]. destruct (Hc a0 Ha0) as (p & Hp & _); [congruence|]. congruence.
    + contradiction.
Qed.

Lemma reduce_only_reflect g toks cells ro :
  reduce_only_b g toks cells ro = true <-> reduce_only_ok g toks cells ro.
Proof.
  unfold reduce_only_b, reduce_only_ok. rewrite <- reduce_only_ref_spec.
  destruct ro, (reduce_only_ref g toks cells); simpl; split; intros H; try reflexivity; try discriminate;
    try tauto.
Qed.

Lemma row_checks_reflect : row_checks_reflect_stmt.
Proof.
  intros g toks cells. split; [|split; [|split]].
  - intros va. apply actions_reflect.
  - intros vsh. apply shifts_reflect.
  - intros vcr. apply core_reduces_reflect.
  - intros ro. apply reduce_only_reflect.
Qed.

Lemma optN_eqb_eq a b : optN_eqb a b = true <-> a = b.
Proof.
  destruct a as [x|], b as [y|]; simpl; split; intros H; try discriminate; try reflexivity.
  - apply N.eqb_eq in H. subst. reflexivity.
  - inversion H. apply N.eqb_refl.
Qed.

Lemma targets_reflect : targets_reflect_stmt.
Proof.
  intros g A s. unfold targets_b, targets_ok. rewrite andb_true_iff, !forallb_forall. split.
  - intros [H1 H2]. split.
    + intros a t Ha Hc. specialize (H1 a Ha). rewrite Hc in H1. apply optN_eqb_eq. exact H1.
    + intros r t Hr Hc. specialize (H2 r Hr). rewrite Hc in H2. apply optN_eqb_eq. exact H2.
  - intros [H1 H2]. split.
    + intros a Ha. destruct (action A s a) as [t| | |] eqn:E; try reflexivity. apply optN_eqb_eq. apply H1; assumption.
    + intros r Hr. destruct (goto A s r) as [t|] eqn:E; try reflexivity. apply optN_eqb_eq. apply H2; assumption.
Qed.

(* ---- the views computed from the final cells -------------------------------------------------- *)

Lemma cls_eqb_refl k : cls_eqb k k = true.
Proof. apply cls_eqb_eq. reflexivity. Qed.

Lemma nt_insert_keys k v m : NoDup (map fst m) ->
  NoDup (map fst (nt_insert k v m)) /\
  (forall k', In k' (map fst (nt_insert k v m)) <-> k' = k \/ In k' (map fst m)).
Proof.
  induction m as [|[k0 v0] m IH]; intros Hnd.
  - simpl. split; [repeat constructor; intros []|]. intros k'. split; [intros [H|[]]; left; symmetry; exact H|].
    intros [H|[]]. left. symmetry. exact H.
  - simpl in Hnd. inversion Hnd as [|? ? Hk0 Hnd']; subst. simpl. destruct (cls_eqb k k0) eqn:E.
    + apply cls_eqb_eq in E. subst k0. simpl. split; [constructor; assumption|].
      intros k'. split; [intros [H|H]; [left; symmetry; exact H | right; right; exact H]|].
      intros [H|[H|H]]; [left; symmetry; exact H | left; exact H | right; exact H].
    + destruct (IH Hnd') as [IH1 IH2]. simpl. split.
      * constructor; [|exact IH1]. intros Hin. apply IH2 in Hin. destruct Hin as [Hin|Hin]; [|contradiction].
        subst k0. rewrite cls_eqb_refl in E. discriminate.
      * intros k'. rewrite IH2. tauto.
Qed.

Lemma nt_insert_In k v m k' v' : NoDup (map fst m) ->
  (In (k', v') (nt_insert k v m) <-> (k', v') = (k, v) \/ (In (k', v') m /\ k' <> k)).
Proof.
  induction m as [|[k0 v0] m IH]; intros Hnd.
  - simpl. split; [intros [H|[]]; left; symmetry; exact H|]. intros [H|[[] _]]. left. symmetry. exact H.
  - simpl in Hnd. inversion Hnd as [|? ? Hk0 Hnd']; subst. simpl. destruct (cls_eqb k k0) eqn:E.
    + apply cls_eqb_eq in E. subst k0. simpl. split.
      * intros [H|H]; [left; symmetry; exact H|]. right. split; [right; exact H|].
        intros Hk. subst k'. apply Hk0. apply in_map_iff. exists (k, v'). split; [reflexivity | exact H].
      * intros [H|[[H|H] Hk]]; [left; symmetry; exact H | inversion H; subst; contradiction | right; exact H].
    + simpl. rewrite (IH Hnd'). split.
      * intros [H|[H|[H Hk]]].
        -- right. split; [left; exact H|]. inversion H as [[H1 H2]]. intros Hk. rewrite H1, Hk in E. rewrite cls_eqb_refl in E. discriminate.
        -- left. exact H.
        -- right. split; [right; exact H | exact Hk].
      * intros [H|[[H|H] Hk]]; [right; left; exact H | left; exact H | right; right; split; assumption].
Qed.

Record VInv (g : grammar) (cells : N -> act) (done : list N) (acc : vacc) : Prop := mkVInv {
  vi_keys : NoDup (map fst (va_nt acc));
  vi_ent : forall k v, In (k, v) (va_nt acc) -> k = cls g v /\ exists a, In a done /\ cells a = Reduce v;
  vi_cov : forall a p, In a done -> cells a = Reduce p -> exists v, In (cls g p, v) (va_nt acc);
  vi_only : va_only acc = true <-> forall a, In a done -> (cells a = Err \/ exists p, cells a = Reduce p);
  vi_sh : forall a, In a (va_shifts acc) <-> In a done /\ exists t, cells a = Shift t
}.

Lemma VInv_init g cells : VInv g cells [] (mkVacc [] true []).
Proof.
  constructor; simpl.
  - constructor.
  - intros k v [].
  - intros a p [].
  - split; [intros _ a [] | reflexivity].
  - intros a. split; [intros [] | intros [[] _]].
Qed.

Lemma VInv_step g cells done acc a :
  VInv g cells done acc -> VInv g cells (done ++ [a]) (view_tok g cells acc a).
Proof.
  intros [Hk He Hc Ho Hs]. unfold view_tok. destruct (cells a) as [t|p| |] eqn:Ea.
  - (* shift *)
    constructor; simpl.
    + exact Hk.
    + intros k v Hin. destruct (He k v Hin) as [E (a' & Ha' & Hc')]. split; [exact E|].
      exists a'. split; [apply in_or_app; left; exact Ha' | exact Hc'].
    + intros a' p Ha' Hc'. apply in_app_or in Ha'. destruct Ha' as [Ha'|[Ha'|[]]]; [exact (Hc a' p Ha' Hc')|].
      subst a'. congruence.
    + split; [discriminate|]. intros H. destruct (H a) as [H'|(p & H')]; [apply in_or_app; right; left; reflexivity | |]; congruence.
    + intros a'. rewrite !in_app_iff, (Hs a'). simpl. split.
      * intros [[H1 H2]|[H|[]]]; [split; [left; exact H1 | exact H2]|]. subst a'. split; [right; left; reflexivity|].
        exists t. exact Ea.
      * intros [[H|[H|[]]] H2]; [left; split; assumption | right; left; exact H].
  - (* reduce *)
    destruct (nt_insert_keys (cls g p) p (va_nt acc) Hk) as [Hk1 Hk2].
    constructor; simpl.
    + exact Hk1.
    + intros k v Hin. apply (nt_insert_In _ _ _ _ _ Hk) in Hin. destruct Hin as [Hin|[Hin _]].
      * inversion Hin; subst. split; [reflexivity|]. exists a. split; [apply in_or_app; right; left; reflexivity | exact Ea].
      * destruct (He k v Hin) as [E (a' & Ha' & Hc')]. split; [exact E|].
        exists a'. split; [apply in_or_app; left; exact Ha' | exact Hc'].
    + intros a' p' Ha' Hc'.
      assert (Hdec : cls g p' = cls g p \/ cls g p' <> cls g p).
      { destruct (cls_eqb (cls g p') (cls g p)) eqn:E; [left; apply cls_eqb_eq; exact E | right].
        intros H. rewrite H, cls_eqb_refl in E. discriminate. }
      destruct Hdec as [Hd|Hd].
      * exists p. rewrite Hd. apply (nt_insert_In _ _ _ _ _ Hk). left. reflexivity.
      * apply in_app_or in Ha'. destruct Ha' as [Ha'|[Ha'|[]]].
        -- destruct (Hc a' p' Ha' Hc') as (v & Hv). exists v. apply (nt_insert_In _ _ _ _ _ Hk). right. split; assumption.
        -- subst a'. rewrite Ea in Hc'. inversion Hc'; subst. contradiction.
    + rewrite Ho. split.
      * intros H a' Ha'. apply in_app_or in Ha'. destruct Ha' as [Ha'|[Ha'|[]]]; [apply H; exact Ha'|].
        subst a'. right. exists p. exact Ea.
      * intros H a' Ha'. apply H. apply in_or_app. left. exact Ha'.
    + intros a'. rewrite (Hs a'), in_app_iff. simpl. split.
      * intros [H1 H2]. split; [left; exact H1 | exact H2].
      * intros [[H|[H|[]]] H2]; [split; assumption|]. subst a'. destruct H2 as (t & H2). congruence.
  - (* accept *)
    constructor; simpl.
    + exact Hk.
    + intros k v Hin. destruct (He k v Hin) as [E (a' & Ha' & Hc')]. split; [exact E|].
      exists a'. split; [apply in_or_app; left; exact Ha' | exact Hc'].
    + intros a' p Ha' Hc'. apply in_app_or in Ha'. destruct Ha' as [Ha'|[Ha'|[]]]; [exact (Hc a' p Ha' Hc')|].
      subst a'. congruence.
    + split; [discriminate|]. intros H. destruct (H a) as [H'|(p & H')]; [apply in_or_app; right; left; reflexivity | |]; congruence.
    + intros a'. rewrite (Hs a'), in_app_iff. simpl. split.
      * intros [H1 H2]. split; [left; exact H1 | exact H2].
      * intros [[H|[H|[]]] H2]; [split; assumption|]. subst a'. destruct H2 as (t & H2). congruence.
  - (* error *)
    constructor.
    + exact Hk.
    + intros k v Hin. destruct (He k v Hin) as [E (a' & Ha' & Hc')]. split; [exact E|].
      exists a'. split; [apply in_or_app; left; exact Ha' | exact Hc'].
    + intros a' p Ha' Hc'. apply in_app_or in Ha'. destruct Ha' as [Ha'|[Ha'|[]]]; [exact (Hc a' p Ha' Hc')|].
      subst a'. congruence.
    + rewrite Ho. split.
      * intros H a' Ha'. apply in_app_or in Ha'. destruct Ha' as [Ha'|[Ha'|[]]]; [apply H; exact Ha'|].
        subst a'. left. exact Ea.
      * intros H a' Ha'. apply H. apply in_or_app. left. exact Ha'.
    + intros a'. rewrite (Hs a'), in_app_iff. simpl. split.
      * intros [H1 H2]. split; [left; exact H1 | exact H2].
      * intros [[H|[H|[]]] H2]; [split; assumption|]. subst a'. destruct H2 as (t & H2). congruence.
Qed.

Lemma VInv_fold g cells rest : forall done acc,
  VInv g cells done acc -> VInv g cells (done ++ rest) (fold_left (view_tok g cells) rest acc).
Proof.
  induction rest as [|a rest IH]; intros done acc H.
  - simpl. rewrite app_nil_r. exact H.
  - simpl. replace (done ++ a :: rest) with ((done ++ [a]) ++ rest) by (rewrite <- app_assoc; reflexivity).
    apply IH. apply VInv_step. exact H.
Qed.

Lemma set_bits_from vals : forall cr n, NoDup (cr ++ vals) ->
  fold_left (fun '(cr, n) p => if memN p cr then (cr, n) else (cr ++ [p], S n)) vals (cr, n)
  = (cr ++ vals, (n + length vals)%nat).
Proof.
  induction vals as [|p vals IH]; intros cr n Hnd.
  - simpl. rewrite app_nil_r, Nat.add_0_r. reflexivity.
  - simpl. destruct (memN p cr) eqn:E.
    + exfalso. apply memN_In in E. apply (NoDup_app_disj cr (p :: vals) p Hnd E). left. reflexivity.
    + rewrite IH.
      * rewrite <- app_assoc. simpl. f_equal. lia.
      * rewrite <- app_assoc. exact Hnd.
Qed.

Lemma set_bits_nodup vals : NoDup vals -> set_bits vals = (vals, length vals).
Proof. intros H. unfold set_bits. rewrite set_bits_from; [reflexivity | exact H]. Qed.

Lemma all_equal_length {A} (l : list A) c : NoDup l -> (forall x, In x l -> x = c) -> (length l <= 1)%nat.
Proof.
  intros Hnd H. destruct l as [|x [|y l]]; simpl; try lia.
  exfalso. inversion Hnd as [|? ? Hx _]; subst. apply Hx.
  rewrite (H x (or_introl eq_refl)), <- (H y (or_intror (or_introl eq_refl))). left. reflexivity.
Qed.

Lemma views_from_final_cells_coherent : views_from_final_cells_coherent_stmt.
Proof.
  intros g toks cells. unfold views_row.
  pose proof (VInv_fold g cells toks [] (mkVacc [] true []) (VInv_init g cells)) as HI. simpl app in HI.
  set (acc := fold_left (view_tok g cells) toks (mkVacc [] true [])) in *.
  destruct HI as [Hk He Hc Ho Hs].
  assert (Hndnt : NoDup (va_nt acc)) by (apply NoDup_map_fst_inv; exact Hk).
  assert (Hndv : NoDup (map snd (va_nt acc))).
  { apply NoDup_map_inj; [|exact Hndnt]. intros [k1 v1] [k2 v2] H1 H2 E. simpl in E. subst v2.
    destruct (He k1 v1 H1) as [E1 _]. destruct (He k2 v1 H2) as [E2 _]. congruence. }
  rewrite (set_bits_nodup _ Hndv). rewrite map_length.
  split; [exact Hs|]. split.
  - (* core reduces *)
    split; [exact Hndv|]. split; [|split].
    + intros p Hp. apply in_map_iff in Hp. destruct Hp as ([k v] & E & Hin). simpl in E. subst v.
      destruct (He k p Hin) as [_ H]. exact H.
    + intros a p Ha Hcell. destruct (Hc a p Ha Hcell) as (v & Hv). exists v. split.
      * apply in_map_iff. exists (cls g p, v). split; [reflexivity | exact Hv].
      * destruct (He _ _ Hv) as [E _]. symmetry. exact E.
    + intros q q' Hq Hq' Hcls. apply in_map_iff in Hq. apply in_map_iff in Hq'.
      destruct Hq as ([k v] & E & Hin). destruct Hq' as ([k' v'] & E' & Hin'). simpl in E, E'. subst v v'.
      destruct (He k q Hin) as [Ek _]. destruct (He k' q' Hin') as [Ek' _].
      assert (Epair : (k, q) = (k', q')).
      { apply (NoDup_map_eq fst (va_nt acc)); [exact Hk | exact Hin | exact Hin' |]. simpl. congruence. }
      inversion Epair. reflexivity.
  - (* reduce only *)
    unfold reduce_only_ok. rewrite andb_true_iff, Nat.eqb_eq, Ho. split.
    + intros [Honly Hlen]. destruct (va_nt acc) as [|[k v] [|e m]] eqn:Ent; simpl in Hlen; try discriminate.
      destruct (He k v (or_introl eq_refl)) as [Ek (a & Ha & Hcell)]. split.
      * exists a. split; [exact Ha | congruence].
      * exists k. intros a' Ha' Hn. destruct (Honly a' Ha') as [H|(p & Hp)]; [contradiction|].
        exists p. split; [exact Hp|]. destruct (Hc a' p Ha' Hp) as (v' & [Hv'|[]]). inversion Hv'. reflexivity.
    + intros [(a0 & Ha0 & Hn0) (c & Hcom)]. split.
      * intros a Ha. destruct (cells a) as [t|p| |] eqn:E.
        -- destruct (Hcom a Ha) as (p & Hp & _); [congruence|]. congruence.
        -- right. exists p. reflexivity.
        -- destruct (Hcom a Ha) as (p & Hp & _); [congruence|]. congruence.
        -- left. reflexivity.
      * destruct (Hcom a0 Ha0 Hn0) as (p0 & Hp0 & Hc0).
        destruct (Hc a0 p0 Ha0 Hp0) as (v0 & Hv0).
        assert (Hle : (length (map fst (va_nt acc)) <= 1)%nat).
        { apply (all_equal_length _ c Hk). intros k Hkin. apply in_map_iff in Hkin.
          destruct Hkin as ([k' v] & E & Hin). simpl in E. subst k'.
          destruct (He k v Hin) as [Ek (a & Ha & Hcell)]. destruct (Hcom a Ha) as (p & Hp & Hcp); [congruence|].
          rewrite Hcell in Hp. inversion Hp; subst p. congruence. }
        rewrite map_length in Hle. destruct (va_nt acc) as [|e m]; [destruct Hv0|]. simpl in *. lia.
Qed.
