(* C16 — reachability and LR(1) closure: what the boolean checks establish. *)
From Coq Require Import List Arith NArith Bool Lia Permutation.
From GV Require Import Common.Outcome Base.Grammar Base.Analyses Base.GrammarFacts Base.AnalysesProofs
  LR.Automaton LR.Validator C03.Model C16.Model C16.Spec.
Import ListNotations.

(* ---- sets of triples ------------------------------------------------------------------- *)

Lemma optN_eqb_eq' a b : optN_eqb a b = true <-> a = b.
Proof.
  destruct a as [x|], b as [y|]; simpl; split; intros H; try discriminate; try reflexivity.
  - apply N.eqb_eq in H. subst. reflexivity.
  - inversion H. apply N.eqb_refl.
Qed.

Lemma tr_eqb_eq x y : tr_eqb x y = true <-> x = y.
Proof.
  destruct x as [[p d] a], y as [[q e] b]. unfold tr_eqb. simpl.
  rewrite !andb_true_iff, !N.eqb_eq, Nat.eqb_eq, optN_eqb_eq'. split.
  - intros [[-> ->] ->]. reflexivity.
  - intros H. inversion H. repeat split; reflexivity.
Qed.

Lemma mem_tr_In x l : mem_tr x l = true <-> In x l.
Proof.
  unfold mem_tr. rewrite existsb_exists. split.
  - intros (y & Hy & E). apply tr_eqb_eq in E. subst y. exact Hy.
  - intros H. exists x. split; [exact H | apply tr_eqb_eq; reflexivity].
Qed.

Lemma In_add_tr x y l : In x (add_tr y l) <-> x = y \/ In x l.
Proof.
  unfold add_tr. destruct (mem_tr y l) eqn:E.
  - apply mem_tr_In in E. split; [intros H; right; exact H|]. intros [H|H]; [subst x; exact E | exact H].
  - rewrite in_app_iff. simpl. split.
    + intros [H|[H|[]]]; [right; exact H | left; symmetry; exact H].
    + intros [H|H]; [right; left; symmetry; exact H | left; exact H].
Qed.

Lemma In_union_tr x a : forall b, In x (union_tr a b) <-> In x a \/ In x b.
Proof.
  unfold union_tr. induction a as [|y a IH]; intros b; simpl.
  - tauto.
  - rewrite IH, In_add_tr. split.
    + intros [H|[H|H]]; [left; right; exact H | left; left; symmetry; exact H | right; exact H].
    + intros [[H|H]|H]; [right; left; symmetry; exact H | left; exact H | right; right; exact H].
Qed.

Lemma subset_tr_incl a b : subset_tr a b = true <-> incl a b.
Proof.
  unfold subset_tr, incl. rewrite forallb_forall. split; intros H x Hx.
  - apply mem_tr_In. apply H. exact Hx.
  - apply mem_tr_In. apply H. exact Hx.
Qed.

Lemma In_triples_of l p d x : In (p, d, x) (triples_of l) <-> has_triple l p d x.
Proof.
  unfold triples_of, has_triple. rewrite in_flat_map. split.
  - intros ([[p' d'] la] & Hin & H). unfold it_p, it_d, it_la in H. simpl in H. destruct H as [H|H].
    + inversion H; subst. exists la. split; [exact Hin | exact I].
    + apply in_map_iff in H. destruct H as (a' & E & Ha). inversion E; subst. exists la. split; assumption.
  - intros (la & Hin & Ha). exists (p, d, la). split; [exact Hin|]. unfold it_p, it_d, it_la. simpl.
    destruct x as [a|]; [right | left; reflexivity]. apply in_map_iff. exists a. split; [reflexivity | exact Ha].
Qed.

(* ---- closure ---------------------------------------------------------------------------------- *)

Lemma In_clo_of g nl fs p d x q d' y :
  In (q, d', y) (clo_of g nl fs (p, d, x)) <->
  d' = 0%nat /\ exists r, nth_error (rhs g p) d = Some (R r) /\ is_prod g q /\ lhs g q = r /\
    (y = None \/ (exists b, y = Some b /\ In b (first_seq nl fs (skipn (S d) (rhs g p)))) \/
     (nullable_seq nl (skipn (S d) (rhs g p)) = true /\ y = x)).
Proof.
  unfold clo_of. simpl fst. simpl snd. destruct (nth_error (rhs g p) d) as [[t|r]|] eqn:E.
  - split; [intros [] | intros (_ & r & H & _); discriminate].
  - rewrite in_flat_map. split.
    + intros (q' & Hq' & H). destruct (N.eqb_spec (lhs g q') r) as [El|El]; [|destruct H].
      apply in_map_iff in H. destruct H as (y' & Ey & Hy). inversion Ey; subst q' d' y'. clear Ey.
      split; [reflexivity|]. exists r. split; [reflexivity|]. split; [apply In_pidxs; exact Hq'|]. split; [exact El|].
      destruct Hy as [Hy|Hy]; [left; symmetry; exact Hy|]. apply in_app_or in Hy. destruct Hy as [Hy|Hy].
      * right. left. apply in_map_iff in Hy. destruct Hy as (b & Eb & Hb). exists b. split; [symmetry; exact Eb | exact Hb].
      * right. right. destruct (nullable_seq nl (skipn (S d) (rhs g p))); [|destruct Hy].
        destruct Hy as [Hy|[]]. split; [reflexivity | symmetry; exact Hy].
    + intros (-> & r' & Er & Hq & Hl & Hy). assert (El : lhs g q = r) by congruence.
      exists q. split; [apply In_pidxs; exact Hq|]. rewrite El, N.eqb_refl. apply in_map_iff. exists y. split; [reflexivity|].
      destruct Hy as [Hy|[(b & Eb & Hb)|[Hn Hy]]].
      * left. symmetry. exact Hy.
      * right. apply in_or_app. left. apply in_map_iff. exists b. split; [symmetry; exact Eb | exact Hb].
      * right. apply in_or_app. right. rewrite Hn. left. symmetry. exact Hy.
  - split; [intros [] | intros (_ & r & H & _); discriminate].
Qed.

Lemma clo_step_sound g nl fs K S : nullable_exact g nl -> first_exact g fs ->
  (forall p d x, In (p, d, x) S -> in_closure g K p d x) ->
  forall p d x, In (p, d, x) (clo_step g nl fs S) -> in_closure g K p d x.
Proof.
  intros Hn Hf HS p d x Hin. unfold clo_step in Hin. apply In_union_tr in Hin. destruct Hin as [Hin|Hin]; [|apply HS; exact Hin].
  unfold clo_new in Hin. apply in_flat_map in Hin. destruct Hin as ([[p0 d0] x0] & H0 & Hin).
  apply In_clo_of in Hin. destruct Hin as (-> & r & Hnth & Hq & Hl & Hy).
  pose proof (HS p0 d0 x0 H0) as H0c.
  destruct Hy as [Hy|[(b & Eb & Hb)|[Hnul Hy]]].
  - subst x. eapply ic_sub; eassumption.
  - subst x. eapply ic_first; try eassumption. apply (first_seq_exact g nl fs _ b Hn Hf). exact Hb.
  - subst x. destruct x0 as [a|].
    + eapply ic_null; try eassumption. apply (nullable_seq_exact g nl _ Hn). exact Hnul.
    + eapply ic_sub; eassumption.
Qed.

Lemma clo_fix_sound g nl fs K : nullable_exact g nl -> first_exact g fs ->
  forall fuel S, (forall p d x, In (p, d, x) S -> in_closure g K p d x) ->
  forall p d x, In (p, d, x) (clo_fix g nl fs fuel S) -> in_closure g K p d x.
Proof.
  intros Hn Hf. induction fuel as [|f IH]; intros S HS p d x Hin; [apply HS; exact Hin|].
  pose proof (clo_step_sound g nl fs K S Hn Hf HS) as Hstep.
  cbn [clo_fix] in Hin. revert Hin.
  match goal with |- context [if ?c then _ else _] => destruct c end; intros Hin.
  - apply Hstep. exact Hin.
  - apply (IH (clo_step g nl fs S) Hstep). exact Hin.
Qed.

Lemma lr1_closure_sound g nl fs K : nullable_exact g nl -> first_exact g fs ->
  forall p d x, In (p, d, x) (lr1_closure g nl fs K) -> in_closure g K p d x.
Proof.
  intros Hn Hf. unfold lr1_closure. apply (clo_fix_sound g nl fs K Hn Hf).
  intros p d x Hin. apply In_triples_of in Hin. destruct Hin as (la & H1 & H2). destruct x as [a|].
  - eapply ic_la; eassumption.
  - eapply ic_item; eassumption.
Qed.

Lemma closed_contains_closure g nl fs K C : nullable_exact g nl -> first_exact g fs ->
  incl (triples_of K) C -> incl (clo_new g nl fs C) C ->
  forall p d x, in_closure g K p d x -> In (p, d, x) C.
Proof.
  intros Hn Hf HK HC p d x H.
  assert (Hstep : forall p d x q y, In (p, d, x) C -> In (q, 0%nat, y) (clo_of g nl fs (p, d, x)) -> In (q, 0%nat, y) C).
  { intros p0 d0 x0 q y H0 H1. apply HC. unfold clo_new. apply in_flat_map. exists (p0, d0, x0). split; assumption. }
  induction H as [p d la H1 | p d la a H1 H2 | p d x r q H IH Hnth Hq Hl | p d x r q b H IH Hnth Hq Hl Hb
                  | p d a r q H IH Hnth Hq Hl Hnul].
  - apply HK. apply In_triples_of. exists la. split; [exact H1 | exact I].
  - apply HK. apply In_triples_of. exists la. split; assumption.
  - apply (Hstep p d x q None IH). apply In_clo_of. split; [reflexivity|]. exists r. repeat split; try assumption.
    left. reflexivity.
  - apply (Hstep p d x q (Some b) IH). apply In_clo_of. split; [reflexivity|]. exists r. repeat split; try assumption.
    right. left. exists b. split; [reflexivity|]. apply (first_seq_exact g nl fs _ b Hn Hf). exact Hb.
  - apply (Hstep p d (Some a) q (Some a) IH). apply In_clo_of. split; [reflexivity|]. exists r. repeat split; try assumption.
    right. right. split; [|reflexivity]. apply (nullable_seq_exact g nl _ Hn). exact Hnul.
Qed.

Lemma closure_b_sound g nl fs A s : first_ref g = Some (nl, fs) ->
  closure_b g nl fs A s = true -> closure_ok g A s.
Proof.
  intros Hfr H. destruct (first_ref_exact' g nl fs Hfr) as [Hn Hf].
  unfold closure_b in H. apply andb_true_iff in H. destruct H as [H H3]. apply andb_true_iff in H. destruct H as [H1 H2].
  apply subset_tr_incl in H1. apply subset_tr_incl in H2. apply subset_tr_incl in H3.
  intros p d x. split.
  - intros Ht. apply In_triples_of in Ht. apply H3 in Ht. exact (lr1_closure_sound g nl fs _ Hn Hf p d x Ht).
  - intros Hc. apply In_triples_of. exact (closed_contains_closure g nl fs _ _ Hn Hf H1 H2 p d x Hc).
Qed.

(* ---- reachability ------------------------------------------------------------------------------- *)

Lemma reach_states_sound g A : forall s, In s (reach_states g A) -> reachable A s.
Proof.
  unfold reach_states.
  apply (iter_invariant (fun S => forall s, In s S -> reachable A s)).
  - intros S HS s Hin. unfold reach_states_step in Hin. apply In_unionN in Hin. destruct Hin as [Hin|Hin]; [|apply HS; exact Hin].
    apply in_flat_map in Hin. destruct Hin as (s0 & H0 & Hin). unfold succs in Hin. apply in_flat_map in Hin.
    destruct Hin as (X & _ & Hin). destruct (edge A s0 X) as [t|] eqn:E; [|destruct Hin].
    destruct Hin as [Hin|[]]. subst t. eapply reach_edge; [apply HS; exact H0 | exact E].
  - intros s [H|[]]. subst s. apply reach_start.
Qed.

Lemma all_reachable_b_sound g A : all_reachable_b g A = true -> forall s, In s (states A) -> reachable A s.
Proof.
  unfold all_reachable_b. rewrite forallb_forall. intros H s Hs. apply (reach_states_sound g A).
  apply memN_In. apply H. exact Hs.
Qed.
