From GV Require Import Base.Grammar Base.Analyses LR.Automaton LR.Validator LR.Spec LR.Agree.
From GV Require Import Common.Outcome LR.CloseMirror LR.CloseSpec C02.Model C02.Spec C02.Proofs.
From GV Require Import C02.PagerSpec C02.PagerProofsPath C02.PagerProofsBridge C02.PagerProofsExists C02.PagerProofsMisc C02.PagerProofsMain.
From GV Require Import C02.Lr1Model C02.Lr1Spec C02.Lr1Proofs.
From GV Require Import Base.AnalysesProofs C02.LoopModel C02.LoopSpec C02.LoopProofs C02.LoopEdgeProofs C02.LoopPanicProofs.
From GV Require Import C02.InducedModel C02.InducedSpec C02.LoopFactsProofs C02.InducedSProofs C02.InducedCProofs C02.InducedEProofs C02.InducedMainProofs.
From GV Require Import C02.LoopGcProofs C02.LoopTermProofs C02.LoopTotalProofs C02.HeadlineProofs.
From GV Require C02.Examples.
From GV Require Import C02.TextbookModel C02.TextbookSpec C02.TextbookProofs C02.PhantomSpec C02.PhantomProofs.

Theorem C02_validated_automata_agree : validated_automata_agree_stmt.
Proof. exact validated_automata_agree. Qed.
Print Assumptions C02_validated_automata_agree.

(* stage 1: Itemset::weakly_compatible / weakly_merge (pager.rs:28-101), mirrored, decide Pager's weak compatibility / compute the item-by-item union *)

Theorem C02_weakly_compatible_mirror_spec : weakly_compatible_mirror_spec_stmt.
Proof. exact weakly_compatible_mirror_spec. Qed.
Print Assumptions C02_weakly_compatible_mirror_spec.

Theorem C02_weakly_compatible_order_insensitive : weakly_compatible_order_insensitive_stmt.
Proof. exact weakly_compatible_order_insensitive. Qed.
Print Assumptions C02_weakly_compatible_order_insensitive.

Theorem C02_weakly_compatible_never_panics : weakly_compatible_never_panics_stmt.
Proof. exact weakly_compatible_never_panics. Qed.
Print Assumptions C02_weakly_compatible_never_panics.

Theorem C02_weakly_compatible_layout_insensitive : weakly_compatible_layout_insensitive_stmt.
Proof. exact weakly_compatible_layout_insensitive. Qed.
Print Assumptions C02_weakly_compatible_layout_insensitive.

Theorem C02_weakly_compatible_spec_sym : weakly_compatible_spec_sym_stmt.
Proof. exact weakly_compatible_spec_sym. Qed.
Print Assumptions C02_weakly_compatible_spec_sym.

Theorem C02_weakly_compatible_spec_refl : weakly_compatible_spec_refl_stmt.
Proof. exact weakly_compatible_spec_refl. Qed.
Print Assumptions C02_weakly_compatible_spec_refl.

Theorem C02_weakly_merge_mirror_spec : weakly_merge_mirror_spec_stmt.
Proof. exact weakly_merge_mirror_spec. Qed.
Print Assumptions C02_weakly_merge_mirror_spec.

Theorem C02_weakly_merge_is_union : weakly_merge_is_union_stmt.
Proof. exact weakly_merge_is_union. Qed.
Print Assumptions C02_weakly_merge_is_union.

(* stage 2: Pager's merge-safety theorem on the declarative LR(1) model (theories/C02/PagerSpec.v) *)

(* the path-indexed relations core_at / la_at are exactly `after` + the CloseSpec closure *)

Theorem C02_after_characterisation : after_characterisation_stmt.
Proof. exact after_characterisation. Qed.
Print Assumptions C02_after_characterisation.

Theorem C02_after_exists : after_exists_stmt.
Proof. exact after_exists. Qed.
Print Assumptions C02_after_exists.

Theorem C02_tree_path_conflict_free_iff : tree_path_conflict_free_iff_stmt.
Proof. exact tree_path_conflict_free_iff. Qed.
Print Assumptions C02_tree_path_conflict_free_iff.

(* (a) linearity: closure, goto and the whole continuation are union-homomorphisms in the contexts *)

Theorem C02_closure_linear : closure_linear_stmt.
Proof. exact closure_linear. Qed.
Print Assumptions C02_closure_linear.

Theorem C02_goto_linear : goto_linear_stmt.
Proof. exact goto_linear. Qed.
Print Assumptions C02_goto_linear.

Theorem C02_state_after_linear : state_after_linear_stmt.
Proof. exact state_after_linear. Qed.
Print Assumptions C02_state_after_linear.

Theorem C02_path_linear : path_linear_stmt.
Proof. exact path_linear. Qed.
Print Assumptions C02_path_linear.

Theorem C02_la_origin : la_origin_stmt.
Proof. exact la_origin. Qed.
Print Assumptions C02_la_origin.

(* (b) Pager's theorem: merging weakly compatible kernels creates no conflict *)

Theorem C02_weak_merge_conflict_origin : weak_merge_conflict_origin_stmt.
Proof. exact weak_merge_conflict_origin. Qed.
Print Assumptions C02_weak_merge_conflict_origin.

Theorem C02_weak_merge_safe_path : weak_merge_safe_path_stmt.
Proof. exact weak_merge_safe_path. Qed.
Print Assumptions C02_weak_merge_safe_path.

Theorem C02_weak_merge_safe : weak_merge_safe_stmt.
Proof. exact weak_merge_safe. Qed.
Print Assumptions C02_weak_merge_safe.

Theorem C02_pager_merge_step_safe : pager_merge_step_safe_stmt.
Proof. exact pager_merge_step_safe. Qed.
Print Assumptions C02_pager_merge_step_safe.

Theorem C02_merge_needs_weak_compat : merge_needs_weak_compat_stmt.
Proof. exact merge_needs_weak_compat. Qed.
Print Assumptions C02_merge_needs_weak_compat.

(* (c) for an LR(1) grammar no kernel a Pager-style construction can hold has a conflict *)

Theorem C02_pager_reachable_conflict_free : pager_reachable_conflict_free_stmt.
Proof. exact pager_reachable_conflict_free. Qed.
Print Assumptions C02_pager_reachable_conflict_free.

Theorem C02_conflict_free_cell : conflict_free_cell_stmt.
Proof. exact conflict_free_cell. Qed.
Print Assumptions C02_conflict_free_cell.

(* the premise "the grammar is LR(1)" has a proved-sound executable certificate checker (run per generated grammar on canon_lr1's automaton) *)

Theorem C02_lr1_check_sound : lr1_check_sound_stmt.
Proof. exact lr1_check_sound. Qed.
Print Assumptions C02_lr1_check_sound.

Theorem C02_lr1_check_states : lr1_check_states_stmt.
Proof. exact lr1_check_states. Qed.
Print Assumptions C02_lr1_check_states.

Theorem C02_lr1_check_pager_safe : lr1_check_pager_safe_stmt.
Proof. exact lr1_check_pager_safe. Qed.
Print Assumptions C02_lr1_check_pager_safe.

(* the mirror of pager_stategraph + gc (theories/C02/LoopModel.v): whenever it returns, every core state is Pager-reachable, every closed state is the exact closure of its core; no conflict for LR(1) grammars *)

Theorem C02_pager_mirror_reachable : pager_mirror_reachable_stmt.
Proof. exact pager_mirror_reachable. Qed.
Print Assumptions C02_pager_mirror_reachable.

Theorem C02_pager_mirror_conflict_free : pager_mirror_conflict_free_stmt.
Proof. exact pager_mirror_conflict_free. Qed.
Print Assumptions C02_pager_mirror_conflict_free.

Theorem C02_pager_mirror_certified : pager_mirror_certified_stmt.
Proof. exact pager_mirror_certified. Qed.
Print Assumptions C02_pager_mirror_certified.

(* ... and its graph is closed under goto up to inclusion of contexts: state 0 is the start kernel, every non-empty goto has its edge to a state whose core includes it, and there is no other edge *)

Theorem C02_pager_mirror_edges_complete : pager_mirror_edges_complete_stmt.
Proof. exact pager_mirror_edges_complete. Qed.
Print Assumptions C02_pager_mirror_edges_complete.

Theorem C02_pager_mirror_edges_sound : pager_mirror_edges_sound_stmt.
Proof. exact pager_mirror_edges_sound. Qed.
Print Assumptions C02_pager_mirror_edges_sound.

(* ... and none of the panic sites of pager_stategraph (indexing, unwrap, usize subtraction) is reachable; only the deliberate StorageT size checks remain *)

Theorem C02_pager_mirror_never_panics : pager_mirror_never_panics_stmt.
Proof. exact pager_mirror_never_panics. Qed.
Print Assumptions C02_pager_mirror_never_panics.

(* the automaton induced by a graph of the mirror (closed states, edges, the table read off them) is VALIDATED; for an LR(1) grammar it is also conflict-free, so it agrees on every input with any validated automaton of the grammar, e.g. the canonical LR(1) one *)

Theorem C02_pager_mirror_graph_facts : pager_mirror_graph_facts_stmt.
Proof. exact pager_mirror_graph_facts. Qed.
Print Assumptions C02_pager_mirror_graph_facts.

Theorem C02_pager_reachable_start_la : pager_reachable_start_la_stmt.
Proof. exact pager_reachable_start_la. Qed.
Print Assumptions C02_pager_reachable_start_la.

Theorem C02_induced_validS : induced_validS_stmt.
Proof. exact induced_validS. Qed.
Print Assumptions C02_induced_validS.

Theorem C02_induced_validC : induced_validC_stmt.
Proof. exact induced_validC. Qed.
Print Assumptions C02_induced_validC.

Theorem C02_induced_validE : induced_validE_stmt.
Proof. exact induced_validE. Qed.
Print Assumptions C02_induced_validE.

Theorem C02_induced_single_candidate : induced_single_candidate_stmt.
Proof. exact induced_single_candidate. Qed.
Print Assumptions C02_induced_single_candidate.

Theorem C02_pager_mirror_validated : pager_mirror_validated_stmt.
Proof. exact pager_mirror_validated. Qed.
Print Assumptions C02_pager_mirror_validated.

Theorem C02_pager_parser_agrees : pager_parser_agrees_stmt.
Proof. exact pager_parser_agrees. Qed.
Print Assumptions C02_pager_parser_agrees.

Theorem C02_pager_parser_agrees_certified : pager_parser_agrees_certified_stmt.
Proof. exact pager_parser_agrees_certified. Qed.
Print Assumptions C02_pager_parser_agrees_certified.

(* termination: for every oracle of hash orders the mirrored loop stops; with never_panics the construction is total up to the deliberate StorageT size checks *)

Theorem C02_sub_kernel_weakly_compatible : sub_kernel_weakly_compatible_stmt.
Proof. exact sub_kernel_weakly_compatible. Qed.
Print Assumptions C02_sub_kernel_weakly_compatible.

Theorem C02_pager_mirror_terminates : pager_mirror_terminates_stmt.
Proof. exact pager_mirror_terminates. Qed.
Print Assumptions C02_pager_mirror_terminates.

Theorem C02_pager_mirror_total : pager_mirror_total_stmt.
Proof. exact pager_mirror_total. Qed.
Print Assumptions C02_pager_mirror_total.

Theorem C02_pager_construction_correct : pager_construction_correct_stmt.
Proof. exact pager_construction_correct. Qed.
Print Assumptions C02_pager_construction_correct.

(* ---- textbook LR(1) ------------------------------------------------------------------------------------

   [lr1_grammar] above is stated over the closure that FOLLOWS THE CODE (LR/CloseSpec.v lr1_closure_rel: an
   item is present below its parent even with an EMPTY lookahead set).  The property says "LR(1)": the
   textbook canonical collection over single-lookahead items, [lr1_textbook_grammar].  The two notions
   coincide on productive grammars — every theorem above that assumes [lr1_grammar g] is a theorem about
   textbook-LR(1) grammars g as long as every rule of g derives a token string — and differ otherwise:
   KNOWN FINDING, an item without lookahead costs a textbook-LR(1) grammar with an unproductive rule its
   determinism (spurious shift/reduce conflict, more states than the canonical collection, a sentence
   rejected). *)

Theorem C02_lr1_textbook_check_sound : lr1_textbook_check_sound_stmt.
Proof. exact lr1_textbook_check_sound. Qed.
Print Assumptions C02_lr1_textbook_check_sound.

Theorem C02_tb_after_characterisation : tb_after_characterisation_stmt.
Proof. exact tb_after_characterisation. Qed.
Print Assumptions C02_tb_after_characterisation.

Theorem C02_lr1_textbook_states : lr1_textbook_states_stmt.
Proof. exact lr1_textbook_states. Qed.
Print Assumptions C02_lr1_textbook_states.

Theorem C02_lr1_grammar_textbook : lr1_grammar_textbook_stmt.
Proof. exact lr1_grammar_textbook. Qed.
Print Assumptions C02_lr1_grammar_textbook.

Theorem C02_lr1_notions_agree_productive : lr1_notions_agree_productive_stmt.
Proof. exact lr1_notions_agree_productive. Qed.
Print Assumptions C02_lr1_notions_agree_productive.

Theorem C02_lr1_notions_differ_refuted : lr1_notions_differ_refuted_stmt.
Proof. exact lr1_notions_differ_refuted. Qed.
Print Assumptions C02_lr1_notions_differ_refuted.

Theorem C02_phantom_needs_unproductive : phantom_needs_unproductive_stmt.
Proof. exact phantom_needs_unproductive. Qed.
Print Assumptions C02_phantom_needs_unproductive.

Theorem C02_phantom_item_costs_determinism_refuted : phantom_item_costs_determinism_refuted_stmt.
Proof. exact phantom_item_costs_determinism_refuted. Qed.
Print Assumptions C02_phantom_item_costs_determinism_refuted.

(* last clause, "never more states than the canonical automaton" (CountSpec.v): the full statement
   [pager_states_le_canonical_stmt] is stated there and NOT proved; proved parts: *)
From GV Require Import C02.CountSpec C02.CountProofs.

Theorem C02_live_state_covers_canonical : live_state_covers_canonical_stmt.
Proof. exact live_state_covers_canonical. Qed.
Print Assumptions C02_live_state_covers_canonical.

Theorem C02_pager_run_complete : pager_run_complete_stmt.
Proof. exact pager_run_complete. Qed.
Print Assumptions C02_pager_run_complete.

Theorem C02_pg_run_deterministic : pg_run_deterministic_stmt.
Proof. exact pg_run_deterministic. Qed.
Print Assumptions C02_pg_run_deterministic.

Theorem C02_state_has_viable_path : state_has_viable_path_stmt.
Proof. exact state_has_viable_path. Qed.
Print Assumptions C02_state_has_viable_path.

Theorem C02_pager_states_le_canonical_partial : pager_states_le_canonical_partial_stmt.
Proof. exact pager_states_le_canonical_partial. Qed.
Print Assumptions C02_pager_states_le_canonical_partial.

Theorem C02_distinct_cores_path_function : distinct_cores_path_function_stmt.
Proof. exact distinct_cores_path_function. Qed.
Print Assumptions C02_distinct_cores_path_function.

Theorem C02_pager_states_le_canonical_distinct_cores : pager_states_le_canonical_distinct_cores_stmt.
Proof. exact pager_states_le_canonical_distinct_cores. Qed.
Print Assumptions C02_pager_states_le_canonical_distinct_cores.
