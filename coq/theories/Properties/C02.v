From GV Require Import Base.Grammar Base.Analyses LR.Automaton LR.Validator LR.Spec LR.Agree.

Theorem C02_validated_automata_agree : validated_automata_agree_stmt.
Proof. exact validated_automata_agree. Qed.
Print Assumptions C02_validated_automata_agree.
