From GV Require Import Base.Grammar LR.Automaton Repair.Semantics Repair.Spec Repair.Proofs Repair.Example.

From GV Require LR.TermSpec Properties.LRterm.
Theorem C07_errors_spaced : errors_spaced_stmt.
Proof. exact errors_spaced. Qed.
Print Assumptions C07_errors_spaced.

Theorem C07_errors_strictly_increase : errors_strictly_increase_stmt.
Proof. exact errors_strictly_increase. Qed.
Print Assumptions C07_errors_strictly_increase.

Theorem C07_error_count_bounded : error_count_bounded_stmt.
Proof. exact error_count_bounded. Qed.
Print Assumptions C07_error_count_bounded.

Theorem C07_driver_terminates : driver_terminates_stmt.
Proof. exact driver_terminates. Qed.
Print Assumptions C07_driver_terminates.

Theorem C07_value_iff_all_repaired : value_iff_all_repaired_stmt.
Proof. exact value_iff_all_repaired. Qed.
Print Assumptions C07_value_iff_all_repaired.

Theorem C07_only_last_unrepaired : only_last_unrepaired_stmt.
Proof. exact only_last_unrepaired. Qed.
Print Assumptions C07_only_last_unrepaired.

Theorem C07_clean_accept : clean_accept_stmt.
Proof. exact clean_accept. Qed.
Print Assumptions C07_clean_accept.

Theorem C07_first_error_is_plain_reject : first_error_is_plain_reject_stmt.
Proof. exact first_error_is_plain_reject. Qed.
Print Assumptions C07_first_error_is_plain_reject.

Theorem C07_valid_repair_progress : valid_repair_progress_stmt.
Proof. exact valid_repair_progress. Qed.
Print Assumptions C07_valid_repair_progress.

(* "a parse always returns": the plain LR loop terminates within lr_fuel for every table passing validS/validE of a
   grammar without derivation cycles AND without hidden left recursion (no validC: conflict-resolved tables included);
   hidden left recursion is excluded automatically for validated conflict-free tables; without it the statement is
   refuted by the implementation's own table for S: 'c' 'c' A | B; A: | B 'b'; B: 'a' 'a' 'd' | A A (known finding) *)
Theorem C07_lr_terminates : GV.LR.TermSpec.lr_terminates_stmt.
Proof. exact GV.Properties.LRterm.LRterm_lr_terminates. Qed.
Print Assumptions C07_lr_terminates.

Theorem C07_lr_terminates_b : GV.LR.TermSpec.lr_terminates_b_stmt.
Proof. exact GV.Properties.LRterm.LRterm_lr_terminates_b. Qed.
Print Assumptions C07_lr_terminates_b.

Theorem C07_lr_terminates_validated : GV.LR.TermSpec.lr_terminates_validated_stmt.
Proof. exact GV.Properties.LRterm.LRterm_lr_terminates_validated. Qed.
Print Assumptions C07_lr_terminates_validated.

Theorem C07_acyclic_b_sound : GV.LR.TermSpec.acyclic_b_sound_stmt.
Proof. exact GV.Properties.LRterm.LRterm_acyclic_b_sound. Qed.
Print Assumptions C07_acyclic_b_sound.

Theorem C07_acyclic_b_complete : GV.LR.TermSpec.acyclic_b_complete_stmt.
Proof. exact GV.Properties.LRterm.LRterm_acyclic_b_complete. Qed.
Print Assumptions C07_acyclic_b_complete.

Theorem C07_hlr_free_b_sound : GV.LR.TermSpec.hlr_free_b_sound_stmt.
Proof. exact GV.Properties.LRterm.LRterm_hlr_free_b_sound. Qed.
Print Assumptions C07_hlr_free_b_sound.

Theorem C07_hlr_free_b_complete : GV.LR.TermSpec.hlr_free_b_complete_stmt.
Proof. exact GV.Properties.LRterm.LRterm_hlr_free_b_complete. Qed.
Print Assumptions C07_hlr_free_b_complete.

Theorem C07_lr_terminates_validS_only_refuted : GV.LR.TermSpec.lr_terminates_validS_only_refuted_stmt.
Proof. exact GV.Properties.LRterm.LRterm_lr_terminates_validS_only_refuted. Qed.
Print Assumptions C07_lr_terminates_validS_only_refuted.


(* ---- "a parse always returns" on deep parse stacks: the native stack the recoverer needs to release its
   copy of the parse stack (CPCTPlus::recover, /repo 4f40408) ---- *)
From GV Require C07.DropModel C07.DropSpec C07.DropProofs.

Theorem C07_start_cactus_nodes : GV.C07.DropSpec.start_cactus_nodes_stmt.
Proof. exact GV.C07.DropProofs.start_cactus_nodes. Qed.
Print Assumptions C07_start_cactus_nodes.

Theorem C07_drop_recursive_depth : GV.C07.DropSpec.drop_recursive_depth_stmt.
Proof. exact GV.C07.DropProofs.drop_recursive_depth. Qed.
Print Assumptions C07_drop_recursive_depth.

Theorem C07_drop_iterative_depth : GV.C07.DropSpec.drop_iterative_depth_stmt.
Proof. exact GV.C07.DropProofs.drop_iterative_depth. Qed.
Print Assumptions C07_drop_iterative_depth.

Theorem C07_guarded_drop_depth : GV.C07.DropSpec.guarded_drop_depth_stmt.
Proof. exact GV.C07.DropProofs.guarded_drop_depth. Qed.
Print Assumptions C07_guarded_drop_depth.

(* the repaired recoverer needs a constant native stack ... *)
Theorem C07_recover_drop_depth_bounded : GV.C07.DropSpec.recover_drop_depth_bounded_stmt.
Proof. exact GV.C07.DropProofs.recover_drop_depth_bounded. Qed.
Print Assumptions C07_recover_drop_depth_bounded.

(* ... the pinned one a native stack proportional to the parse depth: no stack is large enough *)
Theorem C07_recover_drop_depth_unbounded_refuted : GV.C07.DropSpec.recover_drop_depth_unbounded_refuted_stmt.
Proof. exact GV.C07.DropProofs.recover_drop_depth_unbounded_refuted. Qed.
Print Assumptions C07_recover_drop_depth_unbounded_refuted.
