From GV Require Import Base.Grammar LR.Automaton Repair.Semantics Repair.Spec Repair.Proofs Repair.Example.

Theorem C07_errors_spaced : errors_spaced_stmt.
Proof. exact errors_spaced. Qed.
Print Assumptions C07_errors_spaced.

Theorem C07_errors_strictly_increase : errors_strictly_increase_stmt.
Proof. exact errors_strictly_increase. Qed.
Print Assumptions C07_errors_strictly_increase.

Theorem C07_error_count_bounded : error_count_bounded_stmt.
Proof. exact error_count_bounded. Qed.
Print Assumptions C07_error_count_bounded.

Theorem C07_driver_terminates : driver_terminates_stmt.
Proof. exact driver_terminates. Qed.
Print Assumptions C07_driver_terminates.

Theorem C07_value_iff_all_repaired : value_iff_all_repaired_stmt.
Proof. exact value_iff_all_repaired. Qed.
Print Assumptions C07_value_iff_all_repaired.

Theorem C07_only_last_unrepaired : only_last_unrepaired_stmt.
Proof. exact only_last_unrepaired. Qed.
Print Assumptions C07_only_last_unrepaired.

Theorem C07_clean_accept : clean_accept_stmt.
Proof. exact clean_accept. Qed.
Print Assumptions C07_clean_accept.

Theorem C07_first_error_is_plain_reject : first_error_is_plain_reject_stmt.
Proof. exact first_error_is_plain_reject. Qed.
Print Assumptions C07_first_error_is_plain_reject.

Theorem C07_valid_repair_progress : valid_repair_progress_stmt.
Proof. exact valid_repair_progress. Qed.
Print Assumptions C07_valid_repair_progress.
