From GV Require Import Common.Outcome Base.Grammar Base.Analyses Base.AnalysesProofs C17.Model C17.Spec C17.Proofs.

From GV Require Import Common.Outcome Base.Grammar Base.Analyses C17.MirrorModel C17.MirrorSpec C17.MirrorProofs.
Theorem C17_nullable_exact : nullable_ref_exact_stmt.
Proof. exact nullable_ref_exact. Qed.
Print Assumptions C17_nullable_exact.

Theorem C17_first_exact : first_ref_exact_stmt.
Proof. exact first_ref_exact. Qed.
Print Assumptions C17_first_exact.

Theorem C17_has_path_exact : reach_ref_exact_stmt.
Proof. exact reach_ref_exact. Qed.
Print Assumptions C17_has_path_exact.

Theorem C17_follow_strict_exact : follow_strict_exact_stmt.
Proof. exact follow_strict_exact. Qed.
Print Assumptions C17_follow_strict_exact.

Theorem C17_follow_textbook_exact : follow_textbook_exact_stmt.
Proof. exact follow_textbook_exact. Qed.
Print Assumptions C17_follow_textbook_exact.

Theorem C17_nullable_total : nullable_ref_total_stmt.
Proof. exact nullable_ref_total. Qed.
Print Assumptions C17_nullable_total.

Theorem C17_first_total : first_ref_total_stmt.
Proof. exact first_ref_total. Qed.
Print Assumptions C17_first_total.

Theorem C17_has_path_total : reach_ref_total_stmt.
Proof. exact reach_ref_total. Qed.
Print Assumptions C17_has_path_total.

Theorem C17_follow_total : follow_ref_total_stmt.
Proof. exact follow_ref_total. Qed.
Print Assumptions C17_follow_total.

Theorem C17_min_cost_certificate : min_cost_certificate_stmt.
Proof. exact min_cost_certificate. Qed.
Print Assumptions C17_min_cost_certificate.

Theorem C17_min_cost_productive : min_cost_productive_stmt.
Proof. exact min_cost_productive. Qed.
Print Assumptions C17_min_cost_productive.

Theorem C17_max_cost_finite_certificate : max_cost_finite_certificate_stmt.
Proof. exact max_cost_finite_certificate. Qed.
Print Assumptions C17_max_cost_finite_certificate.

Theorem C17_max_cost_unbounded_certificate : max_cost_unbounded_certificate_stmt.
Proof. exact max_cost_unbounded_certificate. Qed.
Print Assumptions C17_max_cost_unbounded_certificate.

Theorem C17_certified_costs_exact : certified_costs_exact_stmt.
Proof. exact certified_costs_exact. Qed.
Print Assumptions C17_certified_costs_exact.

Theorem C17_mc_fixpoint_diverges : mc_fixpoint_diverges_stmt.
Proof. exact mc_fixpoint_diverges. Qed.
Print Assumptions C17_mc_fixpoint_diverges.

Theorem C17_min_iter_diverges_refuted : min_iter_diverges_refuted_stmt.
Proof. exact min_iter_diverges_refuted. Qed.
Print Assumptions C17_min_iter_diverges_refuted.

Theorem C17_mc_run_spec : mc_run_spec_stmt.
Proof. exact mc_run_spec. Qed.
Print Assumptions C17_mc_run_spec.

(* the implementation's own FIRST/FOLLOW algorithms (mirrors of YaccFirsts::new / YaccFollows::new) are exact and terminate *)

Theorem C17_firsts_mirror_exact : firsts_mirror_exact_stmt.
Proof. exact firsts_mirror_exact. Qed.
Print Assumptions C17_firsts_mirror_exact.

Theorem C17_firsts_mirror_terminates : firsts_mirror_terminates_stmt.
Proof. exact firsts_mirror_terminates. Qed.
Print Assumptions C17_firsts_mirror_terminates.

Theorem C17_follows_mirror_exact : follows_mirror_exact_stmt.
Proof. exact follows_mirror_exact. Qed.
Print Assumptions C17_follows_mirror_exact.

Theorem C17_follows_mirror_strict : follows_mirror_strict_stmt.
Proof. exact follows_mirror_strict. Qed.
Print Assumptions C17_follows_mirror_strict.

Theorem C17_follows_mirror_strict_refuted : follows_mirror_strict_refuted_stmt.
Proof. exact follows_mirror_strict_refuted. Qed.
Print Assumptions C17_follows_mirror_strict_refuted.

Theorem C17_follows_mirror_terminates : follows_mirror_terminates_stmt.
Proof. exact follows_mirror_terminates. Qed.
Print Assumptions C17_follows_mirror_terminates.

Theorem C17_ff_mirror_total_exact : ff_mirror_total_exact_stmt.
Proof. exact ff_mirror_total_exact. Qed.
Print Assumptions C17_ff_mirror_total_exact.

Theorem C17_follows_mirror_orig_refuted : follows_mirror_orig_refuted_stmt.
Proof. exact follows_mirror_orig_refuted. Qed.
Print Assumptions C17_follows_mirror_orig_refuted.

Theorem C17_follows_mirror_orig_sound : follows_mirror_orig_sound_stmt.
Proof. exact follows_mirror_orig_sound. Qed.
Print Assumptions C17_follows_mirror_orig_sound.

(* the REPAIRED rule_min_costs / rule_max_costs (notes/C17-costs-fix.diff; mirrors in C17/CostMirror.v): terminate within their fuel,
   exact against the declarative minimum / maximum / unboundedness, overflow panics only for true finite costs beyond u16.
   (C17_min_iter_diverges_refuted above stays: it documents the defect of the original loop.) *)
From GV Require Import C17.CostMirror C17.CostMirrorSpec C17.CostMirrorProofs.
Theorem C17_min_costs_fixed_exact : min_costs_fixed_exact_stmt.
Proof. exact min_costs_fixed_exact. Qed.
Print Assumptions C17_min_costs_fixed_exact.

Theorem C17_max_costs_fixed_exact : max_costs_fixed_exact_stmt.
Proof. exact max_costs_fixed_exact. Qed.
Print Assumptions C17_max_costs_fixed_exact.

Theorem C17_fixed_costs_terminate : fixed_costs_terminate_stmt.
Proof. exact fixed_costs_terminate. Qed.
Print Assumptions C17_fixed_costs_terminate.

Theorem C17_min_costs_fixed_panic_iff : min_costs_fixed_panic_iff_stmt.
Proof. exact min_costs_fixed_panic_iff. Qed.
Print Assumptions C17_min_costs_fixed_panic_iff.

Theorem C17_max_costs_fixed_panic_iff : max_costs_fixed_panic_iff_stmt.
Proof. exact max_costs_fixed_panic_iff. Qed.
Print Assumptions C17_max_costs_fixed_panic_iff.

Theorem C17_fixed_costs_agree_certified : fixed_costs_agree_certified_stmt.
Proof. exact fixed_costs_agree_certified. Qed.
Print Assumptions C17_fixed_costs_agree_certified.
