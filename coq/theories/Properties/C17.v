From GV Require Import Common.Outcome Base.Grammar Base.Analyses Base.AnalysesProofs C17.Model C17.Spec C17.Proofs.

From GV Require Import Common.Outcome Base.Grammar Base.Analyses C17.MirrorModel C17.MirrorSpec C17.MirrorProofs.
Theorem C17_nullable_exact : nullable_ref_exact_stmt.
Proof. exact nullable_ref_exact. Qed.
Print Assumptions C17_nullable_exact.

Theorem C17_first_exact : first_ref_exact_stmt.
Proof. exact first_ref_exact. Qed.
Print Assumptions C17_first_exact.

Theorem C17_has_path_exact : reach_ref_exact_stmt.
Proof. exact reach_ref_exact. Qed.
Print Assumptions C17_has_path_exact.

Theorem C17_follow_strict_exact : follow_strict_exact_stmt.
Proof. exact follow_strict_exact. Qed.
Print Assumptions C17_follow_strict_exact.

Theorem C17_follow_textbook_exact : follow_textbook_exact_stmt.
Proof. exact follow_textbook_exact. Qed.
Print Assumptions C17_follow_textbook_exact.

Theorem C17_nullable_total : nullable_ref_total_stmt.
Proof. exact nullable_ref_total. Qed.
Print Assumptions C17_nullable_total.

Theorem C17_first_total : first_ref_total_stmt.
Proof. exact first_ref_total. Qed.
Print Assumptions C17_first_total.

Theorem C17_has_path_total : reach_ref_total_stmt.
Proof. exact reach_ref_total. Qed.
Print Assumptions C17_has_path_total.

Theorem C17_follow_total : follow_ref_total_stmt.
Proof. exact follow_ref_total. Qed.
Print Assumptions C17_follow_total.

Theorem C17_min_cost_certificate : min_cost_certificate_stmt.
Proof. exact min_cost_certificate. Qed.
Print Assumptions C17_min_cost_certificate.

Theorem C17_min_cost_productive : min_cost_productive_stmt.
Proof. exact min_cost_productive. Qed.
Print Assumptions C17_min_cost_productive.

Theorem C17_max_cost_finite_certificate : max_cost_finite_certificate_stmt.
Proof. exact max_cost_finite_certificate. Qed.
Print Assumptions C17_max_cost_finite_certificate.

Theorem C17_max_cost_unbounded_certificate : max_cost_unbounded_certificate_stmt.
Proof. exact max_cost_unbounded_certificate. Qed.
Print Assumptions C17_max_cost_unbounded_certificate.

Theorem C17_certified_costs_exact : certified_costs_exact_stmt.
Proof. exact certified_costs_exact. Qed.
Print Assumptions C17_certified_costs_exact.

Theorem C17_mc_fixpoint_diverges : mc_fixpoint_diverges_stmt.
Proof. exact mc_fixpoint_diverges. Qed.
Print Assumptions C17_mc_fixpoint_diverges.

Theorem C17_min_iter_diverges_refuted : min_iter_diverges_refuted_stmt.
Proof. exact min_iter_diverges_refuted. Qed.
Print Assumptions C17_min_iter_diverges_refuted.

Theorem C17_mc_run_spec : mc_run_spec_stmt.
Proof. exact mc_run_spec. Qed.
Print Assumptions C17_mc_run_spec.

(* the implementation's own FIRST/FOLLOW algorithms (mirrors of YaccFirsts::new / YaccFollows::new) are exact and terminate *)

Theorem C17_firsts_mirror_exact : firsts_mirror_exact_stmt.
Proof. exact firsts_mirror_exact. Qed.
Print Assumptions C17_firsts_mirror_exact.

Theorem C17_firsts_mirror_terminates : firsts_mirror_terminates_stmt.
Proof. exact firsts_mirror_terminates. Qed.
Print Assumptions C17_firsts_mirror_terminates.

Theorem C17_follows_mirror_exact : follows_mirror_exact_stmt.
Proof. exact follows_mirror_exact. Qed.
Print Assumptions C17_follows_mirror_exact.

Theorem C17_follows_mirror_strict : follows_mirror_strict_stmt.
Proof. exact follows_mirror_strict. Qed.
Print Assumptions C17_follows_mirror_strict.

Theorem C17_follows_mirror_strict_refuted : follows_mirror_strict_refuted_stmt.
Proof. exact follows_mirror_strict_refuted. Qed.
Print Assumptions C17_follows_mirror_strict_refuted.

Theorem C17_follows_mirror_terminates : follows_mirror_terminates_stmt.
Proof. exact follows_mirror_terminates. Qed.
Print Assumptions C17_follows_mirror_terminates.

Theorem C17_ff_mirror_total_exact : ff_mirror_total_exact_stmt.
Proof. exact ff_mirror_total_exact. Qed.
Print Assumptions C17_ff_mirror_total_exact.

Theorem C17_follows_mirror_orig_refuted : follows_mirror_orig_refuted_stmt.
Proof. exact follows_mirror_orig_refuted. Qed.
Print Assumptions C17_follows_mirror_orig_refuted.

Theorem C17_follows_mirror_orig_sound : follows_mirror_orig_sound_stmt.
Proof. exact follows_mirror_orig_sound. Qed.
Print Assumptions C17_follows_mirror_orig_sound.

(* the REPAIRED rule_min_costs / rule_max_costs (notes/C17-costs-fix.diff; mirrors in C17/CostMirror.v): terminate within their fuel,
   exact against the declarative minimum / maximum / unboundedness, overflow panics only for true finite costs beyond u16.
   (C17_min_iter_diverges_refuted above stays: it documents the defect of the original loop.) *)
From GV Require Import C17.CostMirror C17.CostMirrorSpec C17.CostMirrorProofs.
Theorem C17_min_costs_fixed_exact : min_costs_fixed_exact_stmt.
Proof. exact min_costs_fixed_exact. Qed.
Print Assumptions C17_min_costs_fixed_exact.

Theorem C17_max_costs_fixed_exact : max_costs_fixed_exact_stmt.
Proof. exact max_costs_fixed_exact. Qed.
Print Assumptions C17_max_costs_fixed_exact.

Theorem C17_fixed_costs_terminate : fixed_costs_terminate_stmt.
Proof. exact fixed_costs_terminate. Qed.
Print Assumptions C17_fixed_costs_terminate.

Theorem C17_min_costs_fixed_panic_iff : min_costs_fixed_panic_iff_stmt.
Proof. exact min_costs_fixed_panic_iff. Qed.
Print Assumptions C17_min_costs_fixed_panic_iff.

Theorem C17_max_costs_fixed_panic_iff : max_costs_fixed_panic_iff_stmt.
Proof. exact max_costs_fixed_panic_iff. Qed.
Print Assumptions C17_max_costs_fixed_panic_iff.

Theorem C17_fixed_costs_agree_certified : fixed_costs_agree_certified_stmt.
Proof. exact fixed_costs_agree_certified. Qed.
Print Assumptions C17_fixed_costs_agree_certified.

(* the public QUERIES on top of the cost tables (C17/QueryModel.v).  (1) A min/max_sentence_cost query about one rule computes
   and overflow-checks the table of ALL rules: it answers the true value or panics because SOME rule's true finite cost is
   >= 65535 — the asked rule's own (the refusal the u16 result forces) or an unrelated one's (known finding
   C17-overflow-unrelated-rule; refuted for the mirror with a certified witness).  (2) min_sentences_below recurses on the native
   stack, one frame per rule along a chain of distinct rules: the [active] guard bounds the depth by rules_len()
   (C17_min_sentences_depth_le_rules, attained: _bound_tight), and for every frame budget a chain grammar exhausts it
   (C17_min_sentences_depth_unbounded_refuted; known finding C17-min_sentences-recursion-depth). *)
From GV Require Import C17.QueryModel C17.QuerySpec C17.QueryProofs.
Theorem C17_cost_query_exact_or_foreign_overflow : cost_query_exact_or_foreign_overflow_stmt.
Proof. exact cost_query_exact_or_foreign_overflow. Qed.
Print Assumptions C17_cost_query_exact_or_foreign_overflow.

Theorem C17_cost_query_panics_only_if_own_or_foreign : cost_query_panics_only_if_own_or_foreign_stmt.
Proof. exact cost_query_panics_only_if_own_or_foreign. Qed.
Print Assumptions C17_cost_query_panics_only_if_own_or_foreign.

Theorem C17_cost_panic_unrelated_rule_refuted : cost_panic_unrelated_rule_refuted_stmt.
Proof. exact cost_panic_unrelated_rule_refuted. Qed.
Print Assumptions C17_cost_panic_unrelated_rule_refuted.

Theorem C17_min_sentences_depth_le_rules : min_sentences_depth_le_rules_stmt.
Proof. exact min_sentences_depth_le_rules. Qed.
Print Assumptions C17_min_sentences_depth_le_rules.

Theorem C17_min_sentences_chain_threshold : min_sentences_chain_threshold_stmt.
Proof. exact min_sentences_chain_threshold. Qed.
Print Assumptions C17_min_sentences_chain_threshold.

Theorem C17_min_sentences_depth_unbounded_refuted : min_sentences_depth_unbounded_refuted_stmt.
Proof. exact min_sentences_depth_unbounded_refuted. Qed.
Print Assumptions C17_min_sentences_depth_unbounded_refuted.

Theorem C17_min_sentences_depth_bound_tight : min_sentences_depth_bound_tight_stmt.
Proof. exact min_sentences_depth_bound_tight. Qed.
Print Assumptions C17_min_sentences_depth_bound_tight.

(* min_sentences on a clique of mutually recursive unit productions (C17/QueryClique.v): the `active` flags exclude only the
   rules of the current path and nothing is memoised or de-duplicated, so every simple path of the rule graph is walked and the
   one minimal sentence is returned once per path (known finding C17-min_sentences-factorial-paths; witnesses on the mirror). *)
From GV Require Import C17.QueryClique.

Theorem C17_min_sentences_clique_copies : min_sentences_clique_copies_stmt.
Proof. exact min_sentences_clique_copies. Qed.
Print Assumptions C17_min_sentences_clique_copies.

Theorem C17_min_sentences_answer_not_duplicate_free_refuted : min_sentences_answer_not_duplicate_free_refuted_stmt.
Proof. exact min_sentences_answer_not_duplicate_free_refuted. Qed.
Print Assumptions C17_min_sentences_answer_not_duplicate_free_refuted.
