From GV Require Import Common.Outcome Base.Grammar Base.Analyses C17.MirrorModel C17.MirrorSpec C17.MirrorProofs.

Theorem C17_firsts_mirror_exact : firsts_mirror_exact_stmt.
Proof. exact firsts_mirror_exact. Qed.
Print Assumptions C17_firsts_mirror_exact.

Theorem C17_firsts_mirror_terminates : firsts_mirror_terminates_stmt.
Proof. exact firsts_mirror_terminates. Qed.
Print Assumptions C17_firsts_mirror_terminates.

Theorem C17_follows_mirror_exact : follows_mirror_exact_stmt.
Proof. exact follows_mirror_exact. Qed.
Print Assumptions C17_follows_mirror_exact.

Theorem C17_follows_mirror_strict : follows_mirror_strict_stmt.
Proof. exact follows_mirror_strict. Qed.
Print Assumptions C17_follows_mirror_strict.

Theorem C17_follows_mirror_strict_refuted : follows_mirror_strict_refuted_stmt.
Proof. exact follows_mirror_strict_refuted. Qed.
Print Assumptions C17_follows_mirror_strict_refuted.

Theorem C17_follows_mirror_terminates : follows_mirror_terminates_stmt.
Proof. exact follows_mirror_terminates. Qed.
Print Assumptions C17_follows_mirror_terminates.

Theorem C17_ff_mirror_total_exact : ff_mirror_total_exact_stmt.
Proof. exact ff_mirror_total_exact. Qed.
Print Assumptions C17_ff_mirror_total_exact.

Theorem C17_follows_mirror_orig_refuted : follows_mirror_orig_refuted_stmt.
Proof. exact follows_mirror_orig_refuted. Qed.
Print Assumptions C17_follows_mirror_orig_refuted.

Theorem C17_follows_mirror_orig_sound : follows_mirror_orig_sound_stmt.
Proof. exact follows_mirror_orig_sound. Qed.
Print Assumptions C17_follows_mirror_orig_sound.
