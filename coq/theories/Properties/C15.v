From GV Require Import Common.Outcome C15.Model C15.Spec C15.Lemmas C15.Proofs C15.ProofsGc C15.ProofsOnce
  C15.EppModel C15.EppSpec C15.EppProofs.

Theorem C15_build_implicit_order_insensitive_refuted : build_implicit_order_insensitive_refuted_stmt.
Proof. exact build_implicit_order_insensitive_refuted. Qed.
Print Assumptions C15_build_implicit_order_insensitive_refuted.

Theorem C15_build_implicit_sensitive : build_implicit_sensitive_stmt.
Proof. exact build_implicit_sensitive. Qed.
Print Assumptions C15_build_implicit_sensitive.

Theorem C15_build_implicit_injective : build_implicit_injective_stmt.
Proof. exact build_implicit_injective. Qed.
Print Assumptions C15_build_implicit_injective.

Theorem C15_build_implicit_invariants : build_implicit_invariants_stmt.
Proof. exact build_implicit_invariants. Qed.
Print Assumptions C15_build_implicit_invariants.

Theorem C15_build_implicit_le1_order_insensitive : build_implicit_le1_order_insensitive_stmt.
Proof. exact build_implicit_le1_order_insensitive. Qed.
Print Assumptions C15_build_implicit_le1_order_insensitive.

Theorem C15_build_implicit_fixed_order_insensitive : build_implicit_fixed_order_insensitive_stmt.
Proof. exact build_implicit_fixed_order_insensitive. Qed.
Print Assumptions C15_build_implicit_fixed_order_insensitive.

Theorem C15_build_implicit_fixed_is_an_order : build_implicit_fixed_is_an_order_stmt.
Proof. exact build_implicit_fixed_is_an_order. Qed.
Print Assumptions C15_build_implicit_fixed_is_an_order.

Theorem C15_avoid_insert_order_insensitive : avoid_insert_order_insensitive_stmt.
Proof. exact avoid_insert_order_insensitive. Qed.
Print Assumptions C15_avoid_insert_order_insensitive.

Theorem C15_avoid_insert_spec : avoid_insert_spec_stmt.
Proof. exact avoid_insert_spec. Qed.
Print Assumptions C15_avoid_insert_spec.

Theorem C15_gc_walk_reachable : gc_walk_reachable_stmt.
Proof. exact gc_walk_reachable. Qed.
Print Assumptions C15_gc_walk_reachable.

Theorem C15_gc_order_insensitive : gc_order_insensitive_stmt.
Proof. exact gc_order_insensitive. Qed.
Print Assumptions C15_gc_order_insensitive.

Theorem C15_gc_renumbering_monotone : gc_renumbering_monotone_stmt.
Proof. exact gc_renumbering_monotone. Qed.
Print Assumptions C15_gc_renumbering_monotone.

Theorem C15_table_row_order_insensitive : table_row_order_insensitive_stmt.
Proof. exact table_row_order_insensitive. Qed.
Print Assumptions C15_table_row_order_insensitive.

Theorem C15_table_row_bytes_order_insensitive_refuted : table_row_bytes_order_insensitive_refuted_stmt.
Proof. exact table_row_bytes_order_insensitive_refuted. Qed.
Print Assumptions C15_table_row_bytes_order_insensitive_refuted.

Theorem C15_table_row_fixed_order_insensitive : table_row_fixed_order_insensitive_stmt.
Proof. exact table_row_fixed_order_insensitive. Qed.
Print Assumptions C15_table_row_fixed_order_insensitive.

Theorem C15_once_init_linearizable : once_init_linearizable_stmt.
Proof. exact once_init_linearizable. Qed.
Print Assumptions C15_once_init_linearizable.

Theorem C15_once_init_progress : once_init_progress_stmt.
Proof. exact once_init_progress. Qed.
Print Assumptions C15_once_init_progress.

Theorem C15_validate_epp_order_insensitive : validate_epp_order_insensitive_stmt.
Proof. exact validate_epp_order_insensitive. Qed.
Print Assumptions C15_validate_epp_order_insensitive.

Theorem C15_validate_epp_min_spec : validate_epp_min_spec_stmt.
Proof. exact validate_epp_min_spec. Qed.
Print Assumptions C15_validate_epp_min_spec.

Theorem C15_validate_epp_min_is_source_order : validate_epp_min_is_source_order_stmt.
Proof. exact validate_epp_min_is_source_order. Qed.
Print Assumptions C15_validate_epp_min_is_source_order.

Theorem C15_validate_epp_first_found_refuted : validate_epp_first_found_refuted_stmt.
Proof. exact validate_epp_first_found_refuted. Qed.
Print Assumptions C15_validate_epp_first_found_refuted.

Theorem C15_validate_epp_first_found_sensitive : validate_epp_first_found_sensitive_stmt.
Proof. exact validate_epp_first_found_sensitive. Qed.
Print Assumptions C15_validate_epp_first_found_sensitive.
