From GV Require Import Base.Grammar LR.Automaton Repair.Semantics Repair.Spec Repair.Proofs Repair.Continue Repair.Search Repair.Confluent Repair.Example.

From GV Require Import Base.Grammar LR.Automaton LR.Validator LR.Spec Repair.Semantics Repair.Spec Repair.Search Repair.Confluent Repair.ConfluentSpec Repair.ConfluentValidated.
Theorem C05_valid_repair_progress : valid_repair_progress_stmt.
Proof. exact valid_repair_progress. Qed.
Print Assumptions C05_valid_repair_progress.

Theorem C05_valid_repair_plain_parse : valid_repair_plain_parse_stmt.
Proof. exact valid_repair_plain_parse. Qed.
Print Assumptions C05_valid_repair_plain_parse.

Theorem C05_continue_as_if_applied : continue_as_if_applied_stmt.
Proof. exact continue_as_if_applied. Qed.
Print Assumptions C05_continue_as_if_applied.

Theorem C05_success_stripped_valid : success_stripped_valid_stmt.
Proof. exact success_stripped_valid. Qed.
Print Assumptions C05_success_stripped_valid.

Theorem C05_del_ins_commute : del_ins_commute_stmt.
Proof. exact del_ins_commute. Qed.
Print Assumptions C05_del_ins_commute.

Theorem C05_clean_accept : clean_accept_stmt.
Proof. exact clean_accept. Qed.
Print Assumptions C05_clean_accept.

Theorem C05_first_error_is_plain_reject : first_error_is_plain_reject_stmt.
Proof. exact first_error_is_plain_reject. Qed.
Print Assumptions C05_first_error_is_plain_reject.

Theorem C05_dump_no_shift_eof_ok : dump_no_shift_eof_ok_stmt.
Proof. exact dump_no_shift_eof_ok. Qed.
Print Assumptions C05_dump_no_shift_eof_ok.

(* the finding: a success node of the search need not replay as a valid repair
   (witness: a precedence-resolved table; the implementation reports this sequence) *)
Theorem C05_search_sound_refuted : ~ search_sound_stmt.
Proof. exact search_sound_refuted. Qed.
Print Assumptions C05_search_sound_refuted.

(* ... and does so on reduce-confluent tables (e.g. tables whose reduce rows do not depend
   on the lookahead) *)
Theorem C05_search_sound_confluent : search_sound_confluent_stmt.
Proof. exact search_sound_confluent'. Qed.
Print Assumptions C05_search_sound_confluent.

Theorem C05_row_uniform_confluent : row_uniform_confluent_stmt.
Proof. exact row_uniform_confluent'. Qed.
Print Assumptions C05_row_uniform_confluent.

(* validated conflict-free tables ARE reduce-confluent (on graph stacks, in-range tokens, enough fuel), hence on them every
   sequence the search's move semantics produces is a valid repair *)
Theorem C05_validated_reduce_step : validated_reduce_step_stmt.
Proof. exact validated_reduce_step. Qed.
Print Assumptions C05_validated_reduce_step.

(* validated tables (validS, validC, validE, productive grammar) are reduce-confluent on graph
   stacks, for tokens of the grammar, at every sufficiently large reduction fuel *)
Theorem C05_validated_reduce_confluent : validated_reduce_confluent_stmt.
Proof. exact validated_reduce_confluent. Qed.
Print Assumptions C05_validated_reduce_confluent.

(* ... and at one fuel whenever the replay does not exhaust it *)
Theorem C05_validated_reduce_confluent_within_fuel : validated_reduce_confluent_within_fuel_stmt.
Proof. exact validated_reduce_confluent_within_fuel. Qed.
Print Assumptions C05_validated_reduce_confluent_within_fuel.

(* the stacks the recovery driver hands to the recoverer are graph stacks *)
Theorem C05_recover_stacks_graph : recover_stacks_graph_stmt.
Proof. exact recover_stacks_graph. Qed.
Print Assumptions C05_recover_stacks_graph.

(* search_sound_confluent with the confluence hypothesis discharged *)
Theorem C05_validated_search_sound : validated_search_sound_stmt.
Proof. exact validated_search_sound. Qed.
Print Assumptions C05_validated_search_sound.

Theorem C05_validated_search_sound_within_fuel : validated_search_sound_within_fuel_stmt.
Proof. exact validated_search_sound_within_fuel. Qed.
Print Assumptions C05_validated_search_sound_within_fuel.

(* C06 level: the executable mirror of the bucketed search, no confluence hypothesis *)


(* ---- which of several equally ranked sequences is applied (simplify_repairs, /repo ca69cd1) ---- *)
From GV Require C05.SimplifyModel C05.SimplifySpec C05.SimplifyProofs.

(* the repaired tail (insertion-ordered dedup + any stable sort) determines the reported list, hence
   the applied sequence, uniquely; the executable mirror is that list *)
Theorem C05_simplify_deterministic : GV.C05.SimplifySpec.simplify_deterministic_stmt.
Proof. exact GV.C05.SimplifyProofs.simplify_deterministic. Qed.
Print Assumptions C05_simplify_deterministic.

(* the pinned tail (any enumeration of a HashSet, unstable sort) admits two outputs with different heads *)
Theorem C05_simplify_refuted_orig : GV.C05.SimplifySpec.simplify_refuted_orig_stmt.
Proof. exact GV.C05.SimplifyProofs.simplify_refuted_orig. Qed.
Print Assumptions C05_simplify_refuted_orig.

Theorem C05_simplify_fixed_refines_orig : GV.C05.SimplifySpec.simplify_fixed_refines_orig_stmt.
Proof. exact GV.C05.SimplifyProofs.simplify_fixed_refines_orig. Qed.
Print Assumptions C05_simplify_fixed_refines_orig.

(* same-rank sequences keep the order in which they were found *)
Theorem C05_simplify_stable : GV.C05.SimplifySpec.simplify_stable_stmt.
Proof. exact GV.C05.SimplifyProofs.simplify_stable. Qed.
Print Assumptions C05_simplify_stable.

(* same SET as C06's simplify: the C06 theorems about the reported set apply unchanged *)
Theorem C05_simplify_same_set : GV.C05.SimplifySpec.simplify_same_set_stmt.
Proof. exact GV.C05.SimplifyProofs.simplify_same_set. Qed.
Print Assumptions C05_simplify_same_set.

(* ---- deep parse stacks (/repo 4f40408; the C07 entries are the same statements) ---- *)
From GV Require C07.DropSpec C07.DropProofs.
Theorem C05_recover_drop_depth_bounded : GV.C07.DropSpec.recover_drop_depth_bounded_stmt.
Proof. exact GV.C07.DropProofs.recover_drop_depth_bounded. Qed.
Print Assumptions C05_recover_drop_depth_bounded.
